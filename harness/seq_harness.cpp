// Correspondence harness for C14: Array, String, StringStream, StringView driven by whole test
// programs (one program per line, a table of three objects per program).
//
//   seq-array  <i|s|p> <op;op;...>    Array<int> / Array<String<char>> / Array<Plain> (trivially copyable, non-zero default)
//   seq-string <1|2|4> <op;...>       String<char|char16_t|char32_t>
//   seq-stream <1|2|4> <x|s> <op;...> StringStream<...>; x = exact-fit hook build, s = shipped policy
//   seq-view   <1|2|4> <op;...>       StringView<...>
//
// Output: dump of the three registers after every step, steps joined by '|' (same format as the Lean
// driver).  A std::vector shadow of every register is updated with the plain-sequence meaning of
// each operation; "!shadow" is appended to a step whose real content differs from it.
// All library objects of a program are destroyed before its line is emitted (registers are deleted at
// the end of run_*; temporaries live inside one operation), so the ledger must report live=0.
#include <new>
#include "ledger.hpp"   // C16: with -DVERIF_LEDGER every line carries its allocation trace (" ##L … live=n")
#include "common.hpp"
#include "Array.hpp"
#include "String.hpp"
#include "StringView.hpp"
#include "StringStream.hpp"
#include <memory>
using namespace Qentem;
using U64 = uint64_t;
using Vec = std::vector<U64>;

static bool nat(const std::string &s, U64 &v) {
    if (s.empty()) return false;
    for (char c : s) if (c < '0' || c > '9') return false;
    v = strtoull(s.c_str(), nullptr, 10);
    return true;
}
static bool reg(const std::string &s, unsigned &r) {
    U64 v;
    if (!nat(s, v) || v > 2) return false;
    r = unsigned(v);
    return true;
}
static std::string showv(const Vec &v) { return vh::show_nats(v.begin(), v.end()); }
static std::string num(U64 v) { return std::to_string((unsigned long long)v); }

struct Bad {};

// ---------------------------------------------------------------------------------------- Array
template <typename T> struct Elem;
template <> struct Elem<int> {
    static int  enc(U64 x) { return int(x); }
    static U64  dec(const int &e) { return U64(unsigned(e)); }
};
// A trivially copyable item type whose value-initialised state is NOT all-zero bytes (default member
// initialisers, no user-provided constructor / destructor): `Type_T{}` must be constructed, not zero-filled.
struct Plain {
    int      x{7};
    unsigned y{0x5A5A};
};
static_assert(__is_trivially_copyable(Plain), "Plain must be trivially copyable");
template <> struct Elem<Plain> {
    static Plain enc(U64 v) { Plain p; p.x = int(v) + 7; return p; }
    static U64   dec(const Plain &e) { return (e.y != 0x5A5A) ? 999999999ULL : U64(unsigned(e.x - 7)); }   // Plain{} is item 0
};
template <> struct Elem<String<char>> {
    static String<char> enc(U64 x) {
        std::string s = "v" + std::to_string((unsigned long long)x);
        return String<char>(s.c_str(), SizeT(s.size()));
    }
    static U64 dec(const String<char> &e) {
        if (e.Length() == 0) return 0;
        if (e.First()[0] != 'v' || e.First()[e.Length()] != 0) return 999999999ULL;
        return strtoull(e.First() + 1, nullptr, 10);
    }
};

template <typename T>
static std::string run_array(const std::vector<std::string> &ops) {
    using A = Array<T>;
    using E = Elem<T>;
    A  *o[3] = {new A(), new A(), new A()};
    Vec sh[3];
    std::string out;
    unsigned    counter = 0;
    auto content = [&](unsigned r) { Vec v; for (SizeT i = 0; i < o[r]->Size(); i++) v.push_back(E::dec(o[r]->Storage()[i])); return v; };
    for (const std::string &opstr : ops) {
        auto        t = vh::split(opstr, ':');
        unsigned    r = 0, s = 0;
        U64         n = 0;
        std::string extra;
        ++counter;
        if (t.size() < 2 || !reg(t[1], r)) throw Bad{};
        const std::string &k = t[0];
        if (k == "push" && t.size() == 3 && nat(t[2], n)) {
            const SizeT before = o[r]->Size();
            switch (counter % 4) {
                case 0: { T x = E::enc(n); *o[r] += x; break; }
                case 1: { *o[r] += E::enc(n); break; }
                case 2: { T x = E::enc(n); T &ref = o[r]->Insert(x); if (&ref != o[r]->Storage() + before) extra = "!insert-ref"; break; }
                default: { T &ref = o[r]->Insert(E::enc(n)); if (&ref != o[r]->Storage() + before) extra = "!insert-ref"; break; }
            }
            sh[r].push_back(n);
        } else if (k == "pushi" && t.size() == 3 && nat(t[2], n)) {
            // the argument is a const reference INTO this array's own storage (which may have to grow)
            if (n < o[r]->Size()) {
                const SizeT before = o[r]->Size();
                const U64   val    = sh[r][n];
                if (counter % 2) *o[r] += static_cast<const T &>(o[r]->First()[n]);
                else { T &ref = o[r]->Insert(static_cast<const T &>(o[r]->First()[n])); if (&ref != o[r]->Storage() + before) extra = "!insert-ref"; }
                sh[r].push_back(val);
            }
        } else if (k == "appc" && t.size() == 3 && reg(t[2], s)) {
            Vec src = sh[s];
            if (counter % 2) *o[r] += static_cast<const A &>(*o[s]); else o[r]->Insert(static_cast<const A &>(*o[s]));
            sh[r].insert(sh[r].end(), src.begin(), src.end());
        } else if (k == "appm" && t.size() == 3 && reg(t[2], s)) {
            Vec src = sh[s];
            if (counter % 2) *o[r] += Memory::Move(*o[s]); else o[r]->Insert(Memory::Move(*o[s]));
            sh[r].insert(sh[r].end(), src.begin(), src.end());
            sh[s].clear();
        } else if (k == "asgc" && t.size() == 3 && reg(t[2], s)) {
            *o[r] = static_cast<const A &>(*o[s]);
            Vec src = sh[s]; sh[r] = src;
        } else if (k == "asgm" && t.size() == 3 && reg(t[2], s)) {
            *o[r] = Memory::Move(*o[s]);
            if (r != s) { sh[r] = sh[s]; sh[s].clear(); }
        } else if (k == "ctorc" && t.size() == 3 && reg(t[2], s)) {
            A *nw = new A(static_cast<const A &>(*o[s]));
            delete o[r]; o[r] = nw;
            Vec src = sh[s]; sh[r] = src;
        } else if (k == "ctorm" && t.size() == 3 && reg(t[2], s)) {
            A *nw = new A(Memory::Move(*o[s]));
            Vec src = sh[s]; sh[s].clear();
            delete o[r]; o[r] = nw; sh[r] = src;
        } else if (k == "ctorn" && t.size() == 4 && nat(t[2], n)) {
            A *nw = new A(SizeT(n), t[3] == "1");
            delete o[r]; o[r] = nw;
            sh[r].assign(t[3] == "1" ? n : 0, 0);
        } else if (k == "clear" && t.size() == 2) { o[r]->Clear(); sh[r].clear();
        } else if (k == "reset" && t.size() == 2) { o[r]->Reset(); sh[r].clear();
        } else if (k == "detach" && t.size() == 2) {
            const SizeT sz = o[r]->Size();
            T *p = o[r]->Detach();
            Vec v; for (SizeT i = 0; i < sz; i++) v.push_back(E::dec(p[i]));
            extra = "=" + showv(v);
            if (v != sh[r]) extra += "!shadow-detach";
            Memory::Dispose(p, p + sz); Memory::Deallocate(p);
            sh[r].clear();
        } else if (k == "reserve" && t.size() == 4 && nat(t[2], n)) {
            o[r]->Reserve(SizeT(n), t[3] == "1"); sh[r].assign(t[3] == "1" ? n : 0, 0);
        } else if (k == "resize" && t.size() == 3 && nat(t[2], n)) {
            o[r]->Resize(SizeT(n)); if (sh[r].size() > n) sh[r].resize(n);
        } else if (k == "resizei" && t.size() == 3 && nat(t[2], n)) {
            o[r]->ResizeAndInitialize(SizeT(n)); sh[r].resize(n, 0);
        } else if (k == "expect" && t.size() == 3 && nat(t[2], n)) { o[r]->Expect(SizeT(n));
        } else if (k == "compress" && t.size() == 2) { o[r]->Compress();
        } else if (k == "drop" && t.size() == 3 && nat(t[2], n)) {
            o[r]->Drop(SizeT(n)); if (n <= sh[r].size()) sh[r].resize(sh[r].size() - n);
        } else throw Bad{};
        if (!out.empty()) out += '|';
        bool shadow_ok = true;
        for (unsigned i = 0; i < 3; i++) {
            Vec c = content(i);
            if (c != sh[i]) shadow_ok = false;
            const T *last = o[i]->Last();
            if (i) out += '/';
            out += num(o[i]->Size()) + ":" + num(o[i]->Capacity()) + ":" + showv(c) + ":" + (last ? num(E::dec(*last)) : std::string("-"));
            if (o[i]->IsEmpty() != (o[i]->Size() == 0) || o[i]->IsNotEmpty() == o[i]->IsEmpty() || o[i]->End() != o[i]->First() + o[i]->Size()) shadow_ok = false;
        }
        out += extra;
        if (!shadow_ok) out += "!shadow";
    }
    for (auto *p : o) delete p;
    return out;
}

// ------------------------------------------------------------------------------------- buffers
template <typename C> struct ZBuf {   // exact-size, NUL-terminated copy
    C *p; size_t n;
    explicit ZBuf(const Vec &u) : n(u.size()) { p = static_cast<C *>(malloc((n + 1) * sizeof(C))); for (size_t i = 0; i < n; i++) p[i] = C(u[i]); p[n] = C(0); }
    ~ZBuf() { free(p); }
    ZBuf(const ZBuf &) = delete; ZBuf &operator=(const ZBuf &) = delete;
};
static bool has_zero(const Vec &u) { for (U64 x : u) if (x == 0) return true; return false; }
template <typename C> static U64 unit(C c) { using UT = typename std::make_unsigned<C>::type; return U64(UT(c)); }
template <typename C> static Vec units_of(const C *p, size_t n) { Vec v; for (size_t i = 0; i < n; i++) v.push_back(unit(p[i])); return v; }
static Vec trim_vec(const Vec &v) {
    size_t a = 0, b = v.size();
    auto ws = [](U64 c) { return c == 32 || c == 10 || c == 9 || c == 13; };
    while (a < b && ws(v[a])) ++a;
    while (b > a && ws(v[b - 1])) --b;
    return Vec(v.begin() + long(a), v.begin() + long(b));
}
template <typename L, typename R> static bool cmp_any(U64 k, const L &l, const R &r) {
    switch (k) { case 0: return l == r; case 1: return l != r; case 2: return l < r; case 3: return l <= r; case 4: return l > r; default: return l >= r; }
}
static bool cmp_vec(U64 k, const Vec &l, const Vec &r) { return cmp_any(k, l, r); }   // std::vector compares lexicographically
static Vec insert_at(const Vec &v, U64 c, U64 idx) { Vec x = v; if (idx < x.size()) x.insert(x.begin() + long(idx), c); return x; }
static Vec reverse_from(const Vec &v, U64 idx) { Vec x = v; if (idx < x.size()) { size_t i = idx, e = x.size(); while (i < e) { --e; std::swap(x[i], x[e]); ++i; } } return x; }

// --------------------------------------------------------------------------------------- String
template <typename C>
static std::string run_string(const std::vector<std::string> &ops) {
    using S = String<C>;
    S  *o[3] = {new S(), new S(), new S()};
    Vec sh[3];
    std::string out;
    unsigned    counter = 0;
    for (const std::string &opstr : ops) {
        auto        t = vh::split(opstr, ':');
        unsigned    r = 0, s = 0, q = 0;
        U64         n = 0, m = 0;
        Vec         u;
        std::string extra;
        ++counter;
        const std::string &k = t[0];
        auto R = [&](size_t i) { if (t.size() <= i || !reg(t[i], r)) throw Bad{}; };
        auto Sx = [&](size_t i) { if (t.size() <= i || !reg(t[i], s)) throw Bad{}; };
        auto Ux = [&](size_t i) { if (t.size() <= i || !vh::parse_nats(t[i], u)) throw Bad{}; };
        auto Nx = [&](size_t i, U64 &v) { if (t.size() <= i || !nat(t[i], v)) throw Bad{}; };
        if (k == "ctorc") { R(1); Sx(2); S *nw = new S(static_cast<const S &>(*o[s])); Vec src = sh[s]; delete o[r]; o[r] = nw; sh[r] = src;
        } else if (k == "ctorm") { R(1); Sx(2); S *nw = new S(Memory::Move(*o[s])); Vec src = sh[s]; sh[s].clear(); delete o[r]; o[r] = nw; sh[r] = src;
        } else if (k == "ctoru") { R(1); Ux(2);
            S *nw;
            if (has_zero(u) || (counter % 2)) { vh::ExactBuf<C> b(u); nw = new S(static_cast<const C *>(b.p), SizeT(b.n)); }
            else { ZBuf<C> b(u); nw = new S(static_cast<const C *>(b.p)); }
            delete o[r]; o[r] = nw; sh[r] = u;
        } else if (k == "ctorf") { R(1); Ux(2);
            S *nw = new S(SizeT(u.size()));
            for (size_t i = 0; i < u.size(); i++) nw->Storage()[i] = C(u[i]);
            delete o[r]; o[r] = nw; sh[r] = u;
        } else if (k == "adopt") { R(1); Ux(2);
            C *p = Memory::Allocate<C>(SizeT(u.size() + 1));
            for (size_t i = 0; i < u.size(); i++) p[i] = C(u[i]);
            p[u.size()] = C(0);
            S *nw = new S(p, SizeT(u.size()));
            delete o[r]; o[r] = nw; sh[r] = u;
        } else if (k == "asgc") { R(1); Sx(2); *o[r] = static_cast<const S &>(*o[s]); Vec src = sh[s]; sh[r] = src;
        } else if (k == "asgm") { R(1); Sx(2); *o[r] = Memory::Move(*o[s]); if (r != s) { sh[r] = sh[s]; sh[s].clear(); }
        } else if (k == "asgu") { R(1); Ux(2); if (has_zero(u)) throw Bad{}; ZBuf<C> b(u); *o[r] = static_cast<const C *>(b.p); sh[r] = u;
        } else if (k == "appc") { R(1); Sx(2); Vec src = sh[s];
            if (counter % 2) *o[r] += static_cast<const S &>(*o[s]); else *o[r] << static_cast<const S &>(*o[s]);
            sh[r].insert(sh[r].end(), src.begin(), src.end());
        } else if (k == "appm") { R(1); Sx(2); Vec src = sh[s]; *o[r] += Memory::Move(*o[s]); sh[r].insert(sh[r].end(), src.begin(), src.end()); sh[s].clear();
        } else if (k == "appu") { Nx(1, n); R(2); Ux(3);
            if (n == 2 || has_zero(u)) { vh::ExactBuf<C> b(u); o[r]->Write(b.p, SizeT(b.n)); }
            else { ZBuf<C> b(u); if (n == 0) *o[r] += static_cast<const C *>(b.p); else *o[r] << static_cast<const C *>(b.p); }
            sh[r].insert(sh[r].end(), u.begin(), u.end());
        } else if (k == "appch") { R(1); Nx(2, n); *o[r] += C(n); sh[r].push_back(unit(C(n)));
        } else if (k == "appo" || k == "asgo") {
            // the argument points INTO this string's own block (front, middle, end; a range or the C string from there)
            U64 v = 0, off = 0, cnt = 0;
            if (k == "appo") { Nx(1, v); R(2); Nx(3, off); Nx(4, cnt); } else { R(1); Nx(2, off); }
            if (o[r]->First() != nullptr) {
                const U64 len = o[r]->Length();
                if (off > len) off = len;
                if (cnt > len - off) cnt = len - off;
                Vec cs; for (U64 i = off; i < len && sh[r][i] != 0; i++) cs.push_back(sh[r][i]);
                Vec sl(sh[r].begin() + long(off), sh[r].begin() + long(off + cnt));
                const C *p = o[r]->First() + off;
                if (k == "asgo") { *o[r] = p; sh[r] = cs; }
                else if (v == 0) { o[r]->Write(p, SizeT(cnt)); sh[r].insert(sh[r].end(), sl.begin(), sl.end()); }
                else { if (v == 1) *o[r] += p; else *o[r] << p; sh[r].insert(sh[r].end(), cs.begin(), cs.end()); }
            }
        } else if (k == "plus") { R(1); Sx(2); if (t.size() != 4 || !reg(t[3], q)) throw Bad{};
            Vec res = sh[s]; res.insert(res.end(), sh[q].begin(), sh[q].end());
            if (counter % 2) *o[r] = *o[s] + static_cast<const S &>(*o[q]); else *o[r] = S::Merge(*o[s], *o[q]);
            sh[r] = res;
        } else if (k == "plusm") { R(1); Sx(2); if (t.size() != 4 || !reg(t[3], q)) throw Bad{};
            Vec res = sh[s]; res.insert(res.end(), sh[q].begin(), sh[q].end());
            S tmp = *o[s] + Memory::Move(*o[q]);
            sh[q].clear();
            *o[r] = Memory::Move(tmp); sh[r] = res;
        } else if (k == "plusu") { R(1); Sx(2); Ux(3); if (has_zero(u)) throw Bad{};
            ZBuf<C> b(u); Vec res = sh[s]; res.insert(res.end(), u.begin(), u.end());
            *o[r] = *o[s] + static_cast<const C *>(b.p); sh[r] = res;
        } else if (k == "trim") { R(1); Sx(2); Vec res = trim_vec(sh[s]); *o[r] = S::Trim(*o[s]); sh[r] = res;
        } else if (k == "stepback") { R(1); Nx(2, n); o[r]->StepBack(SizeT(n)); if (n <= sh[r].size()) sh[r].resize(sh[r].size() - n);
        } else if (k == "reverse") { R(1); Nx(2, n); if (n == 0 && (counter % 2)) o[r]->Reverse(); else o[r]->Reverse(SizeT(n)); sh[r] = reverse_from(sh[r], n);
        } else if (k == "insertat") { R(1); Nx(2, n); Nx(3, m); o[r]->InsertAt(C(n), SizeT(m)); sh[r] = insert_at(sh[r], unit(C(n)), m);
        } else if (k == "reset") { R(1); o[r]->Reset(); sh[r].clear();
        } else if (k == "detach") { R(1);
            const SizeT len = o[r]->Length();
            C *p = o[r]->Detach();
            Vec v = units_of(p, len);
            extra = "=" + showv(v);
            if (v != sh[r]) extra += "!shadow-detach";
            Memory::Deallocate(p); sh[r].clear();
        } else if (k == "cmp") { Nx(1, n); R(2); Sx(3);
            const bool b = cmp_any(n, static_cast<const S &>(*o[r]), static_cast<const S &>(*o[s]));
            extra = std::string("=b") + (b ? "1" : "0");
            if (b != cmp_vec(n, sh[r], sh[s])) extra += "!shadow-cmp";
        } else if (k == "cmpu") { Nx(1, n); R(2); Ux(3);
            bool b;
            if (n == 6) { vh::ExactBuf<C> e(u); b = o[r]->IsEqual(e.p, SizeT(e.n)); }
            else { if (has_zero(u)) throw Bad{}; ZBuf<C> z(u); b = cmp_any(n, static_cast<const S &>(*o[r]), static_cast<const C *>(z.p)); }
            extra = std::string("=b") + (b ? "1" : "0");
            if (b != cmp_vec(n == 6 ? 0 : n, sh[r], u)) extra += "!shadow-cmp";
        } else throw Bad{};
        if (!out.empty()) out += '|';
        bool shadow_ok = true;
        for (unsigned i = 0; i < 3; i++) {
            if (i) out += '/';
            const S &x = *o[i];
            Vec      c = units_of(x.First(), x.Length());
            if (c != sh[i]) shadow_ok = false;
            if (x.First() == nullptr) out += "N:" + num(x.Length());
            else {
                const C *last = x.Last();
                out += num(x.Length()) + ":" + num(unit(x.First()[x.Length()])) + ":" + showv(c) + ":" + (last ? num(unit(*last)) : std::string("-"));
            }
            if (x.IsEmpty() != (x.Length() == 0) || x.IsNotEmpty() == x.IsEmpty() || x.End() != x.First() + x.Length()) shadow_ok = false;
        }
        out += extra;
        if (!shadow_ok) out += "!shadow";
    }
    for (auto *p : o) delete p;
    return out;
}

// --------------------------------------------------------------------------------- StringStream
template <typename C> static void plus_view(StringStream<C> &ss, const StringView<C> &v) { ss << v; }
template <> void plus_view<char>(StringStream<char> &ss, const StringView<char> &v) { ss += v; }

template <typename C>
static std::string run_stream(const std::vector<std::string> &ops) {
    using SS = StringStream<C>;
    SS *o[3] = {new SS(), new SS(), new SS()};
    Vec sh[3];
    std::string out;
    unsigned    counter = 0;
    for (const std::string &opstr : ops) {
        auto        t = vh::split(opstr, ':');
        unsigned    r = 0, s = 0;
        U64         n = 0, m = 0, v = 0;
        Vec         u;
        std::string extra;
        ++counter;
        const std::string &k = t[0];
        auto R = [&](size_t i) { if (t.size() <= i || !reg(t[i], r)) throw Bad{}; };
        auto Sx = [&](size_t i) { if (t.size() <= i || !reg(t[i], s)) throw Bad{}; };
        auto Ux = [&](size_t i) { if (t.size() <= i || !vh::parse_nats(t[i], u)) throw Bad{}; };
        auto Nx = [&](size_t i, U64 &x) { if (t.size() <= i || !nat(t[i], x)) throw Bad{}; };
        auto app = [&](Vec &d, const Vec &x) { d.insert(d.end(), x.begin(), x.end()); };
        if (k == "ctorn") { R(1); Nx(2, n); SS *nw = new SS(SizeT(n)); delete o[r]; o[r] = nw; sh[r].clear();
        } else if (k == "ctorc") { R(1); Sx(2); SS *nw = new SS(static_cast<const SS &>(*o[s])); Vec src = sh[s]; delete o[r]; o[r] = nw; sh[r] = src;
        } else if (k == "ctorm") { R(1); Sx(2); SS *nw = new SS(Memory::Move(*o[s])); Vec src = sh[s]; sh[s].clear(); delete o[r]; o[r] = nw; sh[r] = src;
        } else if (k == "asgc") { R(1); Sx(2); *o[r] = static_cast<const SS &>(*o[s]); Vec src = sh[s]; sh[r] = src;
        } else if (k == "asgm") { R(1); Sx(2); *o[r] = Memory::Move(*o[s]); if (r != s) { sh[r] = sh[s]; sh[s].clear(); }
        } else if (k == "asgu") { Nx(1, v); R(2); Ux(3);
            vh::ExactBuf<C> e(u);
            if (v == 0) { String<C> tmp(static_cast<const C *>(e.p), SizeT(e.n)); *o[r] = tmp; }
            else if (v == 1) { StringView<C> tmp(e.p, SizeT(e.n)); *o[r] = tmp; }
            else { if (has_zero(u)) throw Bad{}; ZBuf<C> z(u); *o[r] = static_cast<const C *>(z.p); }
            sh[r] = u;
        } else if (k == "pushch") { Nx(1, v); R(2); Nx(3, n); if (v == 0) *o[r] += C(n); else *o[r] << C(n); sh[r].push_back(unit(C(n)));
        } else if (k == "apps") { R(1); Sx(2); Vec src = sh[s]; *o[r] += static_cast<const SS &>(*o[s]); app(sh[r], src);
        } else if (k == "shls") { R(1); Sx(2); Vec src = sh[s]; *o[r] << static_cast<const SS &>(*o[s]); app(sh[r], src);
        } else if (k == "appu") { Nx(1, v); R(2); Ux(3);
            vh::ExactBuf<C> e(u);
            if (v == 0) { String<C> tmp(static_cast<const C *>(e.p), SizeT(e.n)); *o[r] += tmp; }
            else if (v == 1) { StringView<C> tmp(e.p, SizeT(e.n)); plus_view<C>(*o[r], tmp); }
            else if (v == 3) { String<C> tmp(static_cast<const C *>(e.p), SizeT(e.n)); *o[r] << tmp; }
            else if (v == 4) { StringView<C> tmp(e.p, SizeT(e.n)); *o[r] << tmp; }
            else if (v == 6 || has_zero(u)) { o[r]->Write(e.p, SizeT(e.n)); }
            else { ZBuf<C> z(u); if (v == 2) *o[r] += static_cast<const C *>(z.p); else *o[r] << static_cast<const C *>(z.p); }
            app(sh[r], u);
        } else if (k == "appo" || k == "asgo") {
            // the argument points INTO this stream's own buffer (a range, a view of it, the C string from there)
            U64 off = 0, cnt = 0;
            Nx(1, v); R(2); Nx(3, off); Nx(4, cnt);
            const U64 len = o[r]->Length();
            if (off > len) off = len;
            if (cnt > len - off) cnt = len - off;
            Vec cs; for (U64 i = off; i < len && sh[r][i] != 0; i++) cs.push_back(sh[r][i]);
            Vec sl(sh[r].begin() + long(off), sh[r].begin() + long(off + cnt));
            Vec all = sh[r];
            if (k == "asgo") {
                if (v == 0) { StringView<C> vw(o[r]->First() + off, SizeT(cnt)); *o[r] = vw; sh[r] = sl; }
                else { o[r]->InsertNull(); *o[r] = static_cast<const C *>(o[r]->First() + off); sh[r] = cs; }
            } else if (v == 0) { o[r]->Write(o[r]->First() + off, SizeT(cnt)); app(sh[r], sl);
            } else if (v == 1) { StringView<C> vw(o[r]->First() + off, SizeT(cnt)); plus_view<C>(*o[r], vw); app(sh[r], sl);
            } else if (v == 2) { StringView<C> vw(o[r]->First() + off, SizeT(cnt)); *o[r] << vw; app(sh[r], sl);
            } else if (v == 3) { o[r]->InsertNull(); *o[r] += static_cast<const C *>(o[r]->First() + off); app(sh[r], cs);
            } else if (v == 4) { o[r]->InsertNull(); *o[r] << static_cast<const C *>(o[r]->First() + off); app(sh[r], cs);
            } else { StringView<C> vw = o[r]->GetStringView(); *o[r] << vw; app(sh[r], all); }
        } else if (k == "clear") { R(1); o[r]->Clear(); sh[r].clear();
        } else if (k == "reset") { R(1); o[r]->Reset(); sh[r].clear();
        } else if (k == "detach") { R(1);
            const SizeT len = o[r]->Length();
            C *p = o[r]->Detach();
            Vec x = units_of(p, len);
            extra = "=" + showv(x);
            if (x != sh[r]) extra += "!shadow-detach";
            Memory::Deallocate(p); sh[r].clear();
        } else if (k == "stepback") { R(1); Nx(2, n); o[r]->StepBack(SizeT(n)); if (n <= sh[r].size()) sh[r].resize(sh[r].size() - n);
        } else if (k == "reverse") { R(1); Nx(2, n); if (n == 0 && (counter % 2)) o[r]->Reverse(); else o[r]->Reverse(SizeT(n)); sh[r] = reverse_from(sh[r], n);
        } else if (k == "insertat") { R(1); Nx(2, n); Nx(3, m); o[r]->InsertAt(C(n), SizeT(m)); sh[r] = insert_at(sh[r], unit(C(n)), m);
        } else if (k == "setlen") { R(1); Nx(2, n); Ux(3);
            const SizeT old = o[r]->Length();
            if (n > old && u.size() < n - old) throw Bad{};
            o[r]->SetLength(SizeT(n));
            for (SizeT i = old; i < n; i++) o[r]->Storage()[i] = C(u[i - old]);
            if (n <= old) sh[r].resize(n); else for (SizeT i = old; i < n; i++) sh[r].push_back(u[i - old]);
        } else if (k == "buffer") { R(1); Ux(2);
            C *p = o[r]->Buffer(SizeT(u.size()));
            for (size_t i = 0; i < u.size(); i++) p[i] = C(u[i]);
            app(sh[r], u);
        } else if (k == "expect") { R(1); Nx(2, n); o[r]->Expect(SizeT(n));
        } else if (k == "reserve") { R(1); Nx(2, n); o[r]->Reserve(SizeT(n)); sh[r].clear();
        } else if (k == "getstr") { R(1);
            String<C> g = o[r]->GetString();
            Vec x = units_of(g.First(), size_t(g.Length()) + 1);
            extra = "=" + showv(x);
            Vec want = sh[r]; want.push_back(0);
            if (x != want) extra += "!shadow-getstr";
            sh[r].clear();
        } else if (k == "getview") { R(1);
            StringView<C> g = o[r]->GetStringView();
            Vec x = units_of(g.First(), size_t(g.Length()) + 1);
            extra = "=" + showv(x);
            Vec want = sh[r]; want.push_back(0);
            if (x != want) extra += "!shadow-getview";
        } else if (k == "insnull") { R(1); o[r]->InsertNull(); if (o[r]->Storage()[o[r]->Length()] != C(0)) extra = "!no-null";
        } else if (k == "eqs") { Nx(1, n); R(2); Sx(3);
            const bool b = (n == 0) ? (*o[r] == static_cast<const SS &>(*o[s])) : (*o[r] != static_cast<const SS &>(*o[s]));
            extra = std::string("=b") + (b ? "1" : "0");
            if (b != cmp_vec(n, sh[r], sh[s])) extra += "!shadow-cmp";
        } else if (k == "equ") { Nx(1, v); Nx(2, n); R(3); Ux(4);
            vh::ExactBuf<C> e(u);
            bool b;
            if (v == 0) { String<C> tmp(static_cast<const C *>(e.p), SizeT(e.n)); b = (n == 0) ? (*o[r] == tmp) : (*o[r] != tmp); }
            else if (v == 1) { StringView<C> tmp(e.p, SizeT(e.n)); b = (n == 0) ? (*o[r] == tmp) : (*o[r] != tmp); }
            else if (v == 3 || has_zero(u)) { b = o[r]->IsEqual(e.p, SizeT(e.n)); if (n != 0) b = !b; }
            else { ZBuf<C> z(u); b = (n == 0) ? (*o[r] == static_cast<const C *>(z.p)) : (*o[r] != static_cast<const C *>(z.p)); }
            extra = std::string("=b") + (b ? "1" : "0");
            if (b != cmp_vec(n, sh[r], u)) extra += "!shadow-cmp";
        } else throw Bad{};
        if (!out.empty()) out += '|';
        bool shadow_ok = true;
        for (unsigned i = 0; i < 3; i++) {
            if (i) out += '/';
            const SS &x = *o[i];
            Vec       c = units_of(x.First(), x.Length());
            if (c != sh[i]) shadow_ok = false;
            const C *last = x.Last();
            out += num(x.Length()) + ":" + num(x.Capacity()) + ":" + showv(c) + ":" + (last ? num(unit(*last)) : std::string("-"));
            if (x.IsEmpty() != (x.Length() == 0) || x.IsNotEmpty() == x.IsEmpty() || x.End() != x.First() + x.Length()) shadow_ok = false;
        }
        out += extra;
        if (!shadow_ok) out += "!shadow";
    }
    for (auto *p : o) delete p;
    return out;
}

// ----------------------------------------------------------------------------------- StringView
template <typename C>
static std::string run_view(const std::vector<std::string> &ops) {
    using V = StringView<C>;
    V  *o[3] = {new V(), new V(), new V()};
    Vec sh[3];
    std::vector<std::unique_ptr<vh::ExactBuf<C>>> pool;   // backing storage outlives the views
    std::vector<std::unique_ptr<ZBuf<C>>>         zpool;
    std::string out;
    for (const std::string &opstr : ops) {
        auto        t = vh::split(opstr, ':');
        unsigned    r = 0, s = 0;
        U64         n = 0;
        Vec         u;
        std::string extra;
        const std::string &k = t[0];
        auto R = [&](size_t i) { if (t.size() <= i || !reg(t[i], r)) throw Bad{}; };
        auto Sx = [&](size_t i) { if (t.size() <= i || !reg(t[i], s)) throw Bad{}; };
        auto Ux = [&](size_t i) { if (t.size() <= i || !vh::parse_nats(t[i], u)) throw Bad{}; };
        auto Nx = [&](size_t i, U64 &x) { if (t.size() <= i || !nat(t[i], x)) throw Bad{}; };
        auto cstr_of = [](const Vec &b) { Vec x; for (U64 c : b) { if (c == 0) break; x.push_back(c); } return x; };
        if (k == "ctorp") { R(1); Ux(2); Nx(3, n); if (n > u.size()) throw Bad{};
            pool.emplace_back(new vh::ExactBuf<C>(u));
            V *nw = new V(pool.back()->p, SizeT(n)); delete o[r]; o[r] = nw; sh[r] = Vec(u.begin(), u.begin() + long(n));
        } else if (k == "ctorz") { R(1); Ux(2);
            zpool.emplace_back(new ZBuf<C>(u));
            V *nw = new V(static_cast<const C *>(zpool.back()->p)); delete o[r]; o[r] = nw; sh[r] = cstr_of(u);
        } else if (k == "ctorc") { R(1); Sx(2); V *nw = new V(static_cast<const V &>(*o[s])); Vec src = sh[s]; delete o[r]; o[r] = nw; sh[r] = src;
        } else if (k == "ctorm") { R(1); Sx(2); V *nw = new V(Memory::Move(*o[s])); Vec src = sh[s]; sh[s].clear(); delete o[r]; o[r] = nw; sh[r] = src;
        } else if (k == "asgc") { R(1); Sx(2); *o[r] = static_cast<const V &>(*o[s]); Vec src = sh[s]; sh[r] = src;
        } else if (k == "asgm") { R(1); Sx(2); *o[r] = Memory::Move(*o[s]); if (r != s) { sh[r] = sh[s]; sh[s].clear(); }
        } else if (k == "asgz") { R(1); Ux(2); zpool.emplace_back(new ZBuf<C>(u)); *o[r] = static_cast<const C *>(zpool.back()->p); sh[r] = cstr_of(u);
        } else if (k == "reset") { R(1); o[r]->Reset(); sh[r].clear();
        } else if (k == "cmp") { Nx(1, n); R(2); Sx(3);
            const bool b = cmp_any(n, static_cast<const V &>(*o[r]), static_cast<const V &>(*o[s]));
            extra = std::string("=b") + (b ? "1" : "0");
            if (b != cmp_vec(n, sh[r], sh[s])) extra += "!shadow-cmp";
        } else if (k == "cmpu") { Nx(1, n); R(2); Ux(3);
            bool b;
            if (n == 6) { vh::ExactBuf<C> e(u); b = o[r]->IsEqual(e.p, SizeT(e.n)); }
            else { if (has_zero(u)) throw Bad{}; ZBuf<C> z(u); b = cmp_any(n, static_cast<const V &>(*o[r]), static_cast<const C *>(z.p)); }
            extra = std::string("=b") + (b ? "1" : "0");
            if (b != cmp_vec(n == 6 ? 0 : n, sh[r], u)) extra += "!shadow-cmp";
        } else throw Bad{};
        if (!out.empty()) out += '|';
        bool shadow_ok = true;
        for (unsigned i = 0; i < 3; i++) {
            if (i) out += '/';
            const V &x = *o[i];
            Vec      c = units_of(x.First(), x.Length());
            if (c != sh[i]) shadow_ok = false;
            if (x.First() == nullptr) out += "N:" + num(x.Length());
            else { const C *last = x.Last(); out += num(x.Length()) + ":" + showv(c) + ":" + (last ? num(unit(*last)) : std::string("-")); }
            if (x.IsEmpty() != (x.Length() == 0) || x.IsNotEmpty() == x.IsEmpty() || x.End() != x.First() + x.Length()) shadow_ok = false;
        }
        out += extra;
        if (!shadow_ok) out += "!shadow";
    }
    for (auto *p : o) delete p;
    return out;
}


// seq-trim <w> <l|r|t> <off> <end|len> <units>: StringUtils::TrimLeft / TrimRight / Trim on an exact-size buffer
template <typename C>
static std::string run_trim(const std::string &v, U64 off, U64 e, const Vec &u) {
    vh::ExactBuf<C> b(u);
    if (v == "l") { if (off > e || e > b.n) throw Bad{}; SizeT o = SizeT(off); StringUtils::TrimLeft(static_cast<const C *>(b.p), o, SizeT(e)); return num(o); }
    if (v == "r") { if (off > e || e > b.n) throw Bad{}; SizeT x = SizeT(e); StringUtils::TrimRight(static_cast<const C *>(b.p), SizeT(off), x); return num(x); }
    if (v == "t") { if (off + e > b.n) throw Bad{}; SizeT o = SizeT(off), l = SizeT(e); StringUtils::Trim(static_cast<const C *>(b.p), o, l); return num(o) + " " + num(l); }
    throw Bad{};
}

int main() {
#ifdef QENTEM_VERIF
    const std::string policy = "x";
#else
    const std::string policy = "s";
#endif
    std::string line;
    while (vh::read_line(line)) {
        auto t = vh::split(line);
        try {
            if (t.size() == 3 && t[0] == "seq-array") {
                auto ops = vh::split(t[2], ';');
                if (t[1] == "i") vh::emit(run_array<int>(ops));
                else if (t[1] == "s") vh::emit(run_array<String<char>>(ops));
                else if (t[1] == "p") vh::emit(run_array<Plain>(ops));
                else vh::emit("bad-op");
            } else if (t.size() == 3 && t[0] == "seq-string") {
                auto ops = vh::split(t[2], ';');
                if (t[1] == "1") vh::emit(run_string<char>(ops));
                else if (t[1] == "2") vh::emit(run_string<char16_t>(ops));
                else if (t[1] == "4") vh::emit(run_string<char32_t>(ops));
                else vh::emit("bad-op");
            } else if (t.size() == 4 && t[0] == "seq-stream") {
                auto ops = vh::split(t[3], ';');
                if (t[2] != policy) vh::emit("cfg-mismatch");
                else if (t[1] == "1") vh::emit(run_stream<char>(ops));
                else if (t[1] == "2") vh::emit(run_stream<char16_t>(ops));
                else if (t[1] == "4") vh::emit(run_stream<char32_t>(ops));
                else vh::emit("bad-op");
            } else if (t.size() == 6 && t[0] == "seq-trim") {
                U64 off = 0, e = 0; Vec u;
                if (!nat(t[3], off) || !nat(t[4], e) || !vh::parse_nats(t[5], u)) throw Bad{};
                if (t[1] == "1") vh::emit(run_trim<char>(t[2], off, e, u));
                else if (t[1] == "2") vh::emit(run_trim<char16_t>(t[2], off, e, u));
                else if (t[1] == "4") vh::emit(run_trim<char32_t>(t[2], off, e, u));
                else vh::emit("bad-op");
            } else if (t.size() == 3 && t[0] == "seq-view") {
                auto ops = vh::split(t[2], ';');
                if (t[1] == "1") vh::emit(run_view<char>(ops));
                else if (t[1] == "2") vh::emit(run_view<char16_t>(ops));
                else if (t[1] == "4") vh::emit(run_view<char32_t>(ops));
                else vh::emit("bad-op");
            } else {
                vh::emit("bad-op");
            }
        } catch (const Bad &) {
            vh::emit("bad-op");   // (objects of an ill-formed program are leaked on purpose: never happens in a run)
        }
    }
    return 0;
}
