// Correspondence harness for C01 (and C17): Template::Render / TemplateCore::Parse on exact-size
// heap buffers (ASan redzones border the template text), real code in-process, four widths.
//
//   tplrender <w> <doc> <units>  -> "R <units of the stream>"
//   tpltags   <w> <units>        -> "T <dump of the tag tree>"  (format = showTags in lean/Qentem/Driver/Tmpl.lean)
//   tplcache  <w> <doc> <units>  -> "C same" | "C diff <fresh>|<first cached>|<second cached>" |
//                                   "C value-changed …" | "C tags-changed" (Stringify of the value and of every pointer
//                                   target, and the tag dump, before/after every render)
//   tplthreads <w> <doc> <units> -> "H same" | "H diff …" | "H value-changed": 6 threads x 3 renders sharing tags + value
//        fresh render; render that fills a tags cache; render from that cache into a stream
//        pre-filled with "<&" (the prefix must survive and the rest must be the same text)
//
//   <w>   : 1 | 2 | 4 | W   (char, char16_t, char32_t, wchar_t)
//   <doc> : comma-separated prefix code
//           u | z | t | f | n<dec> | i<signed dec> | s<u.u.u> (s alone = empty) |
//           a<count> doc... | o<count> (k<u.u.u> doc)...
//           `u` leaves an array slot / an object member undefined.
//           p <doc> : a pointer value (SetPointerToValue) to a separately owned value built from <doc>
//           r<16 hex> : a real number (double) given by its bit pattern
//
// round c (checks/_tmpl_streams.py):
//   tplcopy <w> <doc> <units>       -> "K same" | "K diff <fresh>|<copy-constructed>|<copy-assigned>|<appended>" | "K tags-differ …":
//        the parsed Array<TagBit> is copy-constructed, copy-assigned over a non-empty array and appended
//        (Array += const Array&) to an empty one; the original is destroyed; each copy must dump and render like the original
//   tplrendercopy <w> <doc> <units> -> "R <units>": Template::Render's result, but through a copy-assigned copy of a
//        copy-constructed copy of the parsed tags (the original and the first copy destroyed before rendering)
//   tplappend <w> <doc> <units>     -> "A same" | "A diff …" | "A value-changed" | "A tags-changed": one parsed cache; for every
//        pre-existing stream length 0..64 (stream filled one unit at a time, so with the QENTEM_VERIF hook it is exactly
//        at capacity) the values (root array: its elements in turn; otherwise the root) are rendered consecutively into
//        that one stream; the stream must be <old content> + <fresh single renders>
#include <new>
#include "ledger.hpp"
#include "common.hpp"
#include <memory>
#include <thread>
#include "Value.hpp"
#include "Template.hpp"
#include "StringStream.hpp"
using namespace Qentem;

static bool parseDotted(const std::string &s, std::vector<uint64_t> &out) {
    // "" -> empty ; "1.2.3" -> numbers
    out.clear();
    if (s.empty()) return true;
    const char *p = s.c_str();
    while (*p) {
        if (*p < '0' || *p > '9') return false;
        char    *e;
        uint64_t v = strtoull(p, &e, 10);
        out.push_back(v);
        p = e;
        if (*p == '.') {
            ++p;
            if (!*p) return false;
        } else if (*p) {
            return false;
        }
    }
    return true;
}

static bool allDigits(const char *p) {
    if (!*p) return false;
    for (; *p; ++p)
        if (*p < '0' || *p > '9') return false;
    return true;
}

template <typename Char_T>
struct H {
    using ValueT = Value<Char_T>;
    using Stream = StringStream<Char_T>;
    using Core   = TemplateCore<Char_T, ValueT, Stream>;
    using Tags_  = Array<Tags::TagBit>;

    static void toChars(const std::vector<uint64_t> &u, std::vector<Char_T> &out) {
        out.clear();
        out.reserve(u.size() + 1);
        for (uint64_t x : u) out.push_back(static_cast<Char_T>(x));
    }

    // targets of pointer values (`p` token): owned here, outlive the value that points to them
    using Keep = std::vector<std::unique_ptr<ValueT>>;
    static inline Keep *g_keep = nullptr;

    // one doc starting at tk[i]; i is advanced past it
    static bool buildDoc(const std::vector<std::string> &tk, size_t &i, ValueT &out, unsigned depth) {
        if (i >= tk.size() || depth > 4096) return false;
        const std::string &t = tk[i++];
        if (t.empty()) return false;
        const char *rest = t.c_str() + 1;
        switch (t[0]) {
            case 'p': {
                // p <doc>: a pointer value (Value::SetPointerToValue) to a separately owned value
                if (*rest || g_keep == nullptr) return false;
                g_keep->emplace_back(new ValueT{});
                ValueT *target = g_keep->back().get();
                if (!buildDoc(tk, i, *target, depth + 1)) return false;
                out.SetPointerToValue(target);
                return true;
            }
            case 'u': {
                if (*rest) return false;
                out.Reset();
                return true;
            }
            case 'z': {
                if (*rest) return false;
                out = nullptr;
                return true;
            }
            case 't': {
                if (*rest) return false;
                out = true;
                return true;
            }
            case 'f': {
                if (*rest) return false;
                out = false;
                return true;
            }
            case 'n': {
                if (!allDigits(rest)) return false;
                out = static_cast<SizeT64>(strtoull(rest, nullptr, 10));
                return true;
            }
            case 'i': {
                if (!allDigits(rest[0] == '-' ? rest + 1 : rest)) return false;
                out = static_cast<SizeT64I>(strtoll(rest, nullptr, 10));
                return true;
            }
            case 's': {
                std::vector<uint64_t> u;
                std::vector<Char_T>   c;
                if (!parseDotted(rest, u)) return false;
                toChars(u, c);
                c.push_back(Char_T(0)); // never read: gives a valid pointer for the empty string
                out = ValueT{c.data(), SizeT(u.size())};
                return true;
            }
            case 'r': {
                // r<16 hex digits>: a double by its bit pattern
                if (strlen(rest) != 16) return false;
                uint64_t b = 0;
                for (const char *q = rest; *q; ++q) {
                    unsigned d;
                    if (*q >= '0' && *q <= '9') d = unsigned(*q - '0');
                    else if (*q >= 'A' && *q <= 'F') d = unsigned(*q - 'A') + 10U;
                    else if (*q >= 'a' && *q <= 'f') d = unsigned(*q - 'a') + 10U;
                    else return false;
                    b = (b << 4) | d;
                }
                double dv;
                memcpy(&dv, &b, sizeof dv);
                out = dv;
                return true;
            }
            case 'a': {
                if (!allDigits(rest)) return false;
                const unsigned long n = strtoul(rest, nullptr, 10);
                out                   = ValueT{ValueType::Array};
                for (unsigned long k = 0; k < n; ++k) {
                    ValueT child;
                    if (!buildDoc(tk, i, child, depth + 1)) return false;
                    out += Memory::Move(child);
                }
                return out.IsArray() && out.Size() == SizeT(n);
            }
            case 'o': {
                if (!allDigits(rest)) return false;
                const unsigned long n = strtoul(rest, nullptr, 10);
                out                   = ValueT{ValueType::Object};
                for (unsigned long k = 0; k < n; ++k) {
                    if (i >= tk.size() || tk[i].empty() || tk[i][0] != 'k') return false;
                    std::vector<uint64_t> u;
                    std::vector<Char_T>   c;
                    if (!parseDotted(tk[i].c_str() + 1, u)) return false;
                    ++i;
                    toChars(u, c);
                    c.push_back(Char_T(0));
                    ValueT child;
                    if (!buildDoc(tk, i, child, depth + 1)) return false;
                    ValueT &slot = out.Get(c.data(), SizeT(u.size())); // inserts the key
                    if (child.IsUndefined()) {
                        slot.Reset();
                    } else {
                        slot = Memory::Move(child);
                    }
                }
                return out.IsObject();
            }
            default:
                return false;
        }
    }

    static bool buildRoot(const std::string &doc, ValueT &out, Keep &keep) {
        const std::vector<std::string> tk = vh::split(doc, ',');
        size_t                         i  = 0;
        g_keep                            = &keep;
        const bool ok                     = buildDoc(tk, i, out, 0) && i == tk.size();
        g_keep                            = nullptr;
        return ok;
    }

    // what a render must leave untouched: the value (and the targets of its pointer members)
    static std::string dumpValue(const ValueT &value, const Keep &keep) {
        Stream ss;
        value.Stringify(ss);
        std::string o = show(ss);
        for (const auto &k : keep) {
            Stream s2;
            k->Stringify(s2);
            o += "/" + show(s2);
        }
        return o;
    }

    static std::string show(const Stream &ss, size_t skip = 0) {
        return vh::show_units(ss.First() + skip, size_t(ss.Length()) - skip);
    }

    static std::string render(const std::string &doc, const std::vector<uint64_t> &u) {
        Keep   keep;
        ValueT value;
        if (!buildRoot(doc, value, keep)) return "bad-op";
        vh::ExactBuf<Char_T> in(u);
        Stream               ss;
        Template::Render(static_cast<const Char_T *>(in.p), SizeT(in.n), value, ss);
        return "R " + show(ss);
    }

    static std::string cache(const std::string &doc, const std::vector<uint64_t> &u) {
        Keep   keep;
        ValueT value;
        if (!buildRoot(doc, value, keep)) return "bad-op";
        vh::ExactBuf<Char_T> in(u);
        const Char_T        *p = in.p;
        const std::string v0 = dumpValue(value, keep);
        Stream            fresh;
        Template::Render(p, SizeT(in.n), value, fresh);
        const std::string v1 = dumpValue(value, keep);
        Tags_  tags;
        Stream first;
        Template::Render(p, SizeT(in.n), value, first, tags);
        const std::string v2 = dumpValue(value, keep);
        std::string       t0 = "T ";
        dumpTags(t0, tags);
        Stream second;
        second += Char_T('<');
        second += Char_T('&');
        Template::Render(p, SizeT(in.n), value, second, tags);
        const std::string v3 = dumpValue(value, keep);
        std::string       t1 = "T ";
        dumpTags(t1, tags);
        const bool prefix_ok = (second.Length() >= 2 && second.First()[0] == Char_T('<') && second.First()[1] == Char_T('&'));
        const std::string a = show(fresh);
        const std::string b = show(first);
        const std::string c = prefix_ok ? show(second, 2) : ("prefix-disturbed:" + show(second));
        if (v0 != v1 || v0 != v2 || v0 != v3) return "C value-changed " + v0 + "|" + v3;
        if (t0 != t1) return "C tags-changed";
        if (!(a == b && a == c)) return "C diff " + a + "|" + b + "|" + c;
        // cache objects that are EMPTY but own storage (legal states of an Array): built with room, and a used
        // cache emptied with Clear() and reused for another template. An empty cache means "not parsed yet".
        {
            Tags_  roomy(SizeT{8});
            Stream s1;
            Template::Render(p, SizeT(in.n), value, s1, roomy);
            if (show(s1) != a) return "C diff " + a + "|reserved-cache:" + show(s1) + "|" + c;
            Tags_ reused;
            const char           *other = "{raw:zz}x<if case=\"1\">y</if>";
            std::vector<uint64_t> ou;
            for (const char *q = other; *q; ++q) ou.push_back(uint64_t(static_cast<unsigned char>(*q)));
            vh::ExactBuf<Char_T>            ob(ou);
            Stream                          s2;
            Template::Render(static_cast<const Char_T *>(ob.p), SizeT(ob.n), value, s2, reused);
            reused.Clear();
            Stream s3;
            Template::Render(p, SizeT(in.n), value, s3, reused);
            if (show(s3) != a) return "C diff " + a + "|cleared-cache:" + show(s3) + "|" + c;
        }
        return "C same";
    }

    // ---- tag tree dump (public fields only) --------------------------------------------------
    static void num(std::string &o, unsigned long long v) {
        char b[32];
        snprintf(b, sizeof b, "%llu", v);
        o += b;
    }

    static void nums(std::string &o, std::initializer_list<unsigned long long> l) {
        bool first = true;
        for (unsigned long long v : l) {
            if (!first) o += ',';
            first = false;
            num(o, v);
        }
    }

    static void dumpVar(std::string &o, const char *name, const Tags::VariableTag &v) {
        o += name;
        o += '(';
        nums(o, {v.Offset, v.Length, v.IDLength, v.Level});
        o += ')';
    }

    static void dumpTags(std::string &o, const Tags_ &tags) {
        const Tags::TagBit *t   = tags.First();
        const Tags::TagBit *end = tags.End();
        bool                first = true;
        for (; t != nullptr && t < end; ++t) {
            if (!first) o += ';';
            first = false;
            switch (t->GetType()) {
                case Tags::TagType::Variable: dumpVar(o, "var", t->GetVariableTag()); break;
                case Tags::TagType::RawVariable: dumpVar(o, "raw", t->GetVariableTag()); break;
                case Tags::TagType::Math: {
                    const Tags::MathTag &m = t->GetMathTag();
                    o += "math(";
                    nums(o, {m.Offset, m.EndOffset, m.Expressions.Size()});
                    o += ')';
                    break;
                }
                case Tags::TagType::SuperVariable: {
                    const Tags::SuperVariableTag &s = t->GetSuperVariableTag();
                    o += "svar(";
                    nums(o, {s.Offset, s.EndOffset, s.Variable.Offset, s.Variable.Length});
                    o += ")[";
                    dumpTags(o, s.SubTags);
                    o += ']';
                    break;
                }
                case Tags::TagType::InLineIf: {
                    const Tags::InLineIfTag &f = t->GetInLineIfTag();
                    o += "iif(";
                    nums(o, {f.Offset, f.Length, f.TrueOffset, f.TrueLength, f.FalseOffset, f.FalseLength,
                             f.TrueTagsStartID, f.FalseTagsStartID, f.Case.Size()});
                    o += ")[";
                    dumpTags(o, f.SubTags);
                    o += ']';
                    break;
                }
                case Tags::TagType::Loop: {
                    const Tags::LoopTag &l = t->GetLoopTag();
                    o += "loop(";
                    nums(o, {l.Offset, l.EndOffset, l.ContentOffset, l.Set.Offset, l.Set.Length, l.Set.IDLength,
                             l.Set.Level, l.ValueOffset, l.ValueLength, l.GroupOffset, l.GroupLength, l.Options,
                             l.Level});
                    o += ")[";
                    dumpTags(o, l.SubTags);
                    o += ']';
                    break;
                }
                case Tags::TagType::If: {
                    const Tags::IfTag &f = t->GetIfTag();
                    o += "if(";
                    nums(o, {f.Offset, f.EndOffset});
                    o += ")[";
                    const Tags::IfTagCase *c    = f.Cases.First();
                    const Tags::IfTagCase *cend = f.Cases.End();
                    bool                   cf   = true;
                    for (; c != nullptr && c < cend; ++c) {
                        if (!cf) o += ';';
                        cf = false;
                        o += "case(";
                        nums(o, {c->Offset, c->EndOffset, c->Case.Size()});
                        o += ")[";
                        dumpTags(o, c->SubTags);
                        o += ']';
                    }
                    o += ']';
                    break;
                }
                default: o += "none()";
            }
        }
    }

    // N threads share the tag tree and the value, each renders into its own stream
    static std::string threads(const std::string &doc, const std::vector<uint64_t> &u) {
        Keep   keep;
        ValueT value;
        if (!buildRoot(doc, value, keep)) return "bad-op";
        vh::ExactBuf<Char_T> in(u);
        const Char_T        *p = in.p;
        Tags_                tg;
        Core::Parse(p, SizeT(in.n), tg);
        const Tags_  &ctags  = tg;
        const ValueT &cvalue = value;
        Stream        seq;
        {
            Core temp{p, SizeT(in.n)};
            temp.Render(ctags, cvalue, seq);
        }
        const std::string expected = show(seq);
        const std::string v0       = dumpValue(value, keep);
        constexpr int     N        = 6;
        std::string       outs[N];
        std::thread       th[N];
        for (int k = 0; k < N; ++k) {
            th[k] = std::thread([&, k]() {
                for (int r = 0; r < 3; ++r) {
                    Stream ss;
                    Core   temp{p, SizeT(in.n)};
                    temp.Render(ctags, cvalue, ss);
                    outs[k] = show(ss);
                    if (outs[k] != expected) return;
                }
            });
        }
        for (int k = 0; k < N; ++k) th[k].join();
        for (int k = 0; k < N; ++k)
            if (outs[k] != expected) return "H diff " + expected + "|" + outs[k];
        if (dumpValue(value, keep) != v0) return "H value-changed";
        // the documented cached entry point: Template::Render(content, length, value, stream, tags_cache) with ONE
        // cache shared by all threads (it parses only while the cache is empty; a template without tags keeps it
        // empty, so every render parses again - which must not write to the shared cache either)
        {
            Stream warm;
            Template::Render(p, SizeT(in.n), cvalue, warm, tg);
            if (show(warm) != expected) return "H diff-cached-entry " + expected + "|" + show(warm);
        }
        for (int k = 0; k < N; ++k) {
            th[k] = std::thread([&, k]() {
                for (int r = 0; r < 3; ++r) {
                    Stream ss;
                    Template::Render(p, SizeT(in.n), cvalue, ss, tg);
                    outs[k] = show(ss);
                    if (outs[k] != expected) return;
                }
            });
        }
        for (int k = 0; k < N; ++k) th[k].join();
        for (int k = 0; k < N; ++k)
            if (outs[k] != expected) return "H diff-cached-entry " + expected + "|" + outs[k];
        if (dumpValue(value, keep) != v0) return "H value-changed";
        return "H same";
    }


    // ---- round c: copies of the parsed tag array ---------------------------------------------
    // a non-empty tag array to be overwritten by copy assignment (every tag kind, nested)
    static void parseOther(Tags_ &out) {
        static const char *t = "{raw:a}{var:b}<loop set=\"l\" value=\"v\">{raw:v}{math:1+1}</loop>"
                               "<if case=\"1\">{raw:a}<else />{var:b}</if>{if case=\"1\" true=\"{raw:a}\" false=\"{var:b}\"}"
                               "{svar:p, {raw:a}, {var:b}}";
        std::vector<uint64_t> u;
        for (const char *q = t; *q; ++q) u.push_back(static_cast<unsigned char>(*q));
        vh::ExactBuf<Char_T> in(u);
        Core::Parse(static_cast<const Char_T *>(in.p), SizeT(in.n), out);
    }

    static std::string copies(const std::string &doc, const std::vector<uint64_t> &u) {
        Keep   keep;
        ValueT value;
        if (!buildRoot(doc, value, keep)) return "bad-op";
        vh::ExactBuf<Char_T> in(u);
        const Char_T        *p = in.p;
        Stream               fresh;
        Template::Render(p, SizeT(in.n), value, fresh);
        std::string t0 = "T ";
        Tags_       assigned;
        Tags_       appended;
        parseOther(assigned);
        std::unique_ptr<Tags_> constructed;
        {
            std::unique_ptr<Tags_> orig(new Tags_{});
            Core::Parse(p, SizeT(in.n), *orig);
            dumpTags(t0, *orig);
            const Tags_ &co = *orig;
            constructed.reset(new Tags_(co)); // copy constructor
            assigned = co;                    // copy assignment over a non-empty array
            appended += co;                   // Array += const Array&
        }                                     // the original is gone: a copy must not point into it
        std::string outs[3];
        std::string tagdiff;
        Tags_      *cs[3] = {constructed.get(), &assigned, &appended};
        for (int k = 0; k < 3; ++k) {
            std::string tk = "T ";
            dumpTags(tk, *cs[k]);
            if (tk != t0 && tagdiff.empty())
                tagdiff = std::string(k == 0 ? "copy-constructed " : k == 1 ? "copy-assigned " : "appended ") + t0 + " | " + tk;
            Stream       ss;
            Core         temp{p, SizeT(in.n)};
            const Tags_ &ct = *cs[k];
            temp.Render(ct, value, ss);
            outs[k] = show(ss);
        }
        const std::string a = show(fresh);
        if (!(a == outs[0] && a == outs[1] && a == outs[2])) return "K diff " + a + "|" + outs[0] + "|" + outs[1] + "|" + outs[2];
        if (!tagdiff.empty()) return "K tags-differ " + tagdiff;
        return "K same";
    }

    static std::string renderCopy(const std::string &doc, const std::vector<uint64_t> &u) {
        Keep   keep;
        ValueT value;
        if (!buildRoot(doc, value, keep)) return "bad-op";
        vh::ExactBuf<Char_T> in(u);
        const Char_T        *p = in.p;
        Tags_                last;
        parseOther(last);
        {
            Tags_ orig;
            Core::Parse(p, SizeT(in.n), orig);
            const Tags_ &co = orig;
            Tags_        c1(co);
            const Tags_ &cc = c1;
            last            = cc;
        }
        Stream       ss;
        Core         temp{p, SizeT(in.n)};
        const Tags_ &ct = last;
        temp.Render(ct, value, ss);
        return "R " + show(ss);
    }

    // ---- round c: many consecutive renders appended to one stream, every small pre-existing length ----
    static std::string append(const std::string &doc, const std::vector<uint64_t> &u) {
        Keep   keep;
        ValueT root;
        if (!buildRoot(doc, root, keep)) return "bad-op";
        std::vector<const ValueT *> values;
        if (root.IsArray() && root.Size() != 0) {
            for (SizeT k = 0; k < root.Size(); ++k) {
                const ValueT *v = root.GetValue(k);
                if (v != nullptr) values.push_back(v);
            }
        }
        if (values.empty()) values.push_back(&root);
        vh::ExactBuf<Char_T> in(u);
        const Char_T        *p = in.p;
        const std::string    v0 = dumpValue(root, keep);
        std::vector<std::vector<Char_T>> fresh;
        for (const ValueT *v : values) {
            Stream s;
            Template::Render(p, SizeT(in.n), *v, s);
            fresh.emplace_back(s.First(), s.First() + s.Length());
        }
        Tags_ tags;
        Core::Parse(p, SizeT(in.n), tags);
        std::string t0 = "T ";
        dumpTags(t0, tags);
        const Tags_ &ctags  = tags;
        const size_t rounds = values.size() < 4 ? 8 : 2 * values.size();
        for (unsigned pre = 0; pre <= 64; ++pre) {
            Stream              stream;
            std::vector<Char_T> expected;
            for (unsigned i = 0; i < pre; ++i) {
                stream += Char_T('a' + (i % 26));
                expected.push_back(Char_T('a' + (i % 26)));
            }
            for (size_t r = 0; r < rounds; ++r) {
                const size_t id = r % values.size();
                Core         temp{p, SizeT(in.n)};
                temp.Render(ctags, *values[id], stream);
                expected.insert(expected.end(), fresh[id].begin(), fresh[id].end());
                if (size_t(stream.Length()) != expected.size() ||
                    !std::equal(expected.begin(), expected.end(), stream.First())) {
                    char b[96];
                    snprintf(b, sizeof b, "A diff pre=%u round=%zu value=%zu ", pre, r, id);
                    return std::string(b) + show(stream) + "|" + vh::show_units(expected.data(), expected.size());
                }
            }
        }
        if (dumpValue(root, keep) != v0) return "A value-changed";
        std::string t1 = "T ";
        dumpTags(t1, tags);
        if (t0 != t1) return "A tags-changed";
        return "A same";
    }

    static std::string tags(const std::vector<uint64_t> &u) {
        vh::ExactBuf<Char_T> in(u);
        Tags_                tg;
        Core::Parse(static_cast<const Char_T *>(in.p), SizeT(in.n), tg);
        std::string o = "T ";
        dumpTags(o, tg);
        return o;
    }
};

template <typename Char_T>
static std::string run(const std::vector<std::string> &t) {
    std::vector<uint64_t> u;
    if (t.size() == 4 && (t[0] == "tplcopy" || t[0] == "tplrendercopy" || t[0] == "tplappend")) {
        if (!vh::parse_nats(t[3], u)) return "bad-op";
        if (t[0] == "tplcopy") return H<Char_T>::copies(t[2], u);
        if (t[0] == "tplappend") return H<Char_T>::append(t[2], u);
        return H<Char_T>::renderCopy(t[2], u);
    }
    if (t.size() == 4 && (t[0] == "tplrender" || t[0] == "tplcache" || t[0] == "tplthreads")) {
        if (!vh::parse_nats(t[3], u)) return "bad-op";
        if (t[0] == "tplthreads") return H<Char_T>::threads(t[2], u);
        return (t[0] == "tplrender") ? H<Char_T>::render(t[2], u) : H<Char_T>::cache(t[2], u);
    }
    if (t.size() == 3 && t[0] == "tpltags") {
        if (!vh::parse_nats(t[2], u)) return "bad-op";
        return H<Char_T>::tags(u);
    }
    return "bad-op";
}

int main() {
    std::string line;
    while (vh::read_line(line)) {
        const std::vector<std::string> t = vh::split(line);
        if (t.size() < 2) {
            vh::emit("bad-op");
            continue;
        }
        if (t[1] == "1") vh::emit(run<char>(t));
        else if (t[1] == "2") vh::emit(run<char16_t>(t));
        else if (t[1] == "4") vh::emit(run<char32_t>(t));
        else if (t[1] == "W") vh::emit(run<wchar_t>(t));
        else vh::emit("bad-op");
    }
    return 0;
}
