// Correspondence harness for C12 / C18: operation sequences over a forest of four named Values.
//   valseq [@<roots to print>] <op> ; <op> ; ... -> per step "<ret>#<root0>#<root1>#<root2>#<root3>", steps joined by '|'
//   valview <op> ; ... ; grp D S key -> "<ret>/<abstract view of the grouped result>" of the final GroupBy
//   valhash <units>              -> StringUtils::Hash of the key
//   valled <op> ; <op> ; ...     -> "ok"; no dumps, the roots are destroyed before the line is emitted, so with
//                                   -DVERIF_LEDGER the trace appended by vh::emit is the operations' own (C16)
// A root prints as "<deep dump>@<getter summary>"; the format is the one of lean/Qentem/Driver/Value.lean.
// Only the public API is used (slots through GetObject()/GetArray(), the pointee of a ValuePtr through the
// Is*() getters).  Keys are passed in exact-size heap buffers.
#include <new>
#include "ledger.hpp"
#include "common.hpp"
#include "Value.hpp"
#include "JSON.hpp"
#include <memory>
using namespace Qentem;

using V   = Value<char>;
using Str = String<char>;
using SV  = StringView<char>;
using Obj = V::ObjectT;
using Arr = V::ArrayT;

struct SelT {
    bool                  isKey;
    char                  variant;
    std::vector<uint64_t> key;
    uint64_t              idx;
};
struct LocT {
    unsigned          root;
    std::vector<SelT> path;
};
struct PayT {
    char                  kind;
    char                  variant;
    uint64_t              n;
    long long             i;
    double                d;
    std::vector<uint64_t> units;
};

static bool parse_units(const std::string &s, std::vector<uint64_t> &out) {
    out.clear();
    if (s == "-") return true;
    for (auto &t : vh::split(s, '.')) {
        if (t.empty()) return false;
        for (char c : t)
            if (c < '0' || c > '9') return false;
        out.push_back(strtoull(t.c_str(), nullptr, 10));
    }
    return true;
}

static std::string units_str(const char *p, size_t n) {
    if (n == 0) return "-";
    std::string s;
    char        buf[16];
    for (size_t i = 0; i < n; ++i) {
        if (i) s += '.';
        snprintf(buf, sizeof buf, "%u", (unsigned)(unsigned char)p[i]);
        s += buf;
    }
    return s;
}

static std::string hex16(uint64_t v) {
    char buf[24];
    snprintf(buf, sizeof buf, "%016llx", (unsigned long long)v);
    return buf;
}
static uint64_t dbits(double d) {
    uint64_t b;
    memcpy(&b, &d, 8);
    return b;
}
static double bdouble(uint64_t b) {
    double d;
    memcpy(&d, &b, 8);
    return d;
}
static std::string num(unsigned long long v) {
    char buf[32];
    snprintf(buf, sizeof buf, "%llu", v);
    return buf;
}
static std::string snum(long long v) {
    char buf[32];
    snprintf(buf, sizeof buf, "%lld", v);
    return buf;
}

static bool parse_loc(const std::string &t, LocT &l) {
    auto parts = vh::split(t, '/');
    if (parts.empty() || parts[0].empty()) return false;
    l.root = (unsigned)strtoul(parts[0].c_str(), nullptr, 10);
    if (l.root > 3) return false;
    l.path.clear();
    for (size_t k = 1; k < parts.size(); ++k) {
        const std::string &p = parts[k];
        if (p.size() < 3) return false;
        SelT s;
        s.variant = p[1];
        if (p[0] == 'k') {
            s.isKey = true;
            if (!parse_units(p.substr(2), s.key)) return false;
        } else if (p[0] == 'i') {
            s.isKey = false;
            s.idx   = strtoull(p.c_str() + 2, nullptr, 10);
        } else
            return false;
        l.path.push_back(s);
    }
    return true;
}

static bool parse_pay(const std::string &t, PayT &p) {
    if (t.empty()) return false;
    p.kind    = t[0];
    p.variant = 0;
    switch (t[0]) {
        case 'N':
        case 'T':
        case 'F':
        case 'U': return t.size() == 1;
        case 'n':
        case 'u': p.n = strtoull(t.c_str() + 1, nullptr, 10); return true;
        case 'i':
        case 'j': p.i = strtoll(t.c_str() + 1, nullptr, 10); return true;
        case 'r':
        case 'f': p.d = bdouble(strtoull(t.c_str() + 1, nullptr, 16)); return true;
        case 's':
            if (t.size() < 3) return false;
            p.variant = t[1];
            return parse_units(t.substr(2), p.units);
        default: return false;
    }
}

static std::string cstr_of(const std::vector<uint64_t> &u) {
    std::string s;
    for (auto c : u) s.push_back((char)c);
    return s;
}

// a chain of vivifying subscripts
static V *vivify(V *roots, const LocT &l) {
    V *cur = &roots[l.root];
    for (const SelT &s : l.path) {
        if (s.isKey) {
            vh::ExactBuf<char> kb(s.key);
            const char        *kp = kb.p;
            const SizeT        kn = SizeT(kb.n);
            switch (s.variant) {
                case 'a': {
                    std::string z = cstr_of(s.key);
                    cur           = &((*cur)[z.c_str()]);
                    break;
                }
                case 'b': cur = &((*cur)[SV{kp, kn}]); break;
                case 'c': cur = &((*cur)[Str{kp, kn}]); break;
                case 'd': {
                    const Str ks{kp, kn};
                    cur = &((*cur)[ks]);
                    break;
                }
                case 'e': cur = &(cur->Get(kp, kn)); break;
                default: cur = &(cur->Get(SV{kp, kn})); break;
            }
        } else {
            if (s.variant == 'b')
                cur = &((*cur)[int(s.idx)]);
            else
                cur = &((*cur)[SizeT(s.idx)]);
        }
    }
    return cur;
}

// a chain of GetValue calls that does not cross a pointer
static V *nav(V *roots, const LocT &l) {
    V *cur = &roots[l.root];
    for (const SelT &s : l.path) {
        if (cur->Type() == ValueType::ValuePtr) return nullptr;
        if (s.isKey) {
            vh::ExactBuf<char> kb(s.key);
            const char        *kp = kb.p;
            if (s.variant == 'b')
                cur = cur->GetValue(SV{kp, SizeT(kb.n)});
            else
                cur = cur->GetValue(kp, SizeT(kb.n));
        } else {
            cur = cur->GetValue(SizeT(s.idx));
        }
        if (cur == nullptr) return nullptr;
    }
    return cur;
}

static V make_value(const PayT &p) {
    switch (p.kind) {
        case 'N': return V{nullptr};
        case 'T': return V{true};
        case 'F': return V{false};
        case 'U': return V{};
        case 'n': return V{SizeT64(p.n)};
        case 'u': return V{(unsigned int)(p.n)};
        case 'i': return V{SizeT64I(p.i)};
        case 'j': return V{int(p.i)};
        case 'r': return V{p.d};
        case 'f': return V{float(p.d)};
        default: {
            vh::ExactBuf<char> b(p.units);
            const char        *cp = b.p;
            return V{cp, SizeT(b.n)};
        }
    }
}

static void do_set(V *t, const PayT &p) {
    switch (p.kind) {
        case 'N': *t = nullptr; break;
        case 'T': *t = true; break;
        case 'F': *t = false; break;
        case 'n': *t = SizeT64(p.n); break;
        case 'u': *t = (unsigned int)(p.n); break;
        case 'i': *t = SizeT64I(p.i); break;
        case 'j': *t = int(p.i); break;
        case 'r': *t = p.d; break;
        case 'f': *t = float(p.d); break;
        case 's': {
            vh::ExactBuf<char> b(p.units);
            const char        *cp = b.p;
            const SizeT        n  = SizeT(b.n);
            switch (p.variant) {
                case 'a': *t = Str{cp, n}; break;
                case 'b': {
                    const Str s{cp, n};
                    *t = s;
                    break;
                }
                case 'c': {
                    const Str  s{cp, n};
                    const Str *sp = &s;
                    *t            = sp;
                    break;
                }
                case 'd': {
                    Str  s{cp, n};
                    Str *sp = &s;
                    *t      = sp;
                    break;
                }
                case 'e': *t = SV{cp, n}; break;
                case 'g': {
                    V tmp(SV{cp, n}); // Value(const StringViewT&)
                    *t = static_cast<V &&>(tmp);
                    break;
                }
                // every way the API yields an EMPTY string (the units of the token are not its content):
                case 'h': *t = Str{}; break; // default-constructed String: no storage
                case 'i': {
                    Str a{cp, n};
                    Str b{static_cast<Str &&>(a)};
                    *t = static_cast<Str &&>(a); // moved-from String: no storage
                    break;
                }
                case 'j': {
                    Str a{cp, n};
                    a.Reset();
                    *t = static_cast<Str &&>(a); // cleared String: no storage
                    break;
                }
                case 'k': {
                    V tmp(Str{}); // Value(StringT&&) of a default String
                    *t = static_cast<V &&>(tmp);
                    break;
                }
                case 'l': {
                    V doc = JSON::Parse("[\"\"]", 4); // "" parsed from JSON: owns its terminator block
                    *t    = static_cast<V &&>(doc[0]);
                    break;
                }
                default: {
                    std::string z = cstr_of(p.units);
                    *t            = z.c_str();
                    break;
                }
            }
            break;
        }
        default: break;
    }
}

static void do_app(V *t, const PayT &p) {
    switch (p.kind) {
        case 'N': *t += nullptr; break;
        case 'T': *t += true; break;
        case 'F': *t += false; break;
        case 'n': *t += SizeT64(p.n); break;
        case 'u': *t += (unsigned int)(p.n); break;
        case 'i': *t += SizeT64I(p.i); break;
        case 'j': *t += int(p.i); break;
        case 'r': *t += p.d; break;
        case 'f': *t += float(p.d); break;
        case 's': {
            vh::ExactBuf<char> b(p.units);
            const char        *cp = b.p;
            const SizeT        n  = SizeT(b.n);
            switch (p.variant) {
                case 'a': *t += Str{cp, n}; break;
                case 'b': {
                    const Str s{cp, n};
                    *t += s;
                    break;
                }
                case 'e': *t += SV{cp, n}; break;
                default: {
                    std::string z = cstr_of(p.units);
                    *t += z.c_str();
                    break;
                }
            }
            break;
        }
        default: break;
    }
}

// ---------------------------------------------------------------------------------------------
// dumps

static std::string ptr_kind(const V &v) {
    if (v.IsUndefined()) return "0";
    if (v.IsObject()) return "2";
    if (v.IsArray()) return "3";
    if (v.IsString()) return "4";
    if (v.IsUInt64()) return "5";
    if (v.IsInt64()) return "6";
    if (v.IsDouble()) return "7";
    if (v.IsTrue()) return "8";
    if (v.IsFalse()) return "9";
    if (v.IsNull()) return "10";
    return "?";
}

static void deep_dump(const V &v, std::string &out, bool abs) {
    switch (v.Type()) {
        case ValueType::Undefined: out += 'U'; break;
        case ValueType::Null: out += 'N'; break;
        case ValueType::True: out += 'T'; break;
        case ValueType::False: out += 'F'; break;
        case ValueType::UIntLong: out += 'n' + num(v.GetUInt64()); break;
        case ValueType::IntLong: out += 'i' + snum(v.GetInt64()); break;
        case ValueType::Double: out += 'r' + hex16(dbits(v.GetDouble())); break;
        case ValueType::String: out += 's' + units_str(v.StringStorage(), v.Length()); break;
        case ValueType::Array: {
            const Arr *a = v.GetArray();
            out += "a(";
            for (SizeT i = 0; i < a->Size(); ++i) {
                if (i) out += ';';
                deep_dump(a->Storage()[i], out, abs);
            }
            out += ')';
            break;
        }
        case ValueType::Object: {
            const Obj *o = v.GetObject();
            out += 'o';
            if (!abs) out += num(o->Capacity());
            out += '(';
            bool first = true;
            for (SizeT i = 0; i < o->Size(); ++i) {
                const V::VItem *it = o->GetItem(i);
                if (it == nullptr && abs) continue;
                if (!first) out += ';';
                first = false;
                if (it == nullptr) {
                    out += '_';
                } else {
                    out += units_str(it->Key.First(), it->Key.Length());
                    out += '=';
                    deep_dump(it->Value, out, abs);
                }
            }
            out += ')';
            break;
        }
        case ValueType::ValuePtr: out += 'p' + ptr_kind(v); break;
    }
}

static std::string opt_kind(const V *p) {
    return p == nullptr ? std::string("~") : num((unsigned)p->Type());
}

// keys probed with GetValue(key, length) / GetValue(StringView) on every root (objects: member lookup; arrays: the key must be
// a plain decimal index): "", a, b, aa, ab, 1, 0, 00, 007, 2, ":", "/", 1a, " 1", +1, -0, 4294967295, 4294967296, 4294967297,
// 99999999999 (11 digits), 00000000001 (11 digits), 0000000001 (10 digits), UTF-8 of U+0661 and of U+0131 (digit look-alikes)
static const std::vector<std::vector<uint64_t>> PROBE = {
    {}, {97}, {98}, {97, 97}, {97, 98}, {49}, {48}, {48, 48}, {48, 48, 55}, {50}, {58}, {47}, {49, 97}, {32, 49}, {43, 49}, {45, 48},
    {52, 50, 57, 52, 57, 54, 55, 50, 57, 53}, {52, 50, 57, 52, 57, 54, 55, 50, 57, 54}, {52, 50, 57, 52, 57, 54, 55, 50, 57, 55},
    {57, 57, 57, 57, 57, 57, 57, 57, 57, 57, 57}, {48, 48, 48, 48, 48, 48, 48, 48, 48, 48, 49}, {48, 48, 48, 48, 48, 48, 48, 48, 48, 49},
    {217, 161}, {196, 177}};

static std::string summary(const V *roots, const V &v) {
    std::string s;
    s += 'k' + num((unsigned)v.Type());
    s += ':';
    s += v.IsUndefined() ? '1' : '0';
    s += v.IsObject() ? '1' : '0';
    s += v.IsArray() ? '1' : '0';
    s += v.IsString() ? '1' : '0';
    s += v.IsUInt64() ? '1' : '0';
    s += v.IsInt64() ? '1' : '0';
    s += v.IsDouble() ? '1' : '0';
    s += v.IsTrue() ? '1' : '0';
    s += v.IsFalse() ? '1' : '0';
    s += v.IsNull() ? '1' : '0';
    s += v.IsNumber() ? '1' : '0';
    s += ":t" + num((unsigned)v.GetNumberType());
    const SizeT sz = v.Size();
    s += ":z" + num(sz);
    {
        const Str *gs = v.GetString();
        s += ":g";
        if (gs == nullptr) {
            s += '~';
            if (v.StringStorage() != nullptr || v.Length() != 0 || v.GetStringView().Length() != 0) s += "!inconsistent";
        } else {
            s += units_str(gs->First(), gs->Length());
            if (v.Length() != gs->Length() || v.StringStorage() != gs->First() || v.GetStringView().First() != gs->First() ||
                v.GetStringView().Length() != gs->Length())
                s += "!inconsistent";
        }
    }
    {
        QNumber64 q;
        q.Natural = 0;
        switch (v.SetNumber(q)) {
            case QNumberType::NotANumber: s += ":m0"; break;
            case QNumberType::Natural: s += ":m2." + num(q.Natural); break;
            case QNumberType::Integer: s += ":m3." + snum(q.Integer); break;
            case QNumberType::Real: s += ":m1." + hex16(dbits(q.Real)); break;
        }
    }
    s += ":u" + num(v.GetUInt64());
    s += ":j" + snum(v.GetInt64());
    s += ":d" + hex16(dbits(v.GetDouble()));
    if (dbits(v.GetNumber()) != dbits(v.GetDouble())) s += "!getnumber";
    {
        bool b = false;
        s += ":b";
        if (v.SetBool(b))
            s += b ? '1' : '0';
        else
            s += '-';
    }
    {
        const char *cp = nullptr;
        SizeT       cl = 0;
        s += ":c";
        if (v.SetCharAndLength(cp, cl))
            s += units_str(cp, cl);
        else
            s += '~';
    }
    {
        StringStream<char> ss;
        s += ":v";
        if (v.CopyValueTo(ss))
            s += units_str(ss.First(), ss.Length());
        else
            s += '~';
    }
    {
        Str y = v.Stringify();
        s += ":y" + units_str(y.First(), y.Length());
    }
    {
        StringStream<char> os;
        os << v;   // operator<<(Stream_T&, const Value&) writes Stringify()
        Str y2 = v.Stringify();
        if (os.Length() != y2.Length() || !StringUtils::IsEqual(os.First(), y2.First(), y2.Length())) s += "!shift";
        StringStream<char> o3;
        v.Stringify(o3, Config::DoublePrecision);
        if (o3.Length() != y2.Length() || !StringUtils::IsEqual(o3.First(), y2.First(), y2.Length())) s += "!stringify2";
    }
    {
        // First() / Last() against the container's own storage (raw kinds only).  Value::End(), Value::Storage() and
        // Value::IsPointerToValue() cannot be instantiated at all (they do not compile: see notes/design-value.md).
        if (v.Type() == ValueType::Array) {
            const Arr *a = v.GetArray();
            if (v.First() != a->First() || v.Last() != a->Last()) s += "!ptrs";
        } else if (v.Type() == ValueType::Object) {
            const Obj      *o  = v.GetObject();
            const V::VItem *st = o->Storage();
            const bool      ok = (st == nullptr) ? (v.First() == nullptr && v.Last() == nullptr)
                                                 : (v.First() == &(st->Value) && (sz == 0 ? v.Last() == nullptr : v.Last() == &((st + (sz - 1))->Value)));
            if (!ok) s += "!ptrs";
        } else if (v.Type() != ValueType::ValuePtr) {
            if (v.First() != nullptr || v.Last() != nullptr) s += "!ptrs";
        }
    }
    s += ":q";
    for (size_t i = 0; i < PROBE.size(); ++i) {
        vh::ExactBuf<char> kb(PROBE[i]);
        const char        *kp = kb.p;
        if (i) s += ',';
        const V *r  = v.GetValue(kp, SizeT(kb.n));
        const V *r2 = v.GetValue(SV{kp, SizeT(kb.n)});
        s += opt_kind(r);
        if (r != r2) s += "!sv";
    }
    s += ":x";
    const SizeT lim = (sz < 6 ? sz : 6) + 1;
    for (SizeT i = 0; i < lim; ++i) {
        if (i) s += ',';
        s += opt_kind(v.GetValue(i));
        s += '/';
        const Str *k = v.GetKey(i);
        s += (k == nullptr) ? std::string("~") : units_str(k->First(), k->Length());
        s += '/';
        const V *pv = nullptr;
        SV       pk;
        v.SetValueAndKey(i, pv, pk);
        const V    *pv2 = nullptr;
        const char *kc  = nullptr;
        SizeT       kl  = 0;
        v.SetValueKeyLength(i, pv2, kc, kl);
        if (pv != pv2) s += "!vk";
        if (pv == nullptr) {
            s += '~';
        } else {
            if (kc != pk.First() || kl != pk.Length()) s += "!vk";
            s += units_str(pk.First(), pk.Length()) + "=" + num((unsigned)pv->Type());
        }
        {
            StringStream<char> ks;
            s += '/';
            if (v.CopyKeyByIndexTo(ks, i))
                s += units_str(ks.First(), ks.Length());
            else
                s += '~';
        }
        {
            const char *c2 = nullptr;
            SizeT       l2 = 0;
            const bool  ok = v.SetKeyCharAndLength(i, c2, l2);
            if (ok != (k != nullptr) || (ok && (c2 != k->First() || l2 != k->Length()))) s += "!keychar";
        }
    }
    s += ":e";
    for (int r = 0; r < 4; ++r) s += (v == roots[r]) ? '1' : '0';
    return s;
}

static std::string env_dump(const V *roots, const std::string &sel) {
    std::string out;
    bool        first = true;
    for (int r = 0; r < 4; ++r) {
        if (!sel.empty() && sel.find(char('0' + r)) == std::string::npos) continue;
        if (!first) out += '#';
        first = false;
        deep_dump(roots[r], out, false);
        out += '@';
        out += summary(roots, roots[r]);
    }
    return out;
}

// abstract view of a grouped result (same as Driver.Value.viewStr ∘ groupView)
static std::string group_view(const V &g) {
    std::string out;
    if (g.Type() != ValueType::Object) return out;
    const Obj *o     = g.GetObject();
    bool       first = true;
    for (SizeT i = 0; i < o->Size(); ++i) {
        const V::VItem *it = o->GetItem(i);
        if (it == nullptr || it->Value.Type() == ValueType::Undefined) continue;
        if (!first) out += ',';
        first = false;
        out += units_str(it->Key.First(), it->Key.Length());
        out += ":[";
        if (it->Value.Type() == ValueType::Array) {
            const Arr *a = it->Value.GetArray();
            for (SizeT j = 0; j < a->Size(); ++j) {
                const V &e = a->Storage()[j];
                out += '{';
                if (e.Type() == ValueType::Object) {
                    const Obj *eo = e.GetObject();
                    bool       f2 = true;
                    for (SizeT k = 0; k < eo->Size(); ++k) {
                        const V::VItem *m = eo->GetItem(k);
                        if (m == nullptr || m->Value.Type() == ValueType::Undefined) continue;
                        if (!f2) out += ';';
                        f2 = false;
                        out += units_str(m->Key.First(), m->Key.Length());
                        out += '=';
                        deep_dump(m->Value, out, true);
                    }
                }
                out += '}';
            }
        }
        out += ']';
    }
    return out;
}

// ---------------------------------------------------------------------------------------------

struct StepResult {
    bool ok;
    bool ret;
};

static StepResult do_op(V *roots, const std::vector<std::string> &t, std::string *view) {
    StepResult res{true, true};
    LocT       l, s;
    PayT       p;
    auto       two = [&](size_t n) { return t.size() == n && parse_loc(t[1], l) && parse_loc(t[2], s); };
    const std::string &op = t[0];
    if (op == "set" && t.size() == 3 && parse_loc(t[1], l)) {
        if (t[2] == "z") {
            V *tv = vivify(roots, l);
            *tv   = static_cast<const Str *>(nullptr);
            *tv   = static_cast<Str *>(nullptr);
        } else if (parse_pay(t[2], p)) {
            do_set(vivify(roots, l), p);
        } else
            res.ok = false;
    } else if (op == "tyc" && t.size() == 3 && parse_loc(t[1], l)) {
        // Value(ValueType) construction followed by move assignment
        V             *tv = vivify(roots, l);
        const unsigned k  = (unsigned)strtoul(t[2].c_str(), nullptr, 10);
        if (k != 1 && k <= 10) {
            V tmp{ValueType(k)};
            *tv = static_cast<V &&>(tmp);
        }
    } else if (op == "typ" && t.size() == 3 && parse_loc(t[1], l)) {
        V             *tv = vivify(roots, l);
        const unsigned k  = (unsigned)strtoul(t[2].c_str(), nullptr, 10);
        // the bare operator, whatever the target holds (ValuePtr would leave a null pointer: not driven)
        if (k != 1 && k <= 10) *tv = ValueType(k);
    } else if ((op == "cpy" || op == "mov") && two(4)) {
        if (l.root == s.root) {
            if (l.path.empty() && s.path.empty()) {
                V &self = roots[l.root];
                if (op == "cpy")
                    self = static_cast<const V &>(self);
                else
                    self = static_cast<V &&>(self);
            }
        } else {
            V *src = nav(roots, s);
            if (src != nullptr) {
                V *tv = vivify(roots, l);
                if (op == "cpy") {
                    if (t[3] == "b") {
                        V tmp(static_cast<const V &>(*src));
                        *tv = static_cast<V &&>(tmp);
                    } else
                        *tv = static_cast<const V &>(*src);
                } else {
                    if (t[3] == "b") {
                        V tmp(static_cast<V &&>(*src));
                        *tv = static_cast<V &&>(tmp);
                    } else
                        *tv = static_cast<V &&>(*src);
                }
            }
        }
    } else if ((op == "obj" || op == "apo") && two(4)) {
        V *src = (l.root == s.root) ? nullptr : nav(roots, s);
        if (src != nullptr && src->Type() == ValueType::Object) {
            const Obj *so = static_cast<const V *>(src)->GetObject();
            V         *tv = vivify(roots, l);
            if (op == "obj") {
                if (t[3] == "a") {
                    Obj tmp(*so);
                    *tv = static_cast<Obj &&>(tmp);
                } else
                    *tv = *so;
            } else {
                if (t[3] == "a") {
                    Obj tmp(*so);
                    *tv += static_cast<Obj &&>(tmp);
                } else
                    *tv += *so;
            }
        }
    } else if ((op == "arr" || op == "apa") && two(4)) {
        V *src = (l.root == s.root) ? nullptr : nav(roots, s);
        if (src != nullptr && src->Type() == ValueType::Array) {
            const Arr *sa = static_cast<const V *>(src)->GetArray();
            V         *tv = vivify(roots, l);
            if (op == "arr") {
                if (t[3] == "a") {
                    Arr tmp(*sa);
                    *tv = static_cast<Arr &&>(tmp);
                } else
                    *tv = *sa;
            } else {
                if (t[3] == "a") {
                    Arr tmp(*sa);
                    *tv += static_cast<Arr &&>(tmp);
                } else
                    *tv += *sa;
            }
        }
    } else if ((op == "ptr" || op == "adp") && t.size() == 3 && parse_loc(t[1], l)) {
        V       *tv = vivify(roots, l);
        const V *pp = (t[2] == "-") ? nullptr : &roots[strtoul(t[2].c_str(), nullptr, 10) & 3];
        if (op == "ptr") {
            if (!(pp == nullptr && tv->Type() == ValueType::ValuePtr)) tv->SetPointerToValue(pp);
        } else
            tv->AddPointerToValue(pp);
    } else if (op == "app" && t.size() == 3 && parse_loc(t[1], l) && parse_pay(t[2], p)) {
        do_app(vivify(roots, l), p);
    } else if (op == "apv" && two(4)) {
        V *src = (l.root == s.root) ? nullptr : nav(roots, s);
        if (src != nullptr) {
            V *tv = vivify(roots, l);
            if (t[3] == "a")
                *tv += static_cast<V &&>(*src);
            else
                *tv += static_cast<const V &>(*src);
        }
    } else if (op == "ins" && t.size() == 4 && parse_loc(t[1], l) && parse_pay(t[3], p)) {
        std::vector<uint64_t> k;
        if (!parse_units(t[2], k)) return StepResult{false, false};
        vh::ExactBuf<char> kb(k);
        const char        *kp = kb.p;
        V                 *tv = vivify(roots, l);
        tv->Insert(SV{kp, SizeT(kb.n)}, make_value(p));
    } else if (op == "inm" && t.size() == 4 && parse_loc(t[1], l) && parse_loc(t[3], s)) {
        std::vector<uint64_t> k;
        if (!parse_units(t[2], k)) return StepResult{false, false};
        V *src = (l.root == s.root) ? nullptr : nav(roots, s);
        if (src != nullptr) {
            vh::ExactBuf<char> kb(k);
            const char        *kp = kb.p;
            V                 *tv = vivify(roots, l);
            tv->Insert(SV{kp, SizeT(kb.n)}, static_cast<V &&>(*src));
        }
    } else if (op == "mrg" && two(4)) {
        V *src = (l.root == s.root) ? nullptr : nav(roots, s);
        if (src != nullptr) {
            V *tv = vivify(roots, l);
            if (t[3] == "a")
                tv->Merge(static_cast<V &&>(*src));
            else
                tv->Merge(static_cast<const V &>(*src));
        }
    } else if (op == "rem" && t.size() == 4 && parse_loc(t[1], l)) {
        std::vector<uint64_t> k;
        if (!parse_units(t[2], k)) return StepResult{false, false};
        vh::ExactBuf<char> kb(k);
        const char        *kp = kb.p;
        V                 *tv = vivify(roots, l);
        if (t[3] == "b") {
            const Str ks{kp, SizeT(kb.n)};
            tv->Remove(ks);
        } else if (t[3] == "c") {
            std::string z = cstr_of(k);
            tv->Remove(z.c_str());
        } else
            tv->Remove(kp, SizeT(kb.n));
    } else if (op == "rmi" && t.size() == 4 && parse_loc(t[1], l)) {
        V             *tv = vivify(roots, l);
        const uint64_t i  = strtoull(t[2].c_str(), nullptr, 10);
        if (t[3] == "b")
            tv->RemoveIndex(int(i));
        else
            tv->RemoveIndex(SizeT(i));
    } else if (op == "rst" && t.size() == 2 && parse_loc(t[1], l)) {
        vivify(roots, l)->Reset();
    } else if (op == "cmp" && t.size() == 2 && parse_loc(t[1], l)) {
        vivify(roots, l)->Compress();
    } else if (op == "rsv" && t.size() == 4 && parse_loc(t[1], l)) {
        // an empty container that owns storage: Value{ValueType::Object|Array, n} (Size() == 0, Capacity() != 0)
        V             *tv = vivify(roots, l);
        const unsigned k  = (unsigned)strtoul(t[2].c_str(), nullptr, 10);
        const SizeT    n  = SizeT(strtoul(t[3].c_str(), nullptr, 10));
        if (k == 2 || k == 3) *tv = V{ValueType(k), n};
    } else if (op == "clr" && t.size() == 2 && parse_loc(t[1], l)) {
        // items gone, capacity kept: GetObject()->Clear() / GetArray()->Clear()
        V *tv = vivify(roots, l);
        if (tv->Type() == ValueType::Object)
            tv->GetObject()->Clear();
        else if (tv->Type() == ValueType::Array)
            tv->GetArray()->Clear();
    } else if (op == "cop" && t.size() == 5 && parse_loc(t[3], l) && parse_loc(t[4], s)) {
        // container-typed overloads with the container taken from ANY location of the forest (also inside the
        // destination, an ancestor of it, a sibling, the destination itself):
        //   cop <form> <kind> L S     form: ac = (const&)  am = (&&)  pc += (const&)  pm += (&&)  cc Value(const&)  cm Value(&&)
        //                              kind: o ObjectT, a ArrayT, s StringT
        // the destination reference is obtained first (vivifying subscripts), then the source through GetValue calls
        V *tv  = vivify(roots, l);
        V *src = nav(roots, s);
        const std::string &form = t[1];
        const char         kind = t[2].empty() ? '?' : t[2][0];
        if (src != nullptr) {
            if (kind == 'o' && src->Type() == ValueType::Object) {
                Obj *so = src->GetObject();
                if (form == "ac") *tv = static_cast<const Obj &>(*so);
                else if (form == "am") *tv = static_cast<Obj &&>(*so);
                else if (form == "pc") *tv += static_cast<const Obj &>(*so);
                else if (form == "pm") *tv += static_cast<Obj &&>(*so);
                else if (form == "cc") { V tmp(static_cast<const Obj &>(*so)); *tv = static_cast<V &&>(tmp); }
                else if (form == "cm") { V tmp(static_cast<Obj &&>(*so)); *tv = static_cast<V &&>(tmp); }
                else res.ok = false;
            } else if (kind == 'a' && src->Type() == ValueType::Array) {
                Arr *sa = src->GetArray();
                if (form == "ac") *tv = static_cast<const Arr &>(*sa);
                else if (form == "am") *tv = static_cast<Arr &&>(*sa);
                else if (form == "pc") *tv += static_cast<const Arr &>(*sa);
                else if (form == "pm") *tv += static_cast<Arr &&>(*sa);
                else if (form == "cc") { V tmp(static_cast<const Arr &>(*sa)); *tv = static_cast<V &&>(tmp); }
                else if (form == "cm") { V tmp(static_cast<Arr &&>(*sa)); *tv = static_cast<V &&>(tmp); }
                else res.ok = false;
            } else if (kind == 's' && src->Type() == ValueType::String) {
                Str *ss = src->GetString();
                if (form == "ac") *tv = static_cast<const Str &>(*ss);
                else if (form == "am") *tv = static_cast<Str &&>(*ss);
                else if (form == "pc") *tv += static_cast<const Str &>(*ss);
                else if (form == "pm") *tv += static_cast<Str &&>(*ss);
                else if (form == "cc") { V tmp(static_cast<const Str &>(*ss)); *tv = static_cast<V &&>(tmp); }
                else if (form == "cm") { V tmp(static_cast<Str &&>(*ss)); *tv = static_cast<V &&>(tmp); }
                else res.ok = false;
            }
        }
    } else if ((op == "grp") && t.size() == 4 && parse_loc(t[2], s)) {
        const unsigned        d = (unsigned)strtoul(t[1].c_str(), nullptr, 10) & 3;
        std::vector<uint64_t> k;
        if (!parse_units(t[3], k)) return StepResult{false, false};
        if (d != s.root) {
            V *src = nav(roots, s);
            if (src != nullptr) {
                vh::ExactBuf<char> kb(k);
                const char        *kp = kb.p;
                res.ret               = static_cast<const V *>(src)->GroupBy(roots[d], kp, SizeT(kb.n));
                if (view != nullptr) *view = std::string(res.ret ? "1" : "0") + "/" + group_view(roots[d]);
            } else if (view != nullptr)
                *view = "no-source";
        }
    } else
        res.ok = false;
    return res;
}

int main() {
    std::string line;
    while (vh::read_line(line)) {
        auto toks = vh::split(line);
        if (toks.size() == 2 && toks[0] == "valhash") {
            // StringUtils::Hash of a key (the generators assert that their colliding member names still collide)
            std::vector<uint64_t> k;
            if (!parse_units(toks[1], k)) {
                vh::emit("bad-op");
                continue;
            }
            vh::ExactBuf<char> kb(k);
            const char        *kp = kb.p;
            vh::emit(num(StringUtils::Hash(kp, SizeT(kb.n))));
            continue;
        }
        if (toks.empty() || (toks[0] != "valseq" && toks[0] != "valview" && toks[0] != "valled")) {
            vh::emit("bad-op");
            continue;
        }
        const bool                            want_view = (toks[0] == "valview");
        const bool                            ledger    = (toks[0] == "valled"); // no dumps: the trace is the operations' own
        std::vector<std::vector<std::string>> ops;
        ops.emplace_back();
        std::string sel;
        size_t      first_tok = 1;
        if (toks.size() > 1 && !toks[1].empty() && toks[1][0] == '@') {
            sel       = toks[1].substr(1);
            first_tok = 2;
        }
        for (size_t i = first_tok; i < toks.size(); ++i) {
            if (toks[i] == ";")
                ops.emplace_back();
            else if (!toks[i].empty())
                ops.back().push_back(toks[i]);
        }
        std::string out;
        bool        bad = false;
        {
            std::unique_ptr<V[]> roots(new V[4]);
            std::string          view = "no-grp";
            for (size_t k = 0; k < ops.size() && !bad; ++k) {
                if (ops[k].empty()) {
                    bad = true;
                    break;
                }
                StepResult r = do_op(roots.get(), ops[k], (want_view && k + 1 == ops.size()) ? &view : nullptr);
                if (!r.ok) {
                    bad = true;
                    break;
                }
                if (!want_view && !ledger) {
                    if (k) out += '|';
                    out += r.ret ? "1#" : "0#";
                    out += env_dump(roots.get(), sel);
                }
            }
            if (want_view) out = view;
            if (ledger) out = "ok";
        }
        vh::emit(bad ? std::string("bad-op") : out);
    }
    return 0;
}
