// Allocation ledger for C16.  Include FIRST (before any library header) in a harness; active
// when compiled with -DVERIF_LEDGER.  The library has exactly one allocation site
// (Memory::Allocate) and one release site (Memory::Deallocate); both call
// MemoryRecord::AddAllocation / RemoveAllocation when QENTEM_Q_TEST_H is defined (the test hook
// the repository's own QTest.hpp uses).  We provide that MemoryRecord and log every event.
// Trace syntax: a<id>:<usable size>  f<id>   joined by ','.  A release of a pointer that is not
// live is logged as f0 (id 0 is never allocated), i.e. a violation for the Lean `run`.
#ifndef VERIF_LEDGER_HPP
#define VERIF_LEDGER_HPP
#ifdef VERIF_LEDGER
#define QENTEM_Q_TEST_H
#include <malloc.h>
#include <string>
#include <unordered_map>
#include <cstdio>

namespace vh {
struct Ledger {
    std::unordered_map<void *, unsigned long> live;
    std::string                               trace;
    unsigned long                             next_id = 1;
    unsigned long                             allocs = 0, frees = 0, bad = 0;
    static Ledger                            &get() {
        static Ledger *l = new Ledger(); // never destroyed: the library may free in static destructors
        return *l;
    }
    void add(void *p) {
        char buf[64];
        unsigned long id = next_id++;
        live[p]          = id;
        ++allocs;
        snprintf(buf, sizeof buf, "%sa%lu:%zu", trace.empty() ? "" : ",", id, malloc_usable_size(p));
        trace += buf;
    }
    void remove(void *p) {
        char buf[64];
        auto it = live.find(p);
        unsigned long id = 0;
        if (it == live.end()) ++bad;
        else { id = it->second; live.erase(it); }
        ++frees;
        snprintf(buf, sizeof buf, "%sf%lu", trace.empty() ? "" : ",", id);
        trace += buf;
    }
    // " ##L <trace> live=<n>" and start a new trace (live blocks stay recorded)
    std::string take() {
        std::string s = " ##L ";
        s += trace.empty() ? "-" : trace;
        s += " live=" + std::to_string(live.size());
        trace.clear();
        return s;
    }
};
} // namespace vh

namespace Qentem {
struct MemoryRecord {
    inline static void AddAllocation(void *pointer) noexcept { vh::Ledger::get().add(pointer); }
    inline static void RemoveAllocation(void *pointer) noexcept { vh::Ledger::get().remove(pointer); }
};
} // namespace Qentem
#endif
#endif
