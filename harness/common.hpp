// Shared helpers for the correspondence harnesses (line protocol, exact-size buffers).
#ifndef VERIF_COMMON_HPP
#define VERIF_COMMON_HPP
#include <cstdio>
#include <cstdlib>
#include <cstring>
#include <cstdint>
#include <string>
#include <vector>
#include <type_traits>

namespace vh {

// Split on single spaces.
inline std::vector<std::string> split(const std::string &s, char sep = ' ') {
    std::vector<std::string> out;
    size_t                   i = 0;
    while (i <= s.size()) {
        size_t j = s.find(sep, i);
        if (j == std::string::npos) j = s.size();
        out.emplace_back(s.substr(i, j - i));
        i = j + 1;
    }
    return out;
}

// "-" or "1,2,3" -> numbers
inline bool parse_nats(const std::string &s, std::vector<uint64_t> &out) {
    out.clear();
    if (s == "-") return true;
    const char *p = s.c_str();
    while (*p) {
        if (*p < '0' || *p > '9') return false;
        char    *e;
        uint64_t v = strtoull(p, &e, 10);
        out.push_back(v);
        p = e;
        if (*p == ',') ++p;
        else if (*p) return false;
    }
    return true;
}

template <typename It>
inline std::string show_nats(It b, It e) {
    if (b == e) return "-";
    std::string s;
    char        buf[32];
    for (It i = b; i != e; ++i) {
        if (!s.empty()) s += ',';
        snprintf(buf, sizeof buf, "%llu", (unsigned long long)(*i));
        s += buf;
    }
    return s;
}

// An exact-size heap copy: ASan redzones border [p, p+n). Never NUL-terminated.
template <typename Char_T>
struct ExactBuf {
    Char_T *p;
    size_t  n;
    explicit ExactBuf(const std::vector<uint64_t> &u) : n(u.size()) {
        p = static_cast<Char_T *>(malloc(n * sizeof(Char_T) + (n == 0 ? 1 : 0)));
        for (size_t i = 0; i < n; ++i) p[i] = static_cast<Char_T>(u[i]);
    }
    ~ExactBuf() { free(p); }
    ExactBuf(const ExactBuf &)            = delete;
    ExactBuf &operator=(const ExactBuf &) = delete;
};

template <typename Char_T>
inline std::string show_units(const Char_T *p, size_t n) {
    if (n == 0) return "-";
    std::string s;
    char        buf[32];
    for (size_t i = 0; i < n; ++i) {
        if (i) s += ',';
        using U = typename std::make_unsigned<Char_T>::type;
        snprintf(buf, sizeof buf, "%llu", (unsigned long long)(U)(p[i]));
        s += buf;
    }
    return s;
}

inline bool read_line(std::string &line) {
    line.clear();
    int c;
    while ((c = getchar()) != EOF) {
        if (c == '\n') return true;
        line.push_back(static_cast<char>(c));
    }
    return !line.empty();
}

// One output line per input line. With -DVERIF_LEDGER (and ledger.hpp included first) the
// allocation trace since the previous line is appended after " ##L ".
inline void emit(const std::string &s) {
    fputs(s.c_str(), stdout);
#if defined(VERIF_LEDGER) && defined(VERIF_LEDGER_HPP)
    fputs(Ledger::get().take().c_str(), stdout);
#endif
    fputc('\n', stdout);
    fflush(stdout);
}

} // namespace vh
#endif
