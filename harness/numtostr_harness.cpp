// Correspondence / oracle harness for C10 and C11: Digit::NumberToString (and Digit::StringToNumber for
// the round trip) on the real headers.  Streams grow exact-fit (QENTEM_VERIF hook), so ASan sees
// any poke or read past the stream's capacity; destination streams can be pre-filled.
//
// Line protocol (one output line per input line):
//   n2sr  <d|f> <hexbits> <prec> <fmt 0|1|2> <w 1|2|4> <pre-units>  -> units appended after <pre>
//   n2sra <d|f> <hexbits> <w 1|2|4|W> <pre-units>   (W = wchar_t: its own DigitUtils specialisation)                     -> the same for prec 0..40 x fmt 0,1,2, joined by ';'
//   n2si  <8|16|32|64> <signed 0|1> <decimal> <w 1|2|4> <pre-units> -> units appended after <pre>
//   n2sir <8|16|32|64> <decimal>                                     -> units written by IntToString<true> (reversed digits)
//   n2sirs <8|16|32|64> <signed 0|1> <decimal> -> units appended by NumberToString<true>(stream, v): sign, then reversed digits
//   n2sfi <d|f> <hexbits> <form 0..5> <prec> <fmt> -> the text through one way of giving the format: 0 = argument omitted,
//        1 = RealFormatInfo{}, 2 = RealFormatInfo{prec}, 3 = RealFormatInfo{type}, 4 = info = prec, 5 = info = type
//   n2sx  <d|f> <hexbits> <prec> <fmt>    -> "ok" | "diff <qentem text> <snprintf text>"   (second opinion)
//   n2sxa <d|f> <hexbits> <pmin>          -> "ok" | "diff <prec> <fmt> <qentem> <snprintf>" (all prec 0..40 x 3 formats;
//                                            Default format only from precision <pmin>)
//   n2srt <d|f> <hexbits>                 -> "<kind> <hexbits-out> <text-units>"   NumberToString(17|9) then StringToNumber
// Bulk modes (no stdin; summary on stdout, used by the C11 sweep and the C10 snprintf bulk):
//   --rt-floats <lo> <hi>          every float bit pattern in [lo, hi): round trip through 9 digits
//   --rt-doubles <seed> <count>    <count> doubles from a splitmix64 stream (uniform bit patterns): 17 digits
//   --fmt-doubles <seed> <count>   <count> doubles x prec 0..40 x 3 formats against snprintf
//   --fmt-floats <lo> <hi> <step>  float bit patterns lo, lo+step, .. < hi x prec 0..40 x 3 formats against snprintf
#include "common.hpp"
#include "StringStream.hpp"
#include "Digit.hpp"
#include <cinttypes>
#include <cmath>
using namespace Qentem;

template <typename Char_T>
static void prefill(StringStream<Char_T> &ss, const std::vector<uint64_t> &pre) {
    for (uint64_t u : pre) ss += Char_T(u);
}

template <typename Char_T>
static std::string tail(const StringStream<Char_T> &ss, const std::vector<uint64_t> &pre) {
    if (ss.Length() < pre.size()) return "prefix-disturbed";
    for (size_t i = 0; i < pre.size(); i++) {
        if (ss.First()[i] != Char_T(pre[i])) return "prefix-disturbed";
    }
    return vh::show_units(ss.First() + pre.size(), ss.Length() - pre.size());
}

static double dbl(uint64_t b) { double d; memcpy(&d, &b, 8); return d; }
static float  flt(uint32_t b) { float f; memcpy(&f, &b, 4); return f; }
static uint64_t dbits(double d) { uint64_t b; memcpy(&b, &d, 8); return b; }
static uint32_t fbits(float f) { uint32_t b; memcpy(&b, &f, 4); return b; }

template <typename Char_T>
static std::string doReal(bool is_double, uint64_t bits, unsigned prec, unsigned fmt, const std::vector<uint64_t> &pre) {
    StringStream<Char_T> ss;
    prefill(ss, pre);
    const Digit::RealFormatInfo info{SizeT32(prec), Digit::RealFormatType(fmt)};
    if (is_double) Digit::NumberToString(ss, dbl(bits), info);
    else Digit::NumberToString(ss, flt(uint32_t(bits)), info);
    return tail(ss, pre);
}

template <typename Char_T, typename Num_T>
static std::string doIntT(Num_T v, const std::vector<uint64_t> &pre) {
    StringStream<Char_T> ss;
    prefill(ss, pre);
    Digit::NumberToString(ss, v);
    return tail(ss, pre);
}

template <typename Char_T>
static std::string doInt(unsigned bits, bool sgn, const std::string &dec, const std::vector<uint64_t> &pre) {
    if (sgn) {
        long long v = strtoll(dec.c_str(), nullptr, 10);
        switch (bits) {
            case 8: return doIntT<Char_T>((signed char)v, pre);
            case 16: return doIntT<Char_T>((short)v, pre);
            case 32: return doIntT<Char_T>((int)v, pre);
            case 64: return doIntT<Char_T>((long long)v, pre);
        }
    } else {
        unsigned long long v = strtoull(dec.c_str(), nullptr, 10);
        switch (bits) {
            case 8: return doIntT<Char_T>((unsigned char)v, pre);
            case 16: return doIntT<Char_T>((unsigned short)v, pre);
            case 32: return doIntT<Char_T>((unsigned int)v, pre);
            case 64: return doIntT<Char_T>((unsigned long long)v, pre);
        }
    }
    return "bad-op";
}

template <typename Num_T>
static std::string doIntRevStream(Num_T v) {
    StringStream<char> ss;
    Digit::NumberToString<true>(ss, v);
    return vh::show_units(ss.First(), ss.Length());
}

static std::string doFormatForm(bool is_double, uint64_t bits, unsigned form, unsigned prec, unsigned fmt) {
    StringStream<char>    ss;
    Digit::RealFormatInfo info;
    switch (form) {
        case 0:
            if (is_double) Digit::NumberToString(ss, dbl(bits));
            else Digit::NumberToString(ss, flt(uint32_t(bits)));
            return vh::show_units(ss.First(), ss.Length());
        case 1: info = Digit::RealFormatInfo{}; break;
        case 2: info = Digit::RealFormatInfo{SizeT32(prec)}; break;
        case 3: info = Digit::RealFormatInfo{Digit::RealFormatType(fmt)}; break;
        case 4: info = SizeT32(prec); break;
        case 5: info = Digit::RealFormatType(fmt); break;
        default: return "bad-op";
    }
    if (is_double) Digit::NumberToString(ss, dbl(bits), info);
    else Digit::NumberToString(ss, flt(uint32_t(bits)), info);
    return vh::show_units(ss.First(), ss.Length());
}

template <typename Num_T>
static std::string doIntRev(Num_T v) {
    // exact-size heap block so that a digit too many is a sanitizer report
    constexpr unsigned maxd = (((sizeof(Num_T) * 8U * 30103U) / 100000U) + 1U);
    char *buf = static_cast<char *>(malloc(maxd));
    SizeT n   = Digit::IntToString<true>(buf, v);
    std::string r = vh::show_units(buf, n);
    free(buf);
    return r;
}

// ---- second opinion: the C library ------------------------------------------------------------
static std::string cref(double d, unsigned prec, unsigned fmt) {
    char buf[1600];
    if (fmt == 0) snprintf(buf, sizeof buf, "%.*g", int(prec), d);
    else snprintf(buf, sizeof buf, "%.*f", int(prec), d);
    std::string s(buf);
    if (fmt == 2 && s.find('.') != std::string::npos && s.find_first_of("in") == std::string::npos) {
        while (!s.empty() && s.back() == '0') s.pop_back();
        if (!s.empty() && s.back() == '.') s.pop_back();
    }
    return s;
}

static std::string qtext(bool is_double, uint64_t bits, unsigned prec, unsigned fmt) {
    StringStream<char> ss;
    const Digit::RealFormatInfo info{SizeT32(prec), Digit::RealFormatType(fmt)};
    if (is_double) Digit::NumberToString(ss, dbl(bits), info);
    else Digit::NumberToString(ss, flt(uint32_t(bits)), info);
    return std::string(ss.First(), ss.Length());
}

static double asDouble(bool is_double, uint64_t bits) { return is_double ? dbl(bits) : double(flt(uint32_t(bits))); }

static std::string units_of(const std::string &s) { return vh::show_units(s.data(), s.size()); }

// ---- C11: round trip ----------------------------------------------------------------------------
static const char *kindName(QNumberType t) {
    switch (t) {
        case QNumberType::NotANumber: return "nan";
        case QNumberType::Real: return "real";
        case QNumberType::Natural: return "nat";
        case QNumberType::Integer: return "int";
    }
    return "?";
}

// The value the library's users get: a Real keeps its bits, a Natural/Integer is converted.
static bool asReal(QNumberType t, const QNumber64 &n, double &out) {
    switch (t) {
        case QNumberType::Real: out = n.Real; return true;
        case QNumberType::Natural: out = double(n.Natural); return true;
        case QNumberType::Integer: out = double(n.Integer); return true;
        default: return false;
    }
}

// the same text embedded in a longer buffer (followed by a JSON delimiter), read through the offset overload:
// kind, payload and consumed length must be those of the exact-length read
static bool embeddedAgrees(const char *text, size_t len, QNumberType kind, const QNumber64 &n) {
    static const char followers[] = {']', ',', '}', ' '};
    for (char f : followers) {
        char *buf = static_cast<char *>(malloc(len + 2));
        buf[0] = '[';
        memcpy(buf + 1, text, len);
        buf[len + 1] = f;
        QNumber64 m;
        SizeT     off = 1;
        const QNumberType k2 = Digit::StringToNumber(m, static_cast<const char *>(buf), off, SizeT(len + 2));
        free(buf);
        if (k2 != kind || off != SizeT(len + 1) || m.Natural != n.Natural) return false;
    }
    return true;
}

static bool rtDouble(uint64_t bits, uint64_t &out_bits, QNumberType &kind, std::string *text) {
    StringStream<char> ss;
    Digit::NumberToString(ss, dbl(bits), Digit::RealFormatInfo{17U});
    // exact-size copy for the parser, never NUL-terminated
    char *buf = static_cast<char *>(malloc(ss.Length() ? ss.Length() : 1));
    memcpy(buf, ss.First(), ss.Length());
    QNumber64 n;
    kind = Digit::StringToNumber(n, buf, SizeT(ss.Length()));
    if (text) *text = std::string(buf, ss.Length());
    const bool emb = embeddedAgrees(buf, ss.Length(), kind, n);
    free(buf);
    double r;
    if (!asReal(kind, n, r)) { out_bits = 0; return false; }
    out_bits = dbits(r);
    // an embedded read that differs from the exact-length read is reported as a failed round trip: the returned
    // pattern is made different from the input (low bit flipped) so that the comparison in the check fails on it
    if (!emb) { out_bits = bits ^ 1U; return false; }
    return out_bits == bits;
}

static bool rtFloat(uint32_t bits, uint32_t &out_bits, QNumberType &kind, std::string *text) {
    StringStream<char> ss;
    Digit::NumberToString(ss, flt(bits), Digit::RealFormatInfo{9U});
    char *buf = static_cast<char *>(malloc(ss.Length() ? ss.Length() : 1));
    memcpy(buf, ss.First(), ss.Length());
    QNumber64 n;
    kind = Digit::StringToNumber(n, buf, SizeT(ss.Length()));
    if (text) *text = std::string(buf, ss.Length());
    const bool emb = embeddedAgrees(buf, ss.Length(), kind, n);
    free(buf);
    double r;
    if (!asReal(kind, n, r)) { out_bits = 0; return false; }
    out_bits = fbits(float(r));
    // an embedded read that differs from the exact-length read is reported as a failed round trip: the returned
    // pattern is made different from the input (low bit flipped) so that the comparison in the check fails on it
    if (!emb) { out_bits = bits ^ 1U; return false; }
    return out_bits == bits;
}

static uint64_t splitmix(uint64_t &s) {
    uint64_t z = (s += 0x9E3779B97F4A7C15ULL);
    z = (z ^ (z >> 30)) * 0xBF58476D1CE4E5B9ULL;
    z = (z ^ (z >> 27)) * 0x94D049BB133111EBULL;
    return z ^ (z >> 31);
}

static int bulk(int argc, char **argv) {
    std::string mode = argv[1];
    if (mode == "--rt-floats" && argc == 4) {
        uint64_t lo = strtoull(argv[2], nullptr, 0), hi = strtoull(argv[3], nullptr, 0);
        uint64_t tested = 0, failed = 0;
        for (uint64_t b = lo; b < hi; b++) {
            if ((b & 0x7F800000U) == 0x7F800000U) continue; // inf / nan
            uint32_t o; QNumberType k; tested++;
            if (!rtFloat(uint32_t(b), o, k, nullptr)) {
                if (failed < 20) {
                    std::string t; rtFloat(uint32_t(b), o, k, &t);
                    printf("fail f %08x -> %s %08x text=%s\n", unsigned(b), kindName(k), o, t.c_str());
                }
                failed++;
            }
        }
        printf("done tested=%" PRIu64 " failed=%" PRIu64 "\n", tested, failed);
        return 0;
    }
    if (mode == "--rt-doubles" && argc == 4) {
        uint64_t s = strtoull(argv[2], nullptr, 0), cnt = strtoull(argv[3], nullptr, 0);
        uint64_t tested = 0, failed = 0;
        for (uint64_t i = 0; i < cnt; i++) {
            uint64_t b = splitmix(s);
            if ((b & 0x7FF0000000000000ULL) == 0x7FF0000000000000ULL) continue;
            uint64_t o; QNumberType k; tested++;
            if (!rtDouble(b, o, k, nullptr)) {
                if (failed < 20) {
                    std::string t; rtDouble(b, o, k, &t);
                    printf("fail d %016" PRIx64 " -> %s %016" PRIx64 " text=%s\n", b, kindName(k), o, t.c_str());
                }
                failed++;
            }
        }
        printf("done tested=%" PRIu64 " failed=%" PRIu64 "\n", tested, failed);
        return 0;
    }
    if (mode == "--fmt-doubles" && argc == 4) {
        uint64_t s = strtoull(argv[2], nullptr, 0), cnt = strtoull(argv[3], nullptr, 0);
        uint64_t tested = 0, failed = 0, failed_p0 = 0;
        for (uint64_t i = 0; i < cnt; i++) {
            uint64_t b = splitmix(s);
            if ((b & 0x7FF0000000000000ULL) == 0x7FF0000000000000ULL) continue;
            for (unsigned p = 0; p <= 40; p++)
                for (unsigned f = 0; f < 3; f++) {
                    tested++;
                    std::string q = qtext(true, b, p, f), c = cref(dbl(b), p, f);
                    if (q != c) {
                        // class "Default format, precision 0" is counted separately (printf takes it as 1)
                        uint64_t &cnt_ref = (p == 0 && f == 0) ? failed_p0 : failed;
                        if (cnt_ref < 10) printf("fail d %016" PRIx64 " %u %u q=%s c=%s\n", b, p, f, q.c_str(), c.c_str());
                        cnt_ref++;
                    }
                }
        }
        printf("done tested=%" PRIu64 " failed=%" PRIu64 " failed_default_p0=%" PRIu64 "\n", tested, failed, failed_p0);
        return 0;
    }
    if (mode == "--fmt-floats" && argc == 5) {
        // every float bit pattern lo, lo+step, ... < hi, x prec 0..40 x 3 formats against snprintf
        uint64_t lo = strtoull(argv[2], nullptr, 0), hi = strtoull(argv[3], nullptr, 0), step = strtoull(argv[4], nullptr, 0);
        uint64_t tested = 0, failed = 0;
        for (uint64_t b = lo; b < hi; b += step) {
            if ((b & 0x7F800000U) == 0x7F800000U) continue;
            for (unsigned p = 0; p <= 40; p++)
                for (unsigned f = 0; f < 3; f++) {
                    tested++;
                    std::string q = qtext(false, b, p, f), c = cref(double(flt(uint32_t(b))), p, f);
                    if (q != c) {
                        if (failed < 40) printf("fail f %08x %u %u q=%s c=%s\n", unsigned(b), p, f, q.c_str(), c.c_str());
                        failed++;
                    }
                }
        }
        printf("done tested=%" PRIu64 " failed=%" PRIu64 "\n", tested, failed);
        return 0;
    }
    fprintf(stderr, "bad bulk mode\n");
    return 2;
}

int main(int argc, char **argv) {
    if (argc > 1) return bulk(argc, argv);
    std::string line;
    while (vh::read_line(line)) {
        auto t = vh::split(line);
        std::vector<uint64_t> pre;
        if (t[0] == "n2sr" && t.size() == 7 && vh::parse_nats(t[6], pre)) {
            const bool     is_d = (t[1] == "d");
            const uint64_t bits = strtoull(t[2].c_str(), nullptr, 16);
            const unsigned prec = unsigned(strtoul(t[3].c_str(), nullptr, 10));
            const unsigned fmt  = unsigned(strtoul(t[4].c_str(), nullptr, 10));
            if (fmt > 2) { vh::emit("bad-op"); continue; }
            if (t[5] == "1") vh::emit(doReal<char>(is_d, bits, prec, fmt, pre));
            else if (t[5] == "2") vh::emit(doReal<char16_t>(is_d, bits, prec, fmt, pre));
            else if (t[5] == "4") vh::emit(doReal<char32_t>(is_d, bits, prec, fmt, pre));
            else if (t[5] == "W") vh::emit(doReal<wchar_t>(is_d, bits, prec, fmt, pre));
            else vh::emit("bad-op");
        } else if (t[0] == "n2sra" && t.size() == 5 && vh::parse_nats(t[4], pre)) {
            const bool     is_d = (t[1] == "d");
            const uint64_t bits = strtoull(t[2].c_str(), nullptr, 16);
            std::string    res;
            for (unsigned p = 0; p <= 40; p++)
                for (unsigned f = 0; f < 3; f++) {
                    if (!res.empty()) res += ';';
                    if (t[3] == "1") res += doReal<char>(is_d, bits, p, f, pre);
                    else if (t[3] == "2") res += doReal<char16_t>(is_d, bits, p, f, pre);
                    else if (t[3] == "W") res += doReal<wchar_t>(is_d, bits, p, f, pre);
                    else res += doReal<char32_t>(is_d, bits, p, f, pre);
                }
            vh::emit(res);
        } else if (t[0] == "n2si" && t.size() == 6 && vh::parse_nats(t[5], pre)) {
            const unsigned bits = unsigned(strtoul(t[1].c_str(), nullptr, 10));
            const bool     sgn  = (t[2] == "1");
            if (t[4] == "1") vh::emit(doInt<char>(bits, sgn, t[3], pre));
            else if (t[4] == "2") vh::emit(doInt<char16_t>(bits, sgn, t[3], pre));
            else if (t[4] == "4") vh::emit(doInt<char32_t>(bits, sgn, t[3], pre));
            else if (t[4] == "W") vh::emit(doInt<wchar_t>(bits, sgn, t[3], pre));
            else vh::emit("bad-op");
        } else if (t[0] == "n2sir" && t.size() == 3) {
            const unsigned     bits = unsigned(strtoul(t[1].c_str(), nullptr, 10));
            unsigned long long v    = strtoull(t[2].c_str(), nullptr, 10);
            switch (bits) {
                case 8: vh::emit(doIntRev((unsigned char)v)); break;
                case 16: vh::emit(doIntRev((unsigned short)v)); break;
                case 32: vh::emit(doIntRev((unsigned int)v)); break;
                case 64: vh::emit(doIntRev((unsigned long long)v)); break;
                default: vh::emit("bad-op");
            }
        } else if (t[0] == "n2sirs" && t.size() == 4) {
            const unsigned bits = unsigned(strtoul(t[1].c_str(), nullptr, 10));
            if (t[2] == "1") {
                long long v = strtoll(t[3].c_str(), nullptr, 10);
                switch (bits) {
                    case 8: vh::emit(doIntRevStream((signed char)v)); break;
                    case 16: vh::emit(doIntRevStream((short)v)); break;
                    case 32: vh::emit(doIntRevStream((int)v)); break;
                    case 64: vh::emit(doIntRevStream((long long)v)); break;
                    default: vh::emit("bad-op");
                }
            } else {
                unsigned long long v = strtoull(t[3].c_str(), nullptr, 10);
                switch (bits) {
                    case 8: vh::emit(doIntRevStream((unsigned char)v)); break;
                    case 16: vh::emit(doIntRevStream((unsigned short)v)); break;
                    case 32: vh::emit(doIntRevStream((unsigned int)v)); break;
                    case 64: vh::emit(doIntRevStream((unsigned long long)v)); break;
                    default: vh::emit("bad-op");
                }
            }
        } else if (t[0] == "n2sfi" && t.size() == 6) {
            const bool     is_d = (t[1] == "d");
            const uint64_t bits = strtoull(t[2].c_str(), nullptr, 16);
            const unsigned form = unsigned(strtoul(t[3].c_str(), nullptr, 10));
            const unsigned prec = unsigned(strtoul(t[4].c_str(), nullptr, 10));
            const unsigned fmt  = unsigned(strtoul(t[5].c_str(), nullptr, 10));
            if (fmt > 2) { vh::emit("bad-op"); continue; }
            vh::emit(doFormatForm(is_d, bits, form, prec, fmt));
        } else if (t[0] == "n2sx" && t.size() == 5) {
            const bool     is_d = (t[1] == "d");
            const uint64_t bits = strtoull(t[2].c_str(), nullptr, 16);
            const unsigned prec = unsigned(strtoul(t[3].c_str(), nullptr, 10));
            const unsigned fmt  = unsigned(strtoul(t[4].c_str(), nullptr, 10));
            std::string q = qtext(is_d, bits, prec, fmt), c = cref(asDouble(is_d, bits), prec, fmt);
            vh::emit(q == c ? std::string("ok") : ("diff " + units_of(q) + " " + units_of(c)));
        } else if (t[0] == "n2sxa" && t.size() == 4) {
            const bool     is_d = (t[1] == "d");
            const uint64_t bits = strtoull(t[2].c_str(), nullptr, 16);
            const unsigned pmin = unsigned(strtoul(t[3].c_str(), nullptr, 10)); // first precision of Default
            std::string    res  = "ok";
            for (unsigned p = 0; p <= 40 && res == "ok"; p++)
                for (unsigned f = (p < pmin ? 1 : 0); f < 3; f++) {
                    std::string q = qtext(is_d, bits, p, f), c = cref(asDouble(is_d, bits), p, f);
                    if (q != c) {
                        res = "diff " + std::to_string(p) + " " + std::to_string(f) + " " + units_of(q) + " " + units_of(c);
                        break;
                    }
                }
            vh::emit(res);
        } else if (t[0] == "n2srt" && t.size() == 3) {
            const uint64_t bits = strtoull(t[2].c_str(), nullptr, 16);
            char           buf[64];
            std::string    text;
            QNumberType    k;
            if (t[1] == "d") {
                uint64_t o;
                rtDouble(bits, o, k, &text);
                snprintf(buf, sizeof buf, "%s %016" PRIx64 " ", kindName(k), o);
            } else {
                uint32_t o;
                rtFloat(uint32_t(bits), o, k, &text);
                snprintf(buf, sizeof buf, "%s %08x ", kindName(k), o);
            }
            vh::emit(std::string(buf) + units_of(text));
        } else {
            vh::emit("bad-op");
        }
    }
    return 0;
}
