import Qentem.Driver.Proto
import Qentem.Driver.Escape
import Qentem.Driver.Order
import Qentem.Driver.Unicode
import Qentem.Driver.BigInt
import Qentem.Driver.Seq
import Qentem.Driver.HashTable
import Qentem.Driver.Value
import Qentem.Driver.Json
import Qentem.Driver.StrToNum
import Qentem.Driver.NumToStr
import Qentem.Driver.Expr
import Qentem.Driver.Tmpl
import Qentem.Driver.Ledger

/-!
Model driver: one operation per input line, one canonical line out.  The first token's prefix
selects the area.  Only `Qentem.Model.*` / `Qentem.Driver.*` (no Mathlib) may be imported here.
-/
open Qentem.Driver

def dispatch (line : String) : String :=
  match line.trimAscii.toString.splitOn " " with
  | op :: rest =>
    if op.startsWith "esc" then Escape.handle op rest
    else if op.startsWith "ord" then Order.handle op rest
    else if op.startsWith "uni" then Unicode.handle op rest
    else if op.startsWith "big" then BigInt.handle op rest
    else if op.startsWith "seq" then Seq.handle op rest
    else if op.startsWith "ht" then HashTable.handle op rest
    else if op.startsWith "val" then Value.handle op rest
    else if op.startsWith "js" then Json.handle op rest
    else if op.startsWith "s2n" then StrToNum.handle op rest
    else if op.startsWith "n2s" then NumToStr.handle op rest
    else if op.startsWith "exp" then Expr.handle op rest
    else if op.startsWith "tpl" then Tmpl.handle op rest
    else if op.startsWith "led" then Ledger.handle op rest
    else "bad-op"
  | [] => "bad-op"

partial def loop (hin : IO.FS.Stream) (hout : IO.FS.Stream) : IO Unit := do
  let line ← hin.getLine
  if line.isEmpty then return ()
  hout.putStrLn (dispatch line)
  loop hin hout

def main : IO Unit := do
  let hin ← IO.getStdin
  let hout ← IO.getStdout
  loop hin hout
  hout.flush
