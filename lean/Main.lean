import Qentem.Driver.Proto
import Qentem.Driver.Escape

open Qentem.Driver

def dispatch (line : String) : String :=
  match line.trimAscii.toString.splitOn " " with
  | op :: rest =>
    if op.startsWith "esc" then Escape.handle op rest
    else "bad-op"
  | _ => "bad-op"

partial def loop (hin : IO.FS.Stream) (hout : IO.FS.Stream) : IO Unit := do
  let line ← hin.getLine
  if line.isEmpty then return ()
  hout.putStrLn (dispatch line)
  loop hin hout

def main : IO Unit := do
  let hin ← IO.getStdin
  let hout ← IO.getStdout
  loop hin hout
  hout.flush
