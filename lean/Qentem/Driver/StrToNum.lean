import Qentem.Model.StrToNum
import Qentem.Model.Round
import Qentem.Driver.Proto
namespace Qentem.Driver.StrToNum
open Qentem.Driver Qentem.StrToNum Qentem.Round

def hex16 (n : Nat) : String :=
  let s := String.ofList (Nat.toDigits 16 n)
  String.ofList (List.replicate (16 - s.length) '0') ++ s

def hexVal (c : Char) : Option Nat :=
  if '0' ≤ c ∧ c ≤ '9' then some (c.toNat - 48)
  else if 'a' ≤ c ∧ c ≤ 'f' then some (c.toNat - 87)
  else if 'A' ≤ c ∧ c ≤ 'F' then some (c.toNat - 55) else none

def parseHex (s : String) : Option Nat :=
  if s.isEmpty then none else
  s.toList.foldlM (fun a c => (hexVal c).map (fun v => a * 16 + v)) 0

def showRes : Option Res → Bool → String
  | none, _ => "FAULT oob-read"
  | some r, withOff => s!"{r.kind.code} {hex16 r.bits} " ++ (if withOff then toString r.offset else "-")

/-- Practicality only: an exponent beyond `2000 + #digits` is replaced by that bound. The mantissa is
`< 10^#digits`, so a non-zero value stays above `10^2000` (overflow) resp. below `10^-2000`
(rounds to zero) and a zero stays zero: every quantity the oracle looks at is unchanged, but
`10^4294967296` is never materialised. -/
def clampExp (x : Numeral) : Numeral :=
  let bound := 2000 + x.intDigits.length + x.fracDigits.length
  if digitsVal x.expDigits > bound then
    { x with expDigits := (Nat.toDigits 10 bound).map (fun c => c.toNat - 48) }
  else x

/-- Verdict of the C09 property (spec definitions of `Model/Round.lean` only) on what an
implementation returned for `text` = `content[offset, end)`: kind code, 64-bit pattern, units consumed.
`ok …` / `skip …` / `FAIL <key> …`. -/
def oracle (text : List Nat) (kind bits consumed : Nat) : String :=
  match classify text with
  | .other => "skip other"
  | .leadingZeros => if kind = 0 then "ok rejected leading-zeros" else "FAIL malformed-accepted leading-zeros"
  | .loneDot => if kind = 0 then "ok rejected lone-dot" else "FAIL malformed-accepted lone-dot"
  | .repeatedDot => if kind = 0 then "ok rejected repeated-dot" else "FAIL malformed-accepted repeated-dot"
  | .emptyExponent => if kind = 0 then "ok rejected empty-exponent" else "FAIL malformed-accepted empty-exponent"
  | .numeral x0 len =>
    let x := clampExp x0
    let (n, d) := x.magFrac
    if kind ≠ 0 ∧ consumed ≠ len then s!"FAIL not-consumed consumed={consumed} numeral={len}" else
    let v := digitsVal x.intDigits
    if x.isIntegerShape ∧ !x.neg ∧ v < 2 ^ 64 then
      (if kind = 2 ∧ bits = v then "ok natural" else "FAIL natural-inexact")
    else if x.isIntegerShape ∧ x.neg ∧ v = 0 then
      (if kind = 1 ∧ bits = 2 ^ 63 then "ok negative-zero" else "FAIL negative-zero")
    else if x.isIntegerShape ∧ x.neg ∧ v ≤ 2 ^ 63 then
      (if kind = 3 ∧ bits = 2 ^ 64 - v then "ok integer" else "FAIL integer-inexact")
    else
      let expected := nearestMag n d
      if kind = 0 then
        (if exceedsMaxFinite n d then "ok rejected overflow"
         else if belowMinSubnormal n d then "ok rejected underflow"
         else "FAIL wellformed-rejected")
      else if kind = 2 then
        (if !x.neg ∧ n = bits * d then "ok natural-for-real-shape" else "FAIL kind-natural-inexact")
      else if kind = 3 then
        (if x.neg ∧ bits ≥ 2 ^ 63 ∧ n = (2 ^ 64 - bits) * d then "ok integer-for-real-shape" else "FAIL kind-integer-inexact")
      else
        let mag := bits % 2 ^ 63
        let sign := bits / 2 ^ 63
        if (sign = 1) ≠ (x.neg = true) then "FAIL sign-lost"
        else if mag ≥ infBits then
          (if exceedsMaxFinite n d then "ok overflow nonfinite" else "FAIL nonfinite-for-finite-value")
        else
          let u := ulpDist mag expected
          if u ≤ 1 then s!"ok real {u}"
          else if exceedsMaxFinite n d then s!"FAIL overflow-finite ulp={u}"
          else s!"FAIL beyond-one-ulp ulp={u}"

/-- `s2n <w> <offset> <end> <units>`            → `<kind> <hex16> <offset>` | `FAULT oob-read`
    `s2nlen <w> <units>`                       → `<kind> <hex16> -`
    `s2noracle <text units> <kind> <hex16> <consumed>` → property verdict on an implementation result
    `s2nnearest <text units>`                  → hex16 of the correctly rounded magnitude of the numeral prefix -/
def handle (op : String) (args : List String) : String :=
  match op, args with
  | "s2n", [_w, o, e, u] =>
    match o.toNat?, e.toNat?, parseNats u with
    | some o, some e, some l => if e ≤ l.length ∧ o ≤ e then showRes (strToNum l o e) true else "bad-op"
    | _, _, _ => "bad-op"
  | "s2nlen", [_w, u] =>
    match parseNats u with
    | some l => showRes (strToNum l 0 l.length) false
    | none => "bad-op"
  | "s2noracle", [u, k, b, c] =>
    match parseNats u, k.toNat?, parseHex b, c.toNat? with
    | some l, some k, some b, some c => oracle l k b c
    | _, _, _, _ => "bad-op"
  | "s2nnearest", [u] =>
    match parseNats u with
    | some l =>
      (match classify l with
       | .numeral x _ => hex16 (nearestMag x.magFrac.1 x.magFrac.2)
       | _ => "none")
    | none => "bad-op"
  | _, _ => "bad-op"

end Qentem.Driver.StrToNum
