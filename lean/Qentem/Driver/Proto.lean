/-
Line protocol helpers shared by all model drivers.
A list of code units / numbers is written as decimal numbers joined by ',' ; the empty list is "-".
-/
namespace Qentem.Driver

def parseNats (s : String) : Option (List Nat) :=
  if s == "-" then some [] else
  (s.splitOn ",").mapM (fun t => t.toNat?)

def showNats (l : List Nat) : String :=
  if l.isEmpty then "-" else ",".intercalate (l.map toString)

def parseInt? (s : String) : Option Int := s.toInt?

def showBool (b : Bool) : String := if b then "1" else "0"

def parseBool (s : String) : Option Bool :=
  if s == "1" then some true else if s == "0" then some false else none

end Qentem.Driver
