import Qentem.Driver.Proto
namespace Qentem.Driver.Value
open Qentem.Driver

/-- Stub: replaced by the area's model driver. `op` is the first token of the line. -/
def handle (_op : String) (_args : List String) : String := "bad-op"

end Qentem.Driver.Value
