import Qentem.Model.Value
import Qentem.Model.Group
import Qentem.Model.ValueOps
import Qentem.Model.ValueLedger
import Qentem.Driver.Proto
/-!
Driver for the Value / GroupBy model (C12, C18).

`valseq <op> ; <op> ; ...`   runs the operation sequence on a forest of four undefined roots and prints,
for every step, `<ret>#<root0>#<root1>#<root2>#<root3>`, steps joined by `|`; a root is
`<deep dump>@<getter summary>` (same format as harness/value_harness.cpp).
`valspec <op> ; ... ; grp D S key`  runs the sequence, then evaluates the *specification* `groupBySpec`
on the source of the final `grp` and prints the expected group view (or `none`) and the view of the
model's result.

Text <-> number conversions are instantiated only on the domain the check uses: `fmtReal` is a table of
ten reals whose `%.15g` text is unambiguous, `strToNum` parses plain decimal integers and answers
NotANumber for strings of ASCII letters.
-/
namespace Qentem.Driver.Value
open Qentem.Driver Qentem.Value Qentem.Value.Doc

def unitsStr (l : List Nat) : String :=
  if l.isEmpty then "-" else ".".intercalate (l.map toString)

def parseUnits (s : String) : Option (List Nat) :=
  if s == "-" then some [] else (s.splitOn ".").mapM (fun t => t.toNat?)

def hexDigit (n : Nat) : Char := if n < 10 then Char.ofNat (48 + n) else Char.ofNat (87 + n)

def hex16 (n : Nat) : String :=
  String.ofList ((List.range 16).reverse.map (fun i => hexDigit ((n / 16 ^ i) % 16)))

def parseHex (s : String) : Option Nat :=
  s.toList.foldlM (fun acc c =>
    if '0' ≤ c ∧ c ≤ '9' then some (acc * 16 + (c.toNat - 48))
    else if 'a' ≤ c ∧ c ≤ 'f' then some (acc * 16 + (c.toNat - 87))
    else none) 0

def asciiStr (s : String) : List Nat := s.toList.map Char.toNat

/-- The reals of the correspondence domain with their default-format text (`%.15g`). -/
def realTable : List (Nat × String) :=
  [ (0x0000000000000000, "0"),
    (0x3ff8000000000000, "1.5"),
    (0xc006000000000000, "-2.75"),
    (0x4008000000000000, "3"),
    (0x3fb999999999999a, "0.1"),
    (0x4202a05f20000000, "10000000000"),
    (0x419d6f3454800000, "123456789.125"),
    (0xbfe0000000000000, "-0.5"),
    (0x8000000000000000, "-0"),
    (0x4014000000000000, "5") ]

def fmtReal (b : Nat) : List Nat :=
  match realTable.find? (fun e => e.1 == b) with
  | some e => asciiStr e.2
  | none => asciiStr ("<real:" ++ hex16 b ++ ">")

def isDigitU (c : Nat) : Bool := 48 ≤ c && c ≤ 57

def digitsVal (l : List Nat) : Nat := l.foldl (fun n c => n * 10 + (c - 48)) 0

/-- Plain decimal integers of at most 18 digits without leading zeros; everything else NotANumber
(the check only uses such strings and strings of letters). -/
def strToNum (s : List Nat) : Num :=
  match s with
  | [] => Num.nan
  | 45 :: ds =>
    if ds.isEmpty || !ds.all isDigitU || ds.length > 18 || ds.head? == some 48 then Num.nan
    else Num.int (-(digitsVal ds : Int))
  | ds =>
    if !ds.all isDigitU || ds.length > 18 || (ds.length > 1 && ds.head? == some 48) then Num.nan
    else Num.nat (digitsVal ds)

/-! ### dumps -/

def ptrKind (env : Env) (r : Nat) : String :=
  match deref env (ptr r) with
  | ptr _ => "?"
  | d => toString d.kindNum

/-- `abs = true`: capacities and removed items are not shown (the abstract document). -/
partial def deepDumpG (abs : Bool) (env : Env) : Doc → String
  | undef => "U" | null => "N" | tru => "T" | fls => "F"
  | Doc.nat n => "n" ++ toString n
  | Doc.int i => "i" ++ toString i
  | Doc.real b => "r" ++ hex16 b
  | str s => "s" ++ unitsStr s
  | arr items => "a(" ++ ";".intercalate (items.map (deepDumpG abs env)) ++ ")"
  | obj c slots => "o" ++ (if abs then "" else toString c) ++ "(" ++
      ";".intercalate ((if abs then liveSlots slots else slots).map (fun s =>
      match s with
      | none => "_"
      | some (k, v) => unitsStr k ++ "=" ++ deepDumpG abs env v)) ++ ")"
  | ptr r => "p" ++ ptrKind env r

def deepDump (env : Env) (d : Doc) : String := deepDumpG false env d

def optUnits (o : Option (List Nat)) : String :=
  match o with
  | some l => unitsStr l
  | none => "~"

def numStr : Num → String
  | Num.nan => "0"
  | Num.nat n => "2." ++ toString n
  | Num.int i => "3." ++ toString i
  | Num.real b => "1." ++ hex16 b

def probeKeys : List (List Nat) :=
  [[], [97], [98], [97, 97], [97, 98], [49], [48], [48, 48], [48, 48, 55], [50], [58], [47], [49, 97], [32, 49], [43, 49], [45, 48],
   [52, 50, 57, 52, 57, 54, 55, 50, 57, 53], [52, 50, 57, 52, 57, 54, 55, 50, 57, 54], [52, 50, 57, 52, 57, 54, 55, 50, 57, 55],
   [57, 57, 57, 57, 57, 57, 57, 57, 57, 57, 57], [48, 48, 48, 48, 48, 48, 48, 48, 48, 48, 49], [48, 48, 48, 48, 48, 48, 48, 48, 48, 49],
   [217, 161], [196, 177]]

def optKind (o : Option Doc) : String :=
  match o with
  | some d => toString d.kindNum
  | none => "~"

def summary (env : Env) (d : Doc) : String :=
  let flags := String.ofList ([if isUndefinedP env d then '1' else '0'] ++
    ([2, 3, 4, 5, 6, 7, 8, 9, 10].map (fun k => if isKind1 env k d then '1' else '0')) ++
    [if isNumber env d then '1' else '0'])
  let sz := size env d
  let idxProbe := (List.range (min sz 6 + 1)).map (fun i =>
    optKind (getValueIdx env d i) ++ "/" ++ optUnits (getKey env d i) ++ "/" ++
      (match getValueAndKey env d i with
       | some (k, v) => unitsStr k ++ "=" ++ toString v.kindNum
       | none => "~") ++ "/" ++ optUnits (copyKeyByIndexTo env d i))
  ":".intercalate [
    "k" ++ toString d.kindNum,
    flags,
    "t" ++ toString (numberType env d),
    "z" ++ toString sz,
    "g" ++ optUnits (getString env d),
    "m" ++ numStr (setNumber strToNum env d),
    "u" ++ (match getUInt64 strToNum env d with | some n => toString n | none => "?"),
    "j" ++ (match getInt64 strToNum env d with | some n => toString n | none => "?"),
    "d" ++ hex16 (getDouble strToNum env d),
    "b" ++ (match setBool env d with | some true => "1" | some false => "0" | none => "-"),
    "c" ++ optUnits (setCharAndLength env d),
    "v" ++ optUnits (copyValueTo fmtReal env d),
    "y" ++ unitsStr (stringify fmtReal env d),
    "q" ++ ",".intercalate (probeKeys.map (fun k => optKind (getValueKey env d k))),
    "x" ++ ",".intercalate idxProbe,
    "e" ++ String.ofList (env.map (fun o => if valEq env d o then '1' else '0'))
  ]

def rootDump (env : Env) (d : Doc) : String := deepDump env d ++ "@" ++ summary env d

/-- `sel`: the roots to print (all when empty). -/
def envDump (sel : List Nat) (env : Env) : String :=
  "#".intercalate (((List.range env.length).filter (fun i => sel.isEmpty || sel.contains i)).map
    (fun i => rootDump env (envGet env i)))

/-! ### parsing -/

def parseSel (t : String) : Option Sel :=
  match t.toList with
  | 'k' :: _ :: rest => (parseUnits (String.ofList rest)).map Sel.key
  | 'i' :: _ :: rest => (String.ofList rest).toNat?.map Sel.idx
  | _ => none

def parseLoc (t : String) : Option Loc :=
  match t.splitOn "/" with
  | r :: sels =>
    match r.toNat?, sels.mapM parseSel with
    | some r, some p => some ⟨r, p⟩
    | _, _ => none
  | [] => none

def parsePayload (t : String) : Option Doc :=
  match t.toList with
  | ['N'] => some null
  | ['T'] => some tru
  | ['F'] => some fls
  | ['U'] => some undef
  | 'n' :: r => (String.ofList r).toNat?.map Doc.nat
  | 'u' :: r => (String.ofList r).toNat?.map Doc.nat
  | 'i' :: r => (String.ofList r).toInt?.map Doc.int
  | 'j' :: r => (String.ofList r).toInt?.map Doc.int
  | 'r' :: r => (parseHex (String.ofList r)).map Doc.real
  | 'f' :: r => (parseHex (String.ofList r)).map Doc.real
  | 's' :: v :: r =>
    -- forms h..l build an empty string in the ways the API allows (default, moved-from, cleared, JSON ""): the
    -- units of the token are not its content
    if v == 'h' || v == 'i' || v == 'j' || v == 'k' || v == 'l' then (parseUnits (String.ofList r)).map (fun _ => Doc.str [])
    else (parseUnits (String.ofList r)).map Doc.str
  | _ => none

def parseRootOpt (t : String) : Option (Option Nat) :=
  if t == "-" then some none else t.toNat?.map some

def parseOp (toks : List String) : Option Op :=
  match toks with
  | ["set", l, "z"] => (parseLoc l).map Op.touch
  | ["set", l, p] => do some (Op.assign (← parseLoc l) (← parsePayload p))
  | ["typ", l, k] => do some (Op.setType (← parseLoc l) (← k.toNat?))
  | ["tyc", l, k] => do some (Op.setType (← parseLoc l) (← k.toNat?))
  | ["cpy", l, s, _] => do some (Op.copy (← parseLoc l) (← parseLoc s))
  | ["mov", l, s, _] => do some (Op.move (← parseLoc l) (← parseLoc s))
  | ["obj", l, s, _] => do some (Op.assignObj (← parseLoc l) (← parseLoc s))
  | ["arr", l, s, _] => do some (Op.assignArr (← parseLoc l) (← parseLoc s))
  | ["ptr", l, r] => do some (Op.setPtr (← parseLoc l) (← parseRootOpt r))
  | ["app", l, p] => do some (Op.append (← parseLoc l) (← parsePayload p))
  | ["apv", l, s, "a"] => do some (Op.appendMove (← parseLoc l) (← parseLoc s))
  | ["apv", l, s, "b"] => do some (Op.appendCopy (← parseLoc l) (← parseLoc s))
  | ["apo", l, s, _] => do some (Op.appendObj (← parseLoc l) (← parseLoc s))
  | ["apa", l, s, _] => do some (Op.appendArr (← parseLoc l) (← parseLoc s))
  | ["adp", l, r] => do some (Op.addPtr (← parseLoc l) (← parseRootOpt r))
  | ["ins", l, k, p] => do some (Op.insert (← parseLoc l) (← parseUnits k) (← parsePayload p))
  | ["inm", l, k, s] => do some (Op.insertMove (← parseLoc l) (← parseUnits k) (← parseLoc s))
  | ["mrg", l, s, "a"] => do some (Op.mergeMove (← parseLoc l) (← parseLoc s))
  | ["mrg", l, s, "b"] => do some (Op.mergeCopy (← parseLoc l) (← parseLoc s))
  | ["rem", l, k, _] => do some (Op.remove (← parseLoc l) (← parseUnits k))
  | ["rmi", l, i, _] => do some (Op.removeIdx (← parseLoc l) (← i.toNat?))
  | ["rst", l] => do some (Op.reset (← parseLoc l))
  | ["cmp", l] => do some (Op.compress (← parseLoc l))
  | ["cop", form, kind, l, s] => do
      let k ← (if kind == "o" then some 2 else if kind == "a" then some 3 else if kind == "s" then some 4 else none)
      let add ← (if form == "ac" || form == "am" || form == "cc" || form == "cm" then some false
                 else if form == "pc" || form == "pm" then some true else none)
      let mv := form == "am" || form == "pm" || form == "cm"
      some (Op.container (← parseLoc l) (← parseLoc s) k add mv)
  | ["rsv", l, k, n] => do some (Op.reserve (← parseLoc l) (← k.toNat?) (← n.toNat?))
  | ["clr", l] => do some (Op.clear (← parseLoc l))
  | ["grp", d, s, k] => do some (Op.groupBy (← d.toNat?) (← parseLoc s) (← parseUnits k))
  | _ => none

def splitOps (args : List String) : List (List String) :=
  ((" ".intercalate args).splitOn " ; ").map (fun o => (o.splitOn " ").filter (· != ""))

def initEnv : Env := [undef, undef, undef, undef]

def runSeq (sel : List Nat) (ops : List Op) : String :=
  "|".intercalate ((run fmtReal ops initEnv).map (fun r => showBool r.2 ++ "#" ++ envDump sel r.1))

/-! ### GroupBy specification view -/

def membersStr (env : Env) (m : List (Key × Doc)) : String :=
  "{" ++ ";".intercalate (m.map (fun e => unitsStr e.1 ++ "=" ++ deepDumpG true env e.2)) ++ "}"

def viewStr (env : Env) (v : List (Key × List (List (Key × Doc)))) : String :=
  ",".intercalate (v.map (fun g => unitsStr g.1 ++ ":[" ++ "".intercalate (g.2.map (membersStr env)) ++ "]"))

/-- the input objects of a grouping source (through pointers), `none` if some element is not an object. -/
def specInput (env : Env) (src : Doc) : Option (List (List (Key × Doc))) :=
  match deref env src with
  | arr items => items.mapM (fun it => match it with
      | obj _ s => if allDefined s then some (members s) else none
      | _ => none)
  | _ => none

def specOf (env : Env) (src : Doc) (key : Key) : String :=
  match specInput env src with
  | some objs =>
    match groupBySpec (groupText fmtReal env) key objs [] with
    | some g => viewStr env g
    | none => "none"
  | none => "none"

def runSpec (ops : List Op) : String :=
  match ops.reverse with
  | Op.groupBy dest s k :: before =>
    let env := runFinal fmtReal before.reverse initEnv
    match getAt (envGet env s.root) s.path with
    | some x =>
      let m := groupByA fmtReal env x k (envGet env dest)
      "spec=" ++ specOf env x k ++ " model=" ++ showBool m.1 ++ "/" ++ viewStr env (groupView m.2)
    | none => "no-source"
  | _ => "bad-op"

/-! ### allocation ledger (C16): `valled <op> ; <op> ; ...` -/

open Qentem.ValueLedger in
def parseLSel (t : String) : Option LSel :=
  match t.toList with
  | 'k' :: v :: rest =>
    (parseUnits (String.ofList rest)).map (fun k => LSel.key k (if v == 'c' then KV.moved else if v == 'd' then KV.constCopy else KV.plain))
  | 'i' :: _ :: rest => (String.ofList rest).toNat?.map LSel.idx
  | _ => none

open Qentem.ValueLedger in
def parseLLoc (t : String) : Option LLoc :=
  match t.splitOn "/" with
  | r :: sels =>
    match r.toNat?, sels.mapM parseLSel with
    | some r, some p => some ⟨r, p⟩
    | _, _ => none
  | [] => none

open Qentem.ValueLedger in
def parseSLoc (t : String) : Option SLoc := (parseLoc t).map (fun l => ⟨l.root, l.path⟩)

/-- named-`String` temporaries of the harness for a string payload (`b`, `c`, `d` forms). -/
def payloadTmp (t : String) : Nat :=
  match t.toList with
  | 's' :: v :: _ => if v == 'b' || v == 'c' || v == 'd' then 1 else 0
  | _ => 0

open Qentem.ValueLedger in
def parseLOp (toks : List String) : Option LOp :=
  match toks with
  | ["set", l, "z"] => (parseLLoc l).map LOp.touch
  | ["set", l, p] => do some (LOp.assign (← parseLLoc l) (← parsePayload p) (payloadTmp p))
  | ["typ", l, k] => do some (LOp.setType (← parseLLoc l) (← k.toNat?))
  | ["tyc", l, k] => do some (LOp.setType (← parseLLoc l) (← k.toNat?))
  | ["cpy", l, s, _] => do some (LOp.copy (← parseLLoc l) (← parseSLoc s))
  | ["mov", l, s, _] => do some (LOp.move (← parseLLoc l) (← parseSLoc s))
  | ["obj", l, s, _] => do some (LOp.assignObj (← parseLLoc l) (← parseSLoc s))
  | ["arr", l, s, _] => do some (LOp.assignArr (← parseLLoc l) (← parseSLoc s))
  | ["ptr", l, r] => do some (LOp.setPtr (← parseLLoc l) (← parseRootOpt r))
  | ["app", l, p] => do some (LOp.append (← parseLLoc l) (← parsePayload p) (payloadTmp p))
  | ["apv", l, s, "a"] => do some (LOp.appendMove (← parseLLoc l) (← parseSLoc s))
  | ["apv", l, s, "b"] => do some (LOp.appendCopy (← parseLLoc l) (← parseSLoc s))
  | ["apo", l, s, _] => do some (LOp.appendObj (← parseLLoc l) (← parseSLoc s))
  | ["apa", l, s, _] => do some (LOp.appendArr (← parseLLoc l) (← parseSLoc s))
  | ["adp", l, r] => do some (LOp.addPtr (← parseLLoc l) (← parseRootOpt r))
  | ["ins", l, k, p] => do some (LOp.insert (← parseLLoc l) (← parseUnits k) (← parsePayload p))
  | ["inm", l, k, s] => do some (LOp.insertMove (← parseLLoc l) (← parseUnits k) (← parseSLoc s))
  | ["mrg", l, s, "a"] => do some (LOp.mergeMove (← parseLLoc l) (← parseSLoc s))
  | ["mrg", l, s, "b"] => do some (LOp.mergeCopy (← parseLLoc l) (← parseSLoc s))
  | ["rem", l, k, v] => do some (LOp.remove (← parseLLoc l) (← parseUnits k) (if v == "b" then 1 else 0))
  | ["rmi", l, i, _] => do some (LOp.removeIdx (← parseLLoc l) (← i.toNat?))
  | ["rst", l] => do some (LOp.reset (← parseLLoc l))
  | ["cmp", l] => do some (LOp.compress (← parseLLoc l))
  | ["rsv", l, k, n] => do some (LOp.reserve (← parseLLoc l) (← k.toNat?) (← n.toNat?))
  | ["clr", l] => do some (LOp.clear (← parseLLoc l))
  | _ => none

/-- `<allocs>/<frees> bal=<Ledger.run verdict> doc=<the erased final forest equals the value model's>` -/
def runLedger (lops : List Qentem.ValueLedger.LOp) (ops : List Op) : String :=
  let init : Qentem.ValueLedger.LEnv := [.undef, .undef, .undef, .undef]
  let r := Qentem.ValueLedger.runL lops init 1
  let d := Qentem.ValueLedger.destroyL r.1 r.2.2
  let evs := r.2.1 ++ d.2.1
  let allocs := (evs.filter (fun e => match e with | Qentem.Ledger.Ev.alloc _ _ => true | _ => false)).length
  let frees := (evs.filter (fun e => match e with | Qentem.Ledger.Ev.free _ => true | _ => false)).length
  let bal := match Qentem.Ledger.run evs [] with
    | some [] => "1"
    | _ => "0"
  let erased : Env := Qentem.ValueLedger.eraseItems r.1
  let model := runFinal fmtReal ops initEnv
  let same := "#".intercalate (erased.map (deepDump erased)) == "#".intercalate (model.map (deepDump model))
  toString allocs ++ "/" ++ toString frees ++ " bal=" ++ bal ++ " doc=" ++ showBool same

/-- `valview <deep-dump-free form>` is not needed: the harness prints the same view itself. -/
def handle (op : String) (args : List String) : String :=
  let (sel, args) : List Nat × List String :=
    match args with
    | a :: rest => if a.startsWith "@" then ((a.toList.drop 1).map (fun c => c.toNat - 48), rest) else ([], args)
    | [] => ([], [])
  if op == "valled" then
    match (splitOps args).mapM parseLOp, (splitOps args).mapM parseOp with
    | some lops, some ops => runLedger lops ops
    | _, _ => "bad-op"
  else
  match (splitOps args).mapM parseOp with
  | none => "bad-op"
  | some ops =>
    if op == "valseq" then runSeq sel ops
    else if op == "valspec" then runSpec ops
    else "bad-op"

end Qentem.Driver.Value
