import Qentem.Model.Escape
import Qentem.Driver.Proto
namespace Qentem.Driver.Escape
open Qentem.Driver Qentem.Escape

/-- The property predicates of C03 (the same definitions the theorems are about), evaluated on
what the implementation actually emitted. -/
def oracle (auto : Bool) (input output : List Nat) : String :=
  if !auto then (if output == input then "ok" else "not-verbatim") else
  if output.any isSpecialNoAmp then "raw-special"
  else if !ampOnlyEntities output then "bare-amp"
  else if decode output != decode input then "decode-differs"
  else "ok"

/-- `esc <auto:0|1> <width> <units>` → escaped units (the width plays no role in the model).
    `escoracle <auto> <in> <out>` → verdict of the C03 predicates on an implementation output. -/
def handle (op : String) : List String → String
  | [a, _w, u] =>
    match parseBool a, parseNats u with
    | some a, some l => if op == "esc" || op == "escp" then showNats (escapeCfg a l) else "bad-op"
    | _, _ => "bad-op"
  | [a, _w, i, o] =>
    match parseBool a, parseNats i, parseNats o with
    | some a, some i, some o => if op == "escoracle" then oracle a i o else "bad-op"
    | _, _, _ => "bad-op"
  | _ => "bad-op"

end Qentem.Driver.Escape
