import Qentem.Driver.Proto
import Qentem.Model.NumToStr
import Qentem.Model.FmtSpec
namespace Qentem.Driver.NumToStr
open Qentem.Driver Qentem.NumToStr

/-! Driver of the number-formatting model (C10, C11).  Same line protocol as
`harness/numtostr_harness.cpp`:

* `n2sr  <d|f> <hexbits> <prec> <fmt> <w> <pre>` → units appended by the **model** after `<pre>`
* `n2sra <d|f> <hexbits> <w> <pre>`             → the same for prec 0..40 × fmt 0,1,2, joined by `;`
* `n2si  <bits> <signed> <decimal> <w> <pre>` / `n2sir <bits> <decimal>` → integer paths of the model
* `n2sspec  <d|f> <hexbits> <prec> <fmt>`        → the **reference** text (`FmtSpec`, C standard)
* `n2sspeca <d|f> <hexbits>`                     → reference texts for prec 0..40 × fmt 0,1,2, joined by `;`
* `n2sread <d|f> <units>`                        → reference reading: hex bits of the nearest value, or `none`
* `n2srt <d|f> <hexbits>`                        → `<hex> <units>`: model text at 17 / 9 digits and its reference reading
-/

def hexVal (c : Char) : Option Nat :=
  if '0' ≤ c ∧ c ≤ '9' then some (c.toNat - '0'.toNat)
  else if 'a' ≤ c ∧ c ≤ 'f' then some (c.toNat - 'a'.toNat + 10)
  else if 'A' ≤ c ∧ c ≤ 'F' then some (c.toNat - 'A'.toNat + 10)
  else none

def parseHex (s : String) : Option Nat :=
  if s.isEmpty then none else
  s.toList.foldlM (fun a c => (hexVal c).map (fun v => a * 16 + v)) 0

def hexDigit (n : Nat) : Char := if n < 10 then Char.ofNat (48 + n) else Char.ofNat (87 + n)

def showHex (width n : Nat) : String :=
  String.ofList ((List.range width).reverse.map (fun i => hexDigit ((n >>> (4 * i)) % 16)))

def showM (pre : List Nat) (r : M (List Nat)) : String :=
  match r with
  | .ok s =>
    if s.take pre.length == pre then showNats (s.drop pre.length) else "prefix-disturbed"
  | .error f => "FAULT model:" ++ f.name

def cfgOf (k : String) : Option Cfg := if k == "d" then some f64 else if k == "f" then some f32 else none

def specFmt (f : Nat) : FmtSpec.Fmt := if f = 1 then .fixed else if f = 2 then .semiFixed else .default

def specText (k : String) (bits p f : Nat) : List Nat :=
  if k == "d" then FmtSpec.format64 bits p (specFmt f) else FmtSpec.format32 bits p (specFmt f)

def allPF : List (Nat × Nat) := (List.range 41).flatMap (fun p => [(p, 0), (p, 1), (p, 2)])

def handle (op : String) (args : List String) : String :=
  match op, args with
  | "n2sr", [k, hx, p, f, _w, pre] =>
    match cfgOf k, parseHex hx, p.toNat?, f.toNat?, parseNats pre with
    | some c, some bits, some p, some f, some pre => showM pre (realToString c pre bits p f)
    | _, _, _, _, _ => "bad-op"
  | "n2sra", [k, hx, _w, pre] =>
    match cfgOf k, parseHex hx, parseNats pre with
    | some c, some bits, some pre =>
      ";".intercalate (allPF.map (fun (p, f) => showM pre (realToString c pre bits p f)))
    | _, _, _ => "bad-op"
  | "n2si", [b, sg, dec, _w, pre] =>
    match b.toNat?, parseBool sg, dec.toInt?, parseNats pre with
    | some b, some sg, some v, some pre =>
      let raw := (v % (2 ^ b : Int)).toNat
      showM pre (intToString pre (b / 8) sg raw)
    | _, _, _, _ => "bad-op"
  | "n2sir", [b, dec] =>
    match b.toNat?, dec.toNat? with
    | some b, some v => showM [] (intRev (b / 8) (v % 2 ^ b))
    | _, _ => "bad-op"
  | "n2sspec", [k, hx, p, f] =>
    match parseHex hx, p.toNat?, f.toNat? with
    | some bits, some p, some f => if k == "d" || k == "f" then showNats (specText k bits p f) else "bad-op"
    | _, _, _ => "bad-op"
  | "n2sspeca", [k, hx] =>
    match parseHex hx with
    | some bits =>
      if k == "d" || k == "f" then ";".intercalate (allPF.map (fun (p, f) => showNats (specText k bits p f))) else "bad-op"
    | none => "bad-op"
  | "n2sread", [k, u] =>
    match parseNats u with
    | some t =>
      let r := if k == "d" then (FmtSpec.readBits64 t).map (showHex 16) else (FmtSpec.readBits32 t).map (showHex 8)
      r.getD "none"
    | none => "bad-op"
  | "n2srt", [k, hx] =>
    match parseHex hx with
    | some bits =>
      let r := if k == "d" then format17 bits else format9 bits
      match r with
      | .ok t =>
        let back := if k == "d" then (FmtSpec.readBits64 t).map (showHex 16) else (FmtSpec.readBits32 t).map (showHex 8)
        back.getD "none" ++ " " ++ showNats t
      | .error f => "FAULT model:" ++ f.name
    | none => "bad-op"
  | _, _ => "bad-op"

end Qentem.Driver.NumToStr
