import Qentem.Model.JsonDeps
import Qentem.Model.JsonStringify
import Qentem.Driver.Proto
namespace Qentem.Driver.Json
open Qentem.Driver Qentem.Json

def hexStr (n : Nat) : String := String.ofList (Nat.toDigits 16 n)

def hex16 (n : Nat) : String :=
  let s := hexStr (n % 2 ^ 64)
  String.ofList (List.replicate (16 - s.length) '0') ++ s

def dumpStr (s : List Nat) : String := "\"" ++ ".".intercalate (s.map toString) ++ "\""

mutual
/-- Canonical dump, same syntax as harness/json_harness.cpp. -/
partial def dump : JVal → String
  | .undef => "U"
  | .null => "N"
  | .tru => "T"
  | .fals => "F"
  | .nat n => "n" ++ hexStr n
  | .int n => "i" ++ hex16 n
  | .real n => "r" ++ hex16 n
  | .str s => dumpStr s
  | .arr xs => "[" ++ ";".intercalate (xs.map dump) ++ "]"
  | .obj ms => "{" ++ ";".intercalate (ms.map (fun (k, v) => dumpStr k ++ ":" ++ dump v)) ++ "}"
  | .ptr t => "*" ++ dump t
end

def widthOf (w : String) : Option Nat :=
  if w == "1" then some 1 else if w == "2" then some 2 else if w == "4" then some 4 else if w == "W" then some 4 else none

/-- `jsparse <w> <units>` → dump of the model's `JSON::Parse` (or `FAULT …`). -/
def handle (op : String) (args : List String) : String :=
  match op, args with
  | "jsparse", [w, u] =>
    match widthOf w, parseNats u with
    | some w, some l =>
      match parse (jsonDeps w) l.toArray with
      | .ok v => dump v
      | .error (.oobRead i n) => s!"FAULT oobRead {i} {n}"
      | .error .fuel => "FAULT fuel"
    | _, _ => "bad-op"
  | _, _ => "bad-op"

end Qentem.Driver.Json
