import Qentem.Model.Tmpl.Render
import Qentem.Model.Tmpl.WF
import Qentem.Model.Tmpl.Spec
import Qentem.Model.Tmpl.SpecGroup
import Qentem.Model.GroupTmpl
import Qentem.Driver.Expr
import Qentem.Driver.Proto
namespace Qentem.Driver.Tmpl
open Qentem.Driver Qentem.Tmpl Qentem.Expr

/-!
Driver of the template model (C01/C02/C17).

  tplrender <w> <doc> <units>   parse + render at `R := Float`  → `R <units>` | `F<fault>`
  tpltags <w> <units>           parse only → a dump of the tag tree | `F<fault>`
  tplwf <w> <units>             parse only → `W 1` / `W 0`: `wf` (Model/Tmpl/WF.lean) of the tag tree

`<w>` (character width) is ignored by the model.  `<doc>`: comma-separated prefix code
  u | z | t | f | n<dec> | i<signed dec> | s<u.u.u> (s alone = empty) | a<count> doc… | p doc |
  o<count> (k<u.u.u> doc)…
  r<16 hex> : a real number by its bit pattern
  tplgroup <w> <doc> <key units>  the documented grouping (`groupDocSpec`, Model/Tmpl/SpecGroup.lean =
                                `Qentem.Value.groupBySpec` by member NAME) of the array <doc> → `G <doc code>` | `G none`
Real numbers are not rendered by this driver (`fmtReal` prints `?`); `groupBy` is the GroupBy model
(`Qentem.Value.groupByTmpl`, Model/GroupTmpl.lean; C18); sort is not supported (`sortDoc` is the
identity): the generators of the compared streams avoid `sort=`.
-/

def hexVal (c : Char) : Option Nat :=
  if '0' ≤ c ∧ c ≤ '9' then some (c.toNat - '0'.toNat)
  else if 'A' ≤ c ∧ c ≤ 'F' then some (c.toNat - 'A'.toNat + 10)
  else if 'a' ≤ c ∧ c ≤ 'f' then some (c.toNat - 'a'.toNat + 10)
  else none

def parseHex (d : List Char) : Option Nat :=
  d.foldl (fun acc c => match acc, hexVal c with
    | some a, some v => some (a * 16 + v)
    | _, _ => none) (some 0)

partial def parseDoc : List String → Option (Doc × List String)
  | [] => none
  | tok :: rest =>
    match tok.toList with
    | ['p'] => parseDoc rest   -- a pointer value is transparent to every reader the renderer uses
    | 'r' :: d => if d.length == 16 then (parseHex d).map (fun b => (.real b, rest)) else none
    | ['u'] => some (.undefined, rest)
    | ['z'] => some (.null, rest)
    | ['t'] => some (.tru, rest)
    | ['f'] => some (.fals, rest)
    | 'n' :: d => (String.ofList d).toNat?.map (fun n => (.nat n, rest))
    | 'i' :: d => (String.ofList d).toInt?.map (fun n => (.int (ofInt n), rest))
    | 's' :: d =>
      if d.isEmpty then some (.str [], rest)
      else (((String.ofList d).splitOn ".").mapM (fun (t : String) => t.toNat?)).map (fun u => (.str u, rest))
    | 'a' :: d =>
      match (String.ofList d).toNat? with
      | none => none
      | some n =>
        let rec go (k : Nat) (acc : List Doc) (r : List String) : Option (Doc × List String) :=
          if k = 0 then some (.arr acc.reverse, r)
          else match parseDoc r with
            | some (x, r') => go (k - 1) (x :: acc) r'
            | none => none
        go n [] rest
    | 'o' :: d =>
      match (String.ofList d).toNat? with
      | none => none
      | some n =>
        let rec goObj (k : Nat) (acc : List (List Nat × Doc)) (r : List String) : Option (Doc × List String) :=
          if k = 0 then some (.obj acc.reverse, r)
          else match r with
            | ktok :: r1 =>
              match ktok.toList with
              | 'k' :: kd =>
                let key := if kd.isEmpty then some [] else
                  (((String.ofList kd).splitOn ".").mapM (fun (t : String) => t.toNat?))
                match key, parseDoc r1 with
                | some key, some (x, r') => goObj (k - 1) ((key, x) :: acc) r'
                | _, _ => none
              | _ => none
            | [] => none
        goObj n [] rest
    | _ => none

def showDots (u : List Nat) : String := ".".intercalate (u.map toString)

/-- the doc code of a `Doc` (inverse of `parseDoc`; an Integer is printed from its 64-bit pattern) -/
partial def showDoc : Doc → String
  | .undefined => "u" | .null => "z" | .tru => "t" | .fals => "f"
  | .nat n => s!"n{n}"
  | .int b => if b < 2 ^ 63 then s!"i{b}" else s!"i-{2 ^ 64 - b}"
  | .real b => "r" ++ String.ofList ((Nat.toDigits 16 (b + 2 ^ 64)).drop 1 |>.map Char.toUpper)
  | .str s => "s" ++ showDots s
  | .arr xs => ",".intercalate (s!"a{xs.length}" :: xs.map showDoc)
  | .obj ms => ",".intercalate (s!"o{ms.length}" :: ms.map (fun m => "k" ++ showDots m.1 ++ "," ++ showDoc m.2))

def showFault : Fault → String
  | .oobRead i n => s!"Foob:{i}/{n}"
  | .fuel => "Ffuel"
  | .divZero => "Fdiv0"
  | .sremOverflow => "Fsrem"

def scanCfg : ScanCfg Float := { readNum := Qentem.Driver.Expr.readNumFloat }

def mkCtx (content : List Nat) (root : Doc) : RCtx Float where
  content := content
  root := root
  readNum := Qentem.Driver.Expr.readNumFloat
  realOfBits := fun b => Float.ofBits b.toUInt64
  realBits := fun r => r.toBits.toNat
  fmtReal := fun _ => [63]
  groupBy := Qentem.Value.groupByTmpl (fun _ => [63])
  sortDoc := fun d _ => d

mutual
partial def showTag : Tag Float → String
  | .var v => s!"var({v.off},{v.len},{v.idLen},{v.level})"
  | .raw v => s!"raw({v.off},{v.len},{v.idLen},{v.level})"
  | .math ex off e => s!"math({off},{e},{ex.length})"
  | .svar sub v off e => s!"svar({off},{e},{v.off},{v.len})[{showTags sub}]"
  | .iif cs sub f =>
    s!"iif({f.off},{f.len},{f.trueOff},{f.trueLen},{f.falseOff},{f.falseLen},{f.trueStart},{f.falseStart},{cs.length})[{showTags sub}]"
  | .loop sub f =>
    s!"loop({f.off},{f.endOff},{f.contentOff},{f.set.off},{f.set.len},{f.set.idLen},{f.set.level},{f.valueOff},{f.valueLen},{f.groupOff},{f.groupLen},{f.options},{f.level})[{showTags sub}]"
  | .ifT cases off e => s!"if({off},{e})[{";".intercalate (cases.map showCase)}]"
partial def showCase : IfCase Float → String
  | .mk cs sub off e => s!"case({off},{e},{cs.length})[{showTags sub}]"
partial def showTags (l : List (Tag Float)) : String := ";".intercalate (l.map showTag)
end

/-! ### C02: the reference interpreter on an encoded template tree

Token code (comma separated, prefix order; `<u>` = dotted code units, may be empty):
  x<u> text | v<u> var | r<u> raw | m<u> math | s<u>:<n> svar + n argument nodes |
  q<u>:<t>:<f> inline if (case text; t, f = node counts of the true / false part or `-`) + nodes |
  i<nb> if chain + nb × (c<u> | e) b<count> nodes… | l<set u>:<value u>:<count> loop + body nodes -/

def dots (s : String) : Option (List Nat) :=
  if s.isEmpty then some [] else (s.splitOn ".").mapM (fun (t : String) => t.toNat?)

mutual
partial def decNodes (n : Nat) (toks : List String) : Option (List Tpl × List String) :=
  if n = 0 then some ([], toks) else
  match decNode toks with
  | some (t, r) => (decNodes (n - 1) r).map (fun (ts, r') => (t :: ts, r'))
  | none => none

partial def decNode : List String → Option (Tpl × List String)
  | [] => none
  | tok :: rest =>
    let body := (tok.drop 1).toString
    match tok.toList.head? with
    | some 'x' => (dots body).map (fun u => (.text u, rest))
    | some 'v' => (dots body).map (fun u => (.var u, rest))
    | some 'r' => (dots body).map (fun u => (.raw u, rest))
    | some 'm' => (dots body).map (fun u => (.math u, rest))
    | some 's' =>
      match body.splitOn ":" with
      | [p, n] =>
        match dots p, n.toNat? with
        | some p, some n => (decNodes n rest).map (fun (args, r) => (.svar p args, r))
        | _, _ => none
      | _ => none
    | some 'q' =>
      match body.splitOn ":" with
      | [c, t, f] =>
        match dots c with
        | none => none
        | some c =>
          let part (cnt : String) (r : List String) : Option (Option (List Tpl) × List String) :=
            if cnt == "-" then some (none, r) else
            match cnt.toNat? with
            | some k => (decNodes k r).map (fun (ts, r') => (some ts, r'))
            | none => none
          match part t rest with
          | some (tp, r1) =>
            match part f r1 with
            | some (fp, r2) => some (.iif c tp fp, r2)
            | none => none
          | none => none
      | _ => none
    | some 'i' =>
      match body.toNat? with
      | some nb => (decBranches nb rest).map (fun (bs, r) => (.ifc bs, r))
      | none => none
    | some 'l' =>
      match body.splitOn ":" with
      | [st, v, n] =>
        match dots st, dots v, n.toNat? with
        | some st, some v, some n => (decNodes n rest).map (fun (b, r) => (.loop st v b, r))
        | _, _, _ => none
      | _ => none
    | _ => none

partial def decBranches (n : Nat) (toks : List String) :
    Option (List (Option (List Nat) × List Tpl) × List String) :=
  if n = 0 then some ([], toks) else
  match toks with
  | ctok :: btok :: rest =>
    let cs : Option (Option (List Nat)) :=
      if ctok == "e" then some none
      else if ctok.startsWith "c" then (dots (ctok.drop 1).toString).map some else none
    match cs, (if btok.startsWith "b" then (btok.drop 1).toString.toNat? else none) with
    | some c, some k =>
      match decNodes k rest with
      | some (body, r) => (decBranches (n - 1) r).map (fun (bs, r') => ((c, body) :: bs, r'))
      | none => none
    | _, _ => none
  | _ => none
end

def specCtx (root : Doc) : SpecCtx Float where
  root := root
  readNum := Qentem.Driver.Expr.readNumFloat
  realOfBits := fun b => Float.ofBits b.toUInt64
  realBits := fun r => r.toBits.toNat
  fmtReal := fun _ => [63]

mutual
partial def tagTextArith : Tag Float → Bool
  | .math ex _ _ => (climb ex).textArith
  | .svar sub _ _ _ => tagsTextArith sub
  | .iif cs sub _ => (climb cs).textArith || tagsTextArith sub
  | .loop sub _ => tagsTextArith sub
  | .ifT cases _ _ => cases.any (fun c => match c with
      | .mk cs sub _ _ => (!cs.isEmpty && (climb cs).textArith) || tagsTextArith sub)
  | _ => false
partial def tagsTextArith (l : List (Tag Float)) : Bool := l.any tagTextArith
end

def handle (op : String) : List String → String
  | [_w, ds, us] =>
    if op == "tplrender" then
      match parseDoc (ds.splitOn ","), parseNats us with
      | some (root, []), some u =>
        match parse scanCfg u with
        | .error e => showFault e
        | .ok tags =>
          match renderTop (mkCtx u root) tags (4 * u.length + 100000) with
          | .error e => showFault e
          | .ok out => "R " ++ showNats out
      | _, _ => "bad-op"
    else if op == "tplgroup" then
      match parseDoc (ds.splitOn ","), parseNats us with
      | some (set, []), some key =>
        match groupDocSpec (fun _ => [63]) set key with
        | some g => "G " ++ showDoc g
        | none => "G none"
      | _, _ => "bad-op"
    else if op == "tplspec" then
      -- `tplspec <w> <doc> <tpl tokens>` → `P <printed units> E <documented expansion>`
      match parseDoc (ds.splitOn ",") with
      | some (root, []) =>
        let toks := us.splitOn ","
        let rec decAll (fuel : Nat) (r : List String) (acc : List Tpl) : Option (List Tpl) :=
          match fuel, r with
          | _, [] => some acc.reverse
          | 0, _ => none
          | f + 1, _ => match decNode r with
            | some (t, r') => decAll f r' (t :: acc)
            | none => none
        match decAll (toks.length + 1) toks [] with
        | some tpl =>
          let text := printList tpl
          "P " ++ showNats text ++ " E " ++ showNats (expand (specCtx root) tpl (4 * text.length + 100000))
        | none => "bad-op"
      | _ => "bad-op"
    else "bad-op"
  | [_w, us] =>
    if op == "tpltags" then
      match parseNats us with
      | some u =>
        match parse scanCfg u with
        | .error e => showFault e
        | .ok tags => "T " ++ showTags tags
      | none => "bad-op"
    else if op == "tplta" then
      -- does any expression of the tag tree put a text operand under an arithmetic operator
      -- (outside the modelled domain of C04, see `Tree.textArith`)?
      match parseNats us with
      | some u =>
        match parse scanCfg u with
        | .error e => showFault e
        | .ok tags => "A " ++ showBool (tagsTextArith tags)
      | none => "bad-op"
    else if op == "tplwf" then
      -- the decidable well-formedness predicate of `Model/Tmpl/WF.lean` on what `parse` returns
      match parseNats us with
      | some u =>
        match parse scanCfg u with
        | .error e => showFault e
        | .ok tags => "W " ++ showBool (wf u.length tags)
      | none => "bad-op"
    else "bad-op"
  | _ => "bad-op"

end Qentem.Driver.Tmpl
