import Qentem.Model.Tmpl.Render
import Qentem.Model.Tmpl.WF
import Qentem.Driver.Expr
import Qentem.Driver.Proto
namespace Qentem.Driver.Tmpl
open Qentem.Driver Qentem.Tmpl Qentem.Expr

/-!
Driver of the template model (C01/C02/C17).

  tplrender <w> <doc> <units>   parse + render at `R := Float`  → `R <units>` | `F<fault>`
  tpltags <w> <units>           parse only → a dump of the tag tree | `F<fault>`
  tplwf <w> <units>             parse only → `W 1` / `W 0`: `wf` (Model/Tmpl/WF.lean) of the tag tree

`<w>` (character width) is ignored by the model.  `<doc>`: comma-separated prefix code
  u | z | t | f | n<dec> | i<signed dec> | s<u.u.u> (s alone = empty) | a<count> doc… |
  o<count> (k<u.u.u> doc)…
Real numbers are not rendered by this driver (`fmtReal` prints `?`), group/sort are not supported
(`groupBy` gives no value, `sortDoc` is the identity): the generators avoid them.
-/

partial def parseDoc : List String → Option (Doc × List String)
  | [] => none
  | tok :: rest =>
    match tok.toList with
    | ['u'] => some (.undefined, rest)
    | ['z'] => some (.null, rest)
    | ['t'] => some (.tru, rest)
    | ['f'] => some (.fals, rest)
    | 'n' :: d => (String.ofList d).toNat?.map (fun n => (.nat n, rest))
    | 'i' :: d => (String.ofList d).toInt?.map (fun n => (.int (ofInt n), rest))
    | 's' :: d =>
      if d.isEmpty then some (.str [], rest)
      else (((String.ofList d).splitOn ".").mapM (fun (t : String) => t.toNat?)).map (fun u => (.str u, rest))
    | 'a' :: d =>
      match (String.ofList d).toNat? with
      | none => none
      | some n =>
        let rec go (k : Nat) (acc : List Doc) (r : List String) : Option (Doc × List String) :=
          if k = 0 then some (.arr acc.reverse, r)
          else match parseDoc r with
            | some (x, r') => go (k - 1) (x :: acc) r'
            | none => none
        go n [] rest
    | 'o' :: d =>
      match (String.ofList d).toNat? with
      | none => none
      | some n =>
        let rec goObj (k : Nat) (acc : List (List Nat × Doc)) (r : List String) : Option (Doc × List String) :=
          if k = 0 then some (.obj acc.reverse, r)
          else match r with
            | ktok :: r1 =>
              match ktok.toList with
              | 'k' :: kd =>
                let key := if kd.isEmpty then some [] else
                  (((String.ofList kd).splitOn ".").mapM (fun (t : String) => t.toNat?))
                match key, parseDoc r1 with
                | some key, some (x, r') => goObj (k - 1) ((key, x) :: acc) r'
                | _, _ => none
              | _ => none
            | [] => none
        goObj n [] rest
    | _ => none

def showFault : Fault → String
  | .oobRead i n => s!"Foob:{i}/{n}"
  | .fuel => "Ffuel"
  | .divZero => "Fdiv0"
  | .sremOverflow => "Fsrem"

def scanCfg : ScanCfg Float := { readNum := Qentem.Driver.Expr.readNumFloat }

def mkCtx (content : List Nat) (root : Doc) : RCtx Float where
  content := content
  root := root
  readNum := Qentem.Driver.Expr.readNumFloat
  realOfBits := fun b => Float.ofBits b.toUInt64
  realBits := fun r => r.toBits.toNat
  fmtReal := fun _ => [63]
  groupBy := fun _ _ => none
  sortDoc := fun d _ => d

mutual
partial def showTag : Tag Float → String
  | .var v => s!"var({v.off},{v.len},{v.idLen},{v.level})"
  | .raw v => s!"raw({v.off},{v.len},{v.idLen},{v.level})"
  | .math ex off e => s!"math({off},{e},{ex.length})"
  | .svar sub v off e => s!"svar({off},{e},{v.off},{v.len})[{showTags sub}]"
  | .iif cs sub f =>
    s!"iif({f.off},{f.len},{f.trueOff},{f.trueLen},{f.falseOff},{f.falseLen},{f.trueStart},{f.falseStart},{cs.length})[{showTags sub}]"
  | .loop sub f =>
    s!"loop({f.off},{f.endOff},{f.contentOff},{f.set.off},{f.set.len},{f.set.idLen},{f.set.level},{f.valueOff},{f.valueLen},{f.groupOff},{f.groupLen},{f.options},{f.level})[{showTags sub}]"
  | .ifT cases off e => s!"if({off},{e})[{";".intercalate (cases.map showCase)}]"
partial def showCase : IfCase Float → String
  | .mk cs sub off e => s!"case({off},{e},{cs.length})[{showTags sub}]"
partial def showTags (l : List (Tag Float)) : String := ";".intercalate (l.map showTag)
end

def handle (op : String) : List String → String
  | [_w, ds, us] =>
    if op == "tplrender" then
      match parseDoc (ds.splitOn ","), parseNats us with
      | some (root, []), some u =>
        match parse scanCfg u with
        | .error e => showFault e
        | .ok tags =>
          match renderTop (mkCtx u root) tags (4 * u.length + 100000) with
          | .error e => showFault e
          | .ok out => "R " ++ showNats out
      | _, _ => "bad-op"
    else "bad-op"
  | [_w, us] =>
    if op == "tpltags" then
      match parseNats us with
      | some u =>
        match parse scanCfg u with
        | .error e => showFault e
        | .ok tags => "T " ++ showTags tags
      | none => "bad-op"
    else if op == "tplwf" then
      -- the decidable well-formedness predicate of `Model/Tmpl/WF.lean` on what `parse` returns
      match parseNats us with
      | some u =>
        match parse scanCfg u with
        | .error e => showFault e
        | .ok tags => "W " ++ showBool (wf u.length tags)
      | none => "bad-op"
    else "bad-op"
  | _ => "bad-op"

end Qentem.Driver.Tmpl
