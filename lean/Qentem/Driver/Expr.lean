import Qentem.Model.Expr
import Qentem.Model.ExprSpec
import Qentem.Driver.Proto
namespace Qentem.Driver.Expr
open Qentem.Driver Qentem.Expr

/-!
Driver of the C04 model.

  expeval <mode> <vars> <units>     model at `R := Float`
  expexact <mode> <vars> <units>    model at `R := Rat` (exact arithmetic)

`mode`: `m` = the text is the inside of `{math:…}`, `i` = the inside of `<if case="…">`,
`p` = the whole buffer handed to `ParseExpressions` (exact size: reads past it are faults).
`vars`: `-` or `name=K…;name=K…` with K = n<dec> | i<dec> | r<16 hex> | t | f | z | s<u.u.u> | o.
Output: `<desc> <truth> <flags>`; desc = `V n|i <dec bits>` / `V r <16 hex>` (`V r num/den` for
expexact) / `NP` (scanner gave no list) / `NE` (no value) / `F…` (model fault);
truth = `1` iff there is a value and it is `> 0`; flags: `ta` = text operand under arithmetic
(outside the modelled domain), `TREE!` = flat evaluation and tree evaluation differ (never).
-/

def hexDigit (n : Nat) : Char := if n < 10 then Char.ofNat (48 + n) else Char.ofNat (55 + n)

def hex16 (n : Nat) : String :=
  String.ofList ((List.range 16).map (fun i => hexDigit ((n / 16 ^ (15 - i)) % 16)))

def parseHex (s : String) : Option Nat :=
  s.toList.foldlM (fun acc c =>
    if '0' ≤ c ∧ c ≤ '9' then some (acc * 16 + (c.toNat - 48))
    else if 'A' ≤ c ∧ c ≤ 'F' then some (acc * 16 + (c.toNat - 55))
    else if 'a' ≤ c ∧ c ≤ 'f' then some (acc * 16 + (c.toNat - 87))
    else none) 0

/-! ### a small literal reader (exact on the literals the generator produces) -/

structure Lit where
  neg : Bool
  mant : Nat       -- all digits, without the point
  fracDigits : Nat
  expNeg : Bool
  exp : Nat
  isReal : Bool

def isDigit (c : Nat) : Bool := 48 ≤ c && c ≤ 57

def takeDigits : List Nat → List Nat × List Nat
  | [] => ([], [])
  | c :: r => if isDigit c then let (d, r') := takeDigits r; (c :: d, r') else ([], c :: r)

def digitsVal (d : List Nat) : Nat := d.foldl (fun a c => a * 10 + (c - 48)) 0

/-- sign? (digits [. digits?] | . digits) [e sign? digits]; no leading zeros; `1.` and `.5` are
accepted like `Digit::StringToNumber` does (a lone `.` is not) -/
def readLit (s : List Nat) : Option Lit :=
  let (neg, s) := match s with
    | 45 :: r => (true, r) | 43 :: r => (false, r) | _ => (false, s)
  let (ip, s) := takeDigits s
  if ip.length > 1 && ip.head? == some 48 then none
  else
    let (fp, s, hasDot) := match s with
      | 46 :: r => let (f, r') := takeDigits r; (f, r', true)
      | _ => ([], s, false)
    if ip.isEmpty && fp.isEmpty then none
    else
      match s with
      | [] => some ⟨neg, digitsVal (ip ++ fp), fp.length, false, 0, hasDot⟩
      | c :: r =>
        if c == 101 || c == 69 then
          let (eneg, r) := match r with
            | 45 :: r' => (true, r') | 43 :: r' => (false, r') | _ => (false, r)
          let (ed, r) := takeDigits r
          if ed.isEmpty || !r.isEmpty then none
          else some ⟨neg, digitsVal (ip ++ fp), fp.length, eneg, digitsVal ed, true⟩
        else none

def pow10F (k : Nat) : Float := (10 ^ k).toUInt64.toFloat

def litNumFloat (l : Lit) : Option (Num Float) :=
  if !l.isReal then
    if !l.neg then (if l.mant < W64 then some (.nat l.mant) else none)
    else if l.mant == 0 then some (.real (Float.ofBits H64.toUInt64))
    else if l.mant ≤ H64 - 1 then some (.int (ofInt (-(l.mant : Int)))) else none
  else
    -- value = mant * 10^(±exp - fracDigits): one correctly rounded operation
    if l.mant ≥ 2 ^ 53 then none else
    let m : Float := l.mant.toUInt64.toFloat
    let e : Int := (if l.expNeg then -(l.exp : Int) else (l.exp : Int)) - (l.fracDigits : Int)
    if e.natAbs > 22 then none else
    let v := if e ≥ 0 then m * pow10F e.toNat else m / pow10F e.natAbs
    some (.real (if l.neg then -v else v))

def litNumRat (l : Lit) : Option (Num Rat) :=
  if !l.isReal then
    if !l.neg then (if l.mant < W64 then some (.nat l.mant) else none)
    else if l.mant == 0 then some (.real 0)
    else if l.mant ≤ H64 - 1 then some (.int (ofInt (-(l.mant : Int)))) else none
  else
    let e : Int := (if l.expNeg then -(l.exp : Int) else (l.exp : Int)) - (l.fracDigits : Int)
    let m : Rat := (l.mant : Rat)
    let v : Rat := if e ≥ 0 then m * ((10 ^ e.toNat : Nat) : Rat) else m / ((10 ^ e.natAbs : Nat) : Rat)
    some (.real (if l.neg then -v else v))

/-- `[+-]0x<hex digits>` / `0X…`: `Digit::StringToNumber` hands these to `HexStringToNumber` and
answers Natural (the sign is ignored, no digit at all is 0, the value wraps at 64 bits) -/
def readHex (s : List Nat) : Option Nat :=
  let s := match s with
    | 45 :: r => r | 43 :: r => r | _ => s
  match s with
  | 48 :: x :: rest =>
    if x == 120 || x == 88 then
      rest.foldlM (fun acc c =>
        if 48 ≤ c ∧ c ≤ 57 then some ((acc * 16 + (c - 48)) % W64)
        else if 65 ≤ c ∧ c ≤ 70 then some ((acc * 16 + (c - 55)) % W64)
        else if 97 ≤ c ∧ c ≤ 102 then some ((acc * 16 + (c - 87)) % W64)
        else none) 0
    else none
  | _ => none

def readNumFloat (s : List Nat) : Option (Num Float) :=
  match readHex s with
  | some n => some (.nat n)
  | none => (readLit s).bind litNumFloat
def readNumRat (s : List Nat) : Option (Num Rat) :=
  match readHex s with
  | some n => some (.nat n)
  | none => (readLit s).bind litNumRat

/-! ### variables -/

inductive VSpec where
  | nat (n : Nat) | int (i : Int) | real (bits : Nat) | tru | fals | null | str (s : List Nat) | other

def parseVar (e : String) : Option (List Nat × VSpec) :=
  match e.splitOn "=" with
  | [name, v] =>
    let nm := name.toList.map Char.toNat
    match v.toList with
    | 'n' :: r => (String.ofList r).toNat?.map (fun n => (nm, .nat n))
    | 'i' :: r => (String.ofList r).toInt?.map (fun n => (nm, .int n))
    | 'r' :: r => (parseHex (String.ofList r)).map (fun n => (nm, .real n))
    | ['t'] => some (nm, .tru)
    | ['f'] => some (nm, .fals)
    | ['z'] => some (nm, .null)
    | ['o'] => some (nm, .other)
    | 's' :: r =>
      if r.isEmpty then some (nm, .str [])
      else (((String.ofList r).splitOn ".").mapM (fun (t : String) => t.toNat?)).map (fun u => (nm, VSpec.str u))
    | _ => none
  | _ => none

def parseVars (s : String) : Option (List (List Nat × VSpec)) :=
  if s == "-" then some [] else (s.splitOn ";").mapM parseVar

/-- exact rational of a finite double -/
def ratOfBits (b : Nat) : Rat :=
  let sign : Nat := b / 2 ^ 63
  let e : Nat := (b / 2 ^ 52) % 2048
  let f : Nat := b % 2 ^ 52
  let m : Nat := 2 ^ 52 + f
  let mag : Rat :=
    if e == 0 then (f : Rat) / ((2 ^ 1074 : Nat) : Rat)
    else if e ≥ 1075 then (m : Rat) * ((2 ^ (e - 1075) : Nat) : Rat)
    else (m : Rat) / ((2 ^ (1075 - e) : Nat) : Rat)
  if sign == 1 then -mag else mag

def vFloat : VSpec → VarVal Float
  | .nat n => .nat n | .int i => .int (ofInt i) | .real b => .real (Float.ofBits b.toUInt64)
  | .tru => .tru | .fals => .fals | .null => .null | .str s => .str s | .other => .other

def vRat : VSpec → VarVal Rat
  | .nat n => .nat n | .int i => .int (ofInt i) | .real b => .real (ratOfBits b)
  | .tru => .tru | .fals => .fals | .null => .null | .str s => .str s | .other => .other

def mkEnv {R} (conv : VSpec → VarVal R) (rn : List Nat → Option (Num R)) (content : List Nat)
    (vars : List (List Nat × VSpec)) : Env R where
  content := content
  lookup v :=
    let name := (content.drop v.off).take v.len
    (vars.find? (fun p => p.1 == name)).map (fun p => conv p.2)
  readNum := rn

/-! ### running the model -/

def mathPrefix : List Nat := "{math:".toList.map Char.toNat
def ifPrefix : List Nat := "<if case=\"".toList.map Char.toNat
def ifSuffix : List Nat := "\">T<else />F</if>".toList.map Char.toNat

def frame (mode : String) (u : List Nat) : Option (List Nat × Nat × Nat) :=
  if mode == "m" then some (mathPrefix ++ u ++ [125], 6, 6 + u.length)
  else if mode == "i" then some (ifPrefix ++ u ++ ifSuffix, 10, 10 + u.length)
  else if mode == "p" then some (u, 0, u.length)
  else none

def showFault : Fault → String
  | .oobRead i n => s!"Foob:{i}/{n}"
  | .fuel => "Ffuel"
  | .divZero => "Fdiv0"
  | .sremOverflow => "Fsrem"

section
variable {R : Type} [RealLike R]

def descOf (showReal : R → String) : Option (Val R) → String
  | some (.num (.nat b)) => s!"V n {b}"
  | some (.num (.int b)) => s!"V i {b}"
  | some (.num (.real r)) => s!"V r {showReal r}"
  | some (.text _ _) => "NE"
  | some (.var _) => "NE"
  | none => "NE"

def truthOf : Option (Val R) → Bool
  | some (.num n) => n.positive
  | _ => false

def runModel (showReal : R → String) (conv : VSpec → VarVal R) (rn : List Nat → Option (Num R))
    (mode : String) (vars : List (List Nat × VSpec)) (u : List Nat) : String :=
  match frame mode u with
  | none => "bad-op"
  | some (content, off, endO) =>
    let cfg : ScanCfg R := { readNum := rn }
    match parseTop cfg content off endO with
    | .error e => showFault e ++ " 0 -"
    | .ok [] => "NP 0 -"
    | .ok items =>
      let env := mkEnv conv rn content vars
      let flat := evaluateTop env true items
      let tree := climb items
      let viaTree := evalTop env tree
      let d := descOf showReal flat
      let flags := (if tree.textArith then "ta" else "-") ++
        (if descOf showReal viaTree != d || !wfItems items then ",TREE!" else "")
      s!"{d} {showBool (truthOf flat)} {flags}"

end

def showRat (r : Rat) : String := s!"{r.num}/{r.den}"

def handle (op : String) : List String → String
  | [mode, vs, us] =>
    match parseVars vs, parseNats us with
    | some vars, some u =>
      if op == "expeval" then
        runModel (R := Float) (fun x => hex16 x.toBits.toNat) vFloat readNumFloat mode vars u
      else if op == "expexact" then
        runModel (R := Rat) showRat vRat readNumRat mode vars u
      else "bad-op"
    | _, _ => "bad-op"
  | _ => "bad-op"

end Qentem.Driver.Expr
