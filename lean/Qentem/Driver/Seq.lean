import Qentem.Driver.Proto
import Qentem.Model.Seq
import Qentem.Model.Mem
import Qentem.Model.SeqLedger
import Qentem.Model.SeqTree
/-!
Driver for C14.  One line carries a whole test program (the table of objects lives for one line):

  seq-array  <kind> <op;op;…>           model of `Array`  (kind i = Array<int>, s = Array<String<char>>; ignored here)
  seq-string <width> <op;op;…>          model of `String`
  seq-stream <width> <x|s> <op;op;…>    model of `StringStream`, capacity policy exact-fit (x) or shipped (s)
  seq-view   <width> <op;op;…>          model of `StringView`
  seq-…-spec <…> <op;op;…>              the plain `List` specification of the same program (S3 oracle)
  seqmem copy|zero <simd> <shift> <size> <seed>     `Memory::Copy` / `SetToZero` model; digest of the result
  seqled-array i <ops> | seqled-string <w> <ops> | seqled-stream <w> <x|s> <ops>
  seqtree <op;op;…>                      Array<Node> with `Node = {id, tag, kids : Array<Node>}` (value semantics)
                                         C16: the allocation trace (`a<id>:<bytes>`, `f<id>`) the program emits

Output: the dump of the three registers after every step, steps joined by `|`.
-/
namespace Qentem.Driver.Seq
open Qentem.Driver Qentem.Seq

def regs : List Nat := [0, 1, 2]

def showOpt : Option Nat → String
  | none => "-"
  | some v => toString v

def showOut : Out → String
  | .none => ""
  | .units u => "=" ++ showNats u
  | .bool b => "=b" ++ showBool b

def nat? (s : String) : Option Nat := s.toNat?
def reg? (s : String) : Option Nat := match s.toNat? with
  | some r => if r < 3 then some r else none
  | none => none

def joinSteps (l : List String) : String := "|".intercalate l

/-! ### Array -/
def parseArr (t : List String) : Option (ArrOp Nat) :=
  match t with
  | ["push", r, x] => do some (.push (← reg? r) (← nat? x))
  | ["pushi", r, i] => do some (.pushSelf (← reg? r) (← nat? i))
  | ["appc", r, s] => do some (.appC (← reg? r) (← reg? s))
  | ["appm", r, s] => do some (.appM (← reg? r) (← reg? s))
  | ["asgc", r, s] => do some (.asgC (← reg? r) (← reg? s))
  | ["asgm", r, s] => do some (.asgM (← reg? r) (← reg? s))
  | ["ctorc", r, s] => do some (.ctorC (← reg? r) (← reg? s))
  | ["ctorm", r, s] => do some (.ctorM (← reg? r) (← reg? s))
  | ["ctorn", r, n, i] => do some (.ctorN (← reg? r) (← nat? n) (← parseBool i))
  | ["clear", r] => do some (.clear (← reg? r))
  | ["reset", r] => do some (.reset (← reg? r))
  | ["detach", r] => do some (.detach (← reg? r))
  | ["reserve", r, n, i] => do some (.reserve (← reg? r) (← nat? n) (← parseBool i))
  | ["resize", r, n] => do some (.resize (← reg? r) (← nat? n))
  | ["resizei", r, n] => do some (.resizeInit (← reg? r) (← nat? n))
  | ["expect", r, n] => do some (.expect (← reg? r) (← nat? n))
  | ["compress", r] => do some (.compress (← reg? r))
  | ["drop", r, n] => do some (.drop (← reg? r) (← nat? n))
  | _ => none

def parseOps {β : Type} (p : List String → Option β) (s : String) : Option (List β) :=
  (s.splitOn ";").mapM (fun o => p (o.splitOn ":"))

def dumpArr (st : ArrSt Nat) : String :=
  "/".intercalate (regs.map fun r =>
    let a := st r
    s!"{a.size}:{a.cap}:{showNats a.data}:{showOpt a.last?}")

def dumpAbs (st : Nat → List Nat) : String :=
  "/".intercalate (regs.map fun r => s!"{(st r).length}:{showNats (st r)}")

def showOutA : Option (List Nat) → String
  | none => ""
  | some u => "=" ++ showNats u

def runArr (ops : List (ArrOp Nat)) : String :=
  let (_, acc) := ops.foldl (fun (p : ArrSt Nat × List String) op =>
    let (st', o) := op.step 0 p.1
    (st', (dumpArr st' ++ showOutA o) :: p.2)) (arrInit, [])
  joinSteps acc.reverse

def runArrSpec (ops : List (ArrOp Nat)) : String :=
  let (_, acc) := ops.foldl (fun (p : ArrAbs Nat × List String) op =>
    let (st', o) := op.spec 0 p.1
    (st', (dumpAbs st' ++ showOutA o) :: p.2)) ((fun _ => []), [])
  joinSteps acc.reverse

/-! ### String -/
def parseStr (t : List String) : Option StrOp :=
  match t with
  | ["ctorc", r, s] => do some (.ctorC (← reg? r) (← reg? s))
  | ["ctorm", r, s] => do some (.ctorM (← reg? r) (← reg? s))
  | ["ctoru", r, u] => do some (.ctorU (← reg? r) (← parseNats u))
  | ["ctorf", r, u] => do some (.ctorF (← reg? r) (← parseNats u))
  | ["adopt", r, u] => do some (.adopt (← reg? r) (← parseNats u))
  | ["asgc", r, s] => do some (.asgC (← reg? r) (← reg? s))
  | ["asgm", r, s] => do some (.asgM (← reg? r) (← reg? s))
  | ["asgu", r, u] => do some (.asgU (← reg? r) (← parseNats u))
  | ["appc", r, s] => do some (.appC (← reg? r) (← reg? s))
  | ["appm", r, s] => do some (.appM (← reg? r) (← reg? s))
  | ["appu", _v, r, u] => do some (.appU (← reg? r) (← parseNats u))
  | ["appch", r, c] => do some (.appCh (← reg? r) (← nat? c))
  | ["appo", v, r, o, n] => do some (.appOwn (← nat? v) (← reg? r) (← nat? o) (← nat? n))
  | ["asgo", r, o] => do some (.asgOwn (← reg? r) (← nat? o))
  | ["plus", r, s, t] => do some (.plus (← reg? r) (← reg? s) (← reg? t))
  | ["plusm", r, s, t] => do some (.plusM (← reg? r) (← reg? s) (← reg? t))
  | ["plusu", r, s, u] => do some (.plusU (← reg? r) (← reg? s) (← parseNats u))
  | ["trim", r, s] => do some (.trim (← reg? r) (← reg? s))
  | ["stepback", r, n] => do some (.stepBack (← reg? r) (← nat? n))
  | ["reverse", r, n] => do some (.reverse (← reg? r) (← nat? n))
  | ["insertat", r, c, n] => do some (.insertAt (← reg? r) (← nat? c) (← nat? n))
  | ["reset", r] => do some (.reset (← reg? r))
  | ["detach", r] => do some (.detach (← reg? r))
  | ["cmp", k, r, s] => do some (.cmp (← nat? k) (← reg? r) (← reg? s))
  | ["cmpu", k, r, u] => do some (.cmpU (← nat? k) (← reg? r) (← parseNats u))
  | _ => none

def dumpStr (st : StrSt) : String :=
  "/".intercalate (regs.map fun r =>
    let s := st r
    match s.store with
    | none => s!"N:{s.len}"
    | some _ => s!"{s.len}:{showOpt s.term?}:{showNats s.data}:{showOpt s.last?}")

def runStr (ops : List StrOp) : String :=
  let (_, acc) := ops.foldl (fun (p : StrSt × List String) op =>
    let (st', o) := op.step p.1
    (st', (dumpStr st' ++ showOut o) :: p.2)) (strInit, [])
  joinSteps acc.reverse

def runStrSpec (ops : List StrOp) : String :=
  let (_, acc) := ops.foldl (fun (p : SeqAbs × List String) op =>
    let (st', o) := op.spec p.1
    (st', (dumpAbs st' ++ showOut o) :: p.2)) ((fun _ => []), [])
  joinSteps acc.reverse

/-! ### StringStream -/
def parseSs (t : List String) : Option SsOp :=
  match t with
  | ["ctorn", r, n] => do some (.ctorN (← reg? r) (← nat? n))
  | ["ctorc", r, s] => do some (.ctorC (← reg? r) (← reg? s))
  | ["ctorm", r, s] => do some (.ctorM (← reg? r) (← reg? s))
  | ["asgc", r, s] => do some (.asgC (← reg? r) (← reg? s))
  | ["asgm", r, s] => do some (.asgM (← reg? r) (← reg? s))
  | ["asgu", v, r, u] => do some (.asgU (← nat? v) (← reg? r) (← parseNats u))
  | ["pushch", v, r, c] => do some (.pushCh (← nat? v) (← reg? r) (← nat? c))
  | ["apps", r, s] => do some (.appS (← reg? r) (← reg? s))
  | ["shls", r, s] => do some (.shlS (← reg? r) (← reg? s))
  | ["appu", v, r, u] => do some (.appU (← nat? v) (← reg? r) (← parseNats u))
  | ["appo", v, r, o, n] => do some (.appOwn (← nat? v) (← reg? r) (← nat? o) (← nat? n))
  | ["asgo", v, r, o, n] => do some (.asgOwn (← nat? v) (← reg? r) (← nat? o) (← nat? n))
  | ["clear", r] => do some (.clear (← reg? r))
  | ["reset", r] => do some (.reset (← reg? r))
  | ["detach", r] => do some (.detach (← reg? r))
  | ["stepback", r, n] => do some (.stepBack (← reg? r) (← nat? n))
  | ["reverse", r, n] => do some (.reverse (← reg? r) (← nat? n))
  | ["insertat", r, c, n] => do some (.insertAt (← reg? r) (← nat? c) (← nat? n))
  | ["setlen", r, n, f] => do some (.setLength (← reg? r) (← nat? n) (← parseNats f))
  | ["buffer", r, f] => do some (.buffer (← reg? r) (← parseNats f))
  | ["expect", r, n] => do some (.expect (← reg? r) (← nat? n))
  | ["reserve", r, n] => do some (.reserve (← reg? r) (← nat? n))
  | ["getstr", r] => do some (.getString (← reg? r))
  | ["getview", r] => do some (.getView (← reg? r))
  | ["insnull", r] => do some (.insertNull (← reg? r))
  | ["eqs", k, r, s] => do some (.eqS (← nat? k) (← reg? r) (← reg? s))
  | ["equ", v, k, r, u] => do some (.eqU (← nat? v) (← nat? k) (← reg? r) (← parseNats u))
  | _ => none

def dumpSs (st : SsSt) : String :=
  "/".intercalate (regs.map fun r =>
    let s := st r
    s!"{s.len}:{s.cap}:{showNats s.data}:{showOpt s.data.getLast?}")

def runSs (P : Policy) (ops : List SsOp) : String :=
  let (_, acc) := ops.foldl (fun (p : SsSt × List String) op =>
    let (st', o) := op.step P p.1
    (st', (dumpSs st' ++ showOut o) :: p.2)) (ssInit, [])
  joinSteps acc.reverse

def runSsSpec (ops : List SsOp) : String :=
  let (_, acc) := ops.foldl (fun (p : SeqAbs × List String) op =>
    let (st', o) := op.spec p.1
    (st', (dumpAbs st' ++ showOut o) :: p.2)) ((fun _ => []), [])
  joinSteps acc.reverse

/-! ### StringView -/
def parseSv (t : List String) : Option SvOp :=
  match t with
  | ["ctorp", r, b, n] => do some (.ctorP (← reg? r) (← parseNats b) (← nat? n))
  | ["ctorz", r, b] => do some (.ctorZ (← reg? r) (← parseNats b))
  | ["ctorc", r, s] => do some (.ctorC (← reg? r) (← reg? s))
  | ["ctorm", r, s] => do some (.ctorM (← reg? r) (← reg? s))
  | ["asgc", r, s] => do some (.asgC (← reg? r) (← reg? s))
  | ["asgm", r, s] => do some (.asgM (← reg? r) (← reg? s))
  | ["asgz", r, b] => do some (.asgZ (← reg? r) (← parseNats b))
  | ["reset", r] => do some (.reset (← reg? r))
  | ["cmp", k, r, s] => do some (.cmp (← nat? k) (← reg? r) (← reg? s))
  | ["cmpu", k, r, u] => do some (.cmpU (← nat? k) (← reg? r) (← parseNats u))
  | _ => none

def dumpSv (st : SvSt) : String :=
  "/".intercalate (regs.map fun r =>
    let s := st r
    match s.store with
    | none => s!"N:{s.len}"
    | some _ => s!"{s.len}:{showNats s.data}:{showOpt s.last?}")

def runSv (ops : List SvOp) : String :=
  let (_, acc) := ops.foldl (fun (p : SvSt × List String) op =>
    let (st', o) := op.step p.1
    (st', (dumpSv st' ++ showOut o) :: p.2)) (svInit, [])
  joinSteps acc.reverse

def runSvSpec (ops : List SvOp) : String :=
  let (_, acc) := ops.foldl (fun (p : SeqAbs × List String) op =>
    let (st', o) := op.spec p.1
    (st', (dumpAbs st' ++ showOut o) :: p.2)) ((fun _ => []), [])
  joinSteps acc.reverse

/-! ### Memory::Copy / SetToZero -/
def runMem (what : String) (simd : Bool) (shift size seed : Nat) : String :=
  -- destination: `size + 8` sentinel bytes; source: exactly `size` pattern bytes
  let dst := List.replicate (size + 8) 170
  match what with
  | "copy" =>
    match Mem.copyBlocks simd shift size dst (Mem.pattern seed size) with
    | some d => s!"{Mem.fnv (d.take size)} {Mem.fnv (d.drop size)}"
    | none => "FAULT model"
  | "zero" =>
    match Mem.zeroBlocks simd shift size dst with
    | some d => s!"{Mem.fnv (d.take size)} {Mem.fnv (d.drop size)}"
    | none => "FAULT model"
  | "spec-copy" => s!"{Mem.fnv (Mem.pattern seed size)} {Mem.fnv (List.replicate 8 170)}"
  | "spec-zero" => s!"{Mem.fnv (List.replicate size 0)} {Mem.fnv (List.replicate 8 170)}"
  | _ => "bad-op"

/-! ### C16: allocation trace of a program (all steps, then destruction of the three objects) -/
def showEv : Qentem.Ledger.Ev → String
  | .alloc i s => s!"a{i}:{s}"
  | .free i => s!"f{i}"
  | .touch i => s!"t{i}"

def showTrace (t : List Qentem.Ledger.Ev) : String :=
  if t.isEmpty then "-" else ",".intercalate (t.map showEv)

def width? (s : String) : Option Nat :=
  if s == "1" then some 1 else if s == "2" then some 2 else if s == "4" then some 4 else none

/-! ### Array of a recursive owning item type (`seqtree <op;op;…>`, the program syntax of arraytree_harness.cpp) -/
open Qentem.SeqTree in
partial def dumpNode (n : Node) : String :=
  toString n.id ++ (if n.tag != defaultTag then "!tag" ++ toString n.tag else "") ++
    (if n.kids.isEmpty then "" else "(" ++ " ".intercalate (n.kids.map dumpNode) ++ ")")

def parsePath (s : String) : Option (List Nat) :=
  if s == "" || s == "-" then some [] else (s.splitOn ".").mapM (·.toNat?)

open Qentem.SeqTree in
def parseTreeOp (o : String) : Option TreeOp :=
  let k := o.take 1 |>.toString
  let rest := o.drop 1 |>.toString
  if k == "n" then
    match rest.splitOn ":" with
    | [p, i] => do some (.new (← parsePath p) (← i.toNat?))
    | _ => none
  else if k == "c" || k == "m" || k == "a" then
    match rest.splitOn "=" with
    | [d, sr] => do
      let d ← parsePath d
      let sr ← parsePath sr
      some (if k == "c" then .copy d sr else if k == "m" then .move d sr else .appendCopy d sr)
    | _ => none
  else if k == "r" then (parsePath rest).map .reset
  else if k == "z" || k == "v" then
    match rest.splitOn ":" with
    | [p, n] => do
      let p ← parsePath p
      let n ← n.toNat?
      some (if k == "z" then .resizeInit p n else .reserveInit p n)
    | _ => none
  else none

open Qentem.SeqTree in
def runTreeLine (prog : String) : String :=
  match ((prog.splitOn ";").filter (· != "")).mapM parseTreeOp with
  | none => "bad-op"
  | some ops =>
    match runTree ops rootInit with
    | none => "bad-path"
    | some [] => "-"
    | some l => "|".intercalate (l.map dumpNode)

def orBad : Option String → String
  | some s => s
  | none => "bad-op"

def handle (op : String) (args : List String) : String :=
  match op, args with
  | "seq-array", [_k, ops] => orBad ((parseOps parseArr ops).map runArr)
  | "seq-array-spec", [_k, ops] => orBad ((parseOps parseArr ops).map runArrSpec)
  | "seq-string", [_w, ops] => orBad ((parseOps parseStr ops).map runStr)
  | "seq-string-spec", [_w, ops] => orBad ((parseOps parseStr ops).map runStrSpec)
  | "seq-stream", [_w, p, ops] =>
    if p == "x" then orBad ((parseOps parseSs ops).map (runSs policyExact))
    else if p == "s" then orBad ((parseOps parseSs ops).map (runSs policyStd))
    else "bad-op"
  | "seq-stream-spec", [_w, _p, ops] => orBad ((parseOps parseSs ops).map runSsSpec)
  | "seq-view", [_w, ops] => orBad ((parseOps parseSv ops).map runSv)
  | "seq-view-spec", [_w, ops] => orBad ((parseOps parseSv ops).map runSvSpec)
  | "seqled-array", [k, ops] =>
    if k == "i" then orBad ((parseOps parseArr ops).map fun o => showTrace (SeqLedger.arrTrace 4 o))
    else if k == "p" then orBad ((parseOps parseArr ops).map fun o => showTrace (SeqLedger.arrTrace 8 o))   -- sizeof(Plain) = 8
    else if k == "s" then orBad ((parseOps parseArr ops).map fun o => showTrace (SeqLedger.arrOwnTrace o))
    else "bad-op"
  | "seqled-string", [w, ops] =>
    -- width token `1|2|4`, with suffix `f` when `String::operator=(const Char_T*)` releases before it allocates
    let ff := w.endsWith "f"
    let w := if ff then (w.dropEnd 1).toString else w
    orBad (do let w ← width? w; let o ← parseOps parseStr ops; some (showTrace (SeqLedger.strTrace w ff o)))
  | "seqled-stream", [w, p, ops] =>
    orBad (do
      let w ← width? w
      let o ← parseOps parseSs ops
      if p == "x" then some (showTrace (SeqLedger.ssTrace policyExact w o))
      else if p == "s" then some (showTrace (SeqLedger.ssTrace policyStd w o)) else none)
  | "seq-trim", [_w, v, off, e, u] =>
    -- StringUtils::TrimLeft (l) / TrimRight (r) / Trim (t) on `u` with the cursors `off`, `e` (= end offset, or length for t)
    orBad (do
      let off ← nat? off
      let e ← nat? e
      let u ← parseNats u
      if v == "l" then some (toString (trimLeftOff u off e))
      else if v == "r" then some (toString (trimRightEnd u off e))
      else if v == "t" then (let r := trimOffLen u off e; some s!"{r.1} {r.2}")
      else none)
  | "seq-trim-spec", [_w, v, off, e, u] =>
    -- the same cursors from the plain-list reading: drop / keep exactly the units in {space, \t, \n, \r}
    orBad (do
      let off ← nat? off
      let e ← nat? e
      let u ← parseNats u
      let isws := fun (c : Nat) => c == 32 || c == 9 || c == 10 || c == 13
      if v == "l" then some (toString (off + (((u.take e).drop off).takeWhile isws).length))
      else if v == "r" then some (toString (e - (((u.take e).drop off).reverse.takeWhile isws).length))
      else if v == "t" then
        (if e == 0 then some s!"{off} 0" else
         let seg := (u.take (e + off)).drop off
         let o' := off + (seg.takeWhile isws).length
         let rest := seg.dropWhile isws
         some s!"{o'} {rest.length - (rest.reverse.takeWhile isws).length}")
      else none)
  | "seqtree", [prog] => runTreeLine prog
  | "seqmem", [what, simd, shift, size, seed] =>
    let what := if what == "copyL" then "copy" else if what == "zeroL" then "zero"
      else if what == "spec-copyL" then "spec-copy" else if what == "spec-zeroL" then "spec-zero" else what
    orBad (do
      let b ← parseBool simd
      some (runMem what b (← nat? shift) (← nat? size) (← nat? seed)))
  | _, _ => "bad-op"

end Qentem.Driver.Seq
