import Qentem.Model.Ledger
import Qentem.Driver.Proto
namespace Qentem.Driver.Ledger
open Qentem.Driver Qentem.Ledger

def parseEv (t : String) : Option Ev :=
  if t.startsWith "a" then
    match (t.drop 1).toString.splitOn ":" with
    | [i, s] => do let i ← i.toNat?; let s ← s.toNat?; pure (.alloc i s)
    | _ => none
  else if t.startsWith "f" then (t.drop 1).toString.toNat?.map .free
  else if t.startsWith "t" then (t.drop 1).toString.toNat?.map .touch
  else none

/-- `ledcheck <trace>`: the Lean `run` on a real allocation trace.
    → `balanced <events>` | `violation <index>` | `leak <blocks>` -/
def handle (op : String) (args : List String) : String :=
  match op, args with
  | "ledcheck", [tr] =>
    if tr == "-" then "balanced 0" else
    match (tr.splitOn ",").mapM parseEv with
    | none => "bad-op"
    | some evs =>
      match run evs [] with
      | some [] => s!"balanced {evs.length}"
      | some h => s!"leak {h.length}"
      | none => s!"violation {(firstViolation evs [] 0).getD 0}"
  | _, _ => "bad-op"

end Qentem.Driver.Ledger
