import Qentem.Model.Order
import Qentem.Model.Sort
import Qentem.Driver.Proto
/-!
Model driver for C15 (ops prefixed `ord`).  Same line protocol as `harness/order_harness.cpp`:
string token = units joined by '.', the empty string is "e"; value token =
`u | o<n>x<tag> | a<n>x<tag> | s:<str> | n<nat> | i<int> | r<16 hex> | t | f | z | p<token>`;
lists are joined by ',', the empty list is "-".
The `ordoracle*` ops evaluate the C15 predicates (the definitions the theorems are about) on
results produced by the implementation.
-/
namespace Qentem.Driver.Order
open Qentem.Driver Qentem.Order Qentem.Sort

def parseStr (s : String) : Option (List Nat) :=
  if s == "e" then some [] else
  match (s.splitOn ".").mapM (fun t => t.toNat?) with
  | some [] => none
  | r => r

def showStr (l : List Nat) : String :=
  if l.isEmpty then "e" else ".".intercalate (l.map toString)

def hexVal (c : Char) : Option Nat :=
  if '0' ≤ c ∧ c ≤ '9' then some (c.toNat - '0'.toNat)
  else if 'a' ≤ c ∧ c ≤ 'f' then some (c.toNat - 'a'.toNat + 10)
  else none

def parseHex (s : String) : Option Nat :=
  s.toList.foldlM (fun acc c => (hexVal c).map (fun d => acc * 16 + d)) 0

/-- Monotone key of an IEEE-754 binary64 bit pattern; `none` for NaN. -/
def realKey (bits : Nat) : Option Int :=
  let mag := bits % 2 ^ 63
  if mag > 0x7FF0000000000000 then none
  else if bits / 2 ^ 63 % 2 == 1 then some (-(Int.ofNat mag)) else some (Int.ofNat mag)

/-- Signed-char view of a unit (the order `char` comparisons see on this platform). -/
def signedUnit (u : Nat) : Nat := (u + 128) % 256

def parseSized (s : String) : Option Nat :=
  match s.splitOn "x" with
  | [n, _tag] => n.toNat?
  | _ => none

/-- Value token → model value. The first argument bounds the pointer nesting. -/
def parseVal : Nat → List Char → Option JVal
  | 0, _ => none
  | _ + 1, ['u'] => some .undefined
  | _ + 1, ['t'] => some .tru
  | _ + 1, ['f'] => some .fls
  | _ + 1, ['z'] => some .null
  | _ + 1, 'n' :: rest => (String.ofList rest).toNat?.map .nat
  | _ + 1, 'i' :: rest => (String.ofList rest).toInt?.map .int
  | _ + 1, 'r' :: rest =>
    if rest.length == 16 then (parseHex (String.ofList rest)).map (fun b => .real (realKey b)) else none
  | _ + 1, 's' :: ':' :: rest => (parseStr (String.ofList rest)).map .str
  | _ + 1, 'o' :: rest => (parseSized (String.ofList rest)).map .obj
  | _ + 1, 'a' :: rest => (parseSized (String.ofList rest)).map .arr
  | fuel + 1, 'p' :: rest => (parseVal fuel rest).map .ptr
  | _ + 1, _ => none

def parseValue (t : String) : Option JVal := parseVal (t.length + 1) t.toList

def parseList (s : String) : List String := if s == "-" then [] else s.splitOn ","

def showList (l : List String) : String := if l.isEmpty then "-" else ",".intercalate l

def bitChar (b : Bool) : Char := if b then '1' else '0'

def obsBits (o : Obs) : String :=
  String.ofList [bitChar o.lt, bitChar o.le, bitChar o.gt, bitChar o.ge, bitChar o.eq, bitChar (!o.eq)]

def optBit : Option Bool → String
  | some true => "1"
  | some false => "0"
  | none => "X"

/-- `ordstr`: the six operators (list model) and the four raw calls through the *cursor* models. -/
def strLine (a b : List Nat) : String :=
  let l := a.toArray
  let r := b.toArray
  -- operator== through the cursor model of IsEqual, as String::operator== calls it
  let eqA := if l.size == r.size then isEqualA l r l.size 0 else some false
  let o := obsStr a b
  obsBits o ++ " " ++ optBit (isLessA l r l.size r.size false 0) ++ optBit (isLessA l r l.size r.size true 0) ++
    optBit (isGreaterA l r l.size r.size false 0) ++ optBit (isGreaterA l r l.size r.size true 0) ++
    optBit (isEqualA l r (min l.size r.size) 0) ++
    (if eqA == some o.eq then "" else " cursor-eq-differs")

def parseObs (s : String) : Option Obs :=
  let bit (c : Char) : Option Bool := if c == '1' then some true else if c == '0' then some false else none
  match s.toList with
  | [a, b, c, d, e, f] => do
      let lt ← bit a; let le ← bit b; let gt ← bit c; let ge ← bit d; let eq ← bit e; let ne ← bit f
      if ne == !eq then some { lt, le, gt, ge, eq } else none
  | _ => none

/-! ### Sort -/

/-- Sort tagged elements (the tag is the original token, so equivalent elements stay distinguishable). -/
def sortTagged {β : Type} (lt gt : β → β → Bool) (asc : Bool) (elems : List (β × String)) : Option (List String) :=
  (arraySort (fun x y => lt x.1 y.1) (fun x y => gt x.1 y.1) asc elems.toArray).map
    (fun a => a.toList.map (·.2))

def showBits (l : List Bool) : String := if l.isEmpty then "-" else String.ofList (l.map bitChar)

/-- Tokens in sorted order followed by the comparison table of the result. -/
def sortTaggedT {β : Type} (lt gt le ge : β → β → Bool) (asc : Bool) (elems : List (β × String)) : Option String :=
  (arraySort (fun x y => lt x.1 y.1) (fun x y => gt x.1 y.1) asc elems.toArray).map
    (fun a => showList (a.toList.map (·.2)) ++ " " ++
      showBits (pairsTable (fun x y => if asc then lt x.1 y.1 else gt x.1 y.1) a.toList) ++ " " ++
      showBits (chainTable (fun x y => if asc then le x.1 y.1 else ge x.1 y.1) a.toList))

def sortValues (asc : Bool) (toks : List String) : String :=
  match toks.mapM (fun t => (parseValue t).map (fun v => (v, t))) with
  | none => "bad-op"
  | some elems =>
    match sortTaggedT Val.lt Val.gt Val.le Val.ge asc elems with
    | some out => out
    | none => "model-fault"

/-- `Memory::Sort<asc>(arr, start, end)` on a segment: all tokens, then the two tables of the segment. -/
def sortSegment (asc : Bool) (start stop : Nat) (toks : List String) : String :=
  match toks.mapM (fun t => (parseValue t).map (fun v => (v, t))) with
  | none => "bad-op"
  | some elems =>
    if start > stop || stop > elems.length then "bad-op" else
    let before : (JVal × String) → (JVal × String) → Bool :=
      fun x y => if asc then Val.lt x.1 y.1 else Val.gt x.1 y.1
    match sortSeg before (stop - start) elems.toArray start stop with
    | none => "model-fault"
    | some out =>
      let seg := (out.toList.drop start).take (stop - start)
      showList (out.toList.map (·.2)) ++ " " ++ showBits (pairsTable before seg) ++ " " ++
        showBits (chainTable (fun x y => if asc then Val.le x.1 y.1 else Val.ge x.1 y.1) seg)

def sortStrings (asc signed : Bool) (toks : List String) : String :=
  match toks.mapM (fun t => (parseStr t).map (fun v => (if signed then v.map signedUnit else v, t))) with
  | none => "bad-op"
  | some elems =>
    match sortTaggedT Str.lt Str.gt Str.le Str.ge asc elems with
    | some out => out
    | none => "model-fault"

/-! #### The insertion-ordered hash array as far as `Sort` sees it: slots in storage order
(`key, value, live`), the capacity (a removed slot keeps its place until the next growth;
`HArray::Get` grows when `Size() == Capacity()`, and growing drops removed slots). -/

structure HA where
  slots : Array Slot3 := #[]
  cap : Nat := 0

def alignSize (n : Nat) : Nat := Id.run do
  let mut s := 1
  for _ in [0:64] do
    if s < n then s := s * 2
  return s

def HA.insert (h : HA) (key : List Nat) (val : Nat) : HA :=
  let h := if h.slots.size == h.cap then
      let n := ((if h.cap == 0 then 1 else 0) + h.cap) * 2
      { slots := h.slots.filter (·.2.2), cap := alignSize (n + n % 2) }
    else h
  match h.slots.findIdx? (fun s => s.2.2 && s.1 == key) with
  | some i => { h with slots := h.slots.modify i (fun s => (s.1, val, s.2.2)) }
  | none => { h with slots := h.slots.push (key, val, true) }

def HA.remove (h : HA) (key : List Nat) : HA :=
  match h.slots.findIdx? (fun s => s.2.2 && s.1 == key) with
  | some i => { h with slots := h.slots.modify i (fun _ => ([], 0, false)) }
  | none => h

def showSlot (s : Slot3) : String := if s.2.2 then showStr s.1 ++ "=" ++ toString s.2.1 else "~"

def showSlots (a : Array Slot3) : String := showList (a.toList.map showSlot)

def applyOp (h : HA) (t : String) : Option HA :=
  if t.startsWith "+" then
    match ((t.drop 1).toString).splitOn "=" with
    | [k, v] => do
      let key ← parseStr k
      let val ← v.toNat?
      some (h.insert key val)
    | _ => none
  else if t.startsWith "!" then (parseStr (t.drop 1).toString).map h.remove
  else none

def sortObject (asc : Bool) (ops : List String) : String :=
  match ops.foldlM applyOp ({} : HA) with
  | none => "bad-op"
  | some h =>
    match arraySort (fun (x y : Slot3) => Str.lt x.1 y.1) (fun x y => Str.gt x.1 y.1) asc h.slots with
    | some out => showSlots h.slots ++ " " ++ showSlots out ++ " " ++
        showBits (pairsTable (fun (x y : Slot3) => if asc then Str.lt x.1 y.1 else Str.gt x.1 y.1) out.toList) ++ " " ++
        showBits (chainTable (fun (x y : Slot3) => if asc then Str.le x.1 y.1 else Str.ge x.1 y.1) out.toList) ++
        " lookups-ok"
    | none => "model-fault"

/-- What `{raw:v}` prints for the element kinds the loop stream uses. -/
def renderTok (t : String) : Option (List Nat) :=
  match parseValue t with
  | some (.str s) => some s
  | some (.nat n) => some ((toString n).toList.map Char.toNat)
  | _ => none

def loopLine (asc : Bool) (toks : List String) : String :=
  match toks.mapM (fun t => (parseValue t).map (fun v => (v, t))) with
  | none => "bad-op"
  | some elems =>
    match sortTagged Val.lt Val.gt asc elems with
    | none => "model-fault"
    | some out =>
      match out.mapM renderTok with
      | none => "bad-op"
      | some parts => showNats (parts.foldr (fun p acc => p ++ 44 :: acc) [])

/-! ### Oracles (the C15 predicates on implementation results) -/

def oraclePair (ab ba : String) : String :=
  match parseObs ab, parseObs ba with
  | some x, some y =>
    if !x.consistent then "inconsistent" else if !y.consistent then "inconsistent-swapped"
    else if !x.dual y then "not-dual" else "ok"
  | _, _ => "bad-op"

def oracleTri (ab bc ac : String) : String :=
  match parseObs ab, parseObs bc, parseObs ac with
  | some x, some y, some z => if Obs.trans x y z then "ok" else "not-transitive"
  | _, _, _ => "bad-op"

def oracleLex (signed : Bool) (a b ab : String) : String :=
  match parseStr a, parseStr b, parseObs ab with
  | some x, some y, some o =>
    let x := if signed then x.map signedUnit else x
    let y := if signed then y.map signedUnit else y
    if o.lt == lexLt x y && o.eq == (x == y) then "ok" else "not-lexicographic"
  | _, _, _ => "bad-op"

def parseBits (s : String) : Option (List Bool) :=
  if s == "-" then some [] else s.toList.mapM (fun c => if c == '1' then some true else if c == '0' then some false else none)

/-- Ordered permutation, judged by the implementation's own comparisons of its result. -/
def oracleSortTable (inp out : List String) (bits chain : String) : String :=
  if !isPermOf out inp then "not-permutation" else
  match parseBits bits, parseBits chain with
  | some b, some c =>
    if b.length != out.length * (out.length - 1) / 2 || c.length != b.length then "bad-table"
    else if !tableOrdered b then "not-ordered"
    else if !tableChain c then "not-a-chain" else "ok"
  | _, _ => "bad-op"

def oracleSort {β : Type} (before : β → β → Bool) (parse : String → Option β) (inp out : List String) : String :=
  if !isPermOf out inp then "not-permutation" else
  match out.mapM parse with
  | none => "bad-op"
  | some vs => if orderedBy before vs then "ok" else "not-ordered"

/-- Split rendered units at every comma (44); the text ends with a comma. -/
def splitPieces (l : List Nat) : List (List Nat) :=
  let r := l.foldl (fun (acc : List (List Nat) × List Nat) u =>
    if u == 44 then (acc.2.reverse :: acc.1, []) else (acc.1, u :: acc.2)) ([], [])
  r.1.reverse

/-- The loop printed each element of the set once, in the order asked for: the pieces are a
    rearrangement of the elements' texts and the elements they stand for are ordered. -/
def oracleLoop (asc : Bool) (toks : List String) (rendered : List Nat) : String :=
  match toks.mapM (fun t => do let v ← parseValue t; let p ← renderTok t; some (p, v)) with
  | none => "bad-op"
  | some tbl =>
    let pieces := splitPieces rendered
    if !isPermOf pieces (tbl.map (·.1)) then "not-permutation" else
    match pieces.mapM (fun p => (tbl.find? (fun e => e.1 == p)).map (·.2)) with
    | none => "not-permutation"
    | some vs => if orderedBy (if asc then Val.lt else Val.gt) vs then "ok" else "not-ordered"

def slotKey (t : String) : Option (List Nat) :=
  if t == "~" then some [] else
  match t.splitOn "=" with
  | [k, _] => parseStr k
  | _ => none

def asc? (s : String) : Option Bool := parseBool s

def handle (op : String) (args : List String) : String :=
  match op, args with
  | "ordstr", [_w, a, b] =>
    match parseStr a, parseStr b with
    | some x, some y => strLine x y
    | _, _ => "bad-op"
  | "ordstrs", [_w, a, b] =>
    match parseStr a, parseStr b with
    | some x, some y => strLine (x.map signedUnit) (y.map signedUnit)
    | _, _ => "bad-op"
  | "ordval", [a, b] =>
    match parseValue a, parseValue b with
    | some x, some y => obsBits (obsVal x y)
    | _, _ => "bad-op"
  | "ordsortv", [a, l] => match asc? a with | some a => sortValues a (parseList l) | none => "bad-op"
  | "ordsorta", [a, l] => match asc? a with | some a => sortValues a (parseList l) | none => "bad-op"
  | "ordsorts", [a, w, l] =>
    match asc? a with | some a => sortStrings a (w == "1s") (parseList l) | none => "bad-op"
  | "ordsortw", [a, w, l] =>
    match asc? a with | some a => sortStrings a (w == "1s") (parseList l) | none => "bad-op"
  | "ordsortn", [a, _k, l] => match asc? a with | some a => sortValues a (parseList l) | none => "bad-op"
  | "ordsortl", [a, l] => match asc? a with | some a => sortObject a (parseList l) | none => "bad-op"
  | "ordsortseg", [a, s, e, l] =>
    match asc? a, s.toNat?, e.toNat? with
    | some a, some s, some e => sortSegment a s e (parseList l)
    | _, _, _ => "bad-op"
  | "ordsortseg64", [a, s, e, l] =>
    match asc? a, s.toNat?, e.toNat? with
    | some a, some s, some e => sortSegment a s e (parseList l)
    | _, _, _ => "bad-op"
  | "ordsorto", [a, l] => match asc? a with | some a => sortObject a (parseList l) | none => "bad-op"
  | "ordsorth", [a, l] => match asc? a with | some a => sortObject a (parseList l) | none => "bad-op"
  | "ordloop", [a, l] => match asc? a with | some a => loopLine a (parseList l) | none => "bad-op"
  | "ordoracleloop", [a, i, o] =>
    match asc? a, parseNats o with
    | some a, some u => oracleLoop a (parseList i) u
    | _, _ => "bad-op"
  | "ordoraclepair", [ab, ba] => oraclePair ab ba
  | "ordoracletri", [ab, bc, ac] => oracleTri ab bc ac
  | "ordoraclelex", [a, b, ab] => oracleLex false a b ab
  | "ordoraclelexs", [a, b, ab] => oracleLex true a b ab
  | "ordoraclesort", [i, o, bits, chain] => oracleSortTable (parseList i) (parseList o) bits chain
  | "ordoraclesortv", [a, i, o] =>
    match asc? a with
    | some a => oracleSort (if a then Val.lt else Val.gt) parseValue (parseList i) (parseList o)
    | none => "bad-op"
  | "ordoraclesorts", [a, i, o] =>
    match asc? a with
    | some a => oracleSort (if a then Str.lt else Str.gt) parseStr (parseList i) (parseList o)
    | none => "bad-op"
  | "ordoraclesortss", [a, i, o] =>
    match asc? a with
    | some a => oracleSort (if a then Str.lt else Str.gt) (fun t => (parseStr t).map (·.map signedUnit))
                  (parseList i) (parseList o)
    | none => "bad-op"
  | "ordoraclesorto", [a, i, o] =>
    match asc? a with
    | some a => oracleSort (if a then Str.lt else Str.gt) slotKey (parseList i) (parseList o)
    | none => "bad-op"
  | _, _ => "bad-op"

end Qentem.Driver.Order
