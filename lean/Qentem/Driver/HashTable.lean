import Qentem.Driver.Proto
import Qentem.Model.HashTable
import Qentem.Model.HashTableSpec
import Qentem.Model.HashLedger
import Qentem.Model.HashTree
/-!
Driver of the C13 models.  `Main.lean` is stateless per line, so one line carries a whole operation
sequence and the answer carries one record per step, joined by `|`.

  htrun  <A|L> <ops>   layout model (`Model/HashTable.lean`), record = `out#size cap heads#items`
  htspec <A|L> <ops>   slot specification (`Model/HashTableSpec.lean`), record = `out#cap#slots`
  hthash <units>       `StringUtils::Hash` for `char` keys
  htled  <A|L> <ops>   allocation trace of one table lifetime (`Model/HashLedger.lean`):
                       `a<id>:<bytes>` / `f<id>` joined by `,` (same syntax as harness/ledger.hpp)

`A` = HArray (values are numbers), `L` = HList (`V = Unit`, printed as 0).
`<ops>` = operations joined by `;` (or `-` for none), fields joined by `/`, keys are unit lists
(`97,98` or `-` for the empty key):
  I/k/v insert   G/k get-or-create   A/k/v h[k]=v   L/k lookup by key   X/i lookup by index
  R/k remove     D/i remove index    N/a/b rename   V/n reserve  Z/n resize  E/n expect
  C compress     K clear   T reset   S/0|1 sort     Y copy       M move
  P/<k=v&k=v..>/<k&k..> merge with a fresh table built by those inserts then those removals
  (`Q/..` the same through the moving `operator+=`; identical for the destination)
  W self-merge `h += h` (a no-op since the repair)
-/
namespace Qentem.Driver.HashTable
open Qentem.Driver Qentem.HashTable

structure ValIO (V : Type) where
  parse : String → Option V
  shw : V → String

def natIO : ValIO Nat := ⟨fun s => s.toNat?, toString⟩
def unitIO : ValIO Unit := ⟨fun _ => some (), fun _ => "0"⟩

def parsePairs {V : Type} (io : ValIO V) (s : String) : Option (List (List Nat × V)) :=
  if s == "-" then some [] else
  (s.splitOn "&").mapM fun t =>
    match t.splitOn "=" with
    | [k, v] => do let k ← parseNats k; let v ← io.parse v; pure (k, v)
    | _ => none

def parseKeys (s : String) : Option (List (List Nat)) :=
  if s == "-" then some [] else (s.splitOn "&").mapM parseNats

def parseOp {V : Type} (io : ValIO V) (s : String) : Option (Op V) :=
  match s.splitOn "/" with
  | ["I", k, v] => do let k ← parseNats k; let v ← io.parse v; pure (.insert k v)
  | ["G", k] => do let k ← parseNats k; pure (.get k)
  | ["A", k, v] => do let k ← parseNats k; let v ← io.parse v; pure (.assign k v)
  | ["L", k] => do let k ← parseNats k; pure (.lookup k)
  | ["X", i] => do let i ← i.toNat?; pure (.lookupIdx i)
  | ["R", k] => do let k ← parseNats k; pure (.remove k)
  | ["D", i] => do let i ← i.toNat?; pure (.removeIdx i)
  | ["N", a, b] => do let a ← parseNats a; let b ← parseNats b; pure (.rename a b)
  | ["V", n] => do let n ← n.toNat?; pure (.reserve n)
  | ["Z", n] => do let n ← n.toNat?; pure (.resize n)
  | ["E", n] => do let n ← n.toNat?; pure (.expect n)
  | ["C"] => some .compress
  | ["K"] => some .clear
  | ["T"] => some .reset
  | ["S", a] => do let a ← parseBool a; pure (.sort a)
  | ["Y"] => some .copy
  | ["M"] => some .move
  | ["P", ins, rem] => do let ins ← parsePairs io ins; let rem ← parseKeys rem; pure (.merge ins rem)
  | ["Q", ins, rem] => do let ins ← parsePairs io ins; let rem ← parseKeys rem; pure (.merge ins rem)
  | ["W"] => some .selfMerge
  | _ => none

/-- Operations of the line protocol: a model operation, or a call whose argument refers to an element
of the same table (`IV IK IKV GK RK NK NT`, see harness/hashtable_harness.cpp).  The latter have value
semantics - the argument is read first - so they are resolved against the current state into a model
operation (`none` = the addressed element does not exist: nothing happens, output `u`). -/
inductive DOp (V : Type) where
  | plain (op : Op V)
  | insFrom (k k2 : List Nat)
  | insKey (i : Nat) (v : V)
  | insKeyVal (i j : Nat)
  | getKey (i : Nat)
  | remKey (i : Nat)
  | renFromKey (i : Nat) (to : List Nat)
  | renToKey (i : Nat) (frm : List Nat)
  | lookKey (i : Nat)

def parseDOp {V : Type} (io : ValIO V) (s : String) : Option (DOp V) :=
  match s.splitOn "/" with
  | ["IV", k, k2] => do let k ← parseNats k; let k2 ← parseNats k2; pure (.insFrom k k2)
  | ["IK", i, v] => do let i ← i.toNat?; let v ← io.parse v; pure (.insKey i v)
  | ["IKV", i, j] => do let i ← i.toNat?; let j ← j.toNat?; pure (.insKeyVal i j)
  | ["GK", i] => do let i ← i.toNat?; pure (.getKey i)
  | ["RK", i] => do let i ← i.toNat?; pure (.remKey i)
  | ["NK", i, k] => do let i ← i.toNat?; let k ← parseNats k; pure (.renFromKey i k)
  | ["NT", i, k] => do let i ← i.toNat?; let k ← parseNats k; pure (.renToKey i k)
  -- thin wrappers: NUL-terminated key overloads = the pointer+length operation
  | ["RC", k] => do let k ← parseNats k; pure (.plain (.remove k))
  | ["GC", k] => do let k ← parseNats k; pure (.plain (.get k))
  -- the key given as a pointer into the table's own key storage (stored key of slot i)
  | ["PG", i] => do let i ← i.toNat?; pure (.getKey i)
  | ["PB", i] => do let i ← i.toNat?; pure (.getKey i)
  | ["PI", i, v] => do let i ← i.toNat?; let v ← io.parse v; pure (.insKey i v)
  | ["PR", i] => do let i ← i.toNat?; pure (.remKey i)
  | ["PC", i] => do let i ← i.toNat?; pure (.remKey i)
  | ["PL", i] => do let i ← i.toNat?; pure (.lookKey i)
  | _ => (parseOp io s).map .plain

/-- `look k` = value stored under `k`, `at i` = live entry of slot `i` (both in the current state). -/
def resolve {V : Type} (hasValue : Bool) (look : List Nat → Option V) (at_ : Nat → Option (List Nat × V)) :
    DOp V → Option (Op V)
  | .plain op => some op
  | .insFrom k k2 => if hasValue then (look k2).map fun v => .insert k v else none
  | .insKey i v => (at_ i).map fun e => .insert e.1 v
  | .insKeyVal i j =>
    if hasValue then (at_ i).bind fun e => (at_ j).map fun e2 => .insert e.1 e2.2
    else (at_ i).map fun e => .insert e.1 e.2
  | .getKey i => if hasValue then (at_ i).map fun e => .get e.1 else none
  | .remKey i => (at_ i).map fun e => .remove e.1
  | .renFromKey i to => (at_ i).map fun e => .rename e.1 to
  | .renToKey i frm => (at_ i).map fun e => .rename frm e.1
  | .lookKey i => (at_ i).map fun e => .lookup e.1

def parseOps {V : Type} (io : ValIO V) (s : String) : Option (List (DOp V)) :=
  if s == "-" then some [] else (s.splitOn ";").mapM (parseDOp io)

def showOut {V : Type} (io : ValIO V) : Out V → String
  | .unit => "u"
  | .value v => "v" ++ io.shw v
  | .found none => "n"
  | .found (some (i, v)) => "f" ++ toString i ++ ":" ++ io.shw v
  | .entry none => "n"
  | .entry (some (k, v)) => "e" ++ showNats k ++ ":" ++ io.shw v
  | .flag b => "b" ++ showBool b

def joinOr (sep : String) (l : List String) : String := if l.isEmpty then "-" else sep.intercalate l

def showItem {V : Type} (io : ValIO V) (it : Item V) : String :=
  showNats it.key ++ "/" ++ toString it.hash ++ "/" ++ toString it.next ++ "/" ++ io.shw it.val

def showHT {V : Type} (io : ValIO V) (s : HT V) : String :=
  toString s.size ++ " " ++ toString s.cap ++ " " ++ showNats s.heads.toList ++ "#" ++
    joinOr ";" (s.items.toList.map (showItem io))

def showSlot {V : Type} (io : ValIO V) : Option (List Nat × V) → String
  | none => "~"
  | some (k, v) => showNats k ++ "/" ++ io.shw v

def showSpec {V : Type} (io : ValIO V) (sp : Spec V) : String :=
  toString sp.cap ++ "#" ++ joinOr ";" (sp.slots.map (showSlot io))

/-- Run the layout model step by step; a fault ends the record list with `fault`. -/
def runLayout {V : Type} [Inhabited V] (io : ValIO V) (hv : Bool) : HT V → List (DOp V) → List String
  | _, [] => []
  | s, dop :: ops =>
    let look := fun k => match lookup Hash.hashChar s k with | some (some r) => some r.2 | _ => none
    match resolve hv look (lookupIdx s) dop with
    | none => ("u#" ++ showHT io s) :: runLayout io hv s ops
    | some op =>
      match step Hash.hashChar Hash.ordChar s op with
      | none => ["fault"]
      | some (s', o) => (showOut io o ++ "#" ++ showHT io s') :: runLayout io hv s' ops

def runSpec {V : Type} [Inhabited V] (io : ValIO V) (hv : Bool) : Spec V → List (DOp V) → List String
  | _, [] => []
  | sp, dop :: ops =>
    match resolve hv (fun k => (Spec.lookup sp k).map (·.2)) (Spec.lookupIdx sp) dop with
    | none => ("u#" ++ showSpec io sp) :: runSpec io hv sp ops
    | some op =>
      let r := Spec.step Hash.ordChar sp op
      (showOut io r.2 ++ "#" ++ showSpec io r.1) :: runSpec io hv r.1 ops

def handleKind {V : Type} [Inhabited V] (io : ValIO V) (hv : Bool) (op : String) (ops : String) : String :=
  match parseOps io ops with
  | none => "bad-op"
  | some l =>
    if op == "htrun" then joinOr "|" (runLayout io hv HT.empty l)
    else if op == "htspec" then joinOr "|" (runSpec io hv Spec.empty l)
    else "bad-op"

/-! ### allocation ledger (C16) -/
open Qentem.HashLedger in
def parseLOp (s : String) : Option LOp :=
  match s.splitOn "/" with
  | ["I", k, v] => do let k ← parseNats k; let v ← v.toNat?; pure (.insert k v)
  | ["G", k] => do let k ← parseNats k; pure (.get k)
  | ["A", k, v] => do let k ← parseNats k; let v ← v.toNat?; pure (.assign k v)
  | ["L", k] => do let k ← parseNats k; pure (.lookup k)
  | ["X", i] => do let i ← i.toNat?; pure (.lookupIdx i)
  | ["R", k] => do let k ← parseNats k; pure (.remove k)
  | ["D", i] => do let i ← i.toNat?; pure (.removeIdx i)
  | ["N", a, b] => do let a ← parseNats a; let b ← parseNats b; pure (.rename a b)
  | ["V", n] => do let n ← n.toNat?; pure (.reserve n)
  | ["Z", n] => do let n ← n.toNat?; pure (.resize n)
  | ["E", n] => do let n ← n.toNat?; pure (.expect n)
  | ["C"] => some .compress
  | ["K"] => some .clear
  | ["T"] => some .reset
  | ["S", a] => do let a ← parseBool a; pure (.sort a)
  | ["Y"] => some .copy
  | ["M"] => some .move
  | ["P", ins, rem] => do let ins ← parsePairs natIO ins; let rem ← parseKeys rem; pure (.merge false ins rem)
  | ["Q", ins, rem] => do let ins ← parsePairs natIO ins; let rem ← parseKeys rem; pure (.merge true ins rem)
  | ["W"] => some .selfMerge
  | _ => none

def showEv : Qentem.Ledger.Ev → String
  | .alloc i s => "a" ++ toString i ++ ":" ++ toString s
  | .free i => "f" ++ toString i
  | .touch i => "t" ++ toString i

/-- bytes owned by the value the harness makes for id `n`: "v" ++ decimal ++ 30 pad bytes ++ NUL -/
def valBytes (n : Nat) : Nat := 32 + (toString n).length

def ledCfg (kind : String) : Option Qentem.HashLedger.Cfg :=
  if kind == "A" then some ⟨true, 44, valBytes, Hash.ordChar⟩
  else if kind == "L" then some ⟨false, 28, valBytes, Hash.ordChar⟩
  else none

def handleLed (kind ops : String) : String :=
  match ledCfg kind with
  | none => "bad-op"
  | some cfg =>
    let l := if ops == "-" then some [] else (ops.splitOn ";").mapM parseLOp
    match l with
    | none => "bad-op"
    | some l => joinOr "," ((Qentem.HashLedger.lifetime cfg l).map showEv)

/-! ### nested tables (`httree <op;op;…>`, the program syntax of harness/hashtree_harness.cpp) -/
open Qentem.HashTree in
def parsePath (s : String) : Option (List (List Nat)) :=
  if s == "~" then some [] else (s.splitOn ".").mapM parseNats

open Qentem.HashTree in
def parseTreeOp (s : String) : Option TreeOp :=
  match s.splitOn "/" with
  | ["g", p, k] => do let p ← parsePath p; let k ← parseNats k; pure (.get p k)
  | ["t", p, n] => do let p ← parsePath p; let n ← n.toNat?; pure (.setTag p n)
  | ["r", p, k] => do let p ← parsePath p; let k ← parseNats k; pure (.remove p k)
  | ["x", p] => do let p ← parsePath p; pure (.empty p)
  | ["k", p] => do let p ← parsePath p; pure (.empty p)
  | ["z", p] => do let p ← parsePath p; pure (.same p)
  | ["y", p] => do let p ← parsePath p; pure (.same p)
  | ["Y", p] => do let p ← parsePath p; pure (.same p)
  | ["c", d, s] => do let d ← parsePath d; let s ← parsePath s; pure (.copy d s)
  | ["m", d, s] => do let d ← parsePath d; let s ← parsePath s; pure (.move d s)
  | ["a", d, s] => do let d ← parsePath d; let s ← parsePath s; pure (.assign d s)
  | ["p", d, s] => do let d ← parsePath d; let s ← parsePath s; pure (.merge d s)
  | ["q", d, s] => do let d ← parsePath d; let s ← parsePath s; pure (.mergeMove d s)
  | ["i", d, k, s] => do let d ← parsePath d; let k ← parseNats k; let s ← parsePath s; pure (.insertFrom d k s)
  | _ => none

open Qentem.HashTree in
partial def dumpNode (n : Node) : String :=
  toString n.tag ++ "[" ++ ";".intercalate (n.kids.map fun e => showNats e.1 ++ "=" ++ dumpNode e.2) ++ "]"

open Qentem.HashTree in
def handleTree (prog : String) : String :=
  match ((prog.splitOn ";").filter (· != "")).mapM parseTreeOp with
  | none => "bad-op"
  | some ops =>
    match runTree ops Node.fresh with
    | none => "bad-path"
    | some rs => joinOr "|" (rs.map dumpNode)

def handle (op : String) (args : List String) : String :=
  match op, args with
  | "httree", [prog] => handleTree prog
  | "htled", [kind, ops] => handleLed kind ops
  | "hthash", [u] =>
    match parseNats u with
    | some k => toString (Hash.hashChar k)
    | none => "bad-op"
  | _, ["A", ops] => handleKind natIO true op ops
  | _, ["L", ops] => handleKind unitIO false op ops
  | _, _ => "bad-op"

end Qentem.Driver.HashTable
