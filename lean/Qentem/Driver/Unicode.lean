import Qentem.Model.Unicode
import Qentem.Driver.Proto
namespace Qentem.Driver.Unicode
open Qentem.Driver Qentem.Unicode

/-!
Ops (all prefixed `uni`):
  uni_enc  <w> <lo> <hi>                 groups `toUTF w u` for u in [lo,hi), joined by ';'
  uni_esc  <w> <mode> <lo> <hi>          for cp in [lo,hi): `ret:units` of UnEscape on the string of `mode`
  uni_un   <w> <prefill> <units>         `ret|stream` of UnEscape(units, |units|) on a stream holding prefill
  uni_hex  <w> <units>                   HexStringToNumber<SizeT32>(units, |units|)
  uni_dec  <w> <units>                   spec decoder: code points or `invalid`
  uni_orc  <w> <mode> <lo> <hi> <groups> C20 oracle on implementation output: `ok` or `bad <cp>`
Modes: d = direct ToUTF; l = `\uxxxx"` lower hex; u = `\uXXXX` upper hex, ended by length;
U = `\UXXXX"` (capital U is accepted by the routine; not RFC 8259, correspondence only);
c = inside a longer string (pre/post chosen from cp), quote-terminated, hex case from cp.
-/

/-- Width token: 1, 2, 4, or `W` (wchar_t, four bytes on this platform). -/
def parseW (s : String) : Option Nat := if s == "W" then some 4 else s.toNat?

def ctxPre (cp : Nat) : List Nat := (List.range (cp % 4)).map (· + 97)
def ctxPost (cp : Nat) : List Nat := (List.range (cp / 4 % 3)).map (· + 120)

/-- The input string of a mode and the text it denotes (as code points). -/
def modeInput (mode : String) (cp : Nat) : Option (List Nat × List Nat) :=
  if mode == "l" then some (jsonEscape false false cp ++ [34], [cp])
  else if mode == "u" then some (jsonEscape false true cp, [cp])
  else if mode == "U" then some (jsonEscape true true cp ++ [34], [cp])
  else if mode == "c" then
    some (ctxPre cp ++ jsonEscape false (cp % 2 == 1) cp ++ ctxPost cp ++ [34], ctxPre cp ++ [cp] ++ ctxPost cp)
  else none

/-- The units the harness puts into the destination before the call: a, b, c, … -/
def prefill (p : Nat) : List Nat := (List.range p).map (fun i => 97 + i % 26)

def showRes : Option (List Nat × Nat) → String
  | none => "FAULT"
  | some (st, r) => toString r ++ "|" ++ showNats st

def showGroup : Option (List Nat × Nat) → String
  | none => "FAULT"
  | some (st, r) => toString r ++ ":" ++ showNats st

def range (lo hi : Nat) : List Nat := (List.range (hi - lo)).map (· + lo)

def parseGroup (g : String) : Option (Nat × List Nat) :=
  match g.splitOn ":" with
  | [r, u] => match r.toNat?, parseNats u with
    | some r, some u => some (r, u)
    | _, _ => none
  | _ => none

/-- The C20 predicate on what the implementation produced for `cp` in `mode`. -/
def oracleOne (w : Nat) (mode : String) (cp : Nat) (g : String) : Bool :=
  if mode == "d" then
    match parseNats g with
    | some u => utfDecode w u == some [cp]
    | none => false
  else
    match modeInput mode cp, parseGroup g with
    | some (inp, txt), some (r, u) => r == inp.length && utfDecode w u == some txt
    | _, _ => false

def oracle (w : Nat) (mode : String) (lo hi : Nat) (groups : String) : String :=
  let gs := groups.splitOn ";"
  let cps := range lo hi
  if gs.length != cps.length then "bad-count"
  else
    match (cps.zip gs).find? (fun (cp, g) => !oracleOne w mode cp g) with
    | some (cp, _) => "bad " ++ toString cp
    | none => "ok"

def handle (op : String) (args : List String) : String :=
  match op, args with
  | "uni_enc", [w, lo, hi] =>
    match parseW w, lo.toNat?, hi.toNat? with
    | some w, some lo, some hi => ";".intercalate ((range lo hi).map (fun u => showNats (toUTF w u)))
    | _, _, _ => "bad-op"
  | "uni_esc", [w, mode, lo, hi] =>
    match parseW w, lo.toNat?, hi.toNat? with
    | some w, some lo, some hi =>
      ";".intercalate ((range lo hi).map (fun cp =>
        match modeInput mode cp with
        | some (inp, _) => showGroup (unEscape inp w)
        | none => "bad-mode"))
    | _, _, _ => "bad-op"
  | "uni_un", [w, pre, u] =>
    match parseW w, parseNats pre, parseNats u with
    | some w, some pre, some u => showRes (unEscapeA w u u.length pre)
    | _, _, _ => "bad-op"
  | "uni_hex", [_w, u] =>
    match parseNats u with
    | some u => match hexLoop u u.length 0 0 with
      | some (n, _) => toString n
      | none => "FAULT"
    | none => "bad-op"
  -- capacity / public-API pass: the model of the stream is its contents, so the stream type and the
  -- number of free units play no role here (that they play none in the C++ is what is being checked)
  | "uni_encf", [w, _st, p, _k, lo, hi] =>
    match parseW w, p.toNat?, lo.toNat?, hi.toNat? with
    | some w, some p, some lo, some hi =>
      ";".intercalate ((range lo hi).map (fun u => showNats (prefill p ++ toUTF w u)))
    | _, _, _, _ => "bad-op"
  | "uni_escf", [w, _st, mode, p, _k, lo, hi] =>
    match parseW w, p.toNat?, lo.toNat?, hi.toNat? with
    | some w, some p, some lo, some hi =>
      ";".intercalate ((range lo hi).map (fun cp =>
        match modeInput mode cp with
        | some (inp, _) => showGroup (unEscapeA w inp inp.length (prefill p))
        | none => "bad-mode"))
    | _, _, _, _ => "bad-op"
  | "uni_unf", [w, _st, _k, pre, u] =>
    match parseW w, parseNats pre, parseNats u with
    | some w, some pre, some u => showRes (unEscapeA w u u.length pre)
    | _, _, _ => "bad-op"
  | "uni_hexw", [_w, bits, _sz, off, e, u] =>
    match bits.toNat?, off.toNat?, e.toNat?, parseNats u with
    | some bits, some off, some e, some u =>
      match hexLoopW (2 ^ bits) u (e - off) off 0 with
      | some (n, o) => toString n ++ ":" ++ toString o
      | none => "FAULT"
    | _, _, _, _ => "bad-op"
  | "uni_hex2", [_w, bits, u] =>
    match bits.toNat?, parseNats u with
    | some bits, some u =>
      match hexLoopW (2 ^ bits) u u.length 0 0 with
      | some (n, _) => toString n
      | none => "FAULT"
    | _, _ => "bad-op"
  | "uni_dec", [w, u] =>
    match parseW w, parseNats u with
    | some w, some u => match utfDecode w u with
      | some l => showNats l
      | none => "invalid"
    | _, _ => "bad-op"
  | "uni_orc", [w, mode, lo, hi, gs] =>
    match parseW w, lo.toNat?, hi.toNat? with
    | some w, some lo, some hi => oracle w mode lo hi gs
    | _, _, _ => "bad-op"
  | _, _ => "bad-op"

end Qentem.Driver.Unicode
