import Qentem.Model.BigInt
import Qentem.Driver.Proto
/-!
Driver of the BigInt model (ops prefixed `big`).

  bigseq <W> <n> <op>*          run the operations on a fresh object of n words of W bits; one token
                                 `idx/words/ret` per step (words without trailing zeros; ret `_`, a
                                 number, `T`/`F`); a step on which the model faults prints `pre` and is
                                 skipped (the harness skips the same steps by its own precondition test)
  bigoracle <W> <n> <k> <op>^k <token>^k
                                 the C19 predicate (Lean `specStep`/`canon`) evaluated on an
                                 implementation trace: `ok <checked>` or `bad <step> <why>`
  bighm <hand|nat> <W> a b       DoubleSize::Multiply  -> `hi lo exact`
  bighd <hand|nat> <W> hi lo d   DoubleSize::Divide    -> `hi lo exact` (`exact` only meaningful if hi < d)
  bighmx <v> 8 a                 all b in 0..255       -> `hash exactCount`
  bighdx <v> 8 d hi              all lo in 0..255      -> `hash exactCount`

op tokens: as:K:x ad:K:x sb:K:x or:K:x an:K:x mu:x dv:d sl:k sr:k lt:x le:x gt:x ge:x eq:x ne:x (object OP x)
           rlt:x rle:x rgt:x rge:x req:x rne:x (x OP object, the reversed friends)
           ib nz iz nu nw:K ff fl cl   and, with a second object t:  sv (t = x)  ld (x = t)  mv (x = move(t));
           the token of sv/ld/mv (and sa: x = x, sm: x = move(x), cc: t rebuilt by the copy constructor from x,
           mc: x rebuilt by the move constructor from t) is `idx/words/_~idxT/wordsT`;
           further thin wrappers: cn:K:x (converting constructor) ai:i:x si:i:x (Add/Subtract(x, i)) dq:d (/=)
           mun:x sln:k srn:k (named Multiply/ShiftLeft/ShiftRight) sad ssb sor san smu sdv (operand = b.Number())
           ix:i (SetIndex) st:i:v (Storage()[i] = v) mi tw tb so (MaxIndex/TypeWidth/TotalBits/SizeOfType);
           the K field may be s<K> (signed type), L / sL (unsigned long / long)
-/
namespace Qentem.Driver.BigInt
open Qentem.Driver Qentem.BigInt

/-- operand / target type field: `8 16 32 64 128` (unsigned), `s8 … s128` (signed, value non-negative),
`L` / `sL` (unsigned long / long: 64 bits, a type distinct from the 64-bit word type). The model only
needs the width: these are thin wrappers around the proved operations. -/
def parseK (k : String) : Option Nat :=
  let k := if k.startsWith "s" then (k.drop 1).toString else k
  if k == "L" then some 64 else k.toNat?

def parseOp (W : Nat) (t : String) : Option Op :=
  match t.splitOn ":" with
  | [o] =>
    if o == "ib" then some .isBig else if o == "nz" then some .notZero else if o == "iz" then some .isZero
    else if o == "nu" then some .number else if o == "ff" then some .ffb else if o == "fl" then some .flb
    else if o == "cl" then some .clear
    else if o == "mi" then some .maxIndexC else if o == "tw" then some .typeWidthC
    else if o == "tb" then some .totalBitsC else if o == "so" then some .sizeOfTypeC
    else if o == "sad" then some (.self .add) else if o == "ssb" then some (.self .sub)
    else if o == "sor" then some (.self .or) else if o == "san" then some (.self .and)
    else if o == "smu" then some (.self .mul) else if o == "sdv" then some (.self .div)
    else none
  | [o, a] =>
    match (if o == "nw" then parseK a else a.toNat?) with
    | none => none
    | some x =>
      if o == "mun" then some (.mul x) else if o == "sln" then some (.shl x) else if o == "srn" then some (.shr x)
      else if o == "dq" then some (.divq x) else if o == "ix" then some (.setIndex x) else
      if o == "mu" then some (.mul x) else if o == "dv" then some (.div x)
      else if o == "sl" then some (.shl x) else if o == "sr" then some (.shr x)
      else if o == "lt" then some (.cmp .lt x) else if o == "le" then some (.cmp .le x)
      else if o == "gt" then some (.cmp .gt x) else if o == "ge" then some (.cmp .ge x)
      else if o == "eq" then some (.cmp .eq x) else if o == "ne" then some (.cmp .ne x)
      else if o == "rlt" then some (.rcmp .lt x) else if o == "rle" then some (.rcmp .le x)
      else if o == "rgt" then some (.rcmp .gt x) else if o == "rge" then some (.rcmp .ge x)
      else if o == "req" then some (.rcmp .eq x) else if o == "rne" then some (.rcmp .ne x)
      else if o == "nw" then some (.narrow x) else none
  | [o, k, a] =>
    -- a negative operand of a signed type is its two's-complement value at width max(K, W)
    let kv : Option (Nat × Nat) :=
      if o == "ai" || o == "si" || o == "st" then
        (match k.toNat?, a.toNat? with | some k, some x => some (k, x) | _, _ => none)
      else
        match parseK k with
        | none => none
        | some K =>
          if a.startsWith "-" then (a.toInt?).map fun x => (max K W, signedOperand W K x)
          else a.toNat?.map fun x => (K, x)
    match kv.map (·.1), kv.map (·.2) with
    | some k, some x =>
      if o == "cn" then some (.construct k x) else if o == "ai" then some (.addAt x k)
      else if o == "si" then some (.subAt x k) else if o == "st" then some (.store k x) else
      if o == "as" then some (.assign k x) else if o == "ad" then some (.bop .add k x)
      else if o == "sb" then some (.bop .sub k x) else if o == "or" then some (.bop .or k x)
      else if o == "an" then some (.bop .and k x) else none
    | _, _ => none
  | _ => none

def parseOp2 (W : Nat) (t : String) : Option Op2 :=
  if t == "sv" then some .save else if t == "ld" then some .load else if t == "mv" then some .move
  else if t == "sa" then some .selfCopy else if t == "sm" then some .selfMove
  else if t == "cc" then some .copyCtor else if t == "mc" then some .moveCtor
  else (parseOp W t).map .on

def trimZeros (ws : List Nat) : List Nat :=
  (ws.reverse.dropWhile (· == 0)).reverse

def showRet : Ret → String
  | .none => "_"
  | .nat v => toString v
  | .bool b => if b then "T" else "F"

def showState (s : Big) (r : Ret) : String :=
  toString s.idx ++ "/" ++ showNats (trimZeros s.words) ++ "/" ++ showRet r

def showPair (p : Pair) (o : Op2) (r : Ret) : String :=
  match o with
  | .on _ => showState p.x r
  | _ => showState p.x r ++ "~" ++ toString p.t.idx ++ "/" ++ showNats (trimZeros p.t.words)

def runSeq (c : Cfg) : Pair → List Op2 → List String → List String
  | _, [], acc => acc.reverse
  | p, o :: os, acc =>
    match step2 c p o with
    | .ok (p', r) => runSeq c p' os (showPair p' o r :: acc)
    | .error _ => runSeq c p os ("pre" :: acc)

def parseRet (t : String) : Option Ret :=
  if t == "_" then some .none else if t == "T" then some (.bool true) else if t == "F" then some (.bool false)
  else t.toNat?.map .nat

def parseToken (n : Nat) (t : String) : Option (Big × Ret) :=
  match t.splitOn "/" with
  | [i, w, r] =>
    match i.toNat?, parseNats w, parseRet r with
    | some i, some ws, some r =>
      if ws.length ≤ n then some (⟨ws ++ List.replicate (n - ws.length) 0, i⟩, r) else none
    | _, _, _ => none
  | _ => none

def parseT (n : Nat) (t : String) : Option Big :=
  match t.splitOn "/" with
  | [i, w] =>
    match i.toNat?, parseNats w with
    | some i, some ws => if ws.length ≤ n then some ⟨ws ++ List.replicate (n - ws.length) 0, i⟩ else none
    | _, _ => none
  | _ => none

def resync (W n : Nat) (s : Big) : Option Nat := if s == canon W n (s.val W) then some (s.val W) else none

def describe (W n : Nat) (k : Nat) (who : String) (s : Big) (v : Nat) : String :=
  "bad " ++ toString k ++ " value-expected:" ++ toString v ++ " held:" ++ toString (s.val W) ++ " idx:" ++ toString s.idx
    ++ " expected-idx:" ++ toString (canon W n v).idx ++ " object:" ++ who

/-- The property predicate on a trace of the implementation (see header): `a`/`b` are the exact integers
held by x / t while everything so far fitted (`none` after an operation that did not fit, until the
object is canonical again). -/
def oracle (W n : Nat) : Nat → Option Nat → Option Nat → List Op2 → List String → Nat → String
  | _, _, _, [], _, checked => "ok " ++ toString checked
  | _, _, _, _ :: _, [], _ => "bad-op"
  | k, a, b, o :: os, t :: ts, checked =>
    if t == "pre" then
      match a, o with
      | some v, .on o' =>
        if (specStep W n v o').isSome then "bad " ++ toString k ++ " skipped-but-spec-defined"
        else oracle W n (k + 1) a b os ts checked
      | _, .on _ => oracle W n (k + 1) a b os ts checked
      | _, _ => "bad " ++ toString k ++ " skipped-but-spec-defined"
    else
      match o with
      | .on o' =>
        match parseToken n t with
        | none => "bad " ++ toString k ++ " unparsable-token"
        | some (s, r) =>
          match a with
          | some v =>
            match specStep W n v o' with
            | some (v', r') =>
              if s != canon W n v' then describe W n k "x" s v'
              else if r != r' then "bad " ++ toString k ++ " returned:" ++ showRet r ++ " expected:" ++ showRet r'
              else oracle W n (k + 1) (some v') b os ts (checked + 1)
            | none => oracle W n (k + 1) (resync W n s) b os ts checked
          | none => oracle W n (k + 1) (resync W n s) b os ts checked
      | _ =>
        match t.splitOn "~" with
        | [tx, tt] =>
          match parseToken n tx, parseT n tt with
          | some (sx, _), some st =>
            -- both objects must be tracked: the destination's invariant is a precondition of `copy`
            let exp : Option (Nat × Nat) := match a, b with
              | some va, some vb =>
                (match o with
                 | .save => some (va, va) | .copyCtor => some (va, va)
                 | .load => some (vb, vb)
                 | .move => some (vb, 0) | .moveCtor => some (vb, 0)
                 | _ => some (va, vb))
              | _, _ => none
            match exp with
            | some (v, bexp) =>
              if sx != canon W n v then describe W n k "x" sx v
              else if st != canon W n bexp then describe W n k "t" st bexp
              else oracle W n (k + 1) (some v) (some bexp) os ts (checked + 1)
            | none => oracle W n (k + 1) (resync W n sx) (resync W n st) os ts checked
          | _, _ => "bad " ++ toString k ++ " unparsable-token"
        | _ => "bad " ++ toString k ++ " unparsable-token"

def parseVariant (v : String) (W : Nat) : Option Cfg :=
  if v == "hand" then some ⟨W, true⟩ else if v == "nat" then some ⟨W, false⟩ else none

def shiftFor (c : Cfg) (d : Nat) : Nat := if c.hand then (c.W - 1) - d.log2 else 0

def mulExact (W a b hi lo : Nat) : Bool := hi * 2 ^ W + lo == a * b && lo < 2 ^ W

def divExact (W hi lo d r q : Nat) : Bool := q * d + r == hi * 2 ^ W + lo && r < d

def showB (b : Bool) : String := if b then "1" else "0"

def hashStep (acc v : Nat) : Nat := (acc * 1000003 + v) % 2 ^ 64

def mulBatch (c : Cfg) (a : Nat) : Nat → Nat → Nat → String
  | 0, acc, ex => toString acc ++ " " ++ toString ex
  | k + 1, acc, ex =>
    let b := 2 ^ c.W - 1 - k
    let (hi, lo) := dmul c a b
    mulBatch c a k (hashStep acc (hi * 2 ^ c.W + lo)) (if mulExact c.W a b hi lo then ex + 1 else ex)

def divBatch (c : Cfg) (d hi : Nat) : Nat → Nat → Nat → String
  | 0, acc, ex => toString acc ++ " " ++ toString ex
  | k + 1, acc, ex =>
    let lo := 2 ^ c.W - 1 - k
    match ddiv c hi lo d (shiftFor c d) with
    | .ok (r, q) =>
      divBatch c d hi k (hashStep acc (r * 2 ^ c.W + q)) (if divExact c.W hi lo d r q then ex + 1 else ex)
    | .error _ => "fault"

def handle (op : String) (args : List String) : String :=
  if op == "bigseq" then
    match args with
    | w :: n :: ops =>
      match w.toNat?, n.toNat?, ops.mapM (parseOp2 (w.toNat?.getD 0)) with
      | some W, some n, some ops => " ".intercalate (runSeq (Cfg.std W) ⟨zero n, zero n⟩ ops [])
      | _, _, _ => "bad-op"
    | _ => "bad-op"
  else if op == "bigoracle" then
    match args with
    | w :: n :: k :: rest =>
      match w.toNat?, n.toNat?, k.toNat? with
      | some W, some n, some k =>
        if rest.length != 2 * k then "bad-op" else
        match (rest.take k).mapM (parseOp2 W) with
        | some ops => oracle W n 0 (some 0) (some 0) ops (rest.drop k) 0
        | none => "bad-op"
      | _, _, _ => "bad-op"
    | _ => "bad-op"
  else if op == "bighm" then
    match args with
    | [v, w, a, b] =>
      match w.toNat?, a.toNat?, b.toNat? with
      | some W, some a, some b =>
        match parseVariant v W with
        | some c => let (hi, lo) := dmul c a b
                    toString hi ++ " " ++ toString lo ++ " " ++ showB (mulExact W a b hi lo)
        | none => "bad-op"
      | _, _, _ => "bad-op"
    | _ => "bad-op"
  else if op == "bighd" then
    match args with
    | [v, w, hi, lo, d] =>
      match w.toNat?, hi.toNat?, lo.toNat?, d.toNat? with
      | some W, some hi, some lo, some d =>
        match parseVariant v W with
        | some c =>
          match ddiv c hi lo d (shiftFor c d) with
          | .ok (r, q) => toString r ++ " " ++ toString q ++ " " ++ showB (divExact W hi lo d r q)
          | .error _ => "pre"
        | none => "bad-op"
      | _, _, _, _ => "bad-op"
    | _ => "bad-op"
  else if op == "bighmx" then
    match args with
    | [v, w, a] =>
      match w.toNat?, a.toNat? with
      | some W, some a =>
        match parseVariant v W with
        | some c => if W ≤ 8 then mulBatch c a (2 ^ W) 0 0 else "bad-op"
        | none => "bad-op"
      | _, _ => "bad-op"
    | _ => "bad-op"
  else if op == "bighdx" then
    match args with
    | [v, w, d, hi] =>
      match w.toNat?, d.toNat?, hi.toNat? with
      | some W, some d, some hi =>
        match parseVariant v W with
        | some c => if W ≤ 8 then divBatch c d hi (2 ^ W) 0 0 else "bad-op"
        | none => "bad-op"
      | _, _, _ => "bad-op"
    | _ => "bad-op"
  else "bad-op"

end Qentem.Driver.BigInt
