import Qentem.Model.Value
import Qentem.Model.ValueOps
import Qentem.Proofs.ValueSlots
/-! C12 — a Value behaves as an abstract JSON document under every operation sequence. -/
namespace Qentem.Props.C12
open Qentem.Value Qentem.Value.Doc

/-- get-after-set by key: `v[k] = x` (any overload), then `GetValue(k)` is `x` (absent when `x` is
undefined), whatever `v` was before — scalar, array, object with or without removed items. -/
theorem get_after_set_key (k : Key) (x d : Doc) :
    childKey (updKey k (fun _ => x) d) k = nonUndef x := by
  simp [updKey, childKey, slotFind_slotUpd_same]

/-- the other members of an object are not disturbed by a keyed write. -/
theorem get_other_after_set_key (k k' : Key) (f : Doc → Doc) (c : Nat) (s : List Slot) (h : k' ≠ k) :
    childKey (updKey k f (obj c s)) k' = childKey (obj c s) k' := by
  by_cases hc : s.length = c <;>
    simp [updKey, childKey, asObj, objExpand, hc, slotFind_slotUpd_other _ _ _ _ h, slotFind_liveSlots]

example : childKey (updKey [98] (fun _ => nat 7) (obj 2 [some ([97], nat 1), none])) [98] = some (nat 7) := by
  simp [get_after_set_key, nonUndef, isUndef]

end Qentem.Props.C12
