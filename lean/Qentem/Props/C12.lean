import Qentem.Model.Value
import Qentem.Model.ValueOps
import Qentem.Proofs.ValueSlots
import Qentem.Proofs.ValueDoc
import Qentem.Proofs.ValueEnv
import Qentem.Proofs.ValuePath
import Qentem.Proofs.ValueWF
import Qentem.Proofs.Group
/-!
C12 — a Value behaves as an abstract JSON document under every operation sequence.

The model (`Qentem.Value`) *is* the document; an object additionally carries its capacity and its
removed slots so that `Size()` and slot numbers are exact.  The theorems below are the laws the
property names, for every document (`d`, `s`, `items` are arbitrary) and every payload.
`keysNodup s` (the live keys of an object are distinct) is the invariant of every object the
operations can build; it is preserved by every storage primitive (`keysNodup_*`).
-/
namespace Qentem.Props.C12
open Qentem.Value Qentem.Value.Doc

/-! ## keyed subscripts, `Get`, `Insert` -/

/-- get-after-set by key: `v[k] = x` (any overload), then `GetValue(k)` is `x` (absent when `x` is
undefined), whatever `v` was before — scalar, array, object with or without removed items. -/
theorem get_after_set_key (k : Key) (x d : Doc) :
    childKey (updKey k (fun _ => x) d) k = nonUndef x := by
  simp [updKey, childKey, slotFind_slotUpd_same]

/-- the other members of an object are not disturbed by a keyed write. -/
theorem get_other_after_set_key (k k' : Key) (f : Doc → Doc) (c : Nat) (s : List Slot) (h : k' ≠ k) :
    childKey (updKey k f (obj c s)) k' = childKey (obj c s) k' := by
  by_cases hc : s.length = c <;>
    simp [updKey, childKey, asObj, objExpand, hc, slotFind_slotUpd_other _ _ _ _ h, slotFind_liveSlots]

/-- auto-vivification: a keyed subscript always leaves an object … -/
theorem updKey_isObj (k : Key) (f : Doc → Doc) (d : Doc) : (updKey k f d).isObj = true := by
  simp [updKey, isObj]

/-- … and anything that was not an object becomes the one-member object (capacity 2). -/
theorem vivify_key (k : Key) (f : Doc → Doc) (d : Doc) (h : d.isObj = false) :
    updKey k f d = obj 2 [some (k, f undef)] := by
  cases d <;> simp_all [updKey, asObj, objExpand, isObj, liveSlots, slotUpd, allocCap_two]

/-- a new key is appended after the existing members, which keep their order and values. -/
theorem entries_after_new_key (k : Key) (f : Doc → Doc) (c : Nat) (s : List Slot) (h : slotFind k s = none) :
    ∃ c' s', updKey k f (obj c s) = obj c' s' ∧ liveEntries s' = liveEntries s ++ [(k, f undef)] := by
  by_cases hc : s.length = c
  · refine ⟨_, _, by simp [updKey, asObj, objExpand, hc]; exact ⟨rfl, rfl⟩, ?_⟩
    rw [liveEntries_slotUpd_absent _ _ _ (by simpa [slotFind_liveSlots] using h), liveEntries_liveSlots]
  · refine ⟨_, _, by simp [updKey, asObj, objExpand, hc]; exact ⟨rfl, rfl⟩, ?_⟩
    rw [liveEntries_slotUpd_absent _ _ _ h]

/-- writing an existing key keeps every key at its position (the last value wins at the first
position). -/
theorem keys_after_existing_key (k : Key) (f : Doc → Doc) (c : Nat) (s : List Slot) (h : slotFind k s ≠ none) :
    ∃ c' s', updKey k f (obj c s) = obj c' s' ∧ keysOf s' = keysOf s := by
  by_cases hc : s.length = c
  · refine ⟨_, _, by simp [updKey, asObj, objExpand, hc]; exact ⟨rfl, rfl⟩, ?_⟩
    rw [keysOf_slotUpd_present _ _ _ (by simpa [slotFind_liveSlots] using h)]
    simp [keysOf, liveEntries_liveSlots]
  · refine ⟨_, _, by simp [updKey, asObj, objExpand, hc]; exact ⟨rfl, rfl⟩, ?_⟩
    rw [keysOf_slotUpd_present _ _ _ h]

/-- size law: while the table has room (`Size() < Capacity()`) a new key adds exactly one slot and an
existing key none; when it is full the removed slots are dropped first. -/
theorem size_after_key (env : Env) (k : Key) (f : Doc → Doc) (c : Nat) (s : List Slot) (hc : s.length ≠ c) :
    size env (updKey k f (obj c s)) = if (slotFind k s).isNone then s.length + 1 else s.length := by
  have hu : updKey k f (obj c s) = obj c (slotUpd k f s) := by simp [updKey, asObj, objExpand, hc]
  have hd : deref env (obj c (slotUpd k f s)) = obj c (slotUpd k f s) := deref_nonptr _ _ (by intro r; simp)
  simp only [size, hu, hd]
  cases hf : slotFind k s with
  | none => simp [length_slotUpd_absent k f s hf]
  | some v =>
    have hne : slotFind k s ≠ none := by simp [hf]
    simp [length_slotUpd_present k f s hne]

theorem size_after_key_full (env : Env) (k : Key) (f : Doc → Doc) (s : List Slot) :
    size env (updKey k f (obj s.length s)) =
      if (slotFind k s).isNone then liveCount s + 1 else liveCount s := by
  have hu : updKey k f (obj s.length s) =
      obj (allocCap (((if s.length = 0 then 1 else 0) + s.length) * 2)) (slotUpd k f (liveSlots s)) := by
    simp [updKey, asObj, objExpand]
  have hd : ∀ c', deref env (obj c' (slotUpd k f (liveSlots s))) = obj c' (slotUpd k f (liveSlots s)) :=
    fun c' => deref_nonptr _ _ (by intro r; simp)
  simp only [size, hu, hd]
  cases hf : slotFind k s with
  | none =>
    have h' : slotFind k (liveSlots s) = none := by simpa [slotFind_liveSlots] using hf
    simp [length_slotUpd_absent k f _ h', length_liveSlots]
  | some v =>
    have hne : slotFind k (liveSlots s) ≠ none := by simp [slotFind_liveSlots, hf]
    simp [length_slotUpd_present k f _ hne, length_liveSlots]

/-! ## indexed subscripts -/

/-- get-after-set by index, for every previous content (array, object, scalar). -/
theorem get_after_set_idx (i : Nat) (x d : Doc) :
    childIdx (updIdx i (fun _ => x) d) i = nonUndef x := by
  have happ : ∀ (l : List Doc) (n : Nat), (l ++ List.replicate n undef ++ [x])[l.length + n]? = some x := by
    intro l n
    rw [List.getElem?_append_right (by simp)]
    simp
  have hnil : (List.replicate i undef ++ [x])[i]? = some x := by
    have := happ [] i
    simpa using this
  cases d with
  | arr items =>
    by_cases h : i < items.length
    · simp [updIdx, h, childIdx, setAtIdx_get_same, List.getElem?_eq_getElem h]
    · obtain ⟨n, rfl⟩ : ∃ n, i = items.length + n := ⟨i - items.length, by omega⟩
      simp only [updIdx, h, if_false, childIdx, Nat.add_sub_cancel_left, happ]
  | obj c s =>
    simp only [updIdx]
    split
    · rename_i k v hs
      have hi : i < s.length := (List.getElem?_eq_some_iff.1 hs).1
      simp [childIdx, List.getElem?_set, hi]
    · simp only [childIdx, hnil]
  | _ => simp only [updIdx, childIdx, hnil]

/-- an indexed write into an array leaves the other elements alone. -/
theorem get_other_after_set_idx (i j : Nat) (f : Doc → Doc) (items : List Doc) (h : j ≠ i) (hj : j < items.length) :
    childIdx (updIdx i f (arr items)) j = childIdx (arr items) j := by
  by_cases hi : i < items.length
  · simp [updIdx, hi, childIdx, setAtIdx_get_other _ _ _ _ h]
  · simp [updIdx, hi, childIdx, List.getElem?_append_left, hj]

/-- `Size()` after an indexed subscript on an array: it grows to `index + 1`, filled with undefined. -/
theorem size_after_idx (env : Env) (i : Nat) (f : Doc → Doc) (items : List Doc) :
    size env (updIdx i f (arr items)) = max items.length (i + 1) := by
  by_cases hi : i < items.length
  · simp [updIdx, hi, size, deref, derefF, setAtIdx_length]; omega
  · simp [updIdx, hi, size, deref, derefF]; omega

/-- anything that is not a container becomes an array of `index + 1` elements. -/
theorem vivify_idx (i : Nat) (f : Doc → Doc) (d : Doc) (ho : d.isObj = false) (ha : d.isArr = false) :
    updIdx i f d = arr (List.replicate i undef ++ [f undef]) := by
  cases d <;> simp_all [updIdx, isObj, isArr]

/-! ## appends and merges -/

theorem append_to_array (x : Doc) (items : List Doc) : pushDoc x (arr items) = arr (items ++ [x]) := rfl

theorem append_vivifies (x d : Doc) (h : d.isArr = false) : pushDoc x d = arr [x] := by
  cases d <;> simp_all [pushDoc, asArr, isArr]

/-- `+= array`: a non-empty array is concatenated; an empty one becomes an element. -/
theorem append_array (x : Doc) (xs items : List Doc) :
    addArr (x :: xs) (arr items) = arr (items ++ x :: xs) ∧ addArr [] (arr items) = arr (items ++ [arr []]) := by
  simp [addArr, asArr, pushDoc]

/-- `Merge` of arrays appends the defined elements, in order (copies for the copying overload). -/
theorem merge_arrays (cp : Doc → Doc) (xs items : List Doc) :
    mergeInto cp (arr xs) (arr items) = arr (items ++ ((xs.filter (fun d => !d.isUndef)).map cp)) := by
  simp [mergeInto, mapDocs_eq_map, dropUndef_eq_filter]

theorem merge_into_undefined (cp : Doc → Doc) (xs : List Doc) :
    mergeInto cp (arr xs) undef = arr ((xs.filter (fun d => !d.isUndef)).map cp) := by
  simp [mergeInto, mapDocs_eq_map, dropUndef_eq_filter]

/-- for arrays the copying overload is the moving overload applied to a copy of the source (holes are not
members in either). -/
theorem merge_copy_eq_move_of_copy (xs : List Doc) (d : Doc) :
    mergeInto copyDoc (arr xs) d = mergeInto id (copyDoc (arr xs)) d := by
  have hf : ∀ l : List Doc, (l.filter (fun d => !d.isUndef)).map copyDoc = (l.map copyDoc).filter (fun d => !d.isUndef) := by
    intro l
    induction l with
    | nil => rfl
    | cons a t ih =>
      have ha : (copyDoc a).isUndef = a.isUndef := isUndef_copyDoc a
      by_cases h : a.isUndef = true <;> simp [List.filter_cons, ha, h, ih]
  cases d <;> simp [mergeInto, copyDoc, copyItems_eq_map, mapDocs_eq_map, dropUndef_eq_filter, hf]

/-- the fold of inserts that merges the live items of `src` into a table. -/
def mergeFold (cp : Doc → Doc) (src s : List Slot) : List Slot :=
  src.foldl (fun acc sl =>
      match sl with
      | some (k, v) => slotUpd k (fun _ => cp v) acc
      | none => acc) s

/-- object merge = fold of inserts (after the capacity step, which only drops removed slots). -/
theorem merge_is_fold (cp : Doc → Doc) (c : Nat) (s src : List Slot) :
    (objMerge cp c s src).2 = mergeFold cp src (if s.length + src.length > c then liveSlots s else s) := by
  unfold objMerge mergeFold
  split <;> rfl

/-- a key the source does not hold keeps its value … -/
theorem merge_keeps_other (cp : Doc → Doc) (k : Key) (src s : List Slot) (h : slotFind k src = none) :
    slotFind k (mergeFold cp src s) = slotFind k s := by
  induction src generalizing s with
  | nil => rfl
  | cons a t ih =>
    cases a with
    | none => simpa [mergeFold, slotFind] using ih s (by simpa [slotFind] using h)
    | some e =>
      obtain ⟨k2, v⟩ := e
      have h2 : k2 ≠ k := by intro he; simp [slotFind, he] at h
      have ht : slotFind k t = none := by simpa [slotFind, h2] using h
      have := ih (slotUpd k2 (fun _ => cp v) s) ht
      simp only [mergeFold, List.foldl_cons] at this ⊢
      rw [this, slotFind_slotUpd_other _ _ _ _ (Ne.symm h2)]

/-- … and a key of the source ends with the source's value (copied by the copying overload). -/
theorem merge_takes_source (cp : Doc → Doc) (k : Key) (v : Doc) (src s : List Slot) (hn : keysNodup src)
    (h : slotFind k src = some v) :
    slotFind k (mergeFold cp src s) = some (cp v) := by
  induction src generalizing s with
  | nil => simp [slotFind] at h
  | cons a t ih =>
    cases a with
    | none =>
      simpa [mergeFold, slotFind] using
        ih s (by simpa [keysNodup, keysOf, liveEntries] using hn) (by simpa [slotFind] using h)
    | some e =>
      obtain ⟨k2, v2⟩ := e
      have hn' : k2 ∉ keysOf t ∧ keysNodup t := by
        simpa [keysNodup, keysOf, liveEntries, List.nodup_cons] using hn
      by_cases he : k2 = k
      · subst he
        have hv : v2 = v := by simpa [slotFind] using h
        subst hv
        have ht : slotFind k2 t = none := (slotFind_none_iff _ _).2 hn'.1
        have := merge_keeps_other cp k2 t (slotUpd k2 (fun _ => cp v2) s) ht
        simp only [mergeFold, List.foldl_cons] at this ⊢
        rw [this, slotFind_slotUpd_same]
      · have ht : slotFind k t = some v := by simpa [slotFind, he] using h
        have := ih (slotUpd k2 (fun _ => cp v2) s) hn'.2 ht
        simpa [mergeFold] using this

/-- existing members keep their positions under a merge. -/
theorem merge_keeps_positions (cp : Doc → Doc) (src s : List Slot) :
    keysOf s <+: keysOf (mergeFold cp src s) := by
  induction src generalizing s with
  | nil => exact List.prefix_refl _
  | cons a t ih =>
    cases a with
    | none => simpa [mergeFold] using ih s
    | some e =>
      obtain ⟨k2, v2⟩ := e
      have h1 : keysOf s <+: keysOf (slotUpd k2 (fun _ => cp v2) s) := by
        by_cases hf : slotFind k2 s = none
        · simp [keysOf, liveEntries_slotUpd_absent _ _ _ hf]
        · rw [keysOf_slotUpd_present _ _ _ hf]; exact List.prefix_refl _
      exact List.IsPrefix.trans h1 (by simpa [mergeFold] using ih (slotUpd k2 (fun _ => cp v2) s))

/-! ## removals -/

/-- a removed key is not found … -/
theorem removed_key_not_found (k : Key) (c : Nat) (s : List Slot) (h : keysNodup s) :
    childKey (removeKey k (obj c s)) k = none := by
  simp [removeKey, childKey, slotFind_slotRemove_same k s h]

/-- … the other keys are unchanged … -/
theorem remove_keeps_other (k k' : Key) (c : Nat) (s : List Slot) (h : k' ≠ k) :
    childKey (removeKey k (obj c s)) k' = childKey (obj c s) k' := by
  simp [removeKey, childKey, slotFind_slotRemove_other k k' s h]

/-- … the remaining members keep their order, and the slot count (`Size()`) does not change. -/
theorem remove_keeps_order (k : Key) (c : Nat) (s : List Slot) :
    ∃ s', removeKey k (obj c s) = obj c s' ∧ s'.length = s.length ∧
      liveEntries s' = (liveEntries s).eraseP (fun e => e.1 = k) :=
  ⟨_, rfl, length_slotRemove k s, liveEntries_slotRemove k s⟩

/-- `RemoveIndex` on an array leaves an undefined element in place. -/
theorem remove_index_array (i : Nat) (items : List Doc) (h : i < items.length) :
    ∃ items', removeIdx i (arr items) = arr items' ∧ items'.length = items.length ∧
      items'[i]? = some undef ∧ ∀ j, j ≠ i → items'[j]? = items[j]? := by
  refine ⟨setAtIdx i (fun _ => undef) items, by simp [removeIdx, h], setAtIdx_length _ _ _, ?_, ?_⟩
  · simp [setAtIdx_get_same, List.getElem?_eq_getElem h]
  · intro j hj; exact setAtIdx_get_other _ _ _ _ hj

/-! ## compress -/

/-- `Compress` keeps the live members of an object in order (compressing their values) and leaves no
removed slot. -/
theorem compress_object (c : Nat) (s : List Slot) :
    ∃ c' s', compress (obj c s) = obj c' s' ∧ noTombstones s' = true ∧
      liveEntries s' = (liveEntries s).map (fun e => (e.1, compress e.2)) := by
  exact ⟨_, compressSlots s, by rw [compress], noTombstones_compressSlots s, liveEntries_compressSlots s⟩

/-- `Compress` keeps the defined elements of an array in order. -/
theorem compress_array (items : List Doc) :
    compress (arr items) = arr ((items.filter (fun d => !d.isUndef)).map compress) := by
  simp [compress, compressItems_eq, dropUndef_eq_filter]

/-! ## copy and move over the forest -/

/-- a copied object holds the source's live members, in order, as copies, and no removed slot. -/
theorem copy_object (c : Nat) (s : List Slot) :
    ∃ c' s', copyDoc (obj c s) = obj c' s' ∧ noTombstones s' = true ∧
      liveEntries s' = (liveEntries s).map (fun e => (e.1, copyDoc e.2)) := by
  exact ⟨_, copySlots s, by rw [copyDoc], noTombstones_copySlots s, liveEntries_copySlots s⟩

theorem copy_array (items : List Doc) : copyDoc (arr items) = arr (items.map copyDoc) := by
  simp [copyDoc, copyItems_eq_map]

/-- copy independence over whole sequences: operations that never write root `q` leave it as it was. -/
theorem run_frame (fmtReal : Nat → List Nat) (ops : List Op) (env : Env) (q : Nat)
    (h : ∀ op ∈ ops, q ∉ touched op) :
    envGet (runFinal fmtReal ops env) q = envGet env q := by
  induction ops generalizing env with
  | nil => rfl
  | cons op rest ih =>
    simp only [runFinal]
    rw [ih _ (fun o ho => h o (List.mem_cons_of_mem _ ho)), step_frame _ _ _ _ (h op List.mem_cons_self)]

/-- root-to-root move: the target is exactly what the source was, the moved-from source is Undefined. -/
theorem move_root (fmtReal : Nat → List Nat) (env : Env) (a b : Nat) (hab : a ≠ b)
    (ha : a < env.length) (hb : b < env.length) :
    let env' := (step fmtReal (Op.move ⟨a, []⟩ ⟨b, []⟩) env).1
    envGet env' a = envGet env b ∧ envGet env' b = undef := by
  simp [step, source, hab, getAt, onTarget, clearSource, updPath, modAt, envGet, envSet, List.getElem?_set, ha, hb,
    Ne.symm hab]

/-- root-to-root copy: the target is a copy, the source is untouched. -/
theorem copy_root (fmtReal : Nat → List Nat) (env : Env) (a b : Nat) (hab : a ≠ b) (ha : a < env.length) :
    let env' := (step fmtReal (Op.copy ⟨a, []⟩ ⟨b, []⟩) env).1
    envGet env' a = copyDoc (envGet env b) ∧ envGet env' b = envGet env b := by
  simp [step, source, hab, getAt, onTarget, updPath, envGet, envSet, List.getElem?_set, ha, Ne.symm hab]

/-! ## copy and move between nested locations

The operands of a two-operand operation live in different roots: `source` yields nothing when
`t.root = s.root` (`aliasing_excluded`), which is the precondition the harness checks before calling the
real code and the generator respects (self copy/move assignment of a whole root is the guarded no-op of
Value.hpp).  Source inside destination / destination inside source (`v = v[k]`, `v[k] = v`) is therefore
excluded, not proved. -/

/-- get-after-set at any path: a chain of subscripts followed by an assignment is read back by the same
chain of `GetValue` calls, whatever the target held. -/
theorem get_after_set_path (fmtReal : Nat → List Nat) (env : Env) (t : Loc) (y : Doc) (hy : y.isUndef = false)
    (ht : t.root < env.length) :
    getAt (envGet (step fmtReal (Op.assign t y) env).1 t.root) t.path = some y := by
  simp only [step, onTarget, envGet_envSet_same _ _ _ ht]
  exact getAt_updPath t.path y hy _

/-- **get-after-copy at any path**: the target location (reached through vivifying subscripts) reads a
copy of the source member (found through `GetValue` calls), and the source root is unchanged. -/
theorem copy_nested (fmtReal : Nat → List Nat) (env : Env) (t s : Loc) (x : Doc) (hts : t.root ≠ s.root)
    (ht : t.root < env.length) (hx : getAt (envGet env s.root) s.path = some x) (hd : x.isUndef = false) :
    let env' := (step fmtReal (Op.copy t s) env).1
    getAt (envGet env' t.root) t.path = some (copyDoc x) ∧ envGet env' s.root = envGet env s.root := by
  have hsrc : source env t s = some x := by simp [source, hts, hx]
  simp only [step, hsrc, onTarget]
  refine ⟨?_, envGet_envSet_other _ _ _ _ (Ne.symm hts)⟩
  rw [envGet_envSet_same _ _ _ ht]
  exact getAt_updPath t.path _ (by simp [isUndef_copyDoc, hd]) _

/-- **get-after-move at any path**: the target reads exactly the source member; the moved-from member is
Undefined (a moved-from root) or no longer found along its path (a nested member). -/
theorem move_nested (fmtReal : Nat → List Nat) (env : Env) (t s : Loc) (x : Doc) (hts : t.root ≠ s.root)
    (ht : t.root < env.length) (hs : s.root < env.length)
    (hx : getAt (envGet env s.root) s.path = some x) (hd : x.isUndef = false) :
    let env' := (step fmtReal (Op.move t s) env).1
    getAt (envGet env' t.root) t.path = some x ∧
    (s.path = [] → envGet env' s.root = undef) ∧
    (s.path ≠ [] → getAt (envGet env' s.root) s.path = none) := by
  have hsrc : source env t s = some x := by simp [source, hts, hx]
  have hlen : t.root < (clearSource env s).length := by simpa [clearSource, envSet] using ht
  simp only [step, hsrc, onTarget]
  refine ⟨?_, ?_, ?_⟩
  · rw [envGet_envSet_same _ _ _ hlen]
    exact getAt_updPath t.path x hd _
  · intro hp
    rw [envGet_envSet_other _ _ _ _ (Ne.symm hts)]
    simp [clearSource, envGet_envSet_same _ _ _ hs, hp, modAt]
  · intro hp
    rw [envGet_envSet_other _ _ _ _ (Ne.symm hts)]
    simp only [clearSource, envGet_envSet_same _ _ _ hs]
    exact getAt_modAt_undef s.path hp _ x hx

/-- **independence for arbitrary paths**: after a copy, whatever is done to roots other than the source's
(in particular any mutation of the copy) leaves the source member as it was … -/
theorem copy_source_independent (fmtReal : Nat → List Nat) (env : Env) (t s : Loc) (x : Doc) (ops : List Op)
    (hx : getAt (envGet env s.root) s.path = some x) (hops : ∀ op ∈ ops, s.root ∉ touched op) :
    getAt (envGet (runFinal fmtReal ops (step fmtReal (Op.copy t s) env).1) s.root) s.path = some x := by
  rw [run_frame fmtReal ops _ s.root hops]
  by_cases hts : t.root = s.root
  · simp [step, source, hts, hx]
  · have : envGet (step fmtReal (Op.copy t s) env).1 s.root = envGet env s.root :=
      step_frame fmtReal _ env s.root (by simp [touched]; exact fun h => hts h.symm)
    rw [this, hx]

/-- … and whatever is done to roots other than the copy's (in particular any mutation of the source)
leaves the copy as it was. -/
theorem copy_target_independent (fmtReal : Nat → List Nat) (env : Env) (t s : Loc) (x : Doc) (ops : List Op)
    (hts : t.root ≠ s.root) (ht : t.root < env.length)
    (hx : getAt (envGet env s.root) s.path = some x) (hd : x.isUndef = false)
    (hops : ∀ op ∈ ops, t.root ∉ touched op) :
    getAt (envGet (runFinal fmtReal ops (step fmtReal (Op.copy t s) env).1) t.root) t.path = some (copyDoc x) := by
  rw [run_frame fmtReal ops _ t.root hops]
  exact (copy_nested fmtReal env t s x hts ht hx hd).1

/-- the aliasing precondition: two-operand operations between locations of the same root are not
performed (the forest is unchanged). -/
theorem aliasing_excluded (fmtReal : Nat → List Nat) (env : Env) (t s : Loc) (k : Key) (h : t.root = s.root) :
    (step fmtReal (Op.copy t s) env).1 = env ∧ (step fmtReal (Op.move t s) env).1 = env ∧
    (step fmtReal (Op.appendMove t s) env).1 = env ∧ (step fmtReal (Op.appendCopy t s) env).1 = env ∧
    (step fmtReal (Op.mergeMove t s) env).1 = env ∧ (step fmtReal (Op.mergeCopy t s) env).1 = env ∧
    (step fmtReal (Op.insertMove t k s) env).1 = env ∧ (step fmtReal (Op.assignObj t s) env).1 = env ∧
    (step fmtReal (Op.assignArr t s) env).1 = env ∧ (step fmtReal (Op.appendObj t s) env).1 = env ∧
    (step fmtReal (Op.appendArr t s) env).1 = env := by
  simp [step, source, h]

/-- **container overloads have value semantics under aliasing**: assigning to a root, through the `const&`
overload, a container owned by one of its own descendants (`doc = *doc["items"].GetArray()`) leaves the root equal
to a copy of that container as it was — for every kind the root had before. -/
theorem container_assign_from_own_member (fmtReal : Nat → List Nat) (env : Env) (r : Nat) (q : List Sel) (x : Doc)
    (kind : Nat) (hr : r < env.length) (hx : getAt (envGet env r) q = some x) (hk : isContainerKind kind x = true) :
    envGet (step fmtReal (Op.container ⟨r, []⟩ ⟨r, q⟩ kind false false) env).1 r = copyDoc x := by
  have hset : envSet env r (envGet env r) = env := by
    simp only [envSet, envGet, List.getElem?_eq_getElem hr]
    exact List.set_getElem_self hr
  simp [step, onTarget, updPath, hset, hx, hk, refUpd, envGet_envSet_same _ _ _ hr]

/-! ## the invariant of every reachable state -/

/-- **every forest an operation sequence reaches from undefined roots is well formed**: in every object,
at every depth, the live keys are pairwise distinct (so `removed_key_not_found` and C18's `GoodItem`
hypothesis `keysNodup` hold for every object the API can build). -/
theorem reachable_WF (fmtReal : Nat → List Nat) (n : Nat) (ops : List Op) (hp : ∀ op ∈ ops, op.payloadWF) :
    EnvWF (runFinal fmtReal ops (List.replicate n undef)) :=
  run_WF fmtReal ops _ (EnvWF_replicate_undef n) hp

/-- instance: in a reachable forest a removed key is not found in any object a `GetValue` chain reaches. -/
theorem reachable_removed_key_not_found (fmtReal : Nat → List Nat) (n : Nat) (ops : List Op)
    (hp : ∀ op ∈ ops, op.payloadWF) (r : Nat) (p : List Sel) (c : Nat) (s : List Slot) (k : Key)
    (h : getAt (envGet (runFinal fmtReal ops (List.replicate n undef)) r) p = some (obj c s)) :
    childKey (removeKey k (obj c s)) k = none :=
  removed_key_not_found k c s ((WF_obj c s).1 (WF_getAt p _ _ (reachable_WF fmtReal n ops hp r) h)).1

/-! ## typed getters and coercions (`strToNum` is arbitrary: it is only consulted for strings) -/

theorem number_of_nat (strToNum : List Nat → Num) (env : Env) (n : Nat) :
    setNumber strToNum env (nat n) = Num.nat n ∧ getUInt64 strToNum env (nat n) = some n ∧
    getInt64 strToNum env (nat n) = some (u64ToInt n) ∧ getDouble strToNum env (nat n) = natToReal n := by
  simp [setNumber, getUInt64, getInt64, getDouble, deref, derefF]

theorem number_of_int (strToNum : List Nat → Num) (env : Env) (i : Int) :
    setNumber strToNum env (int i) = Num.int i ∧ getInt64 strToNum env (int i) = some i ∧
    getUInt64 strToNum env (int i) = some (intToU64 i) ∧ getDouble strToNum env (int i) = intToReal i := by
  simp [setNumber, getUInt64, getInt64, getDouble, deref, derefF]

theorem number_of_real (strToNum : List Nat → Num) (env : Env) (b : Nat) :
    setNumber strToNum env (real b) = Num.real b ∧ getDouble strToNum env (real b) = b := by
  simp [setNumber, getDouble, deref, derefF]

theorem number_of_keywords (strToNum : List Nat → Num) (env : Env) :
    setNumber strToNum env tru = Num.nat 1 ∧ setNumber strToNum env fls = Num.nat 0 ∧
    setNumber strToNum env null = Num.nat 0 ∧ setNumber strToNum env undef = Num.nan ∧
    getUInt64 strToNum env tru = some 1 ∧ getInt64 strToNum env fls = some 0 ∧ getDouble strToNum env null = 0 ∧
    getDouble strToNum env tru = natToReal 1 := by
  simp [setNumber, getUInt64, getInt64, getDouble, deref, derefF, u64ToInt, two63, natToReal]

theorem bool_of_scalars (env : Env) (n : Nat) (i : Int) :
    setBool env tru = some true ∧ setBool env fls = some false ∧ setBool env null = some false ∧
    setBool env (nat n) = some (decide (n > 0)) ∧ setBool env (int i) = some (decide (i > 0)) ∧
    setBool env (str trueText) = some true ∧ setBool env (str falseText) = some false ∧ setBool env undef = none := by
  simp [setBool, deref, derefF, trueText, falseText]

/-- small integers convert to reals exactly (a test of `natToReal` on samples, by evaluation). -/
example : natToReal 1 = 0x3ff0000000000000 ∧ natToReal 3 = 0x4008000000000000 ∧
    natToReal (2 ^ 53 + 1) = 0x4340000000000000 ∧ natToReal (2 ^ 64 - 1) = 0x43f0000000000000 := by decide

/-! ## positional access -/

/-- while an object holds no removed entries, slot `i` is its `i`-th member (`GetKey`, `GetValue`,
`SetValueAndKey`). -/
theorem slot_is_kth_member (env : Env) (c : Nat) (s : List Slot) (h : noTombstones s = true) (i : Nat) :
    getKey env (obj c s) i = ((liveEntries s)[i]?).map (·.1) ∧
    getValueIdx env (obj c s) i = ((liveEntries s)[i]?).bind (fun e => nonUndef e.2) := by
  have hd : deref env (obj c s) = obj c s := deref_nonptr _ _ (by intro r; simp)
  simp only [getKey, getValueIdx, childIdx, hd, slot_get_of_noTombstones s h i]
  cases (liveEntries s)[i]? with
  | none => simp
  | some e => obtain ⟨k, v⟩ := e; simp

/-- `Size()` of an object without removed entries is its number of members. -/
theorem size_is_member_count (env : Env) (c : Nat) (s : List Slot) (h : noTombstones s = true) :
    size env (obj c s) = (liveEntries s).length := by
  have hd : deref env (obj c s) = obj c s := deref_nonptr _ _ (by intro r; simp)
  simp only [size, hd]
  rw [← liveCount_eq, ← length_liveSlots, liveSlots_of_noTombstones s h]

/-! ## non-vacuity -/

example : childKey (updKey [98] (fun _ => nat 7) (obj 2 [some ([97], nat 1), none])) [98] = some (nat 7) := by
  simp [get_after_set_key, nonUndef, isUndef]

example : keysNodup [some ([97], nat 1), none, some ([98], undef)] := by
  simp [keysNodup, keysOf, liveEntries]

example : noTombstones [some ([97], nat 1), some ([98], undef)] = true := by simp [noTombstones]

end Qentem.Props.C12
