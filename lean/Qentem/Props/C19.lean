import Qentem.Model.BigInt
/-! C19 — BigInt holds the exact mathematical integer after every operation that fits. -/
namespace Qentem.Props.C19
open Qentem.BigInt

end Qentem.Props.C19
