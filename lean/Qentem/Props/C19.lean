import Qentem.Proofs.BigIntPred
import Qentem.Proofs.BigIntDiv
import Qentem.Proofs.BigIntHelpers
import Qentem.Proofs.BigIntShl
import Qentem.Proofs.BigIntScan
import Qentem.Proofs.BigIntWide
import Qentem.Proofs.BigIntWideOps
import Qentem.Proofs.BigIntDivHand
import Qentem.Proofs.BigIntCopy
import Qentem.Proofs.BigIntSurface
/-! C19 — BigInt holds the exact mathematical integer after every operation that fits.

`Inv W s` (Proofs/BigIntBasic) is the representation invariant: n ≥ 1 words below 2^W, the words above
`index_` are zero, `index_` is the highest non-zero word (0 for zero).  `specStep W n a op` (Model) is
the exact-integer meaning of an operation on the held value `a` (`none` = the exact result does not fit
n·W bits or the operation's precondition fails).  `step` runs the checked model: `.ok` means that no
`storage_[i]` access was out of range. -/
namespace Qentem.Props.C19
open Qentem.BigInt

/-- One operation is exact, in bounds and invariant-preserving whenever the specification is defined. -/
def StepExact (c : Cfg) (op : Op) : Prop :=
  ∀ (s : Big) (a' : Nat) (r : Ret), Inv c.W s →
    specStep c.W s.words.length (s.val c.W) op = some (a', r) →
    ∃ s', step c s op = .ok (s', r) ∧ Inv c.W s' ∧ s'.words.length = s.words.length ∧ s'.val c.W = a'

/-- The exact-integer meaning of an operation sequence. -/
def specRun (W n : Nat) : Nat → List Op → Option (Nat × List Ret)
  | a, [] => some (a, [])
  | a, o :: os =>
    match specStep W n a o with
    | none => none
    | some (a1, r) =>
      match specRun W n a1 os with
      | none => none
      | some (a2, rs) => some (a2, r :: rs)

/-- A configuration the C++ can instantiate: at least one bit per word; the half-word helper needs an
even word width. -/
def GoodCfg (c : Cfg) : Prop := 0 < c.W ∧ (c.hand = true → c.W % 2 = 0)

/-- An operand / target type of `K` bits that exists next to `W`-bit words: not wider than a word, or a
whole number (≥ 2) of words — `(sizeof(N_Number_T) * 8) / TypeWidth() > 1` in the C++. -/
def TypeOK (W K : Nat) : Prop := K ≤ W ∨ (W ∣ K ∧ K / W > 1)

/-- The operation's operand/target type is realisable for `W`-bit words. -/
def Typed (W : Nat) : Op → Prop
  | .assign K _ => TypeOK W K
  | .bop _ K _ => TypeOK W K
  | .narrow K => TypeOK W K
  | .construct K _ => TypeOK W K
  | _ => True

/-- **C19, full strength** (statement; proved below as `C19`): every operation of every configuration
is exact. -/
def C19_full : Prop := ∀ c : Cfg, GoodCfg c → ∀ op : Op, Typed c.W op → StepExact c op

theorem pow_comm' (W n : Nat) : 2 ^ (n * W) = 2 ^ (W * n) := by rw [Nat.mul_comm]

/-- Every operation is exact, never leaves the storage and re-establishes the invariant — given that
the configuration's double-word helpers are exact. -/
theorem step_exact (c : Cfg) (hm : MulOK c) (hd : DivOK c) (op : Op) (hc : Typed c.W op) :
    StepExact c op := by
  intro s a' r h hspec
  cases op with
  | assign K x =>
    simp only [specStep] at hspec
    split at hspec
    · rename_i hx
      simp only [Option.some.injEq, Prod.mk.injEq] at hspec
      obtain ⟨rfl, rfl⟩ := hspec
      rcases hc with hc | ⟨hc1, hc2⟩
      · obtain ⟨s', hrun, hinv, hl, hv⟩ := assign_small_spec s x h hc hx.1
        exact ⟨s', by simp [step, hrun, bind, Except.bind, pure, Except.pure], hinv, hl, hv⟩
      · obtain ⟨s', hrun, hinv, hl, hv⟩ := assign_wide_spec s x h hc1 hc2 hx.1 (by rw [← pow_comm']; exact hx.2)
        exact ⟨s', by simp [step, hrun, bind, Except.bind, pure, Except.pure], hinv, hl, hv⟩
    · exact absurd hspec (by simp)
  | bop o K x =>
    simp only [specStep] at hspec
    split at hspec
    · rename_i hx
      cases o with
      | add =>
        simp only [] at hspec
        split at hspec
        · rename_i hfit
          simp only [Option.some.injEq, Prod.mk.injEq] at hspec
          obtain ⟨rfl, rfl⟩ := hspec
          rcases hc with hc | ⟨hc1, hc2⟩
          · obtain ⟨s', hrun, hinv, hl, hv⟩ := add_small_spec s x h hc hx (by rw [← pow_comm']; exact hfit)
            exact ⟨s', by simp [step, hrun, bind, Except.bind, pure, Except.pure], hinv, hl, hv⟩
          · obtain ⟨s', hrun, hinv, hl, hv⟩ := add_wide_spec s x h hc1 hc2 hx (by rw [← pow_comm']; exact hfit)
            exact ⟨s', by simp [step, hrun, bind, Except.bind, pure, Except.pure], hinv, hl, hv⟩
        · exact absurd hspec (by simp)
      | sub =>
        simp only [] at hspec
        split at hspec
        · rename_i hfit
          simp only [Option.some.injEq, Prod.mk.injEq] at hspec
          obtain ⟨rfl, rfl⟩ := hspec
          rcases hc with hc | ⟨hc1, hc2⟩
          · obtain ⟨s', hrun, hinv, hl, hv⟩ := sub_small_spec s x h hc hx hfit
            exact ⟨s', by simp [step, hrun, bind, Except.bind, pure, Except.pure], hinv, hl, hv⟩
          · obtain ⟨s', hrun, hinv, hl, hv⟩ := sub_wide_spec s x h hc1 hc2 hx hfit
            exact ⟨s', by simp [step, hrun, bind, Except.bind, pure, Except.pure], hinv, hl, hv⟩
        · exact absurd hspec (by simp)
      | or =>
        simp only [] at hspec
        split at hspec
        · rename_i hfit
          simp only [Option.some.injEq, Prod.mk.injEq] at hspec
          obtain ⟨rfl, rfl⟩ := hspec
          rcases hc with hc | ⟨hc1, hc2⟩
          · obtain ⟨s', hrun, hinv, hl, hv⟩ := or_small_spec s x h hc hx
            exact ⟨s', by simp [step, hrun, bind, Except.bind, pure, Except.pure], hinv, hl, hv⟩
          · obtain ⟨s', hrun, hinv, hl, hv⟩ := or_wide_spec s x h hc1 hc2 hx (by rw [← pow_comm']; exact hfit)
            exact ⟨s', by simp [step, hrun, bind, Except.bind, pure, Except.pure], hinv, hl, hv⟩
        · exact absurd hspec (by simp)
      | and =>
        simp only [] at hspec
        split at hspec
        · rename_i hfit
          simp only [Option.some.injEq, Prod.mk.injEq] at hspec
          obtain ⟨rfl, rfl⟩ := hspec
          rcases hc with hc | ⟨hc1, hc2⟩
          · obtain ⟨s', hrun, hinv, hl, hv⟩ := and_small_spec s x h hc hx
            exact ⟨s', by simp [step, hrun, bind, Except.bind, pure, Except.pure], hinv, hl, hv⟩
          · obtain ⟨s', hrun, hinv, hl, hv⟩ := and_wide_spec s x h hc1 hc2 hx (by rw [← pow_comm']; exact hfit)
            exact ⟨s', by simp [step, hrun, bind, Except.bind, pure, Except.pure], hinv, hl, hv⟩
        · exact absurd hspec (by simp)
      | set => exact absurd hspec (by simp)
    · exact absurd hspec (by simp)
  | mul x =>
    simp only [specStep] at hspec
    split at hspec
    · rename_i hx
      simp only [Option.some.injEq, Prod.mk.injEq] at hspec
      obtain ⟨rfl, rfl⟩ := hspec
      obtain ⟨s', hrun, hinv, hl, hv⟩ := multiply_spec hm s x h hx.1 (by rw [← pow_comm']; exact hx.2)
      exact ⟨s', by simp [step, hrun, bind, Except.bind, pure, Except.pure], hinv, hl, hv⟩
    · exact absurd hspec (by simp)
  | div d =>
    simp only [specStep] at hspec
    split at hspec
    · rename_i hx
      simp only [Option.some.injEq, Prod.mk.injEq] at hspec
      obtain ⟨rfl, rfl⟩ := hspec
      obtain ⟨s', r', hrun, hinv, hl, hv, hr⟩ := divide_spec hd s d h hx.1 hx.2
      have hdm := (Nat.div_mod_unique hx.1).2 ⟨(by rw [Nat.add_comm]; exact hv.symm : r' + d * s'.val c.W = s.val c.W), hr⟩
      refine ⟨s', ?_, hinv, hl, hdm.1.symm⟩
      simp [step, hrun, bind, Except.bind, pure, Except.pure, hdm.2]
    · exact absurd hspec (by simp)
  | shl k =>
    simp only [specStep] at hspec
    split at hspec
    · rename_i hfit
      simp only [Option.some.injEq, Prod.mk.injEq] at hspec
      obtain ⟨rfl, rfl⟩ := hspec
      obtain ⟨s', hrun, hinv, hl, hv⟩ := shiftLeft_spec s k h (by rw [← pow_comm']; exact hfit)
      exact ⟨s', by simp [step, hrun, bind, Except.bind, pure, Except.pure], hinv, hl, hv⟩
    · exact absurd hspec (by simp)
  | shr k =>
    simp only [specStep, Option.some.injEq, Prod.mk.injEq] at hspec
    obtain ⟨rfl, rfl⟩ := hspec
    obtain ⟨s', hrun, hinv, hl, hv⟩ := shiftRight_spec s k h
    exact ⟨s', by simp [step, hrun, bind, Except.bind, pure, Except.pure], hinv, hl, hv⟩
  | ffb =>
    simp only [specStep] at hspec
    split at hspec
    · rename_i hx
      simp only [Option.some.injEq, Prod.mk.injEq] at hspec
      obtain ⟨rfl, rfl⟩ := hspec
      exact ⟨s, by simp [step, findFirstBit_spec s h hx, bind, Except.bind, pure, Except.pure], h, rfl, rfl⟩
    · exact absurd hspec (by simp)
  | cmp rel x =>
    simp only [specStep] at hspec
    split at hspec
    · rename_i hx
      simp only [Option.some.injEq, Prod.mk.injEq] at hspec
      obtain ⟨rfl, rfl⟩ := hspec
      exact ⟨s, by simp [step, cmpWord_spec s rel x h hx, bind, Except.bind, pure, Except.pure], h, rfl, rfl⟩
    · exact absurd hspec (by simp)
  | rcmp rel x =>
    simp only [specStep] at hspec
    split at hspec
    · rename_i hx
      simp only [Option.some.injEq, Prod.mk.injEq] at hspec
      obtain ⟨rfl, rfl⟩ := hspec
      exact ⟨s, by simp [step, rcmpWord_spec s rel x h hx, bind, Except.bind, pure, Except.pure], h, rfl, rfl⟩
    · exact absurd hspec (by simp)
  | isBig =>
    simp only [specStep, Option.some.injEq, Prod.mk.injEq] at hspec
    obtain ⟨rfl, rfl⟩ := hspec
    exact ⟨s, by simp [step, isBig_spec s h, pure, Except.pure], h, rfl, rfl⟩
  | notZero =>
    simp only [specStep, Option.some.injEq, Prod.mk.injEq] at hspec
    obtain ⟨rfl, rfl⟩ := hspec
    refine ⟨s, ?_, h, rfl, rfl⟩
    simp [step, notZero, cmpWord_spec s .ne 0 h (Nat.pow_pos (by decide)), bind, Except.bind, pure, Except.pure, cmpSpec]
  | isZero =>
    simp only [specStep, Option.some.injEq, Prod.mk.injEq] at hspec
    obtain ⟨rfl, rfl⟩ := hspec
    refine ⟨s, ?_, h, rfl, rfl⟩
    simp [step, isZero, cmpWord_spec s .eq 0 h (Nat.pow_pos (by decide)), bind, Except.bind, pure, Except.pure, cmpSpec]
  | number =>
    simp only [specStep, Option.some.injEq, Prod.mk.injEq] at hspec
    obtain ⟨rfl, rfl⟩ := hspec
    exact ⟨s, by simp [step, number_spec s h, bind, Except.bind, pure, Except.pure], h, rfl, rfl⟩
  | narrow K =>
    simp only [specStep, Option.some.injEq, Prod.mk.injEq] at hspec
    obtain ⟨rfl, rfl⟩ := hspec
    rcases hc with hc | ⟨hc1, hc2⟩
    · exact ⟨s, by simp [step, narrow_small_spec s h hc, bind, Except.bind, pure, Except.pure], h, rfl, rfl⟩
    · exact ⟨s, by simp [step, narrow_wide_spec s h hc1 hc2, bind, Except.bind, pure, Except.pure], h, rfl, rfl⟩
  | flb =>
    simp only [specStep] at hspec
    split at hspec
    · rename_i hx
      simp only [Option.some.injEq, Prod.mk.injEq] at hspec
      obtain ⟨rfl, rfl⟩ := hspec
      exact ⟨s, by simp [step, findLastBit_spec s h hx, bind, Except.bind, pure, Except.pure], h, rfl, rfl⟩
    · exact absurd hspec (by simp)
  | clear =>
    simp only [specStep, Option.some.injEq, Prod.mk.injEq] at hspec
    obtain ⟨rfl, rfl⟩ := hspec
    obtain ⟨s', hrun, hinv, hl, hv⟩ := clear_spec (W := c.W) s h
    exact ⟨s', by simp [step, hrun, bind, Except.bind, pure, Except.pure], hinv, hl, hv⟩
  | construct K x =>
    simp only [specStep] at hspec
    split at hspec
    · rename_i hx
      simp only [Option.some.injEq, Prod.mk.injEq] at hspec
      obtain ⟨rfl, rfl⟩ := hspec
      have hn : 0 < s.words.length := Nat.lt_of_le_of_lt (Nat.zero_le _) h.idx_lt
      have hz : Inv c.W (zero s.words.length) := inv_zero h.wpos hn
      have hlz : (zero s.words.length).words.length = s.words.length := by simp [zero]
      rcases hc with hc | ⟨hc1, hc2⟩
      · obtain ⟨s', hrun, hinv, hl, hv⟩ := assign_small_spec (zero s.words.length) x hz hc hx.1
        rw [assign_zero_eq] at hrun
        exact ⟨s', by simp [step, hrun, bind, Except.bind, pure, Except.pure], hinv, by omega, hv⟩
      · obtain ⟨s', hrun, hinv, hl, hv⟩ := assign_wide_spec (zero s.words.length) x hz hc1 hc2 hx.1
          (by rw [hlz, ← pow_comm']; exact hx.2)
        rw [assign_zero_eq] at hrun
        exact ⟨s', by simp [step, hrun, bind, Except.bind, pure, Except.pure], hinv, by omega, hv⟩
    · exact absurd hspec (by simp)
  | addAt x i =>
    simp only [specStep] at hspec
    split at hspec
    · rename_i hx
      simp only [Option.some.injEq, Prod.mk.injEq] at hspec
      obtain ⟨rfl, rfl⟩ := hspec
      obtain ⟨s', hrun, hinv, hl, hv⟩ := addAt_spec s x i h hx.1 (by
        have := hx.2; rwa [Nat.mul_comm s.words.length c.W] at this)
      exact ⟨s', by simp [step, hrun, bind, Except.bind, pure, Except.pure], hinv, hl, hv⟩
    · exact absurd hspec (by simp)
  | subAt x i =>
    simp only [specStep] at hspec
    split at hspec
    · rename_i hx
      simp only [Option.some.injEq, Prod.mk.injEq] at hspec
      obtain ⟨rfl, rfl⟩ := hspec
      obtain ⟨s', hrun, hinv, hl, hv⟩ := subAt_spec s x i h hx.1 hx.2
      exact ⟨s', by simp [step, hrun, bind, Except.bind, pure, Except.pure], hinv, hl, hv⟩
    · exact absurd hspec (by simp)
  | divq d =>
    simp only [specStep] at hspec
    split at hspec
    · rename_i hx
      simp only [Option.some.injEq, Prod.mk.injEq] at hspec
      obtain ⟨rfl, rfl⟩ := hspec
      obtain ⟨s', r', hrun, hinv, hl, hv, hr⟩ := divide_spec hd s d h hx.1 hx.2
      have hdm := (Nat.div_mod_unique hx.1).2 ⟨(by rw [Nat.add_comm]; exact hv.symm : r' + d * s'.val c.W = s.val c.W), hr⟩
      exact ⟨s', by simp [step, hrun, bind, Except.bind, pure, Except.pure], hinv, hl, hdm.1.symm⟩
    · exact absurd hspec (by simp)
  | self k =>
    have hB : 0 < 2 ^ c.W := Nat.pow_pos (by decide)
    have hw : s.val c.W % 2 ^ c.W < 2 ^ c.W := Nat.mod_lt _ hB
    have hnum := number_spec s h
    cases k with
    | add =>
      simp only [specStep] at hspec
      split at hspec
      · rename_i hfit
        simp only [Option.some.injEq, Prod.mk.injEq] at hspec
        obtain ⟨rfl, rfl⟩ := hspec
        obtain ⟨s', hrun, hinv, hl, hv⟩ := add_small_spec s _ h (Nat.le_refl c.W) hw (by rw [← pow_comm']; exact hfit)
        exact ⟨s', by simp [step, hnum, hrun, bind, Except.bind, pure, Except.pure], hinv, hl, hv⟩
      · exact absurd hspec (by simp)
    | sub =>
      simp only [specStep, Option.some.injEq, Prod.mk.injEq] at hspec
      obtain ⟨rfl, rfl⟩ := hspec
      obtain ⟨s', hrun, hinv, hl, hv⟩ := sub_small_spec s _ h (Nat.le_refl c.W) hw (Nat.mod_le _ _)
      exact ⟨s', by simp [step, hnum, hrun, bind, Except.bind, pure, Except.pure], hinv, hl, hv⟩
    | or =>
      simp only [specStep, Option.some.injEq, Prod.mk.injEq] at hspec
      obtain ⟨rfl, rfl⟩ := hspec
      obtain ⟨s', hrun, hinv, hl, hv⟩ := or_small_spec s _ h (Nat.le_refl c.W) hw
      exact ⟨s', by simp [step, hnum, hrun, bind, Except.bind, pure, Except.pure], hinv, hl, hv⟩
    | and =>
      simp only [specStep, Option.some.injEq, Prod.mk.injEq] at hspec
      obtain ⟨rfl, rfl⟩ := hspec
      obtain ⟨s', hrun, hinv, hl, hv⟩ := and_small_spec s _ h (Nat.le_refl c.W) hw
      exact ⟨s', by simp [step, hnum, hrun, bind, Except.bind, pure, Except.pure], hinv, hl, hv⟩
    | mul =>
      simp only [specStep] at hspec
      split at hspec
      · rename_i hfit
        simp only [Option.some.injEq, Prod.mk.injEq] at hspec
        obtain ⟨rfl, rfl⟩ := hspec
        obtain ⟨s', hrun, hinv, hl, hv⟩ := multiply_spec hm s _ h hw (by rw [← pow_comm']; exact hfit)
        exact ⟨s', by simp [step, hnum, hrun, bind, Except.bind, pure, Except.pure], hinv, hl, hv⟩
      · exact absurd hspec (by simp)
    | div =>
      simp only [specStep] at hspec
      split at hspec
      · rename_i hpos
        simp only [Option.some.injEq, Prod.mk.injEq] at hspec
        obtain ⟨rfl, rfl⟩ := hspec
        obtain ⟨s', r', hrun, hinv, hl, hv, hr⟩ := divide_spec hd s _ h hpos hw
        have hdm := (Nat.div_mod_unique hpos).2 ⟨(by rw [Nat.add_comm]; exact hv.symm :
          r' + (s.val c.W % 2 ^ c.W) * s'.val c.W = s.val c.W), hr⟩
        refine ⟨s', ?_, hinv, hl, hdm.1.symm⟩
        simp [step, hnum, hrun, bind, Except.bind, pure, Except.pure, hdm.2]
      · exact absurd hspec (by simp)
  | setIndex i => exact absurd hspec (by simp [specStep])
  | store i v => exact absurd hspec (by simp [specStep])
  | maxIndexC =>
    simp only [specStep, Option.some.injEq, Prod.mk.injEq] at hspec
    obtain ⟨rfl, rfl⟩ := hspec
    exact ⟨s, by simp [step, maxIndex, pure, Except.pure], h, rfl, rfl⟩
  | typeWidthC =>
    simp only [specStep, Option.some.injEq, Prod.mk.injEq] at hspec
    obtain ⟨rfl, rfl⟩ := hspec
    exact ⟨s, by simp [step, pure, Except.pure], h, rfl, rfl⟩
  | totalBitsC =>
    simp only [specStep, Option.some.injEq, Prod.mk.injEq] at hspec
    obtain ⟨rfl, rfl⟩ := hspec
    exact ⟨s, by simp [step, pure, Except.pure], h, rfl, rfl⟩
  | sizeOfTypeC =>
    simp only [specStep, Option.some.injEq, Prod.mk.injEq] at hspec
    obtain ⟨rfl, rfl⟩ := hspec
    exact ⟨s, by simp [step, pure, Except.pure], h, rfl, rfl⟩

/-- Lifting to operation sequences: if every operation of the sequence is exact, then whenever the
exact-integer run is defined (everything fits), the checked model run does not fault, returns the
same values, ends in an invariant state and holds exactly the specified integer. -/
theorem run_exact (c : Cfg) : ∀ (ops : List Op) (s : Big) (a' : Nat) (rs : List Ret),
    (∀ op ∈ ops, StepExact c op) → Inv c.W s →
    specRun c.W s.words.length (s.val c.W) ops = some (a', rs) →
    ∃ s', run c s ops = .ok (s', rs) ∧ Inv c.W s' ∧ s'.words.length = s.words.length ∧ s'.val c.W = a'
  | [], s, a', rs, _, h, hspec => by
    simp only [specRun, Option.some.injEq, Prod.mk.injEq] at hspec
    obtain ⟨rfl, rfl⟩ := hspec
    exact ⟨s, rfl, h, rfl, rfl⟩
  | o :: os, s, a', rs, hall, h, hspec => by
    simp only [specRun] at hspec
    split at hspec
    · exact absurd hspec (by simp)
    · rename_i a1 r1 hs1
      split at hspec
      · exact absurd hspec (by simp)
      · rename_i a2 rs2 hs2
        simp only [Option.some.injEq, Prod.mk.injEq] at hspec
        obtain ⟨rfl, rfl⟩ := hspec
        obtain ⟨s1, hstep, hinv1, hl1, hv1⟩ := hall o (by simp) s a1 r1 h hs1
        obtain ⟨s2, hrun, hinv2, hl2, hv2⟩ := run_exact c os s1 a2 rs2 (fun op hop => hall op (by simp [hop])) hinv1
          (by rw [hl1, hv1]; exact hs2)
        refine ⟨s2, ?_, hinv2, by omega, hv2⟩
        simp [run, hstep, hrun, bind, Except.bind, pure, Except.pure]

/-- Sequences of operations on a fresh object with the native double-width helpers
(8/16/32-bit words in the C++; any word width ≥ 1 and any word count ≥ 1 here). -/
theorem sequence_exact_native (W n : Nat) (hW : 0 < W) (hn : 0 < n) (ops : List Op) (a' : Nat) (rs : List Ret)
    (hcov : ∀ op ∈ ops, Typed W op) (hspec : specRun W n 0 ops = some (a', rs)) :
    ∃ s', run ⟨W, false⟩ (zero n) ops = .ok (s', rs) ∧ Inv W s' ∧ s'.words.length = n ∧ s'.val W = a' := by
  have hlen : (zero n).words.length = n := by simp [zero]
  have := run_exact ⟨W, false⟩ ops (zero n) a' rs
    (fun op hop => step_exact ⟨W, false⟩ (mulOK_native W) (divOK_native W) op (hcov op hop))
    (inv_zero hW hn) (by rw [hlen, val_zero]; exact hspec)
  simpa [hlen] using this

/-- The same with the half-word helpers (64-bit words in the C++; any half width h ≥ 1 here). -/
theorem sequence_exact_hand (h n : Nat) (hh : 0 < h) (hn : 0 < n)
    (ops : List Op) (a' : Nat) (rs : List Ret)
    (hcov : ∀ op ∈ ops, Typed (2 * h) op) (hspec : specRun (2 * h) n 0 ops = some (a', rs)) :
    ∃ s', run ⟨2 * h, true⟩ (zero n) ops = .ok (s', rs) ∧ Inv (2 * h) s' ∧ s'.words.length = n ∧
      s'.val (2 * h) = a' := by
  have hlen : (zero n).words.length = n := by simp [zero]
  have := run_exact ⟨2 * h, true⟩ ops (zero n) a' rs
    (fun op hop => step_exact ⟨2 * h, true⟩ (mulOK_hand h) (divOK_hand h hh) op (hcov op hop))
    (inv_zero (by show 0 < 2 * h; omega) hn) (by rw [hlen, val_zero]; exact hspec)
  simpa [hlen] using this

/-- The half-word multiply is exact for every half width (`hi·2^W + lo = a·b`). -/
theorem mul_helper_exact (h a b : Nat) (ha : a < 2 ^ (2 * h)) (hb : b < 2 ^ (2 * h)) :
    (mulHand h a b).1 * 2 ^ (2 * h) + (mulHand h a b).2 = a * b := (mulHand_exact h a b ha hb).1

/-- The half-word divide is exact for every half width `h ≥ 1` under its precondition `hi < d`
(`q·d + r = hi·2^W + lo`, `r < d`), with the `initial_shift` that `BigInt::Divide` computes. -/
theorem div_helper_exact (h : Nat) (hh : 0 < h) : DivOK ⟨2 * h, true⟩ := divOK_hand h hh

/-- C19 for every configuration with the native double-width helpers (8/16/32-bit words). -/
theorem C19_native (W : Nat) (op : Op) (ht : Typed W op) : StepExact ⟨W, false⟩ op :=
  step_exact ⟨W, false⟩ (mulOK_native W) (divOK_native W) op ht

/-- **C19** — every operation of every configuration (any word width, any word count, both helper
variants): whenever the exact result fits, the checked model does not fault, re-establishes the
invariant, holds exactly the mathematical result and returns the exact remainder / bit index /
predicate. -/
theorem C19 : C19_full := by
  intro c hg op ht
  rcases c with ⟨W, hand⟩
  cases hand with
  | false => exact C19_native W op ht
  | true =>
    have hev : W % 2 = 0 := hg.2 rfl
    have hW : 0 < W := hg.1
    obtain ⟨h, rfl⟩ : ∃ h, W = 2 * h := ⟨W / 2, by omega⟩
    exact step_exact ⟨2 * h, true⟩ (mulOK_hand h) (div_helper_exact h (by omega)) op ht

/-- C19 for the configuration the C++ selects for `W`-bit words (half-word helpers exactly when
`W = 64`), lifted to every operation sequence on a fresh object of `n ≥ 1` words. -/
theorem C19_sequences (W n : Nat) (hW : 0 < W) (hn : 0 < n) (ops : List Op) (a' : Nat)
    (rs : List Ret) (ht : ∀ op ∈ ops, Typed W op) (hspec : specRun W n 0 ops = some (a', rs)) :
    ∃ s', run (Cfg.std W) (zero n) ops = .ok (s', rs) ∧ Inv W s' ∧ s'.words.length = n ∧ s'.val W = a' := by
  have hlen : (zero n).words.length = n := by simp [zero]
  have hg : GoodCfg (Cfg.std W) := ⟨hW, fun hh => by
    have h64 : W = 64 := by simpa [Cfg.std] using hh
    show W % 2 = 0
    rw [h64]⟩
  have := run_exact (Cfg.std W) ops (zero n) a' rs (fun op hop => C19 (Cfg.std W) hg op (ht op hop))
    (inv_zero hW hn) (by rw [hlen, val_zero]; exact hspec)
  simpa [hlen, Cfg.std] using this

/-! Non-vacuity: a concrete run where everything fits (8-bit words, 4 words):
200 + 255 = 455; ·200 = 91000; /9 = 10111 rem 1; 10111 > 9; log2 10111 = 13. -/
example : specRun 8 4 0 [.assign 8 200, .bop .add 8 255, .mul 200, .div 9, .cmp .gt 9, .flb]
    = some (10111, [.none, .none, .none, .nat 1, .bool true, .nat 13]) := by decide

/-! ### Signed operand types

A non-negative operand of a signed type is the same integer.  A **negative** operand has no meaning as an
integer for an unsigned big number; what the (repaired) code does is well defined and in bounds: the operand
acts as `signedOperand W K x` = its two's-complement value at width `max K W` (`Number_T(number)` sign-extends
to the word, the bounded chunk loop walks the operand's own width).  The exactness theorem applies to that
value. -/

theorem signedOperand_nonneg (W K : Nat) (x : Int) (h0 : 0 ≤ x) (hx : x < 2 ^ K) :
    signedOperand W K x = x.toNat := by
  unfold signedOperand
  have hle : (2 : Int) ^ K ≤ (2 : Int) ^ max K W := by
    exact_mod_cast Nat.pow_le_pow_right (by decide : 0 < 2) (Nat.le_max_left K W)
  have : x < (2 : Int) ^ max K W := Int.lt_of_lt_of_le hx hle
  rw [Int.emod_eq_of_lt h0 this]

theorem signedOperand_lt (W K : Nat) (x : Int) : signedOperand W K x < 2 ^ max K W := by
  unfold signedOperand
  have hpos : (0 : Int) < (2 : Int) ^ max K W := Int.pow_pos (by decide)
  have h1 := Int.emod_lt_of_pos x hpos
  have h0 := Int.emod_nonneg x (Int.ne_of_gt hpos)
  have h2 : x % (2 : Int) ^ max K W < ((2 ^ max K W : Nat) : Int) := by push_cast; exact h1
  omega

theorem typeOK_max (W K : Nat) (hW : 0 < W) (h : TypeOK W K) : TypeOK W (max K W) := by
  rcases h with h | ⟨h1, h2⟩
  · left; rw [Nat.max_eq_right h]
  · have : W ≤ K := Nat.le_of_dvd (by
      rcases Nat.eq_zero_or_pos K with h0 | h0
      · rw [h0] at h2; simp at h2
      · exact h0) h1
    right; rw [Nat.max_eq_left this]; exact ⟨h1, h2⟩

/-- `+= -= |= &=` with any (also negative) operand of a signed `K`-bit type: exact for the value the
operand denotes, in bounds, invariant kept. -/
theorem C19_signed (c : Cfg) (hg : GoodCfg c) (op : BOp) (K : Nat) (x : Int) (ht : TypeOK c.W K) :
    StepExact c (.bop op (max K c.W) (signedOperand c.W K x)) :=
  C19 c hg _ (typeOK_max c.W K hg.1 ht)

/-! ### Two objects of one instantiation: copy and move assignment -/

/-- The exact-integer meaning of a sequence over two objects holding `a` and `b`. -/
def specRun2 (W n : Nat) : Nat → Nat → List Op2 → Option (Nat × Nat × List Ret)
  | a, b, [] => some (a, b, [])
  | a, b, o :: os =>
    match specStep2 W n a b o with
    | none => none
    | some (a1, b1, r) =>
      match specRun2 W n a1 b1 os with
      | none => none
      | some (a2, b2, rs) => some (a2, b2, r :: rs)

def Typed2 (W : Nat) : Op2 → Prop
  | .on o => Typed W o
  | _ => True

/-- One step over two objects (an operation on `x`, `t = x`, `x = t`, `x = std::move(t)`): exact, in
bounds, both invariants re-established. -/
theorem step2_exact (c : Cfg) (hg : GoodCfg c) (o : Op2) (ht : Typed2 c.W o) (p : Pair) (a' b' : Nat) (r : Ret)
    (hx : Inv c.W p.x) (hy : Inv c.W p.t) (hl : p.t.words.length = p.x.words.length)
    (hspec : specStep2 c.W p.x.words.length (p.x.val c.W) (p.t.val c.W) o = some (a', b', r)) :
    ∃ p', step2 c p o = .ok (p', r) ∧ Inv c.W p'.x ∧ Inv c.W p'.t ∧ p'.x.words.length = p.x.words.length ∧
      p'.t.words.length = p.x.words.length ∧ p'.x.val c.W = a' ∧ p'.t.val c.W = b' := by
  cases o with
  | on o' =>
    simp only [specStep2] at hspec
    split at hspec
    · rename_i a1 r1 hs1
      simp only [Option.some.injEq, Prod.mk.injEq] at hspec
      obtain ⟨rfl, rfl, rfl⟩ := hspec
      obtain ⟨s', hrun, hinv, hl', hv⟩ := C19 c hg o' ht p.x a1 r1 hx hs1
      exact ⟨⟨s', p.t⟩, by simp [step2, hrun, bind, Except.bind, pure, Except.pure], hinv, hy, hl', hl, hv, rfl⟩
    · exact absurd hspec (by simp)
  | save =>
    simp only [specStep2, Option.some.injEq, Prod.mk.injEq] at hspec
    obtain ⟨rfl, rfl, rfl⟩ := hspec
    obtain ⟨d', hrun, hinv, hl', hv⟩ := copy_spec p.t p.x hy hx hl
    exact ⟨⟨p.x, d'⟩, by simp [step2, hrun, bind, Except.bind, pure, Except.pure], hx, hinv, rfl,
      (by show d'.words.length = _; omega), rfl, hv⟩
  | load =>
    simp only [specStep2, Option.some.injEq, Prod.mk.injEq] at hspec
    obtain ⟨rfl, rfl, rfl⟩ := hspec
    obtain ⟨d', hrun, hinv, hl', hv⟩ := copy_spec p.x p.t hx hy hl.symm
    exact ⟨⟨d', p.t⟩, by simp [step2, hrun, bind, Except.bind, pure, Except.pure], hinv, hy, hl', hl, hv, rfl⟩
  | move =>
    simp only [specStep2, Option.some.injEq, Prod.mk.injEq] at hspec
    obtain ⟨rfl, rfl, rfl⟩ := hspec
    obtain ⟨d', hrun, hinv, hl', hv⟩ := copy_spec p.x p.t hx hy hl.symm
    obtain ⟨t', hrun2, hinv2, hl2, hv2⟩ := clear_spec (W := c.W) p.t hy
    exact ⟨⟨d', t'⟩, by simp [step2, hrun, hrun2, bind, Except.bind, pure, Except.pure], hinv, hinv2, hl',
      (by show t'.words.length = _; omega), hv, hv2⟩
  | selfCopy =>
    simp only [specStep2, Option.some.injEq, Prod.mk.injEq] at hspec
    obtain ⟨rfl, rfl, rfl⟩ := hspec
    exact ⟨p, rfl, hx, hy, rfl, hl, rfl, rfl⟩
  | selfMove =>
    simp only [specStep2, Option.some.injEq, Prod.mk.injEq] at hspec
    obtain ⟨rfl, rfl, rfl⟩ := hspec
    exact ⟨p, rfl, hx, hy, rfl, hl, rfl, rfl⟩
  | copyCtor =>
    simp only [specStep2, Option.some.injEq, Prod.mk.injEq] at hspec
    obtain ⟨rfl, rfl, rfl⟩ := hspec
    have hn : 0 < p.t.words.length := Nat.lt_of_le_of_lt (Nat.zero_le _) hy.idx_lt
    have hlz : (zero p.t.words.length).words.length = p.t.words.length := by simp [zero]
    obtain ⟨d', hrun, hinv, hl', hv⟩ := copy_spec (zero p.t.words.length) p.x (inv_zero hy.wpos hn) hx (by omega)
    exact ⟨⟨p.x, d'⟩, by simp [step2, hrun, bind, Except.bind, pure, Except.pure], hx, hinv, rfl,
      (by show d'.words.length = _; omega), rfl, hv⟩
  | moveCtor =>
    simp only [specStep2, Option.some.injEq, Prod.mk.injEq] at hspec
    obtain ⟨rfl, rfl, rfl⟩ := hspec
    have hn : 0 < p.x.words.length := Nat.lt_of_le_of_lt (Nat.zero_le _) hx.idx_lt
    have hlz : (zero p.x.words.length).words.length = p.x.words.length := by simp [zero]
    obtain ⟨d', hrun, hinv, hl', hv⟩ := copy_spec (zero p.x.words.length) p.t (inv_zero hx.wpos hn) hy (by omega)
    obtain ⟨t', hrun2, hinv2, hl2, hv2⟩ := clear_spec (W := c.W) p.t hy
    exact ⟨⟨d', t'⟩, by simp [step2, hrun, hrun2, bind, Except.bind, pure, Except.pure], hinv, hinv2,
      (by show d'.words.length = _; omega), (by show t'.words.length = _; omega), hv, hv2⟩

/-- **C19 over operation sequences on two objects** (everything `BigInt` offers, including copy and
move assignment), for the configuration the C++ selects for `W`-bit words, any `n ≥ 1`. -/
theorem C19_sequences2 (W n : Nat) (hW : 0 < W) (hn : 0 < n) : ∀ (ops : List Op2) (p : Pair) (a' b' : Nat)
    (rs : List Ret), (∀ op ∈ ops, Typed2 W op) → Inv W p.x → Inv W p.t → p.x.words.length = n →
    p.t.words.length = n → specRun2 W n (p.x.val W) (p.t.val W) ops = some (a', b', rs) →
    ∃ p', run2 (Cfg.std W) p ops = .ok (p', rs) ∧ Inv W p'.x ∧ Inv W p'.t ∧ p'.x.words.length = n ∧
      p'.t.words.length = n ∧ p'.x.val W = a' ∧ p'.t.val W = b'
  | [], p, a', b', rs, _, hx, hy, hlx, hly, hspec => by
    simp only [specRun2, Option.some.injEq, Prod.mk.injEq] at hspec
    obtain ⟨rfl, rfl, rfl⟩ := hspec
    exact ⟨p, rfl, hx, hy, hlx, hly, rfl, rfl⟩
  | o :: os, p, a', b', rs, hall, hx, hy, hlx, hly, hspec => by
    have hg : GoodCfg (Cfg.std W) := ⟨hW, fun hh => by
      have h64 : W = 64 := by simpa [Cfg.std] using hh
      show W % 2 = 0
      rw [h64]⟩
    simp only [specRun2] at hspec
    split at hspec
    · exact absurd hspec (by simp)
    · rename_i a1 b1 r1 hs1
      split at hspec
      · exact absurd hspec (by simp)
      · rename_i a2 b2 rs2 hs2
        simp only [Option.some.injEq, Prod.mk.injEq] at hspec
        obtain ⟨rfl, rfl, rfl⟩ := hspec
        obtain ⟨p1, hstep, hx1, hy1, hlx1, hly1, hvx1, hvy1⟩ := step2_exact (Cfg.std W) hg o (hall o (by simp)) p a1 b1 r1
          hx hy (by omega) (by rw [hlx]; exact hs1)
        obtain ⟨p2, hrun, hx2, hy2, hlx2, hly2, hvx2, hvy2⟩ := C19_sequences2 W n hW hn os p1 a2 b2 rs2
          (fun op hop => hall op (by simp [hop])) hx1 hy1 (by omega) (by omega)
          (by
            have e1 : p1.x.val W = a1 := hvx1
            have e2 : p1.t.val W = b1 := hvy1
            rw [e1, e2]; exact hs2)
        refine ⟨p2, ?_, hx2, hy2, hlx2, hly2, hvx2, hvy2⟩
        simp [run2, hstep, hrun, bind, Except.bind, pure, Except.pure]

/-! TEST (labelled as such, not a theorem about all inputs): the half-word divide at h = 2 (4-bit words)
evaluated by the kernel on its whole precondition domain — d in 1..15, hi < d, lo in 0..15. -/
def divTestDomain : List (Nat × Nat × Nat) :=
  (List.range 16).flatMap fun d => (List.range d).flatMap fun hi => (List.range 16).map fun lo => (hi, lo, d)

def divTestOK : Nat × Nat × Nat → Bool
  | (hi, lo, d) =>
    match divHand 2 hi lo d (3 - d.log2) with
    | .ok (r, q) => q * d + r == hi * 16 + lo && decide (r < d)
    | .error _ => false

example : divTestDomain.all divTestOK = true := by decide +kernel

end Qentem.Props.C19
