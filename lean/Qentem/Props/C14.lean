import Qentem.Model.Seq
import Qentem.Model.Mem
import Qentem.Proofs.Mem
import Qentem.Proofs.SeqArray
import Qentem.Proofs.SeqString
import Qentem.Proofs.SeqStream
import Qentem.Proofs.SeqAlias
import Qentem.Props.C14Tree
import Qentem.Props.C14Trim
/-! C14 — Array, String, StringStream and StringView behave as plain sequences; the byte-copy and
zero-fill primitives give identical results for every length in scalar, SSE2 and AVX2 builds. -/
namespace Qentem.Props.C14
open Qentem.Mem

/-! ### Memory::Copy / Memory::SetToZero: block loop + scalar tail = plain copy, for every block
shift (scalar build: `simd = false`; SSE2: shift 4; AVX2: shift 5; any other), every size, every
buffer content.  No access leaves the two buffers (`some`), nothing after `size` is touched. -/

theorem copyBlocks_eq (simd : Bool) (shift size : Nat) (dst src : List Nat)
    (hs : size ≤ src.length) (hd : size ≤ dst.length) :
    copyBlocks simd shift size dst src = some (copySpec size dst src) := by
  have hle := blocks_le size shift
  unfold copyBlocks
  simp only [simd_guard, Nat.shiftLeft_eq] at *
  cases simd
  · simp only [Bool.false_eq_true, reduceIte]
    exact copy_core (2 ^ shift) 0 size dst src hs hd (by omega)
  · exact copy_core (2 ^ shift) (size >>> shift) size dst src hs hd hle

theorem zeroBlocks_eq (simd : Bool) (shift size : Nat) (dst : List Nat) (hd : size ≤ dst.length) :
    zeroBlocks simd shift size dst = some (zeroSpec size dst) := by
  have hle := blocks_le size shift
  unfold zeroBlocks
  simp only [zero_guard, Nat.shiftLeft_eq] at *
  cases simd
  · simp only [Bool.false_eq_true, reduceIte]
    exact zero_core (2 ^ shift) 0 size dst hd (by omega)
  · exact zero_core (2 ^ shift) (size >>> shift) size dst hd hle

/-- The three shipped configurations give the same bytes (corollary). -/
theorem copy_same_in_all_builds (size : Nat) (dst src : List Nat) (hs : size ≤ src.length) (hd : size ≤ dst.length) :
    copyBlocks false 0 size dst src = copyBlocks true 4 size dst src ∧
    copyBlocks true 4 size dst src = copyBlocks true 5 size dst src := by
  simp [copyBlocks_eq _ _ _ _ _ hs hd]

/-- Non-vacuity: a 37-byte copy with 16-byte blocks into a 40-byte destination. -/
example : copyBlocks true 4 37 (List.replicate 40 170) (pattern 3 37) = some (pattern 3 37 ++ [170, 170, 170]) := by decide


/-! ## The containers are plain sequences

State = a table of objects (register → object), so aliasing (`a += a`, `a = a`, `s << s`) and
moved-from objects are covered by the quantification over all programs.  `arrAbs/strAbs/ssAbs/svAbs`
forget capacity and storage and keep the item list; `…SpecRun/…SpecOuts` run the same program on plain
`List`s.  Each theorem is for *every* program from the initial table (and, in `Proofs/Seq*.lean`, from
any table satisfying the invariant). -/
open Qentem.Seq

/-- Array: after every program the content of every object is that of the plain-list run, everything
handed back to the caller (`Detach`) is the same, and `Size() ≤ Capacity()` everywhere. -/
theorem array_is_plain_sequence {α : Type} (d : α) (ops : List (ArrOp α)) :
    arrAbs (arrRun d ops arrInit) = arrSpecRun d ops (fun _ => []) ∧
    arrOuts d ops arrInit = arrSpecOuts d ops (fun _ => []) ∧
    (∀ i, (arrRun d ops arrInit i).data.length ≤ (arrRun d ops arrInit i).cap) := by
  have h := arr_run_refines d ops arrInit arrInit_inv
  exact ⟨h.1, arr_outs_refine d ops arrInit arrInit_inv, h.2⟩

/-- String: content, outputs (`Detach`, the six comparison operators), and NUL termination of every
object after every program (`string_terminated`). -/
theorem string_is_plain_sequence (ops : List StrOp) :
    strAbs (strRun ops strInit) = strSpecRun ops (fun _ => []) ∧
    strOuts ops strInit = strSpecOuts ops (fun _ => []) ∧
    (∀ i, (strRun ops strInit i).Term) := by
  have h := str_run_refines ops strInit strInit_inv
  exact ⟨h.1, str_outs_refine ops strInit strInit_inv, h.2⟩

/-- The terminator statement spelled out: a non-null string has a cell at index `Length()` holding 0,
a null string has length 0 — after every program. -/
theorem string_terminated (ops : List StrOp) (i : Nat) :
    match (strRun ops strInit i).store with
    | none => (strRun ops strInit i).len = 0
    | some b => b[(strRun ops strInit i).len]? = some 0 := by
  have h := (string_is_plain_sequence ops).2.2 i
  unfold StringM.Term at h
  cases hs : (strRun ops strInit i).store with
  | none => simpa [hs] using h
  | some b => simp only [hs] at h ⊢; exact h.2

/-- StringStream, for every capacity policy that never under-serves a request. -/
theorem stream_is_plain_sequence (P : Policy) (hP : P.Sound) (ops : List SsOp) :
    ssAbs (ssRun P ops ssInit) = ssSpecRun ops (fun _ => []) ∧
    ssOuts P ops ssInit = ssSpecOuts ops (fun _ => []) ∧
    (∀ i, (ssRun P ops ssInit i).data.length ≤ (ssRun P ops ssInit i).cap) := by
  have h := ss_run_refines P hP ops ssInit ssInit_inv
  exact ⟨h.1, ss_outs_refine P ops ssInit, h.2⟩

/-- Both policies in use are sound: the shipped `AlignSize(4·n)` and the exact-fit hook. -/
theorem stream_policies_sound : policyStd.Sound ∧ policyExact.Sound := ⟨policyStd_sound, policyExact_sound⟩

theorem stream_is_plain_sequence_shipped (ops : List SsOp) :
    ssAbs (ssRun policyStd ops ssInit) = ssSpecRun ops (fun _ => []) :=
  (stream_is_plain_sequence policyStd policyStd_sound ops).1

theorem stream_is_plain_sequence_exact (ops : List SsOp) :
    ssAbs (ssRun policyExact ops ssInit) = ssSpecRun ops (fun _ => []) :=
  (stream_is_plain_sequence policyExact policyExact_sound ops).1

/-- The content does not depend on the capacity policy at all. -/
theorem stream_content_policy_independent (P Q : Policy) (ops : List SsOp) :
    ssAbs (ssRun P ops ssInit) = ssAbs (ssRun Q ops ssInit) ∧ ssOuts P ops ssInit = ssOuts Q ops ssInit := by
  have hrun : ∀ (P : Policy) (ops : List SsOp) (st : SsSt), ssAbs (ssRun P ops st) = ssSpecRun ops (ssAbs st) := by
    intro P ops
    induction ops with
    | nil => intro st; rfl
    | cons op ops ih => intro st; simp only [ssRun, ssSpecRun]; rw [← (ss_step_refines P op st).1]; exact ih _
  exact ⟨by rw [hrun P, hrun Q], by rw [ss_outs_refine P, ss_outs_refine Q]⟩

/-- StringView. -/
theorem view_is_plain_sequence (ops : List SvOp) :
    svAbs (svRun ops svInit) = svSpecRun ops (fun _ => []) ∧
    svOuts ops svInit = svSpecOuts ops (fun _ => []) :=
  ⟨sv_run_refines ops svInit, sv_outs_refine ops svInit⟩

/-! ### Appends never disturb earlier elements -/

theorem array_appends_keep_prefix {α : Type} (d : α) (st : ArrSt α) (h : ArrInv st) (r s : Nat) (x : α) :
    (st r).data <+: (((ArrOp.push r x).step d st).1 r).data ∧
    (st r).data <+: (((ArrOp.appC r s).step d st).1 r).data ∧
    (r ≠ s → (st r).data <+: (((ArrOp.appM r s).step d st).1 r).data) := by
  refine ⟨?_, ?_, ?_⟩
  · simp [ArrOp.step]
  · simp [ArrOp.step]
  · intro hrs
    simp [ArrOp.step, setR, hrs, ArrayM.appendMove_data _ _ (h r)]

theorem string_appends_keep_prefix (st : StrSt) (h : StrInv st) (r s c : Nat) (u : List Nat) :
    (st r).data <+: (((StrOp.appC r s).step st).1 r).data ∧
    (st r).data <+: (((StrOp.appU r u).step st).1 r).data ∧
    (st r).data <+: (((StrOp.appCh r c).step st).1 r).data ∧
    (r ≠ s → (st r).data <+: (((StrOp.appM r s).step st).1 r).data) := by
  refine ⟨?_, ?_, ?_, ?_⟩
  · simp [StrOp.step, StringM.write_data _ _ (h r)]
  · simp [StrOp.step, StringM.write_data _ _ (h r)]
  · simp [StrOp.step, StringM.write_data _ _ (h r)]
  · intro hrs; simp [StrOp.step, setR, hrs, StringM.write_data _ _ (h r)]

theorem stream_appends_keep_prefix (P : Policy) (st : SsSt) (v r s c : Nat) (u : List Nat) :
    (st r).data <+: (((SsOp.pushCh v r c).step P st).1 r).data ∧
    (st r).data <+: (((SsOp.appS r s).step P st).1 r).data ∧
    (st r).data <+: (((SsOp.shlS r s).step P st).1 r).data ∧
    (st r).data <+: (((SsOp.appU v r u).step P st).1 r).data ∧
    (st r).data <+: (((SsOp.buffer r u).step P st).1 r).data := by
  refine ⟨?_, ?_, ?_, ?_, ?_⟩ <;> simp [SsOp.step]

/-- Operations whose argument lies inside the container's own storage (an item of the array by `const&`,
a sub-range / C string / view of the string's or stream's own buffer): the value of the argument is the
one before the call, and the old content stays in front. -/
theorem own_storage_arguments_keep_prefix {α : Type} (d : α) (P : Policy) (ast : ArrSt α) (sst : StrSt)
    (hs : StrInv sst) (tst : SsSt) (v r i off n : Nat) :
    (ast r).data <+: (((ArrOp.pushSelf r i).step d ast).1 r).data ∧
    (∀ x, (ast r).data[i]? = some x → (((ArrOp.pushSelf r i).step d ast).1 r).data = (ast r).data ++ [x]) ∧
    (((StrOp.appOwn v r off n).step sst).1 r).data =
      (sst r).data ++ (if v = 0 then ownSlice (sst r).data off n else ownCStr (sst r).data off) ∧
    (((SsOp.appOwn v r off n).step P tst).1 r).data =
      (tst r).data ++ (if v < 3 then ownSlice (tst r).data off n else if v < 5 then ownCStr (tst r).data off else (tst r).data) := by
  refine ⟨?_, ?_, ?_, ?_⟩
  · simp only [ArrOp.step]; cases (ast r).data[i]? <;> simp
  · intro x hx; simp [ArrOp.step, hx]
  · simp [StrOp.step, StringM.write_data _ _ (hs r)]
  · simp only [SsOp.step]; split <;> (try split) <;> simp

/-! ### Capacity changes never lose or duplicate elements -/

theorem array_capacity_changes_keep_content {α : Type} (a : ArrayM α) (n : Nat) :
    (a.expect n).data = a.data ∧ a.compress.data = a.data ∧ (a.data.length ≤ n → (a.resize n).data = a.data) ∧
    (a.resizeTo n).data = a.data := by
  refine ⟨by simp, by simp, ?_, rfl⟩
  intro h; rw [ArrayM.resize_data]; exact List.take_of_length_le h

theorem stream_capacity_changes_keep_content (P : Policy) (s : StreamM) (n : Nat) :
    (s.expect P n).data = s.data ∧ (s.insertNull P).data = s.data ∧ (s.expand P n).data = s.data := by
  simp

/-- `ResizeAndInitialize(n)` leaves exactly `n` constructed items and capacity `n`. -/
theorem array_resizeInit_full {α : Type} (d : α) (a : ArrayM α) (n : Nat) :
    (ArrayM.resizeInit d a n).data.length = (ArrayM.resizeInit d a n).cap ∧ (ArrayM.resizeInit d a n).cap = n :=
  ArrayM.resizeInit_full d a n

/-- `s += s` on a stream: after `Expect` the write does not reallocate. -/
theorem stream_self_append_no_realloc (P : Policy) (hP : P.Sound) (s : StreamM) :
    (s.appendStream P s.data).data = s.data ++ s.data ∧
    (s.appendStream P s.data).cap = (s.expect P s.data.length).cap :=
  ⟨by simp, StreamM.appendStream_no_realloc P hP s s.data⟩

/-- `a += a` in the explicit-heap model of `Array::operator+=(const Array&)` (pointer-level order of
effects of the current code): for every content and capacity no fault, result `l ++ l`, no stray item. -/
theorem array_self_append_heap_level : Qentem.SeqAlias.PatchedSelfAppend := Qentem.SeqAlias.patched_self_append

/-! ### `==` is equality of contents -/
theorem isEqual_iff : ∀ (l r : List Nat), isEqual l r = true ↔ l = r
  | [], [] => by simp [isEqual]
  | [], _ :: _ => by simp [isEqual]
  | _ :: _, [] => by simp [isEqual]
  | a :: as, b :: bs => by simp [isEqual, isEqual_iff as bs]

/-! ### The order operators are the lexicographic order of the unit lists (`<`/`≤` of `List Nat`; a
proper prefix is smaller), `>`/`>=` are their mirror images -/
theorem isLess_iff_lt : ∀ (l r : List Nat), isLess l r false = true ↔ l < r
  | [], [] => by simp [isLess]
  | [], _ :: _ => by simp [isLess]
  | _ :: _, [] => by simp [isLess]
  | a :: as, b :: bs => by
    have ih := isLess_iff_lt as bs
    rw [List.cons_lt_cons_iff]
    unfold isLess
    split
    · simp; omega
    · split
      · simp; omega
      · have : a = b := by omega
        simp [this, ih]

theorem isLess_orEqual_iff_le : ∀ (l r : List Nat), isLess l r true = true ↔ l ≤ r
  | [], [] => by simp [isLess]
  | [], _ :: _ => by simp [isLess]
  | _ :: _, [] => by simp [isLess]
  | a :: as, b :: bs => by
    have ih := isLess_orEqual_iff_le as bs
    rw [List.cons_le_cons_iff]
    unfold isLess
    split
    · simp; omega
    · split
      · simp; omega
      · have : a = b := by omega
        simp [this, ih]

theorem isGreater_eq_isLess_swap : ∀ (l r : List Nat) (oe : Bool), isGreater l r oe = isLess r l oe
  | [], [], oe => by simp [isLess, isGreater]
  | [], _ :: _, oe => by simp [isLess, isGreater]
  | _ :: _, [], oe => by simp [isLess, isGreater]
  | a :: as, b :: bs, oe => by
    have ih := isGreater_eq_isLess_swap as bs oe
    unfold isLess isGreater
    simp only [gt_iff_lt, ih]

/-! ### Non-vacuity: concrete programs (tests, by evaluation) -/
example : (arrRun 0 [.push 0 1, .push 0 2, .appC 0 0, .appM 1 0, .resizeInit 2 3] arrInit 1).data = [1, 2, 1, 2] := by decide
example : (arrRun 0 [.push 0 1, .push 0 2, .appC 0 0, .appM 1 0, .resizeInit 2 3] arrInit 1).cap = 4 := by decide
example : (strRun [.ctorU 0 [97, 98], .appC 0 0, .stepBack 0 1] strInit 0).store = some [97, 98, 97, 0, 0] := by decide
example : (ssRun policyStd [.appU 0 0 [97, 98, 99], .appS 0 0] ssInit 0).cap = 16 := by decide
example : policyStd.Sound := policyStd_sound

end Qentem.Props.C14
