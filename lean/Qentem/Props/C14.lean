import Qentem.Model.Seq
import Qentem.Model.Mem
import Qentem.Proofs.Mem
/-! C14 — Array, String, StringStream and StringView behave as plain sequences; the byte-copy and
zero-fill primitives give identical results for every length in scalar, SSE2 and AVX2 builds. -/
namespace Qentem.Props.C14
open Qentem.Mem

/-! ### Memory::Copy / Memory::SetToZero: block loop + scalar tail = plain copy, for every block
shift (scalar build: `simd = false`; SSE2: shift 4; AVX2: shift 5; any other), every size, every
buffer content.  No access leaves the two buffers (`some`), nothing after `size` is touched. -/

theorem copyBlocks_eq (simd : Bool) (shift size : Nat) (dst src : List Nat)
    (hs : size ≤ src.length) (hd : size ≤ dst.length) :
    copyBlocks simd shift size dst src = some (copySpec size dst src) := by
  have hle := blocks_le size shift
  unfold copyBlocks
  simp only [simd_guard, Nat.shiftLeft_eq] at *
  cases simd
  · simp only [Bool.false_eq_true, reduceIte]
    exact copy_core (2 ^ shift) 0 size dst src hs hd (by omega)
  · exact copy_core (2 ^ shift) (size >>> shift) size dst src hs hd hle

theorem zeroBlocks_eq (simd : Bool) (shift size : Nat) (dst : List Nat) (hd : size ≤ dst.length) :
    zeroBlocks simd shift size dst = some (zeroSpec size dst) := by
  have hle := blocks_le size shift
  unfold zeroBlocks
  simp only [zero_guard, Nat.shiftLeft_eq] at *
  cases simd
  · simp only [Bool.false_eq_true, reduceIte]
    exact zero_core (2 ^ shift) 0 size dst hd (by omega)
  · exact zero_core (2 ^ shift) (size >>> shift) size dst hd hle

/-- The three shipped configurations give the same bytes (corollary). -/
theorem copy_same_in_all_builds (size : Nat) (dst src : List Nat) (hs : size ≤ src.length) (hd : size ≤ dst.length) :
    copyBlocks false 0 size dst src = copyBlocks true 4 size dst src ∧
    copyBlocks true 4 size dst src = copyBlocks true 5 size dst src := by
  simp [copyBlocks_eq _ _ _ _ _ hs hd]

/-- Non-vacuity: a 37-byte copy with 16-byte blocks into a 40-byte destination. -/
example : copyBlocks true 4 37 (List.replicate 40 170) (pattern 3 37) = some (pattern 3 37 ++ [170, 170, 170]) := by decide

end Qentem.Props.C14
