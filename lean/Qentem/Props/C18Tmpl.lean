import Qentem.Model.GroupTmpl
import Qentem.Proofs.Group
import Qentem.Props.C18
/-!
C18, last clause — "a loop's group= attribute iterates the same partition".

`renderLoop` (Template.hpp:1262-1332; render model `Qentem.Tmpl.render`, case `.loop`,
Model/Tmpl/Render.lean) evaluates `cx.groupBy set0 key`, renders nothing when it is `none`, and otherwise
iterates the members of the returned object in slot order, skipping undefined values (`loopIter`), the loop
key being the member name.  `groupByTmpl` is the instance of `cx.groupBy` given by the GroupBy model.  The
theorem: for every set that is a non-empty array of objects each holding the key, that instance returns an
object whose iterated members (`tmplGroupView`) are exactly the groups of `groupBySpec`, in the same order,
each group listing its elements' members (copies) in input order.
-/
namespace Qentem.Props.C18
open Qentem.Value Qentem.Value.Doc

theorem isUndefined_ofValue (v : Doc) : (ofValue v).isUndefined = v.isUndef := by
  cases v <;> simp [ofValue, Qentem.Tmpl.Doc.isUndefined, isUndef]

theorem ofValueItems_eq_map (l : List Doc) : ofValueItems l = l.map ofValue := by
  induction l with
  | nil => simp [ofValueItems]
  | cons a t ih => simp [ofValueItems, ih]

theorem toValueItems_eq_map (l : List Qentem.Tmpl.Doc) : toValueItems l = l.map toValue := by
  induction l with
  | nil => simp [toValueItems]
  | cons a t ih => simp [toValueItems, ih]

def kvOf (kv : Key × Doc) : List Nat × Qentem.Tmpl.Doc := (kv.1, ofValue kv.2)

/-- translate the leaves of a group view. -/
def viewOfValue (g : List (Key × List (List (Key × Doc)))) :
    List (List Nat × List (List (List Nat × Qentem.Tmpl.Doc))) :=
  g.map (fun e => (e.1, e.2.map (fun m => m.map kvOf)))

def itemView (it : Doc) : List (Key × Doc) :=
  match it with
  | obj _ s => members s
  | _ => []

def valueView (v : Doc) : List (List (Key × Doc)) :=
  match v with
  | arr items => items.map itemView
  | _ => []

theorem groupView_eq (c : Nat) (s : List Slot) :
    groupView (obj c s) = (members s).map (fun g => (g.1, valueView g.2)) := by
  simp only [groupView]
  apply List.map_congr_left
  intro g _
  cases g.2 <;> rfl

theorem tmplMembers_ofValueSlots (s : List Slot) : tmplMembers (ofValueSlots s) = (members s).map kvOf := by
  induction s with
  | nil => simp [ofValueSlots, tmplMembers, members]
  | cons a t ih =>
    cases a with
    | none => simpa [ofValueSlots, members] using ih
    | some e =>
      obtain ⟨k, v⟩ := e
      simp only [tmplMembers] at ih
      by_cases hv : v.isUndef = true
      · simp [ofValueSlots, tmplMembers, members, isUndefined_ofValue, hv, ih]
      · simp [ofValueSlots, tmplMembers, members, isUndefined_ofValue, hv, ih, kvOf]

theorem itemView_ofValue (it : Doc) : tmplItemView (ofValue it) = (itemView it).map kvOf := by
  cases it <;> simp [ofValue, tmplItemView, itemView, tmplMembers_ofValueSlots]

theorem valueView_ofValue (v : Doc) : tmplValueView (ofValue v) = (valueView v).map (fun m => m.map kvOf) := by
  cases v with
  | arr items =>
    simp only [ofValue, tmplValueView, valueView, ofValueItems_eq_map, List.map_map]
    apply List.map_congr_left
    intro it _
    exact itemView_ofValue it
  | _ => simp [ofValue, tmplValueView, valueView]

/-- what the loop iterates of a translated result is the translation of the result's group view. -/
theorem tmplGroupView_ofValue (d : Doc) : tmplGroupView (ofValue d) = viewOfValue (groupView d) := by
  cases d with
  | obj c s =>
    rw [groupView_eq]
    simp only [ofValue, tmplGroupView, viewOfValue, tmplMembers_ofValueSlots, List.map_map]
    apply List.map_congr_left
    intro g _
    simp only [Function.comp, kvOf]
    rw [valueView_ofValue g.2]
  | _ => simp [ofValue, tmplGroupView, groupView, viewOfValue]

/-- **the `group=` loop iterates the specification's partition.** -/
theorem loop_group_same_partition (fmtReal : Nat → List Nat) (key : Key) (it : Qentem.Tmpl.Doc)
    (rest : List Qentem.Tmpl.Doc)
    (hgood : ∀ x ∈ it :: rest, GoodItem fmtReal [] key (toValue x)) :
    ∃ grouped g, groupByTmpl fmtReal (.arr (it :: rest)) key = some grouped ∧
      groupBySpec (groupText fmtReal []) key ((it :: rest).map (fun x => itemMembers (toValue x))) [] = some g ∧
      tmplGroupView grouped = viewOfValue (copyView g) := by
  have hitems : toValue (.arr (it :: rest)) = arr (toValue it :: rest.map toValue) := by
    simp [toValue, toValueItems, toValueItems_eq_map]
  obtain ⟨g, h1, h2, h3⟩ := groupBy_eq_spec fmtReal [] key (toValue it) (rest.map toValue) undef
    (by
      intro x hx
      simp only [List.mem_cons, List.mem_map] at hx
      rcases hx with rfl | ⟨y, hy, rfl⟩
      · exact hgood it List.mem_cons_self
      · exact hgood y (List.mem_cons_of_mem _ hy))
  refine ⟨ofValue (groupByA fmtReal [] (arr (toValue it :: rest.map toValue)) key undef).2, g, ?_, ?_, ?_⟩
  · simp [groupByTmpl, hitems, h2]
  · simpa [List.map_map, Function.comp_def] using h1
  · rw [tmplGroupView_ofValue, h3]

/-! non-vacuity: a template-side object with a removed member (`undefined` value) is a `GoodItem`. -/
example : GoodItem (fun _ => []) [] [121] (toValue (.obj [([109], .undefined), ([121], .nat 1)])) :=
  ⟨2, [none, some ([121], nat 1)], by simp [toValue, toValueMembers],
   by simp [keysNodup, keysOf, liveEntries], by simp [allDefined, isUndef], nat 1, by simp [slotFind],
   by simp [groupText, setCharAndLength, copyValueTo, deref, derefF]⟩

end Qentem.Props.C18
