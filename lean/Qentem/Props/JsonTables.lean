import Qentem.Generated.Json
import Qentem.Model.Json
import Qentem.Model.JsonStringify
/-! T1 for the JSON area: the notation constants compiled from the current headers are the ones
the models are written with, for every character width. A changed literal breaks this file. -/
namespace Qentem.Props.JsonTables
open Qentem.Json Qentem.Generated.Json

def expectStructural : List Nat := [cQuote, cComma, cColon, cSCurly, cECurly, cSSquare, cESquare, 47, 92]

theorem notation_tables :
    [W1.structural, W2.structural, W4.structural, WW.structural] = List.replicate 4 expectStructural ∧
    [W1.controls, W2.controls, W4.controls, WW.controls] = List.replicate 4 [8, 9, 10, 12, 13] ∧
    [W1.escapeLetters, W2.escapeLetters, W4.escapeLetters, WW.escapeLetters] = List.replicate 4 [98, 116, 110, 102, 114, 117, 85] ∧
    [W1.replacement, W2.replacement, W4.replacement, WW.replacement] =
      List.replicate 4 [0, 0, 0, 0, 0, 0, 0, 0, 98, 116, 110, 0, 102, 114] ∧
    [W1.trueString, W2.trueString, W4.trueString, WW.trueString] = List.replicate 4 (116 :: trueTail ++ [0]) ∧
    [W1.falseString, W2.falseString, W4.falseString, WW.falseString] = List.replicate 4 (102 :: falseTail ++ [0]) ∧
    [W1.nullString, W2.nullString, W4.nullString, WW.nullString] = List.replicate 4 (110 :: nullTail ++ [0]) ∧
    [W1.whitespace, W2.whitespace, W4.whitespace, WW.whitespace] = List.replicate 4 [32, 10, 9, 13] ∧
    (∀ c ∈ [32, 10, 9, 13], isWs c = true) ∧
    strTrue = 116 :: trueTail ∧ strFalse = 102 :: falseTail ∧ strNull = 110 :: nullTail := by
  decide

/-- The escape table agrees with the serializer model: control `c` with a short form is written as
backslash + `replacement[c]`. -/
theorem replacement_matches_escapeJson :
    ∀ c ∈ [8, 9, 10, 12, 13], escapeJson [c] = [92, W1.replacement[c]!] := by decide

end Qentem.Props.JsonTables
