import Qentem.Proofs.JsonGrammar
/-! C06 — every RFC 8259 document parses to the value it denotes. -/
namespace Qentem.Props.C06
open Qentem.Json

/-- Main theorem: for every well-formed document (`WF`: whitespace runs are RFC whitespace, each
string body / numeral token meets the contract of the sub-routine that reads it), printed with
any layout and surrounded by optional whitespace, `JSON::Parse` returns exactly the denoted
value: same structure and member order, duplicate keys resolved as "last value at the first
key's position". -/
theorem parse_print (d : Deps) (hd : DepsSafe d) (doc : JDoc) (hwf : WF d doc) (wsL wsR : Ws)
    (hL : AllWs wsL) (hR : AllWs wsR) (hsz : (wsL ++ doc.print ++ wsR).length < 2 ^ 32) :
    parse d (wsL ++ doc.print ++ wsR).toArray = .ok doc.denote :=
  Qentem.Json.parse_print d hd doc hwf wsL wsR hL hR hsz

/-- Duplicate keys: inserting an existing key keeps its position and replaces its value. -/
theorem objInsert_last_wins_first_position (pre post : List (List Nat × JVal)) (k : List Nat) (v v' : JVal)
    (hpre : ∀ p ∈ pre, p.1 ≠ k) :
    objInsert (pre ++ (k, v) :: post) k v' = pre ++ (k, v') :: post := by
  induction pre with
  | nil => simp [objInsert]
  | cons p pre ih =>
    have hp : p.1 ≠ k := hpre p (by simp)
    obtain ⟨pk, pv⟩ := p
    simp only [List.cons_append, objInsert]
    rw [if_neg hp, ih (fun q hq => hpre q (by simp [hq]))]

/-- A new key is appended after all existing members, which stay untouched. -/
theorem objInsert_new_key_appended (ms : List (List Nat × JVal)) (k : List Nat) (v : JVal)
    (hnew : ∀ p ∈ ms, p.1 ≠ k) : objInsert ms k v = ms ++ [(k, v)] := by
  induction ms with
  | nil => simp [objInsert]
  | cons p ms ih =>
    have hp : p.1 ≠ k := hnew p (by simp)
    obtain ⟨pk, pv⟩ := p
    simp only [objInsert, List.cons_append]
    rw [if_neg hp, ih (fun q hq => hnew q (by simp [hq]))]

/-- Non-vacuity of `WF`: a nested document with whitespace, an empty object and keywords is
well-formed for any sub-routines (it has no string or number token). -/
example (d : Deps) : WF d (.arr [32] [([], .tru, [10]), ([9], .obj [] [], []), ([], .null, [])]) := by
  simp [WF, WFItems, WFMembers, AllWs, isWs]

end Qentem.Props.C06
