import Qentem.Proofs.JsonGrammar
import Qentem.Proofs.JsonTokens
/-! C06 — every RFC 8259 document parses to the value it denotes. -/
namespace Qentem.Props.C06
open Qentem.Json

/-- Main theorem: for every well-formed document (`WF`: whitespace runs are RFC whitespace, each
string body / numeral token meets the contract of the sub-routine that reads it), printed with
any layout and surrounded by optional whitespace, `JSON::Parse` returns exactly the denoted
value: same structure and member order, duplicate keys resolved as "last value at the first
key's position". -/
theorem parse_print (d : Deps) (hd : DepsSafe d) (doc : JDoc) (hwf : WF d doc) (wsL wsR : Ws)
    (hL : AllWs wsL) (hR : AllWs wsR) (hsz : (wsL ++ doc.print ++ wsR).length < 2 ^ 32) :
    parse d (wsL ++ doc.print ++ wsR).toArray = .ok doc.denote :=
  Qentem.Json.parse_print d hd doc hwf wsL wsR hL hR hsz

/-- The same for the parser as it is linked (UnEscape and StringToNumber models, any width). -/
theorem parse_print_concrete (w : Nat) (doc : JDoc) (hwf : WF (jsonDeps w) doc) (wsL wsR : Ws)
    (hL : AllWs wsL) (hR : AllWs wsR) (hsz : (wsL ++ doc.print ++ wsR).length < 2 ^ 32) :
    parse (jsonDeps w) (wsL ++ doc.print ++ wsR).toArray = .ok doc.denote :=
  Qentem.Json.parse_print (jsonDeps w) (jsonDeps_safe w) doc hwf wsL wsR hL hR hsz

/-! Token contracts discharged for the linked sub-routines. -/

/-- unsigned decimal integers below 2^64: exact Natural -/
theorem token_natural (w d1 : Nat) (xs : List Nat) (h1 : Qentem.StrToNum.isNonZeroDigit d1 = true)
    (hxs : Qentem.StrToNum.AllDigits xs) (hv : Qentem.StrToNum.decVal (d1 :: xs) < 2 ^ 64) :
    NumSpec (jsonDeps w) (d1 :: xs) .natural (Qentem.StrToNum.decVal (d1 :: xs)) :=
  numSpec_natural w d1 xs h1 hxs hv

/-- negative decimal integers down to −2^63: exact Integer -/
theorem token_negative (w d1 : Nat) (xs : List Nat) (h1 : Qentem.StrToNum.isNonZeroDigit d1 = true)
    (hxs : Qentem.StrToNum.AllDigits xs) (hv : Qentem.StrToNum.decVal (d1 :: xs) ≤ 2 ^ 63) :
    NumSpec (jsonDeps w) (45 :: d1 :: xs) .integer (2 ^ 64 - Qentem.StrToNum.decVal (d1 :: xs)) :=
  numSpec_negative w d1 xs h1 hxs hv

theorem token_zero (w : Nat) : NumSpec (jsonDeps w) [48] .natural 0 := numSpec_zero w

/-- every string body that `JSONUtils::Escape` can write (all short escapes, `\u00XX` controls, raw
units of any width) decodes to the string it was written from -/
theorem token_escaped_string (w : Nat) (s : List Nat) : StrSpec (jsonDeps w) (escapeJson s) s :=
  strSpec_escaped w s

/-- every RFC 8259 string body (plain units of any width, the eight short escapes, `\\uXXXX` in
either hex case, surrogate pairs) decodes to the concatenation of what its tokens denote; C20's
`utf8_decode_encode` / `utf16_decode_encode` / `surrogate_pair` say what those are -/
theorem token_string_body (w : Nat) (ts : List Qentem.Unicode.Tok) (hok : ∀ t ∈ ts, t.ok = true) :
    StrSpec (jsonDeps w) (ts.flatMap Qentem.Unicode.Tok.src) (ts.flatMap (Qentem.Unicode.Tok.out w)) :=
  strSpec_tokens w ts hok

/-- Non-vacuity with real tokens: `{"a\n":[-12, 0], "":7}` with whitespace is well-formed for the
linked sub-routines, so `parse_print_concrete` applies to it. -/
example : WF (jsonDeps 1) (.obj [32]
    [([], escapeJson [97, 10], [97, 10], [], [32], .arr [] [([], .num [45, 49, 50] .integer (2 ^ 64 - 12), []), ([32], .num [48] .natural 0, [])], []),
     ([10], escapeJson [], [], [], [], .num [55] .natural 7, [9])]) := by
  refine ⟨by simp [AllWs, isWs], ⟨by simp [AllWs], strSpec_escaped 1 _, by simp [AllWs], by simp [AllWs, isWs], ?_, by simp [AllWs], ?_⟩⟩
  · refine ⟨by simp [AllWs], ⟨by simp [AllWs], ?_, by simp [AllWs], ⟨by simp [AllWs, isWs], numSpec_zero 1, by simp [AllWs], trivial⟩⟩⟩
    have := numSpec_negative 1 49 [50] (by decide) (by intro x hx; simp at hx; subst hx; decide) (by decide)
    simpa [WF, Qentem.StrToNum.decVal] using this
  · refine ⟨by simp [AllWs, isWs], strSpec_escaped 1 _, by simp [AllWs], by simp [AllWs], ?_, by simp [AllWs, isWs], trivial⟩
    have := numSpec_natural 1 55 [] (by decide) (by intro x hx; simp at hx) (by decide)
    simpa [WF, Qentem.StrToNum.decVal] using this

/-- Duplicate keys: inserting an existing key keeps its position and replaces its value. -/
theorem objInsert_last_wins_first_position (pre post : List (List Nat × JVal)) (k : List Nat) (v v' : JVal)
    (hpre : ∀ p ∈ pre, p.1 ≠ k) :
    objInsert (pre ++ (k, v) :: post) k v' = pre ++ (k, v') :: post := by
  induction pre with
  | nil => simp [objInsert]
  | cons p pre ih =>
    have hp : p.1 ≠ k := hpre p (by simp)
    obtain ⟨pk, pv⟩ := p
    simp only [List.cons_append, objInsert]
    rw [if_neg hp, ih (fun q hq => hpre q (by simp [hq]))]

/-- A new key is appended after all existing members, which stay untouched. -/
theorem objInsert_new_key_appended (ms : List (List Nat × JVal)) (k : List Nat) (v : JVal)
    (hnew : ∀ p ∈ ms, p.1 ≠ k) : objInsert ms k v = ms ++ [(k, v)] := by
  induction ms with
  | nil => simp [objInsert]
  | cons p ms ih =>
    have hp : p.1 ≠ k := hnew p (by simp)
    obtain ⟨pk, pv⟩ := p
    simp only [objInsert, List.cons_append]
    rw [if_neg hp, ih (fun q hq => hnew q (by simp [hq]))]

/-- Non-vacuity of `WF`: a nested document with whitespace, an empty object and keywords is
well-formed for any sub-routines (it has no string or number token). -/
example (d : Deps) : WF d (.arr [32] [([], .tru, [10]), ([9], .obj [] [], []), ([], .null, [])]) := by
  simp [WF, WFItems, WFMembers, AllWs, isWs]

end Qentem.Props.C06
