import Qentem.Proofs.JsonGrammar
import Qentem.Proofs.JsonTokens
import Qentem.Proofs.StrToNumReloc
/-! C06 — every RFC 8259 document parses to the value it denotes. -/
namespace Qentem.Props.C06
open Qentem.Json

/-- Main theorem: for every well-formed document (`WF`: whitespace runs are RFC whitespace, each
string body / numeral token meets the contract of the sub-routine that reads it), printed with
any layout and surrounded by optional whitespace, `JSON::Parse` returns exactly the denoted
value: same structure and member order, duplicate keys resolved as "last value at the first
key's position". -/
theorem parse_print (d : Deps) (hd : DepsSafe d) (doc : JDoc) (hwf : WF d doc) (wsL wsR : Ws)
    (hL : AllWs wsL) (hR : AllWs wsR) (hsz : (wsL ++ doc.print ++ wsR).length < 2 ^ 32) :
    parse d (wsL ++ doc.print ++ wsR).toArray = .ok doc.denote :=
  Qentem.Json.parse_print d hd doc hwf wsL wsR hL hR hsz

/-- The same for the parser as it is linked (UnEscape and StringToNumber models, any width). -/
theorem parse_print_concrete (w : Nat) (doc : JDoc) (hwf : WF (jsonDeps w) doc) (wsL wsR : Ws)
    (hL : AllWs wsL) (hR : AllWs wsR) (hsz : (wsL ++ doc.print ++ wsR).length < 2 ^ 32) :
    parse (jsonDeps w) (wsL ++ doc.print ++ wsR).toArray = .ok doc.denote :=
  Qentem.Json.parse_print (jsonDeps w) (jsonDeps_safe w) doc hwf wsL wsR hL hR hsz

/-! Token contracts discharged for the linked sub-routines. -/

/-- unsigned decimal integers below 2^64: exact Natural -/
theorem token_natural (w d1 : Nat) (xs : List Nat) (h1 : Qentem.StrToNum.isNonZeroDigit d1 = true)
    (hxs : Qentem.StrToNum.AllDigits xs) (hv : Qentem.StrToNum.decVal (d1 :: xs) < 2 ^ 64) :
    NumSpec (jsonDeps w) (d1 :: xs) .natural (Qentem.StrToNum.decVal (d1 :: xs)) :=
  numSpec_natural w d1 xs h1 hxs hv

/-- negative decimal integers down to −2^63: exact Integer -/
theorem token_negative (w d1 : Nat) (xs : List Nat) (h1 : Qentem.StrToNum.isNonZeroDigit d1 = true)
    (hxs : Qentem.StrToNum.AllDigits xs) (hv : Qentem.StrToNum.decVal (d1 :: xs) ≤ 2 ^ 63) :
    NumSpec (jsonDeps w) (45 :: d1 :: xs) .integer (2 ^ 64 - Qentem.StrToNum.decVal (d1 :: xs)) :=
  numSpec_negative w d1 xs h1 hxs hv

theorem token_zero (w : Nat) : NumSpec (jsonDeps w) [48] .natural 0 := numSpec_zero w

/-- `token_real`: **every RFC 8259 numeral** (`[-] int [frac] [exp]`, any length, any exponent) meets the token
contract with `kind`/`bits` = what `StringToNumber` returns on the numeral alone: embedded at any offset of any
document and followed by a delimiter or the end, the routine consumes exactly the numeral and returns the same
result (`Proofs/StrToNumReloc.lean`: the scanner reads nothing beyond the token except one look-ahead unit).  The
standalone run is a closed computation (`decide`); how accurate its `bits` are is C09's statement. -/
theorem token_real (w : Nat) (tok : List Nat) (k : Qentem.StrToNum.Kind) (bits : Nat) (hrfc : RfcNumeral tok)
    (hrun : Qentem.StrToNum.strToNum tok 0 tok.length = some ⟨k, bits, tok.length⟩) (hk : k ≠ .notANumber) :
    NumSpec (jsonDeps w) tok (kindOf k) bits :=
  numSpec_of_standalone w tok k bits hrfc hrun hk

/-- non-vacuity: `-0.25e-3`, `1.5` and a 23-digit mantissa with fraction and exponent are RFC numerals whose
standalone runs are closed computations -/
example : NumSpec (jsonDeps 1) [45, 48, 46, 50, 53, 101, 45, 51] .real 0xBF30624DD2F1A9FC :=
  token_real 1 _ .real _ ⟨[45], [48], [46, 50, 53], [101, 45, 51], rfl, Or.inr rfl, Or.inl rfl,
    Or.inr ⟨[50, 53], rfl, by simp, by intro x hx; simp at hx; rcases hx with rfl | rfl <;> decide⟩,
    Or.inr ⟨101, [45], [51], rfl, Or.inl rfl, Or.inr (Or.inr rfl), by simp, by intro x hx; simp at hx; subst hx; decide⟩⟩
    (by decide) (by decide)

example : NumSpec (jsonDeps 1) [49, 46, 53] .real 0x3FF8000000000000 :=
  token_real 1 _ .real _ ⟨[], [49], [46, 53], [], rfl, Or.inl rfl, Or.inr ⟨49, [], rfl, by decide, by intro x hx; cases hx⟩,
    Or.inr ⟨[53], rfl, by simp, by intro x hx; simp at hx; subst hx; decide⟩, Or.inl rfl⟩ (by decide) (by decide)

/-- every string body that `JSONUtils::Escape` can write (all short escapes, `\u00XX` controls, raw
units of any width) decodes to the string it was written from -/
theorem token_escaped_string (w : Nat) (s : List Nat) : StrSpec (jsonDeps w) (escapeJson s) s :=
  strSpec_escaped w s

/-- every RFC 8259 string body (plain units of any width, the eight short escapes, `\\uXXXX` in
either hex case, surrogate pairs) decodes to the concatenation of what its tokens denote; C20's
`utf8_decode_encode` / `utf16_decode_encode` / `surrogate_pair` say what those are -/
theorem token_string_body (w : Nat) (ts : List Qentem.Unicode.Tok) (hok : ∀ t ∈ ts, t.ok = true) :
    StrSpec (jsonDeps w) (ts.flatMap Qentem.Unicode.Tok.src) (ts.flatMap (Qentem.Unicode.Tok.out w)) :=
  strSpec_tokens w ts hok

/-- Non-vacuity with real tokens: `{"a\n":[-12, 0], "":7}` with whitespace is well-formed for the
linked sub-routines, so `parse_print_concrete` applies to it. -/
example : WF (jsonDeps 1) (.obj [32]
    [([], escapeJson [97, 10], [97, 10], [], [32], .arr [] [([], .num [45, 49, 50] .integer (2 ^ 64 - 12), []), ([32], .num [48] .natural 0, [])], []),
     ([10], escapeJson [], [], [], [], .num [55] .natural 7, [9])]) := by
  refine ⟨by simp [AllWs, isWs], ⟨by simp [AllWs], strSpec_escaped 1 _, by simp [AllWs], by simp [AllWs, isWs], ?_, by simp [AllWs], ?_⟩⟩
  · refine ⟨by simp [AllWs], ⟨by simp [AllWs], ?_, by simp [AllWs], ⟨by simp [AllWs, isWs], numSpec_zero 1, by simp [AllWs], trivial⟩⟩⟩
    have := numSpec_negative 1 49 [50] (by decide) (by intro x hx; simp at hx; subst hx; decide) (by decide)
    simpa [WF, Qentem.StrToNum.decVal] using this
  · refine ⟨by simp [AllWs, isWs], strSpec_escaped 1 _, by simp [AllWs], by simp [AllWs], ?_, by simp [AllWs, isWs], trivial⟩
    have := numSpec_natural 1 55 [] (by decide) (by intro x hx; simp at hx) (by decide)
    simpa [WF, Qentem.StrToNum.decVal] using this

/-- Duplicate keys: inserting an existing key keeps its position and replaces its value. -/
theorem objInsert_last_wins_first_position (pre post : List (List Nat × JVal)) (k : List Nat) (v v' : JVal)
    (hpre : ∀ p ∈ pre, p.1 ≠ k) :
    objInsert (pre ++ (k, v) :: post) k v' = pre ++ (k, v') :: post := by
  induction pre with
  | nil => simp [objInsert]
  | cons p pre ih =>
    have hp : p.1 ≠ k := hpre p (by simp)
    obtain ⟨pk, pv⟩ := p
    simp only [List.cons_append, objInsert]
    rw [if_neg hp, ih (fun q hq => hpre q (by simp [hq]))]

/-- A new key is appended after all existing members, which stay untouched. -/
theorem objInsert_new_key_appended (ms : List (List Nat × JVal)) (k : List Nat) (v : JVal)
    (hnew : ∀ p ∈ ms, p.1 ≠ k) : objInsert ms k v = ms ++ [(k, v)] := by
  induction ms with
  | nil => simp [objInsert]
  | cons p ms ih =>
    have hp : p.1 ≠ k := hnew p (by simp)
    obtain ⟨pk, pv⟩ := p
    simp only [objInsert, List.cons_append]
    rw [if_neg hp, ih (fun q hq => hnew q (by simp [hq]))]

/-- Non-vacuity of `WF`: a nested document with whitespace, an empty object and keywords is
well-formed for any sub-routines (it has no string or number token). -/
example (d : Deps) : WF d (.arr [32] [([], .tru, [10]), ([9], .obj [] [], []), ([], .null, [])]) := by
  simp [WF, WFItems, WFMembers, AllWs, isWs]

end Qentem.Props.C06
