import Qentem.Model.NumToStr
import Qentem.Model.FmtSpec
import Qentem.Proofs.NumToStrRound
import Qentem.Proofs.NumToStrParse
import Qentem.Props.C10
import Qentem.Proofs.NumToStrIdent
import Qentem.Proofs.NumToStrMargin
/-! C11 — every finite double survives format(17 digits) then parse, bit for bit; every float
survives 9 digits.

The parser (`Digit::StringToNumber`) is modelled in another area; nothing here depends on it.
The round trip is stated over an abstract `parse : List Nat → Option Nat` (text ↦ bit pattern)
and split into a formatter half that only mentions this area's model and the exact reference
reading `FmtSpec.readBits64` (IEEE 754 round-to-nearest-even of the exact decimal value), and a
parser half. -/
namespace Qentem.Props.C11
open Qentem.NumToStr Qentem

def isFinite64 (b : Nat) : Prop := b < 2 ^ 64 ∧ (b / 2 ^ 52) % 2 ^ 11 ≠ 2 ^ 11 - 1
def isFinite32 (b : Nat) : Prop := b < 2 ^ 32 ∧ (b / 2 ^ 23) % 2 ^ 8 ≠ 2 ^ 8 - 1

instance (b : Nat) : Decidable (isFinite64 b) := by unfold isFinite64; infer_instance
instance (b : Nat) : Decidable (isFinite32 b) := by unfold isFinite32; infer_instance

/-- **C11, full statement** (open): formatting with 17 significant digits never fails and the
parser maps the text back to the same bits. -/
def RoundTrip17 (parse : List Nat → Option Nat) : Prop :=
  ∀ b, isFinite64 b → ∃ t, format17 b = .ok t ∧ parse t = some b

/-- floats, 9 digits -/
def RoundTrip9 (parse : List Nat → Option Nat) : Prop :=
  ∀ b, isFinite32 b → ∃ t, format9 b = .ok t ∧ parse t = some b

/-- Formatter half (open): the 17-digit text identifies `b` — its exact decimal value rounds
(nearest, ties to even) to `b`. -/
def Identifies17 : Prop :=
  ∀ b, isFinite64 b → ∃ t, format17 b = .ok t ∧ FmtSpec.readBits64 t = some b

def Identifies9 : Prop :=
  ∀ b, isFinite32 b → ∃ t, format9 b = .ok t ∧ FmtSpec.readBits32 t = some b

/-- Parser half: on the texts the formatter emits, the parser returns the correctly rounded value. -/
def ParsesExactly17 (parse : List Nat → Option Nat) : Prop :=
  ∀ b t, isFinite64 b → format17 b = .ok t → parse t = FmtSpec.readBits64 t

def ParsesExactly9 (parse : List Nat → Option Nat) : Prop :=
  ∀ b t, isFinite32 b → format9 b = .ok t → parse t = FmtSpec.readBits32 t

/-- The decomposition is sound: the two halves give the round trip, for any parser. -/
theorem roundtrip17_of_halves (parse : List Nat → Option Nat)
    (hf : Identifies17) (hp : ParsesExactly17 parse) : RoundTrip17 parse := by
  intro b hb
  obtain ⟨t, ht, hr⟩ := hf b hb
  exact ⟨t, ht, by rw [hp b t hb ht, hr]⟩

theorem roundtrip9_of_halves (parse : List Nat → Option Nat)
    (hf : Identifies9) (hp : ParsesExactly9 parse) : RoundTrip9 parse := by
  intro b hb
  obtain ⟨t, ht, hr⟩ := hf b hb
  exact ⟨t, ht, by rw [hp b t hb ht, hr]⟩

/-- `Identifies17` restricted to a set of bit patterns -/
def Identifies17On (P : Nat → Prop) : Prop :=
  ∀ b, P b → ∃ t, format17 b = .ok t ∧ FmtSpec.readBits64 t = some b

def Identifies9On (P : Nat → Prop) : Prop :=
  ∀ b, P b → ∃ t, format9 b = .ok t ∧ FmtSpec.readBits32 t = some b

/-- partial: both zeros (`0`, `-0`) -/
theorem identifies17_zero : Identifies17On (fun b => b = 0 ∨ b = 2 ^ 63) := by
  intro b hb
  rcases hb with rfl | rfl
  · exact ⟨[48], by decide +kernel, by decide +kernel⟩
  · exact ⟨[45, 48], by decide +kernel, by decide +kernel⟩

theorem identifies9_zero : Identifies9On (fun b => b = 0 ∨ b = 2 ^ 31) := by
  intro b hb
  rcases hb with rfl | rfl
  · exact ⟨[48], by decide +kernel, by decide +kernel⟩
  · exact ⟨[45, 48], by decide +kernel, by decide +kernel⟩

/-- partial (`roundtrip_small_int`): for every double that holds an integer of magnitude below 2^53
(either sign) the 17-digit text is exactly the decimal numeral of that integer — no fault, no
exponent form, no rounding — and the reference reader recovers exactly the same value
`n · den / den` that the bit pattern decodes to.  Hence *any* parser that is exact on integer numerals
of at most 16 digits (C09's `int_exact`) returns the original double. -/
theorem roundtrip_small_int (bits j : Nat)
    (h : Qentem.Proofs.NumToStr.IntValued64 ((bits / 2 ^ 52) % 2 ^ 11) (bits % 2 ^ 52) j)
    (hsmall : (bits / 2 ^ 52) % 2 ^ 11 - 1023 ≤ 52) :
    ∃ t neg n den, 0 < den ∧ format17 bits = .ok t ∧
      FmtSpec.readDecimal t = some (neg, n, 1) ∧ FmtSpec.decode64 bits = .fin neg (n * den) den := by
  obtain ⟨den, hden, hdec⟩ := Qentem.Proofs.NumToStr.decode64_int h
  exact ⟨_, _, _, den, hden, Qentem.Proofs.NumToStr.format17_small_int bits j h hsmall,
    Qentem.Proofs.NumToStr.readDecimal_signed_D _ _, hdec⟩

/-- `roundtrip17_integers_parser`: the round trip **through the real parser model** (`StrToNum.strToNum`, C09)
for every double holding an integer `n` with `0 < n < 2^53`, either sign: `NumberToString(17)` prints a text `t`
on which `stringToNumber` returns kind Natural with value exactly `n` (kind Integer with the two's-complement
pattern of `-n` for negative values) and consumes all of `t`; `n·den/den` is the value the bit pattern decodes
to.  The library's `double(n)` of an integer below 2^53 is exact, so the original bits come back. -/
theorem roundtrip17_integers_parser (bits j : Nat)
    (h : Qentem.Proofs.NumToStr.IntValued64 ((bits / 2 ^ 52) % 2 ^ 11) (bits % 2 ^ 52) j)
    (hsmall : (bits / 2 ^ 52) % 2 ^ 11 - 1023 ≤ 52) :
    ∃ t n den, 0 < den ∧ format17 bits = .ok t ∧
      FmtSpec.decode64 bits = .fin (decide (bits / 2 ^ 63 % 2 = 1)) (n * den) den ∧
      StrToNum.strToNum t 0 t.length =
        some (if bits / 2 ^ 63 % 2 = 1 then ⟨.integer, 2 ^ 64 - n, t.length⟩ else ⟨.natural, n, t.length⟩) :=
  Qentem.Proofs.NumToStr.roundtrip17_int_parser bits j h hsmall

/-- **The remaining gap of `RoundTrip17`, stated precisely.**  `FormatEqSpec` is proved, so the 17-digit text is
the correctly rounded decimal (`format17_is_reference`), and `Identifies17` is proved below (`identifies17`).  What
is still needed is the parser half alone (`roundtrip17_of_parser`):
* `ParsesExactly17` — the parser returns the nearest double on those numerals; C09 proves exactness for the
  integer shape only (used above), its real path is proved safe and well-formed but its rounding
  (`real_within_one_ulp`) is open, and one ulp would not be enough for the round trip anyway. -/
def RoundTrip17Gap (parse : List Nat → Option Nat) : Prop := Identifies17 ∧ ParsesExactly17 parse

theorem roundtrip17_of_gap (parse : List Nat → Option Nat) (h : RoundTrip17Gap parse) : RoundTrip17 parse :=
  roundtrip17_of_halves parse h.1 h.2

/-! ### the formatter half after `FormatEqSpec`

`Props.C10.format_eq_spec` makes the 17-digit (9-digit) text *equal to the reference `%.17g` (`%.9g`) text* for every
bit pattern.  The formatter half of the round trip therefore no longer mentions the code: it is a statement about
the reference alone. -/

/-- `format17_is_reference`: for **every** bit pattern the 17-digit text of the model is the reference `%.17g` text,
and the run raises no fault -/
theorem format17_is_reference (b : Nat) : format17 b = .ok (FmtSpec.format64 b 17 .default) := by
  have := Qentem.Props.C10.format_eq_spec_double [] b 17 Qentem.Generated.NumToStr.fmtDefault (by decide) (by decide)
  have hf : Qentem.Props.C10.specFmt Qentem.Generated.NumToStr.fmtDefault = .default := by decide
  rw [hf] at this
  simpa [format17, realText] using this

theorem format9_is_reference (b : Nat) : format9 b = .ok (FmtSpec.format32 b 9 .default) := by
  have := Qentem.Props.C10.format_eq_spec_float [] b 9 Qentem.Generated.NumToStr.fmtDefault (by decide) (by decide)
  have hf : Qentem.Props.C10.specFmt Qentem.Generated.NumToStr.fmtDefault = .default := by decide
  rw [hf] at this
  simpa [format9, realText] using this

/-- the purely mathematical core of the formatter half: a binary64 value printed with 17 correctly rounded
significant digits (`%.17g`) and read back exactly with round-to-nearest-even gives the same value.  A statement
about `FmtSpec` (IEEE 754 + `printf`) only — no part of the library's code occurs in it. -/
def SpecIdentifies17 : Prop :=
  ∀ b, isFinite64 b → FmtSpec.readBits64 (FmtSpec.format64 b 17 .default) = some b

def SpecIdentifies9 : Prop :=
  ∀ b, isFinite32 b → FmtSpec.readBits32 (FmtSpec.format32 b 9 .default) = some b

/-- `identifies17_of_spec`: the formatter half of C11 follows from the mathematical statement alone -/
theorem identifies17_of_spec (h : SpecIdentifies17) : Identifies17 :=
  fun b hb => ⟨_, format17_is_reference b, h b hb⟩

theorem identifies9_of_spec (h : SpecIdentifies9) : Identifies9 :=
  fun b hb => ⟨_, format9_is_reference b, h b hb⟩

/-- the parser half, now on reference texts only -/
def ParsesReference17 (parse : List Nat → Option Nat) : Prop :=
  ∀ b, isFinite64 b → parse (FmtSpec.format64 b 17 .default) = FmtSpec.readBits64 (FmtSpec.format64 b 17 .default)

def ParsesReference9 (parse : List Nat → Option Nat) : Prop :=
  ∀ b, isFinite32 b → parse (FmtSpec.format32 b 9 .default) = FmtSpec.readBits32 (FmtSpec.format32 b 9 .default)

/-- `roundtrip17_reduced`: **what is left of C11 after `FormatEqSpec`** — no statement about the formatter's code
remains.  The round trip holds for any parser as soon as (1) 17 correctly rounded digits identify a double
(`SpecIdentifies17`, mathematics) and (2) the parser rounds `%.17g`-shaped numerals correctly (`ParsesReference17`,
the StringToNumber area: C09 proves this for the integer shape only). -/
theorem roundtrip17_reduced (parse : List Nat → Option Nat) (h1 : SpecIdentifies17) (h2 : ParsesReference17 parse) :
    RoundTrip17 parse :=
  fun b hb => ⟨_, format17_is_reference b, by rw [h2 b hb, h1 b hb]⟩

theorem roundtrip9_reduced (parse : List Nat → Option Nat) (h1 : SpecIdentifies9) (h2 : ParsesReference9 parse) :
    RoundTrip9 parse :=
  fun b hb => ⟨_, format9_is_reference b, by rw [h2 b hb, h1 b hb]⟩

/-! ### the formatter half, proved -/

/-- `spec_identifies17`: **17 correctly rounded significant digits identify a binary64 value** — for every finite
double (subnormals, both zeros included) the reference `%.17g` text, read exactly and rounded to nearest-even, is
the same bit pattern.  (The classical `2^53 < 10^16` argument: the decimal step at 17 digits is smaller than the
binary step, and smaller than half of it at the bottom of a binade.)  About the reference only. -/
theorem spec_identifies17 : SpecIdentifies17 :=
  fun b hb => Qentem.Proofs.Ident.spec_identifies17 b hb.1 hb.2

/-- `spec_identifies9`: 9 digits identify a binary32 value (`2^24 < 10^8`) -/
theorem spec_identifies9 : SpecIdentifies9 :=
  fun b hb => Qentem.Proofs.Ident.spec_identifies9 b hb.1 hb.2

/-- `identifies17`: **the formatter half of C11 holds**: for every finite double `NumberToString` with 17
significant digits (as modelled) raises no fault and prints a text whose exact decimal value rounds
(nearest, ties to even) to the original bits.  `format_eq_spec` (text = reference) + `spec_identifies17`. -/
theorem identifies17 : Identifies17 := identifies17_of_spec spec_identifies17

/-- `identifies9`: the same for floats with 9 digits -/
theorem identifies9 : Identifies9 := identifies9_of_spec spec_identifies9

/-- `roundtrip17_of_parser`: **C11 for any parser that rounds correctly**: the only hypothesis left is about the
parser (`ParsesExactly17`: on the texts the formatter emits it returns the nearest double). -/
theorem roundtrip17_of_parser (parse : List Nat → Option Nat) (hp : ParsesExactly17 parse) : RoundTrip17 parse :=
  roundtrip17_of_halves parse identifies17 hp

theorem roundtrip9_of_parser (parse : List Nat → Option Nat) (hp : ParsesExactly9 parse) : RoundTrip9 parse :=
  roundtrip9_of_halves parse identifies9 hp

/-! ### interface for the parser half (robust form of the formatter half) -/

open Qentem.Proofs.Ident in
/-- `text_margin17`: for every finite non-zero double the reference `%.17g` text reads as `(sign, m, d)` with
`|m/d − |x|| < 2^52/10^16 ulp(x)` (`< 0.4504 ulp`); every rational within `ulp/64` of `m/d` lies strictly between
the rounding midpoints around `|x|` (a quarter ulp below a power of two), and `FmtSpec.nearestBits` maps it to the
bits.  So a parser whose computed value is within `ulp/64` of the text's exact value and that rounds correctly
away from ties (nearest-even, half-up, …) returns `x`.  (`Proofs/NumToStrMargin.lean`; generic in the format.) -/
theorem text_margin17 (b : Nat) (hb : isFinite64 b) (hnz : (b / 2 ^ 52) % 2 ^ 11 ≠ 0 ∨ b % 2 ^ 52 ≠ 0) :
    ∃ m d : Nat, 0 < d ∧
      FmtSpec.readDecimal (FmtSpec.format64 b 17 .default) = some (decide ((b / 2 ^ 63) % 2 = 1), m, d) ∧
      |(m : ℚ) / d - magQ 52 11 b| < (2 : ℚ) ^ 52 / 10 ^ 16 * ulpQ 52 11 b ∧
      (∀ y : ℚ, |y - (m : ℚ) / d| ≤ 1 / 64 * ulpQ 52 11 b →
        magQ 52 11 b - ulpQ 52 11 b / 2 < y ∧ y < magQ 52 11 b + ulpQ 52 11 b / 2 ∧
        (sigField 52 11 b = 2 ^ 52 → magQ 52 11 b - ulpQ 52 11 b / 4 < y)) ∧
      (∀ rn rd : Nat, 0 < rd → |(rn : ℚ) / rd - (m : ℚ) / d| ≤ 1 / 64 * ulpQ 52 11 b →
        FmtSpec.nearestBits 52 11 (decide ((b / 2 ^ 63) % 2 = 1)) rn rd = b) :=
  margin17 b hb.1 hb.2 hnz

open Qentem.Proofs.Ident in
/-- `text_margin9`: the same for floats (`2^23/10^8 < 0.084 ulp`) -/
theorem text_margin9 (b : Nat) (hb : isFinite32 b) (hnz : (b / 2 ^ 23) % 2 ^ 8 ≠ 0 ∨ b % 2 ^ 23 ≠ 0) :
    ∃ m d : Nat, 0 < d ∧
      FmtSpec.readDecimal (FmtSpec.format32 b 9 .default) = some (decide ((b / 2 ^ 31) % 2 = 1), m, d) ∧
      |(m : ℚ) / d - magQ 23 8 b| < (2 : ℚ) ^ 23 / 10 ^ 8 * ulpQ 23 8 b ∧
      (∀ y : ℚ, |y - (m : ℚ) / d| ≤ 1 / 64 * ulpQ 23 8 b →
        magQ 23 8 b - ulpQ 23 8 b / 2 < y ∧ y < magQ 23 8 b + ulpQ 23 8 b / 2 ∧
        (sigField 23 8 b = 2 ^ 23 → magQ 23 8 b - ulpQ 23 8 b / 4 < y)) ∧
      (∀ rn rd : Nat, 0 < rd → |(rn : ℚ) / rd - (m : ℚ) / d| ≤ 1 / 64 * ulpQ 23 8 b →
        FmtSpec.nearestBits 23 8 (decide ((b / 2 ^ 31) % 2 = 1)) rn rd = b) :=
  margin9 b hb.1 hb.2 hnz

/-- non-vacuity / sanity: for 0.1 the fields are e1 = 1019, M = 0x1999999999999A -/
example : Qentem.Proofs.Ident.expField 52 11 0x3FB999999999999A = 1019 ∧
    Qentem.Proofs.Ident.sigField 52 11 0x3FB999999999999A = 0x1999999999999A := by decide

/-- non-vacuity: 3.0 and -(2^53 - 1) satisfy the hypotheses -/
example : Qentem.Proofs.NumToStr.IntValued64 ((0x4008000000000000 / 2 ^ 52) % 2 ^ 11) (0x4008000000000000 % 2 ^ 52) 51 := by
  constructor <;> decide
example : Qentem.Proofs.NumToStr.IntValued64 ((0xC33FFFFFFFFFFFFF / 2 ^ 52) % 2 ^ 11) (0xC33FFFFFFFFFFFFF % 2 ^ 52) 0 := by
  constructor <;> decide
example : format17 0xC33FFFFFFFFFFFFF = .ok [45, 57, 48, 48, 55, 49, 57, 57, 50, 53, 52, 55, 52, 48, 57, 57, 49] := by
  decide +kernel  -- -9007199254740991

/-! Kernel-evaluated instances of the formatter half on boundary patterns.  These are **tests**
(closed instances decided by evaluation), not part of the proof of the general statement:
smallest subnormal, largest subnormal, smallest normal, largest finite, 0.1, 2^53, 1/3. -/
def boundary64 : List Nat :=
  [1, 0x000FFFFFFFFFFFFF, 0x0010000000000000, 0x7FEFFFFFFFFFFFFF, 0xFFEFFFFFFFFFFFFF, 0x3FB999999999999A,
   0x4340000000000000, 0x3FD5555555555555, 0x8000000000000001, 0x3FF0000000000000, 0x2cd7000000000000]

def boundary32 : List Nat :=
  [1, 0x007FFFFF, 0x00800000, 0x7F7FFFFF, 0xFF7FFFFF, 0x3DCCCCCD, 0x4B800000, 0x3EAAAAAB, 0x3F800000, 0x0000003F]

def identifiesB64 (b : Nat) : Bool :=
  match format17 b with
  | .ok t => FmtSpec.readBits64 t == some b
  | .error _ => false

def identifiesB32 (b : Nat) : Bool :=
  match format9 b with
  | .ok t => FmtSpec.readBits32 t == some b
  | .error _ => false

/-- test (kernel evaluation of closed instances) -/
theorem identifies_boundary_instances :
    boundary64.all identifiesB64 = true ∧ boundary32.all identifiesB32 = true := by decide +kernel

/-! Non-vacuity of the hypotheses used above. -/
example : isFinite64 0x3FB999999999999A := by decide
example : ¬ isFinite64 0x7FF0000000000000 := by decide
example : isFinite32 0x3DCCCCCD := by decide

end Qentem.Props.C11
