import Qentem.Proofs.SeqLedger
/-! C16 (flat containers) — every allocation made by an `Array` (trivially copyable items), `String` or
`StringStream` program is released exactly once and nothing is left when all objects are destroyed. -/
namespace Qentem.Props.C16Seq
open Qentem.Seq Qentem.Ledger Qentem.SeqLedger

def regsOK (p : Prim) : Bool := p.regs.all (· < 5)

theorem finalDrops_eq : finalDrops = (List.range 5).map Prim.drop := by decide

theorem regsOK_iff (ps : List Prim) : ps.all regsOK = true ↔ ∀ p ∈ ps, ∀ x ∈ p.regs, x < 5 := by
  simp [regsOK]

/-- Any primitive list over the five registers, then destruction of all five: balanced. -/
theorem trace_balanced (ps : List Prim) (h : ps.all regsOK = true) : Balanced (traceOf ps) := by
  unfold traceOf; rw [finalDrops_eq]
  exact balanced_of_prims 5 ps ((regsOK_iff ps).1 h)

theorem arrPrims_regs (ew : Nat) (op : ArrOp Nat) (st : ArrSt Nat) (h : ∀ r ∈ arrRegs op, r < 3) :
    (arrPrims ew op st).all regsOK = true := by
  cases op <;> simp only [arrPrims, when, renew] <;> (repeat' split) <;>
    simp [regsOK, Prim.regs, tmpT, arrRegs] at * <;> omega

theorem strPrims_regs (w : Nat) (ff : Bool) (op : StrOp) (st : StrSt) (h : ∀ r ∈ strRegs op, r < 3) :
    (strPrims w ff op st).all regsOK = true := by
  cases op <;> simp only [strPrims, when, renew] <;> (repeat' split) <;>
    simp [regsOK, Prim.regs, tmpT, tmpU, strRegs] at * <;> omega

theorem ssPrims_regs (P : Policy) (w : Nat) (op : SsOp) (st : SsSt) (h : ∀ r ∈ ssRegs op, r < 3) :
    (ssPrims P w op st).all regsOK = true := by
  cases op <;> simp only [ssPrims, when, renew] <;> (repeat' split) <;>
    simp [regsOK, Prim.regs, tmpT, tmpU, ssRegs] at * <;> omega

theorem arrProgram_regs (ew : Nat) (ops : List (ArrOp Nat)) : ∀ (st : ArrSt Nat),
    (∀ op ∈ ops, ∀ r ∈ arrRegs op, r < 3) → (arrProgram ew ops st).all regsOK = true := by
  induction ops with
  | nil => intro _ _; rfl
  | cons op ops ih =>
    intro st h
    simp only [arrProgram, List.all_append, Bool.and_eq_true]
    exact ⟨arrPrims_regs ew op st (h op (by simp)), ih _ (fun o ho => h o (by simp [ho]))⟩

theorem strProgram_regs (w : Nat) (ff : Bool) (ops : List StrOp) : ∀ (st : StrSt),
    (∀ op ∈ ops, ∀ r ∈ strRegs op, r < 3) → (strProgram w ff ops st).all regsOK = true := by
  induction ops with
  | nil => intro _ _; rfl
  | cons op ops ih =>
    intro st h
    simp only [strProgram, List.all_append, Bool.and_eq_true]
    exact ⟨strPrims_regs w ff op st (h op (by simp)), ih _ (fun o ho => h o (by simp [ho]))⟩

theorem ssProgram_regs (P : Policy) (w : Nat) (ops : List SsOp) : ∀ (st : SsSt),
    (∀ op ∈ ops, ∀ r ∈ ssRegs op, r < 3) → (ssProgram P w ops st).all regsOK = true := by
  induction ops with
  | nil => intro _ _; rfl
  | cons op ops ih =>
    intro st h
    simp only [ssProgram, List.all_append, Bool.and_eq_true]
    exact ⟨ssPrims_regs P w op st (h op (by simp)), ih _ (fun o ho => h o (by simp [ho]))⟩

/-! ## The property, per container: for **every** program over the three objects (self-assignment,
self-append, use of moved-from objects included — they are just programs), followed by the destruction
of the objects, the emitted allocation trace is `Balanced`: `Ledger.run` accepts every event (no release
of a block that is not live — so no double free and no release of something never allocated — and no id
allocated twice) and ends with the empty heap (nothing leaked). Any item/unit width, any capacity policy. -/

theorem array_trace_balanced (ew : Nat) (ops : List (ArrOp Nat)) (h : ∀ op ∈ ops, ∀ r ∈ arrRegs op, r < 3) :
    Balanced (arrTrace ew ops) :=
  trace_balanced _ (arrProgram_regs ew ops arrInit h)

theorem string_trace_balanced (w : Nat) (ff : Bool) (ops : List StrOp) (h : ∀ op ∈ ops, ∀ r ∈ strRegs op, r < 3) :
    Balanced (strTrace w ff ops) :=
  trace_balanced _ (strProgram_regs w ff ops strInit h)

theorem stream_trace_balanced (P : Policy) (w : Nat) (ops : List SsOp) (h : ∀ op ∈ ops, ∀ r ∈ ssRegs op, r < 3) :
    Balanced (ssTrace P w ops) :=
  trace_balanced _ (ssProgram_regs P w ops ssInit h)

/-- `Array<String<char>>` (owning items, one block per item with storage): every program — copies make
fresh blocks for every item, move-append adopts, `Drop/Clear/Reset`/shrinking release the dropped items,
destruction releases the items then the array block — emits a balanced trace.  No hypothesis on the
registers: the closing `drop`s cover every slot the program ever mentioned. -/
theorem array_owning_trace_balanced (ops : List (ArrOp Nat)) : Balanced (arrOwnTrace ops) := by
  simp only [arrOwnTrace]
  exact closedTrace_balanced _ _

/-- Between operations too: after any prefix of the primitives the allocator's live set is exactly the
set of blocks owned by some register, each by one register only (so a later release can never hit a
block that is already gone, and a block that no register owns cannot exist). -/
theorem live_set_is_owned_set (ps : List Prim) :
    ∃ h, run (execAll ps LW.init).2 [] = some h ∧ Sim h (execAll ps LW.init).1 :=
  execAll_sim ps [] LW.init sim_init

/-- (owning arrays) the same for every prefix of a program. -/
theorem owning_live_set_is_owned_set (ops : List (ArrOp Nat)) :
    ∃ h, run (execAll (arrOwnProgram ops 1 arrInit OW.init).1 LW.init).2 [] = some h ∧
      Sim h (execAll (arrOwnProgram ops 1 arrInit OW.init).1 LW.init).1 :=
  live_set_is_owned_set _

/-! Non-vacuity (tests by evaluation): self-append, self-move-append, self-assignment, moved-from use. -/
example : arrTrace 4 [.push 0 1, .push 0 2, .push 0 3, .appC 0 0, .appM 0 0, .push 0 9, .asgC 0 0, .asgM 1 0, .push 0 5] =
    [.alloc 1 8, .alloc 2 16, .free 1, .alloc 3 24, .free 2, .alloc 4 48, .free 3, .free 4, .alloc 5 8, .alloc 6 8, .free 6, .free 5] := by decide
example : Balanced (strTrace 2 false [.ctorU 0 [97, 98], .appC 0 0, .appM 0 0, .asgM 1 0, .plusM 2 1 1, .appCh 1 65]) := by unfold Balanced; decide
example : Balanced (ssTrace policyStd 1 [.appU 0 0 [97, 98, 99], .appS 0 0, .shlS 0 0, .getString 0, .asgM 0 0, .ctorM 1 0, .pushCh 0 0 7]) := by unfold Balanced; decide
example : arrOwnTrace [.push 0 7, .push 0 8, .appC 0 0, .asgC 1 0, .drop 0 3] =
    [.alloc 1 3, .alloc 2 32, .alloc 3 3, .alloc 4 3, .free 3, .alloc 5 64, .free 2, .alloc 6 3, .alloc 7 3, .alloc 8 64, .alloc 9 3, .alloc 10 3, .alloc 11 3, .alloc 12 3, .free 4, .free 6, .free 7, .free 1, .free 5, .free 9, .free 10, .free 11, .free 12, .free 8] := by decide

end Qentem.Props.C16Seq
