import Qentem.Model.StrToNum
import Qentem.Model.Round
import Qentem.Generated.StrToNum
import Qentem.Proofs.StrToNumInt
import Qentem.Proofs.StrToNumSign
import Qentem.Proofs.StrToNumMalformed
import Qentem.Proofs.StrToNumPaths
import Qentem.Proofs.StrToNumSafe
import Qentem.Proofs.StrToNumClosed
import Qentem.Proofs.StrToNumExpPath
import Qentem.Proofs.StrToNumNegIter
import Qentem.Proofs.StrToNumPrefix
import Qentem.Proofs.StrToNumFrac
import Qentem.Proofs.StrToNumNegAll
import Qentem.Proofs.StrToNumCloseAll
import Qentem.Proofs.StrToNumTail
/-! C09 — text to number: integers exact, reals within one ulp, out-of-range rejected. -/
namespace Qentem.Props.C09
open Qentem.StrToNum Qentem.Round Qentem.Generated.StrToNum

/-! ### T1: the tables compiled from the current headers are what the proofs assume -/

/-- entry `i` of the reciprocal table is a 64-bit value with its top bit set and
`|r·5^i − 2^(64+s)| < 5^i`, i.e. `r` is within one of `2^(64+s)/5^i`; more precisely
(`up = true`) `r = ⌈2^(64+s)/5^i⌉`, (`up = false`) `r = ⌊2^(64+s)/5^i⌋`. -/
def recipOk (up : Bool) (i : Nat) : Bool :=
  match powerOfOneOverFive[i]?, powerOfOneOverFiveShift[i]? with
  | some r, some s =>
    decide (2 ^ 63 ≤ r) && decide (r < 2 ^ 64) &&
    (if up then decide (2 ^ (64 + s) ≤ r * 5 ^ i) && decide (r * 5 ^ i < 2 ^ (64 + s) + 5 ^ i)
     else decide (r * 5 ^ i ≤ 2 ^ (64 + s)) && decide (2 ^ (64 + s) < r * 5 ^ i + 5 ^ i))
  | _, _ => false

theorem tables_ok :
    powerOfFive = (List.range 28).map (5 ^ ·) ∧
    powerOfOneOverFive.length = 28 ∧ powerOfOneOverFiveShift.length = 28 ∧
    (∀ i, i < 27 → 1 ≤ i → recipOk true i = true) ∧ recipOk false 27 = true ∧
    powerOfOneOverFive[0]? = some 1 ∧ powerOfOneOverFiveShift[0]? = some 0 ∧
    maxPowerOfFive = 27 ∧ maxShift = 64 ∧ maxPowerOfTen = 19 ∧ maxPowerOfTenValue = 10 ^ 19 ∧
    bias = 1023 ∧ exponentSize = 11 ∧ mantissaSize = 52 ∧
    signMask = 2 ^ 63 ∧ exponentMask = 0x7FF * 2 ^ 52 ∧ mantissaMask = 2 ^ 52 - 1 ∧ leadingBit = 2 ^ 52 ∧
    -- 0 9 1 5 7 e E . + - A F a f W x X
    digitChars = [48, 57, 49, 53, 55, 101, 69, 46, 43, 45, 65, 70, 97, 102, 87, 120, 88] ∧
    kindCodes = [Kind.notANumber.code, Kind.real.code, Kind.natural.code, Kind.integer.code] ∧
    sizeTBits = 32 ∧ systemIntBits = 64 ∧ bigIntTypeWidth = 64 ∧ bigIntTotalBits = 256 ∧ bigIntMaxIndex = 3 ∧
    qnumber64Bytes = 8 := by
  decide


/-! ### Integers are exact and consumed exactly (`int_exact`, `consumed_exact` for the integer shape)

Shapes are given by `unitsAt c e off l` ("the units `l` sit at `off, off+1, …` inside `[0, end_offset)`")
and `endsAt c e p cont` ("`p` is `end_offset`, or holds a unit that `cont` rejects"), so the numeral
may sit anywhere inside a longer buffer, at any offset, for any character width. `e < 2^32` is the
`SizeT` range. -/

/-- `[+] d₁…d_k`, `d₁ ≠ 0`, value `< 2^64`: Natural, exact, the whole numeral consumed. -/
theorem int_exact_natural (c : List Nat) (o e : Nat) (plus : Bool) (d1 : Nat) (xs : List Nat) (he : e < 2 ^ 32)
    (h1 : isNonZeroDigit d1 = true) (hxs : AllDigits xs)
    (hu : unitsAt c e o ((if plus then [43] else []) ++ d1 :: xs))
    (hend : endsAt c e (o + b2n plus + 1 + xs.length) contInt)
    (hv : decVal (d1 :: xs) < 2 ^ 64) :
    strToNum c o e = some ⟨.natural, decVal (d1 :: xs), o + b2n plus + 1 + xs.length⟩ := by
  have hd : isDigit d1 = true := isNonZeroDigit_isDigit h1
  cases plus with
  | true =>
    simp only [if_true, List.singleton_append, b2n] at hu hend ⊢
    have ho := rd_lt hu.1
    unfold strToNum
    simp only [ho, if_true, hu.1, show ¬ ((43 : Nat) = 45) by decide, if_false]
    have := afterSign_int c e false (o + 1) d1 xs he h1 hxs hu.2 hend hv (by simp)
    simpa using this
  | false =>
    simp only [Bool.false_eq_true, if_false, List.nil_append, b2n, Nat.add_zero] at hu hend ⊢
    have ho := rd_lt hu.1
    have h45 : d1 ≠ 45 := by simp [isDigit] at hd; omega
    have h43 : d1 ≠ 43 := by simp [isDigit] at hd; omega
    unfold strToNum
    simp only [ho, if_true, hu.1, h45, h43, if_false]
    have := afterSign_int c e false o d1 xs he h1 hxs hu hend hv (by simp)
    simpa using this

/-- `- d₁…d_k`, `d₁ ≠ 0`, value `≤ 2^63` (so down to the minimum signed 64-bit integer): Integer, exact
(two's complement pattern `2^64 − v`), the whole numeral consumed. -/
theorem int_exact_negative (c : List Nat) (o e : Nat) (d1 : Nat) (xs : List Nat) (he : e < 2 ^ 32)
    (h1 : isNonZeroDigit d1 = true) (hxs : AllDigits xs) (hu : unitsAt c e o (45 :: d1 :: xs))
    (hend : endsAt c e (o + 2 + xs.length) contInt) (hv : decVal (d1 :: xs) ≤ 2 ^ 63) :
    strToNum c o e = some ⟨.integer, 2 ^ 64 - decVal (d1 :: xs), o + 2 + xs.length⟩ := by
  have ho := rd_lt hu.1
  unfold strToNum
  simp only [ho, if_true, hu.1]
  have := afterSign_int c e true (o + 1) d1 xs he h1 hxs hu.2 (by rw [show o + 1 + 1 = o + 2 by omega]; exact hend)
    (by omega) (fun _ => hv)
  simpa [show o + 1 + 1 = o + 2 by omega] using this

/-- `0` and `+0` are Natural 0; `-0` is the real −0 (sign bit only). -/
theorem int_exact_zero (c : List Nat) (o e : Nat) (he : e < 2 ^ 32) :
    (rd c e o = some 48 → endsAt c e (o + 1) contZero → strToNum c o e = some ⟨.natural, 0, o + 1⟩) ∧
    (unitsAt c e o [43, 48] → endsAt c e (o + 2) contZero → strToNum c o e = some ⟨.natural, 0, o + 2⟩) ∧
    (unitsAt c e o [45, 48] → endsAt c e (o + 2) contZero →
      strToNum c o e = some ⟨.real, 0x8000000000000000, o + 2⟩) := by
  refine ⟨?_, ?_, ?_⟩
  · intro h0 hend
    have ho := rd_lt h0
    unfold strToNum
    simp only [ho, if_true, h0, show ¬ ((48 : Nat) = 45) by decide, show ¬ ((48 : Nat) = 43) by decide, if_false]
    simpa using afterSign_zero c e false o he h0 hend
  · intro hu hend
    have ho := rd_lt hu.1
    unfold strToNum
    simp only [ho, if_true, hu.1, show ¬ ((43 : Nat) = 45) by decide, if_false]
    simpa using afterSign_zero c e false (o + 1) he hu.2.1 hend
  · intro hu hend
    have ho := rd_lt hu.1
    unfold strToNum
    simp only [ho, if_true, hu.1]
    simpa using afterSign_zero c e true (o + 1) he hu.2.1 hend

/-- non-vacuity: 2^64 − 1, the minimum int64, `+7` inside a longer buffer at offset 2, `-0` -/
example : strToNum [49,56,52,52,54,55,52,52,48,55,51,55,48,57,53,53,49,54,49,53] 0 20 = some ⟨.natural, 2 ^ 64 - 1, 20⟩ := by decide
example : strToNum [45,57,50,50,51,51,55,50,48,51,54,56,53,52,55,55,53,56,48,56] 0 20 = some ⟨.integer, 2 ^ 63, 20⟩ := by decide
example : strToNum [91,32,43,55,44,49] 2 6 = some ⟨.natural, 7, 4⟩ := by decide
example : strToNum [45,48] 0 2 = some ⟨.real, 2 ^ 63, 2⟩ := by decide
/-- one more digit and the value no longer fits: the real path (2^64 → 0x43F0…) -/
example : strToNum [49,56,52,52,54,55,52,52,48,55,51,55,48,57,53,53,49,54,49,54] 0 20 = some ⟨.real, 0x43F0000000000000, 20⟩ := by decide

/-! ### The sign survives (`sign_preserved`): for every input whatsoever, a `Real` result has bit 63
set exactly when the first unit is `-` (this includes `-0`, `-0.0`, `-0e5`, overflow to −infinity). -/
theorem sign_preserved (c : List Nat) (o e : Nat) (r : Res) (h : strToNum c o e = some r) (hk : r.kind = .real) :
    r.bits / 2 ^ 63 = b2n (decide (rd c e o = some 45)) :=
  strToNum_sign c o e r h hk

example : strToNum [45,48,46,48] 0 4 = some ⟨.real, 2 ^ 63, 4⟩ := by decide
example : strToNum [45,57,101,51,48,56] 0 6 = some ⟨.real, 0xFFF0000000000000, 6⟩ := by decide

/-! ### Malformed numerals are rejected (`malformed_rejected`) -/

/-- leading zeros: `[+-]? 0 d …` -/
theorem malformed_leading_zero (c : List Nat) (o e : Nat) (sign : List Nat) (d : Nat)
    (hs : sign = [] ∨ sign = [43] ∨ sign = [45]) (hu : unitsAt c e o (sign ++ [48, d])) (hd : isDigit d = true) :
    ∃ b p, strToNum c o e = some ⟨.notANumber, b, p⟩ := by
  rcases hs with rfl | rfl | rfl
  · have ho := rd_lt hu.1
    refine ⟨0, o + 1, ?_⟩
    unfold strToNum
    simp only [ho, if_true, hu.1, show ¬ ((48 : Nat) = 45) by decide, show ¬ ((48 : Nat) = 43) by decide, if_false]
    exact afterSign_leadingZero c e false o d hu.1 hu.2.1 hd
  · have ho := rd_lt hu.1
    refine ⟨0, o + 1 + 1, ?_⟩
    unfold strToNum
    simp only [ho, if_true, hu.1, show ¬ ((43 : Nat) = 45) by decide, if_false]
    exact afterSign_leadingZero c e false (o + 1) d hu.2.1 hu.2.2.1 hd
  · have ho := rd_lt hu.1
    refine ⟨0, o + 1 + 1, ?_⟩
    unfold strToNum
    simp only [ho, if_true, hu.1]
    exact afterSign_leadingZero c e true (o + 1) d hu.2.1 hu.2.2.1 hd

/-- a lone dot: `[+-]? .` followed by the end or by a unit that is not a digit -/
theorem malformed_lone_dot (c : List Nat) (o e : Nat) (sign : List Nat)
    (hs : sign = [] ∨ sign = [43] ∨ sign = [45]) (hu : unitsAt c e o (sign ++ [46]))
    (hend : endsAt c e (o + sign.length + 1) isDigit) :
    ∃ b p, strToNum c o e = some ⟨.notANumber, b, p⟩ := by
  rcases hs with rfl | rfl | rfl
  · have ho := rd_lt hu.1
    refine ⟨0, o + 1, ?_⟩
    unfold strToNum
    simp only [ho, if_true, hu.1, show ¬ ((46 : Nat) = 45) by decide, show ¬ ((46 : Nat) = 43) by decide, if_false]
    exact afterSign_loneDot c e false o hu.1 (by simpa using hend)
  · have ho := rd_lt hu.1
    refine ⟨0, o + 1 + 1, ?_⟩
    unfold strToNum
    simp only [ho, if_true, hu.1, show ¬ ((43 : Nat) = 45) by decide, if_false]
    exact afterSign_loneDot c e false (o + 1) hu.2.1 (by simpa using hend)
  · have ho := rd_lt hu.1
    refine ⟨0, o + 1 + 1, ?_⟩
    unfold strToNum
    simp only [ho, if_true, hu.1]
    exact afterSign_loneDot c e true (o + 1) hu.2.1 (by simpa using hend)

example : strToNum [48,49] 0 2 = some ⟨.notANumber, 0, 1⟩ := by decide
example : strToNum [45,46] 0 2 = some ⟨.notANumber, 0, 2⟩ := by decide


/-! ### `digits . digits`: consumed exactly (`consumed_exact`), second dot and empty exponent rejected

Positions instead of lists: the mantissa's integer digits occupy `[o', P)` (`o'` = offset after the
optional sign), the dot sits at `P`, the fraction digits occupy `[P+1, Q)`; `digitsOn c e i j` says
every position of `[i, j)` holds a digit. What sits at `Q` decides the outcome (`Stop`):
* `.good` — `end_offset` or a unit that cannot continue the numeral: the result is `Real` (or
  `NotANumber` when out of range) and **its offset is `Q`**;
* `.dot` — a second dot: `NotANumber`;
* `.emptyExp` — `e`/`E` followed by no exponent digit (`1.5e`, `1.5e+`, `1.5e+-2`): `NotANumber`.
The mantissa may be arbitrarily long: the dot can be inside or beyond the 19-unit window. -/

/-- the sign prefix only selects `is_negative` and shifts the start -/
theorem strToNum_after_sign (c : List Nat) (o e : Nat) (sign : List Nat) (first : Nat)
    (hs : sign = [] ∨ sign = [43] ∨ sign = [45]) (hu : unitsAt c e o (sign ++ [first]))
    (hf : first ≠ 45 ∧ first ≠ 43) :
    strToNum c o e = afterSign c e (decide (sign = [45])) (o + sign.length) := by
  rcases hs with rfl | rfl | rfl
  · have ho := rd_lt hu.1
    unfold strToNum
    simp [ho, hu.1, hf.1, hf.2]
  · have ho := rd_lt hu.1
    unfold strToNum
    simp [ho, hu.1]
  · have ho := rd_lt hu.1
    unfold strToNum
    simp [ho, hu.1]

/-- `[+-]? d₁ digits . digits` with `d₁ ≠ 0` -/
theorem digits_dot_digits (c : List Nat) (o e : Nat) (sign : List Nat) (d1 P Q : Nat) (st : Stop) (he : e < 2 ^ 32)
    (hs : sign = [] ∨ sign = [43] ∨ sign = [45]) (hu : unitsAt c e o (sign ++ [d1]))
    (h1 : isNonZeroDigit d1 = true) (hd1 : digitsOn c e (o + sign.length + 1) P) (hoP : o + sign.length + 1 ≤ P)
    (hP : rd c e P = some 46) (hd : digitsOn c e (P + 1) Q) (hPQ : P + 1 ≤ Q) (hQe : Q ≤ e) (hst : stopAt c e Q st) :
    Outcome st Q (strToNum c o e) := by
  have hdig := isNonZeroDigit_isDigit h1
  have hf : d1 ≠ 45 ∧ d1 ≠ 43 := by simp [isDigit] at hdig; omega
  rw [strToNum_after_sign c o e sign d1 hs hu hf]
  have h0 : rd c e (o + sign.length) = some d1 := ((unitsAt_append c e sign [d1] o).1 hu).2.1
  exact afterSign_real_A c e _ (o + sign.length) d1 P Q st he h0 h1 hd1 hoP hP hd hPQ hQe hst

/-- `[+-]? 0 . digits` -/
theorem zero_dot_digits (c : List Nat) (o e : Nat) (sign : List Nat) (Q : Nat) (st : Stop) (he : e < 2 ^ 32)
    (hs : sign = [] ∨ sign = [43] ∨ sign = [45]) (hu : unitsAt c e o (sign ++ [48, 46]))
    (hd : digitsOn c e (o + sign.length + 2) Q) (hPQ : o + sign.length + 2 ≤ Q) (hQe : Q ≤ e) (hst : stopAt c e Q st) :
    Outcome st Q (strToNum c o e) := by
  have hu' := (unitsAt_append c e sign [48, 46] o).1 hu
  have hu1 : unitsAt c e o (sign ++ [48]) := (unitsAt_append c e sign [48] o).2 ⟨hu'.1, hu'.2.1, trivial⟩
  rw [strToNum_after_sign c o e sign 48 hs hu1 (by decide)]
  exact afterSign_real_B c e _ (o + sign.length) Q st he hu'.2.1 hu'.2.2.1 hd hPQ hQe hst

/-- `consumed_exact` for the `digits.digits` shape: the new offset is exactly the end of the numeral -/
theorem consumed_exact_real (c : List Nat) (o e : Nat) (sign : List Nat) (d1 P Q : Nat) (he : e < 2 ^ 32)
    (hs : sign = [] ∨ sign = [43] ∨ sign = [45]) (hu : unitsAt c e o (sign ++ [d1]))
    (h1 : isNonZeroDigit d1 = true) (hd1 : digitsOn c e (o + sign.length + 1) P) (hoP : o + sign.length + 1 ≤ P)
    (hP : rd c e P = some 46) (hd : digitsOn c e (P + 1) Q) (hPQ : P + 1 < Q) (hQe : Q ≤ e)
    (hend : endsAt c e Q contReal) :
    ∃ r, strToNum c o e = some r ∧ r.offset = Q ∧ (r.kind = .real ∨ r.kind = .notANumber) :=
  digits_dot_digits c o e sign d1 P Q .good he hs hu h1 hd1 hoP hP hd (Nat.le_of_lt hPQ) hQe hend

theorem consumed_exact_zero_dot (c : List Nat) (o e : Nat) (sign : List Nat) (Q : Nat) (he : e < 2 ^ 32)
    (hs : sign = [] ∨ sign = [43] ∨ sign = [45]) (hu : unitsAt c e o (sign ++ [48, 46]))
    (hd : digitsOn c e (o + sign.length + 2) Q) (hPQ : o + sign.length + 2 < Q) (hQe : Q ≤ e)
    (hend : endsAt c e Q contReal) :
    ∃ r, strToNum c o e = some r ∧ r.offset = Q ∧ (r.kind = .real ∨ r.kind = .notANumber) :=
  zero_dot_digits c o e sign Q .good he hs hu hd (Nat.le_of_lt hPQ) hQe hend

/-- a repeated dot: `d₁… . digits* .` (also `1..2`) and `0 . digits* .` -/
theorem malformed_repeated_dot (c : List Nat) (o e : Nat) (sign : List Nat) (Q : Nat) (he : e < 2 ^ 32)
    (hs : sign = [] ∨ sign = [43] ∨ sign = [45]) (hQ : rd c e Q = some 46) :
    (∀ d1 P, unitsAt c e o (sign ++ [d1]) → isNonZeroDigit d1 = true → digitsOn c e (o + sign.length + 1) P →
        o + sign.length + 1 ≤ P → rd c e P = some 46 → digitsOn c e (P + 1) Q → P + 1 ≤ Q →
        ∃ b p, strToNum c o e = some ⟨.notANumber, b, p⟩) ∧
    (unitsAt c e o (sign ++ [48, 46]) → digitsOn c e (o + sign.length + 2) Q → o + sign.length + 2 ≤ Q →
        ∃ b p, strToNum c o e = some ⟨.notANumber, b, p⟩) := by
  have hQe : Q ≤ e := Nat.le_of_lt (rd_lt hQ)
  exact ⟨fun d1 P hu h1 hd1 hoP hP hd hPQ => digits_dot_digits c o e sign d1 P Q .dot he hs hu h1 hd1 hoP hP hd hPQ hQe hQ,
    fun hu hd hPQ => zero_dot_digits c o e sign Q .dot he hs hu hd hPQ hQe hQ⟩

/-- an empty exponent after an integer mantissa of any length: `d₁ digits e` then nothing, a
non-digit, or a sign followed by no digit (`1e`, `1e+`, `1e+-2`, `123456789012345678901234E-x`) -/
theorem malformed_empty_exponent_int (c : List Nat) (o e : Nat) (sign : List Nat) (d1 Q m : Nat) (he : e < 2 ^ 32)
    (hs : sign = [] ∨ sign = [43] ∨ sign = [45]) (hu : unitsAt c e o (sign ++ [d1])) (h1 : isNonZeroDigit d1 = true)
    (hd1 : digitsOn c e (o + sign.length + 1) Q) (hoQ : o + sign.length + 1 ≤ Q)
    (hm : rd c e Q = some m) (hmE : m = 101 ∨ m = 69) (hemp : emptyExpAt c e (Q + 1)) :
    ∃ b p, strToNum c o e = some ⟨.notANumber, b, p⟩ := by
  have hdig := isNonZeroDigit_isDigit h1
  have hf : d1 ≠ 45 ∧ d1 ≠ 43 := by simp [isDigit] at hdig; omega
  rw [strToNum_after_sign c o e sign d1 hs hu hf]
  have h0 : rd c e (o + sign.length) = some d1 := ((unitsAt_append c e sign [d1] o).1 hu).2.1
  exact afterSign_int_emptyExp c e _ (o + sign.length) d1 Q m he h0 h1 hd1 hoQ hm hmE hemp

/-- an empty exponent after `digits.digits` / `0.digits` -/
theorem malformed_empty_exponent_real (c : List Nat) (o e : Nat) (sign : List Nat) (Q m : Nat) (he : e < 2 ^ 32)
    (hs : sign = [] ∨ sign = [43] ∨ sign = [45]) (hm : rd c e Q = some m) (hmE : m = 101 ∨ m = 69)
    (hemp : emptyExpAt c e (Q + 1)) :
    (∀ d1 P, unitsAt c e o (sign ++ [d1]) → isNonZeroDigit d1 = true → digitsOn c e (o + sign.length + 1) P →
        o + sign.length + 1 ≤ P → rd c e P = some 46 → digitsOn c e (P + 1) Q → P + 1 ≤ Q →
        ∃ b p, strToNum c o e = some ⟨.notANumber, b, p⟩) ∧
    (unitsAt c e o (sign ++ [48, 46]) → digitsOn c e (o + sign.length + 2) Q → o + sign.length + 2 ≤ Q →
        ∃ b p, strToNum c o e = some ⟨.notANumber, b, p⟩) := by
  have hQe : Q ≤ e := Nat.le_of_lt (rd_lt hm)
  have hst : stopAt c e Q .emptyExp := ⟨m, hm, hmE, hemp⟩
  exact ⟨fun d1 P hu h1 hd1 hoP hP hd hPQ => digits_dot_digits c o e sign d1 P Q .emptyExp he hs hu h1 hd1 hoP hP hd hPQ hQe hst,
    fun hu hd hPQ => zero_dot_digits c o e sign Q .emptyExp he hs hu hd hPQ hQe hst⟩

/-! non-vacuity: a 25-digit integer part with the dot beyond the window, `-0.00125`, `1.5,` inside a
buffer, and the rejected shapes -/
example : strToNum [49,50,51,52,53,54,55,56,57,48,49,50,51,52,53,54,55,56,57,48,49,50,51,52,53,46,53] 0 27 =
    some ⟨.real, 0x44F056E0F36A6444, 27⟩ := by decide
example : strToNum [45,48,46,48,48,49,50,53] 0 8 = some ⟨.real, 0xBF547AE147AE147B, 8⟩ := by decide
example : strToNum [91,49,46,53,44] 1 5 = some ⟨.real, 0x3FF8000000000000, 4⟩ := by decide
example : (strToNum [49,46,50,46,51] 0 5).map (·.kind) = some .notANumber := by decide
example : (strToNum [49,46,46,50] 0 4).map (·.kind) = some .notANumber := by decide
example : (strToNum [49,101] 0 2).map (·.kind) = some .notANumber := by decide
example : (strToNum [49,101,43] 0 3).map (·.kind) = some .notANumber := by decide
example : (strToNum [49,101,43,45,50] 0 5).map (·.kind) = some .notANumber := by decide
example : (strToNum [48,46,53,69] 0 4).map (·.kind) = some .notANumber := by decide


/-! ### Memory safety and offset bounds, for every input (used by the JSON parser's C05)

`strToNum` is written with checked reads (`rd c e i` is `none` unless `i < end_offset`); these two
theorems say that no read ever fails when `end_offset ≤ length` and that every accepted result has
consumed at least one unit and stopped inside the buffer. `e < 2^32` is the `SizeT` range. -/

theorem strToNum_no_fault (c : List Nat) (o e : Nat) (hc : e ≤ c.length) (he : e < 2 ^ 32) :
    ∃ r, strToNum c o e = some r := by
  obtain ⟨x, h, _⟩ := strToNum_ok c e hc he o
  exact ⟨x, h⟩

theorem strToNum_offset_bounds (c : List Nat) (o e : Nat) (r : Res) (hc : e ≤ c.length) (he : e < 2 ^ 32)
    (h : strToNum c o e = some r) (hk : r.kind ≠ .notANumber) : o < r.offset ∧ r.offset ≤ e := by
  obtain ⟨x, hx, hb⟩ := strToNum_ok c e hc he o
  rw [h] at hx; cases hx
  have := hb hk
  omega

/-- the followers a JSON value can have (white space `, ] }`) all end an integer numeral -/
example : [32, 9, 10, 13, 44, 93, 125].all (fun x => !contInt x && !contReal x && !contZero x) = true := by decide


/-! ### The scaling pipeline equals a closed form (`bigint_steps_exact`)

For a 64-bit mantissa the 256-bit `BigInt` of both `powerOf…Ten` functions never overflows (the
model's `% 2^256` never fires, so the `Nat` abstraction of `BigInt` is faithful) and its value
before normalisation is: negative exponent — `negIter r₂₇ (x/27) (num·2^64)` (iterated
`b ↦ ⌊b·r/2^64⌋`), then once more with `r_{x mod 27}`; positive exponent — `posIter 5^27 (x/27)`
(multiply, divide by `2^64` when `≥ 2^192`), then times `5^(x mod 27)`. -/
theorem bigint_steps_exact (num x : Nat) (hn : num < 2 ^ 64) :
    (∃ r27 s27, powerOfOneOverFive[27]? = some r27 ∧ powerOfOneOverFiveShift[27]? = some s27 ∧
      ((x % 27 = 0 ∧ negScale num x = some (negIter r27 (x / 27) (num * 2 ^ 64), (add32 x 64 + x / 27 * s27) % 2 ^ 32)) ∨
       (x % 27 ≠ 0 ∧ ∃ rj sj, powerOfOneOverFive[x % 27]? = some rj ∧ powerOfOneOverFiveShift[x % 27]? = some sj ∧
          negScale num x = some (negIter r27 (x / 27) (num * 2 ^ 64) * rj / 2 ^ 64,
            add32 ((add32 x 64 + x / 27 * s27) % 2 ^ 32) sj)))) ∧
    (∃ p27, powerOfFive[27]? = some p27 ∧
      ((x % 27 = 0 ∧ posScale num x = some (posIter p27 (x / 27) num x)) ∨
       (x % 27 ≠ 0 ∧ ∃ pj, powerOfFive[x % 27]? = some pj ∧
          posScale num x = some ((posIter p27 (x / 27) num x).1 * pj, (posIter p27 (x / 27) num x).2) ∧
          (posIter p27 (x / 27) num x).1 * pj < 2 ^ 255))) :=
  ⟨negScale_closed num x hn, posScale_closed num x hn⟩

example : negScale 1 5 = some (12089258196146291748, 80) := by decide
example : posScale 3 30 = some (3 * 5 ^ 30, 30) := by decide

/-! ### Stated, not proved (S): within one ulp; overflow reported

`real_within_one_ulp` and `overflow_reported` are the full-strength statements over every
well-formed numeral of the grammar. The positive-exponent class (integer mantissa of ≤ 19 digits,
exponent ≥ 0) is **proved** below (`real_within_one_ulp_pos`, which also contains overflow
reporting for that class); the rest is **open**: closing them needs an error analysis of the
truncated reciprocal multiplications (`negIter`) and of the 54-bit truncation before the final
round-half-up; `bigint_steps_exact` and `tables_ok` reduce them to inequalities over `Nat`.
The check searches them with the exact-`Rat` oracle (`Driver/StrToNum.lean`) on the C++ results.
Out-of-range in the small direction (`0 < |x| < 2^-1074`) may be rejected instead of rounded. -/

/-- the magnitude pattern (sign bit removed) of a result -/
def magBits (r : Res) : Nat := r.bits % 2 ^ 63

/- **Closed in `Props/C09Closed.lean`** as `real_within_one_ulp_closed` / `overflow_reported_closed` for numerals of at
most 99 999 000 units. With the bound `< 2^32` below the two statements are false (a mantissa of `10^8` or more ignored
digits / leading fraction zeros against a nine-digit exponent; 32-bit wrap above `2^32 − 10^8` units). -/
def real_within_one_ulp : Prop :=
  ∀ (x : Numeral), x.wf = true → x.leadingZero = false → x.units.length < 2 ^ 32 →
    ∀ r, strToNum x.units 0 x.units.length = some r → r.kind = .real → magBits r < infBits →
      ulpDist (magBits r) (nearestMag x.magFrac.1 x.magFrac.2) ≤ 1

def overflow_reported : Prop :=
  ∀ (x : Numeral), x.wf = true → x.leadingZero = false → x.units.length < 2 ^ 32 →
    exceedsMaxFinite x.magFrac.1 x.magFrac.2 = true →
    ∀ r, strToNum x.units 0 x.units.length = some r →
      r.kind = .notANumber ∨ (r.kind = .real ∧ (magBits r ≥ infBits ∨ magBits r = maxFiniteBits))

/-- what is proved of them (`…_partial`): the sign half of the statement for every input
(`sign_preserved`), exactness on the integer shapes (`int_exact_*`), and that a result whose
exponent field would exceed 2046 is +infinity, never a wrapped finite pattern -/
theorem overflow_reported_partial (b s : Nat) : posFinish b s < 2 ^ 63 ∧
    (Qentem.Generated.StrToNum.bias + Nat.log2 b + s ≥ 0x7FF → Nat.log2 b ≤ 52 → posFinish b s = infBits) := by
  refine ⟨posFinish_lt b s, fun h hb => ?_⟩
  unfold posFinish
  simp [hb, h, infBits]

/-- instances of the open statements (kernel-evaluated tests, not proofs of them): `0.1`, `1e23`
(1 ulp from correctly rounded), `1.7976931348623157e308`, `4e308` -/
example : (strToNum [48,46,49] 0 3).map magBits = some (nearestMag 1 10) := by decide
example : (strToNum [49,101,50,51] 0 4).map (fun r => ulpDist (magBits r) (nearestMag (10 ^ 23) 1)) = some 1 := by decide
example : (strToNum [52,101,51,48,56] 0 5).map magBits = some infBits := by decide


/-! ### Positive-exponent numerals: within one ulp, overflow reported (proved)

`[+-]? d₁…d_n (e|E) [+] k₁…k_j` with `d₁ ≠ 0`, `n ≤ 19` significant digits (the mantissa then fits
the 64-bit window exactly) and an exponent of 1..8 digits (larger exponents are saturated by the
code and can only be out of range). `v` is the mantissa, `k` the exponent, the value is `v·10^k`.

* the whole numeral is consumed (`offset = end`);
* `k + n > 309`: rejected as NotANumber — and then `v·10^k ≥ 10^309` really exceeds every finite
  double (out-of-range rejection is never applied to a representable value);
* otherwise: `Real`, sign bit = sign of the text, and the magnitude pattern `p` satisfies
  `ulpDist p (nearestMag (v·10^k) 1) ≤ 1` — **within one unit in the last place of the correctly
  rounded value**, overflow included (`nearestMag` is then infinity and `p` is infinity or the
  largest finite double);
* if `v·10^k` is at least the largest finite double, `p` is the largest finite double or infinity:
  **never an unrelated finite value** (`overflow_reported` for this class).

Correct rounding (0 ulp) is *false* for this code: it truncates to 54 bits and rounds half **up**
(witness below), so "within one ulp" is the strongest true statement. -/
theorem real_within_one_ulp_pos (c : List Nat) (o e : Nat) (sign : List Nat) (d1 : Nat) (xs : List Nat) (m : Nat)
    (plus ks : List Nat) (he : e < 2 ^ 32)
    (hs : sign = [] ∨ sign = [43] ∨ sign = [45]) (h1 : isNonZeroDigit d1 = true) (hxs : AllDigits xs)
    (hlen : xs.length ≤ 18) (hm : m = 101 ∨ m = 69) (hplus : plus = [] ∨ plus = [43])
    (hks : AllDigits ks) (hk0 : ks ≠ []) (hk8 : ks.length ≤ 8)
    (hu : unitsAt c e o (sign ++ (d1 :: xs ++ [m] ++ plus ++ ks)))
    (hend : endsAt c e (o + sign.length + 1 + xs.length + 1 + plus.length + ks.length) isDigit) :
    let v := decVal (d1 :: xs)
    let k := decVal ks
    let n := xs.length + 1
    let fin := o + sign.length + 1 + xs.length + 1 + plus.length + ks.length
    let signBit := if decide (sign = [45]) then 0x8000000000000000 else 0
    (k + n > 309 ∧ strToNum c o e = some ⟨.notANumber, v, fin⟩ ∧ (2 ^ 53 - 1) * 2 ^ 971 < v * 10 ^ k) ∨
    (k + n ≤ 309 ∧ ∃ p, strToNum c o e = some ⟨.real, p ||| signBit, fin⟩ ∧ p < 2 ^ 63 ∧
        ulpDist p (nearestMag (v * 10 ^ k) 1) ≤ 1 ∧
        ((2 ^ 53 - 1) * 2 ^ 971 ≤ v * 10 ^ k → p = maxFiniteBits ∨ p = infBits)) := by
  intro v k n fin signBit
  have hdig := isNonZeroDigit_isDigit h1
  have hf : d1 ≠ 45 ∧ d1 ≠ 43 := by simp [isDigit] at hdig; omega
  have hu' := (unitsAt_append c e sign (d1 :: xs ++ [m] ++ plus ++ ks) o).1 hu
  have hu1 : unitsAt c e o (sign ++ [d1]) := (unitsAt_append c e sign [d1] o).2 ⟨hu'.1, hu'.2.1, trivial⟩
  rw [strToNum_after_sign c o e sign d1 hs hu1 hf]
  rw [afterSign_exp_pos c e _ (o + sign.length) d1 xs m plus ks he h1 hxs hlen hm hplus hks hk0 hk8 hu'.2 hend]
  have hv0 : 0 < v := Nat.lt_of_lt_of_le (Nat.pow_pos (by decide)) (decVal_ge d1 xs h1)
  have hvlt : v < 10 ^ 19 := by
    have := decVal_lt_pow (d1 :: xs) (fun y hy => by
      rcases List.mem_cons.1 hy with h | h
      · subst h; exact hdig
      · exact hxs y h)
    exact Nat.lt_of_lt_of_le this (Nat.pow_le_pow_right (by decide) (by simp; omega))
  have hk : k < 10 ^ 8 := Nat.lt_of_lt_of_le (decVal_lt_pow ks hks) (Nat.pow_le_pow_right (by decide) hk8)
  exact realResult_pos _ v n k fin hv0 (Nat.lt_of_lt_of_le hvlt (by decide)) (by simpa [n] using decVal_ge d1 xs h1)
    (by omega) (Nat.lt_of_lt_of_le hk (by decide)) (by omega)

/-- non-vacuity and tightness: `1e23` is one ulp from the correctly rounded value;
`9007199254740993e0` (2^53+1, an exact tie) is rounded up instead of to even; `17976931348623158e292`
stays at the largest finite double; `2e308` is infinity; `1e400` is rejected -/
example : (strToNum [49,101,50,51] 0 4).map (fun r => (r.kind, ulpDist (r.bits % 2 ^ 63) (nearestMag (10 ^ 23) 1))) = some (.real, 1) := by decide
example : (strToNum [57,48,48,55,49,57,57,50,53,52,55,52,48,57,57,51,101,48] 0 18).map (fun r => (r.bits, nearestMag 9007199254740993 1)) =
    some (0x4340000000000001, 0x4340000000000000) := by decide
example : (strToNum [49,55,57,55,54,57,51,49,51,52,56,54,50,51,49,53,56,101,50,57,50] 0 21).map (·.bits) = some maxFiniteBits := by decide
example : (strToNum [50,101,51,48,56] 0 5).map (·.bits) = some infBits := by decide
example : (strToNum [49,101,52,48,48] 0 5).map (·.kind) = some .notANumber := by decide


/-! ### Negative-exponent pipeline: proved error bound (towards `real_within_k_ulp_neg`)

`powerOfNegativeTen num x` aims at `β = num·2^(64+S)/5^x` (then `num·10^-x = β·2^-(x+64+S)`).
With `k ≤ x/27 + 1 ≤ 14` multiply-shift steps the big integer `b` it normalises satisfies

  `β·(1 − k·2^-62) − k  ≤  b  ≤  β·(1 + k·2^-62)`

(stated without division below). Consequence, **on paper only**: with `bit` the top bit of `b`,
the value handed to the final 53-bit rounding is off by less than `k/2^(bit−52) + 2^-4` units in
the last place (`k ≤ 14`), the final truncate-and-half-up adds at most ½, and just below a power of
two the distance counts double. That gives one ulp whenever `b ≥ 2^58` — every mantissa `≥ 256`,
since each step at most halves `b` — and a bound of a few ulps for one- and two-digit mantissas
with exponents near −320 (`b ≈ 2^54.7`), where the observed distance is still ≤ 1. Formalising
this needs the rational-valued analogue of `raw_close` (binade crossing in both directions, the
subnormal branch of `negFinish`) and is **not** done, so `real_within_one_ulp` stays an open
`Prop` for negative net exponents and is searched by the oracle. -/
theorem negScale_error_bound (num x : Nat) (hn : num < 2 ^ 64) (hx : x ≤ 2 ^ 20) :
    ∃ b S k, negScale num x = some (b, x + 64 + S) ∧ k ≤ x / 27 + 1 ∧ S ≤ 64 * (x / 27 + 1) ∧
      b * 5 ^ x * 2 ^ 62 ≤ num * 2 ^ (64 + S) * (2 ^ 62 + k) ∧
      num * 2 ^ (64 + S) * 2 ^ 62 ≤ (b + k) * 5 ^ x * (2 ^ 62 + k) :=
  negScale_error num x hn hx

/-- instance: `1e-5` — `b = 12089258196146291748`, `S = 11`, one step; both inequalities hold with room -/
example : negScale 1 5 = some (12089258196146291748, 5 + 64 + 11) ∧
    12089258196146291748 * 5 ^ 5 * 2 ^ 62 ≤ 1 * 2 ^ (64 + 11) * (2 ^ 62 + 1) ∧
    1 * 2 ^ (64 + 11) * 2 ^ 62 ≤ (12089258196146291748 + 1) * 5 ^ 5 * (2 ^ 62 + 1) := by decide


/-! ### A digit run that reaches `end_offset` (for the JSON prefix-rejection proofs)

`[-] digits` occupying exactly `[o, e)`: the converter either rejects (`-` alone, the empty text,
leading zeros, out of range) or consumes everything — `0` → Natural 0, `-0` → Real −0, a value that
fits → Natural/Integer (`int_exact_*`), anything longer → the real path — always with
`offset = e`. It never stops in the middle of the digits. -/
theorem strToNum_digits_to_end (c : List Nat) (o e : Nat) (neg : Bool) (ds : List Nat) (he : e < 2 ^ 32)
    (hds : AllDigits ds) (hu : unitsAt c e o ((if neg then [45] else []) ++ ds))
    (hend : o + b2n neg + ds.length = e) :
    ∃ r, strToNum c o e = some r ∧ (r.kind = .notANumber ∨ r.offset = e) := by
  have hu' := (unitsAt_append c e (if neg then [45] else []) ds o).1 hu
  have hlen : (if neg then [45] else ([] : List Nat)).length = b2n neg := by cases neg <;> simp [b2n]
  rw [hlen] at hu'
  cases ds with
  | nil =>
    -- only the sign (or nothing at all)
    cases neg with
    | false =>
      simp [b2n] at hend; subst hend
      exact ⟨⟨.notANumber, 0, o⟩, by simp [strToNum], Or.inl rfl⟩
    | true =>
      simp only [if_true, b2n] at hu' hend
      have h45 := hu'.1.1
      have ho := rd_lt h45
      refine ⟨⟨.notANumber, 0, o + 1⟩, ?_, Or.inl rfl⟩
      unfold strToNum
      simp only [ho, if_true, h45]
      unfold afterSign
      simp [show ¬ (o + 1 < e) by simp at hend; omega]
  | cons d1 xs =>
    have hd1 : isDigit d1 = true := hds d1 (by simp)
    have hf : d1 ≠ 45 ∧ d1 ≠ 43 := by simp [isDigit] at hd1; omega
    have hs : (if neg then [45] else ([] : List Nat)) = [] ∨ (if neg then [45] else ([] : List Nat)) = [43] ∨
        (if neg then [45] else ([] : List Nat)) = [45] := by cases neg <;> simp
    have hu1 : unitsAt c e o ((if neg then [45] else []) ++ [d1]) :=
      (unitsAt_append c e _ [d1] o).2 ⟨hu'.1, by rw [hlen]; exact hu'.2.1, trivial⟩
    have hdec : decide ((if neg then [45] else ([] : List Nat)) = [45]) = neg := by cases neg <;> simp
    rw [strToNum_after_sign c o e _ d1 hs hu1 hf, hlen, hdec]
    have h0 : rd c e (o + b2n neg) = some d1 := hu'.2.1
    simp only [List.length_cons] at hend
    by_cases hnz : isNonZeroDigit d1 = true
    · have hdig : digitsOn c e (o + b2n neg + 1) e := by
        have := digitsOn_of_unitsAt c e xs (o + b2n neg + 1) (fun y hy => hds y (by simp [hy])) hu'.2.2
        rw [show o + b2n neg + 1 + xs.length = e by omega] at this; exact this
      obtain ⟨r, h1, h2⟩ := afterSign_digits_to_end c e neg (o + b2n neg) d1 he h0 hnz hdig
      exact ⟨r, h1, Or.inr h2⟩
    · have h48 : d1 = 48 := by simp [isDigit] at hd1; simp [isNonZeroDigit] at hnz; omega
      subst h48
      cases xs with
      | nil =>
        simp at hend
        have := afterSign_zero c e neg (o + b2n neg) he h0 (Or.inl (by omega))
        rw [this]
        cases neg
        · exact ⟨_, rfl, Or.inr (by simp; omega)⟩
        · exact ⟨_, rfl, Or.inr (by simp; omega)⟩
      | cons d2 ys =>
        have hd2 : isDigit d2 = true := hds d2 (by simp)
        rw [afterSign_leadingZero c e neg (o + b2n neg) d2 h0 hu'.2.2.1 hd2]
        exact ⟨_, rfl, Or.inl rfl⟩

/-- lone `-`, `-0`, `0`, a 25-digit run: rejected resp. consumed to the end -/
example : strToNum [45] 0 1 = some ⟨.notANumber, 0, 1⟩ := by decide
example : strToNum [45, 48] 0 2 = some ⟨.real, 2 ^ 63, 2⟩ := by decide
example : (strToNum [49,50,51,52,53,54,55,56,57,48,49,50,51,52,53,54,55,56,57,48,49,50,51,52,53] 0 25).map (·.offset) = some 25 := by decide


/-! ### Negative-exponent numerals with an integer mantissa: within one ulp (proved)

`[+-]? d₁…d_n (e|E) - k₁…k_j`, `d₁ ≠ 0`, `n ≤ 19`, 1..8 exponent digits, **every mantissa** (round 5: for
`2^(k/27) ≤ 16·v` the analytic pipeline error bound; for the short mantissas with long exponents, where that bound is
too weak, monotonicity in the mantissa and a 776-pair table evaluated by the kernel —
`Proofs/StrToNumNegClose.powerOfNegativeTen_close_all`). The value is `v / 10^k`.

* whole numeral consumed;
* `k > n + 324`: NotANumber — and then `v/10^k < 2^-1074`, below the smallest subnormal;
* otherwise `Real`, sign = text, magnitude pattern within **one ulp** of `nearestMag v (10^k)`
  (round-half-even to binary64, gradual underflow included). -/
theorem real_within_one_ulp_negexp (c : List Nat) (o e : Nat) (sign : List Nat) (d1 : Nat) (xs : List Nat) (m : Nat)
    (ks : List Nat) (he : e < 2 ^ 32)
    (hs : sign = [] ∨ sign = [43] ∨ sign = [45]) (h1 : isNonZeroDigit d1 = true) (hxs : AllDigits xs)
    (hlen : xs.length ≤ 18) (hm : m = 101 ∨ m = 69)
    (hks : AllDigits ks) (hk0 : ks ≠ []) (hk8 : ks.length ≤ 8)
    (hu : unitsAt c e o (sign ++ (d1 :: xs ++ [m] ++ [45] ++ ks)))
    (hend : endsAt c e (o + sign.length + 1 + xs.length + 1 + 1 + ks.length) isDigit)
    (hkpos : decVal ks ≠ 0) :
    let v := decVal (d1 :: xs)
    let k := decVal ks
    let n := xs.length + 1
    let fin := o + sign.length + 1 + xs.length + 1 + 1 + ks.length
    let signBit := if decide (sign = [45]) then 0x8000000000000000 else 0
    (k > n + 324 ∧ strToNum c o e = some ⟨.notANumber, v, fin⟩ ∧ v * 2 ^ 1074 < 10 ^ k) ∨
    (k ≤ n + 324 ∧ ∃ p, strToNum c o e = some ⟨.real, p ||| signBit, fin⟩ ∧ p < 2 ^ 63 ∧
        ulpDist p (nearestMag v (10 ^ k)) ≤ 1) := by
  intro v k n fin signBit
  have hdig := isNonZeroDigit_isDigit h1
  have hf : d1 ≠ 45 ∧ d1 ≠ 43 := by simp [isDigit] at hdig; omega
  have hu' := (unitsAt_append c e sign (d1 :: xs ++ [m] ++ [45] ++ ks) o).1 hu
  have hu1 : unitsAt c e o (sign ++ [d1]) := (unitsAt_append c e sign [d1] o).2 ⟨hu'.1, hu'.2.1, trivial⟩
  rw [strToNum_after_sign c o e sign d1 hs hu1 hf]
  rw [afterSign_exp_neg c e _ (o + sign.length) d1 xs m ks he h1 hxs hlen hm hks hk0 hk8 hu'.2 hend]
  have hvlt : v < 10 ^ n := decVal_lt_pow (d1 :: xs) (fun y hy => by
      rcases List.mem_cons.1 hy with h | h
      · subst h; exact hdig
      · exact hxs y h)
  have hv64 : v < 2 ^ 64 :=
    Nat.lt_of_lt_of_le hvlt (Nat.le_trans (Nat.pow_le_pow_right (by decide) (show n ≤ 19 by omega)) (by decide))
  have hk : k < 10 ^ 8 := Nat.lt_of_lt_of_le (decVal_lt_pow ks hks) (Nat.pow_le_pow_right (by decide) hk8)
  have hdec : decide (decVal ks ≠ 0) = true := by simp [hkpos]
  rw [hdec]
  have hv0 : 0 < v := Nat.lt_of_lt_of_le (Nat.pow_pos (by decide)) (decVal_ge d1 xs h1)
  exact realResult_neg_all _ v n k fin hv0 hv64 hvlt (by omega) (Nat.lt_of_lt_of_le hk (by decide))

/-- `12345e-3`, `-5000e-310` (subnormal), `999e-400` (below the smallest subnormal: rejected) -/
example : (strToNum [49,50,51,52,53,101,45,51] 0 8).map (fun r => (r.kind, ulpDist (r.bits % 2 ^ 63) (nearestMag 12345 (10 ^ 3)))) = some (.real, 0) := by decide
example : (strToNum [45,53,48,48,48,101,45,51,49,48] 0 10).map (fun r => (r.kind, r.bits / 2 ^ 63, ulpDist (r.bits % 2 ^ 63) (nearestMag 5000 (10 ^ 310)))) = some (.real, 1, 0) := by decide +kernel
example : (strToNum [57,57,57,101,45,52,48,48] 0 8).map (·.kind) = some .notANumber := by decide


/-! ### Numerals with a fraction part: `d₁… . digits [(e|E) [+-] k]` (proved)

`ClassOutcome neg v X FLAG fin res` (Proofs/StrToNumFrac.lean) is the C09 statement for one numeral
with mantissa `v` and net decimal exponent `10^(−X)` (`FLAG`) or `10^X`: `res` is some result whose
offset is `fin`; it is NotANumber only if the value is above every finite double resp. below the
smallest subnormal; otherwise it is a `Real` with the text's sign whose magnitude pattern is within
**one ulp** of `nearestMag` of the exact value.

Class: first digit non-zero, the mantissa including its dot fits the 19-unit window (≤ 18 digits),
the fraction is not the single digit `0` (`1.0` takes the "just zero at the end" branch: `Props/C09More.lean`),
exponent of any number of digits (nine or more significant ones are out of range: NotANumber). Without an exponent every such numeral is covered; with one,
every mantissa is covered too (round 5: `powerOfNegativeTen_close_all` — analytic bound above a width
threshold, a 776-pair kernel table below it). -/
theorem real_within_one_ulp_frac_end (c : List Nat) (o e : Nat) (sign : List Nat) (d1 : Nat) (xs ys : List Nat)
    (he : e < 2 ^ 32) (hs : sign = [] ∨ sign = [43] ∨ sign = [45]) (h1 : isNonZeroDigit d1 = true)
    (hxs : AllDigits xs) (hys : AllDigits ys) (hy0 : ys ≠ []) (hy48 : ys ≠ [48]) (hlen : xs.length + ys.length ≤ 17)
    (hu : unitsAt c e o (sign ++ (d1 :: xs ++ [46] ++ ys)))
    (hend : endsAt c e (o + sign.length + 1 + xs.length + 1 + ys.length) contReal) :
    ClassOutcome (decide (sign = [45])) (decVal (d1 :: xs ++ ys)) ys.length true
      (o + sign.length + 1 + xs.length + 1 + ys.length) (strToNum c o e) := by
  have hdig := isNonZeroDigit_isDigit h1
  have hf : d1 ≠ 45 ∧ d1 ≠ 43 := by simp [isDigit] at hdig; omega
  have hu' := (unitsAt_append c e sign (d1 :: xs ++ [46] ++ ys) o).1 hu
  have hu1 : unitsAt c e o (sign ++ [d1]) := (unitsAt_append c e sign [d1] o).2 ⟨hu'.1, hu'.2.1, trivial⟩
  have hylen : 0 < ys.length := by cases ys with
    | nil => exact absurd rfl hy0
    | cons a b => simp
  have hQe : o + sign.length + 1 + xs.length + 1 + ys.length ≤ e := by
    rcases hend with h | ⟨x, hx, _⟩
    · omega
    · exact Nat.le_of_lt (rd_lt hx)
  have hstop : o + sign.length + 1 + xs.length + 1 + ys.length = e ∨
      ∃ x, rd c e (o + sign.length + 1 + xs.length + 1 + ys.length) = some x ∧ isDigit x = false ∧ x ≠ 46 := by
    rcases hend with h | ⟨x, hx, hc⟩
    · exact Or.inl h
    · simp only [contReal, Bool.or_eq_false_iff, beq_eq_false_iff_ne] at hc
      exact Or.inr ⟨x, hx, hc.1.1, hc.1.2⟩
  rw [strToNum_after_sign c o e sign d1 hs hu1 hf]
  rw [afterSign_frac c e _ (o + sign.length) d1 xs ys he h1 hxs hys hy0 hy48 hlen hu'.2 hstop]
  rw [finishReal_end c e _ _ _ _ _ false true _ hQe hend (xs.length + 1 + ys.length) ys.length
    (by simp only [b2n, Bool.not_false, Bool.and_self, if_true]
        rw [sub32_sub32 _ _ 1 (by omega) (by omega)]; omega)
    (by simp only [Bool.false_eq_true, if_false, if_true]
        rw [sub32_sub32 _ _ 1 (by omega) (by omega)]; omega)
    (by omega)]
  have hne : netExp false 0 false ys.length = (ys.length, true) := by
    unfold netExp; simp; omega
  rw [hne]
  have hall : AllDigits (d1 :: (xs ++ ys)) := by
    intro y hy
    simp only [List.mem_cons, List.mem_append] at hy
    rcases hy with h | h | h
    · subst h; exact hdig
    · exact hxs y h
    · exact hys y h
  have hv0 : 0 < decVal (d1 :: (xs ++ ys)) :=
    Nat.lt_of_lt_of_le (Nat.pow_pos (by decide)) (decVal_ge d1 (xs ++ ys) h1)
  have hvhi := decVal_lt_pow (d1 :: (xs ++ ys)) hall
  have hnlen : (d1 :: (xs ++ ys)).length = xs.length + 1 + ys.length := by simp; omega
  rw [hnlen] at hvhi
  have hvlo : 10 ^ (xs.length + 1 + ys.length - 1) ≤ decVal (d1 :: (xs ++ ys)) := by
    have := decVal_ge d1 (xs ++ ys) h1
    rw [show xs.length + 1 + ys.length - 1 = (xs ++ ys).length by simp]; exact this
  have hv64 : decVal (d1 :: (xs ++ ys)) < 2 ^ 64 :=
    Nat.lt_of_lt_of_le hvhi (Nat.le_trans (Nat.pow_le_pow_right (by decide) (show xs.length + 1 + ys.length ≤ 19 by omega)) (by decide))
  have := realResult_class (decide (sign = [45])) (decVal (d1 :: (xs ++ ys))) (xs.length + 1 + ys.length) ys.length true
    (o + sign.length + 1 + xs.length + 1 + ys.length) hv0 hv64 hvlo hvhi (by omega) (by omega) (by omega)
    (fun _ _ => by
      have : ys.length / 27 = 0 := by omega
      rw [this]; omega)
  simpa using this

/-- `3.14`, `-12.5,` in a buffer, `123456789.123456789` (18 digits) -/
example : (strToNum [51,46,49,52] 0 4).map (fun r => (r.kind, r.offset, ulpDist (r.bits % 2 ^ 63) (nearestMag 314 (10 ^ 2)))) = some (.real, 4, 0) := by decide
example : (strToNum [91,45,49,50,46,53,44] 1 7).map (fun r => (r.kind, r.offset, r.bits / 2 ^ 63)) = some (.real, 6, 1) := by decide


theorem real_within_one_ulp_frac_exp (c : List Nat) (o e : Nat) (sign : List Nat) (d1 : Nat) (xs ys : List Nat)
    (m : Nat) (es ks : List Nat)
    (he : e < 2 ^ 32) (hs : sign = [] ∨ sign = [43] ∨ sign = [45]) (h1 : isNonZeroDigit d1 = true)
    (hxs : AllDigits xs) (hys : AllDigits ys) (hy0 : ys ≠ []) (hy48 : ys ≠ [48]) (hlen : xs.length + ys.length ≤ 17)
    (hm : m = 101 ∨ m = 69) (hes : es = [] ∨ es = [43] ∨ es = [45]) (hks : AllDigits ks) (hk0 : ks ≠ [])
    (hu : unitsAt c e o (sign ++ (d1 :: xs ++ [46] ++ ys) ++ [m] ++ (es ++ ks)))
    (hend : endsAt c e (o + sign.length + 1 + xs.length + 1 + ys.length + 1 + es.length + ks.length) isDigit) :
    ClassOutcome (decide (sign = [45])) (decVal (d1 :: xs ++ ys))
      (netExp false (decVal ks) (decide (es = [45])) ys.length).1
      (netExp false (decVal ks) (decide (es = [45])) ys.length).2
      (o + sign.length + 1 + xs.length + 1 + ys.length + 1 + es.length + ks.length) (strToNum c o e) := by
  have hdig := isNonZeroDigit_isDigit h1
  have hf : d1 ≠ 45 ∧ d1 ≠ 43 := by simp [isDigit] at hdig; omega
  have hA := (unitsAt_append c e (sign ++ (d1 :: xs ++ [46] ++ ys) ++ [m]) (es ++ ks) o).1 hu
  have hB := (unitsAt_append c e (sign ++ (d1 :: xs ++ [46] ++ ys)) [m] o).1 hA.1
  have hu' := (unitsAt_append c e sign (d1 :: xs ++ [46] ++ ys) o).1 hB.1
  have hu1 : unitsAt c e o (sign ++ [d1]) := (unitsAt_append c e sign [d1] o).2 ⟨hu'.1, hu'.2.1, trivial⟩
  have hQm : rd c e (o + sign.length + 1 + xs.length + 1 + ys.length) = some m := by
    have := hB.2.1
    simp only [List.length_append, List.length_cons, List.length_nil] at this
    rw [show o + sign.length + 1 + xs.length + 1 + ys.length = o + (sign.length + (xs.length + 1 + (0 + 1) + ys.length)) by omega]
    exact this
  have hexpu : unitsAt c e (o + sign.length + 1 + xs.length + 1 + ys.length + 1) (es ++ ks) := by
    have := hA.2
    simp only [List.length_append, List.length_cons, List.length_nil] at this
    rw [show o + sign.length + 1 + xs.length + 1 + ys.length + 1 =
      o + (sign.length + (xs.length + 1 + (0 + 1) + ys.length) + (0 + 1)) by omega]
    exact this
  have hmd : isDigit m = false := by rcases hm with h | h <;> subst h <;> decide
  have hm46 : m ≠ 46 := by omega
  have hylen : 0 < ys.length := by cases ys with
    | nil => exact absurd rfl hy0
    | cons a b => simp
  have hQlt := rd_lt hQm
  rw [strToNum_after_sign c o e sign d1 hs hu1 hf]
  rw [afterSign_frac c e _ (o + sign.length) d1 xs ys he h1 hxs hys hy0 hy48 hlen hu'.2 (Or.inr ⟨m, hQm, hmd, hm46⟩)]
  have hall : AllDigits (d1 :: (xs ++ ys)) := by
    intro y hy
    simp only [List.mem_cons, List.mem_append] at hy
    rcases hy with h | h | h
    · subst h; exact hdig
    · exact hxs y h
    · exact hys y h
  have hv0 : 0 < decVal (d1 :: (xs ++ ys)) :=
    Nat.lt_of_lt_of_le (Nat.pow_pos (by decide)) (decVal_ge d1 (xs ++ ys) h1)
  have hvhi := decVal_lt_pow (d1 :: (xs ++ ys)) hall
  have hnlen : (d1 :: (xs ++ ys)).length = xs.length + 1 + ys.length := by simp; omega
  rw [hnlen] at hvhi
  have hvlo : 10 ^ (xs.length + 1 + ys.length - 1) ≤ decVal (d1 :: (xs ++ ys)) := by
    have := decVal_ge d1 (xs ++ ys) h1
    rw [show xs.length + 1 + ys.length - 1 = (xs ++ ys).length by simp]; exact this
  have hv19 : decVal (d1 :: (xs ++ ys)) < 10 ^ 19 :=
    Nat.lt_of_lt_of_le hvhi (Nat.pow_le_pow_right (by decide) (show xs.length + 1 + ys.length ≤ 19 by omega))
  have hv64 : decVal (d1 :: (xs ++ ys)) < 2 ^ 64 := Nat.lt_of_lt_of_le hv19 (by decide)
  rcases Nat.lt_or_ge (decVal ks) 100000000 with hk | hbig
  swap
  · rw [finishReal_exp_sat c e _ _ _ _ _ false true _ _ m es ks (fun k h1 h2 => by omega) (Nat.le_refl _) hQm hm
      hes hks hk0 hexpu hend (by simpa using (Nat.ne_of_gt hv0)) hbig]
    refine ⟨_, rfl, rfl, Or.inl ⟨rfl, ?_⟩⟩
    have hX : 400 ≤ (netExp false (decVal ks) (decide (es = [45])) ys.length).1 := by
      unfold netExp
      split
      · simp; omega
      · split <;> simp <;> omega
    have := out_of_range_big (decVal (d1 :: (xs ++ ys))) _ (netExp false (decVal ks) (decide (es = [45])) ys.length).2 hv0 hv19 hX
    simpa using this
  rw [finishReal_exp_skip c e _ _ _ _ _ false true _ _ m es ks (fun k h1 h2 => by omega) (Nat.le_refl _) hQm hm he
    hes hks hk0 hexpu hend (Or.inl rfl) hk
    (xs.length + 1 + ys.length) ys.length
    (by simp only [b2n, Bool.not_false, Bool.and_self, if_true]
        rw [sub32_sub32 _ _ 1 (by omega) (by omega)]; omega)
    (by simp only [Bool.false_eq_true, if_false, if_true]
        rw [sub32_sub32 _ _ 1 (by omega) (by omega)]; omega)
    (by omega)]
  have hX : (netExp false (decVal ks) (decide (es = [45])) ys.length).1 < 2 ^ 31 := by
    unfold netExp
    split
    · simp; omega
    · split <;> simp <;> omega
  have := realResult_class_all (decide (sign = [45])) (decVal (d1 :: (xs ++ ys))) (xs.length + 1 + ys.length)
    (netExp false (decVal ks) (decide (es = [45])) ys.length).1 (netExp false (decVal ks) (decide (es = [45])) ys.length).2
    (o + sign.length + 1 + xs.length + 1 + ys.length + 1 + es.length + ks.length) hv0 hv64 hvlo hvhi (by omega) (by omega) hX
  simpa using this

/-- `1.25e3` (net exponent +1), `6.02e-5`, `-9.99e-330` (below the smallest subnormal: rejected) -/
example : (strToNum [49,46,50,53,101,51] 0 6).map (fun r => (r.kind, r.offset, ulpDist (r.bits % 2 ^ 63) (nearestMag (125 * 10 ^ 1) 1))) = some (.real, 6, 0) := by decide
example : (strToNum [54,46,48,50,101,45,53] 0 7).map (fun r => (r.kind, r.offset, ulpDist (r.bits % 2 ^ 63) (nearestMag 602 (10 ^ 7)))) = some (.real, 7, 0) := by decide
example : (strToNum [45,57,46,57,57,101,45,51,51,48] 0 10).map (·.kind) = some .notANumber := by decide

/-- **`negexp_one_ulp_every_mantissa`**: `powerOfNegativeTen` is within one ulp of the correctly rounded value for
every mantissa `1 ≤ num < 2^64` and every `x < 344` (normal and subnormal results) -/
theorem negexp_one_ulp_every_mantissa (num x : Nat) (hn0 : 0 < num) (hn : num < 2 ^ 64) (hx : x < 344) :
    ∃ p, powerOfNegativeTen num x = some p ∧ ulpDist p (nearestMag num (10 ^ x)) ≤ 1 :=
  powerOfNegativeTen_close_all num x hn0 hn hx

/-! ### Correct rounding on the negative-exponent path, every mantissa -/

/-- **`negexp_exact_every_mantissa`**: for every mantissa `1 ≤ num < 2^64` and decimal exponent `-x`, `x < 344`, whose
exact value `num/10^x` stays 1/32 ulp away from the rounding boundaries (`MarginPair` on the pair the reference
rounds), `powerOfNegativeTen` returns the correctly rounded magnitude — except for the three numerals of
`negExc` (`1e-273`, `1e-286`, `1e-292`).  Analytic error bound for mantissas whose big integer is wide enough
(`thr x ≤ 618`, monotonicity in the mantissa), kernel-evaluated table for the 16 996 pairs below the threshold. -/
theorem negexp_exact_every_mantissa (num x : Nat) (hn0 : 0 < num) (hn : num < 2 ^ 64) (hx : x < 344)
    (hexc : ¬ (num = 1 ∧ (x = 273 ∨ x = 286 ∨ x = 292)))
    (hm : MarginPair (roundPair num (10 ^ x)).1 (roundPair num (10 ^ x)).2) :
    powerOfNegativeTen num x = some (nearestMag num (10 ^ x)) :=
  powerOfNegativeTen_exact17 num x hn0 hn hx hexc hm

/-- **`negexp_exceptions_one_ulp_low`**: the exclusion is necessary — on `1e-273`, `1e-286`, `1e-292` the margin holds
(the values are 0.040, 0.068, 0.039 ulp from the half-way point) and the code returns the pattern one below the
correctly rounded one (the mantissa is not normalised before the multiply-shift chain, so the big integer has only
56 bits left after eleven steps).  Within the one-ulp bound of C09; none of the three is a `%.17g` output. -/
theorem negexp_exceptions_one_ulp_low :
    (powerOfNegativeTen 1 273 = some 0x07414FA7DDEFE39F ∧ nearestMag 1 (10 ^ 273) = 0x07414FA7DDEFE3A0 ∧
      marginB (roundPair 1 (10 ^ 273)).1 (roundPair 1 (10 ^ 273)).2 = true) ∧
    (powerOfNegativeTen 1 286 = some 0x048E74404F3DAADA ∧ nearestMag 1 (10 ^ 286) = 0x048E74404F3DAADB ∧
      marginB (roundPair 1 (10 ^ 286)).1 (roundPair 1 (10 ^ 286)).2 = true) ∧
    (powerOfNegativeTen 1 292 = some 0x034FEEF63F97D79B ∧ nearestMag 1 (10 ^ 292) = 0x034FEEF63F97D79C ∧
      marginB (roundPair 1 (10 ^ 292)).1 (roundPair 1 (10 ^ 292)).2 = true) := by decide +kernel

end Qentem.Props.C09
