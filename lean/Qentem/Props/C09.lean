import Qentem.Model.StrToNum
import Qentem.Model.Round
import Qentem.Generated.StrToNum
/-! C09 — text to number: integers exact, reals within one ulp, out-of-range rejected. -/
namespace Qentem.Props.C09
open Qentem.StrToNum Qentem.Round Qentem.Generated.StrToNum

/-! ### T1: the tables compiled from the current headers are what the proofs assume -/

/-- entry `i` of the reciprocal table is a 64-bit value with its top bit set and
`|r·5^i − 2^(64+s)| < 5^i`, i.e. `r` is within one of `2^(64+s)/5^i`; more precisely
(`up = true`) `r = ⌈2^(64+s)/5^i⌉`, (`up = false`) `r = ⌊2^(64+s)/5^i⌋`. -/
def recipOk (up : Bool) (i : Nat) : Bool :=
  match powerOfOneOverFive[i]?, powerOfOneOverFiveShift[i]? with
  | some r, some s =>
    decide (2 ^ 63 ≤ r) && decide (r < 2 ^ 64) &&
    (if up then decide (2 ^ (64 + s) ≤ r * 5 ^ i) && decide (r * 5 ^ i < 2 ^ (64 + s) + 5 ^ i)
     else decide (r * 5 ^ i ≤ 2 ^ (64 + s)) && decide (2 ^ (64 + s) < r * 5 ^ i + 5 ^ i))
  | _, _ => false

theorem tables_ok :
    powerOfFive = (List.range 28).map (5 ^ ·) ∧
    powerOfOneOverFive.length = 28 ∧ powerOfOneOverFiveShift.length = 28 ∧
    (∀ i, i < 27 → 1 ≤ i → recipOk true i = true) ∧ recipOk false 27 = true ∧
    powerOfOneOverFive[0]? = some 1 ∧ powerOfOneOverFiveShift[0]? = some 0 ∧
    maxPowerOfFive = 27 ∧ maxShift = 64 ∧ maxPowerOfTen = 19 ∧ maxPowerOfTenValue = 10 ^ 19 ∧
    bias = 1023 ∧ exponentSize = 11 ∧ mantissaSize = 52 ∧
    signMask = 2 ^ 63 ∧ exponentMask = 0x7FF * 2 ^ 52 ∧ mantissaMask = 2 ^ 52 - 1 ∧ leadingBit = 2 ^ 52 ∧
    -- 0 9 1 5 7 e E . + - A F a f W x X
    digitChars = [48, 57, 49, 53, 55, 101, 69, 46, 43, 45, 65, 70, 97, 102, 87, 120, 88] ∧
    kindCodes = [Kind.notANumber.code, Kind.real.code, Kind.natural.code, Kind.integer.code] ∧
    sizeTBits = 32 ∧ systemIntBits = 64 ∧ bigIntTypeWidth = 64 ∧ bigIntTotalBits = 256 ∧ bigIntMaxIndex = 3 ∧
    qnumber64Bytes = 8 := by
  decide

end Qentem.Props.C09
