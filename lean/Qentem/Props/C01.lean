import Qentem.Proofs.TmplText
import Qentem.Proofs.ExprScanSafe
import Qentem.Proofs.ExprScanTotal
import Qentem.Proofs.TmplRenderSafe
import Qentem.Proofs.TmplParseVarRaw
import Qentem.Proofs.TmplLoopVar
import Qentem.Proofs.TmplParseLoop
import Qentem.Proofs.TmplParseAll
import Qentem.Proofs.TmplParseTotal
import Qentem.Proofs.TmplRenderTotal
import Qentem.Generated.Tmpl
/-!
# C01 — rendering any template text with any value is memory-safe and terminates

Proved here (for every content, every character width — code units are `Nat`):
* `tables_width_independent` (T1) the Finder word table / tag-pattern constants compiled from the
  current headers are the same for the four widths and are the documented tag words.
* `finder_safe_total`  `Finder::Next` never reads at or beyond `length`, returns an offset
  `≤ length`, reports "no match" only at the end of the content, and every match moves forward.
* `expr_scan_safe`  the expression scanner inside a tag performs no out-of-range read.
* `render_safe_of_wf`  rendering a well-formed tag tree performs no out-of-range access.
* `parse_wf_inline`, `render_safe_inline`  stages 1+2 of `parse_wf` (var, raw, math): no out-of-range
  access in parse + render for contents whose tags are `{var:}`, `{raw:}`, `{math:}`.
* `parse_wf_varraw`, `render_safe_varraw`  stage 1 of `parse_wf`: contents whose only tags are
  `{var:}` / `{raw:}` parse to a well-formed tree, hence parse+render is free of out-of-range accesses.
* `parse_text`, `render_text`  content without `{` and `<` parses to no tags without a failing read
  and renders to itself for every value.
* `parse_wf`, `render_safe`  the complete safety statement: every content that fits `SizeT`, every
  value.
* `parse_total`  the tag scanner model returns a (well-formed) tag list for every content that fits
  `SizeT`: its fuel is never exhausted.
* `render_total`  some fuel makes `renderTop` return a text (same conditions as `render_safe`).
Open: nothing in this file (`ParseSafe` / `RenderSafe` below are the unconditioned forms of `parse_total` /
`render_total`).
-/
namespace Qentem.Props.C01
open Qentem.Tmpl Qentem.Generated.Tmpl Qentem.Expr

/-- T1: the word table is the documented one and does not depend on the character width. -/
theorem tables_width_independent :
    W1.words = [[], [118, 97, 114, 58], [114, 97, 119, 58], [109, 97, 116, 104, 58],
      [115, 118, 97, 114, 58], [105, 102], [108, 111, 111, 112], [47, 108, 111, 111, 112, 62],
      [105, 102], [47, 105, 102, 62], [101, 108, 115, 101]] ∧
    W2.words = W1.words ∧ W4.words = W1.words ∧ WW.words = W1.words ∧
    W1.wordLengths = [1, 3, 3, 4, 4, 1, 3, 5, 1, 3, 3] ∧
    W2.wordLengths = W1.wordLengths ∧ W4.wordLengths = W1.wordLengths ∧ WW.wordLengths = W1.wordLengths ∧
    W1.groups = [[1, 2, 3, 4, 5], [6, 7, 8, 9, 10]] ∧
    W2.groups = W1.groups ∧ W4.groups = W1.groups ∧ WW.groups = W1.groups ∧
    -- every word is one unit longer than its table length (the unit compared first)
    (∀ i, i < 11 → i ≠ 0 → (W1.words.getD i []).length = W1.wordLengths.getD i 0 + 1) ∧
    [W1.inLineFirstChar, W1.multiLineFirstChar, W1.singleChar, W1.multiLineLastChar,
     W1.variableIndexPrefix, W1.variableIndexSuffix, W1.equalChar, W1.spaceChar,
     W1.variablesSeparatorChar] = [123, 60, 125, 62, 91, 93, 61, 32, 44] ∧
    [W2.inLineFirstChar, W2.multiLineFirstChar, W2.singleChar, W2.multiLineLastChar] = [123, 60, 125, 62] ∧
    [W4.inLineFirstChar, W4.multiLineFirstChar, W4.singleChar, W4.multiLineLastChar] = [123, 60, 125, 62] ∧
    [WW.inLineFirstChar, WW.multiLineFirstChar, WW.singleChar, WW.multiLineLastChar] = [123, 60, 125, 62] ∧
    -- match ids are word index + 1
    [W1.lineEndID, W1.variableID, W1.rawVariableID, W1.mathID, W1.superVariableID, W1.inLineIfID,
     W1.loopID, W1.loopEndID, W1.ifID, W1.ifEndID, W1.elseID] = [1, 2, 3, 4, 5, 6, 7, 8, 9, 10, 11] ∧
    -- prefix lengths used for the offset arithmetic
    [W1.variablePrefixLength, W1.rawVariablePrefixLength, W1.mathPrefixLength,
     W1.superVariablePrefixLength, W1.inLineIfPrefixLength, W1.loopPrefixLength,
     W1.loopSuffixLength, W1.ifPrefixLength, W1.ifSuffixLength, W1.elsePrefixLength] =
      [5, 5, 6, 6, 3, 5, 7, 3, 5, 5] := by
  decide

/-- `Finder::Next` from any offset inside the content: no failing read, result inside the content,
a zero match only at the very end, a non-zero match strictly forward. -/
theorem finder_safe_total (c : List Nat) (off : Nat) (h : off ≤ c.length) :
    ∃ o m, next c off = .ok (o, m) ∧ o ≤ c.length ∧ off ≤ o ∧ (m ≠ 0 → off < o) ∧
      (m = 0 → o = c.length) :=
  next_safe_total c off h

example : next [120, 123, 118, 97, 114, 58, 97, 125] 0 = .ok (6, 2) := by rfl

/-- tag-free text: no tags, no failing read -/
theorem parse_text {R : Type} (cfg : ScanCfg R) (c : List Nat) (h : NoTagStart c) :
    parse cfg c = .ok [] :=
  Qentem.Tmpl.parse_text cfg c h

/-- tag-free text renders to itself for every value, every escape setting, every formatter -/
theorem render_text {R : Type} [RealLike R] (cx : RCtx R) (cfg : ScanCfg R)
    (h : NoTagStart cx.content) (fuel : Nat) :
    (parse cfg cx.content).bind (fun tags => renderTop cx tags (fuel + 1)) = .ok cx.content :=
  Qentem.Tmpl.render_text cx cfg h fuel

example : NoTagStart [104, 105, 32, 125, 62, 38] := by
  intro x hx; simp at hx; rcases hx with h | h | h | h | h | h <;> subst h <;> decide

/-- `expr_scan_safe`: scanning an expression that lies inside a tag (`endO < length`: the unit at
`endO` is the tag's own `}` or closing quote) performs no out-of-range read — every content, every
range, every nesting of parentheses, every number reader. -/
theorem expr_scan_safe {R : Type} (cfg : ScanCfg R) (c : List Nat) (off endO : Nat)
    (he : endO < c.length) : Safe (parseTop cfg c off endO) (fun _ => True) :=
  parseTop_safe cfg c off endO he

/-- `expr_scan_total`: under the same hypothesis the scanner model returns a list — neither a
failed read nor an exhausted fuel; so `expr_scan_safe` and the `Safe` statements built on it are
not vacuous through the model's fuel. -/
theorem expr_scan_total {R : Type} (cfg : ScanCfg R) (c : List Nat) (off endO : Nat)
    (he : endO < c.length) : ∃ items, parseTop cfg c off endO = .ok items :=
  parseTop_total cfg c off endO he

/-- the hypothesis is needed: the public `ParseExpressions("1<", 2)` looks one unit past the
buffer (out of contract: no terminator).  Observed on the real code as an ASan report. -/
example : getOperation [49, 60] 2 10 0 = .error (.oobRead 2 2) := by rfl

/-- `render_safe_of_wf`: rendering a well-formed tag tree (`wf`, `Model/Tmpl/WF.lean`: siblings
ordered and disjoint inside their parent's range, every range inside the content, variable names
followed by a unit of the content, loop-bound variables referring to an enclosing loop's level,
inline-if start ids inside the sub-tag list) performs no out-of-range access — no content read past
the end, no negative-length write, no `loops_items_[Level]` or `s_tag + id` beyond the arrays — for
every value, every fuel, every formatter/group/sort, given the bound check of 487b090. -/
theorem render_safe_of_wf {R : Type} [RealLike R] (cx : RCtx R) (hg : cx.guardIndexRead = true)
    (tags : List (Tag R)) (hw : wf cx.content.length tags = true) (fuel : Nat) :
    Safe (renderTop cx tags fuel) (fun _ => True) :=
  Qentem.Tmpl.render_safe_of_wf cx hg tags hw fuel

/-- non-vacuity: the tag tree of `x{var:a}` is well-formed -/
example : wf 8 ([Tag.var ⟨6, 1, 0, 0⟩] : List (Tag Rat)) = true := by decide

/-- `parse_wf`, stage 1 (var / raw): if from no offset the Finder reports anything but `}`, `{var:`
or `{raw:` (`OnlyVarRaw`; decidable form `onlyVarRawB`), `parse` makes no failing read and returns a
well-formed tag list — every content (below the 32-bit size limit), every number reader. -/
theorem parse_wf_varraw {R : Type} (cfg : ScanCfg R) (c : List Nat)
    (hn : c.length + 16 < 4294967296) (h : OnlyVarRaw c) :
    ∃ tags, parse cfg c = .ok tags ∧ wf c.length tags = true :=
  Qentem.Tmpl.parse_wf_varraw cfg c hn h

/-- End-to-end for that sub-language: parse + render makes no out-of-range access, for every
value, formatter and escape setting. -/
theorem render_safe_varraw {R : Type} [RealLike R] (cx : RCtx R) (hg : cx.guardIndexRead = true)
    (cfg : ScanCfg R) (hn : cx.content.length + 16 < 4294967296) (h : OnlyVarRaw cx.content)
    (fuel : Nat) :
    Safe ((parse cfg cx.content).bind (fun tags => renderTop cx tags fuel)) (fun _ => True) :=
  Qentem.Tmpl.render_safe_varraw cx hg cfg hn h fuel

/-- non-vacuity: `x{var:a}}{raw:b[0]}` satisfies the hypothesis -/
example : OnlyVarRaw ("x{var:a}}{raw:b[0]}".toList.map Char.toNat) :=
  onlyVarRaw_of_check _ (by decide)

/-- `parse_wf`, stages 1+2 (var / raw / math — the staged target of the design): if from no
offset the Finder reports a match above `{math:` (`OnlyUpTo 4`; decidable form `onlyUpToB 4`), the
tag scanner — including the expression scanner on every `{math:…}` with any nested `{var:…}` and
parentheses — makes no out-of-range read and what it returns is well-formed. -/
theorem parse_wf_inline {R : Type} (cfg : ScanCfg R) (c : List Nat)
    (hn : c.length + 16 < 4294967296) (h : OnlyUpTo 4 c) :
    Safe (parse cfg c) (fun tags => wf c.length tags = true) :=
  Qentem.Tmpl.parse_wf_inline cfg c hn h

/-- End-to-end for the inline sub-language (text, `{var:}`, `{raw:}`, `{math:}`): parse + render
makes no out-of-range access, for every value, formatter and escape setting. -/
theorem render_safe_inline {R : Type} [RealLike R] (cx : RCtx R) (hg : cx.guardIndexRead = true)
    (cfg : ScanCfg R) (hn : cx.content.length + 16 < 4294967296) (h : OnlyUpTo 4 cx.content)
    (fuel : Nat) :
    Safe ((parse cfg cx.content).bind (fun tags => renderTop cx tags fuel)) (fun _ => True) :=
  Qentem.Tmpl.render_safe_inline cx hg cfg hn h fuel

/-- non-vacuity: `{math:({var:a}+1)*2}}{var:b}` satisfies the hypothesis -/
example : OnlyUpTo 4 ("{math:({var:a}+1)*2}}{var:b}".toList.map Char.toNat) :=
  onlyUpTo_of_check 4 _ (by decide)

/-- `parse_wf`, stage "loops": if from no offset the Finder reports anything but `}`, `{var:`,
`{raw:`, `{math:`, `<loop`, `</loop>` (`OnlyLoops`; decidable form `onlyLoopsB`), the tag scanner
makes no out-of-range read and what it returns is well-formed — for every nesting depth, every
attribute text (`set=`, `value=`, `sort=`, `group=`, in any order, repeated, unterminated, beyond
the 8-bit offset fields), closed, unclosed or stray `</loop>`, loop-bound variables in `{var:}`,
`{raw:}`, `{math:}` and `set=`.  Covers the length-unchecked comparisons of `checkLoopVariable`
(`checkLoopVariable_safe`) at all their call sites: the invariant `ChainOk` (a loop's value text
lies inside the content and holds neither `}` nor `>`) is kept by `stepLoop` (Finder facts
`next_facts`, `parseLoopAttributes_safe`). -/
theorem parse_wf_loops {R : Type} (cfg : ScanCfg R) (c : List Nat)
    (hn : c.length + 16 < 4294967296) (h : OnlyLoops c) :
    Safe (parse cfg c) (fun tags => wf c.length tags = true) :=
  Qentem.Tmpl.parse_wf_loops cfg c hn h

/-- End-to-end for that sub-language: parse + render makes no out-of-range access, for every
value, formatter, escape setting, sort and group function. -/
theorem render_safe_loops {R : Type} [RealLike R] (cx : RCtx R) (hg : cx.guardIndexRead = true)
    (cfg : ScanCfg R) (hn : cx.content.length + 16 < 4294967296) (h : OnlyLoops cx.content)
    (fuel : Nat) :
    Safe ((parse cfg cx.content).bind (fun tags => renderTop cx tags fuel)) (fun _ => True) :=
  Qentem.Tmpl.render_safe_loops cx hg cfg hn h fuel

set_option maxRecDepth 20000 in
/-- non-vacuity: a loop with a loop-bound variable, a stray `</loop>` and an unclosed loop -/
example : OnlyLoops ("<loop value='v'>{var:v}</loop></loop><loop>{math:1}".toList.map Char.toNat) :=
  onlyLoops_of_check _ (by decide)

/-- `parse_wf`, stage "blocks" (loops + multi-line if): if from no offset the Finder reports
`{svar:` or the inline `{if` (`OnlyBlocks`; decidable form `onlyBlocksB`) — so the tags are `}`,
`{var:`, `{raw:`, `{math:`, `<loop`, `</loop>`, `<if`, `<else` (incl. `<elseif`), `</if>`, in any
nesting, order and (mal)formation: missing `case=`, unterminated quotes, `<else>` without `<if>`,
`</loop>` inside an open `<if>`, tags running to the end of the content — the tag scanner makes no
out-of-range read and what it returns is well-formed. -/
theorem parse_wf_blocks {R : Type} (cfg : ScanCfg R) (c : List Nat)
    (hn : c.length + 16 < 4294967296) (h : OnlyBlocks c) :
    Safe (parse cfg c) (fun tags => wf c.length tags = true) :=
  Qentem.Tmpl.parse_wf_blocks cfg c hn h

/-- End-to-end for that sub-language (everything but `{svar:}` and inline `{if}`): parse + render
makes no out-of-range access, for every value, formatter, escape setting, sort and group function. -/
theorem render_safe_blocks {R : Type} [RealLike R] (cx : RCtx R) (hg : cx.guardIndexRead = true)
    (cfg : ScanCfg R) (hn : cx.content.length + 16 < 4294967296) (h : OnlyBlocks cx.content)
    (fuel : Nat) :
    Safe ((parse cfg cx.content).bind (fun tags => renderTop cx tags fuel)) (fun _ => True) :=
  Qentem.Tmpl.render_safe_blocks cx hg cfg hn h fuel

set_option maxRecDepth 20000 in
/-- non-vacuity: if / elseif / else inside a loop, a stray `<else>` -/
example : OnlyBlocks ("<loop value='v'><if case='{var:v}'>a<elseif case='1'>b<else>c</if></loop><else>".toList.map Char.toNat) :=
  onlyBlocks_of_check _ (by decide)

/-- what a Finder result says about the content (lemma L1 of the staged proof) -/
theorem finder_facts (c : List Nat) (hn : c.length + 16 < 4294967296) (off o m : Nat)
    (hoff : off ≤ c.length) (h : next c off = .ok (o, m)) : NextFacts c off o m :=
  next_facts c hn off o m hoff h

/-- `checkLoopVariable` compares the variable text with every enclosing loop's value name by
`IsEqual(var, value, ValueLength)` without looking at the variable's own length.  No read leaves
the content when (a) every value text of the chain lies inside the content and contains neither
`}` nor `>` and (b) a `}` or `>` follows the variable text inside the content — both hold at every
call site (the value text lies in a `<loop …>` tag interior delimited by the Finder and the `>`
search; every variable text is closed by its tag's `}` / `>`).  Missing for `ParseWF` on
`<loop>` / `<if>`: (a) as an invariant of `stepLoop` (see notes/design-tmpl.md). -/
theorem checkLoopVariable_safe (c : List Nat) (varOff : Nat) (chain : List LoopRef)
    (hch : ChainOk c chain) (hstop : ∃ j x, varOff ≤ j ∧ c[j]? = some x ∧ isStop x) :
    Safe (checkLoopVariable c varOff chain) (fun _ => True) :=
  Qentem.Tmpl.checkLoopVariable_safe c varOff chain hch hstop

/-- the one side condition the code really has: offsets are `SizeT` = 32 bits (the 16 units of head
room cover the `start + wordLength` additions of the Finder) -/
def FitsSizeT (c : List Nat) : Prop := c.length + 16 < 4294967296

/-- **`parse_wf`, complete.**  For EVERY content that fits `SizeT` — any sequence of code units, all
seven tag kinds in any nesting and malformation — and every number reader: the tag scanner (Finder,
attribute scans, `checkLoopVariable`, the expression scanner) makes no out-of-range read, and the
tag tree it returns is well-formed.  Proved against the code with the repairs 0a7719b / bce4ef4
(inline-if start ids not truncated, role-aware sub-tag check): without them the statement is false
(notes/witness-iif-startid.txt).  The general form `Qentem.Tmpl.parse_wf_all` carries the width of
the start-id fields as a hypothesis (`c.length < 2 ^ bits`), discharged here from T1 (32 bits). -/
theorem parse_wf {R : Type} (cfg : ScanCfg R) (c : List Nat) (hn : FitsSizeT c) :
    Safe (parse cfg c) (fun tags => wf c.length tags = true) :=
  Qentem.Tmpl.parse_wf_all cfg c hn
    (by have : (2 : Nat) ^ bits_InLineIfTag_TrueTagsStartID = 4294967296 := by decide
        rw [this]; unfold FitsSizeT at hn; omega)
    (by have : (2 : Nat) ^ bits_InLineIfTag_FalseTagsStartID = 4294967296 := by decide
        rw [this]; unfold FitsSizeT at hn; omega)

/-- the former open statement `ParseWF`, now a theorem (with the size condition) -/
theorem parse_wf_ok {R : Type} (cfg : ScanCfg R) (c : List Nat) (hn : FitsSizeT c) (tags : List (Tag R))
    (h : parse cfg c = .ok tags) : wf c.length tags = true := by
  have := parse_wf cfg c hn
  rw [h] at this
  exact this

/-- **C01's safety statement, complete**: parsing any content that fits `SizeT` and rendering the
result with any value, formatter, escape switch, sort and group function makes no out-of-range
access (content reads, tag-array indexing, loop-item indexing).  (`guardIndexRead`: the repair
487b090 of `getValue`.) -/
theorem render_safe {R : Type} [RealLike R] (cx : RCtx R) (hg : cx.guardIndexRead = true)
    (cfg : ScanCfg R) (hn : FitsSizeT cx.content) (fuel : Nat) :
    Safe ((parse cfg cx.content).bind (fun tags => renderTop cx tags fuel)) (fun _ => True) := by
  have hp := parse_wf cfg cx.content hn
  cases hpe : parse cfg cx.content with
  | error e => rw [hpe] at hp; exact hp
  | ok tags =>
    rw [hpe] at hp
    exact Qentem.Tmpl.render_safe_of_wf cx hg tags hp fuel

/-- non-vacuity of the side condition -/
example : FitsSizeT ("{if case=\"1\" true=\"{var:a}\"}{svar:s, {raw:b}}<loop value='v'>{math:{var:v}}".toList.map Char.toNat) := by
  unfold FitsSizeT; decide

/-- **`parse` is total** (the former open statement `ParseSafe`, with the size condition): for every
content that fits `SizeT` and every number reader the tag scanner model returns a tag list — no
failed read and no exhausted fuel — and the list is well-formed.  Proofs/TmplParseTotal.lean: every
scanner function fails with nothing but a failed read (the inner loops return at fuel 0; the
expression scanner never exhausts its fuel on any range, `parseTop_tq`), which `parse_wf` excludes;
every step of the main loop moves the Finder forward or ends the scan, so `2·n + 4` iterations
suffice. -/
theorem parse_total {R : Type} (cfg : ScanCfg R) (c : List Nat) (hn : FitsSizeT c) :
    ∃ tags, parse cfg c = .ok tags ∧ wf c.length tags = true :=
  Qentem.Tmpl.parse_total cfg c hn
    (by have : (2 : Nat) ^ bits_InLineIfTag_TrueTagsStartID = 4294967296 := by decide
        rw [this]; unfold FitsSizeT at hn; omega)
    (by have : (2 : Nat) ^ bits_InLineIfTag_FalseTagsStartID = 4294967296 := by decide
        rw [this]; unfold FitsSizeT at hn; omega)

/-- Statement without the size condition (kept as written in the design; `parse_total` is the
proved form: contents that do not fit `SizeT` are outside the code's contract). -/
def ParseSafe : Prop :=
  ∀ (R : Type) (cfg : ScanCfg R) (c : List Nat), ∃ tags, parse cfg c = .ok tags

/-- **rendering is total** (the former open statement `RenderSafe`, with the two conditions of
`render_safe`): for every content that fits `SizeT`, every value, formatter, sort and group function
`parse` returns a tag list and some fuel makes `renderTop` return a text.  Proofs/TmplRenderTotal.lean:
`render_mono` (more fuel never changes a result that is not "out of fuel"), `render_ex_all` (for
every tag list and state some fuel gives a value or a failed access: induction on the size of the
list, over the items of each loop, the units of each phrase, the cases of each `<if>`); the failed
access is excluded by `render_safe_of_wf`. -/
theorem render_total {R : Type} [RealLike R] (cx : RCtx R) (hg : cx.guardIndexRead = true)
    (cfg : ScanCfg R) (hn : FitsSizeT cx.content) :
    ∃ tags fuel out, parse cfg cx.content = .ok tags ∧ renderTop cx tags fuel = .ok out := by
  obtain ⟨tags, hp, hw⟩ := parse_total cfg cx.content hn
  obtain ⟨fuel, hf⟩ := Qentem.Tmpl.renderTop_ex cx tags
  obtain ⟨out, ho, _⟩ := Qentem.Expr.TQ.total (render_safe_of_wf cx hg tags hw fuel) hf
  exact ⟨tags, fuel, out, hp, ho⟩

/-- Statement without the conditions (kept as written in the design; `render_total` is the proved
form). -/
def RenderSafe : Prop :=
  ∀ (R : Type) [RealLike R] (cx : RCtx R) (cfg : ScanCfg R) (tags : List (Tag R)),
    parse cfg cx.content = .ok tags → ∃ fuel out, renderTop cx tags fuel = .ok out

end Qentem.Props.C01
