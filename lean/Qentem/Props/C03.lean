import Qentem.Model.Escape
import Qentem.Generated.Escape
/-! C03 — `{var:}` output is HTML-safe for every string; `{raw:}` is verbatim. -/
namespace Qentem.Props.C03
open Qentem.Escape

/-- No raw `< > " '` in the escaped text, for every string over every code unit. -/
theorem escape_no_raw_special (s : List Nat) : ∀ c ∈ escape s, isSpecialNoAmp c = false := by
  fun_induction escape s <;> simp_all [isSpecialNoAmp]

theorem escape_amp_only_entities (s : List Nat) : ampOnlyEntities (escape s) = true := by
  fun_induction escape s <;> simp_all [ampOnlyEntities, startsEntity, entities, entAmp, entLt, entGt, entQuot, entApos]

theorem decode_escape (s : List Nat) : decode (escape s) = decode s := by
  fun_induction escape s <;> simp_all [decode]

theorem escape_idem (s : List Nat) : escape (escape s) = escape s := by
  fun_induction escape s <;> simp_all [escape]

theorem escape_off (s : List Nat) : escapeCfg false s = s := rfl

/-! ### T1: the entity tables compiled from the current headers are the five standard entities,
for every character width (a changed literal breaks these). -/
open Qentem.Generated.Escape in
theorem tables_are_the_five_entities :
    [W1.htmlAnd, W1.htmlLess, W1.htmlGreater, W1.htmlQuote, W1.htmlSingleQuote] = entities ∧
    [W2.htmlAnd, W2.htmlLess, W2.htmlGreater, W2.htmlQuote, W2.htmlSingleQuote] = entities ∧
    [W4.htmlAnd, W4.htmlLess, W4.htmlGreater, W4.htmlQuote, W4.htmlSingleQuote] = entities ∧
    [WW.htmlAnd, WW.htmlLess, WW.htmlGreater, WW.htmlQuote, WW.htmlSingleQuote] = entities ∧
    [W1.semicolon, W2.semicolon, W4.semicolon, WW.semicolon] = [59, 59, 59, 59] ∧
    autoEscapeDefault = true := by decide

/-- What the model emits for one special is the corresponding generated table entry. -/
theorem escape_single_special :
    escape [38] = entAmp ∧ escape [60] = entLt ∧ escape [62] = entGt ∧ escape [34] = entQuot ∧ escape [39] = entApos := by
  decide

/-! Non-vacuity: the theorems have no hypotheses; a concrete non-trivial instance. -/
example : escape [38, 97, 109, 60, 38, 108, 116, 59] = [38, 97, 109, 112, 59, 97, 109, 38, 108, 116, 59, 38, 108, 116, 59] := by decide

end Qentem.Props.C03
