import Qentem.Props.C09Closed

/-!
# C09 — the closed theorems applied to concrete numerals (non-vacuity)

`real_within_one_ulp_closed` and `overflow_reported_closed` are implications with six hypotheses each.
This file shows that the hypotheses are jointly satisfiable by ordinary numerals — every one of them is
discharged by kernel evaluation on the numeral itself — and records what the conclusion then says for
texts of each regime the proof distinguishes: a short fraction, a negative exponent in the region where
the converter is known to be one ulp low, the smallest subnormal, a mantissa longer than the 19-unit
scan window, and an overflowing exponent. Nothing here adds to what is claimed for all inputs; it
guards against a later edit turning one of the hypotheses into something no numeral meets.
-/

namespace Qentem.Props.C09
open Qentem.StrToNum Qentem.Round Qentem.Generated.StrToNum

/-- `0.1` -/
def n_0_1 : Numeral :=
  { neg := false, intDigits := [0], fracDigits := [1], hasDot := true, hasExp := false, expNeg := false, expDigits := [] }

/-- `-1e-273` (the converter returns the double one ulp below the correctly rounded one: inside the bound) -/
def n_1em273 : Numeral :=
  { neg := true, intDigits := [1], fracDigits := [], hasDot := false, hasExp := true, expNeg := true, expDigits := [2, 7, 3] }

/-- `4.9E-324` (rounds to the smallest subnormal) -/
def n_min_sub : Numeral :=
  { neg := false, intDigits := [4], fracDigits := [9], hasDot := true, hasExp := true, expNeg := true,
    expDigits := [3, 2, 4], upperE := true }

/-- `1234567890123456789012345.5` (mantissa longer than the scan window) -/
def n_long : Numeral :=
  { neg := false, intDigits := [1,2,3,4,5,6,7,8,9,0,1,2,3,4,5,6,7,8,9,0,1,2,3,4,5], fracDigits := [5], hasDot := true,
    hasExp := false, expNeg := false, expDigits := [] }

/-- `2e+308` (above the largest finite double) -/
def n_2e308 : Numeral :=
  { neg := false, intDigits := [2], fracDigits := [], hasDot := false, hasExp := true, expNeg := false, expPlus := true,
    expDigits := [3, 0, 8] }

example : n_0_1.units = [48, 46, 49] := by decide
example : n_1em273.units = [45, 49, 101, 45, 50, 55, 51] := by decide
example : n_min_sub.units = [52, 46, 57, 69, 45, 51, 50, 52] := by decide
example : n_2e308.units = [50, 101, 43, 51, 48, 56] := by decide

/-- every hypothesis of `real_within_one_ulp_closed` holds of `x` and the run returns `r` -/
def MeetsRealHyps (x : Numeral) (r : Res) : Prop :=
  x.wf = true ∧ x.leadingZero = false ∧ x.units.length ≤ 99999000 ∧
  strToNum x.units 0 x.units.length = some r ∧ r.kind = .real ∧ magBits r < infBits

theorem closed_applies (x : Numeral) (r : Res) (h : MeetsRealHyps x r) :
    ulpDist (magBits r) (nearestMag x.magFrac.1 x.magFrac.2) ≤ 1 :=
  real_within_one_ulp_closed x h.1 h.2.1 h.2.2.1 r h.2.2.2.1 h.2.2.2.2.1 h.2.2.2.2.2

theorem meets_0_1 : MeetsRealHyps n_0_1 ⟨.real, 0x3FB999999999999A, 3⟩ := by
  refine ⟨by decide, by decide, by decide, by decide, by decide, by decide⟩

theorem meets_1em273 : ∃ r, MeetsRealHyps n_1em273 r ∧ r.offset = 7 ∧ r.bits ≥ 2 ^ 63 := by
  refine ⟨(strToNum n_1em273.units 0 n_1em273.units.length).get (by decide), ?_⟩
  refine ⟨⟨by decide, by decide, by decide, by decide, by decide, by decide⟩, by decide, by decide⟩

theorem meets_min_sub : MeetsRealHyps n_min_sub ⟨.real, 1, 8⟩ := by
  refine ⟨by decide, by decide, by decide, by decide, by decide, by decide⟩

theorem meets_long : MeetsRealHyps n_long ⟨.real, 0x44F056E0F36A6444, 27⟩ := by
  refine ⟨by decide, by decide, by decide, by decide, by decide, by decide⟩

/-- the conclusion for `0.1`, via the general theorem (not by evaluating the distance) -/
theorem within_0_1 : ulpDist 0x3FB999999999999A (nearestMag 1 10) ≤ 1 := by
  have h := closed_applies _ _ meets_0_1
  simpa [n_0_1, Numeral.magFrac, digitsVal, magBits] using h

/-- the one-ulp bound is attained: the theorem cannot be strengthened to `= 0` for the code as written -/
theorem one_ulp_attained :
    (strToNum n_1em273.units 0 n_1em273.units.length).map
      (fun r => ulpDist (magBits r) (nearestMag n_1em273.magFrac.1 n_1em273.magFrac.2)) = some 1 := by
  decide +kernel

/-- every hypothesis of `overflow_reported_closed` holds of `2e+308`, and the run reports an infinity -/
theorem overflow_instance :
    n_2e308.wf = true ∧ n_2e308.leadingZero = false ∧ n_2e308.units.length ≤ 99999000 ∧
    exceedsMaxFinite n_2e308.magFrac.1 n_2e308.magFrac.2 = true ∧
    (strToNum n_2e308.units 0 n_2e308.units.length).map (fun r => (r.kind, magBits r)) = some (.real, infBits) := by
  refine ⟨by decide, by decide, by decide, by decide +kernel, by decide +kernel⟩

end Qentem.Props.C09
