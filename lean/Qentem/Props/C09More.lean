import Qentem.Props.C09
import Qentem.Proofs.StrToNumDotZero
/-! C09 — more shapes of `real_within_one_ulp` / `overflow_reported` (round 6): `ddd.0[e±k…]` (the single zero after
the dot on which the windowed scan stops early), exponents with any number of digits (leading zeros; nine or more
significant digits are out of range), zero-valued numerals, `0.000…ddd` with any number of leading zeros.
All statements are `ClassOutcome` (Proofs/StrToNumFrac.lean): consumed to the end of the numeral; NotANumber only
if the value is outside the double range; otherwise a `Real` with the text's sign within one ulp of the correctly
rounded value. -/
set_option linter.unusedSimpArgs false
namespace Qentem.Props.C09
open Qentem.StrToNum Qentem.Round Qentem.Generated.StrToNum

/-- out of range for a mantissa below `10^19` and a decimal exponent of magnitude `≥ 10^8` -/
theorem out_of_range_big (v k : Nat) (FLAG : Bool) (hv0 : 0 < v) (hv : v < 10 ^ 19) (hk : 100000000 ≤ k) :
    (if FLAG then v * 2 ^ 1074 < 10 ^ k else (2 ^ 53 - 1) * 2 ^ 971 < v * 10 ^ k) := by
  have hpow : (10 : Nat) ^ 400 ≤ 10 ^ k := Nat.pow_le_pow_right (by decide) (by omega)
  cases FLAG with
  | true =>
    simp only [if_true]
    calc v * 2 ^ 1074 < 10 ^ 19 * 2 ^ 1074 := Nat.mul_lt_mul_of_pos_right hv (Nat.pow_pos (by decide))
      _ ≤ 10 ^ 400 := by decide +kernel
      _ ≤ 10 ^ k := hpow
  | false =>
    simp only [Bool.false_eq_true, if_false]
    calc (2 ^ 53 - 1) * 2 ^ 971 < 1 * 10 ^ 400 := by decide +kernel
      _ ≤ v * 10 ^ 400 := Nat.mul_le_mul_right _ hv0
      _ ≤ v * 10 ^ k := Nat.mul_le_mul_left _ hpow

/-- `[+-]? d₁ xs . 0` then the end of the numeral (`1.0`, `-250.0`, …): value `d₁xs` -/
theorem real_within_one_ulp_dotzero_end (c : List Nat) (o e : Nat) (sign : List Nat) (d1 : Nat) (xs : List Nat)
    (he : e < 2 ^ 32) (hs : sign = [] ∨ sign = [43] ∨ sign = [45]) (h1 : isNonZeroDigit d1 = true)
    (hxs : AllDigits xs) (hlen : xs.length ≤ 17)
    (hu : unitsAt c e o (sign ++ (d1 :: xs ++ [46, 48])))
    (hend : endsAt c e (o + sign.length + 1 + xs.length + 2) contReal) :
    ClassOutcome (decide (sign = [45])) (decVal (d1 :: xs)) 0 false
      (o + sign.length + 1 + xs.length + 2) (strToNum c o e) := by
  have hdig := isNonZeroDigit_isDigit h1
  have hf : d1 ≠ 45 ∧ d1 ≠ 43 := by simp [isDigit] at hdig; omega
  have hu' := (unitsAt_append c e sign (d1 :: xs ++ [46, 48]) o).1 hu
  have hu1 : unitsAt c e o (sign ++ [d1]) := (unitsAt_append c e sign [d1] o).2 ⟨hu'.1, hu'.2.1, trivial⟩
  have hu2 := (unitsAt_append c e (d1 :: xs) [46, 48] (o + sign.length)).1 hu'.2
  have hZ : rd c e (o + sign.length + 1 + xs.length + 1) = some 48 := by
    have := hu2.2.2.1; simp only [List.length_cons] at this
    rw [show o + sign.length + 1 + xs.length + 1 = o + sign.length + (xs.length + 1) + 1 by omega]; exact this
  have hZlt := rd_lt hZ
  have hQe : o + sign.length + 1 + xs.length + 2 ≤ e := by omega
  have hstop : o + sign.length + 1 + xs.length + 2 = e ∨
      ∃ x, rd c e (o + sign.length + 1 + xs.length + 2) = some x ∧ isDigit x = false := by
    rcases hend with h | ⟨x, hx, hc⟩
    · exact Or.inl h
    · simp only [contReal, Bool.or_eq_false_iff, beq_eq_false_iff_ne] at hc
      exact Or.inr ⟨x, hx, hc.1.1⟩
  have hdz : digitsOn c e (o + sign.length + 1 + xs.length + 1) (o + sign.length + 1 + xs.length + 2) := by
    intro k hk1 hk2
    have : k = o + sign.length + 1 + xs.length + 1 := by omega
    subst this; exact ⟨48, hZ, by decide⟩
  rw [strToNum_after_sign c o e sign d1 hs hu1 hf]
  rw [afterSign_dotzero c e _ (o + sign.length) d1 xs he h1 hxs hlen hu'.2 hstop]
  rw [finishReal_end_skip c e _ _ _ _ _ false true _ (o + sign.length + 1 + xs.length + 2) hdz (by omega) hQe hend
    (Or.inl rfl) (xs.length + 1) 0
    (by simp only [b2n, Bool.not_false, Bool.and_self, if_true]
        rw [sub32_sub32 _ _ 1 (by omega) (by omega)]; omega)
    (by simp only [Bool.false_eq_true, if_false, if_true]
        rw [sub32_sub32 _ _ 1 (by omega) (by omega)]; omega)
    (by decide)]
  have hne : netExp false 0 false 0 = (0, false) := by unfold netExp; simp
  rw [hne]
  have hall : AllDigits (d1 :: xs) := by
    intro y hy
    rcases List.mem_cons.1 hy with h | h
    · subst h; exact hdig
    · exact hxs y h
  have hge := decVal_ge d1 xs h1
  have hvhi := decVal_lt_pow (d1 :: xs) hall
  have hl : (d1 :: xs).length = xs.length + 1 := by simp
  rw [hl] at hvhi
  have hv0 : 0 < decVal (d1 :: xs) := Nat.lt_of_lt_of_le (Nat.pow_pos (by decide)) hge
  have hv64 : decVal (d1 :: xs) < 2 ^ 64 :=
    Nat.lt_of_lt_of_le hvhi (Nat.le_trans (Nat.pow_le_pow_right (by decide) (by omega)) (by decide : (10 : Nat) ^ 19 ≤ 2 ^ 64))
  exact realResult_class_all _ (decVal (d1 :: xs)) (xs.length + 1) 0 false _ hv0 hv64 (by simpa using hge) hvhi
    (by omega) (by omega) (by decide)

/-- `[+-]? d₁ xs . 0 (e|E) [+-]? ks` — exponent of **any** number of digits (value `d₁xs · 10^(±ks)`) -/
theorem real_within_one_ulp_dotzero_exp (c : List Nat) (o e : Nat) (sign : List Nat) (d1 : Nat) (xs : List Nat)
    (m : Nat) (es ks : List Nat)
    (he : e < 2 ^ 32) (hs : sign = [] ∨ sign = [43] ∨ sign = [45]) (h1 : isNonZeroDigit d1 = true)
    (hxs : AllDigits xs) (hlen : xs.length ≤ 17)
    (hm : m = 101 ∨ m = 69) (hes : es = [] ∨ es = [43] ∨ es = [45]) (hks : AllDigits ks) (hk0 : ks ≠ [])
    (hu : unitsAt c e o (sign ++ (d1 :: xs ++ [46, 48]) ++ [m] ++ (es ++ ks)))
    (hend : endsAt c e (o + sign.length + 1 + xs.length + 2 + 1 + es.length + ks.length) isDigit) :
    ClassOutcome (decide (sign = [45])) (decVal (d1 :: xs))
      (netExp false (decVal ks) (decide (es = [45])) 0).1 (netExp false (decVal ks) (decide (es = [45])) 0).2
      (o + sign.length + 1 + xs.length + 2 + 1 + es.length + ks.length) (strToNum c o e) := by
  have hdig := isNonZeroDigit_isDigit h1
  have hf : d1 ≠ 45 ∧ d1 ≠ 43 := by simp [isDigit] at hdig; omega
  have hA := (unitsAt_append c e (sign ++ (d1 :: xs ++ [46, 48]) ++ [m]) (es ++ ks) o).1 hu
  have hB := (unitsAt_append c e (sign ++ (d1 :: xs ++ [46, 48])) [m] o).1 hA.1
  have hu' := (unitsAt_append c e sign (d1 :: xs ++ [46, 48]) o).1 hB.1
  have hu1 : unitsAt c e o (sign ++ [d1]) := (unitsAt_append c e sign [d1] o).2 ⟨hu'.1, hu'.2.1, trivial⟩
  have hu2 := (unitsAt_append c e (d1 :: xs) [46, 48] (o + sign.length)).1 hu'.2
  have hZ : rd c e (o + sign.length + 1 + xs.length + 1) = some 48 := by
    have := hu2.2.2.1; simp only [List.length_cons] at this
    rw [show o + sign.length + 1 + xs.length + 1 = o + sign.length + (xs.length + 1) + 1 by omega]; exact this
  have hM : rd c e (o + sign.length + 1 + xs.length + 2) = some m := by
    have := hB.2.1
    simp only [List.length_append, List.length_cons, List.length_nil] at this
    rw [show o + sign.length + 1 + xs.length + 2 = o + (sign.length + (xs.length + 1 + (0 + 1 + 1))) by omega]; exact this
  have hE : unitsAt c e (o + sign.length + 1 + xs.length + 2 + 1) (es ++ ks) := by
    have := hA.2
    simp only [List.length_append, List.length_cons, List.length_nil] at this
    rw [show o + sign.length + 1 + xs.length + 2 + 1 = o + (sign.length + (xs.length + 1 + (0 + 1 + 1)) + (0 + 1)) by omega]
    exact this
  have hmd : isDigit m = false := by rcases hm with h | h <;> subst h <;> decide
  have hMlt := rd_lt hM
  have hstop : o + sign.length + 1 + xs.length + 2 = e ∨
      ∃ x, rd c e (o + sign.length + 1 + xs.length + 2) = some x ∧ isDigit x = false := Or.inr ⟨m, hM, hmd⟩
  have hdz : digitsOn c e (o + sign.length + 1 + xs.length + 1) (o + sign.length + 1 + xs.length + 2) := by
    intro k hk1 hk2
    have : k = o + sign.length + 1 + xs.length + 1 := by omega
    subst this; exact ⟨48, hZ, by decide⟩
  have hall : AllDigits (d1 :: xs) := by
    intro y hy
    rcases List.mem_cons.1 hy with h | h
    · subst h; exact hdig
    · exact hxs y h
  have hge := decVal_ge d1 xs h1
  have hvhi := decVal_lt_pow (d1 :: xs) hall
  have hl : (d1 :: xs).length = xs.length + 1 := by simp
  rw [hl] at hvhi
  have hv0 : 0 < decVal (d1 :: xs) := Nat.lt_of_lt_of_le (Nat.pow_pos (by decide)) hge
  have hv19 : decVal (d1 :: xs) < 10 ^ 19 :=
    Nat.lt_of_lt_of_le hvhi (Nat.pow_le_pow_right (by decide) (by omega))
  have hv64 : decVal (d1 :: xs) < 2 ^ 64 := Nat.lt_of_lt_of_le hv19 (by decide)
  rw [strToNum_after_sign c o e sign d1 hs hu1 hf]
  rw [afterSign_dotzero c e _ (o + sign.length) d1 xs he h1 hxs hlen hu'.2 hstop]
  rcases Nat.lt_or_ge (decVal ks) 100000000 with hsmall | hbig
  · rw [finishReal_exp_skip c e _ _ _ _ _ false true _ (o + sign.length + 1 + xs.length + 2) m es ks hdz (by omega) hM hm he
      hes hks hk0 hE hend (Or.inl rfl) hsmall (xs.length + 1) 0
      (by simp only [b2n, Bool.not_false, Bool.and_self, if_true]
          rw [sub32_sub32 _ _ 1 (by omega) (by omega)]; omega)
      (by simp only [Bool.false_eq_true, if_false, if_true]
          rw [sub32_sub32 _ _ 1 (by omega) (by omega)]; omega)
      (by decide)]
    have hX : (netExp false (decVal ks) (decide (es = [45])) 0).1 < 2 ^ 31 := by
      unfold netExp
      split
      · simp; omega
      · split <;> simp <;> omega
    exact realResult_class_all _ (decVal (d1 :: xs)) (xs.length + 1) _ _ _ hv0 hv64 (by simpa using hge) hvhi
      (by omega) (by omega) hX
  · rw [finishReal_exp_sat c e _ _ _ _ _ false true _ (o + sign.length + 1 + xs.length + 2) m es ks hdz (by omega) hM hm
      hes hks hk0 hE hend (by omega) hbig]
    have hne : netExp false (decVal ks) (decide (es = [45])) 0 = (decVal ks, decide (es = [45])) := by
      unfold netExp
      have : decVal ks ≠ 0 := by omega
      cases h : decide (es = [45]) <;> simp [this]
    rw [hne]
    exact ⟨_, rfl, rfl, Or.inl ⟨rfl, out_of_range_big _ _ _ hv0 hv19 hbig⟩⟩

end Qentem.Props.C09
