import Qentem.Props.C09
import Qentem.Proofs.StrToNumDotZero
import Qentem.Proofs.StrToNumZero
import Qentem.Proofs.StrToNumIntExp
/-! C09 — more shapes of `real_within_one_ulp` / `overflow_reported` (round 6): `ddd.0[e±k…]` (the single zero after
the dot on which the windowed scan stops early), exponents with any number of digits (leading zeros; nine or more
significant digits are out of range), zero-valued numerals, `0.000…ddd` with any number of leading zeros.
All statements are `ClassOutcome` (Proofs/StrToNumFrac.lean): consumed to the end of the numeral; NotANumber only
if the value is outside the double range; otherwise a `Real` with the text's sign within one ulp of the correctly
rounded value. -/
set_option linter.unusedSimpArgs false
namespace Qentem.Props.C09
open Qentem.StrToNum Qentem.Round Qentem.Generated.StrToNum

/-- `[+-]? d₁ xs . 0` then the end of the numeral (`1.0`, `-250.0`, …): value `d₁xs` -/
theorem real_within_one_ulp_dotzero_end (c : List Nat) (o e : Nat) (sign : List Nat) (d1 : Nat) (xs : List Nat)
    (he : e < 2 ^ 32) (hs : sign = [] ∨ sign = [43] ∨ sign = [45]) (h1 : isNonZeroDigit d1 = true)
    (hxs : AllDigits xs) (hlen : xs.length ≤ 17)
    (hu : unitsAt c e o (sign ++ (d1 :: xs ++ [46, 48])))
    (hend : endsAt c e (o + sign.length + 1 + xs.length + 2) contReal) :
    ClassOutcome (decide (sign = [45])) (decVal (d1 :: xs)) 0 false
      (o + sign.length + 1 + xs.length + 2) (strToNum c o e) := by
  have hdig := isNonZeroDigit_isDigit h1
  have hf : d1 ≠ 45 ∧ d1 ≠ 43 := by simp [isDigit] at hdig; omega
  have hu' := (unitsAt_append c e sign (d1 :: xs ++ [46, 48]) o).1 hu
  have hu1 : unitsAt c e o (sign ++ [d1]) := (unitsAt_append c e sign [d1] o).2 ⟨hu'.1, hu'.2.1, trivial⟩
  have hu2 := (unitsAt_append c e (d1 :: xs) [46, 48] (o + sign.length)).1 hu'.2
  have hZ : rd c e (o + sign.length + 1 + xs.length + 1) = some 48 := by
    have := hu2.2.2.1; simp only [List.length_cons] at this
    rw [show o + sign.length + 1 + xs.length + 1 = o + sign.length + (xs.length + 1) + 1 by omega]; exact this
  have hZlt := rd_lt hZ
  have hQe : o + sign.length + 1 + xs.length + 2 ≤ e := by omega
  have hstop : o + sign.length + 1 + xs.length + 2 = e ∨
      ∃ x, rd c e (o + sign.length + 1 + xs.length + 2) = some x ∧ isDigit x = false := by
    rcases hend with h | ⟨x, hx, hc⟩
    · exact Or.inl h
    · simp only [contReal, Bool.or_eq_false_iff, beq_eq_false_iff_ne] at hc
      exact Or.inr ⟨x, hx, hc.1.1⟩
  have hdz : digitsOn c e (o + sign.length + 1 + xs.length + 1) (o + sign.length + 1 + xs.length + 2) := by
    intro k hk1 hk2
    have : k = o + sign.length + 1 + xs.length + 1 := by omega
    subst this; exact ⟨48, hZ, by decide⟩
  rw [strToNum_after_sign c o e sign d1 hs hu1 hf]
  rw [afterSign_dotzero c e _ (o + sign.length) d1 xs he h1 hxs hlen hu'.2 hstop]
  rw [finishReal_end_skip c e _ _ _ _ _ false true _ (o + sign.length + 1 + xs.length + 2) hdz (by omega) hQe hend
    (Or.inl rfl) (xs.length + 1) 0
    (by simp only [b2n, Bool.not_false, Bool.and_self, if_true]
        rw [sub32_sub32 _ _ 1 (by omega) (by omega)]; omega)
    (by simp only [Bool.false_eq_true, if_false, if_true]
        rw [sub32_sub32 _ _ 1 (by omega) (by omega)]; omega)
    (by decide)]
  have hne : netExp false 0 false 0 = (0, false) := by unfold netExp; simp
  rw [hne]
  have hall : AllDigits (d1 :: xs) := by
    intro y hy
    rcases List.mem_cons.1 hy with h | h
    · subst h; exact hdig
    · exact hxs y h
  have hge := decVal_ge d1 xs h1
  have hvhi := decVal_lt_pow (d1 :: xs) hall
  have hl : (d1 :: xs).length = xs.length + 1 := by simp
  rw [hl] at hvhi
  have hv0 : 0 < decVal (d1 :: xs) := Nat.lt_of_lt_of_le (Nat.pow_pos (by decide)) hge
  have hv64 : decVal (d1 :: xs) < 2 ^ 64 :=
    Nat.lt_of_lt_of_le hvhi (Nat.le_trans (Nat.pow_le_pow_right (by decide) (by omega)) (by decide : (10 : Nat) ^ 19 ≤ 2 ^ 64))
  exact realResult_class_all _ (decVal (d1 :: xs)) (xs.length + 1) 0 false _ hv0 hv64 (by simpa using hge) hvhi
    (by omega) (by omega) (by decide)

/-- `[+-]? d₁ xs . 0 (e|E) [+-]? ks` — exponent of **any** number of digits (value `d₁xs · 10^(±ks)`) -/
theorem real_within_one_ulp_dotzero_exp (c : List Nat) (o e : Nat) (sign : List Nat) (d1 : Nat) (xs : List Nat)
    (m : Nat) (es ks : List Nat)
    (he : e < 2 ^ 32) (hs : sign = [] ∨ sign = [43] ∨ sign = [45]) (h1 : isNonZeroDigit d1 = true)
    (hxs : AllDigits xs) (hlen : xs.length ≤ 17)
    (hm : m = 101 ∨ m = 69) (hes : es = [] ∨ es = [43] ∨ es = [45]) (hks : AllDigits ks) (hk0 : ks ≠ [])
    (hu : unitsAt c e o (sign ++ (d1 :: xs ++ [46, 48]) ++ [m] ++ (es ++ ks)))
    (hend : endsAt c e (o + sign.length + 1 + xs.length + 2 + 1 + es.length + ks.length) isDigit) :
    ClassOutcome (decide (sign = [45])) (decVal (d1 :: xs))
      (netExp false (decVal ks) (decide (es = [45])) 0).1 (netExp false (decVal ks) (decide (es = [45])) 0).2
      (o + sign.length + 1 + xs.length + 2 + 1 + es.length + ks.length) (strToNum c o e) := by
  have hdig := isNonZeroDigit_isDigit h1
  have hf : d1 ≠ 45 ∧ d1 ≠ 43 := by simp [isDigit] at hdig; omega
  have hA := (unitsAt_append c e (sign ++ (d1 :: xs ++ [46, 48]) ++ [m]) (es ++ ks) o).1 hu
  have hB := (unitsAt_append c e (sign ++ (d1 :: xs ++ [46, 48])) [m] o).1 hA.1
  have hu' := (unitsAt_append c e sign (d1 :: xs ++ [46, 48]) o).1 hB.1
  have hu1 : unitsAt c e o (sign ++ [d1]) := (unitsAt_append c e sign [d1] o).2 ⟨hu'.1, hu'.2.1, trivial⟩
  have hu2 := (unitsAt_append c e (d1 :: xs) [46, 48] (o + sign.length)).1 hu'.2
  have hZ : rd c e (o + sign.length + 1 + xs.length + 1) = some 48 := by
    have := hu2.2.2.1; simp only [List.length_cons] at this
    rw [show o + sign.length + 1 + xs.length + 1 = o + sign.length + (xs.length + 1) + 1 by omega]; exact this
  have hM : rd c e (o + sign.length + 1 + xs.length + 2) = some m := by
    have := hB.2.1
    simp only [List.length_append, List.length_cons, List.length_nil] at this
    rw [show o + sign.length + 1 + xs.length + 2 = o + (sign.length + (xs.length + 1 + (0 + 1 + 1))) by omega]; exact this
  have hE : unitsAt c e (o + sign.length + 1 + xs.length + 2 + 1) (es ++ ks) := by
    have := hA.2
    simp only [List.length_append, List.length_cons, List.length_nil] at this
    rw [show o + sign.length + 1 + xs.length + 2 + 1 = o + (sign.length + (xs.length + 1 + (0 + 1 + 1)) + (0 + 1)) by omega]
    exact this
  have hmd : isDigit m = false := by rcases hm with h | h <;> subst h <;> decide
  have hMlt := rd_lt hM
  have hstop : o + sign.length + 1 + xs.length + 2 = e ∨
      ∃ x, rd c e (o + sign.length + 1 + xs.length + 2) = some x ∧ isDigit x = false := Or.inr ⟨m, hM, hmd⟩
  have hdz : digitsOn c e (o + sign.length + 1 + xs.length + 1) (o + sign.length + 1 + xs.length + 2) := by
    intro k hk1 hk2
    have : k = o + sign.length + 1 + xs.length + 1 := by omega
    subst this; exact ⟨48, hZ, by decide⟩
  have hall : AllDigits (d1 :: xs) := by
    intro y hy
    rcases List.mem_cons.1 hy with h | h
    · subst h; exact hdig
    · exact hxs y h
  have hge := decVal_ge d1 xs h1
  have hvhi := decVal_lt_pow (d1 :: xs) hall
  have hl : (d1 :: xs).length = xs.length + 1 := by simp
  rw [hl] at hvhi
  have hv0 : 0 < decVal (d1 :: xs) := Nat.lt_of_lt_of_le (Nat.pow_pos (by decide)) hge
  have hv19 : decVal (d1 :: xs) < 10 ^ 19 :=
    Nat.lt_of_lt_of_le hvhi (Nat.pow_le_pow_right (by decide) (by omega))
  have hv64 : decVal (d1 :: xs) < 2 ^ 64 := Nat.lt_of_lt_of_le hv19 (by decide)
  rw [strToNum_after_sign c o e sign d1 hs hu1 hf]
  rw [afterSign_dotzero c e _ (o + sign.length) d1 xs he h1 hxs hlen hu'.2 hstop]
  rcases Nat.lt_or_ge (decVal ks) 100000000 with hsmall | hbig
  · rw [finishReal_exp_skip c e _ _ _ _ _ false true _ (o + sign.length + 1 + xs.length + 2) m es ks hdz (by omega) hM hm he
      hes hks hk0 hE hend (Or.inl rfl) hsmall (xs.length + 1) 0
      (by simp only [b2n, Bool.not_false, Bool.and_self, if_true]
          rw [sub32_sub32 _ _ 1 (by omega) (by omega)]; omega)
      (by simp only [Bool.false_eq_true, if_false, if_true]
          rw [sub32_sub32 _ _ 1 (by omega) (by omega)]; omega)
      (by decide)]
    have hX : (netExp false (decVal ks) (decide (es = [45])) 0).1 < 2 ^ 31 := by
      unfold netExp
      split
      · simp; omega
      · split <;> simp <;> omega
    exact realResult_class_all _ (decVal (d1 :: xs)) (xs.length + 1) _ _ _ hv0 hv64 (by simpa using hge) hvhi
      (by omega) (by omega) hX
  · rw [finishReal_exp_sat c e _ _ _ _ _ false true _ (o + sign.length + 1 + xs.length + 2) m es ks hdz (by omega) hM hm
      hes hks hk0 hE hend (by omega) hbig]
    have hne : netExp false (decVal ks) (decide (es = [45])) 0 = (decVal ks, decide (es = [45])) := by
      unfold netExp
      have : decVal ks ≠ 0 := by omega
      cases h : decide (es = [45]) <;> simp [this]
    rw [hne]
    exact ⟨_, rfl, rfl, Or.inl ⟨rfl, out_of_range_big _ _ _ hv0 hv19 (by omega)⟩⟩

/-! ### zero-valued numerals -/

/-- `[+-]? 0 . 0…0` (one or more zeros) then the end of the numeral: `±0`, consumed -/
theorem zero_dot_zeros_end (c : List Nat) (o e : Nat) (sign zs : List Nat) (he : e < 2 ^ 32)
    (hs : sign = [] ∨ sign = [43] ∨ sign = [45]) (hz : ∀ z ∈ zs, z = 48) (hz0 : zs ≠ [])
    (hu : unitsAt c e o (sign ++ ([48, 46] ++ zs)))
    (hend : endsAt c e (o + sign.length + 2 + zs.length) contReal) :
    strToNum c o e = some ⟨.real, if decide (sign = [45]) then 0x8000000000000000 else 0, o + sign.length + 2 + zs.length⟩ := by
  have hu' := (unitsAt_append c e sign ([48, 46] ++ zs) o).1 hu
  have hu1 : unitsAt c e o (sign ++ [48]) := (unitsAt_append c e sign [48] o).2 ⟨hu'.1, hu'.2.1, trivial⟩
  have hQe : o + sign.length + 2 + zs.length ≤ e := by
    rcases hend with h | ⟨x, hx, _⟩
    · omega
    · exact Nat.le_of_lt (rd_lt hx)
  have hstop : o + sign.length + 2 + zs.length = e ∨
      ∃ x, rd c e (o + sign.length + 2 + zs.length) = some x ∧ isDigit x = false ∧ x ≠ 46 := by
    rcases hend with h | ⟨x, hx, hc⟩
    · exact Or.inl h
    · simp only [contReal, Bool.or_eq_false_iff, beq_eq_false_iff_ne] at hc
      exact Or.inr ⟨x, hx, hc.1.1, hc.1.2⟩
  rw [strToNum_after_sign c o e sign 48 hs hu1 (by decide)]
  rw [afterSign_zero_dot c e _ (o + sign.length) zs he hz hz0 hu'.2 hstop]
  rw [finishReal_zero_end c e _ _ _ _ true true _ (o + sign.length + 2 + zs.length) (fun k h1 h2 => by omega)
    (Nat.le_refl _) hQe hend]

/-- `[+-]? 0 . 0…0 (e|E) [+-]? ks` — any exponent: `±0`, consumed -/
theorem zero_dot_zeros_exp (c : List Nat) (o e : Nat) (sign zs : List Nat) (m : Nat) (es ks : List Nat) (he : e < 2 ^ 32)
    (hs : sign = [] ∨ sign = [43] ∨ sign = [45]) (hz : ∀ z ∈ zs, z = 48) (hz0 : zs ≠ [])
    (hm : m = 101 ∨ m = 69) (hes : es = [] ∨ es = [43] ∨ es = [45]) (hks : AllDigits ks) (hk0 : ks ≠ [])
    (hu : unitsAt c e o (sign ++ ([48, 46] ++ zs) ++ [m] ++ (es ++ ks)))
    (hend : endsAt c e (o + sign.length + 2 + zs.length + 1 + es.length + ks.length) isDigit) :
    strToNum c o e = some ⟨.real, if decide (sign = [45]) then 0x8000000000000000 else 0,
      o + sign.length + 2 + zs.length + 1 + es.length + ks.length⟩ := by
  have hA := (unitsAt_append c e (sign ++ ([48, 46] ++ zs) ++ [m]) (es ++ ks) o).1 hu
  have hB := (unitsAt_append c e (sign ++ ([48, 46] ++ zs)) [m] o).1 hA.1
  have hu' := (unitsAt_append c e sign ([48, 46] ++ zs) o).1 hB.1
  have hu1 : unitsAt c e o (sign ++ [48]) := (unitsAt_append c e sign [48] o).2 ⟨hu'.1, hu'.2.1, trivial⟩
  have hM : rd c e (o + sign.length + 2 + zs.length) = some m := by
    have := hB.2.1
    simp only [List.length_append, List.length_cons, List.length_nil] at this
    rw [show o + sign.length + 2 + zs.length = o + (sign.length + (0 + 1 + 1 + zs.length)) by omega]; exact this
  have hE : unitsAt c e (o + sign.length + 2 + zs.length + 1) (es ++ ks) := by
    have := hA.2
    simp only [List.length_append, List.length_cons, List.length_nil] at this
    rw [show o + sign.length + 2 + zs.length + 1 = o + (sign.length + (0 + 1 + 1 + zs.length) + (0 + 1)) by omega]
    exact this
  have hmd : isDigit m = false := by rcases hm with h | h <;> subst h <;> decide
  have hstop : o + sign.length + 2 + zs.length = e ∨
      ∃ x, rd c e (o + sign.length + 2 + zs.length) = some x ∧ isDigit x = false ∧ x ≠ 46 :=
    Or.inr ⟨m, hM, hmd, by omega⟩
  rw [strToNum_after_sign c o e sign 48 hs hu1 (by decide)]
  rw [afterSign_zero_dot c e _ (o + sign.length) zs he hz hz0 hu'.2 hstop]
  rw [finishReal_zero_exp c e _ _ _ _ true true _ (o + sign.length + 2 + zs.length) m es ks (fun k h1 h2 => by omega)
    (Nat.le_refl _) hM hm hes hks hk0 hE hend]

/-- `[+-]? 0 (e|E) [+-]? ks` — any exponent: `±0`, consumed -/
theorem zero_exp (c : List Nat) (o e : Nat) (sign : List Nat) (m : Nat) (es ks : List Nat) (he : e < 2 ^ 32)
    (hs : sign = [] ∨ sign = [43] ∨ sign = [45])
    (hm : m = 101 ∨ m = 69) (hes : es = [] ∨ es = [43] ∨ es = [45]) (hks : AllDigits ks) (hk0 : ks ≠ [])
    (hu : unitsAt c e o (sign ++ [48, m] ++ (es ++ ks)))
    (hend : endsAt c e (o + sign.length + 2 + es.length + ks.length) isDigit) :
    strToNum c o e = some ⟨.real, if decide (sign = [45]) then 0x8000000000000000 else 0,
      o + sign.length + 2 + es.length + ks.length⟩ := by
  have hA := (unitsAt_append c e (sign ++ [48, m]) (es ++ ks) o).1 hu
  have hu' := (unitsAt_append c e sign [48, m] o).1 hA.1
  have hu1 : unitsAt c e o (sign ++ [48]) := (unitsAt_append c e sign [48] o).2 ⟨hu'.1, hu'.2.1, trivial⟩
  have hM : rd c e (o + sign.length + 1) = some m := hu'.2.2.1
  have hE : unitsAt c e (o + sign.length + 1 + 1) (es ++ ks) := by
    have := hA.2
    simp only [List.length_append, List.length_cons, List.length_nil] at this
    rw [show o + sign.length + 1 + 1 = o + (sign.length + (0 + 1 + 1)) by omega]; exact this
  rw [strToNum_after_sign c o e sign 48 hs hu1 (by decide)]
  rw [afterSign_zero_exp c e _ (o + sign.length) m he hu'.2.1 hM hm]
  rw [finishReal_zero_exp c e _ _ _ _ false false _ (o + sign.length + 1) m es ks (fun k h1 h2 => by omega)
    (Nat.le_refl _) hM hm hes hks hk0 hE (by
      rw [show o + sign.length + 1 + 1 + es.length + ks.length = o + sign.length + 2 + es.length + ks.length by omega]
      exact hend)]

/-! ### `0.000…ddd` with any number of leading fraction zeros -/

/-- `[+-]? 0 . zs d₁ ys` (`zs` zeros, `d₁ ≠ 0`, at most 18 significant digits) then the end of the numeral -/
theorem real_within_one_ulp_small_end (c : List Nat) (o e : Nat) (sign zs : List Nat) (d1 : Nat) (ys : List Nat)
    (he : e < 2 ^ 32) (hs : sign = [] ∨ sign = [43] ∨ sign = [45]) (hz : ∀ z ∈ zs, z = 48) (hzl : zs.length < 2 ^ 30)
    (h1 : isNonZeroDigit d1 = true) (hys : AllDigits ys) (hlen : ys.length ≤ 17)
    (hu : unitsAt c e o (sign ++ ([48, 46] ++ zs ++ d1 :: ys)))
    (hend : endsAt c e (o + sign.length + 2 + zs.length + 1 + ys.length) contReal) :
    ClassOutcome (decide (sign = [45])) (decVal (d1 :: ys)) (zs.length + 1 + ys.length) true
      (o + sign.length + 2 + zs.length + 1 + ys.length) (strToNum c o e) := by
  have hdig := isNonZeroDigit_isDigit h1
  have hu' := (unitsAt_append c e sign ([48, 46] ++ zs ++ d1 :: ys) o).1 hu
  have hu1 : unitsAt c e o (sign ++ [48]) := (unitsAt_append c e sign [48] o).2 ⟨hu'.1, hu'.2.1, trivial⟩
  have hQe : o + sign.length + 2 + zs.length + 1 + ys.length ≤ e := by
    rcases hend with h | ⟨x, hx, _⟩
    · omega
    · exact Nat.le_of_lt (rd_lt hx)
  have hstop : o + sign.length + 2 + zs.length + 1 + ys.length = e ∨
      ∃ x, rd c e (o + sign.length + 2 + zs.length + 1 + ys.length) = some x ∧ isDigit x = false ∧ x ≠ 46 := by
    rcases hend with h | ⟨x, hx, hc⟩
    · exact Or.inl h
    · simp only [contReal, Bool.or_eq_false_iff, beq_eq_false_iff_ne] at hc
      exact Or.inr ⟨x, hx, hc.1.1, hc.1.2⟩
  rw [strToNum_after_sign c o e sign 48 hs hu1 (by decide)]
  rw [afterSign_small c e _ (o + sign.length) zs d1 ys he hz h1 hys hlen hu'.2 hstop]
  rw [finishReal_end c e _ _ _ _ _ true true _ hQe hend (1 + ys.length) (zs.length + 1 + ys.length)
    (by simp only [b2n, Bool.not_true, Bool.false_and, Bool.false_eq_true, if_false]
        rw [sub32_sub32 _ _ 0 (by omega) (by omega)]; omega)
    (by simp only [if_true]
        rw [sub32_sub32 _ _ 1 (by omega) (by omega), add32_eq _ _ (by omega)]; omega)
    (by omega)]
  have hne : netExp true 0 false (zs.length + 1 + ys.length) = (zs.length + 1 + ys.length, true) := by
    unfold netExp; simp
  rw [hne]
  have hall : AllDigits (d1 :: ys) := by
    intro y hy
    rcases List.mem_cons.1 hy with h | h
    · subst h; exact hdig
    · exact hys y h
  have hge := decVal_ge d1 ys h1
  have hvhi := decVal_lt_pow (d1 :: ys) hall
  have hl : (d1 :: ys).length = 1 + ys.length := by simp; omega
  rw [hl] at hvhi
  have hv0 : 0 < decVal (d1 :: ys) := Nat.lt_of_lt_of_le (Nat.pow_pos (by decide)) hge
  have hv64 : decVal (d1 :: ys) < 2 ^ 64 :=
    Nat.lt_of_lt_of_le hvhi (Nat.le_trans (Nat.pow_le_pow_right (by decide) (by omega)) (by decide : (10 : Nat) ^ 19 ≤ 2 ^ 64))
  exact realResult_class_all _ (decVal (d1 :: ys)) (1 + ys.length) _ true _ hv0 hv64
    (by rw [show 1 + ys.length - 1 = ys.length by omega]; exact hge) hvhi (by omega) (by omega) (by omega)

/-- `[+-]? 0 . zs d₁ ys (e|E) [+-]? ks` — exponent of any number of digits (fewer than 99 999 000 leading zeros) -/
theorem real_within_one_ulp_small_exp (c : List Nat) (o e : Nat) (sign zs : List Nat) (d1 : Nat) (ys : List Nat)
    (m : Nat) (es ks : List Nat)
    (he : e < 2 ^ 32) (hs : sign = [] ∨ sign = [43] ∨ sign = [45]) (hz : ∀ z ∈ zs, z = 48) (hzl : zs.length ≤ 99999000)
    (h1 : isNonZeroDigit d1 = true) (hys : AllDigits ys) (hlen : ys.length ≤ 17)
    (hm : m = 101 ∨ m = 69) (hes : es = [] ∨ es = [43] ∨ es = [45]) (hks : AllDigits ks) (hk0 : ks ≠ [])
    (hu : unitsAt c e o (sign ++ ([48, 46] ++ zs ++ d1 :: ys) ++ [m] ++ (es ++ ks)))
    (hend : endsAt c e (o + sign.length + 2 + zs.length + 1 + ys.length + 1 + es.length + ks.length) isDigit) :
    ClassOutcome (decide (sign = [45])) (decVal (d1 :: ys))
      (netExp true (decVal ks) (decide (es = [45])) (zs.length + 1 + ys.length)).1
      (netExp true (decVal ks) (decide (es = [45])) (zs.length + 1 + ys.length)).2
      (o + sign.length + 2 + zs.length + 1 + ys.length + 1 + es.length + ks.length) (strToNum c o e) := by
  have hdig := isNonZeroDigit_isDigit h1
  have hA := (unitsAt_append c e (sign ++ ([48, 46] ++ zs ++ d1 :: ys) ++ [m]) (es ++ ks) o).1 hu
  have hB := (unitsAt_append c e (sign ++ ([48, 46] ++ zs ++ d1 :: ys)) [m] o).1 hA.1
  have hu' := (unitsAt_append c e sign ([48, 46] ++ zs ++ d1 :: ys) o).1 hB.1
  have hu1 : unitsAt c e o (sign ++ [48]) := (unitsAt_append c e sign [48] o).2 ⟨hu'.1, hu'.2.1, trivial⟩
  have hM : rd c e (o + sign.length + 2 + zs.length + 1 + ys.length) = some m := by
    have := hB.2.1
    simp only [List.length_append, List.length_cons, List.length_nil] at this
    rw [show o + sign.length + 2 + zs.length + 1 + ys.length = o + (sign.length + (0 + 1 + 1 + zs.length + (ys.length + 1))) by omega]
    exact this
  have hE : unitsAt c e (o + sign.length + 2 + zs.length + 1 + ys.length + 1) (es ++ ks) := by
    have := hA.2
    simp only [List.length_append, List.length_cons, List.length_nil] at this
    rw [show o + sign.length + 2 + zs.length + 1 + ys.length + 1 =
      o + (sign.length + (0 + 1 + 1 + zs.length + (ys.length + 1)) + (0 + 1)) by omega]
    exact this
  have hMlt := rd_lt hM
  have hmd : isDigit m = false := by rcases hm with h | h <;> subst h <;> decide
  have hstop : o + sign.length + 2 + zs.length + 1 + ys.length = e ∨
      ∃ x, rd c e (o + sign.length + 2 + zs.length + 1 + ys.length) = some x ∧ isDigit x = false ∧ x ≠ 46 :=
    Or.inr ⟨m, hM, hmd, by omega⟩
  have hall : AllDigits (d1 :: ys) := by
    intro y hy
    rcases List.mem_cons.1 hy with h | h
    · subst h; exact hdig
    · exact hys y h
  have hge := decVal_ge d1 ys h1
  have hvhi := decVal_lt_pow (d1 :: ys) hall
  have hl : (d1 :: ys).length = 1 + ys.length := by simp; omega
  rw [hl] at hvhi
  have hv0 : 0 < decVal (d1 :: ys) := Nat.lt_of_lt_of_le (Nat.pow_pos (by decide)) hge
  have hv19 : decVal (d1 :: ys) < 10 ^ 19 := Nat.lt_of_lt_of_le hvhi (Nat.pow_le_pow_right (by decide) (by omega))
  have hv64 : decVal (d1 :: ys) < 2 ^ 64 := Nat.lt_of_lt_of_le hv19 (by decide)
  rw [strToNum_after_sign c o e sign 48 hs hu1 (by decide)]
  rw [afterSign_small c e _ (o + sign.length) zs d1 ys he hz h1 hys hlen hu'.2 hstop]
  rcases Nat.lt_or_ge (decVal ks) 100000000 with hsmall | hbig
  · rw [finishReal_exp_skip c e _ _ _ _ _ true true _ (o + sign.length + 2 + zs.length + 1 + ys.length) m es ks
      (fun k h1 h2 => by omega) (Nat.le_refl _) hM hm he hes hks hk0 hE hend (Or.inr rfl) hsmall
      (1 + ys.length) (zs.length + 1 + ys.length)
      (by simp only [b2n, Bool.not_true, Bool.false_and, Bool.false_eq_true, if_false]
          rw [sub32_sub32 _ _ 0 (by omega) (by omega)]; omega)
      (by simp only [if_true]
          rw [sub32_sub32 _ _ 1 (by omega) (by omega), add32_eq _ _ (by omega)]; omega)
      (by omega)]
    have hX : (netExp true (decVal ks) (decide (es = [45])) (zs.length + 1 + ys.length)).1 < 2 ^ 31 := by
      unfold netExp
      split
      · simp; omega
      · split <;> simp <;> omega
    exact realResult_class_all _ (decVal (d1 :: ys)) (1 + ys.length) _ _ _ hv0 hv64
      (by rw [show 1 + ys.length - 1 = ys.length by omega]; exact hge) hvhi (by omega) (by omega) hX
  · rw [finishReal_exp_sat c e _ _ _ _ _ true true _ (o + sign.length + 2 + zs.length + 1 + ys.length) m es ks
      (fun k h1 h2 => by omega) (Nat.le_refl _) hM hm hes hks hk0 hE hend (by omega) hbig]
    refine ⟨_, rfl, rfl, Or.inl ⟨rfl, ?_⟩⟩
    have hX : 400 ≤ (netExp true (decVal ks) (decide (es = [45])) (zs.length + 1 + ys.length)).1 := by
      unfold netExp
      split
      · simp; omega
      · split <;> simp <;> omega
    exact out_of_range_big _ _ _ hv0 hv19 hX

/-! ### integer mantissa with an exponent of any number of digits, either sign -/

/-- `[+-]? d₁ xs (e|E) [+-]? ks`, at most 19 mantissa digits, exponent of any length -/
theorem real_within_one_ulp_int_exp (c : List Nat) (o e : Nat) (sign : List Nat) (d1 : Nat) (xs : List Nat)
    (m : Nat) (es ks : List Nat)
    (he : e < 2 ^ 32) (hs : sign = [] ∨ sign = [43] ∨ sign = [45]) (h1 : isNonZeroDigit d1 = true)
    (hxs : AllDigits xs) (hlen : xs.length ≤ 18)
    (hm : m = 101 ∨ m = 69) (hes : es = [] ∨ es = [43] ∨ es = [45]) (hks : AllDigits ks) (hk0 : ks ≠ [])
    (hu : unitsAt c e o (sign ++ (d1 :: xs) ++ [m] ++ (es ++ ks)))
    (hend : endsAt c e (o + sign.length + 1 + xs.length + 1 + es.length + ks.length) isDigit) :
    ClassOutcome (decide (sign = [45])) (decVal (d1 :: xs))
      (netExp false (decVal ks) (decide (es = [45])) 0).1 (netExp false (decVal ks) (decide (es = [45])) 0).2
      (o + sign.length + 1 + xs.length + 1 + es.length + ks.length) (strToNum c o e) := by
  have hdig := isNonZeroDigit_isDigit h1
  have hf : d1 ≠ 45 ∧ d1 ≠ 43 := by simp [isDigit] at hdig; omega
  have hA := (unitsAt_append c e (sign ++ (d1 :: xs) ++ [m]) (es ++ ks) o).1 hu
  have hB := (unitsAt_append c e (sign ++ (d1 :: xs)) [m] o).1 hA.1
  have hu' := (unitsAt_append c e sign (d1 :: xs) o).1 hB.1
  have hu1 : unitsAt c e o (sign ++ [d1]) := (unitsAt_append c e sign [d1] o).2 ⟨hu'.1, hu'.2.1, trivial⟩
  have hM : rd c e (o + sign.length + 1 + xs.length) = some m := by
    have := hB.2.1
    simp only [List.length_append, List.length_cons] at this
    rw [show o + sign.length + 1 + xs.length = o + (sign.length + (xs.length + 1)) by omega]; exact this
  have hE : unitsAt c e (o + sign.length + 1 + xs.length + 1) (es ++ ks) := by
    have := hA.2
    simp only [List.length_append, List.length_cons, List.length_nil] at this
    rw [show o + sign.length + 1 + xs.length + 1 = o + (sign.length + (xs.length + 1) + (0 + 1)) by omega]; exact this
  have hMlt := rd_lt hM
  have hum : unitsAt c e (o + sign.length) (d1 :: xs ++ [m]) :=
    (unitsAt_append c e (d1 :: xs) [m] (o + sign.length)).2 ⟨hu'.2, by
      simp only [List.length_cons]
      rw [show o + sign.length + (xs.length + 1) = o + sign.length + 1 + xs.length by omega]
      exact ⟨hM, trivial⟩⟩
  have hall : AllDigits (d1 :: xs) := by
    intro y hy
    rcases List.mem_cons.1 hy with h | h
    · subst h; exact hdig
    · exact hxs y h
  have hge := decVal_ge d1 xs h1
  have hvhi := decVal_lt_pow (d1 :: xs) hall
  have hl : (d1 :: xs).length = xs.length + 1 := by simp
  rw [hl] at hvhi
  have hv0 : 0 < decVal (d1 :: xs) := Nat.lt_of_lt_of_le (Nat.pow_pos (by decide)) hge
  have hv19 : decVal (d1 :: xs) < 10 ^ 19 := Nat.lt_of_lt_of_le hvhi (Nat.pow_le_pow_right (by decide) (by omega))
  have hv64 : decVal (d1 :: xs) < 2 ^ 64 := Nat.lt_of_lt_of_le hv19 (by decide)
  rw [strToNum_after_sign c o e sign d1 hs hu1 hf]
  rw [afterSign_int_marker c e _ (o + sign.length) d1 xs m he h1 hxs hlen hm hum]
  rcases Nat.lt_or_ge (decVal ks) 100000000 with hsmall | hbig
  · rw [finishReal_exp_int c e _ _ _ _ _ 0 m es ks hM hm (by omega) he hes hks hk0 hE hend hsmall (xs.length + 1)
      (by simp only [b2n, Bool.not_false, Bool.true_and, Bool.false_eq_true, if_false]
          rw [sub32_sub32 _ _ 0 (by omega) (by omega)]; omega)]
    have hX : (netExp false (decVal ks) (decide (es = [45])) 0).1 < 2 ^ 31 := by
      unfold netExp
      split
      · simp; omega
      · split <;> simp <;> omega
    exact realResult_class_all _ (decVal (d1 :: xs)) (xs.length + 1) _ _ _ hv0 hv64 (by simpa using hge) hvhi
      (by omega) (by omega) hX
  · rw [finishReal_exp_sat c e _ _ _ _ _ false false _ _ m es ks (fun k h1 h2 => by omega) (Nat.le_refl _) hM hm
      hes hks hk0 hE hend (by omega) hbig]
    refine ⟨_, rfl, rfl, Or.inl ⟨rfl, ?_⟩⟩
    have hX : 400 ≤ (netExp false (decVal ks) (decide (es = [45])) 0).1 := by
      unfold netExp
      split
      · simp; omega
      · split <;> simp <;> omega
    exact out_of_range_big _ _ _ hv0 hv19 hX

end Qentem.Props.C09
