import Qentem.Proofs.JsonAllOrNothing
/-! C07 — JSON parsing is all-or-nothing. -/
namespace Qentem.Props.C07
open Qentem.Json

/-- Whatever `JSON::Parse` returns is Undefined, or a tree with no Undefined member anywhere that
was followed by nothing but whitespace up to the end of the input. Holds for every input and
every pair of sub-routines. -/
theorem parse_all_or_nothing (d : Deps) (c : Array Nat) (v : JVal) (h : parse d c = .ok v) :
    v = .undef ∨ (complete v = true ∧
      ∃ o', parseValue d c (fuelFor c) (trimLeft c 0) = .ok (v, o') ∧ trimLeft c o' = c.size) :=
  Qentem.Json.parse_all_or_nothing d c v h

/-- The mechanism: a sub-parse that fails returns Undefined **and** moves the cursor to the end of
the input, so every enclosing loop sees `offset ≥ length` and fails too. -/
theorem failure_forces_end_of_input (d : Deps) (c : Array Nat) (fuel o : Nat) (v : JVal) (o' : Nat)
    (h : parseValue d c fuel o = .ok (v, o')) : (v = .undef ∧ o' = c.size) ∨ complete v = true :=
  (all_Q d c fuel).1 o v o' h

/-- An accepted document is a complete tree. -/
theorem accepted_is_complete (d : Deps) (c : Array Nat) (v : JVal) (h : parse d c = .ok v) (hv : v ≠ .undef) :
    complete v = true := by
  rcases Qentem.Json.parse_all_or_nothing d c v h with h1 | ⟨h2, _⟩
  · exact absurd h1 hv
  · exact h2

end Qentem.Props.C07
