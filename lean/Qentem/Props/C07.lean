import Qentem.Proofs.JsonAllOrNothing
import Qentem.Proofs.JsonPrefix
import Qentem.Proofs.JsonPrefixTokens
/-! C07 — JSON parsing is all-or-nothing. -/
namespace Qentem.Props.C07
open Qentem.Json

/-- Whatever `JSON::Parse` returns is Undefined, or a tree with no Undefined member anywhere that
was followed by nothing but whitespace up to the end of the input. Holds for every input and
every pair of sub-routines. -/
theorem parse_all_or_nothing (d : Deps) (c : Array Nat) (v : JVal) (h : parse d c = .ok v) :
    v = .undef ∨ (complete v = true ∧
      ∃ o', parseValue d c (fuelFor c) (trimLeft c 0) = .ok (v, o') ∧ trimLeft c o' = c.size) :=
  Qentem.Json.parse_all_or_nothing d c v h

/-- The mechanism: a sub-parse that fails returns Undefined **and** moves the cursor to the end of
the input, so every enclosing loop sees `offset ≥ length` and fails too. -/
theorem failure_forces_end_of_input (d : Deps) (c : Array Nat) (fuel o : Nat) (v : JVal) (o' : Nat)
    (h : parseValue d c fuel o = .ok (v, o')) : (v = .undef ∧ o' = c.size) ∨ complete v = true :=
  (all_Q d c fuel).1 o v o' h

/-- An accepted document is a complete tree. -/
theorem accepted_is_complete (d : Deps) (c : Array Nat) (v : JVal) (h : parse d c = .ok v) (hv : v ≠ .undef) :
    complete v = true := by
  rcases Qentem.Json.parse_all_or_nothing d c v h with h1 | ⟨h2, _⟩
  · exact absurd h1 hv
  · exact h2

/-! ### The "in particular" clause: trailing garbage and proper prefixes

`JDoc` (Model/JsonGrammar.lean) is an RFC 8259 document with explicit whitespace layout, `print` its
text.  `WF d doc`: whitespace runs are whitespace and every string body / numeral meets the reading
contract of the sub-routine (`StrSpec`, `NumSpec`).  `TS d doc` ("truncation-safe"): every string
body (member names too) and numeral meets the *truncation* contract: `UnEscape` on a body cut by the
end of the buffer returns 0 or the whole remaining length (`StrTrunc`); `StringToNumber` on a cut
numeral returns NotANumber or ends at the end of the buffer (`NumTrunc`).  Both are discharged
below for the linked sub-routines. -/

/-- A well-formed document, surrounded by any whitespace, followed by a unit `x` that is not
whitespace (and then anything at all) is rejected.  No side condition for arrays, objects, strings
and keywords.  For a top-level numeral the next unit must not be able to extend the token (`12`
followed by `3` is the document `123`): whitespace in between, or `x` one of `, ] }`. -/
theorem trailing_rejected (d : Deps) (hd : DepsSafe d) (doc : JDoc) (hwf : WF d doc) (wsL wsR : Ws)
    (hL : AllWs wsL) (hR : AllWs wsR) (x : Nat) (t : List Nat) (hx : isWs x = false)
    (hok : doc.isNum = false ∨ wsR ≠ [] ∨ isDelim x = true)
    (hsz : (wsL ++ doc.print ++ wsR ++ x :: t).length < 2 ^ 32) :
    parse d (wsL ++ doc.print ++ wsR ++ x :: t).toArray = .ok .undef :=
  Qentem.Json.trailing_rejected d hd doc hwf wsL wsR hL hR x t hx hok hsz

/-- The container form of the property text: a valid array/object document followed by a
non-whitespace unit is rejected. -/
theorem trailing_rejected_container (d : Deps) (hd : DepsSafe d) (doc : JDoc) (hwf : WF d doc)
    (hcont : doc.isContainer = true) (wsL wsR : Ws) (hL : AllWs wsL) (hR : AllWs wsR) (x : Nat) (t : List Nat)
    (hx : isWs x = false) (hsz : (wsL ++ doc.print ++ wsR ++ x :: t).length < 2 ^ 32) :
    parse d (wsL ++ doc.print ++ wsR ++ x :: t).toArray = .ok .undef :=
  Qentem.Json.trailing_rejected d hd doc hwf wsL wsR hL hR x t hx
    (Or.inl (by cases doc <;> simp_all [JDoc.isContainer, JDoc.isNum])) hsz

/-- Every proper prefix of a valid array/object document (any nesting, any layout), with or
without leading whitespace, is rejected. -/
theorem prefix_rejected (d : Deps) (hd : DepsSafe d) (doc : JDoc) (hwf : WF d doc) (hts : TS d doc)
    (hcont : doc.isContainer = true) (wsL : Ws) (hL : AllWs wsL) (k : Nat) (hk : k < doc.print.length)
    (hsz : (wsL ++ doc.print.take k).length < 2 ^ 32) :
    parse d (wsL ++ doc.print.take k).toArray = .ok .undef :=
  Qentem.Json.prefix_rejected_container d hd doc hwf hts hcont wsL hL k hk hsz

/-- The same for every document that is not a bare string or numeral (so the keywords too).  The
two excluded shapes are genuinely different: a proper prefix of a numeral can be a numeral, and a
bare top-level string without its closing quote is accepted by the code (recorded finding
`toplevel-unterminated-string`). -/
theorem prefix_rejected_nontoken (d : Deps) (hd : DepsSafe d) (doc : JDoc) (hwf : WF d doc) (hts : TS d doc)
    (hnt : doc.isToken = false) (wsL : Ws) (hL : AllWs wsL) (k : Nat) (hk : k < doc.print.length)
    (hsz : (wsL ++ doc.print.take k).length < 2 ^ 32) :
    parse d (wsL ++ doc.print.take k).toArray = .ok .undef :=
  Qentem.Json.prefix_rejected d hd doc hwf hts hnt wsL hL k hk hsz

/-- The mechanism inside a document: a value whose text is cut by the end of the buffer makes its
sub-parse end exactly at the end of the buffer, so the enclosing loop fails. -/
theorem cut_value_ends_at_end (d : Deps) (doc : JDoc) (c : Array Nat) (fuel o : Nat) (r : JVal × Nat)
    (hsz : c.size < 2 ^ 32) (hwf : WF d doc) (hts : TS d doc) (hcut : Cut c o doc.print)
    (h : parseValue d c fuel o = .ok r) : r.2 = c.size ∧ (doc.isToken = false → r.1 = .undef) :=
  parseValue_cut d doc c fuel o r hsz hwf hts hcut h

/-! Truncation contracts discharged for the linked sub-routines (`jsonDeps w`, any width). -/

theorem trunc_natural (w d1 : Nat) (xs : List Nat) (h1 : Qentem.StrToNum.isNonZeroDigit d1 = true)
    (hxs : Qentem.StrToNum.AllDigits xs) (hv : Qentem.StrToNum.decVal (d1 :: xs) < 2 ^ 64) :
    NumTrunc (jsonDeps w) (d1 :: xs) := numTrunc_natural w d1 xs h1 hxs hv

theorem trunc_negative (w d1 : Nat) (xs : List Nat) (h1 : Qentem.StrToNum.isNonZeroDigit d1 = true)
    (hxs : Qentem.StrToNum.AllDigits xs) (hv : Qentem.StrToNum.decVal (d1 :: xs) ≤ 2 ^ 63) :
    NumTrunc (jsonDeps w) (45 :: d1 :: xs) := numTrunc_negative w d1 xs h1 hxs hv

theorem trunc_zero (w : Nat) : NumTrunc (jsonDeps w) [48] := numTrunc_zero w

/-- every RFC 8259 string body (plain units of any width, the eight short escapes, `\uXXXX`,
surrogate pairs) cut anywhere before its closing quote -/
theorem trunc_string_body (w : Nat) (ts : List Qentem.Unicode.Tok) (hok : ∀ t ∈ ts, t.ok = true) :
    StrTrunc (jsonDeps w) (ts.flatMap Qentem.Unicode.Tok.src) := strTrunc_tokens w ts hok

/-- Documents over the concrete token classes (`Conc w`: keywords, decimal integers in the 64-bit
range, token-sequence strings and member names, RFC whitespace) meet every hypothesis. -/
theorem concrete_wf_ts (w : Nat) (doc : JDoc) (h : Conc w doc) : WF (jsonDeps w) doc ∧ TS (jsonDeps w) doc :=
  conc_wft w doc h

/-- No hypothesis about sub-routines left: the parser as linked rejects every proper prefix of
every array/object document over the concrete token classes. -/
theorem prefix_rejected_concrete (w : Nat) (doc : JDoc) (h : Conc w doc) (hcont : doc.isContainer = true)
    (wsL : Ws) (hL : AllWs wsL) (k : Nat) (hk : k < doc.print.length)
    (hsz : (wsL ++ doc.print.take k).length < 2 ^ 32) :
    parse (jsonDeps w) (wsL ++ doc.print.take k).toArray = .ok .undef :=
  Qentem.Json.prefix_rejected_container (jsonDeps w) (jsonDeps_safe w) doc (conc_wft w doc h).1 (conc_wft w doc h).2
    hcont wsL hL k hk hsz

/-- … and rejects every such document followed by a non-whitespace unit. -/
theorem trailing_rejected_concrete (w : Nat) (doc : JDoc) (h : Conc w doc) (hcont : doc.isContainer = true)
    (wsL wsR : Ws) (hL : AllWs wsL) (hR : AllWs wsR) (x : Nat) (t : List Nat) (hx : isWs x = false)
    (hsz : (wsL ++ doc.print ++ wsR ++ x :: t).length < 2 ^ 32) :
    parse (jsonDeps w) (wsL ++ doc.print ++ wsR ++ x :: t).toArray = .ok .undef :=
  trailing_rejected_container (jsonDeps w) (jsonDeps_safe w) doc (conc_wft w doc h).1 hcont wsL wsR hL hR x t hx hsz

open Qentem.Unicode in
/-- Non-vacuity: `{ "a\n":[-12, 0 ,true],\n"":{"k":[]}\t}` — nested, with whitespace, an escape in
a member name, an empty name, negative / zero numerals, an empty array — is a `Conc` container, so
both concrete theorems apply to it (here at width 1). -/
example : Conc 1 (.obj [32]
    [([], [97, 92, 110], [97, 10], [], [32],
        .arr [] [([], .num [45, 49, 50] .integer (2 ^ 64 - 12), []), ([32], .num [48] .natural 0, [32]), ([], .tru, [])], []),
     ([10], [], [], [], [], .obj [] [([], [107], [107], [], [], .arr [] [], [])], [9])]) ∧
    (JDoc.obj [32]
    [([], [97, 92, 110], [97, 10], [], [32],
        .arr [] [([], .num [45, 49, 50] .integer (2 ^ 64 - 12), []), ([32], .num [48] .natural 0, [32]), ([], .tru, [])], []),
     ([10], [], [], [], [], .obj [] [([], [107], [107], [], [], .arr [] [], [])], [9])]).isContainer = true := by
  refine ⟨⟨by simp [AllWs, isWs], ⟨by simp [AllWs], ⟨[.plain 97, .simple 110], by decide, rfl, by decide⟩, by simp [AllWs],
    by simp [AllWs, isWs], ?_, by simp [AllWs], ?_⟩⟩, rfl⟩
  · refine ⟨by simp [AllWs], ⟨by simp [AllWs], ?_, by simp [AllWs],
      ⟨by simp [AllWs, isWs], IntTok.zero, by simp [AllWs, isWs], ⟨by simp [AllWs], trivial, by simp [AllWs], trivial⟩⟩⟩⟩
    have := IntTok.negative 49 [50] (by decide) (by intro x hx; simp at hx; subst hx; decide) (by decide)
    simpa [Conc, Qentem.StrToNum.decVal] using this
  · refine ⟨by simp [AllWs, isWs], ⟨[], by simp, rfl, rfl⟩, by simp [AllWs], by simp [AllWs], ?_, by simp [AllWs, isWs], trivial⟩
    exact ⟨by simp [AllWs], ⟨by simp [AllWs], ⟨[.plain 107], by decide, rfl, rfl⟩, by simp [AllWs], by simp [AllWs],
      ⟨by simp [AllWs], trivial⟩, by simp [AllWs], trivial⟩⟩

/-- Non-vacuity of the abstract theorems: keyword/array documents are well-formed and
truncation-safe for any sub-routines (no string or numeral occurs). -/
example (d : Deps) : WF d (.arr [32] [([], .tru, [10]), ([9], .arr [] [], []), ([], .null, [])]) ∧
    TS d (.arr [32] [([], .tru, [10]), ([9], .arr [] [], []), ([], .null, [])]) := by
  simp [WF, WFItems, TS, TSItems, AllWs, isWs]

def isUndefResult : M JVal → Bool
  | .ok .undef => true
  | _ => false

/-- Test (closed instances, by evaluation — not part of the proof): the parser as linked on two
proper prefixes and one trailing-garbage variant of `[true,{"a":-1}]`, and on the document. -/
example : isUndefResult (parse (jsonDeps 1) [91,116,114,117,101,44,123,34,97,34,58,45,49,125].toArray) = true := by decide +kernel
example : isUndefResult (parse (jsonDeps 1) [91,116,114,117,101,44,123,34,97,34,58,45].toArray) = true := by decide +kernel
example : isUndefResult (parse (jsonDeps 1) [91,116,114,117,101,44,123,34,97,34,58,45,49,125,93,93].toArray) = true := by decide +kernel
example : isUndefResult (parse (jsonDeps 1) [91,116,114,117,101,44,123,34,97,34,58,45,49,125,93].toArray) = false := by decide +kernel

end Qentem.Props.C07
