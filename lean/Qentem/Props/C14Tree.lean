import Qentem.Proofs.SeqTree
/-! C14, Array of a recursive owning item type (`Array<Node>`, `Node = {id, tag, kids : Array<Node>}`):
assignments between related arrays behave like assignments of plain sequences. -/
namespace Qentem.Props.C14
open Qentem.SeqTree

/-- **Copy assignment from any path to any path** (unrelated, source inside the destination's items,
destination inside the source's items, or the same array): the destination node keeps its identity and
gets exactly the source's kids (read before anything changed); every path that neither passes through
the destination nor lies on the way to it sees the same node as before; the nodes on the way to the
destination keep their identity. -/
theorem tree_copy_assign (root dn sn : Node) (d s : List Nat)
    (hd : getAt root d = some dn) (hs : getAt root s = some sn) :
    ∃ r', (TreeOp.copy d s).step root = some r' ∧
      getAt r' d = some ⟨dn.id, dn.tag, sn.kids⟩ ∧
      (∀ p, ¬ d <+: p → ¬ p <+: d → getAt r' p = getAt root p) ∧
      (∀ p, p <+: d → (getAt r' p).map Node.ident = (getAt root p).map Node.ident) := by
  refine ⟨setKidsAt root d sn.kids, by simp [TreeOp.step, hd, hs], getAt_setKidsAt_same d root dn _ hd,
    fun p h1 h2 => getAt_setKidsAt_disjoint d p root _ h1 h2, ?_⟩
  intro p hp
  apply getAt_setKidsAt_ident
  rintro ⟨h1, h2⟩
  exact h2 (h1.eq_of_length_le hp.length_le)

/-- Self copy assignment changes nothing observable. -/
theorem tree_copy_assign_self (root dn : Node) (d : List Nat) (hd : getAt root d = some dn) :
    ∃ r', (TreeOp.copy d d).step root = some r' ∧ getAt r' d = some dn := by
  obtain ⟨r', h1, h2, _⟩ := tree_copy_assign root dn dn d d hd hd
  exact ⟨r', h1, by cases dn; exact h2⟩

/-- **Move assignment** between different arrays, the source not being a proper ancestor of the
destination (that would have no value meaning): the destination keeps its identity and gets the source's
kids; the source is left empty — unless it sat inside the destination's old items, then it is gone with
them; unrelated paths are unchanged. -/
theorem tree_move_assign (root dn sn : Node) (d s : List Nat)
    (hd : getAt root d = some dn) (hs : getAt root s = some sn) (hne : d ≠ s)
    (hanc : ¬ (s <+: d ∧ s ≠ d)) :
    ∃ r', (TreeOp.move d s).step root = some r' ∧
      getAt r' d = some ⟨dn.id, dn.tag, sn.kids⟩ ∧
      (¬ d <+: s → getAt r' s = some ⟨sn.id, sn.tag, []⟩) ∧
      (∀ p, ¬ d <+: p → ¬ p <+: d → ¬ s <+: p → ¬ p <+: s → getAt r' p = getAt root p) := by
  obtain ⟨dn', hd', hid, htag⟩ := getAt_setKidsAt_exists s d root dn [] hanc hd
  refine ⟨setKidsAt (setKidsAt root s []) d sn.kids, by simp [TreeOp.step, hd, hs, hne], ?_, ?_, ?_⟩
  · rw [getAt_setKidsAt_same d _ dn' _ hd', hid, htag]
  · intro hds
    have hsd : ¬ s <+: d := by
      intro h
      by_cases e : s = d
      · exact hne e.symm
      · exact hanc ⟨h, e⟩
    rw [getAt_setKidsAt_disjoint d s _ _ hds hsd]
    exact getAt_setKidsAt_same s root sn [] hs
  · intro p h1 h2 h3 h4
    rw [getAt_setKidsAt_disjoint d p _ _ h1 h2, getAt_setKidsAt_disjoint s p _ _ h3 h4]

/-- `a = Move(a)` is a no-op. -/
theorem tree_move_assign_self (root dn : Node) (d : List Nat) (hd : getAt root d = some dn) :
    (TreeOp.move d d).step root = some root := by
  simp [TreeOp.step, hd]

/-- **Default-constructed items have the non-zero default tag** (`ResizeAndInitialize`, `Reserve(n, true)`):
the kept items are the old ones, every added item is `{0, 0x5A5A, []}`. -/
theorem tree_default_items (root nd : Node) (p : List Nat) (n : Nat) (hp : getAt root p = some nd) :
    (∃ r', (TreeOp.resizeInit p n).step root = some r' ∧
      getAt r' p = some ⟨nd.id, nd.tag, nd.kids.take n ++ List.replicate (n - nd.kids.length) (Node.fresh 0)⟩) ∧
    (∃ r', (TreeOp.reserveInit p n).step root = some r' ∧
      getAt r' p = some ⟨nd.id, nd.tag, List.replicate n (Node.fresh 0)⟩) ∧
    (Node.fresh 0).tag = 0x5A5A ∧ (Node.fresh 0).tag ≠ 0 ∧ (Node.fresh 0).kids = [] := by
  refine ⟨⟨_, by simp [TreeOp.step, hp], getAt_setKidsAt_same p root nd _ hp⟩,
    ⟨_, by simp [TreeOp.step, hp], getAt_setKidsAt_same p root nd _ hp⟩, rfl, by decide, rfl⟩

/-- Appending a node keeps the earlier kids. -/
theorem tree_append (root nd : Node) (p : List Nat) (id : Nat) (hp : getAt root p = some nd) :
    ∃ r', (TreeOp.new p id).step root = some r' ∧ getAt r' p = some ⟨nd.id, nd.tag, nd.kids ++ [Node.fresh id]⟩ :=
  ⟨_, by simp [TreeOp.step, hp], getAt_setKidsAt_same p root nd _ hp⟩

/-- **Appending a copy of any node of the tree** — an item of the destination array itself (the argument
then refers into the storage that grows), an ancestor, anything: the destination gets its old kids
followed by the node as it was before the operation; unrelated paths are unchanged. -/
theorem tree_append_copy (root dn sn : Node) (d s : List Nat)
    (hd : getAt root d = some dn) (hs : getAt root s = some sn) :
    ∃ r', (TreeOp.appendCopy d s).step root = some r' ∧
      getAt r' d = some ⟨dn.id, dn.tag, dn.kids ++ [sn]⟩ ∧
      (∀ p, ¬ d <+: p → ¬ p <+: d → getAt r' p = getAt root p) :=
  ⟨_, by simp [TreeOp.step, hd, hs], getAt_setKidsAt_same d root dn _ hd,
    fun p h1 h2 => getAt_setKidsAt_disjoint d p root _ h1 h2⟩

/-! Non-vacuity (tests by evaluation): `root.kids[0].kids = root.kids` (source contains the destination)
and `root.kids = root.kids[0].kids` (destination contains the source). -/
example : ((runTree [.new [] 1, .new [] 2, .new [0] 3, .copy [0] []] rootInit).bind (·.getLast?)).bind
    (fun r => (getAt r [0]).map fun n => n.kids.map (·.id)) = some [1, 2] := by decide
example : ((runTree [.new [] 1, .new [] 2, .new [0] 3, .new [0] 4, .copy [] [0]] rootInit).bind (·.getLast?)).map
    (fun r => r.kids.map (·.id)) = some [3, 4] := by decide

end Qentem.Props.C14
