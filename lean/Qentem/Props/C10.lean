import Qentem.Model.NumToStr
import Qentem.Model.FmtSpec
import Qentem.Generated.NumToStr
import Qentem.Proofs.NumToStrInt
import Qentem.Proofs.NumToStrBits
import Qentem.Proofs.NumToStrAppend
import Qentem.Proofs.NumToStrIntClass
import Qentem.Proofs.NumToStrExact
import Qentem.Proofs.NumToStrIntClass32
import Qentem.Proofs.NumToStrLayout
import Qentem.Proofs.NumToStrDefault
import Qentem.Proofs.NumToStrDefaultRound
import Qentem.Proofs.NumToStrFixedRound
import Qentem.Proofs.NumToStrDefaultGe1
import Qentem.Proofs.NumToStrDefaultFrac
import Qentem.Proofs.NumToStrFixedLt1
import Qentem.Proofs.NumToStrDefaultLt1
import Qentem.Proofs.NumToStrFloat32
/-! C10 — number to text equals the reference formatting for every value and precision.

Model: `Qentem.NumToStr` (transcription of `Digit.hpp`), reference: `Qentem.FmtSpec` (ISO C
`%.{p}g` / `%.{p}f` on exact rationals, written without looking at the code).  Code units are
`Nat`, so every statement holds for `char`, `char16_t` and `char32_t` alike. -/
namespace Qentem.Props.C10
open Qentem.NumToStr Qentem.Generated.NumToStr
open Qentem.Proofs.NumToStr (IsWidth fmtOf IntValued64)

/-! ### T1: the tables and constants compiled from the current headers are what the proofs assume
(a changed table entry, mask, width or enum value breaks these). -/

/-- `DigitTable1` is "00".."99", `DigitTable2` is "0".."9", with their terminators. -/
theorem tables_ok_digits :
    digitTable1 = (List.range 100).flatMap (fun n => [48 + n / 10, 48 + n % 10]) ∧
    digitTable2 = (List.range 10).map (48 + ·) ∧
    digitTable1Size = 201 ∧ digitTable2Size = 11 := by decide +kernel

/-- powers of five are exact, in the 8-byte configuration (the one this build uses) and the 4-byte one;
`MaxPowerOfTenValue = 10^MaxPowerOfTen`; `MaxShift` is the word width. -/
theorem tables_ok_powers :
    C8.powerOfFive = (List.range (C8.maxPowerOfFive + 1)).map (5 ^ ·) ∧
    C4.powerOfFive = (List.range (C4.maxPowerOfFive + 1)).map (5 ^ ·) ∧
    C8.maxPowerOfFive = 27 ∧ C4.maxPowerOfFive = 13 ∧
    C8.maxPowerOfTenValue = 10 ^ C8.maxPowerOfTen ∧ C4.maxPowerOfTenValue = 10 ^ C4.maxPowerOfTen ∧
    C8.maxPowerOfTen = 19 ∧ C4.maxPowerOfTen = 9 ∧
    5 ^ C8.maxPowerOfFive < 2 ^ C8.maxShift ∧ 5 ^ C4.maxPowerOfFive < 2 ^ C4.maxShift ∧
    C8.maxPowerOfTenValue < 2 ^ C8.maxShift ∧ C4.maxPowerOfTenValue < 2 ^ C4.maxShift ∧
    C8.maxShift = 64 ∧ C4.maxShift = 32 ∧ systemIntBytes = 8 ∧ wordBits = C8.maxShift := by decide +kernel

/-- `RealNumberInfo` is the IEEE 754 binary64 / binary32 layout; the BigInt declared by
`realToString` has 1344 / 320 bits in 64-bit words. -/
theorem tables_ok_real_info :
    F64.mantissaSize = 52 ∧ F64.exponentSize = 11 ∧ F64.bias = 2 ^ 10 - 1 ∧ F64.signMask = 2 ^ 63 ∧
    F64.exponentMask = (2 ^ 11 - 1) * 2 ^ 52 ∧ F64.mantissaMask = 2 ^ 52 - 1 ∧ F64.leadingBit = 2 ^ 52 ∧
    F64.bigIntTotalBits = 1344 ∧ F64.bigIntMaxIndex = 20 ∧ F64.bigIntTypeWidth = 64 ∧
    F32.mantissaSize = 23 ∧ F32.exponentSize = 8 ∧ F32.bias = 2 ^ 7 - 1 ∧ F32.signMask = 2 ^ 31 ∧
    F32.exponentMask = (2 ^ 8 - 1) * 2 ^ 23 ∧ F32.mantissaMask = 2 ^ 23 - 1 ∧ F32.leadingBit = 2 ^ 23 ∧
    F32.bigIntTotalBits = 320 ∧ F32.bigIntMaxIndex = 4 ∧ F32.bigIntTypeWidth = 64 := by decide +kernel

/-- characters, literal strings (every character width) and enum numbering -/
theorem tables_ok_strings :
    [Ch.zero, Ch.one, Ch.five, Ch.nine, Ch.e, Ch.dot, Ch.positive, Ch.negative] = [48, 49, 53, 57, 101, 46, 43, 45] ∧
    S1.infinity = FmtSpec.inf ∧ S2.infinity = FmtSpec.inf ∧ S4.infinity = FmtSpec.inf ∧
    S1.notANumber = FmtSpec.nan ∧ S2.notANumber = FmtSpec.nan ∧ S4.notANumber = FmtSpec.nan ∧
    S1.zeros = List.replicate 19 48 ∧ S2.zeros = S1.zeros ∧ S4.zeros = S1.zeros ∧
    S1.zerosLength = 19 ∧ S2.zerosLength = 19 ∧ S4.zerosLength = 19 ∧ C8.maxPowerOfTen ≤ S1.zerosLength ∧
    S1.terminators = [0, 0, 0] ∧ S2.terminators = [0, 0, 0] ∧ S4.terminators = [0, 0, 0] ∧
    [fmtDefault, fmtFixed, fmtSemiFixed] = [0, 1, 2] ∧ defaultPrecision = 6 ∧ sizeTBytes = 4 ∧
    maxDigits = [1, 2, 4, 8].map maxDigitsOf := by decide +kernel

/-! ### integers: the text is the exact decimal representation -/

/-- Unsigned 8/16/32/64-bit: for every value the stream becomes what it held followed by exactly
`Nat.toDigits 10 n` (as code units).  In particular no fault: the table reads and the on-stack digit
buffer stay in range. -/
theorem int_to_string_exact_unsigned (pre : List Nat) (bytes n : Nat) (hb : IsWidth bytes) (hn : n < 2 ^ (8 * bytes)) :
    intToString pre bytes false n = .ok (pre ++ (Nat.toDigits 10 n).map Char.toNat) :=
  Qentem.Proofs.NumToStr.intToString_unsigned pre hb hn

/-- Signed 8/16/32/64-bit, **including the minimum values**: `v` ranges over the whole two's
complement range, the argument of the model is its bit pattern; the text is `-` (when negative)
followed by the digits of `|v|`. -/
theorem int_to_string_exact_signed (pre : List Nat) (bytes : Nat) (hb : IsWidth bytes) (v : Int)
    (hlo : -(2 ^ (8 * bytes - 1) : Int) ≤ v) (hhi : v < (2 ^ (8 * bytes - 1) : Int)) :
    intToString pre bytes true ((v % (2 ^ (8 * bytes) : Int)).toNat) =
      .ok (pre ++ (if v < 0 then [45] else []) ++ (Nat.toDigits 10 v.natAbs).map Char.toNat) :=
  Qentem.Proofs.NumToStr.intToString_signed pre hb v hlo hhi

/-- `IntToString<true>` (used by `bigIntToString`): the reversed digits. -/
theorem int_to_string_reversed (bytes n : Nat) (hb : IsWidth bytes) (hn : n < 2 ^ (8 * bytes)) :
    intRev bytes n = .ok ((Nat.toDigits 10 n).map Char.toNat).reverse :=
  Qentem.Proofs.NumToStr.intRev_eq hb hn

/-- `bigIntToString` appends the reversed decimal digits of the BigInt's value (nothing for zero),
19 digits per 64-bit division — for every value that fits the declared width. -/
theorem big_int_to_string_exact (tb : Nat) (s : List Nat) (b : Nat) (hb : b < 2 ^ tb) :
    bigIntToString tb s b = .ok (s ++ (if b = 0 then [] else ((Nat.toDigits 10 b).map Char.toNat).reverse)) :=
  Qentem.Proofs.NumToStr.bigIntToString_eq s hb

/-! non-vacuity: the minimum values are in range, and concrete instances -/
example : int_to_string_exact_signed [120] 8 (Or.inr (Or.inr (Or.inr rfl))) (-9223372036854775808) (by decide) (by decide) =
    int_to_string_exact_signed [120] 8 (Or.inr (Or.inr (Or.inr rfl))) (-9223372036854775808) (by decide) (by decide) := rfl
example : intToString [120] 8 true 9223372036854775808 =
    .ok ([120, 45] ++ [57, 50, 50, 51, 51, 55, 50, 48, 51, 54, 56, 53, 52, 55, 55, 53, 56, 48, 56]) := by decide +kernel
example : intToString [] 1 true 128 = .ok [45, 49, 50, 56] := by decide +kernel
example : intToString [] 2 false 65535 = .ok [54, 53, 53, 51, 53] := by decide +kernel

/-! ### append-only -/

/-- integer path: the result is the old contents followed by text (both signs, every width) -/
theorem append_only_int (pre : List Nat) (bytes : Nat) (sg : Bool) (raw : Nat) (out : List Nat)
    (h : intToString pre bytes sg raw = .ok out) : ∃ text, out = pre ++ text := by
  have key := Qentem.Proofs.NumToStr.intToString_ext' (start := pre.length) h (Qentem.Proofs.NumToStr.Ext.refl (Nat.le_refl _))
  refine ⟨out.drop pre.length, ?_⟩
  have h2 := key.2
  simp only [List.take_length] at h2
  calc out = out.take pre.length ++ out.drop pre.length := (List.take_append_drop _ _).symm
    _ = pre ++ out.drop pre.length := by rw [h2]

/-- real path, every configuration, bit pattern, precision and format: whenever the model of
`realToString` returns, the stream is what it held before followed by the new text.  Every in-place
poke of the model is guarded (`wrAt`: a write below `started_at` is the fault `prefixWrite`, a write
at or past `Length()` the fault `oobWrite`), so this reads: a run of the formatter that does not
poke outside the digit run leaves the destination's earlier contents untouched. -/
theorem append_only_real (c : Cfg) (pre : List Nat) (bits p f : Nat) (out : List Nat)
    (h : realToString c pre bits p f = .ok out) : ∃ text, out = pre ++ text :=
  Qentem.Proofs.NumToStr.realToString_append_only h

example : realToString f64 [57, 57] 0x4023000000000000 0 fmtFixed = .ok [57, 57, 49, 48] := by decide +kernel  -- 9.5 → "10" after "99"

/-! ### special values and the main statement -/

/-- The reference format selected by the library's `RealFormatType` number. -/
abbrev specFmt (f : Nat) : FmtSpec.Fmt := fmtOf f

/-- **C10, main statement (open for general finite values).**  For every bit pattern, every
precision up to 40 and each of the three formats the model appends exactly the reference text
(`%.{p}g`, `%.{p}f`, `%.{p}f` stripped; `inf`, `-inf`, `nan`), for doubles and for floats. -/
def FormatEqSpec : Prop :=
  (∀ pre bits p f, bits < 2 ^ 64 → p ≤ 40 → f ≤ 2 →
      realToString f64 pre bits p f = .ok (pre ++ FmtSpec.format64 bits p (specFmt f))) ∧
  (∀ pre bits p f, bits < 2 ^ 32 → p ≤ 40 → f ≤ 2 →
      realToString f32 pre bits p f = .ok (pre ++ FmtSpec.format32 bits p (specFmt f)))

/-- the classes for which `FormatEqSpec` is proved -/
def Special64 (bits : Nat) : Prop :=
  (bits / 2 ^ 52) % 2 ^ 11 = 2 ^ 11 - 1 ∨ ((bits / 2 ^ 52) % 2 ^ 11 = 0 ∧ bits % 2 ^ 52 = 0)
def Special32 (bits : Nat) : Prop :=
  (bits / 2 ^ 23) % 2 ^ 8 = 2 ^ 8 - 1 ∨ ((bits / 2 ^ 23) % 2 ^ 8 = 0 ∧ bits % 2 ^ 23 = 0)

instance (b : Nat) : Decidable (Special64 b) := by unfold Special64; infer_instance
instance (b : Nat) : Decidable (Special32 b) := by unfold Special32; infer_instance

/-- `special_values`: every infinity, every NaN pattern (any payload, either sign) and both zeros
print the reference text in each format and at every precision, after any stream contents. -/
theorem special_values :
    (∀ pre bits p f, Special64 bits → p ≤ 1048576 →
      realToString f64 pre bits p f = .ok (pre ++ FmtSpec.format64 bits p (specFmt f))) ∧
    (∀ pre bits p f, Special32 bits → p ≤ 1048576 →
      realToString f32 pre bits p f = .ok (pre ++ FmtSpec.format32 bits p (specFmt f))) := by
  constructor
  · intro pre bits p f hs hp
    rcases hs with he | ⟨he, hf⟩
    · exact Qentem.Proofs.NumToStr.nonfinite64 pre bits p f he
    · exact Qentem.Proofs.NumToStr.zero64 pre bits p f hp he hf
  · intro pre bits p f hs hp
    rcases hs with he | ⟨he, hf⟩
    · exact Qentem.Proofs.NumToStr.nonfinite32 pre bits p f he
    · exact Qentem.Proofs.NumToStr.zero32 pre bits p f hp he hf

/-- what the reference text is for those values (so the previous theorem is not about an odd spec) -/
theorem special_values_text :
    FmtSpec.format64 0x7FF0000000000000 6 .default = [105, 110, 102] ∧                 -- inf
    FmtSpec.format64 0xFFF0000000000000 0 .fixed = [45, 105, 110, 102] ∧               -- -inf
    FmtSpec.format64 0x7FF8000000000001 3 .semiFixed = [110, 97, 110] ∧                -- nan
    FmtSpec.format64 0xFFFFFFFFFFFFFFFF 3 .fixed = [110, 97, 110] ∧                    -- nan (negative, payload)
    FmtSpec.format64 0 3 .fixed = [48, 46, 48, 48, 48] ∧                               -- 0.000
    FmtSpec.format64 0x8000000000000000 2 .default = [45, 48] ∧                        -- -0
    FmtSpec.format64 0x8000000000000000 0 .fixed = [45, 48] ∧
    FmtSpec.format32 0x80000000 4 .semiFixed = [45, 48] ∧
    FmtSpec.format32 0x7F800000 4 .semiFixed = [105, 110, 102] := by decide +kernel

/-- Integer-valued normal doubles (exponent field `e ≥ 1023`, no fractional bits left):
`2^52 + f = 2^j · odd` with `52 - j ≤ e - 1023`.  Every double of magnitude ≥ 2^52 is one
(`integer_valued_of_big`), as is every integer below 2^53. -/
def IntegerValued64 (bits : Nat) : Prop := ∃ j, IntValued64 ((bits / 2 ^ 52) % 2 ^ 11) (bits % 2 ^ 52) j

theorem integer_valued_of_big (bits : Nat) (h1 : 1075 ≤ (bits / 2 ^ 52) % 2 ^ 11) (h2 : (bits / 2 ^ 52) % 2 ^ 11 < 2047) :
    IntegerValued64 bits :=
  Qentem.Proofs.NumToStr.intValued_of_big h1 h2 (Nat.mod_lt _ (Nat.two_pow_pos 52))

/-- `format_eq_spec_integers`: for every integer-valued double — i.e. **every double with
|x| ≥ 2^52 (47 % of all finite doubles) and every integer** — Fixed and SemiFixed print exactly the
reference (`%.{p}f`, and `%.{p}f` stripped), at every precision, after any stream contents.  The
digit run is exact (no rounding happens), so this is a full proof for that class. -/
theorem format_eq_spec_integers (pre : List Nat) (bits p f : Nat) (hp : p ≤ 1048576) (hf : f = 1 ∨ f = 2)
    (h : IntegerValued64 bits) :
    realToString f64 pre bits p f = .ok (pre ++ FmtSpec.format64 bits p (specFmt f)) := by
  obtain ⟨j, hj⟩ := h
  exact Qentem.Proofs.NumToStr.int_class64 pre bits p f j hf hp hj

/-- integer-valued floats: `2^23 + f = 2^j · odd` with `23 - j ≤ e - 127`; every float of magnitude ≥ 2^23 is one -/
def IntegerValued32 (bits : Nat) : Prop :=
  ∃ j, Qentem.Proofs.NumToStr.F32.IntValued32 ((bits / 2 ^ 23) % 2 ^ 8) (bits % 2 ^ 23) j

theorem integer_valued_of_big32 (bits : Nat) (h1 : 150 ≤ (bits / 2 ^ 23) % 2 ^ 8) (h2 : (bits / 2 ^ 23) % 2 ^ 8 < 255) :
    IntegerValued32 bits :=
  Qentem.Proofs.NumToStr.F32.intValued_of_big h1 h2 (Nat.mod_lt _ (Nat.two_pow_pos 23))

/-- `format_eq_spec_integers32`: every integer-valued float (all |x| ≥ 2^23 and all integers), Fixed and
SemiFixed, any precision, any stream contents: exactly the reference text. -/
theorem format_eq_spec_integers32 (pre : List Nat) (bits p f : Nat) (hp : p ≤ 1048576) (hf : f = 1 ∨ f = 2)
    (h : IntegerValued32 bits) :
    realToString f32 pre bits p f = .ok (pre ++ FmtSpec.format32 bits p (specFmt f)) := by
  obtain ⟨j, hj⟩ := h
  exact Qentem.Proofs.NumToStr.F32.int_class32 pre bits p f j hf hp hj

example : IntegerValued32 0x4B800000 := integer_valued_of_big32 _ (by decide) (by decide)   -- 2^24

/-- non-vacuity: 1e21 (= 0x444B1AE4D6E2EF50) and 3.0 are integer-valued; 0.5 is not -/
example : IntegerValued64 0x444B1AE4D6E2EF50 := integer_valued_of_big _ (by decide) (by decide)
example : IntegerValued64 0x4008000000000000 := ⟨51, by constructor <;> decide⟩
example : realToString f64 [] 0x444B1AE4D6E2EF50 2 fmtFixed =
    .ok [49,48,48,48,48,48,48,48,48,48,48,48,48,48,48,48,48,48,48,48,48,48,46,48,48] := by decide +kernel  -- 1000000000000000000000.00

/-! ### the digit run is exact (whole real path) -/

/-- **`digits_exact_or_sticky`** — doubles.  For every finite non-zero bit pattern, every format and every
precision ≤ 40, the model's digit run (`bigIntDropDigits`, the ×5^27 loop with its mid-loop shifts, the
checked BigInt width) returns **without fault** a BigInt `b` with
`b = ⌊v · 10^fl / 10^d⌋` for the exact value `v = num/den` the reference decodes (`fl` = the fraction
length handed to the formatter, `d` = number of integer digits dropped; one of them is 0), and
`round_up = true ↔` the cut-off part is non-zero.  So the digit string the formatter receives is the exact
decimal expansion of the binary value truncated at a known place, plus a correct sticky flag: after this,
`FormatEqSpec` is a statement about the string-level formatter alone. -/
theorem digits_exact_or_sticky (bits p fmt : Nat) (hp : p ≤ 40)
    (hfin : (bits / 2 ^ 52) % 2 ^ 11 ≠ 2 ^ 11 - 1)
    (hnz : (bits / 2 ^ 52) % 2 ^ 11 ≠ 0 ∨ bits % 2 ^ 52 ≠ 0) :
    ∃ b digits fl pos ru d num den,
      digitRun f64 (bits % 2 ^ 52) ((bits / 2 ^ 52) % 2 ^ 11 * 2 ^ 52) p fmt = .ok (b, digits, fl, pos, ru) ∧
      FmtSpec.decode64 bits = .fin (decide ((bits / 2 ^ 63) % 2 = 1)) num den ∧ 0 < den ∧
      (fl = 0 ∨ d = 0) ∧
      b = num * 10 ^ fl / (den * 10 ^ d) ∧
      (ru = true ↔ (num * 10 ^ fl) % (den * 10 ^ d) ≠ 0) :=
  Qentem.Proofs.NumToStr.digitRun_exact (X := 11) Qentem.Proofs.NumToStr.shape64 (by decide) (by decide)
    bits p fmt hp hfin hnz

/-- the same for floats -/
theorem digits_exact_or_sticky32 (bits p fmt : Nat) (hp : p ≤ 40)
    (hfin : (bits / 2 ^ 23) % 2 ^ 8 ≠ 2 ^ 8 - 1)
    (hnz : (bits / 2 ^ 23) % 2 ^ 8 ≠ 0 ∨ bits % 2 ^ 23 ≠ 0) :
    ∃ b digits fl pos ru d num den,
      digitRun f32 (bits % 2 ^ 23) ((bits / 2 ^ 23) % 2 ^ 8 * 2 ^ 23) p fmt = .ok (b, digits, fl, pos, ru) ∧
      FmtSpec.decode32 bits = .fin (decide ((bits / 2 ^ 31) % 2 = 1)) num den ∧ 0 < den ∧
      (fl = 0 ∨ d = 0) ∧
      b = num * 10 ^ fl / (den * 10 ^ d) ∧
      (ru = true ↔ (num * 10 ^ fl) % (den * 10 ^ d) ≠ 0) :=
  Qentem.Proofs.NumToStr.digitRun_exact (X := 8) Qentem.Proofs.NumToStr.shape32 (by decide) (by decide)
    bits p fmt hp hfin hnz

/-- non-vacuity: 0.1 at 17 digits — the run is ⌊0.1·10^20⌋ = 10000000000000000555 (20 fractional digits), sticky -/
example : digitRun f64 (0x3FB999999999999A % 2 ^ 52) ((0x3FB999999999999A / 2 ^ 52) % 2 ^ 11 * 2 ^ 52) 17 0 =
    .ok (10000000000000000555, 2, 20, false, true) := by decide +kernel

/-- `format_eq_spec_integers_default`: Default format (`%.{p}g`), every integer-valued double whose decimal
numeral has at most `P` digits (`P` = precision, 1 for precision 0): the plain numeral, no exponent form,
exactly as printf.  (Integers with more digits than the precision need the rounding step: open.) -/
theorem format_eq_spec_integers_default (pre : List Nat) (bits p : Nat) (hp : p ≤ 1048576) (j : Nat)
    (h : IntValued64 ((bits / 2 ^ 52) % 2 ^ 11) (bits % 2 ^ 52) j)
    (hl : ((Nat.toDigits 10 (Qentem.Proofs.NumToStr.intValue64 ((bits / 2 ^ 52) % 2 ^ 11) (bits % 2 ^ 52))).map Char.toNat).length
        ≤ (if p = 0 then 1 else p)) :
    realToString f64 pre bits p fmtDefault = .ok (pre ++ FmtSpec.format64 bits p (specFmt fmtDefault)) :=
  Qentem.Proofs.NumToStr.default_small_int64 pre bits p j h hl hp

/-- `format_eq_spec_integers_default_all`: **Default format (`%.{p}g`) for every integer-valued double**, in
particular every |x| ≥ 2^52, precision ≤ 40.  With at most `P` digits the plain numeral is printed; with more,
the value is rounded half-even to `P` significant digits — rounding digit against '5', sticky lower digits
(including the digits the BigInt pipeline dropped), tie to even, carry over nines, carry out of the top digit —
and printed as `d.ddde+XX` with trailing zeros removed: exactly the reference. -/
theorem format_eq_spec_integers_default_all (pre : List Nat) (bits p : Nat) (hp : p ≤ 40) (h : IntegerValued64 bits) :
    realToString f64 pre bits p fmtDefault = .ok (pre ++ FmtSpec.format64 bits p (specFmt fmtDefault)) := by
  obtain ⟨j, hj⟩ := h
  by_cases hl : (Qentem.Proofs.NumToStr.D (Qentem.Proofs.NumToStr.intValue64 ((bits / 2 ^ 52) % 2 ^ 11) (bits % 2 ^ 52))).length
      ≤ (if p = 0 then 1 else p)
  · exact Qentem.Proofs.NumToStr.default_small_int64 pre bits p j hj hl (by omega)
  · exact Qentem.Proofs.NumToStr.default_big_int64 pre bits p j hp hj (by omega)

/-- tests (kernel evaluation): 2^70 at 5 digits; 9.999999e22-ish carry; 250 at 1 digit (tie to even) -/
example : realToString f64 [] 0x4450000000000000 5 fmtDefault = .ok [49, 46, 49, 56, 48, 54, 101, 43, 50, 49] := by
  decide +kernel   -- 1.1806e+21
example : realToString f64 [] 0x406F400000000000 1 fmtDefault = .ok [50, 101, 43, 48, 50] := by decide +kernel  -- 2e+02

/-- the digit estimate of `realToString` is exactly the number of decimal digits of `2^e`, for every binary
exponent a double or float can have -/
theorem digit_estimate_exact : ∀ e, e ≤ 1130 →
    10 ^ (e * 30103 / 100000) ≤ 2 ^ e ∧ 2 ^ e < 10 ^ (e * 30103 / 100000 + 1) :=
  Qentem.Proofs.NumToStr.est_table

/-- number of binary fraction digits of a double (`0` for integers): `52 - ctz(mantissa) ∓ exponent` -/
abbrev fracBits64 (bits : Nat) : Nat :=
  Qentem.Proofs.NumToStr.fracBits 52 1023 (bits % 2 ^ 52) ((bits / 2 ^ 52) % 2 ^ 11)

/-- `format_eq_spec_short_fractions`: every double `k · 2^-j` whose binary fraction has `j` digits with
`0 < j ≤ precision ≤ 40` (any magnitude, e.g. 0.5, 0.375, -1234.5625, 2^-40): its decimal expansion is
finite with `j` digits, the BigInt pipeline yields exactly those digits (no rounding takes place), and
Fixed and SemiFixed print exactly `%.{p}f` / its stripped form. -/
theorem format_eq_spec_short_fractions (pre : List Nat) (bits p f : Nat) (hf : f = 1 ∨ f = 2) (hp : p ≤ 40)
    (hfin : (bits / 2 ^ 52) % 2 ^ 11 ≠ 2 ^ 11 - 1) (h0 : 0 < fracBits64 bits) (hle : fracBits64 bits ≤ p) :
    realToString f64 pre bits p f = .ok (pre ++ FmtSpec.format64 bits p (specFmt f)) :=
  Qentem.Proofs.NumToStr.short_fraction64 pre bits p f hf hp hfin h0 hle

/-- non-vacuity: 0.375 has 3 fraction bits, -1234.5625 has 4 -/
example : fracBits64 0x3FD8000000000000 = 3 ∧ fracBits64 0xC0934A4000000000 = 4 := by decide
example : realToString f64 [] 0xC0934A4000000000 6 fmtFixed =
    .ok [45, 49, 50, 51, 52, 46, 53, 54, 50, 53, 48, 48] := by decide +kernel   -- -1234.562500

/-- `format_eq_spec_default_large`: **Default (`%.{p}g`) for every double ≥ 1 whose digit estimate
`⌊e·30103/100000⌋+1` exceeds `P`** (so for every |x| ≥ 10^P, e.g. all |x| ≥ 1e40 at any precision ≤ 40), integer or
not: the pipeline drops `estimate − P − 1` integer digits, keeps the fraction and the dropped digits in the sticky
flag, rounds half-even to `P` digits and prints `d.ddde+XX` — exactly the reference. -/
theorem format_eq_spec_default_large (pre : List Nat) (bits p : Nat) (hp : p ≤ 40)
    (hfin : (bits / 2 ^ 52) % 2 ^ 11 ≠ 2 ^ 11 - 1) (hge1 : 1023 ≤ (bits / 2 ^ 52) % 2 ^ 11)
    (hx : (if p = 0 then 1 else p) < ((bits / 2 ^ 52) % 2 ^ 11 - 1023) * 30103 / 100000 + 1) :
    realToString f64 pre bits p fmtDefault = .ok (pre ++ FmtSpec.format64 bits p (specFmt fmtDefault)) :=
  Qentem.Proofs.NumToStr.default_extra64 pre bits p hp hfin hge1 hx

/-- test: 1521525.3 at 6 digits (witness of a repaired defect) → 1.52153e+06 -/
example : realToString f64 [] 0x413737754CCCCCCD 6 fmtDefault =
    .ok [49, 46, 53, 50, 49, 53, 51, 101, 43, 48, 54] := by decide +kernel

/-- `format_eq_spec_fixed_ge1`: **Fixed (`%.{p}f`) and SemiFixed for every finite double of magnitude ≥ 1**,
every precision ≤ 40, after any stream contents.  Integers print exactly; values whose binary fraction has at
most `p` digits print their finite expansion; all others are produced with one extra digit
(`⌊v·10^(p+1)⌋` + sticky flag, exact by `digits_exact_or_sticky`), rounded half-even in place — rounding digit
against '5', tie to even on the next digit, carries over nines, carry out of the top digit — and laid out by
`formatStringNumberFixed` (point insertion, zero restoring, padding): exactly the reference text. -/
theorem format_eq_spec_fixed_ge1 (pre : List Nat) (bits p f : Nat) (hf : f = 1 ∨ f = 2) (hp : p ≤ 40)
    (hfin : (bits / 2 ^ 52) % 2 ^ 11 ≠ 2 ^ 11 - 1) (hge1 : 1023 ≤ (bits / 2 ^ 52) % 2 ^ 11) :
    realToString f64 pre bits p f = .ok (pre ++ FmtSpec.format64 bits p (specFmt f)) :=
  Qentem.Proofs.NumToStr.fixed_ge1_64 pre bits p f hf hp hfin hge1

/-- tests (kernel evaluation): 11150.001 SemiFixed 2 → 11150; 9999.995 Fixed 2 → 10000.00 (carry out);
2.5 Fixed 0 → 2 (tie to even); 1234.5678 Fixed 2 -/
example : realToString f64 [] 0x40C5C7002085B185 2 fmtSemiFixed = .ok [49, 49, 49, 53, 48] := by decide +kernel
example : realToString f64 [] 0x40C387FF5C28F5C3 2 fmtFixed = .ok [49, 48, 48, 48, 48, 46, 48, 48] := by decide +kernel
example : realToString f64 [] 0x4004000000000000 0 fmtFixed = .ok [50] := by decide +kernel

/-- `format_eq_spec_default_ge1`: **Default (`%.{p}g`) for every finite double of magnitude ≥ 1**, every precision
≤ 40, after any stream contents.  Besides the integer and the large classes above this covers every value that
keeps a fraction: the fraction block yields `min(fracBits, P − estimate + 1)` fractional digits exactly
(`digits_exact_or_sticky`), the run is rounded half-even at the `P`-th significant digit, zeros are skipped or
restored, and the text is laid out plain, with the point, or as `1e+XX` when the carry produces a new digit that no
longer fits — the reference `%g` in each case (including `%g`'s re-evaluation of the exponent after rounding). -/
theorem format_eq_spec_default_ge1 (pre : List Nat) (bits p : Nat) (hp : p ≤ 40)
    (hfin : (bits / 2 ^ 52) % 2 ^ 11 ≠ 2 ^ 11 - 1) (hge1 : 1023 ≤ (bits / 2 ^ 52) % 2 ^ 11) :
    realToString f64 pre bits p fmtDefault = .ok (pre ++ FmtSpec.format64 bits p (specFmt fmtDefault)) :=
  Qentem.Proofs.NumToStr.default_ge1_64 pre bits p hp hfin hge1

/-- `format_eq_spec_ge1`: **`FormatEqSpec` restricted to doubles of magnitude ≥ 1**: all three formats, every
precision ≤ 40, every finite double with biased exponent ≥ 1023. -/
theorem format_eq_spec_ge1 (pre : List Nat) (bits p f : Nat) (hf : f ≤ 2) (hp : p ≤ 40)
    (hfin : (bits / 2 ^ 52) % 2 ^ 11 ≠ 2 ^ 11 - 1) (hge1 : 1023 ≤ (bits / 2 ^ 52) % 2 ^ 11) :
    realToString f64 pre bits p f = .ok (pre ++ FmtSpec.format64 bits p (specFmt f)) := by
  have h3 : f = 0 ∨ f = 1 ∨ f = 2 := by omega
  rcases h3 with rfl | h12
  · exact format_eq_spec_default_ge1 pre bits p hp hfin hge1
  · exact format_eq_spec_fixed_ge1 pre bits p f h12 hp hfin hge1

/-- tests (kernel evaluation): 9.9999 at 3 digits → 10 (carry, exponent re-evaluated);
999999.5 at 6 → 1e+06; 3.14159 at 3 → 3.14; 1.5 at 17 → 1.5 -/
example : realToString f64 [] 0x4023FFF2E48E8A72 3 fmtDefault = .ok [49, 48] := by decide +kernel
example : realToString f64 [] 0x412E847F00000000 6 fmtDefault = .ok [49, 101, 43, 48, 54] := by decide +kernel
example : realToString f64 [] 0x400921F9F01B866E 3 fmtDefault = .ok [51, 46, 49, 52] := by decide +kernel
example : realToString f64 [] 0x3FF8000000000000 17 fmtDefault = .ok [49, 46, 53] := by decide +kernel

/-- `format_eq_spec_fixed_all`: **Fixed (`%.{p}f`) and SemiFixed for every double** — every one of the 2^64 bit
patterns (zeros, subnormals, normals of any magnitude, infinities, NaNs), every precision ≤ 40, after any stream
contents.  This is the `Fixed`/`SemiFixed` half of the double part of `FormatEqSpec`, with no exception.  Below
one the pipeline produces `estimate + p + 1` fractional digits exactly, rounds half-even at the `p`-th one and
lays the result out as `0.0…0ddd`, `0`/`0.000` (everything rounded away) or `1`/`1.000` (carry into the units). -/
theorem format_eq_spec_fixed_all (pre : List Nat) (bits p f : Nat) (hf : f = 1 ∨ f = 2) (hp : p ≤ 40) :
    realToString f64 pre bits p f = .ok (pre ++ FmtSpec.format64 bits p (specFmt f)) := by
  by_cases hs : Special64 bits
  · exact special_values.1 pre bits p f hs (by omega)
  · unfold Special64 at hs
    have hfin : (bits / 2 ^ 52) % 2 ^ 11 ≠ 2 ^ 11 - 1 := fun h => hs (Or.inl h)
    have hnz : (bits / 2 ^ 52) % 2 ^ 11 ≠ 0 ∨ bits % 2 ^ 52 ≠ 0 := by
      by_contra hc
      simp only [not_or, ne_eq, not_not] at hc
      exact hs (Or.inr hc)
    exact Qentem.Proofs.NumToStr.fixed_finite_64 pre bits p f hf hp hfin hnz

/-- tests (kernel evaluation): 0.05 Fixed 1 → 0.1 (the stored value is above the tie); 0.000123456 Fixed 5;
0.96 Fixed 1 → 1.0 (carry into the units); 0.04 Fixed 1 → 0.0; smallest subnormal SemiFixed 3 → 0 -/
example : realToString f64 [] 0x3FA999999999999A 1 fmtFixed = .ok [48, 46, 49] := by decide +kernel
example : realToString f64 [] 0x3F202E7EF70994DD 5 fmtFixed = .ok [48, 46, 48, 48, 48, 49, 50] := by decide +kernel
example : realToString f64 [] 0x3FEEB851EB851EB8 1 fmtFixed = .ok [49, 46, 48] := by decide +kernel
example : realToString f64 [] 0x3FA47AE147AE147B 1 fmtFixed = .ok [48, 46, 48] := by decide +kernel
example : realToString f64 [] 0x0000000000000001 3 fmtSemiFixed = .ok [48] := by decide +kernel

/-- `format_eq_spec_double`: **the double half of `FormatEqSpec`, proved in full**: for every one of the 2^64 bit
patterns (indeed for every natural number read as a pattern), every precision ≤ 40, each of the three formats and
any prior stream contents, `realToString` appends exactly the reference text (`%.{p}g`, `%.{p}f`, `%.{p}f` stripped;
`inf`, `-inf`, `nan`) and raises no fault (no out-of-range access, no size wrap, no BigInt overflow).
The proof goes through `digits_exact_or_sticky` (the BigInt pipeline yields the exact decimal expansion cut at a
known place plus a sticky flag), `realFinite_reduce` (model = string formatter applied to that digit run), and the
string-level lemmas for `roundStringNumber`, `formatStringNumberDefault` and `formatStringNumberFixed`. -/
theorem format_eq_spec_double (pre : List Nat) (bits p f : Nat) (hp : p ≤ 40) (hf : f ≤ 2) :
    realToString f64 pre bits p f = .ok (pre ++ FmtSpec.format64 bits p (specFmt f)) := by
  have h3 : f = 0 ∨ f = 1 ∨ f = 2 := by omega
  rcases h3 with rfl | h12
  · by_cases hs : Special64 bits
    · exact special_values.1 pre bits p 0 hs (by omega)
    · unfold Special64 at hs
      have hfin : (bits / 2 ^ 52) % 2 ^ 11 ≠ 2 ^ 11 - 1 := fun h => hs (Or.inl h)
      have hnz : (bits / 2 ^ 52) % 2 ^ 11 ≠ 0 ∨ bits % 2 ^ 52 ≠ 0 := by
        by_contra hc
        simp only [not_or, ne_eq, not_not] at hc
        exact hs (Or.inr hc)
      exact Qentem.Proofs.NumToStr.default_finite_64 pre bits p hp hfin hnz
  · exact format_eq_spec_fixed_all pre bits p f h12 hp

/-- tests (kernel evaluation): 0.0001 at 6 digits → 0.0001; 0.00001 → 1e-05; 0.00099999999 at 3 → 0.001 (carry,
four zeros kept); 0.000099999999 at 3 → 0.0001; 0.0000099999 at 2 → 1e-05; smallest subnormal at 17 digits -/
example : realToString f64 [] 0x3F1A36E2EB1C432D 6 fmtDefault = .ok [48, 46, 48, 48, 48, 49] := by decide +kernel
example : realToString f64 [] 0x3EE4F8B588E368F1 6 fmtDefault = .ok [49, 101, 45, 48, 53] := by decide +kernel
example : realToString f64 [] 0x3F50624DD031FA00 3 fmtDefault = .ok [48, 46, 48, 48, 49] := by decide +kernel
example : realToString f64 [] 0x3EE4F8A7CA737C05 2 fmtDefault = .ok [49, 101, 45, 48, 53] := by decide +kernel
example : realToString f64 [] 0x0000000000000001 17 fmtDefault =
    .ok [52, 46, 57, 52, 48, 54, 53, 54, 52, 53, 56, 52, 49, 50, 52, 54, 53, 52, 101, 45, 51, 50, 52] := by decide +kernel

/-- `format_eq_spec_float`: **the float half of `FormatEqSpec`, proved in full**: every `binary32` bit pattern, every
precision ≤ 40, each format, any prior stream contents.  Same proof as for doubles — the generic lemmas are shared
and the class theorems are instantiated with 23 mantissa bits, bias 127 and the 320-bit BigInt (`Shape f32 23 127`). -/
theorem format_eq_spec_float (pre : List Nat) (bits p f : Nat) (hp : p ≤ 40) (hf : f ≤ 2) :
    realToString f32 pre bits p f = .ok (pre ++ FmtSpec.format32 bits p (specFmt f)) := by
  by_cases hs : Special32 bits
  · exact special_values.2 pre bits p f hs (by omega)
  · unfold Special32 at hs
    have hfin : (bits / 2 ^ 23) % 2 ^ 8 ≠ 2 ^ 8 - 1 := fun h => hs (Or.inl h)
    have hnz : (bits / 2 ^ 23) % 2 ^ 8 ≠ 0 ∨ bits % 2 ^ 23 ≠ 0 := by
      by_contra hc
      simp only [not_or, ne_eq, not_not] at hc
      exact hs (Or.inr hc)
    have h3 : f = 0 ∨ f = 1 ∨ f = 2 := by omega
    rcases h3 with rfl | h12
    · exact Qentem.Proofs.NumToStr.default_finite_32 pre bits p hp hfin hnz
    · exact Qentem.Proofs.NumToStr.fixed_finite_32 pre bits p f h12 hp hfin hnz

/-- **`format_eq_spec`: `FormatEqSpec` holds.**  For every double and every float, every precision up to 40 and
each of the three formats, `Digit::NumberToString` (as modelled: BigInt pipeline, digit estimate table, string
rounding, the two string formatters, with every index, length and BigInt access checked) appends exactly the
reference text written from IEEE 754 and the C standard's `printf`, and no fault occurs. -/
theorem format_eq_spec : FormatEqSpec :=
  ⟨fun pre bits p f _ hp hf => format_eq_spec_double pre bits p f hp hf,
   fun pre bits p f _ hp hf => format_eq_spec_float pre bits p f hp hf⟩

/-- tests (kernel evaluation), floats: 0.1f at 9 digits; 16777216f Fixed 1; 1e-45f (smallest subnormal) at 3 -/
example : realToString f32 [] 0x3DCCCCCD 9 fmtDefault =
    .ok [48, 46, 49, 48, 48, 48, 48, 48, 48, 48, 49] := by decide +kernel
example : realToString f32 [] 0x4B800000 1 fmtFixed = .ok [49, 54, 55, 55, 55, 50, 49, 54, 46, 48] := by decide +kernel
example : realToString f32 [] 0x00000001 3 fmtDefault = .ok [49, 46, 52, 101, 45, 52, 53] := by decide +kernel

/-- `format_eq_spec_partial`: `FormatEqSpec` restricted to the special classes.  The rest — every
finite non-zero value — is open; see `notes/design-numtostr.md`. -/
theorem format_eq_spec_partial :
    (∀ pre bits p f, bits < 2 ^ 64 → p ≤ 40 → f ≤ 2 → Special64 bits →
      realToString f64 pre bits p f = .ok (pre ++ FmtSpec.format64 bits p (specFmt f))) ∧
    (∀ pre bits p f, bits < 2 ^ 32 → p ≤ 40 → f ≤ 2 → Special32 bits →
      realToString f32 pre bits p f = .ok (pre ++ FmtSpec.format32 bits p (specFmt f))) :=
  ⟨fun pre bits p f _ hp _ hs => special_values.1 pre bits p f hs (by omega),
   fun pre bits p f _ hp _ hs => special_values.2 pre bits p f hs (by omega)⟩

/-! non-vacuity of the hypotheses, and kernel-evaluated instances of the open statement on
witnesses of the repaired defects (these instances are **tests**, not a proof of `FormatEqSpec`) -/
example : Special64 0x7FF8000000000000 ∧ Special64 0x8000000000000000 ∧ ¬ Special64 0x3FF0000000000000 := by decide
example : Special32 0xFFC00000 ∧ Special32 0 ∧ ¬ Special32 0x3F800000 := by decide

def agrees64 (bits p f : Nat) : Bool := realToString f64 [] bits p f == .ok (FmtSpec.format64 bits p (specFmt f))
def agrees32 (bits p f : Nat) : Bool := realToString f32 [] bits p f == .ok (FmtSpec.format32 bits p (specFmt f))

/-- test: 11150.001 SemiFixed 2; 0.5 Fixed 0; -0.74 SemiFixed 0; 1521525.3 Default 6; 25.657 Default 1;
250 Default 1; 5.0 Default 0; 23·2^-310 Default 17; float 0x3f Default 39; 9.5 Fixed 0 -/
theorem format_eq_spec_witnesses :
    agrees64 0x40C5C7002085B185 2 2 = true ∧ agrees64 0x3FE0000000000000 0 1 = true ∧
    agrees64 0xBFE7AE147AE147AE 0 2 = true ∧ agrees64 0x413737754CCCCCCD 6 0 = true ∧
    agrees64 0x4039A83126E978D5 1 0 = true ∧ agrees64 0x406F400000000000 1 0 = true ∧
    agrees64 0x4014000000000000 0 0 = true ∧ agrees64 0x2CD7000000000000 17 0 = true ∧
    agrees32 0x0000003F 39 0 = true ∧ agrees64 0x4023000000000000 0 1 = true := by decide +kernel

end Qentem.Props.C10
