import Qentem.Model.NumToStr
import Qentem.Model.FmtSpec
import Qentem.Generated.NumToStr
/-! C10 — number to text equals the reference formatting for every value and precision. -/
namespace Qentem.Props.C10
open Qentem.NumToStr Qentem.Generated.NumToStr
open Qentem (FmtSpec.Fmt)

/-! ### T1: the tables and constants compiled from the current headers are what the proofs assume
(a changed table entry, mask, width or enum value breaks these). -/

/-- `DigitTable1` is "00".."99", `DigitTable2` is "0".."9", with their terminators. -/
theorem tables_ok_digits :
    digitTable1 = (List.range 100).flatMap (fun n => [48 + n / 10, 48 + n % 10]) ∧
    digitTable2 = (List.range 10).map (48 + ·) ∧
    digitTable1Size = 201 ∧ digitTable2Size = 11 := by decide +kernel

/-- powers of five are exact, in the 8-byte configuration (the one this build uses) and the 4-byte one;
`MaxPowerOfTenValue = 10^MaxPowerOfTen`; `MaxShift` is the word width. -/
theorem tables_ok_powers :
    C8.powerOfFive = (List.range (C8.maxPowerOfFive + 1)).map (5 ^ ·) ∧
    C4.powerOfFive = (List.range (C4.maxPowerOfFive + 1)).map (5 ^ ·) ∧
    C8.maxPowerOfFive = 27 ∧ C4.maxPowerOfFive = 13 ∧
    C8.maxPowerOfTenValue = 10 ^ C8.maxPowerOfTen ∧ C4.maxPowerOfTenValue = 10 ^ C4.maxPowerOfTen ∧
    C8.maxPowerOfTen = 19 ∧ C4.maxPowerOfTen = 9 ∧
    5 ^ C8.maxPowerOfFive < 2 ^ C8.maxShift ∧ 5 ^ C4.maxPowerOfFive < 2 ^ C4.maxShift ∧
    C8.maxPowerOfTenValue < 2 ^ C8.maxShift ∧ C4.maxPowerOfTenValue < 2 ^ C4.maxShift ∧
    C8.maxShift = 64 ∧ C4.maxShift = 32 ∧ systemIntBytes = 8 ∧ wordBits = C8.maxShift := by decide +kernel

/-- `RealNumberInfo` is the IEEE 754 binary64 / binary32 layout; the BigInt declared by
`realToString` has 1344 / 320 bits in 64-bit words. -/
theorem tables_ok_real_info :
    F64.mantissaSize = 52 ∧ F64.exponentSize = 11 ∧ F64.bias = 2 ^ 10 - 1 ∧ F64.signMask = 2 ^ 63 ∧
    F64.exponentMask = (2 ^ 11 - 1) * 2 ^ 52 ∧ F64.mantissaMask = 2 ^ 52 - 1 ∧ F64.leadingBit = 2 ^ 52 ∧
    F64.bigIntTotalBits = 1344 ∧ F64.bigIntMaxIndex = 20 ∧ F64.bigIntTypeWidth = 64 ∧ F64.maxCut = 300 ∧
    F32.mantissaSize = 23 ∧ F32.exponentSize = 8 ∧ F32.bias = 2 ^ 7 - 1 ∧ F32.signMask = 2 ^ 31 ∧
    F32.exponentMask = (2 ^ 8 - 1) * 2 ^ 23 ∧ F32.mantissaMask = 2 ^ 23 - 1 ∧ F32.leadingBit = 2 ^ 23 ∧
    F32.bigIntTotalBits = 320 ∧ F32.bigIntMaxIndex = 4 ∧ F32.bigIntTypeWidth = 64 ∧ F32.maxCut = 30 := by decide +kernel

/-- characters, literal strings (every character width) and enum numbering -/
theorem tables_ok_strings :
    [Ch.zero, Ch.one, Ch.five, Ch.nine, Ch.e, Ch.dot, Ch.positive, Ch.negative] = [48, 49, 53, 57, 101, 46, 43, 45] ∧
    S1.infinity = FmtSpec.inf ∧ S2.infinity = FmtSpec.inf ∧ S4.infinity = FmtSpec.inf ∧
    S1.notANumber = FmtSpec.nan ∧ S2.notANumber = FmtSpec.nan ∧ S4.notANumber = FmtSpec.nan ∧
    S1.zeros = List.replicate 19 48 ∧ S2.zeros = S1.zeros ∧ S4.zeros = S1.zeros ∧
    S1.zerosLength = 19 ∧ S2.zerosLength = 19 ∧ S4.zerosLength = 19 ∧ C8.maxPowerOfTen ≤ S1.zerosLength ∧
    S1.terminators = [0, 0, 0] ∧ S2.terminators = [0, 0, 0] ∧ S4.terminators = [0, 0, 0] ∧
    [fmtDefault, fmtFixed, fmtSemiFixed] = [0, 1, 2] ∧ defaultPrecision = 6 ∧ sizeTBytes = 4 ∧
    maxDigits = [1, 2, 4, 8].map maxDigitsOf := by decide +kernel

end Qentem.Props.C10
