import Qentem.Model.HashLedger
import Qentem.Proofs.HashLedgerMerge
/-!
C16 for the hash containers — every block is released exactly once, nothing is used after release,
net allocation zero.

`HashLedger.lifetime cfg ops` is the allocation trace of one `HArray` / `HList` lifetime as the
library produces it (tied to the real trace, event by event, by `checks/_hash_ledger.py`): the
object is default-constructed, `ops` are applied (Insert, Get/operator[], assignment, lookups, Remove,
RemoveIndex, Rename, Reserve, Resize, Expect, Compress, Clear, Reset, Sort, copy-construct + move-assign,
move, both `operator+=` with an operand built and destroyed inside the operation, self-merge), and it
is destroyed.  Temporaries (key / value objects built by the caller, the merge operand) are part of
the trace.
-/
namespace Qentem.Props.C16Hash
open Qentem.Ledger Qentem.HashLedger

/-- Any operation sequence followed by destruction gives a balanced trace: no release of a block
that is not live (double free / free of a foreign pointer), no reuse of a live id, nothing left
allocated.  For every configuration (with or without values, any item size, any value sizes, any
key order). -/
theorem lifetime_balanced (cfg : Cfg) (ops : List LOp) : Balanced (lifetime cfg ops) := by
  unfold lifetime
  have h := runOps_ok cfg ops Tab.empty 1 WF_empty
  apply balanced_of_exec (n := (runOps cfg ops Tab.empty 1).2.2)
  have := h.2 [] (destroy (runOps cfg ops Tab.empty 1).2.1) [] (runOps cfg ops Tab.empty 1).2.2
    (destroy_ok _ _)
  simpa [owned_empty] using this

/-- The same statement at any point of the lifetime: after any prefix of operations the live blocks
are exactly the blocks the table owns (so a table that is never destroyed leaks exactly those, and a
moved-from / reset / self-merged table owns what the model says). -/
theorem prefix_owned (cfg : Cfg) (ops : List LOp) :
    ∃ h, Ledger.run (runOps cfg ops Tab.empty 1).1 [] = some h ∧
      (h.map Prod.fst).Perm (owned (runOps cfg ops Tab.empty 1).2.1) := by
  have hr := runOps_ok cfg ops Tab.empty 1 WF_empty
  have := hr.2 [] [] (owned (runOps cfg ops Tab.empty 1).2.1 ++ []) (runOps cfg ops Tab.empty 1).2.2
    (Exec.done (List.Perm.refl _) (Nat.le_refl _))
  obtain ⟨h, h1, h2, _, _⟩ := this [] (by simp [owned_empty, hids]) (by simp [owned_empty]) (by simp [owned_empty])
  exact ⟨h, by simpa using h1, by simpa [hids] using h2⟩

/-! Non-vacuity: a concrete lifetime with growth, overwrite, removal, failed lookup, copy, moving
merge onto existing keys and a self-merge; its trace has 38 events and is balanced by evaluation too. -/
def exCfg : Cfg := ⟨true, 44, fun n => 32 + n, id⟩
def exOps : List LOp :=
  [.insert [1] 5, .insert [2] 6, .insert [1] 7, .lookup [9], .remove [2], .get [3], .copy,
   .merge true [([1], 8), ([4], 9)] [[4]], .selfMerge, .move]

example : (lifetime exCfg exOps).length = 38 := by decide
example : Ledger.run (lifetime exCfg exOps) [] = some [] := by decide

end Qentem.Props.C16Hash
