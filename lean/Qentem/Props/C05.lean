import Qentem.Proofs.Json
import Qentem.Proofs.JsonAllOrNothing
import Qentem.Model.JsonDeps
import Qentem.Proofs.JsonDeps
/-! C05 — parsing any byte string as JSON is memory-safe and terminates.

The parser model reads the input only through `rd`, which fails outside `[0, length)`, and its
recursion and loops burn fuel.  "Memory-safe and terminating for every input" is: the run never
ends in `.error`. -/
namespace Qentem.Props.C05
open Qentem.Json

/-- For every input and every pair of sub-routines meeting `DepsSafe`, `JSON::Parse` returns a
value: no read outside the buffer, `3·length + 3` fuel is never exhausted. -/
theorem parse_no_fault (d : Deps) (hd : DepsSafe d) (c : Array Nat) (hsz : c.size < 2 ^ 32) :
    ∃ v, parse d c = .ok v :=
  Qentem.Json.parse_no_fault d hd c hsz

/-- The parser as it is linked — with the `UnEscape` model (any character width) and the
`StringToNumber` model — never faults and always terminates, for every input below the `SizeT` range. -/
theorem parse_no_fault_concrete (w : Nat) (c : Array Nat) (hsz : c.size < 2 ^ 32) :
    ∃ v, parse (jsonDeps w) c = .ok v :=
  Qentem.Json.parse_no_fault (jsonDeps w) (jsonDeps_safe w) c hsz

/-- The same for each routine started anywhere inside the buffer (what the induction proves): with
`3·(length − offset) + k` fuel every sub-parse ends normally at an offset inside the buffer and
has made progress. -/
theorem fuel_bound (d : Deps) (hd : DepsSafe d) (c : Array Nat) (hsz : c.size < 2 ^ 32) (fuel : Nat) :
    (∀ o, o ≤ c.size → needV c.size o ≤ fuel → Good c.size o (parseValue d c fuel o)) ∧
    (∀ o, o ≤ c.size → needC c.size o ≤ fuel → GoodL c.size o (parseArray d c fuel o)) ∧
    (∀ o, o ≤ c.size → needC c.size o ≤ fuel → GoodL c.size o (parseObject d c fuel o)) :=
  let h := all_good d hd c hsz fuel
  ⟨h.1, h.2.1, h.2.2.1⟩

/-- The result is always a complete value or Undefined. -/
theorem result_complete_or_undefined (d : Deps) (c : Array Nat) (v : JVal) (h : parse d c = .ok v) :
    v = .undef ∨ complete v = true := by
  rcases parse_all_or_nothing d c v h with h1 | ⟨h2, _⟩
  · exact Or.inl h1
  · exact Or.inr h2

/-- Non-vacuity: a concrete pair of sub-routines satisfying `DepsSafe` exists (strings are
rejected, numbers are never recognised), so the hypotheses of the theorems are satisfiable; the
real sub-routine models are covered by `parse_no_fault_concrete`. -/
def trivialDeps : Deps := ⟨fun _ _ _ => .ok (0, []), fun c _ _ => .ok ⟨.notANumber, 0, c.size⟩⟩

example : DepsSafe trivialDeps :=
  ⟨fun _ _ _ _ => ⟨0, [], rfl, Nat.zero_le _⟩, fun _ _ _ _ => ⟨_, rfl, fun h => absurd rfl h⟩⟩

end Qentem.Props.C05
