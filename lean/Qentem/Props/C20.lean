import Qentem.Proofs.UnicodeEncode
import Qentem.Proofs.UnicodeUnEscape
import Qentem.Generated.Unicode
/-!
C20 — code points encode to standard UTF-8/16/32 and `\u` escapes decode to them.

Every theorem quantifies over all Unicode scalar values (`isScalar cp`: `cp < 0x110000` and not
in D800..DFFF) and is proved symbolically (range split + `omega`), not by enumeration.
-/
namespace Qentem.Props.C20
open Qentem.Unicode

/-! ## Encoders -/

/-- The standard decoder reads back the code point from what `ToUTF<char>` emitted, whatever
follows.  Because `utf8Decode` accepts only the well-formed sequences of Table 3-7, this also
says the output is never overlong, never a surrogate encoding. -/
theorem utf8_decode_encode_append (cp : Nat) (h : isScalar cp) (r : List Nat) :
    utf8Decode (toUTF8 cp ++ r) = (utf8Decode r).map (cp :: ·) := by
  obtain ⟨h1, h2⟩ := h
  rw [toUTF8_arith cp (by omega)]
  split
  · rw [List.singleton_append, utf8Decode_1 _ _ (by omega)]
  split
  · rw [List.cons_append, List.singleton_append, utf8Decode_2 _ _ _ (by omega) (by omega)]
    exact map_cons_congr _ _ (by omega) _
  split
  · rw [List.cons_append, List.cons_append, List.singleton_append,
      utf8Decode_3 _ _ _ _ (by omega) (by split <;> split <;> omega) (by omega)]
    exact map_cons_congr _ _ (by omega) _
  · rw [List.cons_append, List.cons_append, List.cons_append, List.singleton_append,
      utf8Decode_4 _ _ _ _ _ (by omega) (by split <;> split <;> omega) (by omega) (by omega)]
    exact map_cons_congr _ _ (by omega) _

theorem utf8_decode_encode (cp : Nat) (h : isScalar cp) : utf8Decode (toUTF8 cp) = some [cp] := by
  have := utf8_decode_encode_append cp h []
  simpa [utf8Decode] using this

/-- Shortest form: the number of bytes is the one the standard assigns to the range of `cp`. -/
theorem utf8_shortest_form (cp : Nat) :
    (toUTF8 cp).length = if cp < 0x80 then 1 else if cp < 0x800 then 2 else if cp < 0x10000 then 3 else 4 := by
  unfold toUTF8
  split
  · rfl
  split
  · rfl
  split <;> rfl

/-- A whole text: encoding every scalar of `l` and concatenating decodes to `l`. -/
theorem utf8_decode_encode_list (l : List Nat) (h : ∀ cp ∈ l, isScalar cp) :
    utf8Decode (l.flatMap toUTF8) = some l := by
  induction l with
  | nil => simp [utf8Decode]
  | cons a t ih =>
    rw [List.flatMap_cons, utf8_decode_encode_append a (h a (by simp)), ih (fun cp hc => h cp (by simp [hc]))]
    rfl

/-- `ToUTF<char>` agrees with Lean core's own UTF-8 encoder on every `Char` (= every scalar value). -/
theorem toUTF8_eq_core (c : Char) : toUTF8 c.toNat = (String.utf8EncodeChar c).map UInt8.toNat := by
  have hv : c.toNat < 0xd800 ∨ (0xdfff < c.toNat ∧ c.toNat < 0x110000) := c.valid
  rw [toUTF8_arith _ (by omega)]
  unfold String.utf8EncodeChar
  have e : c.val.toNat = c.toNat := rfl
  simp only [e]
  split
  · rw [if_pos (by omega)]; simp; omega
  split
  · rw [if_neg (by omega), if_pos (by omega)]; simp; omega
  split
  · rw [if_neg (by omega), if_neg (by omega), if_pos (by omega)]; simp; omega
  · rw [if_neg (by omega), if_neg (by omega), if_neg (by omega)]; simp; omega

/-- The same for a scalar value given as a number. -/
theorem toUTF8_eq_core_nat (cp : Nat) (h : isScalar cp) :
    toUTF8 cp = (String.utf8EncodeChar (Char.ofNat cp)).map UInt8.toNat := by
  have hv : cp.isValidChar := by unfold Nat.isValidChar; unfold isScalar at h; omega
  rw [← toUTF8_eq_core, char_ofNat_toNat cp hv]

theorem utf16_decode_encode_append (cp : Nat) (h : isScalar cp) (r : List Nat) :
    utf16Decode (toUTF16 cp ++ r) = (utf16Decode r).map (cp :: ·) := by
  obtain ⟨h1, h2⟩ := h
  rw [toUTF16_arith cp h1]
  split
  · rw [List.singleton_append, utf16Decode_1 _ _ (by omega)]
  · rw [List.cons_append, List.singleton_append, utf16Decode_2 _ _ _ (by omega) (by omega)]
    exact map_cons_congr _ _ (by omega) _

theorem utf16_decode_encode (cp : Nat) (h : isScalar cp) : utf16Decode (toUTF16 cp) = some [cp] := by
  have := utf16_decode_encode_append cp h []
  simpa [utf16Decode] using this

/-- One unit for the BMP, two for the supplementary planes. -/
theorem utf16_length (cp : Nat) : (toUTF16 cp).length = if cp < 0x10000 then 1 else 2 := by
  unfold toUTF16; split <;> rfl

theorem utf16_decode_encode_list (l : List Nat) (h : ∀ cp ∈ l, isScalar cp) :
    utf16Decode (l.flatMap toUTF16) = some l := by
  induction l with
  | nil => simp [utf16Decode]
  | cons a t ih =>
    rw [List.flatMap_cons, utf16_decode_encode_append a (h a (by simp)), ih (fun cp hc => h cp (by simp [hc]))]
    rfl

/-- UTF-32: the unit is the code point (for every 32-bit value, scalar or not). -/
theorem utf32_encode (cp : Nat) (h : cp < 2 ^ 32) : toUTF32 cp = [cp] := by
  unfold toUTF32; simp; omega

theorem utf32_decode_encode (cp : Nat) (h : isScalar cp) : utf32Decode (toUTF32 cp) = some [cp] := by
  rw [utf32_encode cp (by unfold isScalar at h; omega)]
  simp [utf32Decode, h]

theorem utf32_decode_encode_list (l : List Nat) (h : ∀ cp ∈ l, isScalar cp) :
    utf32Decode (l.flatMap toUTF32) = some l := by
  induction l with
  | nil => simp [utf32Decode]
  | cons a t ih =>
    have ha := h a (by simp)
    rw [List.flatMap_cons, utf32_encode a (by unfold isScalar at ha; omega)]
    simp [utf32Decode, ha, ih (fun cp hc => h cp (by simp [hc]))]

/-- A whole text in any of the three encodings. -/
theorem toUTF_decode_list (w : Nat) (l : List Nat) (h : ∀ cp ∈ l, isScalar cp) :
    utfDecode w (l.flatMap (toUTF w)) = some l := by
  unfold utfDecode
  split
  · rename_i hw; subst hw
    have : (fun u => toUTF 1 u) = toUTF8 := by funext u; simp [toUTF]
    show utf8Decode (l.flatMap (fun u => toUTF 1 u)) = _
    rw [this]; exact utf8_decode_encode_list l h
  split
  · rename_i hw; subst hw
    have : (fun u => toUTF 2 u) = toUTF16 := by funext u; simp [toUTF]
    show utf16Decode (l.flatMap (fun u => toUTF 2 u)) = _
    rw [this]; exact utf16_decode_encode_list l h
  · rename_i h1 h2
    have : (fun u => toUTF w u) = toUTF32 := by funext u; simp [toUTF, h1, h2]
    show utf32Decode (l.flatMap (fun u => toUTF w u)) = _
    rw [this]; exact utf32_decode_encode_list l h

/-- All three widths at once. -/
theorem toUTF_decode (w : Nat) (cp : Nat) (h : isScalar cp) : utfDecode w (toUTF w cp) = some [cp] := by
  unfold utfDecode toUTF
  split
  · exact utf8_decode_encode cp h
  split
  · exact utf16_decode_encode cp h
  · exact utf32_decode_encode cp h

/-! Non-vacuity: U+1F600, U+20AC, U+00E9 and the boundaries are scalar; their encodings. -/
example : isScalar 0x1F600 ∧ toUTF8 0x1F600 = [0xF0, 0x9F, 0x98, 0x80] ∧ toUTF16 0x1F600 = [0xD83D, 0xDE00] := by decide
example : isScalar 0x20AC ∧ toUTF8 0x20AC = [0xE2, 0x82, 0xAC] ∧ isScalar 0xE9 ∧ toUTF8 0xE9 = [0xC3, 0xA9] := by decide
example : isScalar 0xD7FF ∧ isScalar 0xE000 ∧ isScalar 0x10FFFF ∧ ¬ isScalar 0xD800 ∧ ¬ isScalar 0xDFFF ∧ ¬ isScalar 0x110000 := by decide
/-- The decoders are strict (so the theorems above are not satisfied by a permissive decoder):
overlong, surrogate, out-of-range and truncated sequences are rejected. -/
example : utf8Decode [0xC0, 0x80] = none ∧ utf8Decode [0xE0, 0x80, 0x80] = none ∧ utf8Decode [0xED, 0xA0, 0x80] = none ∧
    utf8Decode [0xF4, 0x90, 0x80, 0x80] = none ∧ utf8Decode [0xE2, 0x82] = none ∧ utf16Decode [0xD800] = none ∧
    utf16Decode [0xDC00, 0xD800] = none := by decide

/-! ## Hex digits and surrogate arithmetic -/

/-- Four hex digits, each in either case (`hexVal?` accepts `0-9`, `A-F`, `a-f`), have the
positional value Σ 16^i·dᵢ under the fold `HexStringToNumber` performs. -/
theorem hex4_value (a b x d va vb vx vd : Nat) (ha : hexVal? a = some va) (hb : hexVal? b = some vb)
    (hx : hexVal? x = some vx) (hd : hexVal? d = some vd) :
    hexFold [a, b, x, d] 0 = va * 4096 + vb * 256 + vx * 16 + vd :=
  hexFold_four a b x d va vb vx vd ha hb hx hd

/-- Writing `v` as four upper-case or four lower-case digits and reading it back gives `v`. -/
theorem hex4_roundtrip (up : Bool) (v : Nat) (h : v < 0x10000) : hexFold (hex4 up v) 0 = v :=
  hexFold_hex4 up v h

/-- The cursor routine (checked reads) on a buffer that holds the four digits at `pre.length`. -/
theorem hexToNumber_hex4 (up : Bool) (v : Nat) (h : v < 0x10000) (pre post : List Nat) :
    hexToNumber (pre ++ hex4 up v ++ post) pre.length = some v := by
  have e : ((pre ++ hex4 up v ++ post).take (pre ++ hex4 up v ++ post).length).drop pre.length =
      hexChar up (v / 4096 % 16) :: hexChar up (v / 256 % 16) :: hexChar up (v / 16 % 16) :: hexChar up (v % 16) :: post := by
    rw [List.take_length]; simp [hex4]
  rw [hexToNumber_eq _ _ _ _ _ _ _ _ e]
  exact congrArg some (hexFold_hex4 up v h)

/-- The 32-bit loop used by `UnEscape` is the width-generic loop at `2^32`. -/
theorem hexLoopW_is_hexLoop (c : List Nat) (n off num : Nat) : hexLoopW 4294967296 c n off num = hexLoop c n off num :=
  hexLoopW_eq_hexLoop c n off num

/-- `HexStringToNumber<Number_T>(value, offset&, end)` for a `Number_T` of `k` bits: on a run of hex
digits (any case mixture) that fits (`16^|ds| ≤ 2^k`) inside a buffer, the result is the positional
value and the cursor ends behind the run. -/
theorem hex_value_any_width (k : Nat) (c ds : List Nat) (off : Nat)
    (hbuf : ∀ i, i < ds.length → c[off + i]? = ds[i]?) (hd : ∀ d ∈ ds, (hexVal? d).isSome) (hfit : 16 ^ ds.length ≤ 2 ^ k) :
    hexLoopW (2 ^ k) c ds.length off 0 = some (hexValue ds 0, off + ds.length) :=
  hexLoopW_value k c ds off 0 hbuf hd (by simpa using hfit)

example : hexLoopW (2 ^ 64) [48, 120, 70, 102, 49, 71] 4 2 0 = some (0xFF1, 5) ∧ hexValue [70, 102, 49] 0 = 0xFF1 := by decide

/-- The combination the routine computes for a pair is the standard one. -/
theorem surrogate_pair (hi lo : Nat) (hh : 0xD800 ≤ hi ∧ hi ≤ 0xDBFF) (hl : 0xDC00 ≤ lo ∧ lo ≤ 0xDFFF) :
    (((((hi ^^^ 0xD800) <<< 10) % 4294967296 + (lo &&& 0x3FF)) % 4294967296) + 0x10000) % 4294967296 =
      0x10000 + (hi - 0xD800) * 0x400 + (lo - 0xDC00) :=
  pair_arith hi lo hh hl

/-- The routine's surrogate test selects exactly D800..DBFF among 16-bit values. -/
theorem high_surrogate_test (x : Nat) (h : x < 0x10000) : x &&& 0xFC00 = 0xD800 ↔ (0xD800 ≤ x ∧ x ≤ 0xDBFF) :=
  isHigh_iff x h

/-! ## UnEscape -/

/-- Memory safety and termination of the cursor model: with `length ≤ |buffer|` no read is out
of range and the fuel `length + 1` is never exhausted. -/
theorem unEscape_never_faults (w : Nat) (c : List Nat) (len : Nat) (st : List Nat) (hlen : len ≤ c.length) :
    unEscapeA w c len st ≠ none := by
  rw [unEscapeA_eq_B w c len st hlen]; simp

/-- The returned count never exceeds the length argument. -/
theorem unEscape_ret_le (w : Nat) (c : List Nat) (len : Nat) (st s : List Nat) (r : Nat)
    (hlen : len ≤ c.length) (h : unEscapeA w c len st = some (s, r)) : r ≤ len :=
  unEscapeA_ret_le w c len st s r hlen h

/-- The cursor model (what the driver runs against the C++) is the suffix recursion. -/
theorem unEscapeA_eq_suffix_model (w : Nat) (c : List Nat) (len : Nat) (st : List Nat) (hlen : len ≤ c.length) :
    unEscapeA w c len st = some (unEscapeB w (c.take len) [] st 0) :=
  unEscapeA_eq_B w c len st hlen

/-- One `\uXXXX` / `\UXXXX` with digits in any mixture of cases, naming a value that is not a
high surrogate, between plain text: the text comes out with the encoded value in its place and
the whole input (closing quote included) is consumed. -/
theorem unescape_u_digits_in_context (w e a b x d va vb vx vd : Nat) (pre post : List Nat)
    (hpre : ∀ c ∈ pre, isPlain c = true) (hpost : ∀ c ∈ post, isPlain c = true) (he : e = 85 ∨ e = 117)
    (ha : hexVal? a = some va) (hb : hexVal? b = some vb) (hx : hexVal? x = some vx) (hd : hexVal? d = some vd)
    (hnh : ¬ (0xD800 ≤ va * 4096 + vb * 256 + vx * 16 + vd ∧ va * 4096 + vb * 256 + vx * 16 + vd ≤ 0xDBFF)) :
    unEscape (pre ++ [92, e, a, b, x, d] ++ post ++ [34]) w =
      some (pre ++ toUTF w (va * 4096 + vb * 256 + vx * 16 + vd) ++ post, pre.length + 6 + post.length + 1) := by
  have hv := hexFold_four a b x d va vb vx vd ha hb hx hd
  have la := hexVal?_lt ha; have lb := hexVal?_lt hb; have lx := hexVal?_lt hx; have ld := hexVal?_lt hd
  have hc : hexFold [a, b, x, d] 0 &&& 0xFC00 ≠ 0xD800 := by
    rw [hv]; intro h; exact hnh ((isHigh_iff _ (by omega)).1 h)
  have := unEscapeB_ctx_u w e a b x d pre post hpre hpost he hc
  rw [unEscape_eq_B]
  simp only [List.append_assoc, List.cons_append, List.nil_append]
  rw [this, hv]
  simp

/-- A surrogate pair, digits in any mixture of cases. -/
theorem unescape_pair_digits_in_context (w e e2 a b x d a2 b2 x2 d2 va vb vx vd va2 vb2 vx2 vd2 : Nat)
    (pre post : List Nat) (hpre : ∀ c ∈ pre, isPlain c = true) (hpost : ∀ c ∈ post, isPlain c = true)
    (he : e = 85 ∨ e = 117)
    (ha : hexVal? a = some va) (hb : hexVal? b = some vb) (hx : hexVal? x = some vx) (hd : hexVal? d = some vd)
    (ha2 : hexVal? a2 = some va2) (hb2 : hexVal? b2 = some vb2) (hx2 : hexVal? x2 = some vx2) (hd2 : hexVal? d2 = some vd2)
    (hh : 0xD800 ≤ va * 4096 + vb * 256 + vx * 16 + vd ∧ va * 4096 + vb * 256 + vx * 16 + vd ≤ 0xDBFF)
    (hl : 0xDC00 ≤ va2 * 4096 + vb2 * 256 + vx2 * 16 + vd2 ∧ va2 * 4096 + vb2 * 256 + vx2 * 16 + vd2 ≤ 0xDFFF) :
    unEscape (pre ++ [92, e, a, b, x, d] ++ [92, e2, a2, b2, x2, d2] ++ post ++ [34]) w =
      some (pre ++ toUTF w (0x10000 + (va * 4096 + vb * 256 + vx * 16 + vd - 0xD800) * 0x400 +
              (va2 * 4096 + vb2 * 256 + vx2 * 16 + vd2 - 0xDC00)) ++ post,
            pre.length + 12 + post.length + 1) := by
  have hv := hexFold_four a b x d va vb vx vd ha hb hx hd
  have hv2 := hexFold_four a2 b2 x2 d2 va2 vb2 vx2 vd2 ha2 hb2 hx2 hd2
  have hc : hexFold [a, b, x, d] 0 &&& 0xFC00 = 0xD800 := by
    rw [hv]; exact (isHigh_iff _ (by omega)).2 hh
  have := unEscapeB_ctx_pair w e a b x d 92 e2 a2 b2 x2 d2 pre post hpre hpost he hc
  rw [unEscape_eq_B]
  simp only [List.append_assoc, List.cons_append, List.nil_append]
  rw [this, hv, hv2, pair_arith _ _ hh hl]
  simp

/-- **`unescape_u_in_context`.** For every scalar value `cp`, written per RFC 8259 §7 as one
escape (BMP) or as its surrogate pair (supplementary planes), with `\u` or `\U`, upper- or
lower-case digits, between any plain text `pre` / `post` and closed by a quote: the routine
returns `pre ++ toUTF w cp ++ post` and consumes the whole input. -/
theorem unescape_u_in_context (w : Nat) (pre post : List Nat) (hpre : ∀ c ∈ pre, isPlain c = true)
    (hpost : ∀ c ∈ post, isPlain c = true) (cp : Nat) (h : isScalar cp) (bigU up : Bool) :
    unEscape (pre ++ jsonEscape bigU up cp ++ post ++ [34]) w =
      some (pre ++ toUTF w cp ++ post, (pre ++ jsonEscape bigU up cp ++ post ++ [34]).length) := by
  obtain ⟨h1, h2⟩ := h
  have hU : (if bigU = true then 85 else 117) = 85 ∨ (if bigU = true then 85 else 117) = 117 := by
    cases bigU <;> simp
  unfold jsonEscape
  split
  · rename_i hb
    have := unescape_u_digits_in_context w (if bigU = true then 85 else 117) _ _ _ _ _ _ _ _ pre post hpre hpost hU
      (hexVal?_hexChar up (cp / 4096 % 16) (by omega)) (hexVal?_hexChar up (cp / 256 % 16) (by omega))
      (hexVal?_hexChar up (cp / 16 % 16) (by omega)) (hexVal?_hexChar up (cp % 16) (by omega)) (by omega)
    have e : cp / 4096 % 16 * 4096 + cp / 256 % 16 * 256 + cp / 16 % 16 * 16 + cp % 16 = cp := by omega
    rw [e] at this
    simp only [uEscape, hex4, List.length_append, List.length_cons, List.length_nil]
    rw [this]
  · rename_i hb
    have := unescape_pair_digits_in_context w (if bigU = true then 85 else 117) (if bigU = true then 85 else 117)
      _ _ _ _ _ _ _ _ _ _ _ _ _ _ _ _ pre post hpre hpost hU
      (hexVal?_hexChar up ((0xD800 + (cp - 0x10000) / 0x400) / 4096 % 16) (by omega))
      (hexVal?_hexChar up ((0xD800 + (cp - 0x10000) / 0x400) / 256 % 16) (by omega))
      (hexVal?_hexChar up ((0xD800 + (cp - 0x10000) / 0x400) / 16 % 16) (by omega))
      (hexVal?_hexChar up ((0xD800 + (cp - 0x10000) / 0x400) % 16) (by omega))
      (hexVal?_hexChar up ((0xDC00 + (cp - 0x10000) % 0x400) / 4096 % 16) (by omega))
      (hexVal?_hexChar up ((0xDC00 + (cp - 0x10000) % 0x400) / 256 % 16) (by omega))
      (hexVal?_hexChar up ((0xDC00 + (cp - 0x10000) % 0x400) / 16 % 16) (by omega))
      (hexVal?_hexChar up ((0xDC00 + (cp - 0x10000) % 0x400) % 16) (by omega))
      (by omega) (by omega)
    have e : 0x10000 + (((0xD800 + (cp - 0x10000) / 0x400) / 4096 % 16 * 4096 + (0xD800 + (cp - 0x10000) / 0x400) / 256 % 16 * 256 +
        (0xD800 + (cp - 0x10000) / 0x400) / 16 % 16 * 16 + (0xD800 + (cp - 0x10000) / 0x400) % 16) - 0xD800) * 0x400 +
        (((0xDC00 + (cp - 0x10000) % 0x400) / 4096 % 16 * 4096 + (0xDC00 + (cp - 0x10000) % 0x400) / 256 % 16 * 256 +
        (0xDC00 + (cp - 0x10000) % 0x400) / 16 % 16 * 16 + (0xDC00 + (cp - 0x10000) % 0x400) % 16) - 0xDC00) = cp := by omega
    rw [e] at this
    simp only [uEscape, hex4, List.length_append, List.length_cons, List.length_nil]
    simp only [List.append_assoc, List.cons_append, List.nil_append] at this ⊢
    rw [this]

/-- …and the standard decoder reads `cp` back from the un-escaped escape itself. -/
theorem unescape_u_decodes (w : Nat) (cp : Nat) (h : isScalar cp) (bigU up : Bool) :
    ∃ out n, unEscape (jsonEscape bigU up cp ++ [34]) w = some (out, n) ∧ utfDecode w out = some [cp] := by
  have := unescape_u_in_context w [] [] (by simp) (by simp) cp h bigU up
  simp only [List.nil_append, List.append_nil] at this
  exact ⟨_, _, this, toUTF_decode w cp h⟩

/-- **Whole strings (as the routine accepts them).** For every sequence of accepted tokens —
plain units, the eight two-character escapes, `\u`/`\U` + four units whose value is not a high
surrogate, or a high surrogate escape + two ignored units + four units — followed by a quote
and anything else: each token is replaced by its output and `|body| + 1` units are consumed.
When no escape occurs the (empty) stream is left empty: the caller uses the input span. -/
theorem unescape_tokens (w : Nat) (ts : List Tok) (h : ∀ t ∈ ts, t.ok = true) (rest : List Nat) :
    unEscape (ts.flatMap Tok.src ++ 34 :: rest) w =
      some (if ts.all Tok.isPlainTok then [] else ts.flatMap (Tok.out w), (ts.flatMap Tok.src).length + 1) := by
  rw [unEscape_eq_B, unEscapeB_string w ts h rest]

/-- The same for a body ended by the length argument. -/
theorem unescape_tokens_eoi (w : Nat) (ts : List Tok) (h : ∀ t ∈ ts, t.ok = true) :
    unEscape (ts.flatMap Tok.src) w =
      some (if ts.all Tok.isPlainTok then [] else ts.flatMap (Tok.out w), (ts.flatMap Tok.src).length) := by
  rw [unEscape_eq_B, unEscapeB_string_eoi w ts h]

/-- **Any text with any number of escapes.** `items` is a text whose elements are plain units or
scalar values to be written as RFC 8259 `\u` escapes (surrogate pairs above U+FFFF; `\u`/`\U`
and the hex case chosen per item).  Un-escaping the written string gives the text with every
escaped scalar replaced by its UTF-`8w` encoding. -/
theorem unescape_text (w : Nat) (items : List Item) (h : ∀ i ∈ items, i.ok) (rest : List Nat) :
    unEscape (items.flatMap Item.src ++ 34 :: rest) w =
      some (if items.all Item.isUnit then [] else items.flatMap (Item.out w), (items.flatMap Item.src).length + 1) := by
  have hok : ∀ t ∈ items.map Item.toTok, t.ok = true := by
    intro t ht
    obtain ⟨i, hi, rfl⟩ := List.mem_map.1 ht
    exact (Item.toTok_ok_out w i (h i hi)).1
  have := unescape_tokens w (items.map Item.toTok) hok rest
  rw [flatMap_toTok_src, flatMap_toTok_out w items h, all_toTok_plain] at this
  exact this

/-- The code point an item stands for. -/
def itemCp : Item → Nat
  | .unit c => c
  | .esc cp _ _ => cp

/-- **End to end.** A text of ASCII plain units and escaped scalar values (at least one escape),
written as a JSON string body, un-escaped by the routine and then read by the standard
decoder of the target width, is the text. -/
theorem unescape_text_decodes (w : Nat) (items : List Item) (rest : List Nat)
    (h : ∀ i ∈ items, match i with | .unit c => isPlain c = true ∧ c < 0x80 | .esc cp _ _ => isScalar cp)
    (hesc : items.all Item.isUnit = false) :
    ∃ out n, unEscape (items.flatMap Item.src ++ 34 :: rest) w = some (out, n) ∧
      utfDecode w out = some (items.map itemCp) := by
  have hok : ∀ i ∈ items, i.ok := by
    intro i hi; have := h i hi
    cases i with
    | unit c => exact this.1
    | esc cp b u => exact this
  refine ⟨_, _, unescape_text w items hok rest, ?_⟩
  rw [hesc]
  have hout : ∀ i ∈ items, Item.out w i = toUTF w (itemCp i) := by
    intro i hi; have := h i hi
    cases i with
    | unit c =>
      obtain ⟨_, hc⟩ := this
      show [c] = toUTF w c
      exact (toUTF_ascii w c hc).symm
    | esc cp b u => rfl
  have hsc : ∀ cp ∈ items.map itemCp, isScalar cp := by
    intro cp hcp
    obtain ⟨i, hi, rfl⟩ := List.mem_map.1 hcp
    have := h i hi
    cases i with
    | unit c => unfold isScalar; simp only [itemCp]; omega
    | esc cp b u => exact this
  have e : items.flatMap (Item.out w) = (items.map itemCp).flatMap (toUTF w) := by
    rw [List.flatMap_map]
    exact flatMap_congr_mem _ _ _ hout
  simp only [Bool.false_eq_true, if_false]
  rw [e]
  exact toUTF_decode_list w _ hsc

example : unEscape ((([Item.unit 97, .esc 0x1F600 false true, .unit 98, .esc 0xE9 true false] : List Item).flatMap Item.src) ++ [34, 120]) 1 =
    some ([97, 0xF0, 0x9F, 0x98, 0x80, 98, 0xC3, 0xA9], 21) := by decide

/-! Non-vacuity and concrete runs of the cursor model (the closed terms are evaluated by the kernel). -/
example : unEscape ([97] ++ jsonEscape false true 0x20AC ++ [98] ++ [34]) 1 = some ([97, 0xE2, 0x82, 0xAC, 98], 9) := by decide
example : jsonEscape false false 0x1F600 = [92, 117, 100, 56, 51, 100, 92, 117, 100, 101, 48, 48] := by decide
example : unEscape (jsonEscape true true 0x1F600 ++ [34]) 2 = some ([0xD83D, 0xDE00], 13) := by decide
example : hexVal? 70 = some 15 ∧ hexVal? 102 = some 15 ∧ hexVal? 57 = some 9 ∧ hexVal? 71 = none := by decide
/-- As coded (lenient, outside the property's domain): a lone low surrogate escape is encoded as
is; a high surrogate that is not followed by six more units is rejected with return value 0. -/
example : unEscape [92, 117, 68, 67, 48, 48, 34] 1 = some ([0xED, 0xB0, 0x80], 7) ∧
    unEscape [92, 117, 68, 56, 48, 48, 34] 1 = some ([], 0) := by decide

/-! ## T1: the constants compiled from the current headers are the ones the model is written with -/
open Qentem.Generated.Unicode in
theorem constants_match :
    [W1.quote, W2.quote, W4.quote, WW.quote] = [34, 34, 34, 34] ∧
    [W1.bslash, W2.bslash, W4.bslash, WW.bslash] = [92, 92, 92, 92] ∧
    [W1.slash, W2.slash, W4.slash, WW.slash] = [47, 47, 47, 47] ∧
    [W1.letters, W2.letters, W4.letters, WW.letters] = List.replicate 4 [98, 116, 110, 102, 114, 117, 85] ∧
    [W1.controls, W2.controls, W4.controls, WW.controls] = List.replicate 4 [8, 9, 10, 12, 13] ∧
    hexRanges = [48, 57, 65, 70, 97, 102, 55, 87] ∧ sizeofSizeT32 = 4 ∧ sizeofWchar = 4 := by decide

end Qentem.Props.C20
