import Qentem.Proofs.UnicodeEncode
import Qentem.Generated.Unicode
/-!
C20 — code points encode to standard UTF-8/16/32 and `\u` escapes decode to them.

Every theorem quantifies over all Unicode scalar values (`isScalar cp`: `cp < 0x110000` and not
in D800..DFFF) and is proved symbolically (range split + `omega`), not by enumeration.
-/
namespace Qentem.Props.C20
open Qentem.Unicode

/-! ## Encoders -/

/-- The standard decoder reads back the code point from what `ToUTF<char>` emitted, whatever
follows.  Because `utf8Decode` accepts only the well-formed sequences of Table 3-7, this also
says the output is never overlong, never a surrogate encoding. -/
theorem utf8_decode_encode_append (cp : Nat) (h : isScalar cp) (r : List Nat) :
    utf8Decode (toUTF8 cp ++ r) = (utf8Decode r).map (cp :: ·) := by
  obtain ⟨h1, h2⟩ := h
  rw [toUTF8_arith cp (by omega)]
  split
  · rw [List.singleton_append, utf8Decode_1 _ _ (by omega)]
  split
  · rw [List.cons_append, List.singleton_append, utf8Decode_2 _ _ _ (by omega) (by omega)]
    exact map_cons_congr _ _ (by omega) _
  split
  · rw [List.cons_append, List.cons_append, List.singleton_append,
      utf8Decode_3 _ _ _ _ (by omega) (by split <;> split <;> omega) (by omega)]
    exact map_cons_congr _ _ (by omega) _
  · rw [List.cons_append, List.cons_append, List.cons_append, List.singleton_append,
      utf8Decode_4 _ _ _ _ _ (by omega) (by split <;> split <;> omega) (by omega) (by omega)]
    exact map_cons_congr _ _ (by omega) _

theorem utf8_decode_encode (cp : Nat) (h : isScalar cp) : utf8Decode (toUTF8 cp) = some [cp] := by
  have := utf8_decode_encode_append cp h []
  simpa [utf8Decode] using this

/-- Shortest form: the number of bytes is the one the standard assigns to the range of `cp`. -/
theorem utf8_shortest_form (cp : Nat) :
    (toUTF8 cp).length = if cp < 0x80 then 1 else if cp < 0x800 then 2 else if cp < 0x10000 then 3 else 4 := by
  unfold toUTF8
  split
  · rfl
  split
  · rfl
  split <;> rfl

/-- A whole text: encoding every scalar of `l` and concatenating decodes to `l`. -/
theorem utf8_decode_encode_list (l : List Nat) (h : ∀ cp ∈ l, isScalar cp) :
    utf8Decode (l.flatMap toUTF8) = some l := by
  induction l with
  | nil => simp [utf8Decode]
  | cons a t ih =>
    rw [List.flatMap_cons, utf8_decode_encode_append a (h a (by simp)), ih (fun cp hc => h cp (by simp [hc]))]
    rfl

/-- `ToUTF<char>` agrees with Lean core's own UTF-8 encoder on every `Char` (= every scalar value). -/
theorem toUTF8_eq_core (c : Char) : toUTF8 c.toNat = (String.utf8EncodeChar c).map UInt8.toNat := by
  have hv : c.toNat < 0xd800 ∨ (0xdfff < c.toNat ∧ c.toNat < 0x110000) := c.valid
  rw [toUTF8_arith _ (by omega)]
  unfold String.utf8EncodeChar
  have e : c.val.toNat = c.toNat := rfl
  simp only [e]
  split
  · rw [if_pos (by omega)]; simp; omega
  split
  · rw [if_neg (by omega), if_pos (by omega)]; simp; omega
  split
  · rw [if_neg (by omega), if_neg (by omega), if_pos (by omega)]; simp; omega
  · rw [if_neg (by omega), if_neg (by omega), if_neg (by omega)]; simp; omega

/-- The same for a scalar value given as a number. -/
theorem toUTF8_eq_core_nat (cp : Nat) (h : isScalar cp) :
    toUTF8 cp = (String.utf8EncodeChar (Char.ofNat cp)).map UInt8.toNat := by
  have hv : cp.isValidChar := by unfold Nat.isValidChar; unfold isScalar at h; omega
  rw [← toUTF8_eq_core, char_ofNat_toNat cp hv]

theorem utf16_decode_encode_append (cp : Nat) (h : isScalar cp) (r : List Nat) :
    utf16Decode (toUTF16 cp ++ r) = (utf16Decode r).map (cp :: ·) := by
  obtain ⟨h1, h2⟩ := h
  rw [toUTF16_arith cp h1]
  split
  · rw [List.singleton_append, utf16Decode_1 _ _ (by omega)]
  · rw [List.cons_append, List.singleton_append, utf16Decode_2 _ _ _ (by omega) (by omega)]
    exact map_cons_congr _ _ (by omega) _

theorem utf16_decode_encode (cp : Nat) (h : isScalar cp) : utf16Decode (toUTF16 cp) = some [cp] := by
  have := utf16_decode_encode_append cp h []
  simpa [utf16Decode] using this

/-- One unit for the BMP, two for the supplementary planes. -/
theorem utf16_length (cp : Nat) : (toUTF16 cp).length = if cp < 0x10000 then 1 else 2 := by
  unfold toUTF16; split <;> rfl

theorem utf16_decode_encode_list (l : List Nat) (h : ∀ cp ∈ l, isScalar cp) :
    utf16Decode (l.flatMap toUTF16) = some l := by
  induction l with
  | nil => simp [utf16Decode]
  | cons a t ih =>
    rw [List.flatMap_cons, utf16_decode_encode_append a (h a (by simp)), ih (fun cp hc => h cp (by simp [hc]))]
    rfl

/-- UTF-32: the unit is the code point (for every 32-bit value, scalar or not). -/
theorem utf32_encode (cp : Nat) (h : cp < 2 ^ 32) : toUTF32 cp = [cp] := by
  unfold toUTF32; simp; omega

theorem utf32_decode_encode (cp : Nat) (h : isScalar cp) : utf32Decode (toUTF32 cp) = some [cp] := by
  rw [utf32_encode cp (by unfold isScalar at h; omega)]
  simp [utf32Decode, h]

/-- All three widths at once. -/
theorem toUTF_decode (w : Nat) (cp : Nat) (h : isScalar cp) : utfDecode w (toUTF w cp) = some [cp] := by
  unfold utfDecode toUTF
  split
  · exact utf8_decode_encode cp h
  split
  · exact utf16_decode_encode cp h
  · exact utf32_decode_encode cp h

/-! Non-vacuity: U+1F600, U+20AC, U+00E9 and the boundaries are scalar; their encodings. -/
example : isScalar 0x1F600 ∧ toUTF8 0x1F600 = [0xF0, 0x9F, 0x98, 0x80] ∧ toUTF16 0x1F600 = [0xD83D, 0xDE00] := by decide
example : isScalar 0x20AC ∧ toUTF8 0x20AC = [0xE2, 0x82, 0xAC] ∧ isScalar 0xE9 ∧ toUTF8 0xE9 = [0xC3, 0xA9] := by decide
example : isScalar 0xD7FF ∧ isScalar 0xE000 ∧ isScalar 0x10FFFF ∧ ¬ isScalar 0xD800 ∧ ¬ isScalar 0xDFFF ∧ ¬ isScalar 0x110000 := by decide
/-- The decoders are strict (so the theorems above are not satisfied by a permissive decoder):
overlong, surrogate, out-of-range and truncated sequences are rejected. -/
example : utf8Decode [0xC0, 0x80] = none ∧ utf8Decode [0xE0, 0x80, 0x80] = none ∧ utf8Decode [0xED, 0xA0, 0x80] = none ∧
    utf8Decode [0xF4, 0x90, 0x80, 0x80] = none ∧ utf8Decode [0xE2, 0x82] = none ∧ utf16Decode [0xD800] = none ∧
    utf16Decode [0xDC00, 0xD800] = none := by decide

/-! ## T1: the constants compiled from the current headers are the ones the model is written with -/
open Qentem.Generated.Unicode in
theorem constants_match :
    [W1.quote, W2.quote, W4.quote, WW.quote] = [34, 34, 34, 34] ∧
    [W1.bslash, W2.bslash, W4.bslash, WW.bslash] = [92, 92, 92, 92] ∧
    [W1.slash, W2.slash, W4.slash, WW.slash] = [47, 47, 47, 47] ∧
    [W1.letters, W2.letters, W4.letters, WW.letters] = List.replicate 4 [98, 116, 110, 102, 114, 117, 85] ∧
    [W1.controls, W2.controls, W4.controls, WW.controls] = List.replicate 4 [8, 9, 10, 12, 13] ∧
    hexRanges = [48, 57, 65, 70, 97, 102, 55, 87] ∧ sizeofSizeT32 = 4 ∧ sizeofWchar = 4 := by decide

end Qentem.Props.C20
