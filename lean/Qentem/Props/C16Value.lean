import Qentem.Model.ValueLedger
import Qentem.Proofs.ValueLedger
import Qentem.Proofs.ValueLedgerOps
import Qentem.Proofs.ValueLedgerEnv
/-!
C16 for Value trees — every block is released exactly once, nothing is released that is not live, net
allocation zero.

`ValueLedger.lifetime n ops` is the allocation trace of a forest of `n` Values: default-constructed, `ops`
applied (every operation of the C12 op set except `GroupBy`: all assignment / append / subscript / Insert /
Merge / Remove / RemoveIndex / Reset / Compress / copy / move / pointer operations, with the caller's
temporaries), then destroyed.  The trace model is tied to the real traces by `checks/_value_ledger.py`
(number of allocations and releases per line; every real trace is judged by `Ledger.run` itself).
-/
namespace Qentem.Props.C16Value
open Qentem.Ledger Qentem.HashLedger Qentem.ValueLedger Qentem.Value

/-! ### the property -/

/-- **Every operation sequence over a forest of `n` Values followed by the destruction of the roots gives a
balanced trace**: no release of a block that is not live (no double free, no free of something never
allocated), no reuse of a live id, nothing left allocated. -/
theorem lifetime_balanced (n : Nat) (ops : List ValueLedger.LOp) : Balanced (lifetime n ops) := by
  have h : Acc (LM.bind (runL ops (List.replicate n .undef)) destroyL) [] (fun _ => []) :=
    Acc.bind ((Acc_runL ops _).permPre (by rw [ownedEnv_replicate_undef])) (fun env => Acc_destroyL env)
  have := h 1 [] [] [] _ (Exec.done (List.Perm.refl _) (Nat.le_refl _))
  unfold ValueLedger.lifetime
  exact balanced_of_exec (by simpa using this)

/-- **After every prefix of operations the live blocks are exactly the blocks the forest owns** (so a forest
that is never destroyed leaks exactly those; a moved-from, reset or merged-from value owns what the model
says; pairwise distinct ids: no block has two owners). -/
theorem prefix_owned (n : Nat) (ops : List ValueLedger.LOp) :
    ∃ h, Ledger.run (runL ops (List.replicate n .undef) 1).2.1 [] = some h ∧
      (h.map Prod.fst).Perm (ownedEnv (runL ops (List.replicate n .undef) 1).1) ∧
      (ownedEnv (runL ops (List.replicate n .undef) 1).1).Nodup := by
  have hacc := (Acc_runL ops (List.replicate n .undef)).permPre (pre' := []) (by rw [ownedEnv_replicate_undef])
  have := hacc 1 [] [] (ownedEnv (runL ops (List.replicate n .undef) 1).1 ++ []) _
    (Exec.done (List.Perm.refl _) (Nat.le_refl _))
  obtain ⟨h, h1, h2, h3, _⟩ := this [] (by simp [hids]) (by simp) (by simp)
  exact ⟨h, by simpa using h1, by simpa [hids] using h2, by simpa using h3⟩

/-! Non-vacuity: a lifetime with vivification, an owned key that is found (released), a table growth, a deep
copy, a moving merge onto an existing key, a removal and a compress. -/
def exOps : List ValueLedger.LOp :=
  [.assign ⟨0, [.key [97] .plain]⟩ (Doc.str [120]) 0,
   .assign ⟨0, [.key [97] .moved]⟩ (Doc.nat 1) 0,
   .assign ⟨0, [.key [98] .constCopy, .idx 2]⟩ (Doc.str []) 1,
   .insert ⟨0, []⟩ [99] (Doc.str [121]),
   .copy ⟨1, []⟩ ⟨0, []⟩,
   .assign ⟨1, [.key [97] .plain]⟩ (Doc.str [122]) 0,
   .mergeMove ⟨0, []⟩ ⟨1, []⟩,
   .remove ⟨0, []⟩ [98] 1,
   .compress ⟨0, []⟩]

example : (ValueLedger.lifetime 4 exOps).length = 46 ∧ Ledger.run (ValueLedger.lifetime 4 exOps) [] = some [] := by decide

end Qentem.Props.C16Value
