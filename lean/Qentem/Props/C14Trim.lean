import Qentem.Model.Seq
/-! C14, trimming (`String::Trim`, `StringUtils::Trim/TrimLeft/TrimRight`): white space is exactly
{space, \t, \n, \r} as code-unit *values* — for every character width, signed or not — and trimming
removes exactly the maximal runs of such units at the two ends. -/
namespace Qentem.Props.C14
open Qentem.Seq

/-- White space is the four units 32, 9, 10, 13 and nothing else (no unit ≥ 0x80, no unit that agrees with
one of them modulo 64, 0x100, 0x10000 or in its low bits only). -/
theorem isWs_iff (c : Nat) : isWs c = true ↔ c = 32 ∨ c = 10 ∨ c = 9 ∨ c = 13 := by
  simp [isWs, or_assoc]

theorem isWs_lt_33 (c : Nat) (h : isWs c = true) : c < 33 := by
  rcases (isWs_iff c).1 h with h | h | h | h <;> omega

theorem drop_length_takeWhile (p : Nat → Bool) (l : List Nat) : l.drop (l.takeWhile p).length = l.dropWhile p := by
  induction l with
  | nil => rfl
  | cons a t ih =>
    simp only [List.takeWhile_cons, List.dropWhile_cons]
    split <;> simp [ih]

theorem mem_takeWhile_true (p : Nat → Bool) : ∀ (l : List Nat) (x : Nat), x ∈ l.takeWhile p → p x = true := by
  intro l
  induction l with
  | nil => intro x hx; simp at hx
  | cons a t ih =>
    intro x hx
    simp only [List.takeWhile_cons] at hx
    split at hx
    · rcases List.mem_cons.1 hx with e | e
      · subst e; assumption
      · exact ih x e
    · simp at hx

theorem head?_dropWhile_false (p : Nat → Bool) : ∀ (l : List Nat) (x : Nat), (l.dropWhile p).head? = some x → p x = false := by
  intro l
  induction l with
  | nil => intro x hx; simp at hx
  | cons a t ih =>
    intro x hx
    simp only [List.dropWhile_cons] at hx
    split at hx
    · exact ih x hx
    · simp only [List.head?_cons, Option.some.injEq] at hx; subst hx; simp_all

theorem head?_of_prefix (a b : List Nat) (x : Nat) (h : a <+: b) (hx : a.head? = some x) : b.head? = some x := by
  obtain ⟨r, rfl⟩ := h
  cases a with
  | nil => simp at hx
  | cons k ks => simpa using hx

theorem length_takeWhile_le' (p : Nat → Bool) (l : List Nat) : (l.takeWhile p).length ≤ l.length :=
  (List.takeWhile_sublist p).length_le

theorem split_reverse (p : Nat → Bool) (l : List Nat) :
    l = (l.reverse.dropWhile p).reverse ++ (l.reverse.takeWhile p).reverse := by
  have h := List.takeWhile_append_dropWhile (p := p) (l := l.reverse)
  have := congrArg List.reverse h
  rw [List.reverse_append, List.reverse_reverse] at this
  exact this.symm

theorem reverse_dropWhile_reverse (p : Nat → Bool) (l : List Nat) :
    (l.reverse.dropWhile p).reverse = l.take (l.length - (l.reverse.takeWhile p).length) := by
  have h2 := split_reverse p l
  have hl : (l.reverse.dropWhile p).reverse.length + (l.reverse.takeWhile p).length = l.length := by
    have := congrArg List.length h2
    simp only [List.length_append, List.length_reverse] at this ⊢
    omega
  have hA : ((l.reverse.dropWhile p).reverse).length = l.length - (l.reverse.takeWhile p).length := by omega
  calc (l.reverse.dropWhile p).reverse
      = ((l.reverse.dropWhile p).reverse ++ (l.reverse.takeWhile p).reverse).take ((l.reverse.dropWhile p).reverse).length :=
        (List.take_left).symm
    _ = l.take ((l.reverse.dropWhile p).reverse).length := by rw [← h2]
    _ = l.take (l.length - (l.reverse.takeWhile p).length) := by rw [hA]

/-- **What trimming keeps**: the text is `a ++ trimList u ++ b` with `a`, `b` made of white space only, and the
kept part neither starts nor ends with white space — so a unit that is not one of the four values is never
removed, wherever it stands. -/
theorem trimList_spec (u : List Nat) :
    ∃ a b, u = a ++ trimList u ++ b ∧ (∀ x ∈ a, isWs x = true) ∧ (∀ x ∈ b, isWs x = true) ∧
      (∀ x, (trimList u).head? = some x → isWs x = false) ∧
      (∀ x, (trimList u).getLast? = some x → isWs x = false) := by
  have h1 : u = u.takeWhile isWs ++ u.dropWhile isWs := (List.takeWhile_append_dropWhile).symm
  have h3 := split_reverse isWs (u.dropWhile isWs)
  refine ⟨u.takeWhile isWs, ((u.dropWhile isWs).reverse.takeWhile isWs).reverse, ?_, ?_, ?_, ?_, ?_⟩
  · show u = u.takeWhile isWs ++ ((u.dropWhile isWs).reverse.dropWhile isWs).reverse ++ _
    rw [List.append_assoc, ← h3]; exact h1
  · intro x hx; exact mem_takeWhile_true isWs _ x hx
  · intro x hx; rw [List.mem_reverse] at hx; exact mem_takeWhile_true isWs _ x hx
  · intro x hx
    have hpre : trimList u <+: u.dropWhile isWs := ⟨_, h3.symm⟩
    exact head?_dropWhile_false isWs u x (head?_of_prefix _ _ x hpre hx)
  · intro x hx
    have hx' : (((u.dropWhile isWs).reverse.dropWhile isWs).reverse).getLast? = some x := hx
    rw [List.getLast?_reverse] at hx'
    exact head?_dropWhile_false isWs _ x hx'

/-- The cursor routine and the list reading agree: `Trim(str, 0, n)` returns exactly the window that
`trimList` keeps. -/
theorem trimOffLen_eq_trimList (u : List Nat) :
    trimList u = (u.drop (trimOffLen u 0 u.length).1).take (trimOffLen u 0 u.length).2 := by
  unfold trimOffLen
  by_cases hn : u.length = 0
  · have : u = [] := List.eq_nil_of_length_eq_zero hn
    subst this; simp [trimList]
  · simp only [hn, ne_eq, not_false_eq_true, if_true, Nat.add_zero]
    unfold trimLeftOff trimRightEnd trimList
    simp only [List.take_length, List.drop_zero, Nat.zero_add]
    rw [drop_length_takeWhile, reverse_dropWhile_reverse]
    have hlen : (u.dropWhile isWs).length = u.length - (u.takeWhile isWs).length := by
      rw [← drop_length_takeWhile]; simp
    have ht : ((u.dropWhile isWs).reverse.takeWhile isWs).length ≤ (u.dropWhile isWs).length := by
      have := length_takeWhile_le' isWs (u.dropWhile isWs).reverse
      simp only [List.length_reverse] at this; exact this
    congr 1
    omega

/-! Tests by evaluation: the units a branch-free "≤ ' ' and bit test modulo 64" classifier gets wrong. -/
example : [0x89, 0x8A, 0x8D, 0xA0, 0xC9, 0xCA, 0xCD, 0xE0, 73, 74, 77, 96, 0x120, 0x10020, 0x80000020].map isWs =
    List.replicate 15 false := by decide
example : trimList [32, 0xA0, 118, 111, 105, 108, 0xC3, 0xA0, 9] = [0xA0, 118, 111, 105, 108, 0xC3, 0xA0] := by decide

end Qentem.Props.C14
