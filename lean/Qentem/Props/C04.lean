import Qentem.Proofs.ExprEval
import Qentem.Proofs.ExprScanWf
import Qentem.Proofs.ExprScanTotal
import Qentem.Proofs.ExprScanPrint
import Qentem.Proofs.ExprArithExact
import Qentem.Generated.Expr
/-!
# C04 — expression evaluation equals exact arithmetic with the documented precedence

Theorems (all kernel-checked, `R` = any real carrier, in particular `Rat` = exact arithmetic):

* `rank_respects_doc` (T1)      the generated `QOperation` values order the documented groups.
* `evaluate_eq_tree`            flat-list evaluation (the C++ recursion, repaired in a8ed3a9) =
                                ordinary recursive evaluation of the precedence tree, for every
                                well-formed list of any length and nesting.
* `evaluate_as_coded_before_fix_differs`  the recursion as it was is not (witness).
* `no_trap`, `no_value_iff`     no operation faults; "no value" exactly for the listed causes.
* `cmp_logic_01`, `truth_is_positive`
* `equality_rule_*`
* `scan_wf`, `scan_then_evaluate`  the scanner returns a well-formed list (or nothing), so the main
                                theorem applies to every expression text inside a tag.
* `scan_print_items`, `scan_print`  scanner ∘ printer = identity on flat lists / = `flatten` on trees,
                                for numeric leaves, all sixteen operators, parentheses at any depth
                                (`ScanPrint` proved for that printer; var/text leaves, signed
                                literals and other spacings: still decided by the correspondence
                                streams).
-/
namespace Qentem.Props.C04
open Qentem.Expr Qentem.Generated.Expr

/-! ### T1 -/

/-- Documentation/Template.md "Evaluation Order": parentheses; exponent, remainder;
multiplication, division; addition, subtraction; bitwise and, or; comparisons; and, or.
`docGroup` is that table (higher = binds tighter). -/
def docGroup : Op → Nat
  | .exp => 6 | .rem => 6
  | .mul => 5 | .div => 5
  | .add => 4 | .sub => 4
  | .bitAnd => 3 | .bitOr => 3
  | .equal => 2 | .notEqual => 2 | .less => 2 | .greater => 2 | .lessOrEqual => 2
  | .greaterOrEqual => 2
  | .and => 1 | .or => 1
  | .noOp => 0 | .error => 7

def allOps : List Op :=
  [.noOp, .or, .and, .equal, .notEqual, .greaterOrEqual, .lessOrEqual, .greater, .less, .bitOr,
   .bitAnd, .add, .sub, .mul, .div, .rem, .exp, .error]

theorem allOps_complete (o : Op) : o ∈ allOps := by cases o <;> decide

/-- A higher documented group has a higher rank in the enum compiled from the current headers;
`NoOp` is the unique minimum (it terminates the loop) and ranks are pairwise distinct.  A
reordered enum breaks this theorem. -/
theorem rank_respects_doc :
    (∀ a ∈ allOps, ∀ b ∈ allOps, docGroup a < docGroup b → a.rank < b.rank) ∧
    (∀ a ∈ allOps, a ≠ .noOp → Op.noOp.rank < a.rank) ∧
    (∀ a ∈ allOps, ∀ b ∈ allOps, a.rank = b.rank → a = b) ∧
    -- two-unit operators are exactly those below `Greater` (the scanner's `oper < Greater` test)
    (∀ a ∈ allOps, a ≠ .noOp → a ≠ .error → ((a.symbol.length = 2) ↔ a.rank < Op.greater.rank)) := by
  decide

/-- inside a documented group the code's order is strict: the later-listed operator binds tighter
(`/` over `*`, `-` over `+`, `^` over `%`, `&` over `|`, `<` `>` over `<=` `>=` over `!=` `==`,
`&&` over `||`).  For `+ -` and `* /` this does not change exact results; for the others it is the
C-like reading. -/
theorem rank_inside_groups :
    Op.rem.rank < Op.exp.rank ∧ Op.mul.rank < Op.div.rank ∧ Op.add.rank < Op.sub.rank ∧
    Op.bitOr.rank < Op.bitAnd.rank ∧ Op.or.rank < Op.and.rank ∧
    Op.equal.rank < Op.notEqual.rank ∧ Op.notEqual.rank < Op.greaterOrEqual.rank ∧
    Op.greaterOrEqual.rank < Op.lessOrEqual.rank ∧ Op.lessOrEqual.rank < Op.greater.rank ∧
    Op.greater.rank < Op.less.rank := by decide

/-- the four character widths use the same operator symbols -/
theorem symbols_width_independent :
    [W2.symRemainder, W2.symMultiple, W2.symDivide, W2.symAdd, W2.symSubtract, W2.symEqual,
     W2.symNot, W2.symLess, W2.symGreater, W2.symAnd, W2.symOr, W2.symParenStart, W2.symParenEnd,
     W2.symBracketStart, W2.symBracketEnd, W2.symExponent, W2.symSpace, W2.digitZero,
     W2.digitNine] =
    [cRem, cMul, cDiv, cAdd, cSub, cEq, cNot, cLess, cGreater, cAnd, cOr, cPOpen, cPClose, cBOpen,
     cBClose, cExp, cSpace, W1.digitZero, W1.digitNine] ∧
    [W4.symRemainder, W4.symMultiple, W4.symDivide, W4.symAdd, W4.symSubtract, W4.symEqual,
     W4.symNot, W4.symLess, W4.symGreater, W4.symAnd, W4.symOr, W4.symParenStart, W4.symParenEnd,
     W4.symBracketStart, W4.symBracketEnd, W4.symExponent, W4.symSpace, W4.digitZero,
     W4.digitNine] =
    [cRem, cMul, cDiv, cAdd, cSub, cEq, cNot, cLess, cGreater, cAnd, cOr, cPOpen, cPClose, cBOpen,
     cBClose, cExp, cSpace, W1.digitZero, W1.digitNine] ∧
    [WW.symRemainder, WW.symMultiple, WW.symDivide, WW.symAdd, WW.symSubtract, WW.symEqual,
     WW.symNot, WW.symLess, WW.symGreater, WW.symAnd, WW.symOr, WW.symParenStart, WW.symParenEnd,
     WW.symBracketStart, WW.symBracketEnd, WW.symExponent, WW.symSpace, WW.digitZero,
     WW.digitNine] =
    [cRem, cMul, cDiv, cAdd, cSub, cEq, cNot, cLess, cGreater, cAnd, cOr, cPOpen, cPClose, cBOpen,
     cBClose, cExp, cSpace, W1.digitZero, W1.digitNine] ∧
    [cRem, cMul, cDiv, cAdd, cSub, cEq, cNot, cLess, cGreater, cAnd, cOr, cPOpen, cPClose, cBOpen,
     cBClose, cExp, cSpace, W1.digitZero, W1.digitNine] =
    [37, 42, 47, 43, 45, 61, 33, 60, 62, 38, 124, 40, 41, 123, 125, 94, 32, 48, 57] := by
  decide

/-! ### Main theorem -/

/-- For every well-formed flat list — any length, any nesting of sub-lists, any variable
environment, any number reader — and every real carrier (`Rat`: exact arithmetic), the value
computed by the `evaluate` recursion over the flat list equals ordinary recursive evaluation of the
precedence tree `climb items`. -/
theorem evaluate_eq_tree {R : Type} [RealLike R] (env : Env R) (items : List (Item R))
    (hwf : wfItems items = true) :
    evaluateTop env true items = evalTop env (climb items) :=
  evaluateTop_eq_tree env items hwf

/-- the same at exact arithmetic, as the property states it -/
theorem evaluate_eq_tree_rat (env : Env Rat) (items : List (Item Rat)) (hwf : wfItems items = true) :
    evaluateTop env true items = evalTop env (climb items) :=
  evaluate_eq_tree env items hwf

def envNone : Env Rat := { content := [], lookup := fun _ => none, readNum := fun _ => none }

def lit (n : Nat) (o : Op) : Item Rat := (.num (.nat n), o)

/-- `10 - 2 * 3 ^ 1 + 4` -/
def witness : List (Item Rat) := [lit 10 .sub, lit 2 .mul, lit 3 .exp, lit 1 .add, lit 4 .noOp]

/-- non-vacuity of `evaluate_eq_tree`: a well-formed list with a three-level descent; value 8 -/
example : wfItems witness = true ∧
    (match evaluateTop envNone true witness with | some (.num (.nat n)) => n | _ => 0) = 8 ∧
    (match evalTop envNone (climb witness) with | some (.num (.nat n)) => n | _ => 0) = 8 := by
  decide

/-- The recursion as it was before a8ed3a9 (no re-check of `previous_oper` after the recursive
branch) is NOT tree evaluation: on `10 - 2 * 3 ^ 1 + 4` it answers 0 (the `+ 4` is absorbed into the
subtrahend), the tree value is 8.  Reproduced on the real code (`{math:10 - 2 * 3 ^ 1 + 4}` rendered
`0`). -/
theorem evaluate_as_coded_before_fix_differs :
    (match evaluateTop envNone false witness with | some (.num (.nat n)) => n | _ => 99) = 0 ∧
    (match evalTop envNone (climb witness) with | some (.num (.nat n)) => n | _ => 99) = 8 := by
  decide

/-! ### No trap, and when there is no value -/

section
variable {R : Type} [RealLike R]

theorem toInt_eq_zero (d : Nat) (h : d < W64) : toInt d = 0 ↔ d = 0 := by
  unfold toInt
  simp only [W64, H64] at *
  split <;> omega

theorem toInt_eq_neg_one (d : Nat) (h : d < W64) : toInt d = -1 ↔ d = W64 - 1 := by
  unfold toInt
  simp only [W64, H64] at *
  split <;> omega

theorem wrap_lt (n : Nat) : wrap n < W64 := by
  unfold wrap; exact Nat.mod_lt _ (by decide)

/-- `case Remainder` in closed form: the checked `idiv` is only reached with a divisor that is
neither 0 nor -1, so it never faults. -/
theorem remChk_spec (l r : Num R) : Num.remChk l r = .ok (
    if wrap r.intBits = 0 then none
    else if wrap r.intBits = W64 - 1 then some (.int 0)
    else some (.int (ofInt (Int.tmod (toInt (wrap l.intBits)) (toInt (wrap r.intBits)))))) := by
  unfold Num.remChk
  simp only []
  by_cases h0 : wrap r.intBits = 0
  · simp [h0]
  · by_cases h1 : wrap r.intBits = W64 - 1
    · simp [h1]
    · have h1' : ¬ wrap r.intBits = 18446744073709551615 := h1
      have hz : toInt (wrap r.intBits) ≠ 0 := fun h => h0 ((toInt_eq_zero _ (wrap_lt _)).1 h)
      have hm : toInt (wrap r.intBits) ≠ -1 := fun h => h1 ((toInt_eq_neg_one _ (wrap_lt _)).1 h)
      simp [h0, h1', sremChk, hz, hm]

theorem applyNumChk_no_fault (op : Op) (l r : Num R) : ∃ x, applyNumChk op l r = .ok x := by
  cases op <;> simp only [applyNumChk] <;> try exact ⟨_, rfl⟩
  exact ⟨_, remChk_spec l r⟩

/-- `no_trap`: every operator application is fault-free — the only trapping machine operation
(signed `%`) is reached only behind the `divisor == 0` / `divisor == -1` guards.  (Totality of the
evaluator itself is Lean totality: `evaluateTop` is a function.) -/
theorem no_trap (env : Env R) (op : Op) (l r : Val R) : ∃ x, applyChk env op l r = .ok x := by
  cases op <;> cases l <;> cases r <;> simp only [applyChk, applyNumChk, remChk_spec] <;>
    exact ⟨_, rfl⟩

/-- the causes of "no value" for an arithmetic/comparison/logic operator on two numbers:
division by zero, remainder by zero, a power whose base or exponent lies strictly between 0 and 1
in magnitude (as coded: "no power of fraction"), or a non-operator. -/
def NoValueCause (op : Op) (l r : Num R) : Prop :=
  (op = .div ∧ r.nonZero = false) ∨ (op = .rem ∧ wrap r.intBits = 0) ∨
  (op = .exp ∧ (l.signMag = none ∨ r.signMag = none)) ∨ op = .noOp ∨ op = .error

theorem exp_none_iff (l r : Num R) : Num.exp l r = none ↔ (l.signMag = none ∨ r.signMag = none) := by
  unfold Num.exp
  cases hl : l.signMag with
  | none => simp
  | some a =>
    obtain ⟨ln, b⟩ := a
    cases hr : r.signMag with
    | none => simp
    | some c =>
      obtain ⟨rn, n⟩ := c
      simp only []
      constructor
      · intro h
        exfalso
        split at h
        · split at h
          · split at h
            · simp at h
            · split at h <;> simp at h
          · simp at h
        · simp at h
      · intro h; rcases h with h | h <;> simp at h

theorem no_value_iff (env : Env R) (op : Op) (l r : Num R) (hne : op.isEq = false) :
    applyOp env op (.num l) (.num r) = none ↔ NoValueCause op l r := by
  cases op with
  | equal => simp [Op.isEq] at hne
  | notEqual => simp [Op.isEq] at hne
  | rem =>
    simp only [applyOp, applyChk, applyNumChk, NoValueCause, remChk_spec]
    by_cases h0 : wrap r.intBits = 0
    · simp [h0]
    · by_cases h1 : wrap r.intBits = W64 - 1
      · simp [h1]
      · have h1' : ¬ wrap r.intBits = 18446744073709551615 := h1
        simp [h0, h1']
  | _ => simp [applyOp, applyChk, NoValueCause, applyNumChk, exp_none_iff]

/-! ### comparisons and logic yield 1 or 0; truth is `> 0` -/

def isCmpLogic : Op → Bool
  | .less | .lessOrEqual | .greater | .greaterOrEqual | .and | .or | .equal | .notEqual => true
  | _ => false

theorem cmp_logic_01 (env : Env R) (op : Op) (l r v : Val R) (hop : isCmpLogic op = true)
    (h : applyOp env op l r = some v) : v = .num (.nat 0) ∨ v = .num (.nat 1) := by
  unfold applyOp applyChk at h
  have hb : ∀ b : Bool, (Val.num (boolNum b) : Val R) = .num (.nat 0) ∨
      (Val.num (boolNum b) : Val R) = .num (.nat 1) := by
    intro b; cases b <;> simp [boolNum]
  cases op <;> simp only [isCmpLogic] at hop <;> try (exact absurd hop (by decide))
  all_goals
    first
    | (cases hi : isEqual env l r <;> simp [hi] at h; subst h; exact hb _)
    | (cases l <;> cases r <;> simp [applyNumChk] at h <;> subst h <;> exact hb _)

/-- `&&` / `||` read each operand as "greater than zero" -/
theorem truth_is_positive (env : Env R) (l r : Num R) :
    applyOp env .and (.num l) (.num r) = some (.num (boolNum (l.positive && r.positive))) ∧
    applyOp env .or (.num l) (.num r) = some (.num (boolNum (l.positive || r.positive))) ∧
    (Num.positive (.nat 1 : Num R) = true) ∧ (Num.positive (.nat 0 : Num R) = false) := by
  refine ⟨rfl, rfl, ?_, ?_⟩ <;> simp [Num.positive]

/-! ### `==` / `!=` -/

/-- textual when neither side is a number: two text literals compare as code-unit strings -/
theorem equality_rule_text (env : Env R) (o1 l1 o2 l2 : Nat) :
    isEqual env (.text o1 l1) (.text o2 l2) =
      some (decide ((env.content.drop o1).take l1 = (env.content.drop o2).take l2)) := by
  simp [isEqual, eqSide]

/-- numeric when either side is a number: the other side is converted (`SetNumber`: numeric
strings are parsed, true = 1, false = null = 0) or there is no value -/
theorem equality_rule_numeric (env : Env R) (a : Num R) (v : VarRef) (x : VarVal R)
    (hx : env.lookup v = some x) :
    isEqual env (.num a) (.var v) = (x.setNumber env).map (fun b => Num.eq' a b) ∧
    isEqual env (.var v) (.num a) = (x.setNumber env).map (fun b => Num.eq' b a) := by
  constructor <;>
  · simp only [isEqual, eqSide, hx]
    cases hn : x.isNumber
    · cases hc : x.chars <;> cases hs : x.setNumber env <;>
        simp [EqSide.forceNumber, hs] <;> cases x <;> simp_all [VarVal.chars, VarVal.setNumber, VarVal.isNumber]
    · cases hs : x.setNumber env <;> simp [EqSide.forceNumber]

/-- a number against a bare text literal has no value (the condition is then not satisfied) -/
theorem equality_rule_number_vs_text (env : Env R) (a : Num R) (o l : Nat) :
    isEqual env (.num a) (.text o l) = none ∧ isEqual env (.text o l) (.num a) = none := by
  constructor <;> simp [isEqual, eqSide, EqSide.forceNumber]

/-- two variables neither of which holds a number compare as text (strings, `true`, `false`,
`null`) -/
theorem equality_rule_vars_textual (env : Env R) (v w : VarRef) (x y : VarVal R) (s u : List Nat)
    (hx : env.lookup v = some x) (hy : env.lookup w = some y)
    (hnx : x.isNumber = false) (hny : y.isNumber = false)
    (hs : x.chars = some s) (hu : y.chars = some u) :
    isEqual env (.var v) (.var w) = some (decide (s = u)) := by
  simp [isEqual, eqSide, hx, hy, hnx, hny, hs, hu]

end

/-! ### The typed integer arithmetic is ordinary arithmetic when nothing overflows

`Num.ival` reads an integer-kind operand as the integer it denotes (`Natural` below 2^63 so that
the signed reading of the union agrees, `Integer` by two's complement).  Real-kind operations are
the field operations of the carrier by definition (`Num.add … = .real (l.toReal + r.toReal)`), so
at `R := Rat` they are exact arithmetic.  `mul_exact` (any integer kinds: the 64-bit product of the
two patterns read signed is the product of the signed readings, `toInt_mul`) and `exp_exact`
(`PowerOf` = power modulo 2^64, `powerOfF_eq`; sign by the parity of the exponent) complete the list
for integer-kind operands; a negative exponent gives the real `1 / p` (carrier arithmetic); `0 ^ 0`
is 0 in the code and excluded from `exp_exact`. -/

section
variable {R : Type} [RealLike R]

def Num.ival : Num R → Option Int
  | .nat a => if a < H64 then some (a : Int) else none
  | .int a => if a < W64 then some (toInt a) else none
  | .real _ => none

theorem add_exact (l r : Num R) (a b : Int) (hl : Num.ival l = some a) (hr : Num.ival r = some b)
    (hlo : -(H64 : Int) ≤ a + b) (hhi : a + b < (H64 : Int)) :
    Num.ival (Num.add l r) = some (a + b) := by
  cases l <;> cases r <;> simp only [Num.ival, Num.add, wrap, toInt, W64, H64] at * <;>
    (repeat' split at hl) <;> (repeat' split at hr) <;> simp_all <;> (try split) <;> omega

theorem toInt_wrap_sub (x y : Nat) (hx : x < W64) (hy : y < W64)
    (hlo : -(H64 : Int) ≤ toInt x - toInt y) (hhi : toInt x - toInt y < (H64 : Int)) :
    wrap (x + W64 - wrap y) < W64 ∧ toInt (wrap (x + W64 - wrap y)) = toInt x - toInt y := by
  have hyw : wrap y = y := Nat.mod_eq_of_lt hy
  rw [hyw]
  by_cases hxy : y ≤ x
  · have hz : wrap (x + W64 - y) = x - y := by
      unfold wrap; simp only [W64] at *; omega
    rw [hz]
    refine ⟨by simp only [W64] at *; omega, ?_⟩
    unfold toInt at *
    simp only [W64, H64] at *
    split at hlo <;> split at hlo <;> split <;> omega
  · have hz : wrap (x + W64 - y) = x + W64 - y := by
      unfold wrap; simp only [W64] at *; omega
    rw [hz]
    refine ⟨by simp only [W64] at *; omega, ?_⟩
    unfold toInt at *
    simp only [W64, H64] at *
    split at hlo <;> split at hlo <;> split <;> omega

theorem sub_exact (l r : Num R) (a b : Int) (hl : Num.ival l = some a) (hr : Num.ival r = some b)
    (hlo : -(H64 : Int) ≤ a - b) (hhi : a - b < (H64 : Int)) :
    Num.ival (Num.sub l r) = some (a - b) := by
  have keyN : ∀ (x : Nat) (v : Int), Num.ival (Num.nat x : Num R) = some v → x < H64 ∧ toInt x = v := by
    intro x v h
    simp only [Num.ival] at h
    split at h
    · rename_i hx; simp at h; subst h; exact ⟨hx, by simp [toInt, hx]⟩
    · simp at h
  have keyI : ∀ (x : Nat) (v : Int), Num.ival (Num.int x : Num R) = some v → x < W64 ∧ toInt x = v := by
    intro x v h
    simp only [Num.ival] at h
    split at h
    · rename_i hx; simp at h; exact ⟨hx, h⟩
    · simp at h
  have mk : ∀ (z : Nat), z < W64 → Num.ival (Num.int z : Num R) = some (toInt z) := by
    intro z hz; simp [Num.ival, hz]
  cases l with
  | real x => simp [Num.ival] at hl
  | nat x =>
    obtain ⟨hx, hxa⟩ := keyN x a hl
    cases r with
    | real y => simp [Num.ival] at hr
    | nat y =>
      obtain ⟨hy, hyb⟩ := keyN y b hr
      subst hxa hyb
      obtain ⟨h1, h2⟩ := toInt_wrap_sub x y (by simp only [W64, H64] at *; omega) (by simp only [W64, H64] at *; omega) hlo hhi
      simp only [Num.sub]
      split
      · rw [mk _ h1, h2]
      · rename_i hge
        -- x ≥ y: the result is a Natural below 2^63
        have hyw : wrap y = y := Nat.mod_eq_of_lt (by simp only [W64, H64] at *; omega)
        have hz : wrap (x + W64 - wrap y) = x - y := by
          rw [hyw]; unfold wrap; simp only [W64, H64] at *; omega
        rw [hz]
        have : x - y < H64 := by simp only [H64] at *; omega
        simp only [Num.ival, this, if_true]
        simp only [toInt, hx, hy, if_true]
        congr 1; omega
    | int y =>
      obtain ⟨hy, hyb⟩ := keyI y b hr
      subst hxa hyb
      obtain ⟨h1, h2⟩ := toInt_wrap_sub x y (by simp only [W64, H64] at *; omega) hy hlo hhi
      simp only [Num.sub]; rw [mk _ h1, h2]
  | int x =>
    obtain ⟨hx, hxa⟩ := keyI x a hl
    cases r with
    | real y => simp [Num.ival] at hr
    | nat y =>
      obtain ⟨hy, hyb⟩ := keyN y b hr
      subst hxa hyb
      obtain ⟨h1, h2⟩ := toInt_wrap_sub x y hx (by simp only [W64, H64] at *; omega) hlo hhi
      simp only [Num.sub]; rw [mk _ h1, h2]
    | int y =>
      obtain ⟨hy, hyb⟩ := keyI y b hr
      subst hxa hyb
      obtain ⟨h1, h2⟩ := toInt_wrap_sub x y hx hy hlo hhi
      simp only [Num.sub]; rw [mk _ h1, h2]

/-- product of two Naturals below 2^63 -/
theorem mul_exact_nat (x y : Nat) (h : x * y < H64) :
    Num.ival (Num.mul (Num.nat x : Num R) (Num.nat y)) = some ((x : Int) * (y : Int)) := by
  have hw : wrap (x * y) = x * y := Nat.mod_eq_of_lt (by simp only [W64, H64] at *; omega)
  simp only [Num.mul, hw, Num.ival, h, if_true]
  simp

theorem cmp_exact (l r : Num R) (a b : Int) (hl : Num.ival l = some a) (hr : Num.ival r = some b) :
    Num.lt' l r = decide (a < b) ∧ Num.le' l r = decide (a ≤ b) ∧ Num.gt' l r = decide (b < a) ∧
    Num.ge' l r = decide (b ≤ a) ∧ Num.eq' l r = decide (a = b) := by
  have key : ∀ (n : Num R) (v : Int), Num.ival n = some v → n.isReal = false ∧ toInt n.intBits = v := by
    intro n v h
    cases n with
    | real x => simp [Num.ival] at h
    | nat x =>
      simp only [Num.ival] at h
      split at h
      · rename_i hx
        simp at h; subst h
        exact ⟨rfl, by simp [Num.intBits, toInt, hx]⟩
      · simp at h
    | int x =>
      simp only [Num.ival] at h
      split at h <;> simp at h
      exact ⟨rfl, h⟩
  obtain ⟨hl1, hl2⟩ := key l a hl
  obtain ⟨hr1, hr2⟩ := key r b hr
  cases l <;> cases r <;> simp [Num.isReal] at hl1 hr1 <;>
    simp [Num.lt', Num.le', Num.gt', Num.ge', Num.eq', Num.cmp, hl2, hr2]

theorem ival_nat (x : Nat) (v : Int) (h : Num.ival (Num.nat x : Num R) = some v) : x < H64 ∧ (x : Int) = v ∧ toInt x = v := by
  simp only [Num.ival] at h
  split at h
  · rename_i hx; simp at h; subst h; exact ⟨hx, rfl, by simp [toInt, hx]⟩
  · simp at h

theorem ival_int (x : Nat) (v : Int) (h : Num.ival (Num.int x : Num R) = some v) : x < W64 ∧ toInt x = v := by
  simp only [Num.ival] at h
  split at h
  · rename_i hx; simp at h; exact ⟨hx, h⟩
  · simp at h

/-- multiplication of integer-kind operands is integer multiplication when the product fits -/
theorem mul_exact (l r : Num R) (a b : Int) (hl : Num.ival l = some a) (hr : Num.ival r = some b)
    (hlo : -(H64 : Int) ≤ a * b) (hhi : a * b < (H64 : Int)) :
    Num.ival (Num.mul l r) = some (a * b) := by
  have mk : ∀ (z : Nat), z < W64 → Num.ival (Num.int z : Num R) = some (toInt z) := by
    intro z hz; simp [Num.ival, hz]
  have hHW : H64 < W64 := by simp [H64, W64]
  cases l with
  | real x => simp [Num.ival] at hl
  | nat x =>
    obtain ⟨hx, hxa, hxt⟩ := ival_nat x a hl
    cases r with
    | real y => simp [Num.ival] at hr
    | nat y =>
      obtain ⟨hy, hyb, _⟩ := ival_nat y b hr
      subst hxa hyb
      have hxy : x * y < H64 := by
        have : ((x * y : Nat) : Int) < (H64 : Int) := by rw [Int.natCast_mul]; exact hhi
        exact Int.ofNat_lt.mp this
      exact mul_exact_nat x y hxy
    | int y =>
      obtain ⟨hy, hyb⟩ := ival_int y b hr
      subst hxt hyb
      obtain ⟨h1, h2⟩ := toInt_mul x y (by omega) hy hlo hhi
      simp only [Num.mul]; rw [mk _ h1, h2]
  | int x =>
    obtain ⟨hx, hxa⟩ := ival_int x a hl
    cases r with
    | real y => simp [Num.ival] at hr
    | nat y =>
      obtain ⟨hy, _, hyt⟩ := ival_nat y b hr
      subst hxa hyt
      obtain ⟨h1, h2⟩ := toInt_mul x y hx (by omega) hlo hhi
      simp only [Num.mul]; rw [mk _ h1, h2]
    | int y =>
      obtain ⟨hy, hyb⟩ := ival_int y b hr
      subst hxa hyb
      obtain ⟨h1, h2⟩ := toInt_mul x y hx hy hlo hhi
      simp only [Num.mul]; rw [mk _ h1, h2]

/-- sign and magnitude of an integer-kind operand -/
theorem signMag_ival (n : Num R) (a : Int) (h : Num.ival n = some a) :
    Num.signMag n = some (decide (a < 0), a.natAbs) ∧ a.natAbs < W64 := by
  cases n with
  | real x => simp [Num.ival] at h
  | nat x =>
    obtain ⟨hx, hxa, _⟩ := ival_nat x a h
    subst hxa
    simp only [Num.signMag, Int.natAbs_natCast]
    exact ⟨by simp, by simp only [H64, W64] at *; omega⟩
  | int x =>
    obtain ⟨hx, hxa⟩ := ival_int x a h
    subst hxa
    simp only [Num.signMag]
    unfold toInt
    by_cases hlt : x < H64
    · simp only [hlt, if_true]
      have : ¬ ((x : Int) < 0) := by omega
      simp only [this, if_false, decide_false, Int.natAbs_natCast]
      exact ⟨trivial, hx⟩
    · simp only [hlt, if_false]
      have hneg : (x : Int) - (W64 : Int) < 0 := by simp only [W64] at *; omega
      simp only [hneg, if_true, decide_true]
      have hw : wrap x = x := Nat.mod_eq_of_lt hx
      have hn : negBits x = W64 - x := by
        unfold negBits; rw [hw]; exact Nat.mod_eq_of_lt (by simp only [W64, H64] at *; omega)
      have habs : ((x : Int) - (W64 : Int)).natAbs = W64 - x := by simp only [W64, H64] at *; omega
      rw [hn, habs]
      exact ⟨rfl, by simp only [W64, H64] at *; omega⟩

/-- `^` with integer-kind operands and a non-negative exponent is the integer power when the
magnitude fits 63 bits; `0 ^ 0` is excluded (the code gives 0) -/
theorem exp_exact (l r : Num R) (a b : Int) (hl : Num.ival l = some a) (hr : Num.ival r = some b)
    (hb : 0 ≤ b) (hne : a ≠ 0 ∨ b ≠ 0) (hfit : a.natAbs ^ b.toNat < H64) :
    ∃ v, Num.exp l r = some v ∧ Num.ival v = some (a ^ b.toNat) := by
  obtain ⟨hsl, hla⟩ := signMag_ival l a hl
  obtain ⟨hsr, hrb⟩ := signMag_ival r b hr
  have hbn : b.natAbs = b.toNat := by omega
  have hbneg : decide (b < 0) = false := by simp; omega
  rw [hbn, hbneg] at hsr
  rw [hbn] at hrb
  simp only [Num.exp, hsl, hsr]
  by_cases hbase : a.natAbs = 0
  · have ha0 : a = 0 := by omega
    have hb0 : b.toNat ≠ 0 := by
      rcases hne with h | h
      · exact absurd ha0 h
      · omega
    simp only [hbase, ne_eq, not_true_eq_false, if_false]
    refine ⟨_, rfl, ?_⟩
    subst ha0
    obtain ⟨k, hk⟩ : ∃ k, b.toNat = k + 1 := ⟨b.toNat - 1, by omega⟩
    simp [Num.ival, H64, hk, Int.pow_succ]
  · simp only [ne_eq, hbase, not_false_eq_true, if_true]
    by_cases hn0 : b.toNat = 0
    · simp only [hn0, not_true_eq_false, if_false]
      exact ⟨_, rfl, by simp [Num.ival, H64]⟩
    · simp only [hn0, not_false_eq_true, if_true, Bool.false_eq_true, if_false]
      have hp : powerOf a.natAbs b.toNat = a.natAbs ^ b.toNat :=
        powerOf_eq _ _ hla (by omega) hrb (by simp only [H64, W64] at *; omega)
      rw [hp]
      have hpos : 0 < a.natAbs ^ b.toNat := Nat.pow_pos (by omega)
      have hcast : ((a.natAbs ^ b.toNat : Nat) : Int) = (a.natAbs : Int) ^ b.toNat := Int.natCast_pow _ _
      by_cases hodd : (decide (a < 0) && decide (b.toNat % 2 = 1)) = true
      · simp only [hodd, if_true]
        obtain ⟨h1, h2⟩ := toInt_negBits _ hpos hfit
        refine ⟨_, rfl, ?_⟩
        simp only [Num.ival, h1, if_true, h2, hcast]
        simp only [Bool.and_eq_true, decide_eq_true_eq] at hodd
        have : a = -(a.natAbs : Int) := by omega
        rw [this, neg_pow_int, if_pos hodd.2]
        simp
      · simp only [hodd, Bool.false_eq_true, if_false]
        refine ⟨_, rfl, ?_⟩
        simp only [Num.ival, hfit, if_true, hcast]
        simp only [Bool.and_eq_true, decide_eq_true_eq, not_and] at hodd
        by_cases hneg : a < 0
        · have : a = -(a.natAbs : Int) := by omega
          rw [this, neg_pow_int, if_neg (hodd hneg)]
          simp
        · have : a = (a.natAbs : Int) := by omega
          rw [this]; simp

end

/-! ### From text to value: the scanner's output satisfies the hypothesis of the main theorem -/

/-- `scan_wf`: inside a tag (`endO < length`) the scanner performs no out-of-range read and returns
either nothing or a well-formed flat list (with the `last_oper == NoOp` test of 72d4ed6). -/
theorem scan_wf {R : Type} (cfg : ScanCfg R) (c : List Nat) (off endO : Nat) (he : endO < c.length) :
    Safe (parseTop cfg c off endO) (fun items => items = [] ∨ wfItems items = true) :=
  parseTop_wf cfg c off endO he

/-- End to end for every expression text inside a tag: whatever the scanner returns is evaluated by
the flat-list recursion to the value of its precedence tree. -/
theorem scan_then_evaluate {R : Type} [RealLike R] (cfg : ScanCfg R) (env : Env R) (c : List Nat)
    (off endO : Nat) (he : endO < c.length) :
    Safe (parseTop cfg c off endO)
      (fun items => items = [] ∨ evaluateTop env true items = evalTop env (climb items)) := by
  apply Safe.mono (parseTop_wf cfg c off endO he)
  intro items h
  rcases h with h | h
  · exact Or.inl h
  · exact Or.inr (evaluate_eq_tree env items h)

/-- the scanner model is total on every expression text inside a tag: it returns a list (possibly
empty = "not an expression"), never a failed read, never exhausted fuel. -/
theorem scan_total {R : Type} (cfg : ScanCfg R) (c : List Nat) (off endO : Nat) (he : endO < c.length) :
    ∃ items, parseTop cfg c off endO = .ok items :=
  parseTop_total cfg c off endO he

/-- hence, unconditionally: the scanner's list evaluates to the value of its precedence tree -/
theorem scan_then_evaluate_total {R : Type} [RealLike R] (cfg : ScanCfg R) (env : Env R) (c : List Nat)
    (off endO : Nat) (he : endO < c.length) :
    ∃ items, parseTop cfg c off endO = .ok items ∧
      (items = [] ∨ evaluateTop env true items = evalTop env (climb items)) := by
  obtain ⟨items, h⟩ := parseTop_total cfg c off endO he
  have := scan_then_evaluate cfg env c off endO he
  rw [h] at this
  exact ⟨items, h, this⟩

/-! ### Scanner ∘ printer -/

/-- `ScanPrint`, general form kept as a statement: scanning the printed form of a tree gives its
flat list, for a printer with arbitrary spacing and all leaf kinds.  `scan_print` below proves it
for the canonical printer over numeric leaves; the correspondence streams run the C++ scanner, the
model scanner and the generator's own structure against each other for the rest. -/
def ScanPrint {R : Type} (cfg : ScanCfg R) (printer : Tree R → List Nat) (sameItems : List (Item R) → List (Item R) → Prop) : Prop :=
  ∀ t : Tree R, ∃ items, parseTop cfg (printer t) 0 (printer t).length = .ok items ∧
    sameItems items (flatten t)

/-- scanner ∘ printer = identity on flat lists.  `printItems lit`: the operands in order, one space,
the operator's spelling, one space between them, `(`…`)` around sub-lists, literals written by `lit`.
Class `pokItems Pn`: every leaf is a number `n` with `Pn n` whose printed literal is read back by
the number reader, consists of units the operator scan steps over and ends in a digit (`LitOk`:
unsigned decimal literals); between two operands stands one of the sixteen binary operators; the
last operand carries `NoOp`; no list (top or nested) is a single parenthesised group (`lonePar`:
the scanner unwraps `((e))` and a lone `(e)` — observation in notes/design-expr.md).  For every such
list, every terminator unit after the text: `parseTop` returns exactly the list. -/
theorem scan_print_items {R : Type} (cfg : ScanCfg R) (lit : Num R → List Nat) (Pn : Num R → Prop)
    (hlit : ∀ n, Pn n → LitOk cfg.readNum (lit n) n) (items : List (Item R)) (hp : pokItems Pn items)
    (hl : ¬ lonePar items) (t : Nat) :
    parseTop cfg (printItems lit items ++ [t]) 0 (printItems lit items).length = .ok items :=
  scan_printItems cfg lit Pn hlit items hp hl t

/-- `ScanPrint` for trees: the printed in-order text of a tree (numeric leaves, binary operators,
parenthesis nodes that do not directly contain another parenthesis node, the tree itself not a
parenthesis node) scans to `flatten t`; with `evaluate_eq_tree` the value of the scanned list is the
tree value of `climb (flatten t)`. -/
theorem scan_print {R : Type} (cfg : ScanCfg R) (lit : Num R → List Nat) (Pn : Num R → Prop)
    (hlit : ∀ n, Pn n → LitOk cfg.readNum (lit n) n) (t : Tree R) (ht : t.pok Pn) (hnp : ∀ t', t ≠ .paren t')
    (term : Nat) :
    parseTop cfg (printItems lit (flatten t) ++ [term]) 0 (printItems lit (flatten t)).length = .ok (flatten t) :=
  scan_print_tree cfg lit Pn hlit t ht hnp term

/-- non-vacuity: `1 + (2 * 3)` with a reader for the three literals -/
def rd123 {R : Type} : List Nat → Option (Num R) := fun s =>
  if s = [49] then some (.nat 1) else if s = [50] then some (.nat 2) else if s = [51] then some (.nat 3) else none
def lit123 {R : Type} : Num R → List Nat
  | .nat 1 => [49] | .nat 2 => [50] | .nat 3 => [51] | _ => [48]
def P123 {R : Type} : Num R → Prop := fun n => n = .nat 1 ∨ n = .nat 2 ∨ n = .nat 3
theorem lit123_ok {R : Type} : ∀ n : Num R, P123 n → LitOk rd123 (lit123 n) n := by
  intro n hn
  rcases hn with h | h | h <;> subst h
  · exact ⟨by simp [lit123], by intro x hx; simp [lit123] at hx; subst hx; exact ⟨rfl, rfl, by decide⟩,
      by intro x hx; simp [lit123] at hx; subst hx; decide, rfl⟩
  · exact ⟨by simp [lit123], by intro x hx; simp [lit123] at hx; subst hx; exact ⟨rfl, rfl, by decide⟩,
      by intro x hx; simp [lit123] at hx; subst hx; decide, rfl⟩
  · exact ⟨by simp [lit123], by intro x hx; simp [lit123] at hx; subst hx; exact ⟨rfl, rfl, by decide⟩,
      by intro x hx; simp [lit123] at hx; subst hx; decide, rfl⟩
example {R : Type} :
    let t : Tree R := .bin .add (.leaf (.num (.nat 1))) (.paren (.bin .mul (.leaf (.num (.nat 2))) (.leaf (.num (.nat 3)))))
    t.pok P123 ∧ (∀ t', t ≠ .paren t') ∧ printItems lit123 (flatten t) = [49, 32, 43, 32, 40, 50, 32, 42, 32, 51, 41] := by
  refine ⟨?_, ?_, ?_⟩
  · simp only [Tree.pok, P123, isBinOp]
    simp
  · intro t' h; cases h
  · simp [flatten, flattenGo, printItems, Operand.print, lit123, Op.symbol]; decide

end Qentem.Props.C04
