import Qentem.Proofs.OrderValue
import Qentem.Proofs.Sort
import Qentem.Generated.Order
/-!
C15 — comparisons form a consistent order; every Sort returns an ordered permutation.

Strings are `List Nat` (every code-unit width at once); values are `JVal`; `Memory::Sort` is
`Qentem.Sort.sortSeg`.  Theorems without `_partial` are the full claim for their domain.
Since 73c896c (pointer operands dereferenced on both sides) duality and transitivity of the value
operators hold for every value; trichotomy and the `<=`-chain form of "sorted" fail only for a NaN
real: those full statements are kept as `def … : Prop`, refuted on the NaN witness, and proved
under the single hypothesis `noNaN` (`…_partial`).
-/
namespace Qentem.Props.C15
open Qentem.Order Qentem.Sort

/-! ## Strings: `IsLess` / `IsGreater` / `IsEqual`, `String` and `StringView` operators -/

/-- Exactly one of `a < b`, `a == b`, `a > b`; `<=`, `>=` are the unions (the predicate the S3
    oracle evaluates on the C++ results). -/
theorem str_consistent (a b : List Nat) : (obsStr a b).consistent = true := by
  have t := Str.tri a b
  simp only [Obs.consistent, obsStr, Str.le_eq, Str.ge_eq, Bool.and_eq_true, beq_self_eq_true,
    and_true]
  exact t

/-- The same, spelled out. -/
theorem str_trichotomy (a b : List Nat) :
    (Str.lt a b = true ∧ Str.eq a b = false ∧ Str.gt a b = false) ∨
    (Str.lt a b = false ∧ Str.eq a b = true ∧ Str.gt a b = false) ∨
    (Str.lt a b = false ∧ Str.eq a b = false ∧ Str.gt a b = true) := by
  have t := Str.tri a b
  revert t
  cases Str.lt a b <;> cases Str.eq a b <;> cases Str.gt a b <;> simp

theorem str_lt_gt_dual (a b : List Nat) : Str.gt b a = Str.lt a b := Str.gt_eq_lt_swap b a
theorem str_le_ge_dual (a b : List Nat) : Str.ge b a = Str.le a b := Str.ge_eq_le_swap b a

theorem str_dual (a b : List Nat) : (obsStr a b).dual (obsStr b a) = true := by
  simp [Obs.dual, obsStr, Str.gt_eq_lt_swap, Str.ge_eq_le_swap, Str.eq_comm a b]

theorem str_le_iff (a b : List Nat) : Str.le a b = (Str.lt a b || Str.eq a b) := Str.le_eq a b
theorem str_ge_iff (a b : List Nat) : Str.ge a b = (Str.gt a b || Str.eq a b) := Str.ge_eq a b
theorem str_ne_iff (a b : List Nat) : Str.ne a b = !Str.eq a b := rfl

/-- `operator==` is equality of the unit sequences (and `IsEqual` is called in range). -/
theorem str_eq_iff_eq (a b : List Nat) : Str.eq a b = true ↔ a = b := by
  rw [str_eq_iff]; simp

theorem str_lt_trans (a b c : List Nat) :
    Str.lt a b = true → Str.lt b c = true → Str.lt a c = true := Str.lt_trans a b c

/-- All transitivity instances the oracle checks (`<`, `==`, mixed, `<=`). -/
theorem str_trans (a b c : List Nat) : Obs.trans (obsStr a b) (obsStr b c) (obsStr a c) = true := by
  simp only [Obs.trans, obsStr, Str.le_eq, str_eq_iff]
  by_cases h1 : a = b
  · subst h1
    by_cases h2 : a = c
    · subst h2; simp [Str.lt_irrefl]
    · simp [h2, Str.lt_irrefl]
  · by_cases h2 : b = c
    · subst h2; simp [h1, Str.lt_irrefl]
    · simp only [h1, h2, decide_false, Bool.or_false, Bool.false_and, Bool.and_false, Bool.not_false,
        Bool.true_or, Bool.and_true]
      cases hab : Str.lt a b <;> cases hbc : Str.lt b c <;> simp
      simp [Str.lt_trans a b c hab hbc]

/-- Lexicographic by code unit: the first differing unit decides, a proper prefix is smaller. -/
theorem str_lt_iff_lex (a b : List Nat) :
    Str.lt a b = true ↔
      (∃ p x y ra rb, a = p ++ x :: ra ∧ b = p ++ y :: rb ∧ x < y) ∨ (∃ c r, b = a ++ c :: r) := by
  rw [Str.lt_eq_lex]; exact lexLt_iff a b

theorem str_prefix_lt (a : List Nat) (c : Nat) (r : List Nat) : Str.lt a (a ++ c :: r) = true :=
  (str_lt_iff_lex a _).mpr (Or.inr ⟨c, r, rfl⟩)

/-- The cursor routines the driver runs are the list recursions and never read out of range. -/
theorem str_cursor_model (l r : Array Nat) (e : Bool) :
    isLessA l r l.size r.size e 0 = some (isLess l.toList r.toList e) ∧
    isGreaterA l r l.size r.size e 0 = some (isGreater l.toList r.toList e) ∧
    (l.size = r.size → isEqualA l r l.size 0 = some (decide (l.toList = r.toList))) :=
  ⟨isLessA_zero l r e, isGreaterA_zero l r e, isEqualA_zero l r⟩

/-! ## Values -/

/-- Every operator compares the pointed-to values, whichever side the pointers are on. -/
theorem val_compare_targets (a b : JVal) : obsVal a b = obsVal (strip a) (strip b) := by
  rw [obsVal_base a b, obsVal_base (strip a) (strip b), strip_strip, strip_strip]

/-- `<=` is `<` or `==`, `>=` is `>` or `==` — for every pair, pointers and NaN included. -/
theorem val_le_iff (a b : JVal) : Val.le a b = (Val.lt a b || Val.eq a b) := by
  rw [val_le_base, val_lt_base, val_eq_base]; exact base_le_eq _ _
theorem val_ge_iff (a b : JVal) : Val.ge a b = (Val.gt a b || Val.eq a b) := by
  rw [val_ge_base, val_gt_base, val_eq_base]; exact base_ge_eq _ _

theorem val_gt_eq_lt_swap (a b : JVal) : Val.gt a b = Val.lt b a := by
  rw [val_gt_base, val_lt_base]; exact base_gt_eq_lt_swap _ _

theorem val_eq_comm (a b : JVal) : Val.eq a b = Val.eq b a := by
  rw [val_eq_base, val_eq_base]; exact base_eq_comm _ _

/-- Duality, for every pair of values (no hypothesis). -/
theorem val_dual (a b : JVal) : (obsVal a b).dual (obsVal b a) = true := by
  simp [Obs.dual, obsVal, val_le_iff, val_ge_iff, val_gt_eq_lt_swap a b, val_gt_eq_lt_swap b a,
    val_eq_comm a b]

theorem val_lt_trans (a b c : JVal) :
    Val.lt a b = true → Val.lt b c = true → Val.lt a c = true := by
  rw [val_lt_base, val_lt_base, val_lt_base]; exact base_lt_trans _ _ _

theorem val_lt_irrefl (a : JVal) : Val.lt a a = false := by
  rw [val_lt_base]; exact base_lt_irrefl _

/-- All transitivity instances the oracle checks (`<`, `==`, mixed, `<=`), for every triple. -/
theorem val_trans (a b c : JVal) : Obs.trans (obsVal a b) (obsVal b c) (obsVal a c) = true := by
  rw [obsVal_base a b, obsVal_base b c, obsVal_base a c]
  exact base_trans _ _ _

/-- Full claim for values: every pair is consistent (exactly one of `<`, `==`, `>`; unions). -/
def ValueTrichotomy : Prop := ∀ a b : JVal, (obsVal a b).consistent = true

/-- False for a NaN real: none of `<`, `==`, `>` holds (IEEE comparisons used directly). -/
theorem value_nan_not_consistent : (obsVal (.real none) (.real none)).consistent = false := by decide

theorem value_trichotomy_false : ¬ ValueTrichotomy := by
  intro h
  have := h (.real none) (.real none)
  rw [value_nan_not_consistent] at this; cases this

/-- Exactly one of `<`, `==`, `>` and the unions, for every NaN-free pair. -/
theorem val_consistent_partial (a b : JVal) (ha : noNaN a = true) (hb : noNaN b = true) :
    (obsVal a b).consistent = true := by
  have t := base_tri (strip a) (strip b) (depth_strip a) (depth_strip b)
    (by rw [noNaN_strip]; exact ha) (by rw [noNaN_strip]; exact hb)
  rw [obsVal_base]
  simp only [Obs.consistent, base_le_eq, base_ge_eq, Bool.and_eq_true, beq_self_eq_true, and_true]
  exact t

/-- `==` means the pointed-to values agree in everything the comparisons read (kind, container
    size, string, number); conversely for NaN-free values. -/
theorem val_eq_imp (a b : JVal) (h : Val.eq a b = true) : strip a = strip b := by
  rw [val_eq_base] at h; exact base_eq_true_imp_eq _ _ h

theorem val_eq_iff_partial (a b : JVal) (hn : noNaN a = true) :
    Val.eq a b = true ↔ strip a = strip b := by
  constructor
  · exact val_eq_imp a b
  · intro e
    have t := val_consistent_partial a a hn hn
    have hl : Val.lt a a = false := val_lt_irrefl a
    have hg : Val.gt a a = false := by rw [val_gt_eq_lt_swap]; exact hl
    have hself : Val.eq a a = true := by
      simp only [Obs.consistent, obsVal, hl, hg] at t
      revert t; cases Val.eq a a <;> simp
    rw [val_eq_base] at hself ⊢
    rw [← e]; exact hself

/-- Numbers of one kind compare by magnitude, containers by size, kinds by `ValueType` rank. -/
theorem val_lt_same_kind :
    (∀ a b : Nat, Val.lt (.nat a) (.nat b) = decide (a < b)) ∧
    (∀ a b : Int, Val.lt (.int a) (.int b) = decide (a < b)) ∧
    (∀ a b : Int, Val.lt (.real (some a)) (.real (some b)) = decide (a < b)) ∧
    (∀ a b : Nat, Val.lt (.obj a) (.obj b) = decide (a < b)) ∧
    (∀ a b : Nat, Val.lt (.arr a) (.arr b) = decide (a < b)) ∧
    (∀ a b : List Nat, Val.lt (.str a) (.str b) = Str.lt a b) := by
  simp [val_lt_base, strip, Base.lt, realLt]

theorem val_lt_cross_kind (a b : JVal) (h : rank (strip a) ≠ rank (strip b)) :
    Val.lt a b = decide (rank (strip a) < rank (strip b)) := by
  rw [val_lt_base]
  have da := depth_strip a
  have db := depth_strip b
  revert h da db
  generalize strip a = x
  generalize strip b = y
  intro h da db
  cases x <;> cases y <;> simp_all [depth, Base.lt, rank]

/-! ### T1: the kind ranks are the numeric values of `enum ValueType` in the current headers -/
open Qentem.Generated.Order in
theorem value_type_ranks :
    valueTypeRanks = [rank .undefined, rank (.ptr .undefined), rank (.obj 0), rank (.arr 0),
      rank (.str []), rank (.nat 0), rank (.int 0), rank (.real none), rank .tru, rank .fls,
      rank .null] := by decide

/-! ## Sort -/

/-- `Memory::Sort` with any comparison that is asymmetric and transitive on the elements present
    (every strict weak order is): with fuel = length it terminates without an out-of-range
    access, and returns a permutation of the input in which no later element goes before an
    earlier one.  `before` is `<` for ascending and `>` for descending. -/
theorem sort_ordered_permutation {α : Type} (before : α → α → Bool) (P : α → Prop)
    (hord : StrictOn P before) (arr : Array α) (hP : ∀ x, x ∈ arr → P x) :
    ∃ out, sortSeg before arr.size arr 0 arr.size = some out ∧
      out.toList.Perm arr.toList ∧ out.toList.Pairwise (fun x y => before y x = false) :=
  sortSeg_full before P hord arr hP

/-- The same for a comparison given as irreflexive + transitive on all elements (a strict weak
    order is that plus transitivity of incomparability, which Sort does not need). -/
theorem sort_strict_weak_order {α : Type} (lt : α → α → Bool) (hirr : ∀ x, lt x x = false)
    (htr : ∀ x y z, lt x y = true → lt y z = true → lt x z = true) (arr : Array α) :
    ∃ out, sortSeg lt arr.size arr 0 arr.size = some out ∧
      out.toList.Perm arr.toList ∧ out.toList.Pairwise (fun x y => lt y x = false) :=
  sortSeg_full lt (fun _ => True)
    (StrictOn.of_irrefl_trans (fun x _ => hirr x) (fun x y z _ _ _ => htr x y z)) arr (fun _ _ => trivial)

/-- Any segment `[s, e)`: only positions inside the segment move, and the segment is ordered. -/
theorem sort_segment {α : Type} (before : α → α → Bool) (P : α → Prop) (hord : StrictOn P before)
    (arr : Array α) (s e : Nat) (hse : s ≤ e) (he : e ≤ arr.size)
    (hP : ∀ k x, s ≤ k → k < e → arr[k]? = some x → P x) :
    ∃ out, sortSeg before (e - s) arr s e = some out ∧ SwapsIn s e arr out ∧ SortedSeg before out s e :=
  sortSeg_spec before P hord (e - s) arr s e hse he (Nat.le_refl _) hP

theorem str_lt_strict : StrictOn (fun _ : List Nat => True) Str.lt where
  asymm := by
    intro x y _ _ h
    have t := Str.tri x y
    rw [Str.gt_eq_lt_swap] at t
    revert t; rw [h]; cases Str.lt y x <;> simp
  trans := fun x y z _ _ _ => Str.lt_trans x y z

theorem str_gt_strict : StrictOn (fun _ : List Nat => True) Str.gt where
  asymm := by
    intro x y _ _ h
    rw [Str.gt_eq_lt_swap] at h ⊢
    exact str_lt_strict.asymm y x trivial trivial h
  trans := by
    intro x y z _ _ _ h1 h2
    rw [Str.gt_eq_lt_swap] at h1 h2 ⊢
    exact Str.lt_trans z y x h2 h1

/-- `Array<String>::Sort` / the keys of `HArray::Sort`, ascending: an ordered permutation,
    consecutive keys related by `<=`. -/
theorem string_sort_ascending (arr : Array (List Nat)) :
    ∃ out, arraySort Str.lt Str.gt true arr = some out ∧ out.toList.Perm arr.toList ∧
      out.toList.Pairwise (fun x y => Str.le x y = true) := by
  obtain ⟨out, h1, h2, h3⟩ := sortSeg_full Str.lt _ str_lt_strict arr (fun _ _ => trivial)
  refine ⟨out, by simpa [arraySort] using h1, h2, h3.imp ?_⟩
  intro x y h
  have t := Str.tri x y
  rw [Str.gt_eq_lt_swap, h] at t
  rw [Str.le_eq]
  revert t; cases Str.lt x y <;> cases Str.eq x y <;> simp

theorem string_sort_descending (arr : Array (List Nat)) :
    ∃ out, arraySort Str.lt Str.gt false arr = some out ∧ out.toList.Perm arr.toList ∧
      out.toList.Pairwise (fun x y => Str.ge x y = true) := by
  obtain ⟨out, h1, h2, h3⟩ := sortSeg_full Str.gt _ str_gt_strict arr (fun _ _ => trivial)
  refine ⟨out, by simpa [arraySort] using h1, h2, h3.imp ?_⟩
  intro x y h
  have t := Str.tri x y
  rw [Str.gt_eq_lt_swap] at h
  rw [h] at t
  rw [Str.ge_eq]
  revert t; cases Str.gt x y <;> cases Str.eq x y <;> simp

/-- `HArray::Sort` / `Value::Sort` on an object (slots `(key, value, live)`, removed slots carry the
    empty key): the slots are permuted as whole records, the keys end up ordered, and the association
    denoted by the live slots answers every lookup as before.  (The rebuilt hash chains themselves
    are C13's `generateHash`; on the real code every key is looked up after every Sort.) -/
theorem object_sort_lookup (ascend : Bool) (slots : Array Slot3)
    (hnd : (liveAssoc slots.toList).Pairwise (fun a b => a.1 ≠ b.1)) :
    ∃ out, arraySort (fun (x y : Slot3) => Str.lt x.1 y.1) (fun x y => Str.gt x.1 y.1) ascend slots = some out ∧
      out.toList.Perm slots.toList ∧
      out.toList.Pairwise (fun x y => (if ascend then Str.le x.1 y.1 else Str.ge x.1 y.1) = true) ∧
      ∀ k, lookupLive k out.toList = lookupLive k slots.toList := by
  cases ascend with
  | true =>
    obtain ⟨out, h1, h2, h3⟩ := sortSeg_full (fun (x y : Slot3) => Str.lt x.1 y.1) _
      (str_lt_strict.comap (fun s : Slot3 => s.1)) slots (fun _ _ => trivial)
    refine ⟨out, by simpa [arraySort] using h1, h2, h3.imp ?_, ?_⟩
    · intro x y h
      have t := Str.tri x.1 y.1
      rw [Str.gt_eq_lt_swap, h] at t
      simp only [if_true]
      rw [Str.le_eq]
      revert t; cases Str.lt x.1 y.1 <;> cases Str.eq x.1 y.1 <;> simp
    · intro k
      exact (perm_lookup (liveAssoc_perm h2.symm) hnd k).symm
  | false =>
    obtain ⟨out, h1, h2, h3⟩ := sortSeg_full (fun (x y : Slot3) => Str.gt x.1 y.1) _
      (str_gt_strict.comap (fun s : Slot3 => s.1)) slots (fun _ _ => trivial)
    refine ⟨out, by simpa [arraySort] using h1, h2, h3.imp ?_, ?_⟩
    · intro x y h
      have t := Str.tri x.1 y.1
      rw [Str.gt_eq_lt_swap] at h
      rw [h] at t
      simp only [Bool.false_eq_true, if_false]
      rw [Str.ge_eq]
      revert t; cases Str.gt x.1 y.1 <;> cases Str.eq x.1 y.1 <;> simp
    · intro k
      exact (perm_lookup (liveAssoc_perm h2.symm) hnd k).symm

theorem val_lt_strict : StrictOn (fun _ : JVal => True) Val.lt :=
  StrictOn.of_irrefl_trans (fun x _ => val_lt_irrefl x) (fun x y z _ _ _ => val_lt_trans x y z)

theorem val_gt_strict : StrictOn (fun _ : JVal => True) Val.gt where
  asymm := by
    intro x y _ _ h
    rw [val_gt_eq_lt_swap] at h ⊢
    exact val_lt_strict.asymm y x trivial trivial h
  trans := by
    intro x y z _ _ _ h1 h2
    rw [val_gt_eq_lt_swap] at h1 h2 ⊢
    exact val_lt_trans z y x h2 h1

/-- `Array<Value>::Sort(ascend)` / `Value::Sort` on an array — for **every** array of values
    (pointers, NaN included): a permutation in which no later element is `<` (`>` when
    descending) an earlier one. -/
theorem value_sort (arr : Array JVal) (ascend : Bool) :
    ∃ out, arraySort Val.lt Val.gt ascend arr = some out ∧ out.toList.Perm arr.toList ∧
      out.toList.Pairwise (fun x y => (if ascend then Val.lt y x else Val.gt y x) = false) := by
  cases ascend with
  | true =>
    obtain ⟨out, h1, h2, h3⟩ := sortSeg_full Val.lt _ val_lt_strict arr (fun _ _ => trivial)
    exact ⟨out, by simpa [arraySort] using h1, h2, by simpa using h3⟩
  | false =>
    obtain ⟨out, h1, h2, h3⟩ := sortSeg_full Val.gt _ val_gt_strict arr (fun _ _ => trivial)
    exact ⟨out, by simpa [arraySort] using h1, h2, by simpa using h3⟩

/-- Full claim in its `<=`-chain form: every earlier element `<=` every later one. -/
def ValueSortChain : Prop :=
  ∀ arr : Array JVal, ∃ out, arraySort Val.lt Val.gt true arr = some out ∧
    out.toList.Perm arr.toList ∧ out.toList.Pairwise (fun x y => Val.le x y = true)

/-- False with a NaN in the array (`NaN <= x` is false for every x). -/
theorem value_sort_chain_false : ¬ ValueSortChain := by
  intro h
  obtain ⟨out, h1, _, h3⟩ := h #[.real none, .real (some 0)]
  have : out = #[.real none, .real (some 0)] := by
    have e : arraySort Val.lt Val.gt true #[JVal.real none, JVal.real (some 0)] =
        some #[.real none, .real (some 0)] := by decide
    rw [e] at h1; exact (Option.some.inj h1).symm
  subst this
  revert h3; decide

/-- Without NaN the result is a `<=` chain (`>=` when descending). -/
theorem value_sort_chain_partial (arr : Array JVal) (hn : ∀ x, x ∈ arr → noNaN x = true) (ascend : Bool) :
    ∃ out, arraySort Val.lt Val.gt ascend arr = some out ∧ out.toList.Perm arr.toList ∧
      out.toList.Pairwise (fun x y => (if ascend then Val.le x y else Val.ge x y) = true) := by
  obtain ⟨out, h1, h2, h3⟩ := value_sort arr ascend
  refine ⟨out, h1, h2, ?_⟩
  have hmem : ∀ x, x ∈ out.toList → noNaN x = true := by
    intro x hx
    have : x ∈ arr := by
      have := h2.mem_iff.mp hx
      simpa using this
    exact hn x this
  refine (List.Pairwise.and_mem.mp h3).imp ?_
  intro x y ⟨hx, hy, h⟩
  have t := val_consistent_partial x y (hmem x hx) (hmem y hy)
  simp only [Obs.consistent, obsVal, val_le_iff, val_ge_iff, Bool.and_eq_true, beq_self_eq_true, and_true] at t
  cases ascend with
  | true =>
    simp only [if_true] at h ⊢
    rw [val_gt_eq_lt_swap x y, h] at t
    rw [val_le_iff]
    revert t; cases Val.lt x y <;> cases Val.eq x y <;> simp
  | false =>
    simp only [Bool.false_eq_true, if_false] at h ⊢
    rw [val_gt_eq_lt_swap y x] at h
    rw [h] at t
    rw [val_ge_iff]
    revert t; cases Val.gt x y <;> cases Val.eq x y <;> simp

/-! ### The executable predicates the S3 oracle evaluates on C++ results are the stated notions -/

theorem oracle_permutation_sound {α : Type} [BEq α] [LawfulBEq α] (out inp : List α) :
    isPermOf out inp = true ↔ out.Perm inp := isPermOf_iff out inp

theorem oracle_ordered_sound {α : Type} (before : α → α → Bool) (l : List α) :
    tableOrdered (pairsTable before l) = true ↔ l.Pairwise (fun x y => before y x = false) := by
  rw [tableOrdered_pairsTable]; exact orderedBy_iff before l

theorem oracle_chain_sound {α : Type} (le : α → α → Bool) (l : List α) :
    tableChain (chainTable le l) = true ↔ l.Pairwise (fun x y => le x y = true) :=
  tableChain_chainTable le l

/-! Non-vacuity of the hypotheses, on concrete non-trivial instances. -/
example : noNaN (.ptr (.real (some 3))) = true ∧ noNaN (.str [1]) = true := by decide
example : obsVal (.ptr (.str [115])) (.obj 0) = obsVal (.str [115]) (.obj 0) ∧
    Val.gt (.obj 0) (.ptr (.str [115])) = false ∧ Val.lt (.obj 0) (.ptr (.str [115])) = true := by decide
example : ∀ x, x ∈ #[JVal.str [98], .ptr (.nat 3), .null] → noNaN x = true := by
  intro x hx; simp at hx; rcases hx with h | h | h <;> subst h <;> rfl
example : arraySort Val.lt Val.gt true #[JVal.str [98], .nat 3, .null, .str [97], .str [98, 1]] =
    some #[.str [97], .str [98], .str [98, 1], .nat 3, .null] := by decide
example : arraySort Str.lt Str.gt false #[[98], [], [97, 98], [97]] = some #[[98], [97, 98], [97], []] := by decide
example : (liveAssoc [([98], 1, true), ([], 0, false), ([97], 2, true)]).Pairwise (fun a b => a.1 ≠ b.1) := by decide
example : Str.lt [97, 98] [97, 98, 99] = true ∧ Str.gt [97, 98] [97, 98, 99] = false := by decide

end Qentem.Props.C15
