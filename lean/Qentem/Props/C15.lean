import Qentem.Proofs.OrderValue
import Qentem.Proofs.Sort
import Qentem.Generated.Order
/-!
C15 — comparisons form a consistent order; every Sort returns an ordered permutation.

Strings are `List Nat` (every code-unit width at once); values are `JVal`; `Memory::Sort` is
`Qentem.Sort.sortSeg`.  Theorems without `_partial` are the full claim for their domain.
The value laws are false on the current code for two operand classes (a pointer operand facing a
shallower pointer nesting on the other side; a NaN real): the full statements are kept as
`def … : Prop`, refuted on witnesses, and proved under the explicit hypothesis (`…_partial`).
-/
namespace Qentem.Props.C15
open Qentem.Order Qentem.Sort

/-! ## Strings: `IsLess` / `IsGreater` / `IsEqual`, `String` and `StringView` operators -/

/-- Exactly one of `a < b`, `a == b`, `a > b`; `<=`, `>=` are the unions (the predicate the S3
    oracle evaluates on the C++ results). -/
theorem str_consistent (a b : List Nat) : (obsStr a b).consistent = true := by
  have t := Str.tri a b
  simp only [Obs.consistent, obsStr, Str.le_eq, Str.ge_eq, Bool.and_eq_true, beq_self_eq_true,
    and_true]
  exact t

/-- The same, spelled out. -/
theorem str_trichotomy (a b : List Nat) :
    (Str.lt a b = true ∧ Str.eq a b = false ∧ Str.gt a b = false) ∨
    (Str.lt a b = false ∧ Str.eq a b = true ∧ Str.gt a b = false) ∨
    (Str.lt a b = false ∧ Str.eq a b = false ∧ Str.gt a b = true) := by
  have t := Str.tri a b
  revert t
  cases Str.lt a b <;> cases Str.eq a b <;> cases Str.gt a b <;> simp

theorem str_lt_gt_dual (a b : List Nat) : Str.gt b a = Str.lt a b := Str.gt_eq_lt_swap b a
theorem str_le_ge_dual (a b : List Nat) : Str.ge b a = Str.le a b := Str.ge_eq_le_swap b a

theorem str_dual (a b : List Nat) : (obsStr a b).dual (obsStr b a) = true := by
  simp [Obs.dual, obsStr, Str.gt_eq_lt_swap, Str.ge_eq_le_swap, Str.eq_comm a b]

theorem str_le_iff (a b : List Nat) : Str.le a b = (Str.lt a b || Str.eq a b) := Str.le_eq a b
theorem str_ge_iff (a b : List Nat) : Str.ge a b = (Str.gt a b || Str.eq a b) := Str.ge_eq a b
theorem str_ne_iff (a b : List Nat) : Str.ne a b = !Str.eq a b := rfl

/-- `operator==` is equality of the unit sequences (and `IsEqual` is called in range). -/
theorem str_eq_iff_eq (a b : List Nat) : Str.eq a b = true ↔ a = b := by
  rw [str_eq_iff]; simp

theorem str_lt_trans (a b c : List Nat) :
    Str.lt a b = true → Str.lt b c = true → Str.lt a c = true := Str.lt_trans a b c

/-- All transitivity instances the oracle checks (`<`, `==`, mixed, `<=`). -/
theorem str_trans (a b c : List Nat) : Obs.trans (obsStr a b) (obsStr b c) (obsStr a c) = true := by
  simp only [Obs.trans, obsStr, Str.le_eq, str_eq_iff]
  by_cases h1 : a = b
  · subst h1
    by_cases h2 : a = c
    · subst h2; simp [Str.lt_irrefl]
    · simp [h2, Str.lt_irrefl]
  · by_cases h2 : b = c
    · subst h2; simp [h1, Str.lt_irrefl]
    · simp only [h1, h2, decide_false, Bool.or_false, Bool.false_and, Bool.and_false, Bool.not_false,
        Bool.true_or, Bool.and_true]
      cases hab : Str.lt a b <;> cases hbc : Str.lt b c <;> simp
      simp [Str.lt_trans a b c hab hbc]

/-- Lexicographic by code unit: the first differing unit decides, a proper prefix is smaller. -/
theorem str_lt_iff_lex (a b : List Nat) :
    Str.lt a b = true ↔
      (∃ p x y ra rb, a = p ++ x :: ra ∧ b = p ++ y :: rb ∧ x < y) ∨ (∃ c r, b = a ++ c :: r) := by
  rw [Str.lt_eq_lex]; exact lexLt_iff a b

theorem str_prefix_lt (a : List Nat) (c : Nat) (r : List Nat) : Str.lt a (a ++ c :: r) = true :=
  (str_lt_iff_lex a _).mpr (Or.inr ⟨c, r, rfl⟩)

/-- The cursor routines the driver runs are the list recursions and never read out of range. -/
theorem str_cursor_model (l r : Array Nat) (e : Bool) :
    isLessA l r l.size r.size e 0 = some (isLess l.toList r.toList e) ∧
    isGreaterA l r l.size r.size e 0 = some (isGreater l.toList r.toList e) ∧
    (l.size = r.size → isEqualA l r l.size 0 = some (decide (l.toList = r.toList))) :=
  ⟨isLessA_zero l r e, isGreaterA_zero l r e, isEqualA_zero l r⟩

/-! ## Values -/

/-- Full claim for values: every pair is consistent and dual, every triple transitive. -/
def ValueOrderLaws : Prop :=
  ∀ a b c : JVal, (obsVal a b).consistent = true ∧ (obsVal a b).dual (obsVal b a) = true ∧
    Obs.trans (obsVal a b) (obsVal b c) (obsVal a c) = true

/-- False on the current code: `p = ptr→"s"`, `o = {}` give `p > o` and `o > p`
    (only the left operand is dereferenced, Value.hpp:681-685, 728-732). -/
theorem value_order_laws_false : ¬ ValueOrderLaws := by
  intro h
  have := (h (.ptr (.str [115])) (.obj 0) .null).2.1
  revert this; decide

/-- False as well for a NaN real: none of `<`, `==`, `>` holds. -/
theorem value_nan_not_consistent : (obsVal (.real none) (.real none)).consistent = false := by decide

/-- The exact shape of the defect: when the right operand has more pointer layers than the left,
    `a < b` only asks whether `a` (dereferenced) is `Undefined` — the right operand's target is never
    looked at. -/
theorem val_lt_pointer_right (a b : JVal) (h : depth a < depth b) :
    Val.lt a b = (strip a == JVal.undefined) := val_lt_shallow_left a b h

/-- Conversely, with at least as many layers on the left, `<` compares the pointed-to values. -/
theorem val_lt_pointer_left (a b : JVal) (h : depth b ≤ depth a) :
    Val.lt a b = Val.lt (strip a) (strip b) := val_lt_strip a b h

/-- `<=` is `<` or `==`, `>=` is `>` or `==` — for every pair, pointers and NaN included. -/
theorem val_le_iff (a b : JVal) : Val.le a b = (Val.lt a b || Val.eq a b) := val_le_eq a b
theorem val_ge_iff (a b : JVal) : Val.ge a b = (Val.gt a b || Val.eq a b) := val_ge_eq a b

/-- Exactly one of `<`, `==`, `>` and the unions, for every NaN-free pair (pointers included). -/
theorem val_consistent_partial (a b : JVal) (ha : noNaN a = true) (hb : noNaN b = true) :
    (obsVal a b).consistent = true := by
  have t := val_tri a b ha hb
  simp only [Obs.consistent, obsVal, val_le_eq, val_ge_eq, Bool.and_eq_true, beq_self_eq_true, and_true]
  exact t

theorem val_gt_eq_lt_swap (a b : JVal) (h : depth a = depth b) : Val.gt a b = Val.lt b a := by
  rw [val_gt_strip a b (by omega), val_lt_strip b a (by omega)]
  exact val_gt_eq_lt_swap0 _ _ (depth_strip a) (depth_strip b)

theorem val_eq_comm (a b : JVal) (h : depth a = depth b) : Val.eq a b = Val.eq b a := by
  rw [val_eq_strip a b (by omega), val_eq_strip b a (by omega)]
  exact val_eq_comm0 _ _ (depth_strip a) (depth_strip b)

/-- Duality for operands with the same pointer nesting (in particular: no pointer operands). -/
theorem val_dual_partial (a b : JVal) (h : depth a = depth b) :
    (obsVal a b).dual (obsVal b a) = true := by
  simp [Obs.dual, obsVal, val_le_eq, val_ge_eq, val_gt_eq_lt_swap a b h, val_gt_eq_lt_swap b a h.symm,
    val_eq_comm a b h]

theorem val_lt_trans_partial (a b c : JVal) (h1 : depth a = depth b) (h2 : depth b = depth c) :
    Val.lt a b = true → Val.lt b c = true → Val.lt a c = true := by
  rw [val_lt_strip a b (by omega), val_lt_strip b c (by omega), val_lt_strip a c (by omega)]
  exact val_lt_trans0 _ _ _ (depth_strip a) (depth_strip b) (depth_strip c)

/-- All transitivity instances the oracle checks, for one pointer nesting. -/
theorem val_trans_partial (a b c : JVal) (h1 : depth a = depth b) (h2 : depth b = depth c) :
    Obs.trans (obsVal a b) (obsVal b c) (obsVal a c) = true := by
  rw [obsVal_strip a b h1, obsVal_strip b c h2, obsVal_strip a c (by omega)]
  exact val_trans0 _ _ _ (depth_strip a) (depth_strip b) (depth_strip c)

/-- `==` between values of one pointer nesting means the pointed-to values agree in everything the
    comparisons read (kind, container size, string, number). -/
theorem val_eq_iff_partial (a b : JVal) (h : depth a = depth b) (hn : noNaN a = true) :
    Val.eq a b = true ↔ strip a = strip b := by
  rw [val_eq_strip a b (by omega)]
  constructor
  · exact val_eq_true_imp_eq0 _ _ (depth_strip a) (depth_strip b)
  · intro e
    rw [← e]
    have t := val_tri (strip a) (strip a) (by rw [noNaN_strip]; exact hn) (by rw [noNaN_strip]; exact hn)
    rw [val_gt_eq_lt_swap0 _ _ (depth_strip a) (depth_strip a), val_lt_irrefl0 _ (depth_strip a)] at t
    simpa using t

/-! ### The proposed repair restores the full claim (for NaN-free values) -/

theorem fixed_consistent (a b : JVal) (ha : noNaN a = true) (hb : noNaN b = true) :
    (obsValFixed a b).consistent = true :=
  val_consistent_partial _ _ (by rw [noNaN_strip]; exact ha) (by rw [noNaN_strip]; exact hb)

theorem fixed_dual (a b : JVal) : (obsValFixed a b).dual (obsValFixed b a) = true :=
  val_dual_partial _ _ (by rw [depth_strip, depth_strip])

theorem fixed_trans (a b c : JVal) :
    Obs.trans (obsValFixed a b) (obsValFixed b c) (obsValFixed a c) = true :=
  val_trans0 _ _ _ (depth_strip a) (depth_strip b) (depth_strip c)

theorem fixed_agrees_on_equal_nesting (a b : JVal) (h : depth a = depth b) :
    obsValFixed a b = obsVal a b := (obsVal_strip a b h).symm

theorem val_lt_irrefl (a : JVal) : Val.lt a a = false := by
  rw [val_lt_strip a a (Nat.le_refl _)]; exact val_lt_irrefl0 _ (depth_strip a)

/-- Numbers of one kind compare by magnitude, containers by size, kinds by `ValueType` rank. -/
theorem val_lt_same_kind :
    (∀ a b : Nat, Val.lt (.nat a) (.nat b) = decide (a < b)) ∧
    (∀ a b : Int, Val.lt (.int a) (.int b) = decide (a < b)) ∧
    (∀ a b : Int, Val.lt (.real (some a)) (.real (some b)) = decide (a < b)) ∧
    (∀ a b : Nat, Val.lt (.obj a) (.obj b) = decide (a < b)) ∧
    (∀ a b : Nat, Val.lt (.arr a) (.arr b) = decide (a < b)) ∧
    (∀ a b : List Nat, Val.lt (.str a) (.str b) = Str.lt a b) := by
  simp [Val.lt, realLt]

theorem val_lt_cross_kind (a b : JVal) (ha : depth a = 0) (hb : depth b = 0) (h : rank a ≠ rank b) :
    Val.lt a b = decide (rank a < rank b) := by
  cases a <;> cases b <;> simp_all [depth, Val.lt, rank]

/-! ### T1: the kind ranks are the numeric values of `enum ValueType` in the current headers -/
open Qentem.Generated.Order in
theorem value_type_ranks :
    valueTypeRanks = [rank .undefined, rank (.ptr .undefined), rank (.obj 0), rank (.arr 0),
      rank (.str []), rank (.nat 0), rank (.int 0), rank (.real none), rank .tru, rank .fls,
      rank .null] := by decide

/-! ## Sort -/

/-- `Memory::Sort` with any comparison that is asymmetric and transitive on the elements present
    (every strict weak order is): with fuel = length it terminates without an out-of-range
    access, and returns a permutation of the input in which no later element goes before an
    earlier one.  `before` is `<` for ascending and `>` for descending. -/
theorem sort_ordered_permutation {α : Type} (before : α → α → Bool) (P : α → Prop)
    (hord : StrictOn P before) (arr : Array α) (hP : ∀ x, x ∈ arr → P x) :
    ∃ out, sortSeg before arr.size arr 0 arr.size = some out ∧
      out.toList.Perm arr.toList ∧ out.toList.Pairwise (fun x y => before y x = false) :=
  sortSeg_full before P hord arr hP

/-- The same for a comparison given as irreflexive + transitive on all elements (a strict weak
    order is that plus transitivity of incomparability, which Sort does not need). -/
theorem sort_strict_weak_order {α : Type} (lt : α → α → Bool) (hirr : ∀ x, lt x x = false)
    (htr : ∀ x y z, lt x y = true → lt y z = true → lt x z = true) (arr : Array α) :
    ∃ out, sortSeg lt arr.size arr 0 arr.size = some out ∧
      out.toList.Perm arr.toList ∧ out.toList.Pairwise (fun x y => lt y x = false) :=
  sortSeg_full lt (fun _ => True)
    (StrictOn.of_irrefl_trans (fun x _ => hirr x) (fun x y z _ _ _ => htr x y z)) arr (fun _ _ => trivial)

/-- Any segment `[s, e)`: only positions inside the segment move, and the segment is ordered. -/
theorem sort_segment {α : Type} (before : α → α → Bool) (P : α → Prop) (hord : StrictOn P before)
    (arr : Array α) (s e : Nat) (hse : s ≤ e) (he : e ≤ arr.size)
    (hP : ∀ k x, s ≤ k → k < e → arr[k]? = some x → P x) :
    ∃ out, sortSeg before (e - s) arr s e = some out ∧ SwapsIn s e arr out ∧ SortedSeg before out s e :=
  sortSeg_spec before P hord (e - s) arr s e hse he (Nat.le_refl _) hP

theorem str_lt_strict : StrictOn (fun _ : List Nat => True) Str.lt where
  asymm := by
    intro x y _ _ h
    have t := Str.tri x y
    rw [Str.gt_eq_lt_swap] at t
    revert t; rw [h]; cases Str.lt y x <;> simp
  trans := fun x y z _ _ _ => Str.lt_trans x y z

theorem str_gt_strict : StrictOn (fun _ : List Nat => True) Str.gt where
  asymm := by
    intro x y _ _ h
    rw [Str.gt_eq_lt_swap] at h ⊢
    exact str_lt_strict.asymm y x trivial trivial h
  trans := by
    intro x y z _ _ _ h1 h2
    rw [Str.gt_eq_lt_swap] at h1 h2 ⊢
    exact Str.lt_trans z y x h2 h1

/-- `Array<String>::Sort` / the keys of `HArray::Sort`, ascending: an ordered permutation,
    consecutive keys related by `<=`. -/
theorem string_sort_ascending (arr : Array (List Nat)) :
    ∃ out, arraySort Str.lt Str.gt true arr = some out ∧ out.toList.Perm arr.toList ∧
      out.toList.Pairwise (fun x y => Str.le x y = true) := by
  obtain ⟨out, h1, h2, h3⟩ := sortSeg_full Str.lt _ str_lt_strict arr (fun _ _ => trivial)
  refine ⟨out, by simpa [arraySort] using h1, h2, h3.imp ?_⟩
  intro x y h
  have t := Str.tri x y
  rw [Str.gt_eq_lt_swap, h] at t
  rw [Str.le_eq]
  revert t; cases Str.lt x y <;> cases Str.eq x y <;> simp

theorem string_sort_descending (arr : Array (List Nat)) :
    ∃ out, arraySort Str.lt Str.gt false arr = some out ∧ out.toList.Perm arr.toList ∧
      out.toList.Pairwise (fun x y => Str.ge x y = true) := by
  obtain ⟨out, h1, h2, h3⟩ := sortSeg_full Str.gt _ str_gt_strict arr (fun _ _ => trivial)
  refine ⟨out, by simpa [arraySort] using h1, h2, h3.imp ?_⟩
  intro x y h
  have t := Str.tri x y
  rw [Str.gt_eq_lt_swap] at h
  rw [h] at t
  rw [Str.ge_eq]
  revert t; cases Str.gt x y <;> cases Str.eq x y <;> simp

/-- `HArray::Sort` / `Value::Sort` on an object (slots `(key, value, live)`, removed slots carry the
    empty key): the slots are permuted as whole records, the keys end up ordered, and the association
    denoted by the live slots answers every lookup as before.  (The rebuilt hash chains themselves
    are C13's `generateHash`; on the real code every key is looked up after every Sort.) -/
theorem object_sort_lookup (ascend : Bool) (slots : Array Slot3)
    (hnd : (liveAssoc slots.toList).Pairwise (fun a b => a.1 ≠ b.1)) :
    ∃ out, arraySort (fun (x y : Slot3) => Str.lt x.1 y.1) (fun x y => Str.gt x.1 y.1) ascend slots = some out ∧
      out.toList.Perm slots.toList ∧
      out.toList.Pairwise (fun x y => (if ascend then Str.le x.1 y.1 else Str.ge x.1 y.1) = true) ∧
      ∀ k, lookupLive k out.toList = lookupLive k slots.toList := by
  cases ascend with
  | true =>
    obtain ⟨out, h1, h2, h3⟩ := sortSeg_full (fun (x y : Slot3) => Str.lt x.1 y.1) _
      (str_lt_strict.comap (fun s : Slot3 => s.1)) slots (fun _ _ => trivial)
    refine ⟨out, by simpa [arraySort] using h1, h2, h3.imp ?_, ?_⟩
    · intro x y h
      have t := Str.tri x.1 y.1
      rw [Str.gt_eq_lt_swap, h] at t
      simp only [if_true]
      rw [Str.le_eq]
      revert t; cases Str.lt x.1 y.1 <;> cases Str.eq x.1 y.1 <;> simp
    · intro k
      exact (perm_lookup (liveAssoc_perm h2.symm) hnd k).symm
  | false =>
    obtain ⟨out, h1, h2, h3⟩ := sortSeg_full (fun (x y : Slot3) => Str.gt x.1 y.1) _
      (str_gt_strict.comap (fun s : Slot3 => s.1)) slots (fun _ _ => trivial)
    refine ⟨out, by simpa [arraySort] using h1, h2, h3.imp ?_, ?_⟩
    · intro x y h
      have t := Str.tri x.1 y.1
      rw [Str.gt_eq_lt_swap] at h
      rw [h] at t
      simp only [Bool.false_eq_true, if_false]
      rw [Str.ge_eq]
      revert t; cases Str.gt x.1 y.1 <;> cases Str.eq x.1 y.1 <;> simp
    · intro k
      exact (perm_lookup (liveAssoc_perm h2.symm) hnd k).symm

theorem val_lt_strict (d : Nat) : StrictOn (fun v : JVal => depth v = d) Val.lt where
  asymm := by
    intro x y hx hy h
    cases h' : Val.lt y x with
    | false => rfl
    | true =>
      have := val_lt_trans_partial x y x (by omega) (by omega) h h'
      rw [val_lt_irrefl] at this; cases this
  trans := fun x y z hx hy hz => val_lt_trans_partial x y z (by omega) (by omega)

theorem val_gt_strict (d : Nat) : StrictOn (fun v : JVal => depth v = d) Val.gt where
  asymm := by
    intro x y hx hy h
    rw [val_gt_eq_lt_swap x y (by omega)] at h
    rw [val_gt_eq_lt_swap y x (by omega)]
    exact (val_lt_strict d).asymm y x hy hx h
  trans := by
    intro x y z hx hy hz h1 h2
    rw [val_gt_eq_lt_swap x y (by omega)] at h1
    rw [val_gt_eq_lt_swap y z (by omega)] at h2
    rw [val_gt_eq_lt_swap x z (by omega)]
    exact (val_lt_strict d).trans z y x hz hy hx h2 h1

/-- Full claim for `Value::Sort` on arrays: for every array the result is a permutation ordered
    by `<=` (ascending). False on the current code when pointer nestings differ or a NaN is present. -/
def ValueSortOrdered : Prop :=
  ∀ arr : Array JVal, ∃ out, arraySort Val.lt Val.gt true arr = some out ∧
    out.toList.Perm arr.toList ∧ out.toList.Pairwise (fun x y => Val.le x y = true)

theorem value_sort_ordered_false : ¬ ValueSortOrdered := by
  intro h
  obtain ⟨out, h1, _, h3⟩ := h #[.obj 0, .ptr (.str [115])]
  have : out = #[.obj 0, .ptr (.str [115])] := by
    have e : arraySort Val.lt Val.gt true #[JVal.obj 0, JVal.ptr (JVal.str [115])] =
        some #[.obj 0, .ptr (.str [115])] := by decide
    rw [e] at h1; exact (Option.some.inj h1).symm
  subst this
  revert h3; decide

/-- `Array<Value>::Sort(ascend)` on values of one pointer nesting (e.g. none): an ordered permutation. -/
theorem value_sort_partial (d : Nat) (arr : Array JVal) (hd : ∀ x, x ∈ arr → depth x = d) (ascend : Bool) :
    ∃ out, arraySort Val.lt Val.gt ascend arr = some out ∧ out.toList.Perm arr.toList ∧
      out.toList.Pairwise (fun x y => (if ascend then Val.lt y x else Val.gt y x) = false) := by
  cases ascend with
  | true =>
    obtain ⟨out, h1, h2, h3⟩ := sortSeg_full Val.lt _ (val_lt_strict d) arr hd
    exact ⟨out, by simpa [arraySort] using h1, h2, by simpa using h3⟩
  | false =>
    obtain ⟨out, h1, h2, h3⟩ := sortSeg_full Val.gt _ (val_gt_strict d) arr hd
    exact ⟨out, by simpa [arraySort] using h1, h2, by simpa using h3⟩

/-- … and without NaN the ascending result is a `<=` chain (every earlier element `<=` every later one). -/
theorem value_sort_le_chain_partial (d : Nat) (arr : Array JVal)
    (hd : ∀ x, x ∈ arr → depth x = d) (hn : ∀ x, x ∈ arr → noNaN x = true) :
    ∃ out, arraySort Val.lt Val.gt true arr = some out ∧ out.toList.Perm arr.toList ∧
      out.toList.Pairwise (fun x y => Val.le x y = true) := by
  obtain ⟨out, h1, h2, h3⟩ := value_sort_partial d arr hd true
  refine ⟨out, h1, h2, ?_⟩
  have hmem : ∀ x, x ∈ out.toList → depth x = d ∧ noNaN x = true := by
    intro x hx
    have : x ∈ arr := by
      have := h2.mem_iff.mp hx
      simpa using this
    exact ⟨hd x this, hn x this⟩
  refine (List.Pairwise.and_mem.mp h3).imp ?_
  intro x y ⟨hx, hy, h⟩
  simp only [if_true] at h
  have t := val_tri x y (hmem x hx).2 (hmem y hy).2
  rw [val_gt_eq_lt_swap x y (by rw [(hmem x hx).1, (hmem y hy).1]), h] at t
  rw [val_le_eq]
  revert t; cases Val.lt x y <;> cases Val.eq x y <;> simp

/-! ### The executable predicates the S3 oracle evaluates on C++ results are the stated notions -/

theorem oracle_permutation_sound {α : Type} [BEq α] [LawfulBEq α] (out inp : List α) :
    isPermOf out inp = true ↔ out.Perm inp := isPermOf_iff out inp

theorem oracle_ordered_sound {α : Type} (before : α → α → Bool) (l : List α) :
    tableOrdered (pairsTable before l) = true ↔ l.Pairwise (fun x y => before y x = false) := by
  rw [tableOrdered_pairsTable]; exact orderedBy_iff before l

theorem oracle_chain_sound {α : Type} (le : α → α → Bool) (l : List α) :
    tableChain (chainTable le l) = true ↔ l.Pairwise (fun x y => le x y = true) :=
  tableChain_chainTable le l

/-! Non-vacuity of the hypotheses, on concrete non-trivial instances. -/
example : noNaN (.ptr (.real (some 3))) = true ∧ noNaN (.str [1]) = true := by decide
example : depth (.ptr (.str [97])) = depth (.ptr (.obj 2)) := by decide
example : ∀ x, x ∈ #[JVal.str [98], .nat 3, .null, .str [97]] → depth x = 0 := by
  intro x hx; simp at hx; rcases hx with h | h | h | h <;> subst h <;> rfl
example : arraySort Val.lt Val.gt true #[JVal.str [98], .nat 3, .null, .str [97], .str [98, 1]] =
    some #[.str [97], .str [98], .str [98, 1], .nat 3, .null] := by decide
example : arraySort Str.lt Str.gt false #[[98], [], [97, 98], [97]] = some #[[98], [97, 98], [97], []] := by decide
example : (liveAssoc [([98], 1, true), ([], 0, false), ([97], 2, true)]).Pairwise (fun a b => a.1 ≠ b.1) := by decide
example : Str.lt [97, 98] [97, 98, 99] = true ∧ Str.gt [97, 98] [97, 98, 99] = false := by decide

end Qentem.Props.C15
