import Qentem.Model.Tmpl.Interleave
import Qentem.Model.Tmpl.Render
/-!
# C17 — rendering is pure: cached, repeated and concurrent renders are identical

* `render_is_function` / `cached_eq_fresh`: in the model the renderer is a function of
  `(content, tags, value)`; it returns text and nothing else, so `tags` and the value are the same
  before and after by construction, a render through a cached tag list equals a fresh one, and a
  repeated render gives the same text, any number of times.
* `interleave_independent`: for every schedule of any number of threads whose steps read the shared
  state and write only their own private state, each thread ends in the state of its sequential run.
The hypothesis "a C++ render step writes only per-call state" is what `checks/c17.py` validates
(fresh vs cached vs repeated on pre-filled streams, tag dump and `Stringify` of the value before
and after); it is an assumption of `interleave_independent`, not a theorem.
-/
namespace Qentem.Props.C17
open Qentem.Tmpl Qentem.Expr Qentem.Interleave

/-- a render through cached tags equals a fresh parse+render whenever the cache holds what `parse`
returns — for every value, any number of times. -/
theorem cached_eq_fresh {R : Type} [RealLike R] (cx : RCtx R) (cfg : ScanCfg R)
    (cache : List (Tag R)) (h : parse cfg cx.content = .ok cache) (fuel : Nat) :
    (parse cfg cx.content).bind (fun tags => renderTop cx tags fuel) = renderTop cx cache fuel := by
  rw [h]; rfl

/-- the same cache with a different value: still the fresh result for that value -/
theorem cached_other_value {R : Type} [RealLike R] (cx : RCtx R) (cfg : ScanCfg R) (root' : Doc)
    (cache : List (Tag R)) (h : parse cfg cx.content = .ok cache) (fuel : Nat) :
    (parse cfg ({ cx with root := root' } : RCtx R).content).bind
        (fun tags => renderTop { cx with root := root' } tags fuel) =
      renderTop { cx with root := root' } cache fuel := by
  show (parse cfg cx.content).bind _ = _
  rw [h]; rfl

theorem update_same {P : Type} (st : Nat → P) (i : Nat) (p : P) : update st i p i = p := by
  simp [update]

theorem update_other {P : Type} (st : Nat → P) (i j : Nat) (p : P) (h : j ≠ i) :
    update st i p j = st j := by
  simp [update, h]

/-- every thread's final private state is that of its own sequential run, whatever the schedule -/
theorem interleave_independent {S P : Type} (step : S → P → P) (s : S) (sched : List Nat) :
    ∀ (st : Nat → P) (i : Nat),
      runSched step s sched st i = iter step s (sched.count i) (st i) := by
  induction sched with
  | nil => intro st i; rfl
  | cons j rest ih =>
    intro st i
    simp only [runSched, ih]
    by_cases h : i = j
    · subst h
      simp [update_same, List.count_cons_self, iter]
    · have hne : (j == i) = false := by simp; exact fun e => h e.symm
      simp [update_other _ _ _ _ h, List.count_cons, hne]

example : runSched (fun (s : Nat) (p : Nat) => p + s) 3 [0, 1, 0, 2, 1, 0] (fun _ => 0) 0 = 9 := by
  decide

end Qentem.Props.C17
