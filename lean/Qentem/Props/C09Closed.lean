import Qentem.Props.C09General
import Qentem.Proofs.StrToNumText
/-! C09 — **the general statements, closed**: for every well-formed numeral of the grammar
`[+-]? digits (. digits)? ([eE] [+-]? digits)?` without a leading zero and of at most 99 999 000 units,
`real_within_one_ulp_closed` and `overflow_reported_closed` — the open `def`s `real_within_one_ulp` /
`overflow_reported` of `Props/C09.lean` with the documented length bound in place of `< 2^32`. -/
set_option linter.unusedSimpArgs false
namespace Qentem.Props.C09
open Qentem.StrToNum Qentem.Round Qentem.Generated.StrToNum

/-! ### digit values and units -/

theorem allDigits_map (ds : List Nat) (h : ds.all (· ≤ 9) = true) : AllDigits (ds.map (· + 48)) := by
  intro y hy
  obtain ⟨d, hd, rfl⟩ := List.mem_map.1 hy
  have := List.all_eq_true.1 h d hd
  simp at this
  simp [isDigit]; omega

theorem decVal_map (ds : List Nat) : decVal (ds.map (· + 48)) = digitsVal ds := by
  unfold decVal digitsVal
  rw [List.foldl_map]
  simp

theorem zeros_split : ∀ (F : List Nat), AllDigits F →
    ∃ zs G, F = zs ++ G ∧ (∀ z ∈ zs, z = 48) ∧ (G = [] ∨ ∃ g1 gt, G = g1 :: gt ∧ isNonZeroDigit g1 = true)
  | [], _ => ⟨[], [], rfl, (by intro z hz; cases hz), Or.inl rfl⟩
  | a :: F, h => by
    have ha : isDigit a = true := h a (by simp)
    by_cases h48 : a = 48
    · obtain ⟨zs, G, h1, h2, h3⟩ := zeros_split F (fun y hy => h y (by simp [hy]))
      refine ⟨a :: zs, G, by rw [h1]; simp, ?_, h3⟩
      intro z hz
      rcases List.mem_cons.1 hz with h | h
      · rw [h]; exact h48
      · exact h2 z h
    · refine ⟨[], a :: F, rfl, (by intro z hz; cases hz), Or.inr ⟨a, F, rfl, ?_⟩⟩
      simp [isDigit] at ha
      simp [isNonZeroDigit]; omega

/-! ### the bridge from the grammar -/

/-- **every numeral of the grammar** (well formed, no leading zero, at most 99 999 000 units): the result of
`StringToNumber` on its text is `NumGood` for its exact value -/
theorem numeral_good (x : Numeral) (hwf : x.wf = true) (hlz : x.leadingZero = false) (hlen : x.units.length ≤ 99999000) :
    NumGood x.neg x.magFrac.1 x.magFrac.2 x.units.length (strToNum x.units 0 x.units.length) := by
  obtain ⟨neg, plus, intD, fracD, hasDot, hasExp, expNeg, expPlus, expD, upperE⟩ := x
  simp only [Numeral.wf, Bool.and_eq_true, Bool.or_eq_true, Bool.not_eq_eq_eq_not, Bool.not_true] at hwf
  obtain ⟨⟨⟨⟨⟨⟨⟨⟨⟨⟨w1, w2⟩, w3⟩, w4⟩, w5⟩, w6⟩, w7⟩, w8⟩, w9⟩, w10⟩, _⟩ := hwf
  simp only [Numeral.leadingZero] at hlz
  -- the pieces of the text
  obtain ⟨sign, hsign⟩ : ∃ sign : List Nat, sign = (if neg then [45] else if plus then [43] else []) := ⟨_, rfl⟩
  have hs : sign = [] ∨ sign = [43] ∨ sign = [45] := by
    rw [hsign]; cases neg <;> cases plus <;> simp
  have hnegd : decide (sign = [45]) = neg := by
    rw [hsign]; cases neg <;> cases plus <;> simp at w9 ⊢
  obtain ⟨es, hes_def⟩ : ∃ es : List Nat, es = (if expNeg then [45] else if expPlus then [43] else []) := ⟨_, rfl⟩
  have hes : es = [] ∨ es = [43] ∨ es = [45] := by
    rw [hes_def]; cases expNeg <;> cases expPlus <;> simp
  have hesd : decide (es = [45]) = expNeg := by
    rw [hes_def]; cases expNeg <;> cases expPlus <;> simp at w10 ⊢
  obtain ⟨I, hI⟩ : ∃ I : List Nat, I = intD.map (· + 48) := ⟨_, rfl⟩
  obtain ⟨F, hFdef⟩ : ∃ F : List Nat, F = fracD.map (· + 48) := ⟨_, rfl⟩
  obtain ⟨ks, hksdef⟩ : ∃ ks : List Nat, ks = expD.map (· + 48) := ⟨_, rfl⟩
  have hId : AllDigits I := by rw [hI]; exact allDigits_map _ w2
  have hFd : AllDigits F := by rw [hFdef]; exact allDigits_map _ w3
  have hksd : AllDigits ks := by rw [hksdef]; exact allDigits_map _ w4
  obtain ⟨DF, hDFdef⟩ : ∃ DF : List Nat, DF = (if hasDot then 46 :: F else []) := ⟨_, rfl⟩
  have hDF : (DF = [] ∧ F = []) ∨ (DF = 46 :: F ∧ F ≠ []) := by
    rw [hDFdef]
    cases hasDot with
    | false =>
      left
      simp at w5
      exact ⟨by simp, by rw [hFdef, w5]; rfl⟩
    | true =>
      right
      simp at w6
      refine ⟨by simp, ?_⟩
      rw [hFdef]; intro h; exact w6 (List.map_eq_nil_iff.1 h)
  obtain ⟨EP, hEPdef⟩ : ∃ EP : List Nat, EP = (if hasExp then (if upperE then 69 else 101) :: (es ++ ks) else []) := ⟨_, rfl⟩
  have hEP : ExpPart EP (if hasExp then es else []) (if hasExp then ks else []) := by
    rw [hEPdef]
    cases hasExp with
    | false => left; simp
    | true =>
      right
      simp at w8
      refine ⟨if upperE then 69 else 101, by cases upperE <;> simp, by simp, by simpa using hes, by simpa using hksd, ?_⟩
      simp
      rw [hksdef]; intro h; exact w8 (List.map_eq_nil_iff.1 h)
  -- without an exponent the exponent fields are empty
  have hnoexp : hasExp = false → es = [] ∧ ks = [] := by
    intro h
    rw [h] at w7
    simp at w7
    obtain ⟨⟨a, b⟩, c⟩ := w7
    refine ⟨by rw [hes_def, b, c]; rfl, by rw [hksdef, a]; rfl⟩
  have hes' : (if hasExp then es else []) = es := by
    cases hasExp with
    | true => rfl
    | false => exact ((hnoexp rfl).1).symm
  have hks' : (if hasExp then ks else []) = ks := by
    cases hasExp with
    | true => rfl
    | false => exact ((hnoexp rfl).2).symm
  rw [hes', hks'] at hEP
  -- the text and the exact value
  have hunits : (Numeral.mk neg plus intD fracD hasDot hasExp expNeg expPlus expD upperE).units = sign ++ I ++ DF ++ EP := by
    rw [hsign, hI, hDFdef, hEPdef, hFdef, hes_def, hksdef]; rfl
  have hmag : (Numeral.mk neg plus intD fracD hasDot hasExp expNeg expPlus expD upperE).magFrac =
      valFrac (decVal (I ++ F)) (decVal ks) (decide (es = [45])) F.length := by
    rw [hesd, hI, hFdef, hksdef, ← List.map_append, decVal_map, decVal_map, List.length_map]
    rfl
  rw [hunits] at hlen ⊢
  rw [hmag]
  show NumGood neg _ _ _ _
  rw [← hnegd]
  generalize hc : sign ++ I ++ DF ++ EP = c at hlen ⊢
  have hu : unitsAt c c.length 0 (sign ++ I ++ DF ++ EP) := by rw [hc]; exact unitsAt_self c
  have hclen : c.length = sign.length + I.length + DF.length + EP.length := by rw [← hc]; simp; omega
  -- the integer part
  cases intD with
  | nil => simp at w1
  | cons d ds =>
    have hd9 : d ≤ 9 := by
      have := List.all_eq_true.1 w2 d (by simp)
      simpa using this
    have hIeq : I = (d + 48) :: ds.map (· + 48) := by rw [hI]; rfl
    have hxs : AllDigits (ds.map (· + 48)) := fun y hy => hId y (by rw [hIeq]; simp [hy])
    by_cases hd0 : d = 0
    · -- a leading zero digit: the integer part is exactly `0`
      subst hd0
      have hds : ds = [] := by
        cases ds with
        | nil => rfl
        | cons a b => simp at hlz
      subst hds
      simp only [List.map_nil, Nat.zero_add] at hIeq
      subst hIeq
      obtain ⟨zs, G, hFeq, hz, hGh⟩ := zeros_split F hFd
      have hG : AllDigits G := fun y hy => hFd y (by rw [hFeq]; simp [hy])
      have := good_zero_lead c 0 c.length sign zs G F DF EP es ks hs hz hG hGh hFeq hDF hEP hu
        (by rw [hclen]; simp) hlen
      simpa using this
    · have h1 : isNonZeroDigit (d + 48) = true := by simp [isNonZeroDigit]; omega
      rw [hIeq] at hu hclen ⊢
      simp only [List.length_cons, List.length_map] at hclen
      rcases hDF with ⟨hDF0, hF0⟩ | ⟨hDFc, hF0⟩
      · -- no dot
        subst hDF0; subst hF0
        simp only [List.append_nil, List.length_nil] at hu hclen ⊢
        by_cases hEP0 : EP = []
        · subst hEP0
          have hek : es = [] ∧ ks = [] := by
            rcases hEP with ⟨_, a, b⟩ | ⟨m, _, h, _⟩
            · exact ⟨a, b⟩
            · cases h
          obtain ⟨rfl, rfl⟩ := hek
          simp only [List.append_nil, List.length_nil] at hu hclen
          have := good_int_only c 0 c.length sign (d + 48) (ds.map (· + 48)) hs h1 hxs hu (by simp; omega) hlen
          simpa [valFrac, decVal_nil] using this
        · left
          by_cases hshort : ds.length ≤ 18
          · have := good_int_short_exp c 0 c.length sign (d + 48) (ds.map (· + 48)) EP es ks hs h1 hxs (by simpa using hshort)
              hEP hEP0 hu (by simp; omega) hlen
            simpa using this
          · obtain ⟨x18, rest, hxeq, hl18⟩ : ∃ x18 rest, ds.map (· + 48) = x18 ++ rest ∧ x18.length = 18 :=
              ⟨(ds.map (· + 48)).take 18, (ds.map (· + 48)).drop 18, (List.take_append_drop _ _).symm, by
                rw [List.length_take]; simp; omega⟩
            have hx18 : AllDigits x18 := fun y hy => hxs y (by rw [hxeq]; simp [hy])
            have hrest : AllDigits rest := fun y hy => hxs y (by rw [hxeq]; simp [hy])
            have hlen2 : ds.length = 18 + rest.length := by
              have := congrArg List.length hxeq; simp at this; omega
            rw [hxeq] at hu ⊢
            have := good_int_long c 0 c.length sign (d + 48) x18 rest [] [] EP es ks hs h1 hx18 hl18 hrest
              (by intro y hy; cases hy) (Or.inl ⟨rfl, rfl⟩) hEP (by simpa using hu) (by simp; omega) hlen
              (Or.inr (Or.inl hEP0))
            simpa using this
      · -- a dot
        left
        subst hDFc
        simp only [List.length_cons] at hclen
        by_cases hshort : ds.length ≤ 17
        · have hu2 : unitsAt c c.length 0 (sign ++ ((d + 48) :: ds.map (· + 48) ++ 46 :: F) ++ EP) := by
            have e1 : sign ++ ((d + 48) :: ds.map (· + 48) ++ 46 :: F) ++ EP =
                sign ++ (d + 48) :: ds.map (· + 48) ++ 46 :: F ++ EP := by simp
            rw [e1]; exact hu
          have := good_dot_short c 0 c.length sign (d + 48) (ds.map (· + 48)) F EP es ks hs h1 hxs hFd hF0
            (by simpa using hshort) hEP hu2 (by simp; omega) hlen
          simpa using this
        · obtain ⟨x18, rest, hxeq, hl18⟩ : ∃ x18 rest, ds.map (· + 48) = x18 ++ rest ∧ x18.length = 18 :=
            ⟨(ds.map (· + 48)).take 18, (ds.map (· + 48)).drop 18, (List.take_append_drop _ _).symm, by
              rw [List.length_take]; simp; omega⟩
          have hx18 : AllDigits x18 := fun y hy => hxs y (by rw [hxeq]; simp [hy])
          have hrest : AllDigits rest := fun y hy => hxs y (by rw [hxeq]; simp [hy])
          have hlen2 : ds.length = 18 + rest.length := by
            have := congrArg List.length hxeq; simp at this; omega
          rw [hxeq] at hu ⊢
          have := good_int_long c 0 c.length sign (d + 48) x18 rest F (46 :: F) EP es ks hs h1 hx18 hl18 hrest hFd
            (Or.inr ⟨rfl, hF0⟩) hEP (by simpa using hu) (by simp; omega) hlen (Or.inl (by simp))
          simpa [List.append_assoc] using this

/-! ### the closed statements -/

/-- **`real_within_one_ulp_closed`** — for every well-formed numeral without a leading zero of at most 99 999 000 units:
whenever `StringToNumber` (as modelled) returns a finite `Real`, its magnitude pattern is within one unit in the last
place of the correctly rounded (nearest, ties to even, gradual underflow) binary64 value of the numeral's exact
value. This is `real_within_one_ulp` (Props/C09.lean) with the documented length bound in place of `< 2^32`. -/
theorem real_within_one_ulp_closed :
    ∀ (x : Numeral), x.wf = true → x.leadingZero = false → x.units.length ≤ 99999000 →
      ∀ r, strToNum x.units 0 x.units.length = some r → r.kind = .real → magBits r < infBits →
        ulpDist (magBits r) (nearestMag x.magFrac.1 x.magFrac.2) ≤ 1 := by
  intro x hwf hlz hlen r hr hk _
  rcases numeral_good x hwf hlz hlen with ⟨r', h1, _, h3⟩ | ⟨r', h1, h2, _⟩
  · rw [hr] at h1; cases h1
    rcases h3 with ⟨a, _⟩ | ⟨_, _, c, _⟩
    · rw [hk] at a; cases a
    · exact c
  · rw [hr] at h1; cases h1
    rcases h2 with h | h <;> (rw [hk] at h; cases h)

/-- **`overflow_reported_closed`** — for every such numeral whose exact value exceeds the largest finite double the result
is `NotANumber`, or a `Real` that is an infinity (or NaN pattern) or the largest finite double (possible only when the
value rounds to it) — never a smaller finite value. This is `overflow_reported` with the documented length bound. -/
theorem overflow_reported_closed :
    ∀ (x : Numeral), x.wf = true → x.leadingZero = false → x.units.length ≤ 99999000 →
      exceedsMaxFinite x.magFrac.1 x.magFrac.2 = true →
      ∀ r, strToNum x.units 0 x.units.length = some r →
        r.kind = .notANumber ∨ (r.kind = .real ∧ (magBits r ≥ infBits ∨ magBits r = maxFiniteBits)) := by
  intro x hwf hlz hlen hex r hr
  have hov : (2 ^ 53 - 1) * 2 ^ 971 * x.magFrac.2 < x.magFrac.1 := by
    unfold exceedsMaxFinite at hex
    rw [decide_eq_true_eq, gt_iff_lt] at hex
    convert hex using 2
  rcases numeral_good x hwf hlz hlen with ⟨r', h1, _, h3⟩ | ⟨r', h1, _, h3⟩
  · rw [hr] at h1; cases h1
    rcases h3 with ⟨a, _⟩ | ⟨a, _, _, d⟩
    · exact Or.inl a
    · right
      refine ⟨a, ?_⟩
      rcases d hov with h | h
      · exact Or.inr h
      · exact Or.inl h
  · exfalso
    have h64 : (2 : Nat) ^ 64 ≤ (2 ^ 53 - 1) * 2 ^ 971 := by decide +kernel
    have h2 : 2 ^ 64 * x.magFrac.2 ≤ (2 ^ 53 - 1) * 2 ^ 971 * x.magFrac.2 := Nat.mul_le_mul_right _ h64
    exact Nat.lt_irrefl _ (Nat.lt_trans hov (Nat.lt_of_lt_of_le h3 h2))

end Qentem.Props.C09
