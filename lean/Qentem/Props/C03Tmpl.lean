import Qentem.Proofs.TmplEscape
import Qentem.Props.C03
/-!
# C03 — the template print paths go through the escaper (link to the render model)

`var_emits_escaped`, `raw_emits_verbatim`, `svar_emits`, `numeral_safe` (Proofs/TmplEscape.lean)
restated, and the corollary `var_text_safe`: with auto-escape on, whatever a `{var:…}` tag appends
for a value that is not a real number contains none of `< > " '`.
-/
namespace Qentem.Props.C03Tmpl
open Qentem.Tmpl Qentem.Expr Qentem.Generated.Tmpl

/-- A Variable tag appends the literal text before it and then either `escapeCfg auto x` with `x` the
resolved string, the loop key or the tag's own source slice (`VarSource`), or the text of a number /
keyword (`VarText.numeral`). -/
theorem var_emits_escaped {R : Type} (cx : RCtx R) (st st' : RState) (v : VarRef) (offset off' : Nat)
    (h : renderVariable cx st v offset = .ok (st', off')) :
    ∃ pre txt, slice cx.content offset (v.off - W1.variablePrefixLength) = .ok pre ∧
      st'.out = st.out ++ pre ++ txt ∧ st'.items = st.items ∧ VarText cx st v txt :=
  Qentem.Tmpl.var_emits_escaped cx st st' v offset off' h

/-- A Raw tag appends the resolved value's text (a string unchanged: `copyValue_raw_string`) or its
own source, verbatim. -/
theorem raw_emits_verbatim {R : Type} (cx : RCtx R) (st st' : RState) (v : VarRef) (offset off' : Nat)
    (h : renderRawVariable cx st v offset = .ok (st', off')) :
    ∃ pre txt, slice cx.content offset (v.off - W1.rawVariablePrefixLength) = .ok pre ∧
      st'.out = st.out ++ pre ++ txt ∧ st'.items = st.items ∧ RawText cx st v txt :=
  Qentem.Tmpl.raw_emits_verbatim cx st st' v offset off' h

theorem raw_string_verbatim {R : Type} (cx : RCtx R) (s : List Nat) :
    copyValue cx false (.str s) = some s :=
  copyValue_raw_string cx s

/-- A super variable appends escaped pieces of the phrase and what its sub tags append. -/
theorem svar_emits {R : Type} [RealLike R] (cx : RCtx R) (sub : List (Tag R)) (txt : List Nat)
    (fuel index lastIdx : Nat) (st st' : RState)
    (h : svarLoop cx fuel sub txt index lastIdx st = .ok st') :
    ∃ app, st'.out = st.out ++ app ∧ st'.items = st.items ∧ SvarParts cx st.items sub app :=
  Qentem.Tmpl.svar_emits cx sub txt fuel index lastIdx st st' h

/-- integers and keywords print without any of `& < > " '` -/
theorem numeral_safe {R : Type} (cx : RCtx R) (esc : Bool) (d : Doc) (txt : List Nat)
    (hd : d.isNumeral = true) (h : copyValue cx esc d = some txt) : ∀ c ∈ txt, isSpecial c = false :=
  Qentem.Tmpl.numeral_safe cx esc d txt hd h

/-- With auto-escape on, the text a Variable tag appends contains no raw `< > " '`, unless it is a
real number's text (which comes from the formatter parameter, C10). -/
theorem var_text_safe {R : Type} (cx : RCtx R) (hauto : cx.autoEscape = true) (st : RState)
    (v : VarRef) (txt : List Nat) (h : VarText cx st v txt)
    (hreal : ∀ b, getValue cx st v ≠ .ok (some (.real b))) :
    ∀ c ∈ txt, Qentem.Escape.isSpecialNoAmp c = false := by
  cases h with
  | escaped x _ =>
    rw [hauto]
    exact Qentem.Props.C03.escape_no_raw_special x
  | numeral d _ hg hd hc =>
    rcases hd with hd | ⟨b, rfl⟩
    · intro c hcm
      have := Qentem.Tmpl.numeral_safe cx true d _ hd hc c hcm
      simp only [isSpecial, Bool.or_eq_false_iff] at this
      simp [Qentem.Escape.isSpecialNoAmp, this]
    · exact absurd hg (hreal b)

end Qentem.Props.C03Tmpl
