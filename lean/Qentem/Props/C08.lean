import Qentem.Proofs.JsonStringify
import Qentem.Proofs.JsonRoundTrip
import Qentem.Proofs.JsonRoundTripInt
import Qentem.Proofs.JsonRoundTripReal
/-! C08 — Stringify then Parse returns the same tree, and the text is valid JSON. -/
namespace Qentem.Props.C08
open Qentem.Json

/-- `Value::Stringify` as coded — a comma after every member, then the last unit of the stream
patched into the closing bracket — emits exactly the reference text (members joined by single
commas, Undefined members and pointers to Undefined omitted, pointers looked through), for every
tree, every nesting, any number formatter, and whatever the stream held before. -/
theorem stringify_eq_reference (f : Fmt) (prec : Nat) (v : JVal) (out : List Nat) :
    strValue f prec v out = out ++ specValue f prec v :=
  strValue_eq f prec v out

/-- Escaped string bodies contain no unit below 0x20 … -/
theorem escape_no_control_units (s : List Nat) : ∀ c ∈ escapeJson s, 32 ≤ c :=
  escapeJson_ge32 s

/-- … no bare quote, and every backslash starts one of the RFC 8259 escapes. -/
theorem escape_well_escaped (s : List Nat) : wellEscaped (escapeJson s) = true :=
  escapeJson_wellEscaped s

/-- `UnEscape` inverts `Escape`: for every string over all code units (NUL, controls, quote,
backslash, slash, any wide unit) and every character width, reading the escaped body up to its
closing quote consumes exactly the body and the quote and yields the original string. -/
theorem unescape_escape (w : Nat) (s rest : List Nat) :
    let r := Qentem.Unicode.unEscapeB w (escapeJson s ++ 34 :: rest) [] [] 0
    r.2 = (escapeJson s).length + 1 ∧ (if r.1.isEmpty then escapeJson s else r.1) = s :=
  Qentem.Json.unescape_escape w s rest

/-- **Stringify then Parse returns the same tree** — proved for every tree without reals: any
nesting, Undefined and pointer-to-value members anywhere, strings over all code units, unsigned and
signed 64-bit numbers incl. the extremes, every character width and precision; serializer, escaper,
integer formatter, un-escaper, integer reader and parser are the linked models. `normI` = pointers
looked through, Undefined members dropped, non-negative signed numbers come back unsigned (equal
in value). Trees with reals: `roundtrip_linked` below. -/
theorem roundtrip_int_linked (w : Nat) (real : Nat → Nat → List Nat) (prec : Nat) (v : JVal)
    (hv : IntTree v) (hd : DistinctKeys v) (hu : isUndefined v = false)
    (hsz : (strValue (numFmt real) prec v []).length < 2 ^ 32) :
    parse (jsonDeps w) (strValue (numFmt real) prec v []).toArray = .ok (normI v) :=
  Qentem.Json.roundtrip_int_linked w real prec v hv hd hu hsz

/-- Non-vacuity: a nested tree with an Undefined member, a pointer member, a negative and an
unsigned number and an escaped string satisfies the hypotheses. -/
example : IntTree (.obj [([97], .arr [.nat 5, .undef, .ptr (.int (2 ^ 64 - 3)), .str [34, 1]]), ([], .ptr .undef)]) ∧
    DistinctKeys (.obj [([97], .arr [.nat 5, .undef, .ptr (.int (2 ^ 64 - 3)), .str [34, 1]]), ([], .ptr .undef)]) := by
  simp [IntTree, IntTreeMembers, IntTreeList, DistinctKeys, DKMembers, DKList, isUndefined]

/-- **`roundtrip_linked`: Stringify (precision 17) then Parse returns the same tree, for every value tree with
finite numbers** — any nesting, Undefined and pointer members anywhere, strings over all code units, unsigned and
signed 64-bit integers, and every finite double (normal, subnormal, ±0, values printed as `d.ddde±XX`); every
character width.  All components are the linked models: serializer, escaper, `NumberToString` (integers and the real
path in the Default format), un-escaper, `StringToNumber`, parser.  `normR` = pointers looked through, Undefined
members dropped, non-negative signed numbers read back unsigned, each real read back as the number found in its
`%.17g` text (`realLeaf`): a Real with the same bits, or — when the text is an integer numeral such as `5` or `-3` —
the Natural / Integer of the same value (`real_value_preserved`).  Composition of C10 (`format_eq_spec`), C11
(`roundtrip17`, `text17_format`), the parser relocation (`numSpec_of_standalone`), `strValue_eq` and `parse_print`. -/
theorem roundtrip_linked (w : Nat) (v : JVal) (hv : NumTree v) (hd : DistinctKeys v) (hu : isUndefined v = false)
    (hsz : (strValue linkedFmt 17 v []).length < 2 ^ 32) :
    parse (jsonDeps w) (strValue linkedFmt 17 v []).toArray = .ok (normR v) :=
  Qentem.Json.roundtrip_linked w v hv hd hu hsz

/-- `real_value_preserved`: the number a finite double is read back as converts (by the callers' `double(·)`
conversion, round-to-nearest-even for integers) to exactly the original double, and it is a number (never Undefined) -/
theorem real_value_preserved (b : Nat) (hb : Finite64 b) :
    asDouble (realLeaf b) = some b ∧ isUndefined (realLeaf b) = false :=
  realLeaf_value b hb

/-- `normR_is_normI_relabelled`: the result is the integer-only normal form with every real leaf replaced by the number
read back — nothing else changes -/
theorem normR_is_normI_relabelled (v : JVal) : normR v = relabel (normI v) := normR_eq_relabel v

/-- Non-vacuity: a tree with 0.1, 5.0, -0.0, the smallest subnormal, 1e300, an integer and a string satisfies the
hypotheses; 5.0 is read back as Natural 5, -3.0 as Integer −3, 0.1 and -0.0 as Reals with the same bits. -/
example : NumTree (.obj [([97], .arr [.real 0x3FB999999999999A, .real 0x4014000000000000, .real 0x8000000000000000,
      .real 1, .undef, .ptr (.real 0x7E37E43C8800759C), .nat 7]), ([98], .str [34])]) ∧
    DistinctKeys (.obj [([97], .arr [.real 0x3FB999999999999A, .real 0x4014000000000000, .real 0x8000000000000000,
      .real 1, .undef, .ptr (.real 0x7E37E43C8800759C), .nat 7]), ([98], .str [34])]) := by
  simp [NumTree, NumTreeMembers, NumTreeList, DistinctKeys, DKMembers, DKList, isUndefined, Finite64]

example : readBack 0x4014000000000000 = ⟨.natural, 5, 1⟩ ∧ readBack 0xC008000000000000 = ⟨.integer, 2 ^ 64 - 3, 2⟩ ∧
    readBack 0x3FB999999999999A = ⟨.real, 0x3FB999999999999A, 19⟩ ∧
    readBack 0x8000000000000000 = ⟨.real, 0x8000000000000000, 2⟩ := by
  decide +kernel

theorem specItems_ptr_undef (f : Fmt) (prec : Nat) (xs : List JVal) (b : Bool) :
    specItems f prec (xs ++ [.ptr .undef]) b = specItems f prec xs b := by
  induction xs generalizing b with
  | nil => simp [specItems, isUndefined]
  | cons y ys ih => simp only [List.cons_append, specItems]; split <;> simp [ih]

/-- Undefined members never reach the text: a tree and the same tree with its Undefined members
(or pointers to Undefined) removed print identically. -/
theorem stringify_omits_undefined (f : Fmt) (prec : Nat) (xs : List JVal) (out : List Nat) :
    strValue f prec (.arr (.undef :: xs)) out = strValue f prec (.arr xs) out ∧
    strValue f prec (.arr (xs ++ [.ptr .undef])) out = strValue f prec (.arr xs) out := by
  constructor
  · simp [strValue_eq, specValue, specItems, isUndefined]
  · simp [strValue_eq, specValue, specItems_ptr_undef]

end Qentem.Props.C08
