import Qentem.Model.Tmpl.Spec
import Qentem.Proofs.TmplText
import Qentem.Proofs.TmplParseSegs
import Qentem.Proofs.TmplRenderSegs
import Qentem.Proofs.TmplBlockIf
import Qentem.Proofs.TmplGenRender
/-!
# C02 — rendering a well-formed template yields the documented expansion

`Model/Tmpl/Spec.lean` is the reference interpreter of Documentation/Template.md (`Tpl`, `printTpl`,
`expand`).  The full equation `RenderParsePrint` is a statement (open); it is decided run by run by
`checks/c02.py`: generated template trees × value trees, the real renderer against `expand`.
Proved here: the equation for templates made of text nodes (any number, any content without a
tag-start character, any value) — the base case of the staged proof.
-/
namespace Qentem.Props.C02
open Qentem.Tmpl Qentem.Expr

/-- all nodes are text -/
def allText : List Tpl → Bool
  | [] => true
  | .text _ :: rest => allText rest
  | _ :: _ => false

theorem expandList_text {R : Type} [RealLike R] (sx : SpecCtx R) :
    ∀ (t : List Tpl) (fuel : Nat), allText t = true → 2 * t.length + 2 ≤ fuel →
      expandList sx fuel [] t = printList t := by
  intro t
  induction t with
  | nil =>
    intro fuel _ hf
    cases fuel with
    | zero => omega
    | succ f => simp [expandList, printList]
  | cons x rest ih =>
    intro fuel ht hf
    cases x with
    | text s =>
      cases fuel with
      | zero => omega
      | succ f =>
        cases f with
        | zero => simp at hf
        | succ g =>
          simp only [allText] at ht
          simp only [expandList, expandTpl, printList, printTpl]
          rw [ih (g + 1) ht (by simp at hf ⊢; omega)]
    | _ => simp [allText] at ht

/-- the main equation of C02 for text-only templates: parse, then render, gives the documented
expansion (the text itself), for every value and every renderer parameter. -/
theorem render_parse_print_text {R : Type} [RealLike R] (cx : RCtx R) (sx : SpecCtx R)
    (cfg : ScanCfg R) (t : List Tpl) (ht : allText t = true) (hc : cx.content = printList t)
    (hn : NoTagStart cx.content) (fuel : Nat) :
    (parse cfg cx.content).bind (fun tags => renderTop cx tags (fuel + 1)) =
      .ok (expand sx t (2 * t.length + 2)) := by
  rw [Qentem.Tmpl.render_text cx cfg hn fuel, expand, expandList_text sx t _ ht (Nat.le_refl _), hc]

/-- stages 2+3, parse half: the printed text of a template made of text, `{var:p}`, `{raw:p}`
and `{math:e}` (texts, paths and expressions free of `{ < }`, paths of 1..255 units) parses to
exactly one Variable / RawVariable / Math tag per segment at the offsets the printer put them
(`tagsOf`), nothing else; a Math tag holds the expression list scanned in place. -/
theorem parse_segs {R : Type} (cfg : ScanCfg R) (segs : List Seg) (hok : ∀ s ∈ segs, s.ok)
    (hn : (printList (segsTpl segs)).length + 16 < 4294967296) :
    parse cfg (printList (segsTpl segs)) = .ok (tagsOf cfg (printList (segsTpl segs)) 0 segs) := by
  rw [printSegs_eq] at hn ⊢
  exact Qentem.Tmpl.parse_segs cfg segs hok (fun s _ => Seg.scanOk_all _ s) hn

/-- a path of the documented shape `name[k1][k2]…` (non-empty name, no bracket inside the name or
a key) is looked up by the renderer exactly as the document says (`resolve`), whether or not it
leads to a value. -/
theorem getValue_eq_resolve {R : Type} (cx : RCtx R) (hg : cx.guardIndexRead = true) (st : RState)
    (A post p : List Nat) (hc : cx.content = A ++ (p ++ post)) (hp : PathOk p) :
    getValue cx st ⟨A.length, p.length, 0, 0⟩ = .ok (resolve cx.root [] p).1 :=
  getValue_path cx hg st A post p hc hp

/-- the path shape is inhabited by the paths the document uses: `a[0]` -/
example : PathOk [97, 91, 48, 93] :=
  ⟨[97], [[48]], by simp [brk], by simp, by intro x hx; simp at hx; subst hx; decide,
    by intro k hk; simp at hk; subst hk; intro x hx; simp at hx; subst hx; decide⟩

/-- the scanner and the evaluator do not depend on where an expression sits in the content:
scanning `e}` alone and scanning it `k` units into a longer content (after a unit that cannot end
an operand) give the same list with text and `{var:…}` operands moved by `k`, and the two lists
evaluate to the same number when the two environments give every scanned `{…}` operand and its
moved copy the same value (`scanVar`: offset + 5, length, and the scanner's loop-variable answer
at that offset; no condition when the expression has no `{`). -/
theorem scan_eval_relocatable {R : Type} [RealLike R] (cfg cfg' : ScanCfg R)
    (hrn : cfg'.readNum = cfg.readNum) {c c' : List Nat} {k : Nat} (h : Reloc c c' k)
    (off endO : Nat) (he : endO < c.length)
    (items : List (Item R)) (hp : parseTop cfg c off endO = .ok items)
    (env env' : Env R) (henv : RelEnv env env' k) (hcont : env.content = c)
    (hlk : ∀ o e, c[o]? = some 123 → o + 5 < e → c[e]? = some 125 →
      env'.lookup (scanVar cfg' (k + o) (k + e)) = env.lookup (scanVar cfg o e)) :
    ∃ items', parseTop cfg' c' (k + off) (k + endO) = .ok items' ∧
      evaluateTop env' true items' = evaluateTop env true items := by
  obtain ⟨items', h1, h2⟩ := parseTop_relocV cfg cfg' hrn h
    (fun v v' => env'.lookup v' = env.lookup v) hlk off endO he items hp
  exact ⟨items', h1, (evaluateTop_reloc henv (fun _ _ hv => hv) true items items' (by rw [hcont]; exact h2)).1⟩

/-- stages 2+3 of `RenderParsePrint`: templates made of text, `{var:path}`, `{raw:path}` and
`{math:expression}` in any number and order.  Texts and paths are free of `{ < }`; an expression
(`MathOk`) is any text whose only `{ < }` are those of `{var:path}` operands with such paths:
numbers, parentheses, all operators, text comparison, variables (`pathOk` for a `{math:}`: the
paths of the operands the scanner finds have the documented shape; their values are whatever the
document holds);
paths have the documented shape and 1..255 units and may or may not resolve in the value (an
unresolved `{var:}` prints its own escaped source, an unresolved `{raw:}` / a `{math:}` without a
value its source); the value, the number reader, the real-number formatter and the escape switch
are arbitrary but the same on both sides. -/
theorem render_parse_print_segs {R : Type} [RealLike R] (cx : RCtx R) (sx : SpecCtx R)
    (cfg : ScanCfg R) (segs : List Seg) (hg : cx.guardIndexRead = true) (same : SameCtx cx sx)
    (hrn : cfg.readNum = cx.readNum)
    (hc : cx.content = printList (segsTpl segs)) (hok : ∀ s ∈ segs, s.ok)
    (hpath : ∀ s ∈ segs, s.pathOk cfg.readNum)
    (hn : cx.content.length + 16 < 4294967296) (fuel fuel' : Nat) :
    (parse cfg cx.content).bind (fun tags => renderTop cx tags (nTags segs + 2 + fuel)) =
      .ok (expand sx (segsTpl segs) (segs.length + 1 + fuel')) := by
  have hsc : ∀ s ∈ segs, s.scanOk cfg.readNum := fun s _ => Seg.scanOk_all _ s
  rw [printSegs_eq] at hc
  have hn' := hn
  rw [hc] at hn'
  have hp := Qentem.Tmpl.parse_segs cfg segs hok hsc hn'
  rw [← hc] at hp
  rw [hp]
  simp only [Except.bind]
  rw [render_segs cx cfg hg hrn segs hc hpath hok hsc _ (by omega), expand,
    expandList_segs cx sx same segs _ (by omega)]

/-- stage 4 of `RenderParsePrint`: block templates — any sequence of segment runs (text, `{var:}`,
`{raw:}`, `{math:}` as in stage 3), `<if case="e">segments</if>` and
`<if case="e">segments<else />segments</if>` blocks (`e` free of `{ < } "`: an expression over
literals with any operator but `<`-based ones; the bodies any covered segments; for the two-branch
form `caseOk`: `e` scans to a non-empty list — for a text that is not an expression the code prints
nothing at all while the reference goes on to the `else` part).
The parse half gives the exact tag list with one `If` tag per block (`parse_blks`); the `If` tag's
case list is the scan of `e` in place, its decision equals the reference `isTrue (evalText e)`
(`case_hit`, through the relocation theorems); hence, for every value, number reader, formatter
and escape switch: parse + render = the documented expansion. -/
theorem render_parse_print_blocks {R : Type} [RealLike R] (cx : RCtx R) (sx : SpecCtx R)
    (cfg : ScanCfg R) (bs : List Blk) (hg : cx.guardIndexRead = true) (same : SameCtx cx sx)
    (hrn : cfg.readNum = cx.readNum)
    (hc : cx.content = printList (blksTpl bs)) (hok : ∀ b ∈ bs, b.ok) (hpath : ∀ b ∈ bs, b.pathOk cfg.readNum)
    (hcase : ∀ b ∈ bs, b.caseOk cfg.readNum)
    (hn : cx.content.length + 16 < 4294967296) (fuel fuel' : Nat) :
    (parse cfg cx.content).bind (fun tags => renderTop cx tags (rneed bs + rcost bs + fuel)) =
      .ok (expand sx (blksTpl bs) (eneed bs + fuel')) := by
  rw [printBlks_eq] at hc
  have hn' := hn
  rw [hc] at hn'
  have hp := Qentem.Tmpl.parse_blks cfg bs hok hn'
  rw [← hc] at hp
  rw [hp]
  simp only [Except.bind]
  rw [show rneed bs + rcost bs + fuel = (rneed bs + fuel) + rcost bs by omega,
    renderTop_blks cx cfg hg hrn bs hc hok hpath hcase _ (by omega), expand, same.eq,
    expandList_blks cx bs _ (by omega)]

/-- non-vacuity: `a<if case="1 > 0">{var:x}</if>` is such a template -/
example {R : Type} (rn : List Nat → Option (Num R)) :
    Blk.ok (.ifc [49, 32, 62, 32, 48] [.var [120]]) ∧ Blk.pathOk rn (.ifc [49, 32, 62, 32, 48] [.var [120]]) := by
  refine ⟨⟨?_, ?_, ?_⟩, ?_⟩
  · intro x hx; simp at hx; rcases hx with h | h | h | h | h <;> subst h <;> (unfold plainU; decide)
  · intro x hx; simp at hx; rcases hx with h | h | h | h | h <;> subst h <;> decide
  · intro s hs; simp at hs; subst hs
    exact ⟨by intro x hx; simp at hx; subst hx; unfold plainU; decide, by simp, by simp⟩
  · intro s hs; simp at hs; subst hs
    exact ⟨[120], [], by simp [brk], by simp, by intro x hx; simp at hx; subst hx; decide, by intro k hk; cases hk⟩

/-- stage 5 of `RenderParsePrint`: block TREES.  `BTs` = sequences of segment runs (stage 3) and
`<if case="e">…<elseif case="e2" />…<else />…</if>` chains of any length whose bodies are again
block trees (any nesting depth).  Case texts are ANY text free of `"`: literals, operators,
parentheses and `{var:path}` operands (`varsOk`: the paths of the operands the scanner finds have
the documented shape; the values are whatever the document holds — numbers, strings, booleans,
null, containers, nothing).  `caseOk`: every case text of a
chain with more than one branch scans to a non-empty list (for a non-expression the code prints
nothing / treats a later empty case as `else`, see the observations in notes/design-tmpl.md).
For every value, number reader, formatter and escape switch: parse + render = the documented
expansion.  Proof: mutual structural recursion over the tree for the parser (`parse_bt`,
`parse_bts`, `parse_tail`, parametric in the stack of open containers), the renderer
(`render_bt`, `render_bts`, `render_tail`) and the reference interpreter (`expand_bt`, …). -/
theorem render_parse_print_tree {R : Type} [RealLike R] (cx : RCtx R) (sx : SpecCtx R)
    (cfg : ScanCfg R) (bs : BTs) (hg : cx.guardIndexRead = true) (same : SameCtx cx sx)
    (hrn : cfg.readNum = cx.readNum)
    (hc : cx.content = printList (btsTpl bs)) (hok : bs.ok) (hpath : bs.pathOk cfg.readNum)
    (hcase : bs.caseOk cfg.readNum)
    (hn : cx.content.length + 16 < 4294967296) (fuel fuel' : Nat) :
    (parse cfg cx.content).bind (fun tags => renderTop cx tags (rneedBTs bs + rcostBTs bs + fuel)) =
      .ok (expand sx (btsTpl bs) (eneedBTs bs + fuel')) := by
  rw [printBTs_eq] at hc
  have hn' := hn
  rw [hc] at hn'
  have hp := Qentem.Tmpl.parse_tree cfg bs hok hn'
  rw [← hc] at hp
  rw [hp]
  simp only [Except.bind]
  rw [show rneedBTs bs + rcostBTs bs + fuel = (rneedBTs bs + fuel) + rcostBTs bs by omega,
    renderTop_tree cx cfg hg hrn bs hc hok hpath hcase _ (by omega), expand, same.eq,
    expand_bts cx bs _ (by omega)]

/-- non-vacuity of the tree class with `{var:}` operands in a case text and in a `{math:}`:
`<if case="{var:x} == 1">{math:{var:x}+1}<else />b</if>` (with a reader that knows `1`) -/
def rdX {R : Type} : List Nat → Option (Num R) := fun s => if s = [49] then some (.nat 1) else none
def caseX : List Nat := [123, 118, 97, 114, 58, 120, 125, 32, 61, 61, 32, 49]
def mathX : List Nat := [123, 118, 97, 114, 58, 120, 125, 43, 49]
def treeX : BTs := .cons (.ifc caseX (.cons (.segs [.math mathX]) .nil) (.els (.cons (.segs [.text [98]]) .nil))) .nil
theorem scanX {R : Type} : parseTop ({ readNum := rdX } : ScanCfg R) (caseX ++ [34]) 0 caseX.length =
    .ok [(.var ⟨5, 1, 0, 0⟩, .equal), (.num (.nat 1), .noOp)] := by
  with_unfolding_all rfl
theorem scanM {R : Type} : parseTop ({ readNum := rdX } : ScanCfg R) (mathX ++ [125]) 0 mathX.length =
    .ok [(.var ⟨5, 1, 0, 0⟩, .add), (.num (.nat 1), .noOp)] := by
  with_unfolding_all rfl
theorem pathX : PathOk [120] :=
  ⟨[120], [], by simp [brk], by simp, by intro x hx; simp at hx; subst hx; decide, by intro k hk; cases hk⟩
example {R : Type} : treeX.ok ∧ treeX.pathOk (rdX (R := R)) ∧ treeX.caseOk (rdX (R := R)) := by
  refine ⟨?_, ?_, ?_⟩
  · simp only [treeX, BTs.ok, BT.ok, BTail.ok, and_true]
    refine ⟨by decide, ?_, ?_⟩
    · intro s hs; simp at hs; subst hs
      exact ⟨[([], [120])], [43, 49], by simp [mathX, printMP],
        by intro x hx; simp at hx; rcases hx with h | h <;> subst h <;> (unfold plainU; decide),
        by intro tp htp; simp at htp; subst htp; exact ⟨(by intro x hx; cases hx), (by intro x hx; simp at hx; subst hx; unfold plainU; decide)⟩⟩
    · intro s hs; simp at hs; subst hs; intro x hx; simp at hx; subst hx; unfold plainU; decide
  · simp only [treeX, BTs.pathOk, BT.pathOk, BTail.pathOk, and_true]
    refine ⟨?_, ?_⟩
    · intro s hs; simp at hs; subst hs
      intro items h; rw [scanM] at h; cases h
      intro v hv; simp [itemsVars, operandVars] at hv; subst hv
      exact pathX
    · intro s hs; simp at hs; subst hs; trivial
  · simp only [treeX, BTs.caseOk, BT.caseOk, BTail.caseOk, and_true]
    refine ⟨Or.inr ?_, ?_⟩
    · intro items h; rw [scanX] at h; cases h; simp
    · intro items h; rw [scanX] at h; cases h
      intro v hv; simp [itemsVars, operandVars] at hv; subst hv
      exact pathX

/-- stage 6 of `RenderParsePrint`, PARTIAL: one `<loop set="S" value="V">body</loop>` or
`<loop value="V">body</loop>` (`S = []`: the loop runs over the root) between two segment runs
(stage 3 segments, at top level).  The exact class:
* `S` (the set path): free of `{ < } " >`, when present of the documented path shape, at most 235
  units (the value name's offset must fit the tag's 8-bit field: known finding
  name-of-256-units-or-more);
* `V` (the value name): free of `{ < } " >`, at most 255 units;
* `body`: text, `{var:path}` and `{raw:path}` segments (`okB`: no `{math:}`), paths of 1..255 units
  free of `{ < }` with the documented shape, and a path that STARTS with `V` is `V` followed by
  `[key]…` (`BodyPathOk`; the code compares only the first `|V|` units of a name with the value
  name, the document the whole name);
* the content is below the 32-bit limit.
The value is ARBITRARY: the collection (`collOf`: the value of `S`, or the root) may be an array
(items without keys), an object (items with their keys; an unresolved `{var:V…}` prints the escaped
key), anything else or nothing (the loop prints nothing); undefined members are skipped.  Proof
(Proofs/TmplLoop.lean): exact `next` at `<loop` / `</loop>`, exact `parseLoopAttributes` on the
printed attributes (`pla_print`, `pla_print0`), `stepLoop_gen`, `stepVar` under the loop chain
(`checkLoopVariable_one`), `loopIter` against `loopArr` / `loopObj` (`loopIter_ents`).
Not covered (see notes/design-tmpl.md): `{math:}` / blocks / loops inside the body, loops inside
blocks, `sort=` / `group=`. -/
theorem render_parse_print_loop_partial {R : Type} [RealLike R] (cx : RCtx R) (sx : SpecCtx R)
    (cfg : ScanCfg R) (segs0 : List Seg) (S V : List Nat) (body segs1 : List Seg)
    (hg : cx.guardIndexRead = true) (same : SameCtx cx sx) (hrn : cfg.readNum = cx.readNum)
    (hc : cx.content = printList (loopTpl segs0 S V body segs1))
    (h0 : ∀ s ∈ segs0, s.ok) (hp0 : ∀ s ∈ segs0, s.pathOk cfg.readNum)
    (h1 : ∀ s ∈ segs1, s.ok) (hp1 : ∀ s ∈ segs1, s.pathOk cfg.readNum)
    (hb : ∀ s ∈ body, s.okB) (hpb : ∀ s ∈ body, s.pathB V)
    (hS : plainL S) (hS34 : ∀ x ∈ S, x ≠ 34) (hSgt : ∀ x ∈ S, x ≠ 62) (hSp : S ≠ [] → PathOk S)
    (hS236 : S.length < 236)
    (hV : plainL V) (hV34 : ∀ x ∈ V, x ≠ 34) (hVgt : ∀ x ∈ V, x ≠ 62) (hV256 : V.length < 256)
    (hn : cx.content.length + 16 < 4294967296) (fuel fuel' : Nat) :
    (parse cfg cx.content).bind (fun tags => renderTop cx tags
        ((entsO (collOf cx S)).length + nTags body + nTags segs1 + 5 + fuel + nTags segs0)) =
      .ok (expand sx (loopTpl segs0 S V body segs1)
        (segs0.length + segs1.length + (entsO (collOf cx S)).length + body.length + 4 + fuel')) := by
  rw [expand, same.eq]
  exact loop_partial cx cfg segs0 S V body segs1 hg hrn hc h0 hp0 h1 hp1 hb hpb hS hS34 hSgt hSp hS236 hV hV34 hVgt
    hV256 hn fuel fuel'

/-- non-vacuity: `<loop set="a" value="v">{var:v}</loop>` (and, with `S = []`, `<loop value="v">{var:v}</loop>`) -/
example {R : Type} (rn : List Nat → Option (Num R)) :
    (∀ s ∈ [Seg.var [118]], s.okB) ∧ (∀ s ∈ [Seg.var [118]], s.pathB [118]) ∧ PathOk [97] ∧ plainL [97] ∧
      plainL [118] := by
  refine ⟨?_, ?_, ?_, ?_, ?_⟩
  · intro s hs; simp at hs; subst hs
    exact ⟨by intro x hx; simp at hx; subst hx; unfold plainU; decide, by simp, by simp⟩
  · intro s hs; simp at hs; subst hs
    exact ⟨[118], [], by simp [brk], by simp, (by intro x hx; simp at hx; subst hx; decide), (by intro k hk; cases hk),
      fun _ => rfl⟩
  · exact ⟨[97], [], by simp [brk], by simp, (by intro x hx; simp at hx; subst hx; decide), (by intro k hk; cases hk)⟩
  · intro x hx; simp at hx; subst hx; unfold plainU; decide
  · intro x hx; simp at hx; subst hx; unfold plainU; decide

/-- stages 7 + 8 + 9 of `RenderParsePrint`: TREES of segment runs, inline `{if case="e" true="T" false="F"}`
tags (either value may be missing, not both; `T`, `F` runs of segments free of `"`; the tag shorter
than 65536 units), super variables `{svar:path, a1, …, an}` (1 ≤ n ≤ 10, every `ai` a `{var:}`,
`{raw:}` or `{math:}` tag; the path free of `,` and not starting with the value name of an enclosing
loop — the code reads a super variable's path from the root only), `<if>`/`<elseif>`/`<else />` chains and
`<loop [set="S"] value="V">` loops, nested in any order to any depth (`GTs`): loops inside loops, ifs
inside loops, loops inside if branches, inline ifs anywhere; loop variables in `{var:}`, `{raw:}`, `{math:}` operands,
`case=` operands and in the `set=` of an inner loop; shadowing of an outer value name by an inner
one.  For EVERY value, number reader, formatter and escape switch: parse + render = the documented
expansion.  The exact class:
* `ok`: texts and paths free of `{ < }`, paths 1..255 units; `{math:}` texts `MathOk`; case texts
  free of `"`; loop attributes `HdrOk` (`S`, `V` free of `{ < } " >`, `|S| < 236`, `|V| < 256`);
* `pathV`: every `{var:}`/`{raw:}` path, every operand path the scanner finds in a `{math:}` / case
  text and every non-empty `set=` path has the documented shape and — the one semantic side
  condition — a path that STARTS with the value name of an enclosing loop IS that loop's variable
  (its name part is the value name): the code compares only the first `|V|` units
  (`checkLoopVariable`), the document the whole name; `{math:}` / case texts shorter than 65536
  units (the expression scanner keeps an operand's length in 16 bits);
* `caseV`: every case text of a chain with more than one branch is an expression (see the
  observations in notes/design-tmpl.md);
* the content is below the 32-bit limit.
Proof (Proofs/TmplGen.lean, TmplGenRender.lean): the parser lemmas of the earlier stages for a state
with any loop chain; `checkLoopVariable` = first (innermost) enclosing loop whose value name is a
prefix (`checkLoopVariable_D`, `findV`); `stepLoop_hdr` under a parent chain; `parse_gt`/`parse_gts`/
`parse_gtail` by mutual recursion over the tree, parametric in chain and stack (`Level` = stack
depth); `getValue_env` (`getValue`/`loopKeyText` under the enclosing loops = `resolve` under their
bindings: both pick the first entry whose name is the path's name); `evalExprs_env` and `pvD_scan`
(relocation of scanned expressions under a chain); `loopIter_gen` (one body rendering per defined
item, the items of the enclosing loops untouched at their levels: `ItemsOk`); `render_gt` /
`render_gts` / `render_gtail`; `expand_gt` on the reference side.  Render fuel `rneedGTs` and
reference fuel `eneedGTs` depend on the value (one unit per loop item, summed over nested loops).
Inline if (Proofs/TmplIifParse.lean, TmplIifRender.lean): `next_at_iif`, `iifQuote_parts` (the search for the
case's closing quote across its `{var:}` operands), `stepIif_print`, the values parsed as segments
in a state inside an inline container (`stAtC`), `iifAttrs_chain`, `closeIif_gen` with `iif_facts`
(start id = number of sub tags of the first value; every sub tag inside the value it is rendered
with), `renderIif_env` (three-valued case decision `case_val_env`, sub tags selected by the start
ids).
Super variable (Proofs/TmplSvarParse.lean, TmplSvarRender.lean, EscapeSplit.lean): `next_at_svar`,
`stepSvar_print`, the arguments parsed as segments inside the container, `parse_svar`; the phrase
loop `svarLoop` against a structural `{i}` replacement `expPhrase` (`svarLoop_phrase`: the code
flushes and escapes the pending text at EVERY `{`, the document only when a `{i}` is replaced —
equal because no entity contains a `{`: `escape_append_brace`), `renderArg_args`, `renderSvar_env`;
on the reference side `phraseLoop_eq`, which needs the units of a phrase below 2^32 (the code
computes `unit - '0'` in 32 bits) — hypothesis `hU` over the values reachable in the document
(`Reach`).  Not covered: `sort=`/`group=`. -/
theorem render_parse_print_loops {R : Type} [RealLike R] (cx : RCtx R) (sx : SpecCtx R)
    (cfg : ScanCfg R) (bs : GTs) (hg : cx.guardIndexRead = true) (same : SameCtx cx sx)
    (hrn : cfg.readNum = cx.readNum)
    (hc : cx.content = printList (gtsTpl bs)) (hok : bs.ok) (hpath : bs.pathV cfg.readNum [])
    (hcase : bs.caseV cfg.readNum)
    (hU : ∀ s, Reach cx.root (.str s) → ∀ x ∈ s, x < 2 ^ 32)
    (hn : cx.content.length + 16 < 4294967296) (fuel fuel' : Nat) :
    (parse cfg cx.content).bind (fun tags => renderTop cx tags (rneedGTs cx [] bs + rcostGTs bs + fuel)) =
      .ok (expand sx (gtsTpl bs) (eneedGTs cx [] bs + fuel')) := by
  rw [printGTs_eq] at hc
  have hn' := hn
  rw [hc] at hn'
  have hp := Qentem.Tmpl.parse_gtree cfg bs hok hn'
  rw [← hc] at hp
  rw [hp]
  simp only [Except.bind]
  rw [show rneedGTs cx [] bs + rcostGTs bs + fuel = (rneedGTs cx [] bs + fuel) + rcostGTs bs by omega,
    renderTop_gtree cx cfg hg hrn bs hc (by omega) hok hpath hcase _ (by omega), expand, same.eq,
    expand_gts cx hU bs [] _ hok (by intro b hb; cases hb) (by omega)]

/-- non-vacuity of the class of `render_parse_print_loops`:
`<loop set="a" value="v"><if case="{var:v[x]} == 1">{math:{var:v[x]}+1}<else /><loop set="v[l]" value="w">{var:w}{var:v[n]}</loop></if></loop>` -/
def caseL : List Nat := [123, 118, 97, 114, 58, 118, 91, 120, 93, 125, 32, 61, 61, 32, 49]
def mathL : List Nat := [123, 118, 97, 114, 58, 118, 91, 120, 93, 125, 43, 49]
def treeL : GTs :=
  .cons (.loop [97] [118]
    (.cons (.ifc caseL (.cons (.segs [.math mathL]) .nil)
      (.els (.cons (.loop [118, 91, 108, 93] [119] (.cons (.segs [.var [119], .var [118, 91, 110, 93]]) .nil)) .nil))) .nil)) .nil
theorem scanCL {R : Type} : parseTop ({ readNum := rdX } : ScanCfg R) (caseL ++ [34]) 0 caseL.length =
    .ok [(.var ⟨5, 4, 0, 0⟩, .equal), (.num (.nat 1), .noOp)] := by
  with_unfolding_all rfl
theorem scanML {R : Type} : parseTop ({ readNum := rdX } : ScanCfg R) (mathL ++ [125]) 0 mathL.length =
    .ok [(.var ⟨5, 4, 0, 0⟩, .add), (.num (.nat 1), .noOp)] := by
  with_unfolding_all rfl
theorem pathVx (k : Nat) (hk : k ≠ 91 ∧ k ≠ 93) (Vs : List (List Nat)) (hVs : ∀ V ∈ Vs, V = [118] ∨ V = [119]) :
    PathOkV Vs [118, 91, k, 93] := by
  refine ⟨[118], [[k]], by simp [brk], by simp, (by intro x hx; simp at hx; subst hx; decide),
    (by intro q hq; simp at hq; subst hq; intro x hx; simp at hx; subst hx; exact hk), ?_⟩
  intro V hV hp
  rcases hVs V hV with h | h
  · exact h.symm
  · subst h; simp [List.isPrefixOf] at hp
theorem plain1 (x : Nat) (h : x ≠ 123 ∧ x ≠ 60 ∧ x ≠ 125) : plainL [x] := by
  intro y hy; simp at hy; subst hy; exact h
example {R : Type} : treeL.ok ∧ treeL.pathV (rdX (R := R)) [] ∧ treeL.caseV (rdX (R := R)) := by
  have hp4 : ∀ k, k ≠ 123 ∧ k ≠ 60 ∧ k ≠ 125 → plainL [118, 91, k, 93] := by
    intro k hk x hx; simp at hx; rcases hx with h | h | h | h <;> subst h <;> first | exact hk | (unfold plainU; decide)
  refine ⟨?_, ?_, ?_⟩
  · simp only [treeL, GTs.ok, GT.ok, GTail.ok, and_true]
    refine ⟨⟨plain1 97 (by decide), by decide, by decide, by decide, plain1 118 (by decide), by decide, by decide, by decide⟩,
      by decide, ?_, ⟨hp4 108 (by decide), by decide, by decide, by decide, plain1 119 (by decide), by decide, by decide, by decide⟩, ?_⟩
    · intro s hs; simp at hs; subst hs
      exact ⟨[([], [118, 91, 120, 93])], [43, 49], by simp [mathL, printMP],
        by intro x hx; simp at hx; rcases hx with h | h <;> subst h <;> (unfold plainU; decide),
        by intro tp htp; simp at htp; subst htp; exact ⟨(by intro x hx; cases hx), hp4 120 (by decide)⟩⟩
    · intro s hs; simp at hs
      rcases hs with h | h <;> subst h
      · exact ⟨plain1 119 (by decide), by simp, by simp⟩
      · exact ⟨hp4 110 (by decide), by simp, by simp⟩
  · simp only [treeL, GTs.pathV, GT.pathV, GTail.pathV, and_true]
    refine ⟨fun _ => ⟨[97], [], by simp [brk], by simp, (by intro x hx; simp at hx; subst hx; decide),
      (by intro k hk; cases hk), (by intro V hV; cases hV)⟩, ⟨?_, by decide⟩, ?_, fun _ => pathVx 108 (by decide) _ (by intro V hV; simp at hV; exact Or.inl hV), ?_⟩
    · intro items h; rw [scanCL] at h; cases h
      intro v hv; simp [itemsVars, operandVars] at hv; subst hv
      exact pathVx 120 (by decide) _ (by intro V hV; simp at hV; exact Or.inl hV)
    · intro s hs; simp at hs; subst hs
      refine ⟨?_, by decide⟩
      intro items h; rw [scanML] at h; cases h
      intro v hv; simp [itemsVars, operandVars] at hv; subst hv
      exact pathVx 120 (by decide) _ (by intro V hV; simp at hV; exact Or.inl hV)
    · intro s hs; simp at hs
      rcases hs with h | h <;> subst h
      · refine ⟨[119], [], by simp [brk], by simp, (by intro x hx; simp at hx; subst hx; decide), (by intro k hk; cases hk), ?_⟩
        intro V hV hp
        simp at hV
        rcases hV with h | h <;> subst h
        · rfl
        · simp [List.isPrefixOf] at hp
      · exact pathVx 110 (by decide) _ (by intro V hV; simp at hV; rcases hV with h | h; exact Or.inr h; exact Or.inl h)
  · simp only [treeL, GTs.caseV, GT.caseV, GTail.caseV, and_true]
    refine Or.inr ?_
    intro items h; rw [scanCL] at h; cases h; simp

/-- non-vacuity with an inline if inside a loop over the root:
`<loop value="v">{if case="{var:v} == 1" true="{var:v}" false="no"}</loop>` -/
def caseI : List Nat := [123, 118, 97, 114, 58, 118, 125, 32, 61, 61, 32, 49]
def treeI : GTs :=
  .cons (.loop [] [118] (.cons (.iif caseI (some [.var [118]]) (some [.text [110, 111]])) .nil)) .nil
theorem scanCI {R : Type} : parseTop ({ readNum := rdX } : ScanCfg R) (caseI ++ [34]) 0 caseI.length =
    .ok [(.var ⟨5, 1, 0, 0⟩, .equal), (.num (.nat 1), .noOp)] := by
  with_unfolding_all rfl
example {R : Type} : treeI.ok ∧ treeI.pathV (rdX (R := R)) [] ∧ treeI.caseV (rdX (R := R)) := by
  have hpv : PathOkV [[118]] [118] :=
    ⟨[118], [], by simp [brk], by simp, (by intro x hx; simp at hx; subst hx; decide), (by intro k hk; cases hk),
      fun V hV _ => by simp at hV; exact hV.symm⟩
  refine ⟨?_, ?_, ?_⟩
  · simp only [treeI, GTs.ok, GT.ok, and_true]
    refine ⟨⟨(by intro x hx; cases hx), (by intro x hx; cases hx), (by intro x hx; cases hx), (by decide),
      plain1 118 (by decide), (by decide), (by decide), (by decide)⟩, ?_, by decide, ?_, ?_, Or.inl (by simp), by decide⟩
    · exact ⟨[([], [118])], [32, 61, 61, 32, 49], by simp [caseI, printMP],
        (by intro x hx; simp at hx; rcases hx with h | h | h | h <;> subst h <;> (unfold plainU; decide)),
        (by intro tp htp; simp at htp; subst htp; exact ⟨(by intro x hx; cases hx), plain1 118 (by decide)⟩)⟩
    · intro l hl; cases hl
      exact ⟨(by intro s hs; simp at hs; subst hs; exact ⟨plain1 118 (by decide), by simp, by simp⟩), (by decide)⟩
    · intro l hl; cases hl
      exact ⟨(by intro s hs; simp at hs; subst hs; intro x hx; simp at hx; rcases hx with h | h <;> subst h <;> (unfold plainU; decide)),
        (by decide)⟩
  · simp only [treeI, GTs.pathV, GT.pathV, and_true]
    refine ⟨fun h => absurd rfl h, ⟨?_, by decide⟩, ?_, ?_⟩
    · intro items h; rw [scanCI] at h; cases h
      intro v hv; simp [itemsVars, operandVars] at hv; subst hv
      exact hpv
    · intro l hl; cases hl
      intro s hs; simp at hs; subst hs; exact hpv
    · intro l hl; cases hl
      intro s hs; simp at hs; subst hs; trivial
  · simp [treeI, GTs.caseV, GT.caseV]

/-- non-vacuity with a super variable inside a loop over the root, its arguments a loop variable and
an expression: `<loop value="v">{svar:t, {var:v}, {math:1+1}}</loop>` -/
def treeS : GTs :=
  .cons (.loop [] [118] (.cons (.svar [116] [.var [118], .math [49, 43, 49]]) .nil)) .nil
theorem scanSv {R : Type} : parseTop ({ readNum := rdX } : ScanCfg R) ([49, 43, 49] ++ [125]) 0 3 =
    .ok [(.num (.nat 1), .add), (.num (.nat 1), .noOp)] := by
  with_unfolding_all rfl
theorem treeS_wf {R : Type} : treeS.ok ∧ treeS.pathV (rdX (R := R)) [] ∧ treeS.caseV (rdX (R := R)) := by
  refine ⟨?_, ?_, ?_⟩
  · simp only [treeS, GTs.ok, GT.ok, and_true]
    refine ⟨⟨(by intro x hx; cases hx), (by intro x hx; cases hx), (by intro x hx; cases hx), (by decide),
      plain1 118 (by decide), (by decide), (by decide), (by decide)⟩, plain1 116 (by decide), (by decide), (by decide),
      (by decide), ?_, (by simp), (by decide)⟩
    intro a ha; simp at ha
    rcases ha with h | h <;> subst h
    · exact ⟨⟨plain1 118 (by decide), by simp, by simp⟩, trivial⟩
    · exact ⟨⟨[], [49, 43, 49], by simp [printMP],
        (by intro x hx; simp at hx; rcases hx with h | h | h <;> subst h <;> (unfold plainU; decide)),
        (by intro tp htp; cases htp)⟩, trivial⟩
  · simp only [treeS, GTs.pathV, GT.pathV, and_true]
    refine ⟨fun h => absurd rfl h, ⟨[116], [], by simp [brk], by simp, (by intro x hx; simp at hx; subst hx; decide),
      (by intro k hk; cases hk), (by intro V hV hp; simp at hV; subst hV; simp [List.isPrefixOf] at hp)⟩,
      (by intro V hV; simp at hV; subst hV; rfl), ?_⟩
    intro a ha; simp at ha
    rcases ha with h | h <;> subst h
    · exact ⟨[118], [], by simp [brk], by simp, (by intro x hx; simp at hx; subst hx; decide), (by intro k hk; cases hk),
        fun V hV _ => by simp at hV; exact hV.symm⟩
    · refine ⟨?_, by decide⟩
      intro items h
      rw [show ([49, 43, 49] : List Nat).length = 3 from rfl, scanSv] at h; cases h
      intro v hv; simp [itemsVars, operandVars] at hv
  · simp [treeS, GTs.caseV, GT.caseV]

/-- a concrete instance of `render_parse_print_loops` (all hypotheses discharged, the reference
expansion evaluated by the kernel): the template
`<loop value="v">{svar:t, {var:v}, {math:1+1}}</loop>` on the value `{"t": "x{0}y{1}"}` -/
def phraseS : List Nat := [120, 123, 48, 125, 121, 123, 49, 125]   -- x{0}y{1}
def rootS : Doc := .obj [([116], .str phraseS)]
def cxS : RCtx Rat :=
  { content := printList (gtsTpl treeS), root := rootS, readNum := rdX, realOfBits := fun _ => 0,
    fmtReal := fun _ => [], groupBy := fun _ _ => none, sortDoc := fun d _ => d, realBits := fun _ => 0 }

theorem reachS : ∀ d, Reach rootS d → d = rootS ∨ d = .str phraseS := by
  intro d h
  induction h with
  | root => exact Or.inl rfl
  | key d d' k _ hk ih =>
    rcases ih with h | h
    · subst h
      simp only [rootS, Doc.getKey] at hk
      split at hk
      · rename_i kk v hf
        have := List.mem_of_find?_eq_some hf
        simp at this
        split at hk
        · cases hk
        · cases hk; right; exact this.2
      · cases hk
    · subst h; simp [Doc.getKey] at hk
  | item xs x hr _ ih =>
    rcases ih with h | h <;> simp [rootS] at h
  | mem ms k x _ hm ih =>
    rcases ih with h | h
    · simp only [rootS, Doc.obj.injEq] at h
      subst h
      simp at hm
      right; exact hm.2
    · cases h

theorem render_parse_print_instance :
    (parse ({ readNum := rdX } : ScanCfg Rat) cxS.content).bind
        (fun tags => renderTop cxS tags (rneedGTs cxS [] treeS + rcostGTs treeS + 0)) =
      .ok ([120] ++ phraseS ++ [121, 50]) := by
  have hex : expand (specOf cxS) (gtsTpl treeS) (eneedGTs cxS [] treeS + 0) = [120] ++ phraseS ++ [121, 50] := by
    with_unfolding_all rfl
  rw [← hex]
  have hwf : treeS.ok ∧ treeS.pathV (rdX (R := Rat)) [] ∧ treeS.caseV (rdX (R := Rat)) := treeS_wf
  exact render_parse_print_loops cxS (specOf cxS) { readNum := rdX } treeS rfl ⟨rfl, rfl, rfl, rfl, rfl, rfl⟩ rfl rfl
    hwf.1 hwf.2.1 hwf.2.2
    (by
      intro s hs x hx
      rcases reachS _ hs with h | h
      · simp [rootS] at h
      · cases h
        have : ∀ y ∈ phraseS, y < 2 ^ 32 := by decide
        exact this x hx)
    (by decide) 0 0

/-- the class of `render_parse_print_loops` as a predicate on templates -/
def WellFormedT {R : Type} (rn : List Nat → Option (Num R)) (t : List Tpl) : Prop :=
  ∃ bs : GTs, t = gtsTpl bs ∧ bs.ok ∧ bs.pathV rn [] ∧ bs.caseV rn

/-- `RenderParsePrint` for the templates of the class (every node kind of `Tpl`): some fuel on each
side makes parse + render print the documented expansion -/
theorem render_parse_print_wf {R : Type} [RealLike R] (cx : RCtx R) (sx : SpecCtx R)
    (cfg : ScanCfg R) (t : List Tpl) (hg : cx.guardIndexRead = true) (same : SameCtx cx sx)
    (hrn : cfg.readNum = cx.readNum) (hwf : WellFormedT cfg.readNum t)
    (hc : cx.content = printList t)
    (hU : ∀ s, Reach cx.root (.str s) → ∀ x ∈ s, x < 2 ^ 32)
    (hn : cx.content.length + 16 < 4294967296) :
    ∃ fuel fuel', (parse cfg cx.content).bind (fun tags => renderTop cx tags fuel) = .ok (expand sx t fuel') := by
  obtain ⟨bs, rfl, hok, hpath, hcase⟩ := hwf
  exact ⟨_, _, render_parse_print_loops cx sx cfg bs hg same hrn hc hok hpath hcase hU hn 0 0⟩

/-- side conditions under which the document determines the output (the generator of
`checks/c02.py` produces exactly such templates) — informal list kept next to the statement:
names and keys free of `{ } < > [ ] " ' = ,` and spaces; loop value names not a prefix of any other
name used inside the loop; attribute texts free of their quote and of `{ } <` outside tags;
texts free of `{ } <`; at least one sub-variable in a super variable; names ≤ 255 units, attribute
offsets < 256 (loop) / < 65536 (inline if); integers only. -/
def RenderParsePrint : Prop :=
  ∀ (R : Type) [RealLike R] (cx : RCtx R) (sx : SpecCtx R) (cfg : ScanCfg R) (t : List Tpl)
    (_wellFormed : True) (_same : cx.root = sx.root ∧ cx.content = printList t),
    ∃ fuel fuel', (parse cfg cx.content).bind (fun tags => renderTop cx tags fuel) =
      .ok (expand sx t fuel')

end Qentem.Props.C02
