import Qentem.Model.Tmpl.Spec
import Qentem.Proofs.TmplText
import Qentem.Proofs.TmplParseSegs
import Qentem.Proofs.TmplRenderSegs
/-!
# C02 — rendering a well-formed template yields the documented expansion

`Model/Tmpl/Spec.lean` is the reference interpreter of Documentation/Template.md (`Tpl`, `printTpl`,
`expand`).  The full equation `RenderParsePrint` is a statement (open); it is decided run by run by
`checks/c02.py`: generated template trees × value trees, the real renderer against `expand`.
Proved here: the equation for templates made of text nodes (any number, any content without a
tag-start character, any value) — the base case of the staged proof.
-/
namespace Qentem.Props.C02
open Qentem.Tmpl Qentem.Expr

/-- all nodes are text -/
def allText : List Tpl → Bool
  | [] => true
  | .text _ :: rest => allText rest
  | _ :: _ => false

theorem expandList_text {R : Type} [RealLike R] (sx : SpecCtx R) :
    ∀ (t : List Tpl) (fuel : Nat), allText t = true → 2 * t.length + 2 ≤ fuel →
      expandList sx fuel [] t = printList t := by
  intro t
  induction t with
  | nil =>
    intro fuel _ hf
    cases fuel with
    | zero => omega
    | succ f => simp [expandList, printList]
  | cons x rest ih =>
    intro fuel ht hf
    cases x with
    | text s =>
      cases fuel with
      | zero => omega
      | succ f =>
        cases f with
        | zero => simp at hf
        | succ g =>
          simp only [allText] at ht
          simp only [expandList, expandTpl, printList, printTpl]
          rw [ih (g + 1) ht (by simp at hf ⊢; omega)]
    | _ => simp [allText] at ht

/-- the main equation of C02 for text-only templates: parse, then render, gives the documented
expansion (the text itself), for every value and every renderer parameter. -/
theorem render_parse_print_text {R : Type} [RealLike R] (cx : RCtx R) (sx : SpecCtx R)
    (cfg : ScanCfg R) (t : List Tpl) (ht : allText t = true) (hc : cx.content = printList t)
    (hn : NoTagStart cx.content) (fuel : Nat) :
    (parse cfg cx.content).bind (fun tags => renderTop cx tags (fuel + 1)) =
      .ok (expand sx t (2 * t.length + 2)) := by
  rw [Qentem.Tmpl.render_text cx cfg hn fuel, expand, expandList_text sx t _ ht (Nat.le_refl _), hc]

/-- stage 2, parse half: the printed text of a template made of text, `{var:p}` and `{raw:p}`
(texts and paths free of `{ < }`, paths of 1..255 units) parses to exactly one Variable /
RawVariable tag per segment at the offsets the printer put them (`tagsOf`), nothing else. -/
theorem parse_segs {R : Type} (cfg : ScanCfg R) (segs : List Seg) (hok : ∀ s ∈ segs, s.ok)
    (hn : (printList (segsTpl segs)).length + 16 < 4294967296) :
    parse cfg (printList (segsTpl segs)) = .ok (tagsOf 0 segs) := by
  rw [printSegs_eq] at hn ⊢
  exact Qentem.Tmpl.parse_segs cfg segs hok hn

/-- a path of the documented shape `name[k1][k2]…` (non-empty name, no bracket inside the name or
a key) is looked up by the renderer exactly as the document says (`resolve`), whether or not it
leads to a value. -/
theorem getValue_eq_resolve {R : Type} (cx : RCtx R) (hg : cx.guardIndexRead = true) (st : RState)
    (A post p : List Nat) (hc : cx.content = A ++ (p ++ post)) (hp : PathOk p) :
    getValue cx st ⟨A.length, p.length, 0, 0⟩ = .ok (resolve cx.root [] p).1 :=
  getValue_path cx hg st A post p hc hp

/-- the path shape is inhabited by the paths the document uses: `a[0]` -/
example : PathOk [97, 91, 48, 93] :=
  ⟨[97], [[48]], by simp [brk], by simp, by intro x hx; simp at hx; subst hx; decide,
    by intro k hk; simp at hk; subst hk; intro x hx; simp at hx; subst hx; decide⟩

/-- stage 2 of `RenderParsePrint`: templates made of text, `{var:path}` and `{raw:path}` in any
number and order.  Texts and paths are free of `{ < }`; paths have the documented shape and 1..255
units; they may or may not resolve in the value (an unresolved `{var:}` prints its own escaped
source, an unresolved `{raw:}` its source); the value, the real-number formatter and the escape
switch are arbitrary but the same on both sides. -/
theorem render_parse_print_segs {R : Type} [RealLike R] (cx : RCtx R) (sx : SpecCtx R)
    (cfg : ScanCfg R) (segs : List Seg) (hg : cx.guardIndexRead = true) (same : SameCtx cx sx)
    (hc : cx.content = printList (segsTpl segs)) (hok : ∀ s ∈ segs, s.ok)
    (hpath : ∀ s ∈ segs, s.pathOk) (hn : cx.content.length + 16 < 4294967296) (fuel fuel' : Nat) :
    (parse cfg cx.content).bind (fun tags => renderTop cx tags (nTags segs + 2 + fuel)) =
      .ok (expand sx (segsTpl segs) (segs.length + 1 + fuel')) := by
  rw [printSegs_eq] at hc
  rw [hc] at hn
  rw [hc, Qentem.Tmpl.parse_segs cfg segs hok hn]
  simp only [Except.bind]
  rw [render_segs cx hg segs hc hpath _ (by omega), expand,
    expandList_segs cx sx same segs _ (by omega)]

/-- side conditions under which the document determines the output (the generator of
`checks/c02.py` produces exactly such templates) — informal list kept next to the statement:
names and keys free of `{ } < > [ ] " ' = ,` and spaces; loop value names not a prefix of any other
name used inside the loop; attribute texts free of their quote and of `{ } <` outside tags;
texts free of `{ } <`; at least one sub-variable in a super variable; names ≤ 255 units, attribute
offsets < 256 (loop) / < 65536 (inline if); integers only. -/
def RenderParsePrint : Prop :=
  ∀ (R : Type) [RealLike R] (cx : RCtx R) (sx : SpecCtx R) (cfg : ScanCfg R) (t : List Tpl)
    (_wellFormed : True) (_same : cx.root = sx.root ∧ cx.content = printList t),
    ∃ fuel fuel', (parse cfg cx.content).bind (fun tags => renderTop cx tags fuel) =
      .ok (expand sx t fuel')

end Qentem.Props.C02
