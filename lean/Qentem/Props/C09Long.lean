import Qentem.Props.C09More
import Qentem.Proofs.StrToNumCut
import Qentem.Proofs.StrToNumLongInt
/-! C09 — mantissas with more fraction digits than the 19-unit window holds (no exponent, or an exponent that leaves the net decimal exponent negative): `0.000ddd…` with 19 or more
significant digits and `ddd.ddd…` with 18 digits in the window and any number of further fraction digits. The code keeps
the first 19 resp. 18 significant digits and ignores the rest; the statements are about the **exact** value of the
whole numeral (`ClassOutcome` with the full mantissa): consumed, rejected only below the smallest subnormal, otherwise
within one ulp of the correctly rounded exact value. -/
set_option linter.unusedSimpArgs false
namespace Qentem.Props.C09
open Qentem.StrToNum Qentem.Round Qentem.Generated.StrToNum

/-- `[+-]? 0 . zs d₁ ys rest`: `zs` zeros, `d₁ ys` the first 19 significant digits, `rest` any further digits -/
theorem real_within_one_ulp_small_long_end (c : List Nat) (o e : Nat) (sign zs : List Nat) (d1 : Nat) (ys rest : List Nat)
    (he : e < 2 ^ 32) (hs : sign = [] ∨ sign = [43] ∨ sign = [45]) (hz : ∀ z ∈ zs, z = 48) (hzl : zs.length < 2 ^ 30)
    (h1 : isNonZeroDigit d1 = true) (hys : AllDigits ys) (hlen : ys.length = 18) (hrest : AllDigits rest)
    (hu : unitsAt c e o (sign ++ (([48, 46] ++ zs ++ d1 :: ys) ++ rest)))
    (hend : endsAt c e (o + sign.length + 2 + zs.length + 19 + rest.length) contReal) :
    ClassOutcome (decide (sign = [45])) (decVal (d1 :: ys ++ rest)) (zs.length + 19 + rest.length) true
      (o + sign.length + 2 + zs.length + 19 + rest.length) (strToNum c o e) := by
  have hdig := isNonZeroDigit_isDigit h1
  have hu' := (unitsAt_append c e sign (([48, 46] ++ zs ++ d1 :: ys) ++ rest) o).1 hu
  have hu1 : unitsAt c e o (sign ++ [48]) := (unitsAt_append c e sign [48] o).2 ⟨hu'.1, hu'.2.1, trivial⟩
  have hsp := (unitsAt_append c e ([48, 46] ++ zs ++ d1 :: ys) rest (o + sign.length)).1 hu'.2
  have hWl : ([48, 46] ++ zs ++ d1 :: ys).length = 2 + zs.length + 19 := by simp; omega
  have hur : unitsAt c e (o + sign.length + 2 + zs.length + 19) rest := by
    have := hsp.2; rw [hWl] at this
    rw [show o + sign.length + 2 + zs.length + 19 = o + sign.length + (2 + zs.length + 19) by omega]; exact this
  have hQe : o + sign.length + 2 + zs.length + 19 + rest.length ≤ e := by
    rcases hend with h | ⟨x, hx, _⟩
    · omega
    · exact Nat.le_of_lt (rd_lt hx)
  have hdr := digitsOn_of_unitsAt c e rest _ hrest hur
  rw [strToNum_after_sign c o e sign 48 hs hu1 (by decide)]
  rw [afterSign_small_cut c e _ (o + sign.length) zs d1 ys he hz h1 hys hlen hsp.1]
  rw [hlen]
  rw [finishReal_end_skip c e _ _ _ _ _ true true _ (o + sign.length + 2 + zs.length + 19 + rest.length)
    (by rw [show o + sign.length + 2 + zs.length + 1 + 18 = o + sign.length + 2 + zs.length + 19 by omega]; exact hdr)
    (by omega) hQe hend (Or.inl rfl) 19 (19 + zs.length)
    (by simp only [b2n, Bool.not_true, Bool.false_and, Bool.false_eq_true, if_false]
        rw [sub32_sub32 _ _ 0 (by omega) (by omega)]; omega)
    (by simp only [if_true]
        rw [sub32_sub32 _ _ 1 (by omega) (by omega), add32_eq _ _ (by omega)]; omega)
    (by omega)]
  have hne : netExp true 0 false (19 + zs.length) = (19 + zs.length, true) := by
    unfold netExp; simp
  rw [hne]
  have hall : AllDigits (d1 :: ys) := by
    intro y hy
    rcases List.mem_cons.1 hy with h | h
    · subst h; exact hdig
    · exact hys y h
  have hge := decVal_ge d1 ys h1
  rw [hlen] at hge
  have hvhi := decVal_lt_pow (d1 :: ys) hall
  have hl : (d1 :: ys).length = 19 := by simp; omega
  rw [hl] at hvhi
  have hv64 : decVal (d1 :: ys) < 2 ^ 64 := Nat.lt_of_lt_of_le hvhi (by decide)
  obtain ⟨t1, t2⟩ := decVal_trunc (d1 :: ys) rest hrest
  have hres := realResult_neg_trunc (decide (sign = [45])) (decVal (d1 :: ys)) 19 (19 + zs.length)
    (o + sign.length + 2 + zs.length + 19 + rest.length) rest.length (decVal (d1 :: ys ++ rest))
    (Nat.le_trans (by decide) hge) hv64 hvhi (by omega) (by omega) t1 (trunc_rel_of_abs _ _ _ (Nat.le_trans (by decide) hge) t2)
  rw [show 19 + zs.length + rest.length = zs.length + 19 + rest.length by omega] at hres
  exact hres

/-- `[+-]? d₁ xs . ys rest`: `d₁ xs . ys` fills the 19-unit window (18 digits), `rest` any further fraction digits -/
theorem real_within_one_ulp_frac_long_end (c : List Nat) (o e : Nat) (sign : List Nat) (d1 : Nat) (xs ys rest : List Nat)
    (he : e < 2 ^ 32) (hs : sign = [] ∨ sign = [43] ∨ sign = [45]) (h1 : isNonZeroDigit d1 = true)
    (hxs : AllDigits xs) (hys : AllDigits ys) (hy0 : ys ≠ []) (hy48 : ys ≠ [48]) (hlen : xs.length + ys.length = 17)
    (hrest : AllDigits rest)
    (hu : unitsAt c e o (sign ++ ((d1 :: xs ++ [46] ++ ys) ++ rest)))
    (hend : endsAt c e (o + sign.length + 19 + rest.length) contReal) :
    ClassOutcome (decide (sign = [45])) (decVal (d1 :: xs ++ ys ++ rest)) (ys.length + rest.length) true
      (o + sign.length + 19 + rest.length) (strToNum c o e) := by
  have hdig := isNonZeroDigit_isDigit h1
  have hf : d1 ≠ 45 ∧ d1 ≠ 43 := by simp [isDigit] at hdig; omega
  have hu' := (unitsAt_append c e sign ((d1 :: xs ++ [46] ++ ys) ++ rest) o).1 hu
  have hu1 : unitsAt c e o (sign ++ [d1]) := (unitsAt_append c e sign [d1] o).2 ⟨hu'.1, hu'.2.1, trivial⟩
  have hsp := (unitsAt_append c e (d1 :: xs ++ [46] ++ ys) rest (o + sign.length)).1 hu'.2
  have hWl : (d1 :: xs ++ [46] ++ ys).length = 19 := by simp; omega
  have hur : unitsAt c e (o + sign.length + 19) rest := by
    have := hsp.2; rw [hWl] at this; exact this
  have hQe : o + sign.length + 19 + rest.length ≤ e := by
    rcases hend with h | ⟨x, hx, _⟩
    · omega
    · exact Nat.le_of_lt (rd_lt hx)
  have hdr := digitsOn_of_unitsAt c e rest _ hrest hur
  have hW : o + sign.length + 1 + xs.length + 1 + ys.length = o + sign.length + 19 := by omega
  rw [strToNum_after_sign c o e sign d1 hs hu1 hf]
  rw [afterSign_frac_cut c e _ (o + sign.length) d1 xs ys he h1 hxs hys hy0 hy48 hlen hsp.1]
  rw [hW]
  rw [finishReal_end_skip c e _ _ _ _ _ false true _ (o + sign.length + 19 + rest.length) hdr
    (by omega) hQe hend (Or.inl rfl) 18 ys.length
    (by simp only [b2n, Bool.not_false, Bool.and_self, if_true]
        rw [sub32_sub32 _ _ 1 (by omega) (by omega)]; omega)
    (by simp only [Bool.false_eq_true, if_false, if_true]
        rw [sub32_sub32 _ _ 1 (by omega) (by omega)]; omega)
    (by omega)]
  have hylen : 0 < ys.length := by
    cases ys with
    | nil => exact absurd rfl hy0
    | cons a b => simp
  have hne : netExp false 0 false ys.length = (ys.length, true) := by
    unfold netExp; simp; omega
  rw [hne]
  have hall : AllDigits (d1 :: (xs ++ ys)) := by
    intro y hy
    simp only [List.mem_cons, List.mem_append] at hy
    rcases hy with h | h | h
    · subst h; exact hdig
    · exact hxs y h
    · exact hys y h
  have hge := decVal_ge d1 (xs ++ ys) h1
  have hl17 : (xs ++ ys).length = 17 := by simp; omega
  rw [hl17] at hge
  have hvhi := decVal_lt_pow (d1 :: (xs ++ ys)) hall
  have hl : (d1 :: (xs ++ ys)).length = 18 := by simp; omega
  rw [hl] at hvhi
  have hv64 : decVal (d1 :: (xs ++ ys)) < 2 ^ 64 := Nat.lt_of_lt_of_le hvhi (by decide)
  obtain ⟨t1, t2⟩ := decVal_trunc (d1 :: (xs ++ ys)) rest hrest
  have hres := realResult_neg_trunc (decide (sign = [45])) (decVal (d1 :: (xs ++ ys))) 18 ys.length
    (o + sign.length + 19 + rest.length) rest.length (decVal (d1 :: (xs ++ ys) ++ rest))
    (Nat.le_trans (by decide) hge) hv64 hvhi (by omega) (by omega) t1 (trunc_rel_of_abs _ _ _ hge t2)
  simpa using hres

/-- `[+-]? 0 . zs d₁ ys rest (e|E) [+-]? ks` with a negative net exponent (`10^(±ks − zeros − 19)`, always negative
for `e-…`, and for `e+k` with `k < zeros + 19`), exponent value below `10^8` (any number of digits) -/
theorem real_within_one_ulp_small_long_exp (c : List Nat) (o e : Nat) (sign zs : List Nat) (d1 : Nat) (ys rest : List Nat)
    (m : Nat) (es ks : List Nat)
    (he : e < 2 ^ 32) (hs : sign = [] ∨ sign = [43] ∨ sign = [45]) (hz : ∀ z ∈ zs, z = 48) (hzl : zs.length < 2 ^ 30)
    (h1 : isNonZeroDigit d1 = true) (hys : AllDigits ys) (hlen : ys.length = 18) (hrest : AllDigits rest)
    (hm : m = 101 ∨ m = 69) (hes : es = [] ∨ es = [43] ∨ es = [45]) (hks : AllDigits ks) (hk0 : ks ≠ [])
    (hsmall : decVal ks < 100000000)
    (hflag : (netExp true (decVal ks) (decide (es = [45])) (19 + zs.length)).2 = true)
    (hu : unitsAt c e o (sign ++ (([48, 46] ++ zs ++ d1 :: ys) ++ rest) ++ [m] ++ (es ++ ks)))
    (hend : endsAt c e (o + sign.length + 2 + zs.length + 19 + rest.length + 1 + es.length + ks.length) isDigit) :
    ClassOutcome (decide (sign = [45])) (decVal (d1 :: ys ++ rest))
      ((netExp true (decVal ks) (decide (es = [45])) (19 + zs.length)).1 + rest.length) true
      (o + sign.length + 2 + zs.length + 19 + rest.length + 1 + es.length + ks.length) (strToNum c o e) := by
  have hdig := isNonZeroDigit_isDigit h1
  have hA := (unitsAt_append c e (sign ++ (([48, 46] ++ zs ++ d1 :: ys) ++ rest) ++ [m]) (es ++ ks) o).1 hu
  have hB := (unitsAt_append c e (sign ++ (([48, 46] ++ zs ++ d1 :: ys) ++ rest)) [m] o).1 hA.1
  have hu' := (unitsAt_append c e sign (([48, 46] ++ zs ++ d1 :: ys) ++ rest) o).1 hB.1
  have hu1 : unitsAt c e o (sign ++ [48]) := (unitsAt_append c e sign [48] o).2 ⟨hu'.1, hu'.2.1, trivial⟩
  have hsp := (unitsAt_append c e ([48, 46] ++ zs ++ d1 :: ys) rest (o + sign.length)).1 hu'.2
  have hWl : ([48, 46] ++ zs ++ d1 :: ys).length = 2 + zs.length + 19 := by simp; omega
  have hur : unitsAt c e (o + sign.length + 2 + zs.length + 19) rest := by
    have := hsp.2; rw [hWl] at this
    rw [show o + sign.length + 2 + zs.length + 19 = o + sign.length + (2 + zs.length + 19) by omega]; exact this
  have hM : rd c e (o + sign.length + 2 + zs.length + 19 + rest.length) = some m := by
    have := hB.2.1
    simp only [List.length_append, List.length_cons, List.length_nil] at this
    rw [show o + sign.length + 2 + zs.length + 19 + rest.length =
      o + (sign.length + (0 + 1 + 1 + zs.length + (ys.length + 1) + rest.length)) by omega]
    exact this
  have hE : unitsAt c e (o + sign.length + 2 + zs.length + 19 + rest.length + 1) (es ++ ks) := by
    have := hA.2
    simp only [List.length_append, List.length_cons, List.length_nil] at this
    rw [show o + sign.length + 2 + zs.length + 19 + rest.length + 1 =
      o + (sign.length + (0 + 1 + 1 + zs.length + (ys.length + 1) + rest.length) + (0 + 1)) by omega]
    exact this
  have hMlt := rd_lt hM
  have hdr := digitsOn_of_unitsAt c e rest _ hrest hur
  rw [strToNum_after_sign c o e sign 48 hs hu1 (by decide)]
  rw [afterSign_small_cut c e _ (o + sign.length) zs d1 ys he hz h1 hys hlen hsp.1]
  rw [hlen]
  rw [finishReal_exp_skip c e _ _ _ _ _ true true _ (o + sign.length + 2 + zs.length + 19 + rest.length) m es ks
    (by rw [show o + sign.length + 2 + zs.length + 1 + 18 = o + sign.length + 2 + zs.length + 19 by omega]; exact hdr)
    (by omega) hM hm he hes hks hk0 hE hend (Or.inl rfl) hsmall 19 (19 + zs.length)
    (by simp only [b2n, Bool.not_true, Bool.false_and, Bool.false_eq_true, if_false]
        rw [sub32_sub32 _ _ 0 (by omega) (by omega)]; omega)
    (by simp only [if_true]
        rw [sub32_sub32 _ _ 1 (by omega) (by omega), add32_eq _ _ (by omega)]; omega)
    (by omega)]
  rw [hflag]
  have hall : AllDigits (d1 :: ys) := by
    intro y hy
    rcases List.mem_cons.1 hy with h | h
    · subst h; exact hdig
    · exact hys y h
  have hge := decVal_ge d1 ys h1
  rw [hlen] at hge
  have hvhi := decVal_lt_pow (d1 :: ys) hall
  have hl : (d1 :: ys).length = 19 := by simp; omega
  rw [hl] at hvhi
  have hv64 : decVal (d1 :: ys) < 2 ^ 64 := Nat.lt_of_lt_of_le hvhi (by decide)
  obtain ⟨t1, t2⟩ := decVal_trunc (d1 :: ys) rest hrest
  have hX : (netExp true (decVal ks) (decide (es = [45])) (19 + zs.length)).1 < 2 ^ 31 := by
    unfold netExp
    split
    · simp; omega
    · split <;> simp <;> omega
  exact realResult_neg_trunc (decide (sign = [45])) (decVal (d1 :: ys)) 19 _
    _ rest.length (decVal (d1 :: ys ++ rest))
    (Nat.le_trans (by decide) hge) hv64 hvhi (by omega) hX t1 (trunc_rel_of_abs _ _ _ (Nat.le_trans (by decide) hge) t2)

/-- `[+-]? d₁ xs . ys rest (e|E) [+-]? ks` with a negative net exponent, exponent value below `10^8` -/
theorem real_within_one_ulp_frac_long_exp (c : List Nat) (o e : Nat) (sign : List Nat) (d1 : Nat) (xs ys rest : List Nat)
    (m : Nat) (es ks : List Nat)
    (he : e < 2 ^ 32) (hs : sign = [] ∨ sign = [43] ∨ sign = [45]) (h1 : isNonZeroDigit d1 = true)
    (hxs : AllDigits xs) (hys : AllDigits ys) (hy0 : ys ≠ []) (hy48 : ys ≠ [48]) (hlen : xs.length + ys.length = 17)
    (hrest : AllDigits rest)
    (hm : m = 101 ∨ m = 69) (hes : es = [] ∨ es = [43] ∨ es = [45]) (hks : AllDigits ks) (hk0 : ks ≠ [])
    (hsmall : decVal ks < 100000000)
    (hflag : (netExp false (decVal ks) (decide (es = [45])) ys.length).2 = true)
    (hu : unitsAt c e o (sign ++ ((d1 :: xs ++ [46] ++ ys) ++ rest) ++ [m] ++ (es ++ ks)))
    (hend : endsAt c e (o + sign.length + 19 + rest.length + 1 + es.length + ks.length) isDigit) :
    ClassOutcome (decide (sign = [45])) (decVal (d1 :: xs ++ ys ++ rest))
      ((netExp false (decVal ks) (decide (es = [45])) ys.length).1 + rest.length) true
      (o + sign.length + 19 + rest.length + 1 + es.length + ks.length) (strToNum c o e) := by
  have hdig := isNonZeroDigit_isDigit h1
  have hf : d1 ≠ 45 ∧ d1 ≠ 43 := by simp [isDigit] at hdig; omega
  have hA := (unitsAt_append c e (sign ++ ((d1 :: xs ++ [46] ++ ys) ++ rest) ++ [m]) (es ++ ks) o).1 hu
  have hB := (unitsAt_append c e (sign ++ ((d1 :: xs ++ [46] ++ ys) ++ rest)) [m] o).1 hA.1
  have hu' := (unitsAt_append c e sign ((d1 :: xs ++ [46] ++ ys) ++ rest) o).1 hB.1
  have hu1 : unitsAt c e o (sign ++ [d1]) := (unitsAt_append c e sign [d1] o).2 ⟨hu'.1, hu'.2.1, trivial⟩
  have hsp := (unitsAt_append c e (d1 :: xs ++ [46] ++ ys) rest (o + sign.length)).1 hu'.2
  have hWl : (d1 :: xs ++ [46] ++ ys).length = 19 := by simp; omega
  have hur : unitsAt c e (o + sign.length + 19) rest := by
    have := hsp.2; rw [hWl] at this; exact this
  have hM : rd c e (o + sign.length + 19 + rest.length) = some m := by
    have := hB.2.1
    simp only [List.length_append, List.length_cons, List.length_nil] at this
    rw [show o + sign.length + 19 + rest.length =
      o + (sign.length + (xs.length + 1 + (0 + 1) + ys.length + rest.length)) by omega]
    exact this
  have hE : unitsAt c e (o + sign.length + 19 + rest.length + 1) (es ++ ks) := by
    have := hA.2
    simp only [List.length_append, List.length_cons, List.length_nil] at this
    rw [show o + sign.length + 19 + rest.length + 1 =
      o + (sign.length + (xs.length + 1 + (0 + 1) + ys.length + rest.length) + (0 + 1)) by omega]
    exact this
  have hMlt := rd_lt hM
  have hdr := digitsOn_of_unitsAt c e rest _ hrest hur
  have hW : o + sign.length + 1 + xs.length + 1 + ys.length = o + sign.length + 19 := by omega
  rw [strToNum_after_sign c o e sign d1 hs hu1 hf]
  rw [afterSign_frac_cut c e _ (o + sign.length) d1 xs ys he h1 hxs hys hy0 hy48 hlen hsp.1]
  rw [hW]
  rw [finishReal_exp_skip c e _ _ _ _ _ false true _ (o + sign.length + 19 + rest.length) m es ks hdr
    (by omega) hM hm he hes hks hk0 hE hend (Or.inl rfl) hsmall 18 ys.length
    (by simp only [b2n, Bool.not_false, Bool.and_self, if_true]
        rw [sub32_sub32 _ _ 1 (by omega) (by omega)]; omega)
    (by simp only [Bool.false_eq_true, if_false, if_true]
        rw [sub32_sub32 _ _ 1 (by omega) (by omega)]; omega)
    (by omega)]
  rw [hflag]
  have hall : AllDigits (d1 :: (xs ++ ys)) := by
    intro y hy
    simp only [List.mem_cons, List.mem_append] at hy
    rcases hy with h | h | h
    · subst h; exact hdig
    · exact hxs y h
    · exact hys y h
  have hge := decVal_ge d1 (xs ++ ys) h1
  have hl17 : (xs ++ ys).length = 17 := by simp; omega
  rw [hl17] at hge
  have hvhi := decVal_lt_pow (d1 :: (xs ++ ys)) hall
  have hl : (d1 :: (xs ++ ys)).length = 18 := by simp; omega
  rw [hl] at hvhi
  have hv64 : decVal (d1 :: (xs ++ ys)) < 2 ^ 64 := Nat.lt_of_lt_of_le hvhi (by decide)
  obtain ⟨t1, t2⟩ := decVal_trunc (d1 :: (xs ++ ys)) rest hrest
  have hX : (netExp false (decVal ks) (decide (es = [45])) ys.length).1 < 2 ^ 31 := by
    unfold netExp
    split
    · simp; omega
    · split <;> simp <;> omega
  have hres := realResult_neg_trunc (decide (sign = [45])) (decVal (d1 :: (xs ++ ys))) 18 _
    (o + sign.length + 19 + rest.length + 1 + es.length + ks.length) rest.length (decVal (d1 :: (xs ++ ys) ++ rest))
    (Nat.le_trans (by decide) hge) hv64 hvhi (by omega) hX t1 (trunc_rel_of_abs _ _ _ hge t2)
  simpa using hres

/-! ### plain integers of 20 or more digits -/

/-- `[+-]? d₁ xs d₂₀ rest` — 20 + |rest| digits, no dot, no exponent, that do not fit 64 bits as a whole (the 20th
digit overflows, or more digits follow): the value is the exact integer, correctly rounded within one ulp -/
theorem real_within_one_ulp_long_int (c : List Nat) (o e : Nat) (sign : List Nat) (d1 : Nat) (xs : List Nat) (d20 : Nat)
    (rest : List Nat)
    (he : e < 2 ^ 32) (hs : sign = [] ∨ sign = [43] ∨ sign = [45]) (h1 : isNonZeroDigit d1 = true)
    (hxs : AllDigits xs) (hlen : xs.length = 18) (hd20 : isDigit d20 = true) (hrest : AllDigits rest) (hrl31 : rest.length + 1 < 2 ^ 31)
    (hcase : (decVal (d1 :: xs) > 0x1999999999999999 ∨ (decVal (d1 :: xs) = 0x1999999999999999 ∧ d20 > 53)) ∨ rest ≠ [])
    (hu : unitsAt c e o (sign ++ (d1 :: xs ++ d20 :: rest)))
    (hend : endsAt c e (o + sign.length + 20 + rest.length) contReal) :
    ClassOutcome (decide (sign = [45])) (decVal (d1 :: xs ++ d20 :: rest)) 0 false
      (o + sign.length + 20 + rest.length) (strToNum c o e) := by
  have hdig := isNonZeroDigit_isDigit h1
  have hf : d1 ≠ 45 ∧ d1 ≠ 43 := by simp [isDigit] at hdig; omega
  have hu' := (unitsAt_append c e sign (d1 :: xs ++ d20 :: rest) o).1 hu
  have hu1 : unitsAt c e o (sign ++ [d1]) := (unitsAt_append c e sign [d1] o).2 ⟨hu'.1, hu'.2.1, trivial⟩
  have hsp := (unitsAt_append c e (d1 :: xs) (d20 :: rest) (o + sign.length)).1 hu'.2
  have hl19 : (d1 :: xs).length = 19 := by simp; omega
  have hutail : unitsAt c e (o + sign.length + 19) (d20 :: rest) := by
    have := hsp.2; rw [hl19] at this; exact this
  have hQe : o + sign.length + 20 + rest.length ≤ e := by
    rcases hend with h | ⟨x, hx, _⟩
    · omega
    · exact Nat.le_of_lt (rd_lt hx)
  have hall : AllDigits (d1 :: xs) := by
    intro y hy
    rcases List.mem_cons.1 hy with h | h
    · subst h; exact hdig
    · exact hxs y h
  have hge := decVal_ge d1 xs h1
  rw [hlen] at hge
  have hvhi := decVal_lt_pow (d1 :: xs) hall
  rw [hl19] at hvhi
  have hv64 : decVal (d1 :: xs) < 2 ^ 64 := Nat.lt_of_lt_of_le hvhi (by decide)
  have hu20 : unitsAt c e (o + sign.length) (d1 :: xs ++ [d20]) :=
    (unitsAt_append c e (d1 :: xs) [d20] (o + sign.length)).2 ⟨hsp.1, by rw [hl19]; exact ⟨hutail.1, trivial⟩⟩
  rw [strToNum_after_sign c o e sign d1 hs hu1 hf]
  by_cases hbig : decVal (d1 :: xs) > 0x1999999999999999 ∨ (decVal (d1 :: xs) = 0x1999999999999999 ∧ d20 > 53)
  · -- 19 digits kept, 1 + |rest| ignored
    have hdtail : AllDigits (d20 :: rest) := by
      intro y hy
      rcases List.mem_cons.1 hy with h | h
      · subst h; exact hd20
      · exact hrest y h
    have hdr := digitsOn_of_unitsAt c e (d20 :: rest) _ hdtail hutail
    simp only [List.length_cons] at hdr
    rw [afterSign_longint_A c e _ (o + sign.length) d1 xs d20 he h1 hxs hlen hd20 hu20 hbig]
    rw [finishReal_end_ignored c e _ _ _ _ _ 0 (o + sign.length + 20 + rest.length)
      (by rw [show o + sign.length + 20 + rest.length = o + sign.length + 19 + (rest.length + 1) by omega]; exact hdr)
      (by omega) hQe he hend 19
      (by simp only [b2n, Bool.not_false, Bool.true_and, Bool.false_eq_true, if_false]
          rw [sub32_sub32 _ _ 0 (by omega) (by omega)]; omega)]
    obtain ⟨t1, t2⟩ := decVal_trunc (d1 :: xs) (d20 :: rest) hdtail
    have hj : o + sign.length + 20 + rest.length - (o + sign.length + 19) = (d20 :: rest).length := by simp; omega
    rw [hj]
    exact realResult_pos_trunc_int _ (decVal (d1 :: xs)) 19 (d20 :: rest).length _ (decVal (d1 :: xs ++ d20 :: rest)) hge hv64
      (by simpa using hge) (by omega) (by omega) (by simp; omega) t1 t2
  · -- 20 digits kept, |rest| ≥ 1 ignored
    have hrne : rest ≠ [] := by
      rcases hcase with h | h
      · exact absurd h hbig
      · exact h
    obtain ⟨d21, rt, hreq⟩ : ∃ d21 rt, rest = d21 :: rt := by
      cases rest with
      | nil => exact absurd rfl hrne
      | cons a b => exact ⟨a, b, rfl⟩
    have hd21 : isDigit d21 = true := hrest d21 (by rw [hreq]; simp)
    have hu21 : unitsAt c e (o + sign.length) (d1 :: xs ++ [d20, d21]) :=
      (unitsAt_append c e (d1 :: xs) [d20, d21] (o + sign.length)).2 ⟨hsp.1, by
        rw [hl19]; have := hutail; rw [hreq] at this; exact ⟨this.1, this.2.1, trivial⟩⟩
    have hur : unitsAt c e (o + sign.length + 20) rest := by
      have := hutail.2
      rw [show o + sign.length + 19 + 1 = o + sign.length + 20 by omega] at this; exact this
    have hdr := digitsOn_of_unitsAt c e rest _ hrest hur
    have hrl : 0 < rest.length := by rw [hreq]; simp
    rw [afterSign_longint_B c e _ (o + sign.length) d1 xs d20 d21 he h1 hxs hlen hd20 hd21 hu21 hbig]
    rw [finishReal_end_ignored c e _ _ _ _ _ 0 (o + sign.length + 20 + rest.length) hdr
      (by omega) hQe he hend 20
      (by simp only [b2n, Bool.not_false, Bool.true_and, Bool.false_eq_true, if_false]
          rw [sub32_sub32 _ _ 0 (by omega) (by omega)]; omega)]
    have hv20 : decVal (d1 :: xs) * 10 + (d20 - 48) = decVal (d1 :: xs ++ [d20]) := by
      rw [decVal_append_singleton]
    have h20lt : decVal (d1 :: xs) * 10 + (d20 - 48) < 2 ^ 64 := by
      simp [isDigit] at hd20
      have h2 : (0x1999999999999999 : Nat) * 10 + 5 < 2 ^ 64 := by decide
      omega
    have h20ge : 10 ^ 19 ≤ decVal (d1 :: xs) * 10 + (d20 - 48) := by
      have : (10 : Nat) ^ 19 = 10 ^ 18 * 10 := by decide
      omega
    obtain ⟨t1, t2⟩ := decVal_trunc (d1 :: xs ++ [d20]) rest hrest
    rw [← hv20] at t1 t2
    have hcat : d1 :: xs ++ [d20] ++ rest = d1 :: xs ++ d20 :: rest := by simp
    rw [hcat] at t1 t2
    have hj : o + sign.length + 20 + rest.length - (o + sign.length + 20) = rest.length := by omega
    rw [hj]
    exact realResult_pos_trunc_int _ _ 20 rest.length _ (decVal (d1 :: xs ++ d20 :: rest))
      (Nat.le_trans (by decide) h20ge) h20lt (by simpa using h20ge) (by omega) (by omega) (by omega) t1 t2

end Qentem.Props.C09
