import Qentem.Props.C09Long
import Qentem.Proofs.StrToNumGlue
import Qentem.Proofs.StrToNumScanMore
/-! C09 — the general statements. Regime theorems on unit strings (`good_dot_short`, `good_dot_long`, `good_int_exp`,
`good_int_only`, `good_zero_lead`), each concluding `Good` (Proofs/StrToNumGood.lean) on the exact value of the whole
numeral, then the bridge from the grammar-level `Numeral` and the closed theorems `real_within_one_ulp_closed`,
`overflow_reported_closed` for every well-formed numeral without a leading zero of fewer than 99 999 000 units. -/
set_option linter.unusedSimpArgs false
namespace Qentem.Props.C09
open Qentem.StrToNum Qentem.Round Qentem.Generated.StrToNum

theorem decVal_nil : decVal [] = 0 := rfl

theorem valFrac_zero (k : Nat) (eneg : Bool) (f : Nat) : (valFrac 0 k eneg f).1 = 0 := by
  unfold valFrac
  cases eneg
  · simp only [Bool.false_eq_true, if_false]
    split <;> simp
  · simp

/-- what follows the mantissa: the end of the text or the exponent marker -/
theorem stop_of_expPart (c : List Nat) (e Q : Nat) (EP es ks : List Nat) (hEP : ExpPart EP es ks)
    (hEPu : unitsAt c e Q EP) (hQ : Q + EP.length = e) :
    Q = e ∨ ∃ x, rd c e Q = some x ∧ isDigit x = false ∧ x ≠ 46 := by
  rcases hEP with ⟨rfl, _, _⟩ | ⟨m, hmE, rfl, _, _, _⟩
  · left; simpa using hQ
  · right
    refine ⟨m, hEPu.1, ?_, ?_⟩
    · rcases hmE with h | h <;> subst h <;> decide
    · omega

/-- `[+-]? d₁ xs . F [exp]` with at most 18 integer digits: the dot is inside the scan window -/
theorem good_dot_short (c : List Nat) (o e : Nat) (sign : List Nat) (d1 : Nat) (xs F EP es ks : List Nat)
    (hs : sign = [] ∨ sign = [43] ∨ sign = [45]) (h1 : isNonZeroDigit d1 = true)
    (hxs : AllDigits xs) (hF : AllDigits F) (hF0 : F ≠ []) (hlen : xs.length ≤ 17) (hEP : ExpPart EP es ks)
    (hu : unitsAt c e o (sign ++ (d1 :: xs ++ 46 :: F) ++ EP))
    (hQ : o + sign.length + 1 + xs.length + 1 + F.length + EP.length = e) (hbound : e ≤ 99999000) :
    Good (decide (sign = [45])) (valFrac (decVal (d1 :: xs ++ F)) (decVal ks) (decide (es = [45])) F.length).1
      (valFrac (decVal (d1 :: xs ++ F)) (decVal ks) (decide (es = [45])) F.length).2 e (strToNum c o e) := by
  have he : e < 2 ^ 32 := by omega
  have hdig := isNonZeroDigit_isDigit h1
  have hf : d1 ≠ 45 ∧ d1 ≠ 43 := by simp [isDigit] at hdig; omega
  have hA := (unitsAt_append c e (sign ++ (d1 :: xs ++ 46 :: F)) EP o).1 hu
  have hu' := (unitsAt_append c e sign (d1 :: xs ++ 46 :: F) o).1 hA.1
  have hu1 : unitsAt c e o (sign ++ [d1]) := (unitsAt_append c e sign [d1] o).2 ⟨hu'.1, hu'.2.1, trivial⟩
  have hmant := hu'.2
  have hsplit := (unitsAt_append c e (d1 :: xs) (46 :: F) (o + sign.length)).1 hmant
  have hIu : unitsAt c e (o + sign.length) (d1 :: xs) := hsplit.1
  have hdot : rd c e (o + sign.length + 1 + xs.length) = some 46 := by
    have := hsplit.2.1; simp only [List.length_cons] at this
    rw [show o + sign.length + 1 + xs.length = o + sign.length + (xs.length + 1) by omega]; exact this
  have hFu : unitsAt c e (o + sign.length + 1 + xs.length + 1) F := by
    have := hsplit.2.2; simp only [List.length_cons] at this
    rw [show o + sign.length + 1 + xs.length + 1 = o + sign.length + (xs.length + 1) + 1 by omega]; exact this
  have hEPu : unitsAt c e (o + sign.length + 1 + xs.length + 1 + F.length) EP := by
    have := hA.2
    simp only [List.length_append, List.length_cons] at this
    rw [show o + sign.length + 1 + xs.length + 1 + F.length = o + (sign.length + (xs.length + 1 + (F.length + 1))) by omega]
    exact this
  have hall : AllDigits (d1 :: xs) := by
    intro y hy
    rcases List.mem_cons.1 hy with h | h
    · subst h; exact hdig
    · exact hxs y h
  have hFl : 0 < F.length := by
    cases F with
    | nil => exact absurd rfl hF0
    | cons a b => simp
  rw [strToNum_after_sign c o e sign d1 hs hu1 hf]
  have hstopF := stop_of_expPart c e _ EP es ks hEP hEPu (by omega)
  have hIlen : (d1 :: xs).length = xs.length + 1 := by simp
  by_cases hfit : xs.length + F.length ≤ 17
  · by_cases h48 : F = [48]
    · -- `ddd.0`: the scan stops at the zero
      subst h48
      have hu2 : unitsAt c e (o + sign.length) (d1 :: xs ++ [46, 48]) := by simpa using hmant
      have hst : o + sign.length + 1 + xs.length + 2 = e ∨
          ∃ x, rd c e (o + sign.length + 1 + xs.length + 2) = some x ∧ isDigit x = false := by
        simp only [List.length_singleton] at hstopF
        rcases hstopF with h | ⟨x, hx, hxd, _⟩
        · left; omega
        · right; exact ⟨x, by rw [show o + sign.length + 1 + xs.length + 2 = o + sign.length + 1 + xs.length + 1 + 1 by omega]; exact hx, hxd⟩
      rw [afterSign_dotzero c e _ (o + sign.length) d1 xs he h1 hxs hlen hu2 hst]
      have := glueD c e (decide (sign = [45])) (o + sign.length + 1 + xs.length + 1) (o + sign.length) false
        (o + sign.length + 1 + xs.length) (d1 :: xs) d1 xs [48] EP es ks (xs.length + 1) 0 he rfl h1 hall hIlen (by omega)
        (by intro y hy; simp at hy; subst hy; decide) hFu hEP (by simpa using hEPu) (by simp at hQ ⊢; omega)
        (by simp only [b2n, Bool.not_false, Bool.and_self, if_true]
            rw [sub32_sub32 _ _ 1 (by omega) (by omega)]; omega)
        (by simp only [Bool.false_eq_true, if_false, if_true]
            rw [sub32_sub32 _ _ 1 (by omega) (by omega)]; omega)
        (by simp; omega)
        (Or.inl (by rw [decVal_append_singleton]; simp))
      simpa using this
    · -- the fraction fits the window
      have hst : o + sign.length + 1 + xs.length + 1 + F.length = e ∨
          ∃ x, rd c e (o + sign.length + 1 + xs.length + 1 + F.length) = some x ∧ isDigit x = false ∧ x ≠ 46 := hstopF
      have hu2 : unitsAt c e (o + sign.length) (d1 :: xs ++ [46] ++ F) := by simpa using hmant
      rw [afterSign_frac c e _ (o + sign.length) d1 xs F he h1 hxs hF hF0 h48 hfit hu2 hst]
      have hKd : AllDigits (d1 :: xs ++ F) := by
        intro y hy
        simp only [List.cons_append, List.mem_cons, List.mem_append] at hy
        rcases hy with h | h | h
        · subst h; exact hdig
        · exact hxs y h
        · exact hF y h
      have := glueD c e (decide (sign = [45])) (o + sign.length + 1 + xs.length + 1 + F.length) (o + sign.length) false
        (o + sign.length + 1 + xs.length) (d1 :: xs ++ F) d1 (xs ++ F) [] EP es ks (xs.length + 1 + F.length) F.length he
        (by simp) h1 hKd (by simp; omega) (by omega) (by intro y hy; cases hy) trivial hEP (by simpa using hEPu)
        (by simp; omega)
        (by simp only [b2n, Bool.not_false, Bool.and_self, if_true]
            rw [sub32_sub32 _ _ 1 (by omega) (by omega)]; omega)
        (by simp only [Bool.false_eq_true, if_false, if_true]
            rw [sub32_sub32 _ _ 1 (by omega) (by omega)]; omega)
        (by simp; omega) (Or.inl (by simp))
      simpa using this
  · have hlong : 18 ≤ xs.length + F.length := by omega
    have hge := decVal_ge d1 xs h1
    by_cases hedge : xs.length = 17 ∨ (xs.length = 16 ∧ F.head? = some 48)
    · -- the dot on the window edge: no fraction digit is taken
      have hu2 : unitsAt c e (o + sign.length) (d1 :: xs ++ [46]) :=
        (unitsAt_append c e (d1 :: xs) [46] (o + sign.length)).2 ⟨hIu, by
          simp only [List.length_cons]
          rw [show o + sign.length + (xs.length + 1) = o + sign.length + 1 + xs.length by omega]
          exact ⟨hdot, trivial⟩⟩
      have hcase : xs.length = 17 ∨ (xs.length = 16 ∧ rd c e (o + sign.length + 18) = some 48) := by
        rcases hedge with h | ⟨h16, hh⟩
        · exact Or.inl h
        · right
          refine ⟨h16, ?_⟩
          cases F with
          | nil => exact absurd rfl hF0
          | cons a b =>
            simp at hh; subst hh
            have := hFu.1
            rw [show o + sign.length + 1 + xs.length + 1 = o + sign.length + 18 by omega] at this
            exact this
      rw [afterSign_dot_edge c e _ (o + sign.length) d1 xs he h1 hxs (by omega) hu2 hcase]
      have htr : decVal (d1 :: xs ++ F) = decVal (d1 :: xs) * 10 ^ F.length ∨
          (10 ^ 16 ≤ decVal (d1 :: xs) ∧
            10 ^ 17 * decVal (d1 :: xs ++ F) < (10 ^ 17 + 1) * (decVal (d1 :: xs) * 10 ^ F.length)) := by
        right
        obtain ⟨t1, t2⟩ := decVal_trunc (d1 :: xs) F hF
        rcases hedge with h | ⟨h16, hh⟩
        · rw [h] at hge
          exact ⟨Nat.le_trans (by decide) hge, trunc_rel_of_abs _ _ _ hge t2⟩
        · rw [h16] at hge
          refine ⟨hge, ?_⟩
          cases F with
          | nil => exact absurd rfl hF0
          | cons a b =>
            simp at hh; subst hh
            have hb : AllDigits b := fun y hy => hF y (by simp [hy])
            have hbl := decVal_lt_pow b hb
            have e1 : decVal (d1 :: xs ++ 48 :: b) = decVal (d1 :: xs) * 10 ^ (b.length + 1) + decVal b := by
              rw [decVal_append, decVal_zero_cons]; simp
            simp only [List.length_cons]
            rw [e1]
            have e2 : (10 ^ 17 + 1) * (decVal (d1 :: xs) * 10 ^ (b.length + 1)) =
                10 ^ 17 * (decVal (d1 :: xs) * 10 ^ (b.length + 1)) + decVal (d1 :: xs) * 10 ^ (b.length + 1) := by ring
            have e3 : 10 ^ 17 * (decVal (d1 :: xs) * 10 ^ (b.length + 1) + decVal b) =
                10 ^ 17 * (decVal (d1 :: xs) * 10 ^ (b.length + 1)) + 10 ^ 17 * decVal b := by ring
            rw [e2, e3]
            apply Nat.add_lt_add_left
            calc 10 ^ 17 * decVal b < 10 ^ 17 * 10 ^ b.length := Nat.mul_lt_mul_of_pos_left hbl (Nat.pow_pos (by decide))
              _ = 10 ^ 16 * 10 ^ (b.length + 1) := by rw [Nat.pow_succ]; ring
              _ ≤ decVal (d1 :: xs) * 10 ^ (b.length + 1) := Nat.mul_le_mul_right _ hge
      have := glueD c e (decide (sign = [45])) (o + sign.length + 1 + xs.length + 1) (o + sign.length) false
        (o + sign.length + 1 + xs.length) (d1 :: xs) d1 xs F EP es ks (xs.length + 1) 0 he rfl h1 hall hIlen (by omega)
        hF hFu hEP hEPu (by omega)
        (by simp only [b2n, Bool.not_false, Bool.and_self, if_true]
            rw [sub32_sub32 _ _ 1 (by omega) (by omega)]; omega)
        (by simp only [Bool.false_eq_true, if_false, if_true]
            rw [sub32_sub32 _ _ 1 (by omega) (by omega)]; omega)
        (by omega) htr
      simpa using this
    · -- the window cuts the fraction after `17 − |xs|` digits
      have hxs16 : xs.length ≤ 16 := by
        by_contra hc
        exact hedge (Or.inl (by omega))
      obtain ⟨ys, R, hFeq, hyl⟩ : ∃ ys R, F = ys ++ R ∧ ys.length = 17 - xs.length :=
        ⟨F.take (17 - xs.length), F.drop (17 - xs.length), (List.take_append_drop _ _).symm, by
          rw [List.length_take]; omega⟩
      have hys : AllDigits ys := fun y hy => hF y (by rw [hFeq]; simp [hy])
      have hR : AllDigits R := fun y hy => hF y (by rw [hFeq]; simp [hy])
      have hy0 : ys ≠ [] := by intro h; rw [h] at hyl; simp at hyl; omega
      have hy48 : ys ≠ [48] := by
        intro h
        rw [h] at hyl
        simp at hyl
        have h16 : xs.length = 16 := by omega
        apply hedge
        right
        refine ⟨h16, ?_⟩
        rw [hFeq, h]; simp
      have hFl2 : F.length = ys.length + R.length := by rw [hFeq]; simp
      have hFu2 := (unitsAt_append c e ys R (o + sign.length + 1 + xs.length + 1)).1 (by rw [← hFeq]; exact hFu)
      have hu2 : unitsAt c e (o + sign.length) (d1 :: xs ++ [46] ++ ys) :=
        (unitsAt_append c e (d1 :: xs ++ [46]) ys (o + sign.length)).2 ⟨
          (unitsAt_append c e (d1 :: xs) [46] (o + sign.length)).2 ⟨hIu, by
            simp only [List.length_cons]
            rw [show o + sign.length + (xs.length + 1) = o + sign.length + 1 + xs.length by omega]
            exact ⟨hdot, trivial⟩⟩,
          by simp only [List.length_append, List.length_cons, List.length_nil]
             rw [show o + sign.length + (xs.length + 1 + (0 + 1)) = o + sign.length + 1 + xs.length + 1 by omega]
             exact hFu2.1⟩
      rw [afterSign_frac_cut c e _ (o + sign.length) d1 xs ys he h1 hxs hys hy0 hy48 (by omega) hu2]
      have hKd : AllDigits (d1 :: xs ++ ys) := by
        intro y hy
        simp only [List.cons_append, List.mem_cons, List.mem_append] at hy
        rcases hy with h | h | h
        · subst h; exact hdig
        · exact hxs y h
        · exact hys y h
      have hK17 := decVal_ge d1 (xs ++ ys) h1
      have hl17 : (xs ++ ys).length = 17 := by simp; omega
      rw [hl17] at hK17
      obtain ⟨t1, t2⟩ := decVal_trunc (d1 :: (xs ++ ys)) R hR
      have := glueD c e (decide (sign = [45])) (o + sign.length + 1 + xs.length + 1 + ys.length) (o + sign.length) false
        (o + sign.length + 1 + xs.length) (d1 :: xs ++ ys) d1 (xs ++ ys) R EP es ks 18 ys.length he
        (by simp) h1 hKd (by simp; omega) (by omega) hR hFu2.2 hEP
        (by rw [show o + sign.length + 1 + xs.length + 1 + ys.length + R.length =
              o + sign.length + 1 + xs.length + 1 + F.length by omega]; exact hEPu)
        (by omega)
        (by simp only [b2n, Bool.not_false, Bool.and_self, if_true]
            rw [sub32_sub32 _ _ 1 (by omega) (by omega)]; omega)
        (by simp only [Bool.false_eq_true, if_false, if_true]
            rw [sub32_sub32 _ _ 1 (by omega) (by omega)]; omega)
        (by omega)
        (Or.inr ⟨by simpa using Nat.le_trans (by decide) hK17, by simpa using trunc_rel_of_abs _ _ _ hK17 t2⟩)
      rw [hFeq]
      simpa [List.append_assoc, hFl2] using this

/-- `[+-]? d₁ x₁₈ rest [. F] [exp]` — 19 or more integer digits on the real path (something follows the digits, or
the digits do not fit 64 bits): integer regime -/
theorem good_int_long (c : List Nat) (o e : Nat) (sign : List Nat) (d1 : Nat) (x18 rest F DF EP es ks : List Nat)
    (hs : sign = [] ∨ sign = [43] ∨ sign = [45]) (h1 : isNonZeroDigit d1 = true)
    (hx18 : AllDigits x18) (hl : x18.length = 18) (hrest : AllDigits rest) (hF : AllDigits F)
    (hDF : (DF = [] ∧ F = []) ∨ (DF = 46 :: F ∧ F ≠ [])) (hEP : ExpPart EP es ks)
    (hu : unitsAt c e o (sign ++ (d1 :: x18 ++ rest) ++ DF ++ EP))
    (hQ : o + sign.length + 19 + rest.length + DF.length + EP.length = e) (hbound : e ≤ 99999000)
    (hreal : DF ≠ [] ∨ EP ≠ [] ∨ 2 ≤ rest.length ∨
      (∃ d20, rest = [d20] ∧ (decVal (d1 :: x18) > 0x1999999999999999 ∨ (decVal (d1 :: x18) = 0x1999999999999999 ∧ d20 > 53)))) :
    Good (decide (sign = [45])) (valFrac (decVal (d1 :: x18 ++ rest ++ F)) (decVal ks) (decide (es = [45])) F.length).1
      (valFrac (decVal (d1 :: x18 ++ rest ++ F)) (decVal ks) (decide (es = [45])) F.length).2 e (strToNum c o e) := by
  have he : e < 2 ^ 32 := by omega
  have hdig := isNonZeroDigit_isDigit h1
  have hf : d1 ≠ 45 ∧ d1 ≠ 43 := by simp [isDigit] at hdig; omega
  have hA := (unitsAt_append c e (sign ++ (d1 :: x18 ++ rest) ++ DF) EP o).1 hu
  have hB := (unitsAt_append c e (sign ++ (d1 :: x18 ++ rest)) DF o).1 hA.1
  have hu' := (unitsAt_append c e sign (d1 :: x18 ++ rest) o).1 hB.1
  have hu1 : unitsAt c e o (sign ++ [d1]) := (unitsAt_append c e sign [d1] o).2 ⟨hu'.1, hu'.2.1, trivial⟩
  have hsp := (unitsAt_append c e (d1 :: x18) rest (o + sign.length)).1 hu'.2
  have hl19 : (d1 :: x18).length = 19 := by simp; omega
  have hIu : unitsAt c e (o + sign.length) (d1 :: x18) := hsp.1
  have hru : unitsAt c e (o + sign.length + 19) rest := by have := hsp.2; rw [hl19] at this; exact this
  have hDFu : unitsAt c e (o + sign.length + 19 + rest.length) DF := by
    have := hB.2
    simp only [List.length_append, List.length_cons] at this
    rw [show o + sign.length + 19 + rest.length = o + (sign.length + (x18.length + 1 + rest.length)) by omega]; exact this
  have hEPu : unitsAt c e (o + sign.length + 19 + rest.length + DF.length) EP := by
    have := hA.2
    simp only [List.length_append, List.length_cons] at this
    rw [show o + sign.length + 19 + rest.length + DF.length =
      o + (sign.length + (x18.length + 1 + rest.length) + DF.length) by omega]; exact this
  have hall : AllDigits (d1 :: x18) := by
    intro y hy
    rcases List.mem_cons.1 hy with h | h
    · subst h; exact hdig
    · exact hx18 y h
  have hv19 := decVal_lt_pow (d1 :: x18) hall
  rw [hl19] at hv19
  have hv64 : decVal (d1 :: x18) < 2 ^ 64 := Nat.lt_of_lt_of_le hv19 (by decide)
  rw [strToNum_after_sign c o e sign d1 hs hu1 hf]
  -- the unit after a run of the text, when the run is followed by DF/EP
  have hnextsep : ∀ P, unitsAt c e P DF → unitsAt c e (P + DF.length) EP → (DF ≠ [] ∨ EP ≠ []) →
      ∃ u, rd c e P = some u ∧ isDotOrE u = true := by
    intro P h1' h2' hne
    rcases hDF with ⟨rfl, _⟩ | ⟨rfl, _⟩
    · rcases hEP with ⟨rfl, _, _⟩ | ⟨m, hmE, rfl, _, _, _⟩
      · rcases hne with h | h <;> exact absurd rfl h
      · refine ⟨m, by simpa using h2'.1, ?_⟩
        rcases hmE with h | h <;> subst h <;> decide
    · exact ⟨46, h1'.1, by decide⟩
  cases rest with
  | nil =>
    simp only [List.length_nil, Nat.add_zero, List.append_nil] at hDFu hEPu hQ ⊢
    have hne : DF ≠ [] ∨ EP ≠ [] := by
      rcases hreal with h | h | h | ⟨d, h, _⟩
      · exact Or.inl h
      · exact Or.inr h
      · simp at h
      · cases h
    obtain ⟨u, hu19, hsep⟩ := hnextsep _ hDFu hEPu hne
    rw [afterSign_19_sep c e _ (o + sign.length) d1 x18 u he h1 hx18 hl hIu hu19 hsep]
    have := glueI c e (decide (sign = [45])) (o + sign.length + 19) (o + sign.length) (d1 :: x18) d1 x18 [] F DF EP es ks 19
      hbound rfl h1 hall hl19 (by omega) (by omega) hv64 (by omega) (by intro y hy; cases hy) hF trivial hDF
      (by simpa using hDFu) hEP (by simpa using hEPu) (by simp; omega)
      (by rcases hne with h | h
          · exact Or.inr (Or.inl h)
          · exact Or.inr (Or.inr h))
      (by simp only [b2n, Bool.not_false, Bool.true_and, Bool.false_eq_true, if_false]
          rw [sub32_sub32 _ _ 0 (by omega) (by omega)]; omega)
    simpa using this
  | cons d20 rt =>
    have hd20 : isDigit d20 = true := hrest d20 (by simp)
    have hrt : AllDigits rt := fun y hy => hrest y (by simp [hy])
    have hr20 : rd c e (o + sign.length + 19) = some d20 := hru.1
    have hrtu : unitsAt c e (o + sign.length + 20) rt := by
      have := hru.2; rw [show o + sign.length + 19 + 1 = o + sign.length + 20 by omega] at this; exact this
    simp only [List.length_cons] at hDFu hEPu hQ
    have hu20 : unitsAt c e (o + sign.length) (d1 :: x18 ++ [d20]) :=
      (unitsAt_append c e (d1 :: x18) [d20] (o + sign.length)).2 ⟨hIu, by rw [hl19]; exact ⟨hr20, trivial⟩⟩
    by_cases hbig : decVal (d1 :: x18) > 0x1999999999999999 ∨ (decVal (d1 :: x18) = 0x1999999999999999 ∧ d20 > 53)
    · rw [afterSign_longint_A c e _ (o + sign.length) d1 x18 d20 he h1 hx18 hl hd20 hu20 hbig]
      have := glueI c e (decide (sign = [45])) (o + sign.length + 19) (o + sign.length) (d1 :: x18) d1 x18 (d20 :: rt) F DF EP
        es ks 19 hbound rfl h1 hall hl19 (by omega) (by omega) hv64 (by omega) hrest hF hru hDF
        (by simp only [List.length_cons]; exact hDFu) hEP (by simp only [List.length_cons]; exact hEPu)
        (by simp only [List.length_cons]; omega) (Or.inl (by simp))
        (by simp only [b2n, Bool.not_false, Bool.true_and, Bool.false_eq_true, if_false]
            rw [sub32_sub32 _ _ 0 (by omega) (by omega)]; omega)
      simpa using this
    · -- the 20th digit is taken; something must follow it
      have hnext : ∃ u, rd c e (o + sign.length + 20) = some u ∧ (isDigit u = true ∨ isDotOrE u = true) := by
        cases rt with
        | nil =>
          have hne : DF ≠ [] ∨ EP ≠ [] := by
            rcases hreal with h | h | h | ⟨d, h, hb⟩
            · exact Or.inl h
            · exact Or.inr h
            · simp at h
            · simp at h; subst h; exact absurd hb hbig
          simp only [List.length_nil, Nat.add_zero] at hDFu hEPu
          obtain ⟨u, h1', h2'⟩ := hnextsep (o + sign.length + 20) (by
            rw [show o + sign.length + 20 = o + sign.length + 19 + (0 + 1) by omega]; exact hDFu) (by
            rw [show o + sign.length + 20 + DF.length = o + sign.length + 19 + (0 + 1) + DF.length by omega]; exact hEPu) hne
          exact ⟨u, h1', Or.inr h2'⟩
        | cons r rt' => exact ⟨r, hrtu.1, Or.inl (hrt r (by simp))⟩
      obtain ⟨u, hu21, hnx⟩ := hnext
      have hu22 : unitsAt c e (o + sign.length) (d1 :: x18 ++ [d20, u]) :=
        (unitsAt_append c e (d1 :: x18) [d20, u] (o + sign.length)).2 ⟨hIu, by
          rw [hl19]; exact ⟨hr20, by rw [show o + sign.length + 19 + 1 = o + sign.length + 20 by omega]; exact hu21, trivial⟩⟩
      rw [afterSign_20_next c e _ (o + sign.length) d1 x18 d20 u he h1 hx18 hl hd20 hu22 hnx hbig]
      have hK20 : AllDigits (d1 :: x18 ++ [d20]) := by
        intro y hy
        simp only [List.cons_append, List.mem_cons, List.mem_append, List.mem_singleton] at hy
        rcases hy with h | h | h
        · subst h; exact hdig
        · exact hx18 y h
        · simp at h; subst h; exact hd20
      have hv20 : decVal (d1 :: x18 ++ [d20]) = decVal (d1 :: x18) * 10 + (d20 - 48) := decVal_append_singleton _ _
      have hv20lt : decVal (d1 :: x18 ++ [d20]) < 2 ^ 64 := by
        rw [hv20]
        simp [isDigit] at hd20
        have h2 : (0x1999999999999999 : Nat) * 10 + 5 < 2 ^ 64 := by decide
        omega
      have hne : rt ≠ [] ∨ DF ≠ [] ∨ EP ≠ [] := by
        rcases hreal with h | h | h | ⟨d, h, hb⟩
        · exact Or.inr (Or.inl h)
        · exact Or.inr (Or.inr h)
        · left; intro hnil; subst hnil; simp at h
        · simp at h; obtain ⟨h1', h2'⟩ := h; subst h1'; exact absurd hb hbig
      have := glueI c e (decide (sign = [45])) (o + sign.length + 20) (o + sign.length) (d1 :: x18 ++ [d20]) d1 (x18 ++ [d20]) rt
        F DF EP es ks 20 hbound (by simp) h1 hK20 (by simp; omega) (by omega) (by omega) hv20lt (by omega) hrt hF hrtu hDF
        (by rw [show o + sign.length + 20 + rt.length = o + sign.length + 19 + (rt.length + 1) by omega]; exact hDFu) hEP
        (by rw [show o + sign.length + 20 + rt.length + DF.length = o + sign.length + 19 + (rt.length + 1) + DF.length by omega]
            exact hEPu)
        (by omega) hne
        (by simp only [b2n, Bool.not_false, Bool.true_and, Bool.false_eq_true, if_false]
            rw [sub32_sub32 _ _ 0 (by omega) (by omega)]; omega)
      rw [← hv20]
      simpa [List.append_assoc] using this

/-- `Good`, or an exact integer kind (then the value is below `2^64`) -/
def NumGood (neg : Bool) (n d fin : Nat) (res : Option Res) : Prop :=
  Good neg n d fin res ∨ (∃ r, res = some r ∧ (r.kind = .natural ∨ r.kind = .integer) ∧ n < 2 ^ 64 * d)

theorem good_zero (neg : Bool) (d fin : Nat) :
    Good neg 0 d fin (some ⟨.real, if neg then 0x8000000000000000 else 0, fin⟩) := by
  refine ⟨_, rfl, rfl, Or.inr ⟨rfl, ?_, ?_, ?_⟩⟩
  · cases neg <;> simp [b2n]
  · have h0 : nearestMag 0 d = 0 := by unfold nearestMag; simp
    cases neg <;> simp [h0, ulpDist]
  · intro h; omega

/-- `[+-]? d₁ xs (e|E) [+-]? ks`, at most 19 digits -/
theorem good_int_short_exp (c : List Nat) (o e : Nat) (sign : List Nat) (d1 : Nat) (xs EP es ks : List Nat)
    (hs : sign = [] ∨ sign = [43] ∨ sign = [45]) (h1 : isNonZeroDigit d1 = true)
    (hxs : AllDigits xs) (hlen : xs.length ≤ 18) (hEP : ExpPart EP es ks) (hEP0 : EP ≠ [])
    (hu : unitsAt c e o (sign ++ (d1 :: xs) ++ EP))
    (hQ : o + sign.length + 1 + xs.length + EP.length = e) (hbound : e ≤ 99999000) :
    Good (decide (sign = [45])) (valFrac (decVal (d1 :: xs)) (decVal ks) (decide (es = [45])) 0).1
      (valFrac (decVal (d1 :: xs)) (decVal ks) (decide (es = [45])) 0).2 e (strToNum c o e) := by
  rcases hEP with ⟨h, _, _⟩ | ⟨m, hmE, rfl, hes, hks, hk0⟩
  · exact absurd h hEP0
  · simp only [List.length_cons, List.length_append] at hQ
    have hu2 : unitsAt c e o (sign ++ (d1 :: xs) ++ [m] ++ (es ++ ks)) := by
      have e1 : sign ++ (d1 :: xs) ++ [m] ++ (es ++ ks) = sign ++ (d1 :: xs) ++ m :: (es ++ ks) := by simp
      rw [e1]; exact hu
    have := real_within_one_ulp_int_exp c o e sign d1 xs m es ks (by omega) hs h1 hxs hlen hmE hes hks hk0 hu2
      (Or.inl (by omega))
    rw [show o + sign.length + 1 + xs.length + 1 + es.length + ks.length = e by omega] at this
    exact good_of_class_netExp this

/-- digits only: an exact integer kind, or (beyond 64 bits, or below `-2^63`) a `Real` -/
theorem good_int_only (c : List Nat) (o e : Nat) (sign : List Nat) (d1 : Nat) (xs : List Nat)
    (hs : sign = [] ∨ sign = [43] ∨ sign = [45]) (h1 : isNonZeroDigit d1 = true) (hxs : AllDigits xs)
    (hu : unitsAt c e o (sign ++ (d1 :: xs))) (hQ : o + sign.length + 1 + xs.length = e) (hbound : e ≤ 99999000) :
    NumGood (decide (sign = [45])) (decVal (d1 :: xs)) 1 e (strToNum c o e) := by
  have he : e < 2 ^ 32 := by omega
  have hdig := isNonZeroDigit_isDigit h1
  have hf : d1 ≠ 45 ∧ d1 ≠ 43 := by simp [isDigit] at hdig; omega
  have hu' := (unitsAt_append c e sign (d1 :: xs) o).1 hu
  have hu1 : unitsAt c e o (sign ++ [d1]) := (unitsAt_append c e sign [d1] o).2 ⟨hu'.1, hu'.2.1, trivial⟩
  have hall : AllDigits (d1 :: xs) := by
    intro y hy
    rcases List.mem_cons.1 hy with h | h
    · subst h; exact hdig
    · exact hxs y h
  have hendI : endsAt c e (o + sign.length + 1 + xs.length) contInt := Or.inl hQ
  by_cases hfit : decVal (d1 :: xs) < 2 ^ 64
  · by_cases hneg : decide (sign = [45]) = true → decVal (d1 :: xs) ≤ 2 ^ 63
    · right
      rw [strToNum_after_sign c o e sign d1 hs hu1 hf]
      rw [afterSign_int c e _ (o + sign.length) d1 xs he h1 hxs hu'.2 hendI hfit hneg]
      refine ⟨_, rfl, ?_, by omega⟩
      cases decide (sign = [45]) <;> simp
    · -- negative and below -2^63
      left
      have hn : decide (sign = [45]) = true := by
        by_contra hc; exact hneg (fun h => absurd h hc)
      have hbig : 2 ^ 63 < decVal (d1 :: xs) := by
        by_contra hc; exact hneg (fun _ => by omega)
      rw [strToNum_after_sign c o e sign d1 hs hu1 hf, hn]
      rw [afterSign_negbig c e (o + sign.length) d1 xs he h1 hxs hu'.2 hendI hfit hbig]
      have hlen20 : xs.length ≤ 19 := by
        by_contra hc
        have := decVal_ge d1 xs h1
        have h20 : 10 ^ 20 ≤ 10 ^ xs.length := Nat.pow_le_pow_right (by decide) (by omega)
        have : (2 : Nat) ^ 64 < 10 ^ 20 := by decide
        omega
      have hlen18 : 18 ≤ xs.length := by
        by_contra hc
        have hlt := decVal_lt_pow (d1 :: xs) hall
        have : 10 ^ (d1 :: xs).length ≤ 10 ^ 18 := Nat.pow_le_pow_right (by decide) (by simp; omega)
        have : (10 : Nat) ^ 18 < 2 ^ 63 := by decide
        omega
      rw [finishReal_end c e true _ _ _ _ false false _ (by omega) (by rw [hQ]; exact Or.inl rfl) (xs.length + 1) 0
        (by simp only [b2n, Bool.not_false, Bool.true_and, Bool.false_eq_true, if_false]
            rw [sub32_sub32 _ _ 0 (by omega) (by omega)]; omega)
        (by simp) (by decide)]
      have hne : netExp false 0 false 0 = (0, false) := by unfold netExp; simp
      rw [hne, hQ]
      have hge := decVal_ge d1 xs h1
      have hlt := decVal_lt_pow (d1 :: xs) hall
      have hl : (d1 :: xs).length = xs.length + 1 := by simp
      rw [hl] at hlt
      have h16 : 10 ^ 16 ≤ decVal (d1 :: xs) := by
        have : (10 : Nat) ^ 16 ≤ 2 ^ 63 := by decide
        omega
      have := realResult_trunc true (decVal (d1 :: xs)) (xs.length + 1) 0 false e 0 (decVal (d1 :: xs)) h16 hfit
        (by simpa using hge) hlt (by omega) (by omega) (by decide) (by simp) (by
          have : 0 < decVal (d1 :: xs) := by omega
          simp; omega)
      simpa [truncFrac] using this
  · -- does not fit 64 bits: at least 20 digits, the real path
    left
    have hlen19 : 19 ≤ xs.length := by
      by_contra hc
      have hlt := decVal_lt_pow (d1 :: xs) hall
      have : 10 ^ (d1 :: xs).length ≤ 10 ^ 19 := Nat.pow_le_pow_right (by decide) (by simp; omega)
      have : (10 : Nat) ^ 19 < 2 ^ 64 := by decide
      omega
    obtain ⟨x18, rest, hxeq, hl18⟩ : ∃ x18 rest, xs = x18 ++ rest ∧ x18.length = 18 :=
      ⟨xs.take 18, xs.drop 18, (List.take_append_drop _ _).symm, by rw [List.length_take]; omega⟩
    subst hxeq
    have hx18 : AllDigits x18 := fun y hy => hxs y (by simp [hy])
    have hrest : AllDigits rest := fun y hy => hxs y (by simp [hy])
    have hrl : 1 ≤ rest.length := by simp at hlen19; omega
    have hreal : ([] : List Nat) ≠ [] ∨ ([] : List Nat) ≠ [] ∨ 2 ≤ rest.length ∨
        (∃ d20, rest = [d20] ∧ (decVal (d1 :: x18) > 0x1999999999999999 ∨
          (decVal (d1 :: x18) = 0x1999999999999999 ∧ d20 > 53))) := by
      by_cases h2 : 2 ≤ rest.length
      · exact Or.inr (Or.inr (Or.inl h2))
      · right; right; right
        obtain ⟨d20, hr⟩ : ∃ d20, rest = [d20] := by
          cases rest with
          | nil => simp at hrl
          | cons a b =>
            cases b with
            | nil => exact ⟨a, rfl⟩
            | cons _ _ => simp at h2
        refine ⟨d20, hr, ?_⟩
        subst hr
        have hd20 : isDigit d20 = true := hrest d20 (by simp)
        have hv : decVal (d1 :: (x18 ++ [d20])) = decVal (d1 :: x18) * 10 + (d20 - 48) := by
          rw [← List.cons_append, decVal_append_singleton]
        rw [hv] at hfit
        simp [isDigit] at hd20
        have h2' : (0x1999999999999999 : Nat) * 10 + 6 = 2 ^ 64 := by decide
        omega
    have := good_int_long c o e sign d1 x18 rest [] [] [] [] [] hs h1 hx18 hl18 hrest (by intro y hy; cases hy)
      (Or.inl ⟨rfl, rfl⟩) (Or.inl ⟨rfl, rfl, rfl⟩) (by simpa using hu) (by simp at hQ ⊢; omega) hbound hreal
    simpa [valFrac, decVal] using this

/-- `[+-]? 0 [. F] [exp]` — a leading zero digit: zero values and the fraction-only path -/
theorem good_zero_lead (c : List Nat) (o e : Nat) (sign zs G F DF EP es ks : List Nat)
    (hs : sign = [] ∨ sign = [43] ∨ sign = [45]) (hz : ∀ z ∈ zs, z = 48) (hG : AllDigits G)
    (hGh : G = [] ∨ ∃ g1 gt, G = g1 :: gt ∧ isNonZeroDigit g1 = true) (hFeq : F = zs ++ G)
    (hDF : (DF = [] ∧ F = []) ∨ (DF = 46 :: F ∧ F ≠ [])) (hEP : ExpPart EP es ks)
    (hu : unitsAt c e o (sign ++ [48] ++ DF ++ EP))
    (hQ : o + sign.length + 1 + DF.length + EP.length = e) (hbound : e ≤ 99999000) :
    NumGood (decide (sign = [45])) (valFrac (decVal (48 :: F)) (decVal ks) (decide (es = [45])) F.length).1
      (valFrac (decVal (48 :: F)) (decVal ks) (decide (es = [45])) F.length).2 e (strToNum c o e) := by
  have he : e < 2 ^ 32 := by omega
  have hA := (unitsAt_append c e (sign ++ [48] ++ DF) EP o).1 hu
  have hB := (unitsAt_append c e (sign ++ [48]) DF o).1 hA.1
  have hu1 : unitsAt c e o (sign ++ [48]) := hB.1
  have hu' := (unitsAt_append c e sign [48] o).1 hu1
  have hDFu : unitsAt c e (o + sign.length + 1) DF := by
    have := hB.2; simp only [List.length_append, List.length_cons, List.length_nil] at this
    rw [show o + sign.length + 1 = o + (sign.length + (0 + 1)) by omega]; exact this
  have hEPu : unitsAt c e (o + sign.length + 1 + DF.length) EP := by
    have := hA.2; simp only [List.length_append, List.length_cons, List.length_nil] at this
    rw [show o + sign.length + 1 + DF.length = o + (sign.length + (0 + 1) + DF.length) by omega]; exact this
  have hzero : decVal (48 :: F) = decVal G := by
    rw [hFeq, show 48 :: (zs ++ G) = (48 :: zs) ++ G by simp]
    exact decVal_zeros (48 :: zs) G (fun y hy => by
      rcases List.mem_cons.1 hy with h | h
      · exact h
      · exact hz y h)
  rcases hDF with ⟨rfl, hF0⟩ | ⟨rfl, hF0⟩
  · -- no dot
    subst hF0
    simp only [List.length_nil, Nat.add_zero, List.append_nil] at hEPu hQ hu
    rcases hEP with ⟨rfl, rfl, rfl⟩ | ⟨m, hmE, rfl, hes, hks, hk0⟩
    · -- the numeral `0`
      simp only [List.length_nil, Nat.add_zero, List.append_nil] at hQ hu
      obtain ⟨z1, z2, z3⟩ := int_exact_zero c o e he
      rcases hs with rfl | rfl | rfl
      · right
        have := z1 (by simpa using hu.1) (Or.inl (by simp at hQ; omega))
        refine ⟨_, this, Or.inl rfl, ?_⟩
        simp [valFrac, decVal]
      · right
        have := z2 (by simpa using hu) (Or.inl (by simp at hQ; omega))
        refine ⟨_, this, Or.inl rfl, ?_⟩
        simp [valFrac, decVal]
      · left
        have := z3 (by simpa using hu) (Or.inl (by simp at hQ; omega))
        rw [this]
        have hg := good_zero true 1 e
        have he2 : o + 2 = e := by simp at hQ; omega
        simpa [valFrac, decVal, he2] using hg
    · left
      simp only [List.length_cons, List.length_append] at hQ
      have hu2 : unitsAt c e o (sign ++ [48, m] ++ (es ++ ks)) := by
        have e1 : sign ++ [48, m] ++ (es ++ ks) = sign ++ [48] ++ m :: (es ++ ks) := by simp
        rw [e1]; exact hu
      rw [zero_exp c o e sign m es ks he hs hmE hes hks hk0 hu2 (Or.inl (by omega))]
      have hg := good_zero (decide (sign = [45])) ((valFrac (decVal ([48] : List Nat)) (decVal ks) (decide (es = [45])) 0).2) e
      have hv0 : (valFrac (decVal ([48] : List Nat)) (decVal ks) (decide (es = [45])) 0).1 = 0 := by
        rw [show decVal ([48] : List Nat) = 0 by decide]; exact valFrac_zero _ _ _
      rw [show o + sign.length + 2 + es.length + ks.length = e by omega]
      simpa [hv0] using hg
  · left
    have hFu : unitsAt c e (o + sign.length + 1 + 1) F := hDFu.2
    have hdotu : rd c e (o + sign.length + 1) = some 46 := hDFu.1
    simp only [List.length_cons] at hEPu hQ
    have hFlen : F.length = zs.length + G.length := by rw [hFeq]; simp
    have hzG := (unitsAt_append c e zs G (o + sign.length + 1 + 1)).1 (by rw [← hFeq]; exact hFu)
    rcases hGh with hGnil | ⟨g1, gt, hGeq, hg1⟩
    · -- zero value `0.000…`
      subst hGnil
      simp only [List.append_nil] at hFeq
      subst hFeq
      have hg := good_zero (decide (sign = [45]))
        ((valFrac (decVal (48 :: F)) (decVal ks) (decide (es = [45])) F.length).2) e
      have hv0 : (valFrac (decVal (48 :: F)) (decVal ks) (decide (es = [45])) F.length).1 = 0 := by
        rw [hzero, decVal_nil]; exact valFrac_zero _ _ _
      rw [hv0]
      rcases hEP with ⟨rfl, rfl, rfl⟩ | ⟨m, hmE, rfl, hes, hks, hk0⟩
      · simp only [List.length_nil, Nat.add_zero, List.append_nil] at hQ hu
        have hu2 : unitsAt c e o (sign ++ ([48, 46] ++ F)) := by
          have e1 : sign ++ ([48, 46] ++ F) = sign ++ [48] ++ 46 :: F := by simp
          rw [e1]; exact hu
        rw [zero_dot_zeros_end c o e sign F he hs hz hF0 hu2 (Or.inl (by omega))]
        rw [show o + sign.length + 2 + F.length = e by omega]
        exact hg
      · simp only [List.length_cons, List.length_append] at hQ
        have hu2 : unitsAt c e o (sign ++ ([48, 46] ++ F) ++ [m] ++ (es ++ ks)) := by
          have e1 : sign ++ ([48, 46] ++ F) ++ [m] ++ (es ++ ks) = sign ++ [48] ++ 46 :: F ++ m :: (es ++ ks) := by simp
          rw [e1]; exact hu
        rw [zero_dot_zeros_exp c o e sign F m es ks he hs hz hF0 hmE hes hks hk0 hu2 (Or.inl (by omega))]
        rw [show o + sign.length + 2 + F.length + 1 + es.length + ks.length = e by omega]
        exact hg
    · -- fraction-only path with significant digits `G`
      subst hGeq
      have hgt : AllDigits gt := fun y hy => hG y (by simp [hy])
      rw [strToNum_after_sign c o e sign 48 hs hu1 (by decide)]
      rw [hzero, hFlen]
      have hGu : unitsAt c e (o + sign.length + 2 + zs.length) (g1 :: gt) := by
        have := hzG.2
        rw [show o + sign.length + 1 + 1 + zs.length = o + sign.length + 2 + zs.length by omega] at this; exact this
      have hEPu2 : unitsAt c e (o + sign.length + 2 + zs.length + 1 + gt.length) EP := by
        rw [show o + sign.length + 2 + zs.length + 1 + gt.length = o + sign.length + 1 + (F.length + 1) by
          rw [hFlen]; simp; omega]
        exact hEPu
      have hQ2 : o + sign.length + 2 + zs.length + 1 + gt.length + EP.length = e := by
        rw [hFlen] at hQ; simp at hQ; omega
      have hscanu : unitsAt c e (o + sign.length) ([48, 46] ++ zs ++ g1 :: gt) := by
        have hall := hu'.2
        refine (unitsAt_append c e ([48, 46] ++ zs) (g1 :: gt) (o + sign.length)).2 ⟨
          (unitsAt_append c e [48, 46] zs (o + sign.length)).2 ⟨⟨hall.1, hdotu, trivial⟩, by simpa using hzG.1⟩, ?_⟩
        simp only [List.length_append, List.length_cons, List.length_nil]
        rw [show o + sign.length + (0 + 1 + 1 + zs.length) = o + sign.length + 2 + zs.length by omega]; exact hGu
      by_cases hshort : gt.length ≤ 17
      · have hst := stop_of_expPart c e _ EP es ks hEP hEPu2 hQ2
        rw [afterSign_small c e _ (o + sign.length) zs g1 gt he hz hg1 hgt hshort hscanu hst]
        have := glueD c e (decide (sign = [45])) (o + sign.length + 2 + zs.length + 1 + gt.length)
          (o + sign.length + 2 + zs.length) true (o + sign.length + 1) (g1 :: gt) g1 gt [] EP es ks (1 + gt.length)
          (1 + gt.length + zs.length) he rfl hg1 hG (by simp; omega) (by omega) (by intro y hy; cases hy) trivial hEP
          (by simpa using hEPu2) (by simpa using hQ2)
          (by simp only [b2n, Bool.not_true, Bool.false_and, Bool.false_eq_true, if_false]
              rw [sub32_sub32 _ _ 0 (by omega) (by omega)]; omega)
          (by simp only [if_true]
              rw [sub32_sub32 _ _ 1 (by omega) (by omega), add32_eq _ _ (by omega)]; omega)
          (by simp; omega) (Or.inl (by simp))
        have e1 : 1 + gt.length + zs.length + ([] : List Nat).length = zs.length + (g1 :: gt).length := by simp; omega
        rw [e1] at this
        simpa using this
      · obtain ⟨ys, R, hgteq, hyl⟩ : ∃ ys R, gt = ys ++ R ∧ ys.length = 18 :=
          ⟨gt.take 18, gt.drop 18, (List.take_append_drop _ _).symm, by rw [List.length_take]; omega⟩
        subst hgteq
        have hys : AllDigits ys := fun y hy => hgt y (by simp [hy])
        have hR : AllDigits R := fun y hy => hgt y (by simp [hy])
        have hKu : unitsAt c e (o + sign.length) ([48, 46] ++ zs ++ g1 :: ys) := by
          have e1 : [48, 46] ++ zs ++ g1 :: (ys ++ R) = ([48, 46] ++ zs ++ g1 :: ys) ++ R := by simp
          rw [e1] at hscanu
          exact ((unitsAt_append c e _ R (o + sign.length)).1 hscanu).1
        have hRu : unitsAt c e (o + sign.length + 2 + zs.length + 1 + 18) R := by
          have hsp := (unitsAt_append c e (g1 :: ys) R (o + sign.length + 2 + zs.length)).1 (by simpa using hGu)
          have := hsp.2
          simp only [List.length_cons, hyl] at this
          rw [show o + sign.length + 2 + zs.length + 1 + 18 = o + sign.length + 2 + zs.length + (18 + 1) by omega]
          exact this
        rw [afterSign_small_cut c e _ (o + sign.length) zs g1 ys he hz hg1 hys hyl hKu]
        rw [hyl]
        have hKd : AllDigits (g1 :: ys) := fun y hy => hG y (by
          rcases List.mem_cons.1 hy with h | h
          · subst h; simp
          · simp [h])
        have hK18 := decVal_ge g1 ys hg1
        rw [hyl] at hK18
        obtain ⟨t1, t2⟩ := decVal_trunc (g1 :: ys) R hR
        simp only [List.length_append] at hEPu2 hQ2
        have := glueD c e (decide (sign = [45])) (o + sign.length + 2 + zs.length + 1 + 18)
          (o + sign.length + 2 + zs.length) true (o + sign.length + 1) (g1 :: ys) g1 ys R EP es ks 19
          (19 + zs.length) he rfl hg1 hKd (by simp; omega) (by omega) hR hRu hEP
          (by rw [show o + sign.length + 2 + zs.length + 1 + 18 + R.length =
                o + sign.length + 2 + zs.length + 1 + (ys.length + R.length) by omega]; exact hEPu2)
          (by omega)
          (by simp only [b2n, Bool.not_true, Bool.false_and, Bool.false_eq_true, if_false]
              rw [sub32_sub32 _ _ 0 (by omega) (by omega)]; omega)
          (by simp only [if_true]
              rw [sub32_sub32 _ _ 1 (by omega) (by omega), add32_eq _ _ (by omega)]; omega)
          (by omega)
          (Or.inr ⟨Nat.le_trans (by decide) hK18, trunc_rel_of_abs _ _ _ (Nat.le_trans (by decide) hK18) t2⟩)
        have e1 : 19 + zs.length + R.length = zs.length + (g1 :: (ys ++ R)).length := by simp; omega
        rw [e1] at this
        simpa [List.append_assoc] using this

end Qentem.Props.C09
