import Qentem.Props.C11Parser
import Qentem.Proofs.StrToNumCloseAll
/-! C09/C11, floats — parser side: on every `Text17`-shaped text (no margin, every mantissa) `parseDouble` returns a
double within **one ulp** of the correctly rounded value of the text, or the value is outside the double range
(`ParseClose`, `parse_close17`). -/
namespace Qentem.Props.C11P
open Qentem.StrToNum Qentem.Round Qentem.Proofs.Ident Qentem.Props.C09

theorem strToNum_fixed_eq (neg : Bool) (d1 : Nat) (xs ys : List Nat) (h1 : isNonZeroDigit d1 = true)
    (hxs : AllDigits xs) (hys : AllDigits ys) (hy0 : ys ≠ []) (hy48 : ys ≠ [48]) (hlen : xs.length + ys.length ≤ 17)
    (t : List Nat) (ht : sgOf neg ++ (d1 :: xs ++ [46] ++ ys) = t) :
    strToNum t 0 t.length =
      realResult neg (decVal (d1 :: xs ++ ys)) (xs.length + 1 + ys.length) ys.length true t.length := by
  have hdig := isNonZeroDigit_isDigit h1
  have hd1r : 48 ≤ d1 ∧ d1 ≤ 57 := by simp [isDigit] at hdig; omega
  have hf : d1 ≠ 45 ∧ d1 ≠ 43 := by omega
  have hylen : 0 < ys.length := by cases ys with
    | nil => exact absurd rfl hy0
    | cons a b => simp
  have htl : t.length = (sgOf neg).length + 1 + xs.length + 1 + ys.length := by
    rw [← ht]; simp; omega
  have hsl : (sgOf neg).length ≤ 1 := by rw [sgOf_len]; cases neg <;> simp [b2n]
  have he : t.length < 2 ^ 32 := by omega
  have hu : unitsAt t t.length 0 (sgOf neg ++ (d1 :: xs ++ [46] ++ ys)) := by rw [ht]; exact unitsAt_self t
  have hu' := (unitsAt_append t t.length (sgOf neg) (d1 :: xs ++ [46] ++ ys) 0).1 hu
  have hu1 : unitsAt t t.length 0 (sgOf neg ++ [d1]) :=
    (unitsAt_append t t.length (sgOf neg) [d1] 0).2 ⟨hu'.1, hu'.2.1, trivial⟩
  have hQ : 0 + (sgOf neg).length + 1 + xs.length + 1 + ys.length = t.length := by omega
  rw [strToNum_after_sign t 0 t.length (sgOf neg) d1 (sgOf_cases neg) hu1 hf, sgOf_dec]
  rw [afterSign_frac t t.length neg (0 + (sgOf neg).length) d1 xs ys he h1 hxs hys hy0 hy48 hlen hu'.2 (Or.inl hQ)]
  rw [finishReal_end t t.length neg _ _ _ _ false true _ (by omega) (Or.inl hQ) (xs.length + 1 + ys.length) ys.length
    (by simp only [b2n, Bool.not_false, Bool.and_self, if_true]
        rw [sub32_sub32 _ _ 1 (by omega) (by omega)]; omega)
    (by simp only [Bool.false_eq_true, if_false, if_true]
        rw [sub32_sub32 _ _ 1 (by omega) (by omega)]; omega)
    (by omega)]
  have hne : netExp false 0 false ys.length = (ys.length, true) := by
    unfold netExp; simp; omega
  rw [hne, hQ]

theorem strToNum_small_eq (neg : Bool) (zs : List Nat) (d1 : Nat) (ys : List Nat) (hz : ∀ z ∈ zs, z = 48)
    (hzl : zs.length ≤ 8) (h1 : isNonZeroDigit d1 = true) (hys : AllDigits ys) (hlen : ys.length ≤ 16)
    (t : List Nat) (ht : sgOf neg ++ ([48] ++ 46 :: (zs ++ d1 :: ys)) = t) :
    strToNum t 0 t.length =
      realResult neg (decVal (d1 :: ys)) (1 + ys.length) (zs.length + 1 + ys.length) true t.length := by
  have hsl : (sgOf neg).length ≤ 1 := by rw [sgOf_len]; cases neg <;> simp [b2n]
  have ht' : t = sgOf neg ++ ([48, 46] ++ zs ++ d1 :: ys) := by rw [← ht]; simp
  have htl : t.length = (sgOf neg).length + 2 + zs.length + 1 + ys.length := by rw [ht']; simp; omega
  have he : t.length < 2 ^ 32 := by omega
  have hu : unitsAt t t.length 0 (sgOf neg ++ ([48, 46] ++ zs ++ d1 :: ys)) := by rw [← ht']; exact unitsAt_self t
  have hu' := (unitsAt_append t t.length (sgOf neg) _ 0).1 hu
  have hu1 : unitsAt t t.length 0 (sgOf neg ++ [48]) :=
    (unitsAt_append t t.length (sgOf neg) [48] 0).2 ⟨hu'.1, hu'.2.1, trivial⟩
  have hQ : 0 + (sgOf neg).length + 2 + zs.length + 1 + ys.length = t.length := by omega
  rw [strToNum_after_sign t 0 t.length (sgOf neg) 48 (sgOf_cases neg) hu1 (by decide), sgOf_dec]
  rw [afterSign_small t t.length neg (0 + (sgOf neg).length) zs d1 ys he hz h1 hys (by omega) hu'.2 (Or.inl hQ)]
  rw [finishReal_end t t.length neg _ _ _ _ true true _ (by omega) (Or.inl hQ) (1 + ys.length) (zs.length + 1 + ys.length)
    (by simp only [b2n, Bool.not_true, Bool.false_and, Bool.false_eq_true, if_false]
        rw [sub32_sub32 _ _ 0 (by omega) (by omega)]; omega)
    (by simp only [if_true]
        rw [sub32_sub32 _ _ 1 (by omega) (by omega), add32_eq _ _ (by omega)]; omega)
    (by omega)]
  have hne : netExp true 0 false (zs.length + 1 + ys.length) = (zs.length + 1 + ys.length, true) := by
    unfold netExp; simp
  rw [hne, hQ]

/-- what the parser guarantees on a text without any margin: the reference reader understands it as `(neg, num, den)`,
and either the parser's double has that sign and a magnitude pattern within one of the correctly rounded one, or the
value is below half the smallest subnormal / above the largest finite double -/
def ParseClose (t : List Nat) : Prop :=
  ∃ neg num den, FmtSpec.readDecimal t = some (neg, num, den) ∧ 0 < den ∧
    ((∃ p, parseDouble t = some ((if neg then 2 ^ 63 else 0) + p) ∧ p < 2 ^ 63 ∧ ulpDist p (nearestMag num den) ≤ 1) ∨
     (num * 2 ^ 1074 < den ∨ (2 ^ 53 - 1) * 2 ^ 971 * den < num))

theorem parse_close_of_realResult (t : List Nat) (neg : Bool) (v n X : Nat) (FLAG : Bool) (num den : Nat)
    (hstr : strToNum t 0 t.length = realResult neg v n X FLAG t.length)
    (hrd : FmtSpec.readDecimal t = some (neg, num, den))
    (hv0 : 0 < v) (hv : v < 2 ^ 64) (hlo : 10 ^ (n - 1) ≤ v) (hhi : v < 10 ^ n) (hn1 : 1 ≤ n) (hn19 : n ≤ 19)
    (hX : X < 2 ^ 31)
    (hlink : ∃ c, 0 < c ∧ num = (if FLAG then v else v * 10 ^ X) * c ∧ den = (if FLAG then 10 ^ X else 1) * c) :
    ParseClose t := by
  obtain ⟨c, hc, hnum, hden⟩ := hlink
  have hNpos : 0 < (if FLAG then v else v * 10 ^ X) := by
    split
    · exact hv0
    · exact Nat.mul_pos hv0 (Nat.pow_pos (by decide))
  have hDpos : 0 < (if FLAG then 10 ^ X else 1) := by
    split
    · exact Nat.pow_pos (by decide)
    · decide
  have hmag : nearestMag num den = (if FLAG then nearestMag v (10 ^ X) else nearestMag (v * 10 ^ X) 1) := by
    rw [hnum, hden, nearestMag_scale _ _ c hNpos hDpos hc]
    cases FLAG <;> simp
  refine ⟨neg, num, den, hrd, by rw [hden]; exact Nat.mul_pos hDpos hc, ?_⟩
  obtain ⟨r, hres, hoff, hcase⟩ := realResult_class_all neg v n X FLAG t.length hv0 hv hlo hhi hn1 hn19 hX
  rw [← hstr] at hres
  rcases hcase with ⟨_, hout⟩ | ⟨hkind, hsign, hclose, _⟩
  · right
    cases FLAG with
    | true =>
      left
      simp only [if_true] at hout hnum hden
      rw [hnum, hden]
      calc v * c * 2 ^ 1074 = v * 2 ^ 1074 * c := by ring
        _ < 10 ^ X * c := Nat.mul_lt_mul_of_pos_right hout hc
    | false =>
      right
      simp only [Bool.false_eq_true, if_false] at hout hnum hden
      rw [hnum, hden]
      calc (2 ^ 53 - 1) * 2 ^ 971 * (1 * c) = (2 ^ 53 - 1) * 2 ^ 971 * c := by ring
        _ < v * 10 ^ X * c := Nat.mul_lt_mul_of_pos_right hout hc
  · left
    refine ⟨r.bits % 2 ^ 63, ?_, Nat.mod_lt _ (by decide), by rw [hmag]; exact hclose⟩
    unfold parseDouble
    rw [hres]
    obtain ⟨k, bits, off⟩ := r
    simp only at hkind hoff hsign
    subst hkind; subst hoff
    simp only [if_true]
    congr 1
    have := Nat.div_add_mod bits (2 ^ 63)
    rw [hsign] at this
    cases neg <;> simp [b2n] at this ⊢ <;> omega

/-- **one ulp on every `%.17g`-shaped text**, no margin, every mantissa -/
theorem parse_close17 (t : List Nat) (ht : Text17 t) : ParseClose t := by
  cases ht with
  | int neg ds hds hne hlead hlen =>
    have hex := parse_exact_int neg ds hds hne hlead hlen
    obtain ⟨d1, xs, hdseq⟩ : ∃ d1 xs, ds = d1 :: xs := by
      cases ds with
      | nil => exact absurd rfl hne
      | cons a b => exact ⟨a, b, rfl⟩
    have hd1 : isDigit d1 = true := hds d1 (by rw [hdseq]; simp)
    have hd1r : 48 ≤ d1 ∧ d1 ≤ 57 := by simp [isDigit] at hd1; omega
    have hrc : readCore neg ds = some (neg, decVal ds, 1) := by
      have := readCore_plain neg ds [] hne (allDigits_fmt hds) (by intro c hc; simp at hc)
      simpa [digitsValue_eq] using this
    have hrd := readDecimal_of_core neg ds d1 xs hdseq hd1r _ hrc
    rw [readBits64_signed neg ds d1 xs hdseq hd1r _ _ (by decide) hrc] at hex
    exact ⟨neg, decVal ds, 1, hrd, by decide, Or.inl ⟨nearestMag (decVal ds) 1, hex,
      Nat.lt_of_le_of_lt (nearestMag_le_inf _ _) (by decide), by simp [ulpDist]⟩⟩
  | fixed neg d1 xs ys h1 hxs hys hy0 hy48 hlen =>
    have hdig := isNonZeroDigit_isDigit h1
    have hall : AllDigits (d1 :: (xs ++ ys)) := by
      intro y hy
      simp only [List.mem_cons, List.mem_append] at hy
      rcases hy with h | h | h
      · subst h; exact hdig
      · exact hxs y h
      · exact hys y h
    have hrc : readCore neg (d1 :: xs ++ [46] ++ ys) = some (neg, decVal (d1 :: xs ++ ys), 10 ^ ys.length) := by
      have := readCore_plain neg (d1 :: xs) ys (by simp) (allDigits_fmt (fun y hy => by
        rcases List.mem_cons.1 hy with h | h
        · subst h; exact hdig
        · exact hxs y h)) (allDigits_fmt hys)
      simp only [hy0, if_false] at this
      rw [← digitsValue_eq]
      simpa using this
    have hrd := readDecimal_of_core neg _ d1 (xs ++ [46] ++ ys) (by simp) (by simp [isDigit] at hdig; omega) _ hrc
    rw [signed_eq] at hrd ⊢
    generalize ht : sgOf neg ++ (d1 :: xs ++ [46] ++ ys) = t at *
    have hstr := strToNum_fixed_eq neg d1 xs ys h1 hxs hys hy0 hy48 (by omega) t ht
    have hge := decVal_ge d1 (xs ++ ys) h1
    have hvhi := decVal_lt_pow (d1 :: (xs ++ ys)) hall
    have hv0 : 0 < decVal (d1 :: (xs ++ ys)) := Nat.lt_of_lt_of_le (Nat.pow_pos (by decide)) hge
    have hl : (d1 :: (xs ++ ys)).length = xs.length + 1 + ys.length := by simp; omega
    have hl' : (xs ++ ys).length = xs.length + 1 + ys.length - 1 := by simp
    rw [hl] at hvhi; rw [hl'] at hge
    have hv64 : decVal (d1 :: (xs ++ ys)) < 2 ^ 64 :=
      Nat.lt_of_lt_of_le hvhi (Nat.le_trans (Nat.pow_le_pow_right (by decide) (by omega)) (by decide : (10 : Nat) ^ 19 ≤ 2 ^ 64))
    exact parse_close_of_realResult t neg _ (xs.length + 1 + ys.length) ys.length true _ _ hstr hrd
      (by simpa using hv0) (by simpa using hv64) (by simpa using hge) (by simpa using hvhi) (by omega) (by omega) (by omega)
      ⟨1, by decide, by simp, by simp⟩
  | small neg zs d1 ys hz hzl h1 hys hlen =>
    have hdig := isNonZeroDigit_isDigit h1
    have hall : AllDigits (d1 :: ys) := by
      intro y hy
      rcases List.mem_cons.1 hy with h | h
      · subst h; exact hdig
      · exact hys y h
    have hzd : AllDigits zs := fun z hzm => by rw [hz z hzm]; decide
    have hrc : readCore neg ([48] ++ 46 :: (zs ++ d1 :: ys)) =
        some (neg, decVal (d1 :: ys), 10 ^ (zs.length + 1 + ys.length)) := by
      have := readCore_plain neg [48] (zs ++ d1 :: ys) (by simp) (by intro c hc; simp at hc; subst hc; decide)
        (allDigits_fmt (fun y hy => by
          rcases List.mem_append.1 hy with h | h
          · exact hzd y h
          · exact hall y h))
      have hne : zs ++ d1 :: ys ≠ [] := by simp
      simp only [hne, if_false] at this
      rw [this, digitsValue_eq]
      have e1 : decVal ([48] ++ (zs ++ d1 :: ys)) = decVal (d1 :: ys) := by
        rw [show [48] ++ (zs ++ d1 :: ys) = (48 :: zs) ++ d1 :: ys by simp]
        exact decVal_zeros (48 :: zs) (d1 :: ys) (fun y hy => by
          rcases List.mem_cons.1 hy with h | h
          · exact h
          · exact hz y h)
      rw [e1]
      have hl : (zs ++ d1 :: ys).length = zs.length + 1 + ys.length := by simp; omega
      rw [hl]
    have hrd := readDecimal_of_core neg _ 48 (46 :: (zs ++ d1 :: ys)) (by simp) (by decide) _ hrc
    rw [signed_eq] at hrd ⊢
    generalize ht : sgOf neg ++ ([48] ++ 46 :: (zs ++ d1 :: ys)) = t at *
    have hstr := strToNum_small_eq neg zs d1 ys hz hzl h1 hys (by omega) t ht
    have hge := decVal_ge d1 ys h1
    have hvhi := decVal_lt_pow (d1 :: ys) hall
    have hv0 : 0 < decVal (d1 :: ys) := Nat.lt_of_lt_of_le (Nat.pow_pos (by decide)) hge
    have hl : (d1 :: ys).length = 1 + ys.length := by simp; omega
    rw [hl] at hvhi
    have hv64 : decVal (d1 :: ys) < 2 ^ 64 :=
      Nat.lt_of_lt_of_le hvhi (Nat.le_trans (Nat.pow_le_pow_right (by decide) (by omega)) (by decide : (10 : Nat) ^ 19 ≤ 2 ^ 64))
    exact parse_close_of_realResult t neg _ (1 + ys.length) (zs.length + 1 + ys.length) true _ _ hstr hrd
      hv0 hv64 (by rw [show 1 + ys.length - 1 = ys.length by omega]; exact hge) hvhi (by omega) (by omega) (by omega)
      ⟨1, by decide, by simp, by simp⟩
  | sci neg d1 ys eneg ks h1 hys hy48 hlen hks hk0 hk8 hrange hcond =>
    have hdig := isNonZeroDigit_isDigit h1
    have hall : AllDigits (d1 :: ys) := by
      intro y hy
      rcases List.mem_cons.1 hy with h | h
      · subst h; exact hdig
      · exact hys y h
    have hrc := readCore_exp neg [d1] ys ks eneg (by simp) (allDigits_fmt (fun y hy => by simp at hy; subst hy; exact hdig))
      (allDigits_fmt hys) hk0 (allDigits_fmt hks)
    have hrc' : readCore neg ([d1] ++ (if ys = [] then [] else 46 :: ys) ++ 101 :: (if eneg then 45 else 43) :: ks) =
        some (neg, (if eneg then decVal (d1 :: ys) else decVal (d1 :: ys) * 10 ^ decVal ks),
          (if eneg then 10 ^ ys.length * 10 ^ decVal ks else 10 ^ ys.length)) := by
      rw [hrc]
      cases eneg <;> simp [digitsValue_eq]
    have hrd := readDecimal_of_core neg _ d1 ((if ys = [] then [] else 46 :: ys) ++ 101 :: (if eneg then 45 else 43) :: ks)
      (by simp) (by simp [isDigit] at hdig; omega) _ hrc'
    rw [signed_eq] at hrd ⊢
    generalize ht : sgOf neg ++ ([d1] ++ (if ys = [] then [] else 46 :: ys) ++ 101 :: (if eneg then 45 else 43) :: ks) = t at *
    have hstr := strToNum_sci_eq neg d1 ys eneg ks h1 hys hy48 (by omega) hks hk0 hk8 t ht.symm
    have hge := decVal_ge d1 ys h1
    have hvhi := decVal_lt_pow (d1 :: ys) hall
    have hv0 : 0 < decVal (d1 :: ys) := Nat.lt_of_lt_of_le (Nat.pow_pos (by decide)) hge
    have hl : (d1 :: ys).length = 1 + ys.length := by simp; omega
    rw [hl] at hvhi
    have hv64 : decVal (d1 :: ys) < 2 ^ 64 :=
      Nat.lt_of_lt_of_le hvhi (Nat.le_trans (Nat.pow_le_pow_right (by decide) (by omega)) (by decide : (10 : Nat) ^ 19 ≤ 2 ^ 64))
    have hk : decVal ks < 10 ^ 8 := Nat.lt_of_lt_of_le (decVal_lt_pow ks hks) (Nat.pow_le_pow_right (by decide) hk8)
    have hX : (netExp false (decVal ks) eneg ys.length).1 < 2 ^ 31 := by
      unfold netExp
      split
      · simp; omega
      · split <;> simp <;> omega
    exact parse_close_of_realResult t neg _ (1 + ys.length) _ _ _ _ hstr hrd
      hv0 hv64 (by rw [show 1 + ys.length - 1 = ys.length by omega]; exact hge) hvhi (by omega) (by omega) hX
      (frac_link (decVal (d1 :: ys)) ys.length (decVal ks) eneg)

end Qentem.Props.C11P
