import Qentem.Model.FmtSpec
import Qentem.Model.StrToNum
import Qentem.Model.Round
import Qentem.Proofs.StrToNumC11
import Qentem.Proofs.StrToNumText
import Qentem.Proofs.StrToNumSmall
import Qentem.Proofs.NumToStrIdent
import Qentem.Props.C09
import Qentem.Props.C11
/-! C11, parser half — interface definitions shared by the parser area (C09) and the formatter
area (C10/C11).

* `parseDouble` — `Digit::StringToNumber` on a whole text, followed by the conversion every caller
  applies to an integer result (`double(q.Natural)`, `double(q.Integer)`: hardware
  round-to-nearest-even, i.e. `nearestMag v 1`).
* `Text17` — the shapes `%.17g` produces (sign is `-` or nothing, never `+`), defined at the end of this file.
* `Margin32 num den` — the exact value `num/den` is at least 1/32 unit in the last place away from
  every rounding boundary (half-way point) of binary64.
The parser-side theorem is `parseDouble t = FmtSpec.readBits64 t` for `Text17 t` under `Margin32`;
the formatter side owes `Text17 t ∧ Margin32 …` for `t = format17 b`. -/
namespace Qentem.Props.C11P
open Qentem Qentem.StrToNum Qentem.Round

/-- text → binary64 pattern through the real parser model -/
def parseDouble (t : List Nat) : Option Nat :=
  match strToNum t 0 t.length with
  | some ⟨.real, bits, off⟩ => if off = t.length then some bits else none
  | some ⟨.natural, v, off⟩ => if off = t.length then some (nearestMag v 1) else none
  | some ⟨.integer, w, off⟩ => if off = t.length then some (2 ^ 63 + nearestMag (2 ^ 64 - w) 1) else none
  | _ => none

/-- `num/den` keeps a distance of at least 1/32 ulp from every half-way point between adjacent
doubles: with `(A, B) = roundPair num den` (so `A/B` is the value in units of its last place),
the fractional part of `A/B` is `≤ 1/2 − 1/32` or `≥ 1/2 + 1/32`. -/
def Margin32 (num den : Nat) : Prop :=
  32 * ((roundPair num den).1 % (roundPair num den).2) + (roundPair num den).2 ≤ 16 * (roundPair num den).2 ∨
  17 * (roundPair num den).2 ≤ 32 * ((roundPair num den).1 % (roundPair num den).2)

open Qentem.Props.C09 Qentem.Proofs.NumToStr Qentem.Proofs.Ident

theorem margin32_iff (num den : Nat) : Margin32 num den ↔ MarginPair (roundPair num den).1 (roundPair num den).2 := Iff.rfl

/-- the sign prefix as a list -/
def sgOf (neg : Bool) : List Nat := if neg then [45] else []

theorem signed_eq (neg : Bool) (body : List Nat) : FmtSpec.signed neg body = sgOf neg ++ body := by
  cases neg <;> simp [FmtSpec.signed, sgOf, FmtSpec.cMinus]

theorem sgOf_cases (neg : Bool) : sgOf neg = [] ∨ sgOf neg = [43] ∨ sgOf neg = [45] := by
  cases neg <;> simp [sgOf]

theorem sgOf_dec (neg : Bool) : decide (sgOf neg = [45]) = neg := by cases neg <;> simp [sgOf]

theorem sgOf_len (neg : Bool) : (sgOf neg).length = b2n neg := by cases neg <;> simp [sgOf, b2n]

theorem allDigits_fmt {l : List Nat} (h : AllDigits l) : ∀ c ∈ l, FmtSpec.isDigit c = true := by
  intro c hc; rw [fmt_isDigit_eq]; exact h c hc

/-- `readBits64` of a signed decimal body that `readCore` understands -/
theorem readBits64_signed (neg : Bool) (body : List Nat) (x : Nat) (rest : List Nat) (hbody : body = x :: rest)
    (hx : 48 ≤ x ∧ x ≤ 57) (num den : Nat) (hden : 0 < den)
    (hrc : readCore neg body = some (neg, num, den)) :
    FmtSpec.readBits64 (FmtSpec.signed neg body) = some ((if neg then 2 ^ 63 else 0) + nearestMag num den) := by
  have hnm : ∀ r, body ≠ 45 :: r := by
    intro r h; rw [hbody] at h; simp only [List.cons.injEq] at h; omega
  unfold FmtSpec.readBits64 FmtSpec.readBits
  have h1 : FmtSpec.signed neg body ≠ FmtSpec.inf := by
    rw [signed_eq, hbody]; cases neg <;> simp [sgOf, FmtSpec.inf] <;> omega
  have h2 : FmtSpec.signed neg body ≠ FmtSpec.cMinus :: FmtSpec.inf := by
    rw [signed_eq, hbody]; cases neg <;> simp [sgOf, FmtSpec.inf, FmtSpec.cMinus] <;> omega
  rw [if_neg h1, if_neg h2, readDecimal_signed neg body hnm, hrc]
  simp only
  rw [nearestBits_eq neg num den hden]

/-- the parser result as a double: a `Real` that consumed the whole text -/
theorem parseDouble_real (t : List Nat) (p : Nat) (neg : Bool) (hp : p < 2 ^ 63)
    (h : strToNum t 0 t.length = some ⟨.real, p ||| (if neg then 0x8000000000000000 else 0), t.length⟩) :
    parseDouble t = some ((if neg then 2 ^ 63 else 0) + p) := by
  unfold parseDouble
  rw [h]
  simp only [if_true]
  rw [or_sign_add p neg hp]

/-- **`%.17g` fixed notation with a fraction** (`ddd.ddd`): under the margin the parser returns the
correctly rounded double. -/
theorem parse_exact_fixed (neg : Bool) (d1 : Nat) (xs ys : List Nat) (h1 : isNonZeroDigit d1 = true)
    (hxs : AllDigits xs) (hys : AllDigits ys) (hy0 : ys ≠ []) (hy48 : ys ≠ [48]) (hlen : xs.length + ys.length ≤ 17)
    (hm : Margin32 (decVal (d1 :: xs ++ ys)) (10 ^ ys.length)) :
    parseDouble (FmtSpec.signed neg (d1 :: xs ++ [46] ++ ys)) =
      FmtSpec.readBits64 (FmtSpec.signed neg (d1 :: xs ++ [46] ++ ys)) := by
  have hdig := isNonZeroDigit_isDigit h1
  have hd1r : 48 ≤ d1 ∧ d1 ≤ 57 := by simp [isDigit] at hdig; omega
  have hf : d1 ≠ 45 ∧ d1 ≠ 43 := by omega
  have hall : AllDigits (d1 :: (xs ++ ys)) := by
    intro y hy
    simp only [List.mem_cons, List.mem_append] at hy
    rcases hy with h | h | h
    · subst h; exact hdig
    · exact hxs y h
    · exact hys y h
  -- reference side
  have hrc : readCore neg (d1 :: xs ++ [46] ++ ys) = some (neg, decVal (d1 :: xs ++ ys), 10 ^ ys.length) := by
    have := readCore_plain neg (d1 :: xs) ys (by simp) (allDigits_fmt (fun y hy => by
      rcases List.mem_cons.1 hy with h | h
      · subst h; exact hdig
      · exact hxs y h)) (allDigits_fmt hys)
    simp only [hy0, if_false] at this
    rw [← digitsValue_eq]
    simpa using this
  rw [readBits64_signed neg (d1 :: xs ++ [46] ++ ys) d1 (xs ++ [46] ++ ys) (by simp) hd1r _ _ (Nat.pow_pos (by decide)) hrc]
  -- parser side
  rw [signed_eq]
  have hylen : 0 < ys.length := by cases ys with
    | nil => exact absurd rfl hy0
    | cons a b => simp
  generalize ht : sgOf neg ++ (d1 :: xs ++ [46] ++ ys) = t
  have htl : t.length = (sgOf neg).length + 1 + xs.length + 1 + ys.length := by
    rw [← ht]; simp; omega
  have hsl : (sgOf neg).length ≤ 1 := by rw [sgOf_len]; cases neg <;> simp [b2n]
  have he : t.length < 2 ^ 32 := by omega
  have hu : unitsAt t t.length 0 (sgOf neg ++ (d1 :: xs ++ [46] ++ ys)) := by rw [ht]; exact unitsAt_self t
  have hu' := (unitsAt_append t t.length (sgOf neg) (d1 :: xs ++ [46] ++ ys) 0).1 hu
  have hu1 : unitsAt t t.length 0 (sgOf neg ++ [d1]) :=
    (unitsAt_append t t.length (sgOf neg) [d1] 0).2 ⟨hu'.1, hu'.2.1, trivial⟩
  have hQ : 0 + (sgOf neg).length + 1 + xs.length + 1 + ys.length = t.length := by omega
  have hstr : strToNum t 0 t.length = some ⟨.real, nearestMag (decVal (d1 :: xs ++ ys)) (10 ^ ys.length) |||
      (if neg then 0x8000000000000000 else 0), t.length⟩ := by
    rw [strToNum_after_sign t 0 t.length (sgOf neg) d1 (sgOf_cases neg) hu1 hf, sgOf_dec]
    rw [afterSign_frac t t.length neg (0 + (sgOf neg).length) d1 xs ys he h1 hxs hys hy0 hy48 hlen hu'.2 (Or.inl hQ)]
    rw [finishReal_end t t.length neg _ _ _ _ false true _ (by omega) (Or.inl hQ) (xs.length + 1 + ys.length) ys.length
      (by simp only [b2n, Bool.not_false, Bool.and_self, if_true]
          rw [sub32_sub32 _ _ 1 (by omega) (by omega)]; omega)
      (by simp only [Bool.false_eq_true, if_false, if_true]
          rw [sub32_sub32 _ _ 1 (by omega) (by omega)]; omega)
      (by omega)]
    have hne : netExp false 0 false ys.length = (ys.length, true) := by
      unfold netExp; simp; omega
    rw [hne, hQ]
    have hv0 : 0 < decVal (d1 :: (xs ++ ys)) :=
      Nat.lt_of_lt_of_le (Nat.pow_pos (by decide)) (decVal_ge d1 (xs ++ ys) h1)
    have hvhi := decVal_lt_pow (d1 :: (xs ++ ys)) hall
    have hv64 : decVal (d1 :: (xs ++ ys)) < 2 ^ 64 :=
      Nat.lt_of_lt_of_le hvhi (Nat.le_trans (Nat.pow_le_pow_right (by decide) (by simp; omega)) (by decide : (10 : Nat) ^ 19 ≤ 2 ^ 64))
    have hv10 : 10 ≤ decVal (d1 :: (xs ++ ys)) := by
      have := decVal_ge d1 (xs ++ ys) h1
      have h10 : 10 ^ 1 ≤ 10 ^ (xs ++ ys).length := Nat.pow_le_pow_right (by decide) (by simp; omega)
      omega
    have := realResult_exact neg (decVal (d1 :: (xs ++ ys))) (xs.length + 1 + ys.length) ys.length true t.length hv0 hv64
      (by omega) (by omega) (by simp only [if_true]; omega)
      (fun _ h => by obtain ⟨_, h⟩ := h; omega)
      (by simp only [if_true]; exact hm)
    simpa using this
  exact parseDouble_real t _ neg (Nat.lt_of_le_of_lt (nearestMag_le_inf _ _) (by decide)) hstr

theorem margin32_scale (n d c : Nat) (hn : 0 < n) (hd : 0 < d) (hc : 0 < c) : Margin32 (n * c) (d * c) ↔ Margin32 n d := by
  unfold Margin32
  rw [roundPair_scale n d c hn hd hc]
  exact MarginPair_scale _ _ c hc

/-- the reference reader's fraction `(num, den)` for mantissa `v`, `f` fraction digits and exponent
`±k`, and this area's normalised `(N, D)` (`v·10^X / 1` or `v / 10^X`) differ by a common factor -/
theorem frac_link (v f k : Nat) (eneg : Bool) :
    ∃ c, 0 < c ∧
      (if eneg then v else v * 10 ^ k) =
        (if (netExp false k eneg f).2 then v else v * 10 ^ (netExp false k eneg f).1) * c ∧
      (if eneg then 10 ^ f * 10 ^ k else 10 ^ f) =
        (if (netExp false k eneg f).2 then 10 ^ (netExp false k eneg f).1 else 1) * c := by
  unfold netExp
  cases eneg with
  | false =>
    simp only [Bool.false_and, Bool.false_eq_true, if_false]
    by_cases h : k ≥ f
    · simp only [h, if_true, Bool.false_eq_true, if_false]
      refine ⟨10 ^ f, Nat.pow_pos (by decide), ?_, by simp⟩
      rw [Nat.mul_assoc, ← Nat.pow_add]; congr 2; omega
    · simp only [h, if_false, if_true]
      refine ⟨10 ^ k, Nat.pow_pos (by decide), rfl, ?_⟩
      rw [← Nat.pow_add]; congr 1; omega
  | true =>
    by_cases hk : k = 0
    · subst hk
      simp only [Bool.true_and, Bool.false_or, ne_eq, not_true_eq_false, decide_false, Bool.false_eq_true, if_false,
        if_true, Nat.pow_zero, Nat.mul_one, ge_iff_le, Nat.le_zero_eq]
      by_cases hf : f = 0
      · subst hf; simp
      · simp only [hf, if_false, if_true]
        exact ⟨1, by decide, by simp, by simp⟩
    · simp only [Bool.true_and, Bool.false_or, ne_eq, hk, not_false_eq_true, decide_true, if_true]
      refine ⟨1, by decide, by simp, ?_⟩
      rw [Nat.mul_one, ← Nat.pow_add]; congr 1; omega

/-- common tail of the real shapes: from `strToNum t = realResult …` to `parseDouble t = readBits64 t` -/
theorem parse_exact_of_realResult (t : List Nat) (neg : Bool) (v n X : Nat) (FLAG : Bool) (num den : Nat)
    (hstr : strToNum t 0 t.length = realResult neg v n X FLAG t.length)
    (href : FmtSpec.readBits64 t = some ((if neg then 2 ^ 63 else 0) + nearestMag num den))
    (hv0 : 0 < v) (hv : v < 2 ^ 64) (hn19 : n ≤ 19) (hX : X < 2 ^ 31)
    (hlink : ∃ c, 0 < c ∧ num = (if FLAG then v else v * 10 ^ X) * c ∧ den = (if FLAG then 10 ^ X else 1) * c)
    (hrange : if FLAG then X ≤ n + 324 else X + n ≤ 309)
    (hcond : FLAG = true → ¬ negExc v X)
    (hm : Margin32 num den) :
    parseDouble t = FmtSpec.readBits64 t := by
  obtain ⟨c, hc, hnum, hden⟩ := hlink
  have hNpos : 0 < (if FLAG then v else v * 10 ^ X) := by
    split
    · exact hv0
    · exact Nat.mul_pos hv0 (Nat.pow_pos (by decide))
  have hDpos : 0 < (if FLAG then 10 ^ X else 1) := by
    split
    · exact Nat.pow_pos (by decide)
    · decide
  have hmag : nearestMag num den = (if FLAG then nearestMag v (10 ^ X) else nearestMag (v * 10 ^ X) 1) := by
    rw [hnum, hden, nearestMag_scale _ _ c hNpos hDpos hc]
    cases FLAG <;> simp
  have hm' : if FLAG then MarginPair (roundPair v (10 ^ X)).1 (roundPair v (10 ^ X)).2
      else MarginPair (roundPair (v * 10 ^ X) 1).1 (roundPair (v * 10 ^ X) 1).2 := by
    rw [hnum, hden, margin32_scale _ _ c hNpos hDpos hc] at hm
    cases FLAG
    · simp only [Bool.false_eq_true, if_false] at hm ⊢; exact hm
    · simp only [if_true] at hm ⊢; exact hm
  rw [href, hmag]
  have hres := realResult_exact neg v n X FLAG t.length hv0 hv hn19 hX hrange hcond hm'
  rw [← hstr] at hres
  exact parseDouble_real t _ neg (by
    split
    · exact Nat.lt_of_le_of_lt (nearestMag_le_inf _ _) (by decide)
    · exact Nat.lt_of_le_of_lt (nearestMag_le_inf _ _) (by decide)) hres

/-- the parser on a scientific text `d[.ddd]e±kk`: the mantissa scan, then the exponent -/
theorem strToNum_sci_eq (neg : Bool) (d1 : Nat) (ys : List Nat) (eneg : Bool) (ks : List Nat)
    (h1 : isNonZeroDigit d1 = true) (hys : AllDigits ys) (hy48 : ys ≠ [48]) (hlen : ys.length ≤ 16)
    (hks : AllDigits ks) (hk0 : ks ≠ []) (hk8 : ks.length ≤ 8) (t : List Nat)
    (ht : t = sgOf neg ++ ([d1] ++ (if ys = [] then [] else 46 :: ys) ++ 101 :: (if eneg then 45 else 43) :: ks)) :
    strToNum t 0 t.length =
      realResult neg (decVal (d1 :: ys)) (1 + ys.length) (netExp false (decVal ks) eneg ys.length).1
        (netExp false (decVal ks) eneg ys.length).2 t.length := by
  have hdig := isNonZeroDigit_isDigit h1
  have hf : d1 ≠ 45 ∧ d1 ≠ 43 := by simp [isDigit] at hdig; omega
  have hsl : (sgOf neg).length ≤ 1 := by rw [sgOf_len]; cases neg <;> simp [b2n]
  have hklen : 0 < ks.length := by cases ks with
    | nil => exact absurd rfl hk0
    | cons a b => simp
  by_cases hy : ys = []
  · subst hy
    simp only [if_true, List.append_nil, List.length_nil, Nat.add_zero] at ht ⊢
    cases eneg with
    | false =>
      -- d e + ks
      have ht' : t = sgOf neg ++ (d1 :: [] ++ [101] ++ [43] ++ ks) := by rw [ht]; simp
      have htl : t.length = (sgOf neg).length + 1 + 0 + 1 + 1 + ks.length := by rw [ht']; simp; omega
      have he : t.length < 2 ^ 32 := by omega
      have hu : unitsAt t t.length 0 (sgOf neg ++ (d1 :: [] ++ [101] ++ [43] ++ ks)) := by rw [← ht']; exact unitsAt_self t
      have hu' := (unitsAt_append t t.length (sgOf neg) _ 0).1 hu
      have hu1 : unitsAt t t.length 0 (sgOf neg ++ [d1]) :=
        (unitsAt_append t t.length (sgOf neg) [d1] 0).2 ⟨hu'.1, hu'.2.1, trivial⟩
      rw [strToNum_after_sign t 0 t.length (sgOf neg) d1 (sgOf_cases neg) hu1 hf, sgOf_dec]
      rw [afterSign_exp_pos t t.length neg (0 + (sgOf neg).length) d1 [] 101 [43] ks he h1 (by intro y hy; simp at hy)
        (by simp) (Or.inl rfl) (Or.inr rfl) hks hk0 hk8 hu'.2 (Or.inl (by simp; omega))]
      have hne : netExp false (decVal ks) false 0 = (decVal ks, false) := by unfold netExp; simp
      rw [hne]
      simp only [List.length_nil, List.length_singleton]
      congr 1 <;> omega
    | true =>
      have ht' : t = sgOf neg ++ (d1 :: [] ++ [101] ++ [45] ++ ks) := by rw [ht]; simp
      have htl : t.length = (sgOf neg).length + 1 + 0 + 1 + 1 + ks.length := by rw [ht']; simp; omega
      have he : t.length < 2 ^ 32 := by omega
      have hu : unitsAt t t.length 0 (sgOf neg ++ (d1 :: [] ++ [101] ++ [45] ++ ks)) := by rw [← ht']; exact unitsAt_self t
      have hu' := (unitsAt_append t t.length (sgOf neg) _ 0).1 hu
      have hu1 : unitsAt t t.length 0 (sgOf neg ++ [d1]) :=
        (unitsAt_append t t.length (sgOf neg) [d1] 0).2 ⟨hu'.1, hu'.2.1, trivial⟩
      rw [strToNum_after_sign t 0 t.length (sgOf neg) d1 (sgOf_cases neg) hu1 hf, sgOf_dec]
      rw [afterSign_exp_neg t t.length neg (0 + (sgOf neg).length) d1 [] 101 ks he h1 (by intro y hy; simp at hy)
        (by simp) (Or.inl rfl) hks hk0 hk8 hu'.2 (Or.inl (by simp; omega))]
      have hne : netExp false (decVal ks) true 0 = (decVal ks, decide (decVal ks ≠ 0)) := by
        unfold netExp
        by_cases hk : decVal ks = 0
        · simp [hk]
        · simp [hk]
      rw [hne]
      simp only [List.length_nil]
      congr 1 <;> omega
  · -- d . ys e ± ks
    have hylen : 0 < ys.length := by cases ys with
      | nil => exact absurd rfl hy
      | cons a b => simp
    simp only [hy, if_false] at ht
    have ht' : t = sgOf neg ++ (d1 :: [] ++ [46] ++ ys) ++ [101] ++ ([if eneg then 45 else 43] ++ ks) := by
      rw [ht]; simp
    have htl : t.length = (sgOf neg).length + 1 + 0 + 1 + ys.length + 1 + 1 + ks.length := by rw [ht']; simp; omega
    have he : t.length < 2 ^ 32 := by omega
    have hu : unitsAt t t.length 0 (sgOf neg ++ (d1 :: [] ++ [46] ++ ys) ++ [101] ++ ([if eneg then 45 else 43] ++ ks)) := by
      rw [← ht']; exact unitsAt_self t
    have hA := (unitsAt_append t t.length (sgOf neg ++ (d1 :: [] ++ [46] ++ ys) ++ [101]) _ 0).1 hu
    have hB := (unitsAt_append t t.length (sgOf neg ++ (d1 :: [] ++ [46] ++ ys)) [101] 0).1 hA.1
    have hu' := (unitsAt_append t t.length (sgOf neg) (d1 :: [] ++ [46] ++ ys) 0).1 hB.1
    have hu1 : unitsAt t t.length 0 (sgOf neg ++ [d1]) :=
      (unitsAt_append t t.length (sgOf neg) [d1] 0).2 ⟨hu'.1, hu'.2.1, trivial⟩
    have hQm : rd t t.length (0 + (sgOf neg).length + 1 + 0 + 1 + ys.length) = some 101 := by
      have := hB.2.1
      simp only [List.length_append, List.length_cons, List.length_nil] at this
      rw [show 0 + (sgOf neg).length + 1 + 0 + 1 + ys.length = 0 + ((sgOf neg).length + (0 + 1 + (0 + 1) + ys.length)) by omega]
      exact this
    have hexpu : unitsAt t t.length (0 + (sgOf neg).length + 1 + 0 + 1 + ys.length + 1) ([if eneg then 45 else 43] ++ ks) := by
      have := hA.2
      simp only [List.length_append, List.length_cons, List.length_nil] at this
      rw [show 0 + (sgOf neg).length + 1 + 0 + 1 + ys.length + 1 =
        0 + ((sgOf neg).length + (0 + 1 + (0 + 1) + ys.length) + (0 + 1)) by omega]
      exact this
    rw [strToNum_after_sign t 0 t.length (sgOf neg) d1 (sgOf_cases neg) hu1 hf, sgOf_dec]
    rw [afterSign_frac t t.length neg (0 + (sgOf neg).length) d1 [] ys he h1 (by intro y hy; simp at hy) hys hy hy48
      (by simp; omega) hu'.2 (Or.inr ⟨101, by simpa using hQm, by decide, by decide⟩)]
    have hes : [if eneg then 45 else 43] = [] ∨ [if eneg then 45 else 43] = [43] ∨ [if eneg then 45 else 43] = [45] := by
      cases eneg <;> simp
    have hdec : decide ([if eneg then 45 else 43] = [45]) = eneg := by cases eneg <;> simp
    have hfin : 0 + (sgOf neg).length + 1 + ([] : List Nat).length + 1 + ys.length + 1 + [if eneg then 45 else 43].length + ks.length = t.length := by
      simp; omega
    rw [finishReal_exp t t.length neg _ _ _ _ false true _ 101 [if eneg then 45 else 43] ks
      (by simpa using hQm) (Or.inl rfl) (by omega) he hes hks hk0 hk8 (by simpa using hexpu)
      (Or.inl (by simp; omega)) (1 + ys.length) ys.length
      (by simp only [b2n, Bool.not_false, Bool.and_self, if_true, List.length_nil]
          rw [sub32_sub32 _ _ 1 (by omega) (by omega)]; omega)
      (by simp only [Bool.false_eq_true, if_false, if_true, List.length_nil]
          rw [sub32_sub32 _ _ 1 (by omega) (by omega)]; omega)
      (by omega)]
    rw [hdec]
    congr 1

/-- **`%.17g` scientific notation** (`d[.ddd]e±kk`): in range, under the margin, every mantissa (the
three numerals `negExc` excepted), the parser returns the correctly rounded double. -/
theorem parse_exact_sci (neg : Bool) (d1 : Nat) (ys : List Nat) (eneg : Bool) (ks : List Nat)
    (h1 : isNonZeroDigit d1 = true) (hys : AllDigits ys) (hy48 : ys ≠ [48]) (hlen : ys.length ≤ 16)
    (hks : AllDigits ks) (hk0 : ks ≠ []) (hk8 : ks.length ≤ 8)
    (hm : Margin32 (if eneg then decVal (d1 :: ys) else decVal (d1 :: ys) * 10 ^ decVal ks)
                   (if eneg then 10 ^ ys.length * 10 ^ decVal ks else 10 ^ ys.length))
    (hrange : if (netExp false (decVal ks) eneg ys.length).2 then
                (netExp false (decVal ks) eneg ys.length).1 ≤ 1 + ys.length + 324
              else (netExp false (decVal ks) eneg ys.length).1 + (1 + ys.length) ≤ 309)
    (hcond : (netExp false (decVal ks) eneg ys.length).2 = true →
      ¬ negExc (decVal (d1 :: ys)) (netExp false (decVal ks) eneg ys.length).1) :
    parseDouble (FmtSpec.signed neg ([d1] ++ (if ys = [] then [] else 46 :: ys) ++ 101 :: (if eneg then 45 else 43) :: ks)) =
      FmtSpec.readBits64 (FmtSpec.signed neg ([d1] ++ (if ys = [] then [] else 46 :: ys) ++ 101 :: (if eneg then 45 else 43) :: ks)) := by
  have hdig := isNonZeroDigit_isDigit h1
  have hd1r : 48 ≤ d1 ∧ d1 ≤ 57 := by simp [isDigit] at hdig; omega
  have hall : AllDigits (d1 :: ys) := by
    intro y hy
    rcases List.mem_cons.1 hy with h | h
    · subst h; exact hdig
    · exact hys y h
  have hrc := readCore_exp neg [d1] ys ks eneg (by simp) (allDigits_fmt (fun y hy => by simp at hy; subst hy; exact hdig))
    (allDigits_fmt hys) hk0 (allDigits_fmt hks)
  have hrc' : readCore neg ([d1] ++ (if ys = [] then [] else 46 :: ys) ++ 101 :: (if eneg then 45 else 43) :: ks) =
      some (neg, (if eneg then decVal (d1 :: ys) else decVal (d1 :: ys) * 10 ^ decVal ks),
        (if eneg then 10 ^ ys.length * 10 ^ decVal ks else 10 ^ ys.length)) := by
    rw [hrc]
    cases eneg <;> simp [digitsValue_eq]
  have hden : 0 < (if eneg then 10 ^ ys.length * 10 ^ decVal ks else 10 ^ ys.length) := by
    split
    · exact Nat.mul_pos (Nat.pow_pos (by decide)) (Nat.pow_pos (by decide))
    · exact Nat.pow_pos (by decide)
  have href := readBits64_signed neg _ d1 ((if ys = [] then [] else 46 :: ys) ++ 101 :: (if eneg then 45 else 43) :: ks)
    (by simp) hd1r _ _ hden hrc'
  have hv0 : 0 < decVal (d1 :: ys) := Nat.lt_of_lt_of_le (Nat.pow_pos (by decide)) (decVal_ge d1 ys h1)
  have hvhi := decVal_lt_pow (d1 :: ys) hall
  have hv64 : decVal (d1 :: ys) < 2 ^ 64 :=
    Nat.lt_of_lt_of_le hvhi (Nat.le_trans (Nat.pow_le_pow_right (by decide) (by simp; omega)) (by decide : (10 : Nat) ^ 19 ≤ 2 ^ 64))
  have hk : decVal ks < 10 ^ 8 := Nat.lt_of_lt_of_le (decVal_lt_pow ks hks) (Nat.pow_le_pow_right (by decide) hk8)
  have hX : (netExp false (decVal ks) eneg ys.length).1 < 2 ^ 31 := by
    unfold netExp
    split
    · simp; omega
    · split <;> simp <;> omega
  rw [signed_eq] at href ⊢
  generalize ht : sgOf neg ++ ([d1] ++ (if ys = [] then [] else 46 :: ys) ++ 101 :: (if eneg then 45 else 43) :: ks) = t at *
  have hstr := strToNum_sci_eq neg d1 ys eneg ks h1 hys hy48 hlen hks hk0 hk8 t ht.symm
  exact parse_exact_of_realResult t neg (decVal (d1 :: ys)) (1 + ys.length) _ _ _ _ hstr href hv0 hv64 (by omega) hX
    (frac_link (decVal (d1 :: ys)) ys.length (decVal ks) eneg) hrange hcond hm

/-- the reference reader on a scientific text -/
theorem readBits64_sci (neg : Bool) (d1 : Nat) (ys : List Nat) (eneg : Bool) (ks : List Nat)
    (h1 : isNonZeroDigit d1 = true) (hys : AllDigits ys) (hks : AllDigits ks) (hk0 : ks ≠ []) :
    FmtSpec.readBits64 (FmtSpec.signed neg ([d1] ++ (if ys = [] then [] else 46 :: ys) ++ 101 :: (if eneg then 45 else 43) :: ks)) =
      some ((if neg then 2 ^ 63 else 0) +
        nearestMag (if eneg then decVal (d1 :: ys) else decVal (d1 :: ys) * 10 ^ decVal ks)
          (if eneg then 10 ^ ys.length * 10 ^ decVal ks else 10 ^ ys.length)) := by
  have hdig := isNonZeroDigit_isDigit h1
  have hd1r : 48 ≤ d1 ∧ d1 ≤ 57 := by simp [isDigit] at hdig; omega
  have hrc := readCore_exp neg [d1] ys ks eneg (by simp) (allDigits_fmt (fun y hy => by simp at hy; subst hy; exact hdig))
    (allDigits_fmt hys) hk0 (allDigits_fmt hks)
  have hrc' : readCore neg ([d1] ++ (if ys = [] then [] else 46 :: ys) ++ 101 :: (if eneg then 45 else 43) :: ks) =
      some (neg, (if eneg then decVal (d1 :: ys) else decVal (d1 :: ys) * 10 ^ decVal ks),
        (if eneg then 10 ^ ys.length * 10 ^ decVal ks else 10 ^ ys.length)) := by
    rw [hrc]
    cases eneg <;> simp [digitsValue_eq]
  have hden : 0 < (if eneg then 10 ^ ys.length * 10 ^ decVal ks else 10 ^ ys.length) := by
    split
    · exact Nat.mul_pos (Nat.pow_pos (by decide)) (Nat.pow_pos (by decide))
    · exact Nat.pow_pos (by decide)
  exact readBits64_signed neg _ d1 ((if ys = [] then [] else 46 :: ys) ++ 101 :: (if eneg then 45 else 43) :: ks)
    (by simp) hd1r _ _ hden hrc'

/-- **`%.17g` integers** (`[-]ddd`, at most 17 digits): the parser returns the exact integer and the
callers' conversion to `double` is the correctly rounded value — no margin needed. -/
theorem parse_exact_int (neg : Bool) (ds : List Nat) (hds : AllDigits ds) (hne : ds ≠ [])
    (hlead : ds = [48] ∨ ds.head? ≠ some 48) (hlen : ds.length ≤ 17) :
    parseDouble (FmtSpec.signed neg ds) = FmtSpec.readBits64 (FmtSpec.signed neg ds) := by
  obtain ⟨d1, xs, hdseq⟩ : ∃ d1 xs, ds = d1 :: xs := by
    cases ds with
    | nil => exact absurd rfl hne
    | cons a b => exact ⟨a, b, rfl⟩
  have hd1 : isDigit d1 = true := hds d1 (by rw [hdseq]; simp)
  have hd1r : 48 ≤ d1 ∧ d1 ≤ 57 := by simp [isDigit] at hd1; omega
  have hrc : readCore neg ds = some (neg, decVal ds, 1) := by
    have := readCore_plain neg ds [] hne (allDigits_fmt hds) (by intro c hc; simp at hc)
    simpa [digitsValue_eq] using this
  rw [readBits64_signed neg ds d1 xs hdseq hd1r _ _ (by decide) hrc, signed_eq]
  have hsl : (sgOf neg).length ≤ 1 := by rw [sgOf_len]; cases neg <;> simp [b2n]
  generalize ht : sgOf neg ++ ds = t
  have htl : t.length = (sgOf neg).length + ds.length := by rw [← ht]; simp
  have he : t.length < 2 ^ 32 := by omega
  have hu : unitsAt t t.length 0 (sgOf neg ++ ds) := by rw [ht]; exact unitsAt_self t
  by_cases hz : ds = [48]
  · -- zero
    subst hz
    have hz' := int_exact_zero t 0 t.length he
    cases neg with
    | false =>
      simp only [sgOf, Bool.false_eq_true, if_false, List.nil_append] at ht hu htl
      have h0 : rd t t.length 0 = some 48 := hu.1
      have := hz'.1 h0 (Or.inl (by simp at htl; omega))
      unfold parseDouble
      rw [this]
      simp at htl
      simp [htl, decVal, nearestMag]
    | true =>
      simp only [sgOf, if_true] at ht hu htl
      have := hz'.2.2 (by simpa using hu) (Or.inl (by simp at htl; omega))
      unfold parseDouble
      rw [this]
      simp at htl
      simp [htl, decVal, nearestMag]
  · have hnz : isNonZeroDigit d1 = true := by
      rcases hlead with h | h
      · exact absurd h hz
      · rw [hdseq] at h
        simp at h
        simp [isNonZeroDigit]; omega
    have hxs : AllDigits xs := fun y hy => hds y (by rw [hdseq]; simp [hy])
    have hv17 : decVal ds < 10 ^ 17 :=
      Nat.lt_of_lt_of_le (decVal_lt_pow ds hds) (Nat.pow_le_pow_right (by decide) hlen)
    have hv63 : decVal ds < 2 ^ 63 := Nat.lt_of_lt_of_le hv17 (by decide)
    subst hdseq
    cases neg with
    | false =>
      simp only [sgOf, Bool.false_eq_true, if_false, List.nil_append] at ht hu htl
      have := int_exact_natural t 0 t.length false d1 xs he hnz hxs (by simpa using hu)
        (Or.inl (by simp [b2n] at htl ⊢; omega)) (by omega)
      unfold parseDouble
      rw [this]
      simp [b2n] at htl ⊢
      omega
    | true =>
      simp only [sgOf, if_true] at ht hu htl
      have := int_exact_negative t 0 t.length d1 xs he hnz hxs (by simpa using hu)
        (Or.inl (by simp at htl ⊢; omega)) (by omega)
      unfold parseDouble
      rw [this]
      have hsub : 2 ^ 64 - (2 ^ 64 - decVal (d1 :: xs)) = decVal (d1 :: xs) := by omega
      simp only [hsub]
      have hoff : 0 + 2 + xs.length = t.length := by simp at htl; omega
      simp [hoff]

/-- **`%.17g` small fixed notation** (`0.000ddd`, up to eight zeros after the point): under the margin
the parser returns the correctly rounded double. -/
theorem parse_exact_small (neg : Bool) (zs : List Nat) (d1 : Nat) (ys : List Nat) (hz : ∀ z ∈ zs, z = 48)
    (hzl : zs.length ≤ 8) (h1 : isNonZeroDigit d1 = true) (hys : AllDigits ys) (hlen : ys.length ≤ 16)
    (hm : Margin32 (decVal (d1 :: ys)) (10 ^ (zs.length + 1 + ys.length))) :
    parseDouble (FmtSpec.signed neg ([48] ++ 46 :: (zs ++ d1 :: ys))) =
      FmtSpec.readBits64 (FmtSpec.signed neg ([48] ++ 46 :: (zs ++ d1 :: ys))) := by
  have hdig := isNonZeroDigit_isDigit h1
  have hall : AllDigits (d1 :: ys) := by
    intro y hy
    rcases List.mem_cons.1 hy with h | h
    · subst h; exact hdig
    · exact hys y h
  have hzd : AllDigits zs := fun z hzm => by rw [hz z hzm]; decide
  -- reference side
  have hrc : readCore neg ([48] ++ 46 :: (zs ++ d1 :: ys)) =
      some (neg, decVal (d1 :: ys), 10 ^ (zs.length + 1 + ys.length)) := by
    have := readCore_plain neg [48] (zs ++ d1 :: ys) (by simp) (by intro c hc; simp at hc; subst hc; decide)
      (allDigits_fmt (fun y hy => by
        rcases List.mem_append.1 hy with h | h
        · exact hzd y h
        · exact hall y h))
    have hne : zs ++ d1 :: ys ≠ [] := by simp
    simp only [hne, if_false] at this
    rw [this, digitsValue_eq]
    have e1 : decVal ([48] ++ (zs ++ d1 :: ys)) = decVal (d1 :: ys) := by
      rw [show [48] ++ (zs ++ d1 :: ys) = (48 :: zs) ++ d1 :: ys by simp]
      exact decVal_zeros (48 :: zs) (d1 :: ys) (fun y hy => by
        rcases List.mem_cons.1 hy with h | h
        · exact h
        · exact hz y h)
    rw [e1]
    have hl : (zs ++ d1 :: ys).length = zs.length + 1 + ys.length := by simp; omega
    rw [hl]
  rw [readBits64_signed neg _ 48 (46 :: (zs ++ d1 :: ys)) (by simp) (by decide) _ _ (Nat.pow_pos (by decide)) hrc]
  -- parser side
  rw [signed_eq]
  have hsl : (sgOf neg).length ≤ 1 := by rw [sgOf_len]; cases neg <;> simp [b2n]
  generalize ht : sgOf neg ++ ([48] ++ 46 :: (zs ++ d1 :: ys)) = t
  have ht' : t = sgOf neg ++ ([48, 46] ++ zs ++ d1 :: ys) := by rw [← ht]; simp
  have htl : t.length = (sgOf neg).length + 2 + zs.length + 1 + ys.length := by rw [ht']; simp; omega
  have he : t.length < 2 ^ 32 := by omega
  have hu : unitsAt t t.length 0 (sgOf neg ++ ([48, 46] ++ zs ++ d1 :: ys)) := by rw [← ht']; exact unitsAt_self t
  have hu' := (unitsAt_append t t.length (sgOf neg) _ 0).1 hu
  have hu1 : unitsAt t t.length 0 (sgOf neg ++ [48]) :=
    (unitsAt_append t t.length (sgOf neg) [48] 0).2 ⟨hu'.1, hu'.2.1, trivial⟩
  have hQ : 0 + (sgOf neg).length + 2 + zs.length + 1 + ys.length = t.length := by omega
  have hstr : strToNum t 0 t.length = some ⟨.real, nearestMag (decVal (d1 :: ys)) (10 ^ (zs.length + 1 + ys.length)) |||
      (if neg then 0x8000000000000000 else 0), t.length⟩ := by
    rw [strToNum_after_sign t 0 t.length (sgOf neg) 48 (sgOf_cases neg) hu1 (by decide), sgOf_dec]
    rw [afterSign_small t t.length neg (0 + (sgOf neg).length) zs d1 ys he hz h1 hys (by omega) hu'.2 (Or.inl hQ)]
    rw [finishReal_end t t.length neg _ _ _ _ true true _ (by omega) (Or.inl hQ) (1 + ys.length) (zs.length + 1 + ys.length)
      (by simp only [b2n, Bool.not_true, Bool.false_and, Bool.false_eq_true, if_false]
          rw [sub32_sub32 _ _ 0 (by omega) (by omega)]; omega)
      (by simp only [if_true]
          rw [sub32_sub32 _ _ 1 (by omega) (by omega), add32_eq _ _ (by omega)]; omega)
      (by omega)]
    have hne : netExp true 0 false (zs.length + 1 + ys.length) = (zs.length + 1 + ys.length, true) := by
      unfold netExp; simp
    rw [hne, hQ]
    have hv0 : 0 < decVal (d1 :: ys) := Nat.lt_of_lt_of_le (Nat.pow_pos (by decide)) (decVal_ge d1 ys h1)
    have hvhi := decVal_lt_pow (d1 :: ys) hall
    have hv64 : decVal (d1 :: ys) < 2 ^ 64 :=
      Nat.lt_of_lt_of_le hvhi (Nat.le_trans (Nat.pow_le_pow_right (by decide) (by simp; omega)) (by decide : (10 : Nat) ^ 19 ≤ 2 ^ 64))
    have := realResult_exact neg (decVal (d1 :: ys)) (1 + ys.length) (zs.length + 1 + ys.length) true t.length hv0 hv64
      (by omega) (by omega) (by simp only [if_true]; omega)
      (fun _ h => by obtain ⟨_, h⟩ := h; omega)
      (by simp only [if_true]; exact hm)
    simpa using this
  exact parseDouble_real t _ neg (Nat.lt_of_le_of_lt (nearestMag_le_inf _ _) (by decide)) hstr

/-! ### The class: `%.17g` texts

`Text17 t` — the shapes `FmtSpec.generalBody … 17` produces after trailing-zero stripping, with the
side conditions the parser-side proof needs for the scientific shape: finite range, and not one of
the three numerals `1e-273`, `1e-286`, `1e-292` (`StrToNum.negExc`: mantissa 1, net exponent −273,
−286, −292), on which the code is one unit off although the value keeps the margin — none of them is
a `%.17g` output (`Props/C11Closed.lean`). `fixed`/`small`/`int` need no side condition. -/
inductive Text17 : List Nat → Prop
  /-- `[-]ddd` — an integer of at most 17 digits (`0`, or no leading zero) -/
  | int (neg : Bool) (ds : List Nat) : AllDigits ds → ds ≠ [] → (ds = [48] ∨ ds.head? ≠ some 48) → ds.length ≤ 17 →
      Text17 (FmtSpec.signed neg ds)
  /-- `[-]d…d.d…d` — no leading zero, at most 17 digits, the fraction is not the single digit `0` -/
  | fixed (neg : Bool) (d1 : Nat) (xs ys : List Nat) : isNonZeroDigit d1 = true → AllDigits xs → AllDigits ys → ys ≠ [] →
      ys ≠ [48] → xs.length + 1 + ys.length ≤ 17 → Text17 (FmtSpec.signed neg (d1 :: xs ++ [46] ++ ys))
  /-- `[-]0.0…0d…d` — at most eight zeros after the point, then at most 17 digits, the first not `0` -/
  | small (neg : Bool) (zs : List Nat) (d1 : Nat) (ys : List Nat) : (∀ z ∈ zs, z = 48) → zs.length ≤ 8 →
      isNonZeroDigit d1 = true → AllDigits ys → 1 + ys.length ≤ 17 →
      Text17 (FmtSpec.signed neg ([48] ++ 46 :: (zs ++ d1 :: ys)))
  /-- `[-]d[.d…d]e±k…` — scientific: in range, not `1e-273`/`1e-286`/`1e-292` -/
  | sci (neg : Bool) (d1 : Nat) (ys : List Nat) (eneg : Bool) (ks : List Nat) : isNonZeroDigit d1 = true → AllDigits ys →
      ys ≠ [48] → 1 + ys.length ≤ 17 → AllDigits ks → ks ≠ [] → ks.length ≤ 8 →
      (if (netExp false (decVal ks) eneg ys.length).2 then
          (netExp false (decVal ks) eneg ys.length).1 ≤ 1 + ys.length + 324
        else (netExp false (decVal ks) eneg ys.length).1 + (1 + ys.length) ≤ 309) →
      ((netExp false (decVal ks) eneg ys.length).2 = true →
        ¬ negExc (decVal (d1 :: ys)) (netExp false (decVal ks) eneg ys.length).1) →
      Text17 (FmtSpec.signed neg ([d1] ++ (if ys = [] then [] else 46 :: ys) ++ 101 :: (if eneg then 45 else 43) :: ks))

/-- the margin hypothesis on a text, through the reference reader -/
def MarginText (t : List Nat) : Prop :=
  ∀ neg num den, FmtSpec.readDecimal t = some (neg, num, den) → num ≠ 0 → Margin32 num den

theorem readDecimal_of_core (neg : Bool) (body : List Nat) (x : Nat) (rest : List Nat) (hbody : body = x :: rest)
    (hx : 48 ≤ x ∧ x ≤ 57) (r : Bool × Nat × Nat) (hrc : readCore neg body = some r) :
    FmtSpec.readDecimal (FmtSpec.signed neg body) = some r := by
  rw [readDecimal_signed neg body (by intro r' h; rw [hbody] at h; simp only [List.cons.injEq] at h; omega), hrc]

/-- **C11, parser half, for the class `Text17`**: on every `%.17g`-shaped text whose value keeps
1/32 ulp away from the rounding boundaries, `Digit::StringToNumber` (followed by the callers'
integer→double conversion) returns exactly the correctly rounded double of the reference reader. -/
theorem parse_exact17 (t : List Nat) (ht : Text17 t) (hm : MarginText t) : parseDouble t = FmtSpec.readBits64 t := by
  cases ht with
  | int neg ds hds hne hlead hlen => exact parse_exact_int neg ds hds hne hlead hlen
  | fixed neg d1 xs ys h1 hxs hys hy0 hy48 hlen =>
    have hdig := isNonZeroDigit_isDigit h1
    have hrc : readCore neg (d1 :: xs ++ [46] ++ ys) = some (neg, decVal (d1 :: xs ++ ys), 10 ^ ys.length) := by
      have := readCore_plain neg (d1 :: xs) ys (by simp) (allDigits_fmt (fun y hy => by
        rcases List.mem_cons.1 hy with h | h
        · subst h; exact hdig
        · exact hxs y h)) (allDigits_fmt hys)
      simp only [hy0, if_false] at this
      rw [← digitsValue_eq]
      simpa using this
    have hrd := readDecimal_of_core neg _ d1 (xs ++ [46] ++ ys) (by simp) (by simp [isDigit] at hdig; omega) _ hrc
    have hv0 : decVal (d1 :: xs ++ ys) ≠ 0 := by
      have h2 := decVal_ge d1 (xs ++ ys) h1
      have h3 : 0 < 10 ^ (xs ++ ys).length := Nat.pow_pos (by decide)
      have h4 : decVal (d1 :: xs ++ ys) = decVal (d1 :: (xs ++ ys)) := by simp
      omega
    exact parse_exact_fixed neg d1 xs ys h1 hxs hys hy0 hy48 (by omega) (hm _ _ _ hrd hv0)
  | small neg zs d1 ys hz hzl h1 hys hlen =>
    have hdig := isNonZeroDigit_isDigit h1
    have hall : AllDigits (d1 :: ys) := by
      intro y hy
      rcases List.mem_cons.1 hy with h | h
      · subst h; exact hdig
      · exact hys y h
    have hzd : AllDigits zs := fun z hzm => by rw [hz z hzm]; decide
    have hrc : readCore neg ([48] ++ 46 :: (zs ++ d1 :: ys)) =
        some (neg, decVal (d1 :: ys), 10 ^ (zs.length + 1 + ys.length)) := by
      have := readCore_plain neg [48] (zs ++ d1 :: ys) (by simp) (by intro c hc; simp at hc; subst hc; decide)
        (allDigits_fmt (fun y hy => by
          rcases List.mem_append.1 hy with h | h
          · exact hzd y h
          · exact hall y h))
      have hne : zs ++ d1 :: ys ≠ [] := by simp
      simp only [hne, if_false] at this
      rw [this, digitsValue_eq]
      have e1 : decVal ([48] ++ (zs ++ d1 :: ys)) = decVal (d1 :: ys) := by
        rw [show [48] ++ (zs ++ d1 :: ys) = (48 :: zs) ++ d1 :: ys by simp]
        exact decVal_zeros (48 :: zs) (d1 :: ys) (fun y hy => by
          rcases List.mem_cons.1 hy with h | h
          · exact h
          · exact hz y h)
      rw [e1]
      have hl : (zs ++ d1 :: ys).length = zs.length + 1 + ys.length := by simp; omega
      rw [hl]
    have hrd := readDecimal_of_core neg _ 48 (46 :: (zs ++ d1 :: ys)) (by simp) (by decide) _ hrc
    have hv0 : decVal (d1 :: ys) ≠ 0 := by
      have := decVal_ge d1 ys h1
      have : 0 < 10 ^ ys.length := Nat.pow_pos (by decide)
      omega
    exact parse_exact_small neg zs d1 ys hz hzl h1 hys (by omega) (hm _ _ _ hrd hv0)
  | sci neg d1 ys eneg ks h1 hys hy48 hlen hks hk0 hk8 hrange hcond =>
    have hdig := isNonZeroDigit_isDigit h1
    have hrc := readCore_exp neg [d1] ys ks eneg (by simp) (allDigits_fmt (fun y hy => by simp at hy; subst hy; exact hdig))
      (allDigits_fmt hys) hk0 (allDigits_fmt hks)
    have hrc' : readCore neg ([d1] ++ (if ys = [] then [] else 46 :: ys) ++ 101 :: (if eneg then 45 else 43) :: ks) =
        some (neg, (if eneg then decVal (d1 :: ys) else decVal (d1 :: ys) * 10 ^ decVal ks),
          (if eneg then 10 ^ ys.length * 10 ^ decVal ks else 10 ^ ys.length)) := by
      rw [hrc]
      cases eneg <;> simp [digitsValue_eq]
    have hrd := readDecimal_of_core neg _ d1 ((if ys = [] then [] else 46 :: ys) ++ 101 :: (if eneg then 45 else 43) :: ks)
      (by simp) (by simp [isDigit] at hdig; omega) _ hrc'
    have hv0 : 0 < decVal (d1 :: ys) := Nat.lt_of_lt_of_le (Nat.pow_pos (by decide)) (decVal_ge d1 ys h1)
    have hnum0 : (if eneg then decVal (d1 :: ys) else decVal (d1 :: ys) * 10 ^ decVal ks) ≠ 0 := by
      split
      · omega
      · exact Nat.ne_of_gt (Nat.mul_pos hv0 (Nat.pow_pos (by decide)))
    exact parse_exact_sci neg d1 ys eneg ks h1 hys hy48 (by omega) hks hk0 hk8 (hm _ _ _ hrd hnum0) hrange hcond

/-! ### Towards `ParsesExactly17` (Props/C11.lean)

`ParsesExactly17 parseDouble` is: for every finite `b` with `format17 b = .ok t`,
`parseDouble t = FmtSpec.readBits64 t`. `parse_exact17` proves the conclusion from two facts about
`t` alone; what remains is formatter-side (notes/c11-interface.md): every `%.17g` text is a `Text17`
and keeps the 1/32-ulp margin. -/
open Qentem.NumToStr in
theorem parsesExactly17_partial (b : Nat) (t : List Nat) (_hb : Qentem.Props.C11.isFinite64 b)
    (_hf : format17 b = .ok t) (ht : Text17 t) (hm : MarginText t) :
    parseDouble t = FmtSpec.readBits64 t := parse_exact17 t ht hm

open Qentem.NumToStr in
/-- the reduction: shape + margin for every formatted text give the parser half of C11, and with it
the whole round trip through the real parser -/
theorem roundtrip17_of_formatter
    (h : ∀ b t, Qentem.Props.C11.isFinite64 b → format17 b = .ok t → Text17 t ∧ MarginText t) :
    Qentem.Props.C11.ParsesExactly17 parseDouble ∧ Qentem.Props.C11.RoundTrip17 parseDouble := by
  have hp : Qentem.Props.C11.ParsesExactly17 parseDouble := fun b t hb hf =>
    parse_exact17 t (h b t hb hf).1 (h b t hb hf).2
  exact ⟨hp, Qentem.Props.C11.roundtrip17_of_parser parseDouble hp⟩

/-- instances (kernel evaluation, tests): the `%.17g` texts of 0.1, 1/3, 5e-324, 1.7976931348623157e308,
123456.78900000001 parse back to their bit patterns -/
example : parseDouble [48,46,49,48,48,48,48,48,48,48,48,48,48,48,48,48,48,48,49] = some 0x3FB999999999999A := by decide +kernel
example : parseDouble [48,46,51,51,51,51,51,51,51,51,51,51,51,51,51,51,51,51,49] = some 0x3FD5555555555555 := by decide +kernel
example : parseDouble [52,46,57,52,48,54,53,54,52,53,56,52,49,50,52,54,53,52,101,45,51,50,52] = some 1 := by decide +kernel
example : parseDouble [49,46,55,57,55,54,57,51,49,51,52,56,54,50,51,49,53,55,101,43,51,48,56] = some 0x7FEFFFFFFFFFFFFF := by decide +kernel
example : Text17 [51,46,49,52] := Text17.fixed false 51 [] [49,52] (by decide) (by intro y hy; simp at hy)
  (by intro y hy; simp at hy; rcases hy with h | h <;> subst h <;> decide) (by simp) (by simp) (by simp)

end Qentem.Props.C11P
