import Qentem.Model.FmtSpec
import Qentem.Model.StrToNum
import Qentem.Model.Round
import Qentem.Proofs.StrToNumC11
import Qentem.Proofs.StrToNumText
import Qentem.Proofs.NumToStrIdent
import Qentem.Props.C09
/-! C11, parser half — interface definitions shared by the parser area (C09) and the formatter
area (C10/C11).

* `parseDouble` — `Digit::StringToNumber` on a whole text, followed by the conversion every caller
  applies to an integer result (`double(q.Natural)`, `double(q.Integer)`: hardware
  round-to-nearest-even, i.e. `nearestMag v 1`).
* `Text17` — the shapes `%.17g` produces (sign is `-` or nothing, never `+`).
* `Margin32 num den` — the exact value `num/den` is at least 1/32 unit in the last place away from
  every rounding boundary (half-way point) of binary64.
The parser-side theorem is `parseDouble t = FmtSpec.readBits64 t` for `Text17 t` under `Margin32`;
the formatter side owes `Text17 t ∧ Margin32 …` for `t = format17 b`. -/
namespace Qentem.Props.C11P
open Qentem Qentem.StrToNum Qentem.Round

/-- text → binary64 pattern through the real parser model -/
def parseDouble (t : List Nat) : Option Nat :=
  match strToNum t 0 t.length with
  | some ⟨.real, bits, off⟩ => if off = t.length then some bits else none
  | some ⟨.natural, v, off⟩ => if off = t.length then some (nearestMag v 1) else none
  | some ⟨.integer, w, off⟩ => if off = t.length then some (2 ^ 63 + nearestMag (2 ^ 64 - w) 1) else none
  | _ => none

/-- `num/den` keeps a distance of at least 1/32 ulp from every half-way point between adjacent
doubles: with `(A, B) = roundPair num den` (so `A/B` is the value in units of its last place),
the fractional part of `A/B` is `≤ 1/2 − 1/32` or `≥ 1/2 + 1/32`. -/
def Margin32 (num den : Nat) : Prop :=
  32 * ((roundPair num den).1 % (roundPair num den).2) + (roundPair num den).2 ≤ 16 * (roundPair num den).2 ∨
  17 * (roundPair num den).2 ≤ 32 * ((roundPair num den).1 % (roundPair num den).2)

def allDigits (l : List Nat) : Prop := ∀ x ∈ l, 48 ≤ x ∧ x ≤ 57

/-- the `%.17g` shapes (after trailing-zero stripping); `sg` is `[]` or `[45]` -/
inductive Text17 : List Nat → Prop
  /-- `[-]ddd` — an integer of at most 17 digits (`0`, or no leading zero) -/
  | int (sg ds : List Nat) : (sg = [] ∨ sg = [45]) → allDigits ds → ds ≠ [] → (ds = [48] ∨ ds.head? ≠ some 48) →
      ds.length ≤ 17 → Text17 (sg ++ ds)
  /-- `[-]d…d.d…d` — integer part without leading zero, at most 17 digits in all, last digit not `0` -/
  | fixed (sg : List Nat) (d1 : Nat) (xs ys : List Nat) : (sg = [] ∨ sg = [45]) → (49 ≤ d1 ∧ d1 ≤ 57) →
      allDigits xs → allDigits ys → ys ≠ [] → ys.getLast? ≠ some 48 → xs.length + 1 + ys.length ≤ 17 →
      Text17 (sg ++ d1 :: xs ++ [46] ++ ys)
  /-- `[-]0.0…0d…d` — at most three zeros after the point, then at most 17 digits, first and last not `0` -/
  | small (sg zs : List Nat) (d1 : Nat) (ys : List Nat) : (sg = [] ∨ sg = [45]) → (∀ z ∈ zs, z = 48) → zs.length ≤ 3 →
      (49 ≤ d1 ∧ d1 ≤ 57) → allDigits ys → (d1 :: ys).getLast? ≠ some 48 → 1 + ys.length ≤ 17 →
      Text17 (sg ++ [48, 46] ++ zs ++ d1 :: ys)
  /-- `[-]d[.d…d]e±dd[d]` — scientific, at least two exponent digits -/
  | sci (sg : List Nat) (d1 : Nat) (ys es ks : List Nat) : (sg = [] ∨ sg = [45]) → (49 ≤ d1 ∧ d1 ≤ 57) →
      allDigits ys → ys.getLast? ≠ some 48 → 1 + ys.length ≤ 17 → (es = [43] ∨ es = [45]) → allDigits ks →
      2 ≤ ks.length → ks.length ≤ 3 →
      Text17 (sg ++ d1 :: (if ys = [] then [] else 46 :: ys) ++ [101] ++ es ++ ks)


open Qentem.Props.C09 Qentem.Proofs.NumToStr Qentem.Proofs.Ident

theorem margin32_iff (num den : Nat) : Margin32 num den ↔ MarginPair (roundPair num den).1 (roundPair num den).2 := Iff.rfl

/-- the sign prefix as a list -/
def sgOf (neg : Bool) : List Nat := if neg then [45] else []

theorem signed_eq (neg : Bool) (body : List Nat) : FmtSpec.signed neg body = sgOf neg ++ body := by
  cases neg <;> simp [FmtSpec.signed, sgOf, FmtSpec.cMinus]

theorem sgOf_cases (neg : Bool) : sgOf neg = [] ∨ sgOf neg = [43] ∨ sgOf neg = [45] := by
  cases neg <;> simp [sgOf]

theorem sgOf_dec (neg : Bool) : decide (sgOf neg = [45]) = neg := by cases neg <;> simp [sgOf]

theorem sgOf_len (neg : Bool) : (sgOf neg).length = b2n neg := by cases neg <;> simp [sgOf, b2n]

theorem allDigits_fmt {l : List Nat} (h : AllDigits l) : ∀ c ∈ l, FmtSpec.isDigit c = true := by
  intro c hc; rw [fmt_isDigit_eq]; exact h c hc

/-- `readBits64` of a signed decimal body that `readCore` understands -/
theorem readBits64_signed (neg : Bool) (body : List Nat) (x : Nat) (rest : List Nat) (hbody : body = x :: rest)
    (hx : 48 ≤ x ∧ x ≤ 57) (num den : Nat) (hden : 0 < den)
    (hrc : readCore neg body = some (neg, num, den)) :
    FmtSpec.readBits64 (FmtSpec.signed neg body) = some ((if neg then 2 ^ 63 else 0) + nearestMag num den) := by
  have hnm : ∀ r, body ≠ 45 :: r := by
    intro r h; rw [hbody] at h; simp only [List.cons.injEq] at h; omega
  unfold FmtSpec.readBits64 FmtSpec.readBits
  have h1 : FmtSpec.signed neg body ≠ FmtSpec.inf := by
    rw [signed_eq, hbody]; cases neg <;> simp [sgOf, FmtSpec.inf] <;> omega
  have h2 : FmtSpec.signed neg body ≠ FmtSpec.cMinus :: FmtSpec.inf := by
    rw [signed_eq, hbody]; cases neg <;> simp [sgOf, FmtSpec.inf, FmtSpec.cMinus] <;> omega
  rw [if_neg h1, if_neg h2, readDecimal_signed neg body hnm, hrc]
  simp only
  rw [nearestBits_eq neg num den hden]

/-- the parser result as a double: a `Real` that consumed the whole text -/
theorem parseDouble_real (t : List Nat) (p : Nat) (neg : Bool) (hp : p < 2 ^ 63)
    (h : strToNum t 0 t.length = some ⟨.real, p ||| (if neg then 0x8000000000000000 else 0), t.length⟩) :
    parseDouble t = some ((if neg then 2 ^ 63 else 0) + p) := by
  unfold parseDouble
  rw [h]
  simp only [if_true]
  rw [or_sign_add p neg hp]

/-- **`%.17g` fixed notation with a fraction** (`ddd.ddd`): under the margin the parser returns the
correctly rounded double. -/
theorem parse_exact_fixed (neg : Bool) (d1 : Nat) (xs ys : List Nat) (h1 : isNonZeroDigit d1 = true)
    (hxs : AllDigits xs) (hys : AllDigits ys) (hy0 : ys ≠ []) (hy48 : ys ≠ [48]) (hlen : xs.length + ys.length ≤ 17)
    (hm : Margin32 (decVal (d1 :: xs ++ ys)) (10 ^ ys.length)) :
    parseDouble (FmtSpec.signed neg (d1 :: xs ++ [46] ++ ys)) =
      FmtSpec.readBits64 (FmtSpec.signed neg (d1 :: xs ++ [46] ++ ys)) := by
  have hdig := isNonZeroDigit_isDigit h1
  have hd1r : 48 ≤ d1 ∧ d1 ≤ 57 := by simp [isDigit] at hdig; omega
  have hf : d1 ≠ 45 ∧ d1 ≠ 43 := by omega
  have hall : AllDigits (d1 :: (xs ++ ys)) := by
    intro y hy
    simp only [List.mem_cons, List.mem_append] at hy
    rcases hy with h | h | h
    · subst h; exact hdig
    · exact hxs y h
    · exact hys y h
  -- reference side
  have hrc : readCore neg (d1 :: xs ++ [46] ++ ys) = some (neg, decVal (d1 :: xs ++ ys), 10 ^ ys.length) := by
    have := readCore_plain neg (d1 :: xs) ys (by simp) (allDigits_fmt (fun y hy => by
      rcases List.mem_cons.1 hy with h | h
      · subst h; exact hdig
      · exact hxs y h)) (allDigits_fmt hys)
    simp only [hy0, if_false] at this
    rw [← digitsValue_eq]
    simpa using this
  rw [readBits64_signed neg (d1 :: xs ++ [46] ++ ys) d1 (xs ++ [46] ++ ys) (by simp) hd1r _ _ (Nat.pow_pos (by decide)) hrc]
  -- parser side
  rw [signed_eq]
  have hylen : 0 < ys.length := by cases ys with
    | nil => exact absurd rfl hy0
    | cons a b => simp
  generalize ht : sgOf neg ++ (d1 :: xs ++ [46] ++ ys) = t
  have htl : t.length = (sgOf neg).length + 1 + xs.length + 1 + ys.length := by
    rw [← ht]; simp; omega
  have hsl : (sgOf neg).length ≤ 1 := by rw [sgOf_len]; cases neg <;> simp [b2n]
  have he : t.length < 2 ^ 32 := by omega
  have hu : unitsAt t t.length 0 (sgOf neg ++ (d1 :: xs ++ [46] ++ ys)) := by rw [ht]; exact unitsAt_self t
  have hu' := (unitsAt_append t t.length (sgOf neg) (d1 :: xs ++ [46] ++ ys) 0).1 hu
  have hu1 : unitsAt t t.length 0 (sgOf neg ++ [d1]) :=
    (unitsAt_append t t.length (sgOf neg) [d1] 0).2 ⟨hu'.1, hu'.2.1, trivial⟩
  have hQ : 0 + (sgOf neg).length + 1 + xs.length + 1 + ys.length = t.length := by omega
  have hstr : strToNum t 0 t.length = some ⟨.real, nearestMag (decVal (d1 :: xs ++ ys)) (10 ^ ys.length) |||
      (if neg then 0x8000000000000000 else 0), t.length⟩ := by
    rw [strToNum_after_sign t 0 t.length (sgOf neg) d1 (sgOf_cases neg) hu1 hf, sgOf_dec]
    rw [afterSign_frac t t.length neg (0 + (sgOf neg).length) d1 xs ys he h1 hxs hys hy0 hy48 hlen hu'.2 (Or.inl hQ)]
    rw [finishReal_end t t.length neg _ _ _ _ false true _ (by omega) (Or.inl hQ) (xs.length + 1 + ys.length) ys.length
      (by simp only [b2n, Bool.not_false, Bool.and_self, if_true]
          rw [sub32_sub32 _ _ 1 (by omega) (by omega)]; omega)
      (by simp only [Bool.false_eq_true, if_false, if_true]
          rw [sub32_sub32 _ _ 1 (by omega) (by omega)]; omega)
      (by omega)]
    have hne : netExp false 0 false ys.length = (ys.length, true) := by
      unfold netExp; simp; omega
    rw [hne, hQ]
    have hv0 : 0 < decVal (d1 :: (xs ++ ys)) :=
      Nat.lt_of_lt_of_le (Nat.pow_pos (by decide)) (decVal_ge d1 (xs ++ ys) h1)
    have hvhi := decVal_lt_pow (d1 :: (xs ++ ys)) hall
    have hv64 : decVal (d1 :: (xs ++ ys)) < 2 ^ 64 :=
      Nat.lt_of_lt_of_le hvhi (Nat.le_trans (Nat.pow_le_pow_right (by decide) (by simp; omega)) (by decide : (10 : Nat) ^ 19 ≤ 2 ^ 64))
    have hv10 : 10 ≤ decVal (d1 :: (xs ++ ys)) := by
      have := decVal_ge d1 (xs ++ ys) h1
      have h10 : 10 ^ 1 ≤ 10 ^ (xs ++ ys).length := Nat.pow_le_pow_right (by decide) (by simp; omega)
      omega
    have := realResult_exact neg (decVal (d1 :: (xs ++ ys))) (xs.length + 1 + ys.length) ys.length true t.length hv0 hv64
      (by omega) (by omega) (by simp only [if_true]; omega)
      (fun _ => by
        have : ys.length / 27 = 0 := by omega
        rw [this]; omega)
      (by simp only [if_true]; exact hm)
    simpa using this
  exact parseDouble_real t _ neg (Nat.lt_of_le_of_lt (nearestMag_le_inf _ _) (by decide)) hstr

end Qentem.Props.C11P
