import Qentem.Model.FmtSpec
import Qentem.Model.StrToNum
import Qentem.Model.Round
import Qentem.Proofs.StrToNumC11
/-! C11, parser half — interface definitions shared by the parser area (C09) and the formatter
area (C10/C11).

* `parseDouble` — `Digit::StringToNumber` on a whole text, followed by the conversion every caller
  applies to an integer result (`double(q.Natural)`, `double(q.Integer)`: hardware
  round-to-nearest-even, i.e. `nearestMag v 1`).
* `Text17` — the shapes `%.17g` produces (sign is `-` or nothing, never `+`).
* `Margin32 num den` — the exact value `num/den` is at least 1/32 unit in the last place away from
  every rounding boundary (half-way point) of binary64.
The parser-side theorem is `parseDouble t = FmtSpec.readBits64 t` for `Text17 t` under `Margin32`;
the formatter side owes `Text17 t ∧ Margin32 …` for `t = format17 b`. -/
namespace Qentem.Props.C11P
open Qentem Qentem.StrToNum Qentem.Round

/-- text → binary64 pattern through the real parser model -/
def parseDouble (t : List Nat) : Option Nat :=
  match strToNum t 0 t.length with
  | some ⟨.real, bits, off⟩ => if off = t.length then some bits else none
  | some ⟨.natural, v, off⟩ => if off = t.length then some (nearestMag v 1) else none
  | some ⟨.integer, w, off⟩ => if off = t.length then some (2 ^ 63 + nearestMag (2 ^ 64 - w) 1) else none
  | _ => none

/-- `num/den` keeps a distance of at least 1/32 ulp from every half-way point between adjacent
doubles: with `(A, B) = roundPair num den` (so `A/B` is the value in units of its last place),
the fractional part of `A/B` is `≤ 1/2 − 1/32` or `≥ 1/2 + 1/32`. -/
def Margin32 (num den : Nat) : Prop :=
  32 * ((roundPair num den).1 % (roundPair num den).2) + (roundPair num den).2 ≤ 16 * (roundPair num den).2 ∨
  17 * (roundPair num den).2 ≤ 32 * ((roundPair num den).1 % (roundPair num den).2)

def allDigits (l : List Nat) : Prop := ∀ x ∈ l, 48 ≤ x ∧ x ≤ 57

/-- the `%.17g` shapes (after trailing-zero stripping); `sg` is `[]` or `[45]` -/
inductive Text17 : List Nat → Prop
  /-- `[-]ddd` — an integer of at most 17 digits (`0`, or no leading zero) -/
  | int (sg ds : List Nat) : (sg = [] ∨ sg = [45]) → allDigits ds → ds ≠ [] → (ds = [48] ∨ ds.head? ≠ some 48) →
      ds.length ≤ 17 → Text17 (sg ++ ds)
  /-- `[-]d…d.d…d` — integer part without leading zero, at most 17 digits in all, last digit not `0` -/
  | fixed (sg : List Nat) (d1 : Nat) (xs ys : List Nat) : (sg = [] ∨ sg = [45]) → (49 ≤ d1 ∧ d1 ≤ 57) →
      allDigits xs → allDigits ys → ys ≠ [] → ys.getLast? ≠ some 48 → xs.length + 1 + ys.length ≤ 17 →
      Text17 (sg ++ d1 :: xs ++ [46] ++ ys)
  /-- `[-]0.0…0d…d` — at most three zeros after the point, then at most 17 digits, first and last not `0` -/
  | small (sg zs : List Nat) (d1 : Nat) (ys : List Nat) : (sg = [] ∨ sg = [45]) → (∀ z ∈ zs, z = 48) → zs.length ≤ 3 →
      (49 ≤ d1 ∧ d1 ≤ 57) → allDigits ys → (d1 :: ys).getLast? ≠ some 48 → 1 + ys.length ≤ 17 →
      Text17 (sg ++ [48, 46] ++ zs ++ d1 :: ys)
  /-- `[-]d[.d…d]e±dd[d]` — scientific, at least two exponent digits -/
  | sci (sg : List Nat) (d1 : Nat) (ys es ks : List Nat) : (sg = [] ∨ sg = [45]) → (49 ≤ d1 ∧ d1 ≤ 57) →
      allDigits ys → ys.getLast? ≠ some 48 → 1 + ys.length ≤ 17 → (es = [43] ∨ es = [45]) → allDigits ks →
      2 ≤ ks.length → ks.length ≤ 3 →
      Text17 (sg ++ d1 :: (if ys = [] then [] else 46 :: ys) ++ [101] ++ es ++ ks)

end Qentem.Props.C11P
