import Qentem.Model.Value
import Qentem.Model.Group
import Qentem.Model.ValueOps
/-! C18 — grouping partitions an array of objects by key value, wherever the key sits. -/
namespace Qentem.Props.C18
open Qentem.Value Qentem.Value.Doc

/-- `GroupBy` is a `const` member: in the forest only the destination root changes. -/
theorem groupBy_source_unchanged (fmtReal : Nat → List Nat) (dest : Nat) (s : Loc) (k : Key)
    (env : Env) (r : Nat) (h : r ≠ dest) :
    envGet (step fmtReal (Op.groupBy dest s k) env).1 r = envGet env r := by
  simp only [step]
  split
  · rfl
  · split
    · simp [envGet, envSet, Ne.symm h]
    · rfl

end Qentem.Props.C18
