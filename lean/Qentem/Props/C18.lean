import Qentem.Model.Value
import Qentem.Model.Group
import Qentem.Model.ValueOps
import Qentem.Proofs.ValueDoc
import Qentem.Proofs.Group
/-!
C18 — grouping partitions an array of objects by key value, wherever the key sits.

`groupByA` is the loop of `Value::GroupBy` (with the repair 04169f1: removed items are skipped);
`groupBySpec` is the fold "find the member by name, take the text of its value, append the object
minus that member to that group, groups in order of first appearance".  `GoodItem` is the property's
quantifier: an object (distinct live keys — the invariant of every object, see C12 — any number of
removed members, no never-assigned member) that holds the grouping key with a value that has a text
(string, number, boolean, null).  The grouped objects are copies (`copyView`).
-/
namespace Qentem.Props.C18
open Qentem.Value Qentem.Value.Doc

/-- `GroupBy` is a `const` member: in the forest only the destination root changes. -/
theorem groupBy_source_unchanged (fmtReal : Nat → List Nat) (dest : Nat) (s : Loc) (k : Key)
    (env : Env) (r : Nat) (h : r ≠ dest) :
    envGet (step fmtReal (Op.groupBy dest s k) env).1 r = envGet env r := by
  simp only [step]
  split
  · rfl
  · split
    · simp [envGet, envSet, Ne.symm h]
    · rfl

/-- **model = specification**: for every non-empty array of objects that each contain the key — at any
member position, with removed members anywhere — `GroupBy` succeeds and the groups it builds are exactly
the specification's, whatever the destination held before. -/
theorem groupBy_eq_spec (fmtReal : Nat → List Nat) (env : Env) (key : Key) (it : Doc) (rest : List Doc) (dest : Doc)
    (hgood : ∀ x ∈ it :: rest, GoodItem fmtReal env key x) :
    ∃ g, groupBySpec (groupText fmtReal env) key ((it :: rest).map itemMembers) [] = some g ∧
      (groupByA fmtReal env (arr (it :: rest)) key dest).1 = true ∧
      groupView (groupByA fmtReal env (arr (it :: rest)) key dest).2 = copyView g := by
  obtain ⟨c, s, hit, _, _, v, hfind, _⟩ := hgood it List.mem_cons_self
  subst hit
  obtain ⟨res', g, h1, h2, h3, _⟩ := groupLoop_spec fmtReal env key (obj c s :: rest) [] (0, []) [] hgood
    (by simp [allArr]) (by simp [viewSlots, members, copyView])
  have hd : deref env (arr (obj c s :: rest)) = arr (obj c s :: rest) := deref_nonptr _ _ (by intro r; simp)
  refine ⟨g, h2, ?_, ?_⟩
  · simp [groupByA, hd, hfind, h1]
  · simp [groupByA, hd, hfind, h1, groupView_obj, h3]

/-- the empty array: no group (the call answers `false` and leaves an empty object). -/
theorem groupBy_empty (fmtReal : Nat → List Nat) (env : Env) (key : Key) (dest : Doc) :
    groupByA fmtReal env (arr []) key dest = (false, obj 0 []) ∧
    groupBySpec (groupText fmtReal env) key [] [] = some [] := by
  simp [groupByA, deref, derefF, groupBySpec]

/-! ### the specification is a partition -/

def groupOf (t : Key) (g : List (Key × List α)) : List α :=
  match assocFind t g with
  | some l => l
  | none => []

theorem groupOf_groupInsert (t t' : Key) (x : α) (acc : List (Key × List α)) :
    groupOf t (groupInsert t' x acc) = if t' = t then groupOf t acc ++ [x] else groupOf t acc := by
  induction acc with
  | nil => by_cases h : t' = t <;> simp [groupInsert, groupOf, assocFind, h]
  | cons a r ih =>
    obtain ⟨t2, xs⟩ := a
    by_cases h2 : t2 = t'
    · subst h2
      by_cases h : t2 = t <;> simp [groupInsert, groupOf, assocFind, h]
    · by_cases h3 : t2 = t
      · subst h3
        have : ¬ t' = t2 := fun e => h2 e.symm
        simp [groupInsert, groupOf, assocFind, h2, this]
      · simp only [groupOf] at ih
        simp [groupInsert, groupOf, assocFind, h2, h3, ih]

/-- what an input object contributes to group `t`. -/
def contribution (text : Doc → Option Key) (key t : Key) (o : List (Key × Doc)) : List (List (Key × Doc)) :=
  match groupEntry text key o with
  | some (t', o') => if t' = t then [o'] else []
  | none => []

/-- **each group is exactly the input objects carrying that value, in input order, without the key**:
group `t` of the result is the accumulator's group followed by the contributions of the inputs. -/
theorem group_members (text : Doc → Option Key) (key t : Key) (objs : List (List (Key × Doc)))
    (acc g : List (Key × List (List (Key × Doc)))) (h : groupBySpec text key objs acc = some g) :
    groupOf t g = groupOf t acc ++ objs.flatMap (contribution text key t) := by
  induction objs generalizing acc with
  | nil => simp [groupBySpec] at h; subst h; simp
  | cons o rest ih =>
    simp only [groupBySpec] at h
    cases he : groupEntry text key o with
    | none => simp [he] at h
    | some p =>
      obtain ⟨t', o'⟩ := p
      simp only [he] at h
      rw [ih _ h, groupOf_groupInsert]
      by_cases ht : t' = t <;> simp [contribution, he, ht]

theorem total_groupInsert (t : Key) (x : α) (acc : List (Key × List α)) :
    ((groupInsert t x acc).map (fun e => e.2.length)).sum = (acc.map (fun e => e.2.length)).sum + 1 := by
  induction acc with
  | nil => simp [groupInsert]
  | cons a r ih =>
    obtain ⟨t2, xs⟩ := a
    by_cases h : t2 = t <;> simp [groupInsert, h, ih] <;> omega

/-- **every input object lands in exactly one group**: the group sizes add up to the number of inputs. -/
theorem groupBy_partition (text : Doc → Option Key) (key : Key) (objs : List (List (Key × Doc)))
    (acc g : List (Key × List (List (Key × Doc)))) (h : groupBySpec text key objs acc = some g) :
    (g.map (fun e => e.2.length)).sum = (acc.map (fun e => e.2.length)).sum + objs.length := by
  induction objs generalizing acc with
  | nil => simp [groupBySpec] at h; subst h; simp
  | cons o rest ih =>
    simp only [groupBySpec] at h
    cases he : groupEntry text key o with
    | none => simp [he] at h
    | some p =>
      obtain ⟨t', o'⟩ := p
      simp only [he] at h
      rw [ih _ h, total_groupInsert]
      simp; omega

/-- group names in order of first appearance. -/
def firstAppear (seen : List Key) : List Key → List Key
  | [] => seen
  | t :: r => firstAppear (if t ∈ seen then seen else seen ++ [t]) r

theorem names_groupInsert (t : Key) (x : α) (acc : List (Key × List α)) :
    (groupInsert t x acc).map (·.1) = if t ∈ acc.map (·.1) then acc.map (·.1) else acc.map (·.1) ++ [t] := by
  induction acc with
  | nil => simp [groupInsert]
  | cons a r ih =>
    obtain ⟨t2, xs⟩ := a
    by_cases h : t2 = t
    · simp [groupInsert, h]
    · have h' : ¬ t = t2 := fun e => h e.symm
      by_cases hm : t ∈ r.map (·.1) <;> simp_all [groupInsert]

/-- the text every input contributes (inputs outside the domain make the fold answer `none`). -/
def entryTexts (text : Doc → Option Key) (key : Key) (objs : List (List (Key × Doc))) : List Key :=
  objs.filterMap (fun o => (groupEntry text key o).map (·.1))

theorem group_names_first_appearance (text : Doc → Option Key) (key : Key) (objs : List (List (Key × Doc)))
    (acc g : List (Key × List (List (Key × Doc)))) (h : groupBySpec text key objs acc = some g) :
    g.map (·.1) = firstAppear (acc.map (·.1)) (entryTexts text key objs) := by
  induction objs generalizing acc with
  | nil => simp [groupBySpec] at h; subst h; simp [entryTexts, firstAppear]
  | cons o rest ih =>
    simp only [groupBySpec] at h
    cases he : groupEntry text key o with
    | none => simp [he] at h
    | some p =>
      obtain ⟨t', o'⟩ := p
      simp only [he] at h
      rw [ih _ h, names_groupInsert]
      simp [entryTexts, he, firstAppear]

/-! ### non-vacuity: `[{y:1,m:2},{m:5,<removed>,y:1}]` grouped by `y` (key at two positions, a removed member) -/

example : GoodItem (fun _ => []) [] [121] (obj 4 [some ([109], nat 5), none, some ([121], nat 1)]) :=
  ⟨4, _, rfl, by simp [keysNodup, keysOf, liveEntries], by simp [allDefined, isUndef], nat 1, by simp [slotFind],
   by simp [groupText, setCharAndLength, copyValueTo, deref, derefF]⟩

example : GoodItem (fun _ => []) [] [121] (obj 2 [some ([121], nat 1), some ([109], nat 2)]) :=
  ⟨2, _, rfl, by simp [keysNodup, keysOf, liveEntries], by simp [allDefined, isUndef], nat 1, by simp [slotFind],
   by simp [groupText, setCharAndLength, copyValueTo, deref, derefF]⟩

theorem natText_one : natText 1 = [49] := by decide

/-- the specification on that input: one group "1" holding `{m:2}` and `{m:5}`. -/
example : groupBySpec (groupText (fun _ => []) []) [121]
      [[([121], nat 1), ([109], nat 2)], [([109], nat 5), ([121], nat 1)]] [] =
    some [([49], [[([109], nat 2)], [([109], nat 5)]])] := by
  simp [groupBySpec, groupEntry, assocFind, groupText, setCharAndLength, copyValueTo, deref, derefF, natText_one,
    groupInsert]

end Qentem.Props.C18
