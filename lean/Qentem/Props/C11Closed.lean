import Qentem.Proofs.NumToStrText17
/-! C11 closed for doubles except one explicit family of texts; reduction for floats.

`Props/C11Parser.lean` (parser area) proves `parseDouble t = readBits64 t` for `Text17 t` with the 1/32-ulp margin.
`Proofs/NumToStrText17.lean` (formatter area) proves that every `%.17g` text of a finite double has the margin and a
`Shape17` — `Text17`, except that for exponent texts the parser-side *mantissa premise* is not included, because it
is false for texts such as `1e-54`, `1e-100`, `2e-150`, `1e-300` (few significant digits, negative exponent).
Here: `text17_or_short` (every `%.17g` text is a `Text17` or a `ShortNegSci`), `parsesExactly17_except`,
`roundtrip17_except` (the round trip through the real parser model for every double whose text is not in that
family), `roundtrip17_of_short` (the whole of C11 for doubles from the parser statement on that family), and the float
reduction `roundtrip9_of_close`. -/
set_option linter.unusedSimpArgs false
set_option linter.unusedVariables false
namespace Qentem.Props.C11
open Qentem Qentem.NumToStr Qentem.Proofs.Ident Qentem.Props.C11P

/-- the exponent texts the parser-side theorem does not cover yet: `[-]d[.ddd]e-kk` whose significand `v` (as an
integer) is below `2^((k + |ys|)/27 + 1)` — at most four significant digits, e.g. `1e-54`, `2e-150`, `1e-300` -/
def ShortNegSci (t : List Nat) : Prop :=
  ∃ (neg : Bool) (d1 : Nat) (ys ks : List Nat),
    t = FmtSpec.signed neg ([d1] ++ (if ys = [] then [] else 46 :: ys) ++ 101 :: 45 :: ks) ∧
    StrToNum.decVal (d1 :: ys) < 2 ^ ((StrToNum.decVal ks + ys.length) / 27 + 1)

theorem shortNegSci_has_e {t : List Nat} (h : ShortNegSci t) : 101 ∈ t := by
  obtain ⟨neg, d1, ys, ks, rfl, _⟩ := h
  cases neg <;> simp [FmtSpec.signed]

/-- every `%.17g`-shaped text is a `Text17` or one of the short negative-exponent texts -/
theorem text17_or_short (t : List Nat) (h : Shape17 t) : Text17 t ∨ ShortNegSci t := by
  cases h with
  | plain _ ht => exact Or.inl ht
  | sci neg d1 ys eneg ks h1 hys hy48 hlen hks hk0 hk8 hrange hpos hnegk =>
    cases eneg with
    | false =>
      left
      refine Text17.sci neg d1 ys false ks h1 hys hy48 hlen hks hk0 hk8 hrange ?_
      intro hflag
      have hk := hpos rfl
      unfold StrToNum.netExp at hflag
      simp [hk] at hflag
    | true =>
      have hk := hnegk rfl
      have hne : StrToNum.netExp false (StrToNum.decVal ks) true ys.length = (StrToNum.decVal ks + ys.length, true) := by
        unfold StrToNum.netExp; simp [hk]
      by_cases hv : 2 ^ ((StrToNum.decVal ks + ys.length) / 27 + 1) ≤ StrToNum.decVal (d1 :: ys)
      · left
        refine Text17.sci neg d1 ys true ks h1 hys hy48 hlen hks hk0 hk8 hrange ?_
        intro _
        right
        rw [hne]; exact hv
      · right
        exact ⟨neg, d1, ys, ks, by simp, by omega⟩

/-- **C11, parser half, for every double whose `%.17g` text is not a short negative-exponent text** -/
theorem parsesExactly17_except (b : Nat) (t : List Nat) (hb : isFinite64 b) (hf : format17 b = .ok t)
    (hns : ¬ ShortNegSci t) : parseDouble t = FmtSpec.readBits64 t := by
  have ht : t = FmtSpec.format64 b 17 .default := by
    have := format17_is_reference b; rw [hf] at this; injection this
  subst ht
  rcases text17_or_short _ (shape17_format b hb.1 hb.2) with h | h
  · exact parse_exact17 _ h (marginText_format b hb.1 hb.2)
  · exact absurd h hns

/-- **`roundtrip17_except`: the round trip through the real parser model** (`NumberToString` with 17 digits, then
`StringToNumber` and the callers' conversion) returns the original bits for every finite double whose text is not
in the `ShortNegSci` family — in particular for every double of magnitude ≥ 1e-5 (plain or `e+XX` text) and for every
`e-XX` text with five or more significant digits. -/
theorem roundtrip17_except (b : Nat) (hb : isFinite64 b) (hns : ¬ ShortNegSci (FmtSpec.format64 b 17 .default)) :
    ∃ t, format17 b = .ok t ∧ parseDouble t = some b := by
  refine ⟨_, format17_is_reference b, ?_⟩
  rw [parsesExactly17_except b _ hb (format17_is_reference b) hns]
  exact spec_identifies17 b hb

/-- **`roundtrip17_of_short`: what is left of C11 for doubles** — the parser statement on the `ShortNegSci` texts
(with shape and margin available as hypotheses) gives `ParsesExactly17 parseDouble` and `RoundTrip17 parseDouble` -/
theorem roundtrip17_of_short
    (hshort : ∀ t, ShortNegSci t → Shape17 t → MarginText t → parseDouble t = FmtSpec.readBits64 t) :
    ParsesExactly17 parseDouble ∧ RoundTrip17 parseDouble := by
  have hp : ParsesExactly17 parseDouble := by
    intro b t hb hf
    have ht : t = FmtSpec.format64 b 17 .default := by
      have := format17_is_reference b; rw [hf] at this; injection this
    subst ht
    have hsh := shape17_format b hb.1 hb.2
    have hm := marginText_format b hb.1 hb.2
    rcases text17_or_short _ hsh with h | h
    · exact parse_exact17 _ h hm
    · exact hshort _ h hsh hm
  exact ⟨hp, roundtrip17_of_parser parseDouble hp⟩

/-- non-vacuity: 0.1, 1e22 and 1.5e-300 are covered by `roundtrip17_except` (no `e`, `e+`, long significand) -/
example : ∃ t, format17 0x3FB999999999999A = .ok t ∧ parseDouble t = some 0x3FB999999999999A :=
  roundtrip17_except _ (by decide) (fun h => by
    have := shortNegSci_has_e h
    revert this; decide +kernel)

/-! ### floats: text → double (parser) → float (the caller's narrowing conversion) -/

/-- `float(double)`: round-to-nearest-even narrowing of a finite double pattern, through the reference rounding -/
def narrow32 (dd : Nat) : Option Nat :=
  match FmtSpec.decode64 dd with
  | .fin neg num den => some (FmtSpec.nearestBits 23 8 neg num den)
  | _ => none

/-- what the float round trip needs from a text → double parser: on the `%.9g` text of a finite non-zero float the
returned double has the float's sign and lies within 1/64 **float** ulp of the text's exact value (a correctly
rounded double is within 2^-30 float ulp; even a parser that is several thousand double ulps off would do); the two
zeros are read as zeros. -/
def ParsesClose9 (parseD : List Nat → Option Nat) : Prop :=
  (∀ b, isFinite32 b → ((b / 2 ^ 23) % 2 ^ 8 ≠ 0 ∨ b % 2 ^ 23 ≠ 0) →
    ∀ m d : Nat, FmtSpec.readDecimal (FmtSpec.format32 b 9 .default) = some (decide ((b / 2 ^ 31) % 2 = 1), m, d) →
      ∃ dd num den, parseD (FmtSpec.format32 b 9 .default) = some dd ∧
        FmtSpec.decode64 dd = .fin (decide ((b / 2 ^ 31) % 2 = 1)) num den ∧ 0 < den ∧
        |(num : ℚ) / den - (m : ℚ) / d| ≤ 1 / 64 * ulpQ 23 8 b) ∧
  parseD (FmtSpec.format32 0 9 .default) = some 0 ∧ parseD (FmtSpec.format32 (2 ^ 31) 9 .default) = some (2 ^ 63)

/-- `roundtrip9_of_close`: **the float round trip for any such parser**: float → `%.9g` → double → `float(·)` returns
the original bits -/
theorem roundtrip9_of_close (parseD : List Nat → Option Nat) (h : ParsesClose9 parseD) :
    RoundTrip9 (fun t => (parseD t).bind narrow32) := by
  intro b hb
  refine ⟨_, format9_is_reference b, ?_⟩
  by_cases hnz : (b / 2 ^ 23) % 2 ^ 8 ≠ 0 ∨ b % 2 ^ 23 ≠ 0
  · obtain ⟨m, d, hd, hread, _, _, hnb⟩ := margin9 b hb.1 hb.2 hnz
    obtain ⟨dd, num, den, hp, hdec, hden, hclose⟩ := h.1 b hb hnz m d hread
    simp only [hp, Option.bind_some]
    unfold narrow32
    rw [hdec]
    simp only []
    rw [hnb num den hden hclose]
  · simp only [not_or, ne_eq, not_not] at hnz
    have hbb := hb.1
    have : b = 0 ∨ b = 2 ^ 31 := by omega
    rcases this with rfl | rfl
    · simp only [h.2.1, Option.bind_some]; decide +kernel
    · simp only [h.2.2, Option.bind_some]; decide +kernel

end Qentem.Props.C11
