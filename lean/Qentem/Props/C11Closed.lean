import Qentem.Proofs.NumToStrText17
import Qentem.Proofs.NumToStrText9
import Qentem.Proofs.StrToNumValue
import Qentem.Props.C11Float
/-! C11 closed for doubles; reduction for floats.

`Props/C11Parser.lean` (parser area) proves `parseDouble t = readBits64 t` for `Text17 t` with the 1/32-ulp margin
(every mantissa; the scientific shape excludes the three numerals `1e-273`, `1e-286`, `1e-292`, which the parser
reads one unit low).  `Proofs/NumToStrText17.lean` (formatter area) proves that every `%.17g` text of a finite double
has the margin and a `Shape17` (`Text17` without that exclusion).
Here: `text17_format` (every `%.17g` text is a `Text17`: the three numerals are not `%.17g` outputs, `exc_bits`),
`parsesExactly17`, **`roundtrip17 : RoundTrip17 parseDouble`** (the whole of C11 for doubles through the real parser
model), and the float reduction `roundtrip9_of_close`. -/
set_option linter.unusedSimpArgs false
set_option linter.unusedVariables false
namespace Qentem.Props.C11
open Qentem Qentem.NumToStr Qentem.Proofs.Ident Qentem.Props.C11P

/-- the three numerals on which the parser is one unit off although the value keeps the 1/32 margin
(`StrToNum.negExc`) are not `%.17g` outputs: the doubles nearest to them print as `1.0000000000000001e-273`, … -/
theorem exc_bits (x : Nat) (hx : x = 273 ∨ x = 286 ∨ x = 292) :
    (FmtSpec.format64 (Round.nearestMag 1 (10 ^ 0 * 10 ^ x)) 17 .default)[1]? = some 46 ∧
    (FmtSpec.format64 (2 ^ 63 + Round.nearestMag 1 (10 ^ 0 * 10 ^ x)) 17 .default)[2]? = some 46 := by
  rcases hx with rfl | rfl | rfl <;> decide +kernel

/-- every `%.17g` text of a finite double is a `Text17`: the shape is `shape17_format`; an exponent text cannot be
`1e-273`, `1e-286` or `1e-292`, because the text identifies its double (`identifies17`) and the doubles nearest to
these three values print with 17 significant digits -/
theorem text17_format (b : Nat) (hb : isFinite64 b) : Text17 (FmtSpec.format64 b 17 .default) := by
  have hsh := shape17_format b hb.1 hb.2
  generalize ht : FmtSpec.format64 b 17 .default = t at hsh
  cases hsh with
  | plain _ h => exact h
  | sci neg d1 ys eneg ks h1 hys hy48 hlen hks hk0 hk8 hrange hpos hnegk =>
    refine Text17.sci neg d1 ys eneg ks h1 hys hy48 hlen hks hk0 hk8 hrange ?_
    intro hflag hexc
    -- the net exponent is negative, so the exponent text is `e-…` or …
    obtain ⟨hv1, hX⟩ := hexc
    have hge := StrToNum.decVal_ge d1 ys h1
    have hys0 : ys = [] := by
      rcases ys with _ | ⟨y, ys'⟩
      · rfl
      · exfalso
        have : 10 ^ 1 ≤ 10 ^ (y :: ys').length := Nat.pow_le_pow_right (by decide) (by simp)
        omega
    subst hys0
    cases eneg with
    | false =>
      have hk := hpos rfl
      unfold StrToNum.netExp at hflag
      simp [hk] at hflag
    | true =>
      have hk := hnegk rfl
      have hne : StrToNum.netExp false (StrToNum.decVal ks) true 0 = (StrToNum.decVal ks, true) := by
        unfold StrToNum.netExp; simp [hk]
      simp only [List.length_nil] at hX
      rw [hne] at hX
      simp only at hX
      -- the reference reader on the text, and the identification
      have href := readBits64_sci neg d1 [] true ks h1 hys hks hk0
      have hid := spec_identifies17 b hb
      rw [ht] at hid
      rw [href] at hid
      simp only [if_true, List.length_nil] at hid
      rw [hv1] at hid
      have hb' := Option.some.inj hid
      have hE := exc_bits (StrToNum.decVal ks) hX
      cases neg with
      | false =>
        simp only [Bool.false_eq_true, if_false, Nat.zero_add] at hb'
        rw [hb', ht] at hE
        have := hE.1
        simp [FmtSpec.signed] at this
      | true =>
        simp only [if_true] at hb'
        rw [hb', ht] at hE
        have := hE.2
        simp [FmtSpec.signed] at this

/-- **C11, parser half, closed**: on the `%.17g` text of every finite double the real parser model (`StringToNumber`
and the callers' conversion) returns the correctly rounded double of the text -/
theorem parsesExactly17 : ParsesExactly17 parseDouble := by
  intro b t hb hf
  have ht : t = FmtSpec.format64 b 17 .default := by
    have := format17_is_reference b; rw [hf] at this; injection this
  subst ht
  exact parse_exact17 _ (text17_format b hb) (marginText_format b hb.1 hb.2)

/-- **C11 for doubles, closed — `roundtrip17`**: for every finite double, `NumberToString` with 17 significant digits
(as modelled) raises no fault, and `StringToNumber` followed by the callers' conversion (as modelled) maps the text
back to the original bit pattern. -/
theorem roundtrip17 : RoundTrip17 parseDouble := roundtrip17_of_parser parseDouble parsesExactly17

/-- instances: 0.1, 1e-300 (a one-digit significand with a long negative exponent) -/
example : ∃ t, format17 0x3FB999999999999A = .ok t ∧ parseDouble t = some 0x3FB999999999999A :=
  roundtrip17 _ (by decide)
example : ∃ t, format17 0x01A56E1FC2F8F359 = .ok t ∧ parseDouble t = some 0x01A56E1FC2F8F359 :=
  roundtrip17 _ (by decide)

/-! ### floats: text → double (parser) → float (the caller's narrowing conversion) -/

/-- `float(double)`: round-to-nearest-even narrowing of a finite double pattern, through the reference rounding -/
def narrow32 (dd : Nat) : Option Nat :=
  match FmtSpec.decode64 dd with
  | .fin neg num den => some (FmtSpec.nearestBits 23 8 neg num den)
  | _ => none

/-- what the float round trip needs from a text → double parser: on the `%.9g` text of a finite non-zero float the
returned double has the float's sign and lies within 1/64 **float** ulp of the text's exact value (a correctly
rounded double is within 2^-30 float ulp; even a parser that is several thousand double ulps off would do); the two
zeros are read as zeros. -/
def ParsesClose9 (parseD : List Nat → Option Nat) : Prop :=
  (∀ b, isFinite32 b → ((b / 2 ^ 23) % 2 ^ 8 ≠ 0 ∨ b % 2 ^ 23 ≠ 0) →
    ∀ m d : Nat, FmtSpec.readDecimal (FmtSpec.format32 b 9 .default) = some (decide ((b / 2 ^ 31) % 2 = 1), m, d) →
      ∃ dd num den, parseD (FmtSpec.format32 b 9 .default) = some dd ∧
        FmtSpec.decode64 dd = .fin (decide ((b / 2 ^ 31) % 2 = 1)) num den ∧ 0 < den ∧
        |(num : ℚ) / den - (m : ℚ) / d| ≤ 1 / 64 * ulpQ 23 8 b) ∧
  parseD (FmtSpec.format32 0 9 .default) = some 0 ∧ parseD (FmtSpec.format32 (2 ^ 31) 9 .default) = some (2 ^ 63)

/-- `roundtrip9_of_close`: **the float round trip for any such parser**: float → `%.9g` → double → `float(·)` returns
the original bits -/
theorem roundtrip9_of_close (parseD : List Nat → Option Nat) (h : ParsesClose9 parseD) :
    RoundTrip9 (fun t => (parseD t).bind narrow32) := by
  intro b hb
  refine ⟨_, format9_is_reference b, ?_⟩
  by_cases hnz : (b / 2 ^ 23) % 2 ^ 8 ≠ 0 ∨ b % 2 ^ 23 ≠ 0
  · obtain ⟨m, d, hd, hread, _, _, hnb⟩ := margin9 b hb.1 hb.2 hnz
    obtain ⟨dd, num, den, hp, hdec, hden, hclose⟩ := h.1 b hb hnz m d hread
    simp only [hp, Option.bind_some]
    unfold narrow32
    rw [hdec]
    simp only []
    rw [hnb num den hden hclose]
  · simp only [not_or, ne_eq, not_not] at hnz
    have hbb := hb.1
    have : b = 0 ∨ b = 2 ^ 31 := by omega
    rcases this with rfl | rfl
    · simp only [h.2.1, Option.bind_some]; decide +kernel
    · simp only [h.2.2, Option.bind_some]; decide +kernel

/-! ### floats, closed -/

/-- **`parsesClose9`: the real parser model satisfies `ParsesClose9`** — on the `%.9g` text of every finite non-zero
float, `StringToNumber` (as modelled) returns a finite double with the float's sign whose value is within
`3·2^-27` float ulp (≤ 1/64) of the text's exact value: the text is a `Text17` (`shape9_format`), the parser is within
one double ulp of the correctly rounded double on every such text (`parse_close17`, every mantissa), one double ulp is
`2^-29` float ulp or less (`close_value`). -/
theorem parsesClose9 : ParsesClose9 parseDouble := by
  refine ⟨?_, by decide +kernel, by decide +kernel⟩
  intro b hb hnz m d hread
  obtain ⟨m2, d2, hd2, hread2, hV, _, _⟩ := margin9 b hb.1 hb.2 hnz
  rw [hread] at hread2
  have hmm : m = m2 ∧ d = d2 := by
    injection hread2 with h1; injection h1 with _ h2; injection h2 with h3 h4; exact ⟨h3, h4⟩
  obtain ⟨rfl, rfl⟩ := hmm
  have hdq : (0 : ℚ) < d := by exact_mod_cast hd2
  -- the float's magnitude and ulp
  obtain ⟨σ, hσ⟩ : ∃ σ : Nat, σ = sigField 23 8 b := ⟨_, rfl⟩
  obtain ⟨ε, hε⟩ : ∃ ε : Nat, ε = expField 23 8 b := ⟨_, rfl⟩
  have hfield : (b / 2 ^ 23) % 2 ^ 8 < 2 ^ 8 := Nat.mod_lt _ (by decide)
  have hfrac : b % 2 ^ 23 < 2 ^ 23 := Nat.mod_lt _ (by decide)
  have hσ1 : 1 ≤ σ ∧ σ < 2 ^ 24 := by
    rw [hσ]; unfold sigField
    split
    · rename_i h0
      rcases hnz with h | h
      · exact absurd h0 h
      · omega
    · omega
  have hε1 : 1 ≤ ε ∧ ε ≤ 254 := by
    rw [hε]; unfold expField
    have := hb.2
    split <;> omega
  have hmag : magQ 23 8 b = (σ : ℚ) * ulpQ 23 8 b := by unfold magQ ulpQ; rw [hσ]
  have hulp : ulpQ 23 8 b = 2 ^ ((ε : Int) - 150) := by
    unfold ulpQ ulpExp; rw [← hε]; congr 1; norm_num; ring
  generalize hU : ulpQ 23 8 b = U at *
  have hUpos : 0 < U := by rw [hulp]; positivity
  have hUlo : (2 : ℚ) ^ (-149 : Int) ≤ U := by
    rw [hulp]; exact zpow_le_zpow_right₀ (by norm_num) (by omega)
  have hUhi : U ≤ 2 ^ (104 : Int) := by
    rw [hulp]; exact zpow_le_zpow_right₀ (by norm_num) (by omega)
  have hσq1 : (1 : ℚ) ≤ σ := by exact_mod_cast hσ1.1
  have hσq2 : (σ : ℚ) ≤ 2 ^ 24 := by
    have : (σ : ℚ) ≤ ((2 ^ 24 : Nat) : ℚ) := by exact_mod_cast (Nat.le_of_lt hσ1.2)
    push_cast at this; exact this
  rw [hmag, abs_lt] at hV
  have hc : (2 : ℚ) ^ 23 / 10 ^ 8 ≤ 1 / 2 := by norm_num
  have hvlo : U / 2 ≤ (m : ℚ) / d := by nlinarith [hV.1]
  have hvhi : (m : ℚ) / d ≤ 2 ^ 25 * U := by nlinarith [hV.2]
  have hvpos : (0 : ℚ) < (m : ℚ) / d := lt_of_lt_of_le (by positivity) hvlo
  have hm0 : 0 < m := by
    rcases Nat.eq_zero_or_pos m with h | h
    · subst h; simp at hvpos
    · exact h
  have hr1 : (2 : ℚ) ^ (-200 : Int) ≤ (m : ℚ) / d := by
    calc (2 : ℚ) ^ (-200 : Int) ≤ 2 ^ (-149 : Int) / 2 := by
          rw [zpow_neg, zpow_neg, zpow_ofNat, zpow_ofNat]; norm_num
      _ ≤ U / 2 := div_le_div_of_nonneg_right hUlo (by norm_num)
      _ ≤ (m : ℚ) / d := hvlo
  have hr2 : (m : ℚ) / d < 2 ^ (200 : Int) := by
    calc (m : ℚ) / d ≤ 2 ^ 25 * U := hvhi
      _ ≤ 2 ^ 25 * 2 ^ (104 : Int) := mul_le_mul_of_nonneg_left hUhi (by positivity)
      _ < 2 ^ (200 : Int) := by norm_num
  -- the parser
  obtain ⟨neg', num', den', hrd', hden', hcase⟩ := parse_close17 _ (shape9_format b hb.1 hb.2)
  rw [hread] at hrd'
  have hsame : decide ((b / 2 ^ 31) % 2 = 1) = neg' ∧ m = num' ∧ d = den' := by
    injection hrd' with h1; injection h1 with h2 h3; injection h3 with h4 h5; exact ⟨h2, h4, h5⟩
  obtain ⟨hs, rfl, rfl⟩ := hsame
  rcases hcase with ⟨p, hparse, _, hclose⟩ | hout
  · obtain ⟨rn, rd, hdec, hrd, hval⟩ := StrToNum.close_value neg' m d p hm0 hd2 hr1 hr2 hclose
    rw [← hs] at hparse hdec
    refine ⟨_, rn, rd, hparse, hdec, hrd, le_trans hval ?_⟩
    calc 3 * 2 ^ (-52 : Int) * ((m : ℚ) / d) ≤ 3 * 2 ^ (-52 : Int) * (2 ^ 25 * U) :=
          mul_le_mul_of_nonneg_left hvhi (by positivity)
      _ = (3 * 2 ^ (-52 : Int) * 2 ^ 25) * U := by ring
      _ ≤ 1 / 64 * U := mul_le_mul_of_nonneg_right (by norm_num) (le_of_lt hUpos)
  · exfalso
    rcases hout with h | h
    · have h1 : ((m * 2 ^ 1074 : Nat) : ℚ) < (d : ℚ) := by exact_mod_cast h
      rw [Nat.cast_mul, Nat.cast_pow] at h1
      have h2 : (m : ℚ) / d * (2 : ℚ) ^ 1074 < 1 := by
        rw [div_mul_eq_mul_div, div_lt_one hdq]; exact_mod_cast h1
      have e : (2 : ℚ) ^ (-200 : Int) = ((2 : ℚ) ^ 200)⁻¹ := by rw [zpow_neg, zpow_ofNat]
      have k1 : (1 : ℚ) ≤ (m : ℚ) / d * (2 : ℚ) ^ 200 := by
        have := mul_le_mul_of_nonneg_right hr1 (by positivity : (0 : ℚ) ≤ (2 : ℚ) ^ 200)
        rw [e, inv_mul_cancel₀ (by positivity)] at this; exact this
      have k2 : (m : ℚ) / d * (2 : ℚ) ^ 200 ≤ (m : ℚ) / d * (2 : ℚ) ^ 1074 :=
        mul_le_mul_of_nonneg_left (pow_le_pow_right₀ (by norm_num) (by norm_num)) (le_of_lt hvpos)
      exact absurd (lt_of_le_of_lt (le_trans k1 k2) h2) (lt_irrefl _)
    · have k : (m : ℚ) < (2 : ℚ) ^ (200 : Nat) * d := by
        have := hr2; rw [zpow_ofNat, div_lt_iff₀ hdq] at this; exact this
      have kn : m < 2 ^ 200 * d := by
        have : ((m : Nat) : ℚ) < ((2 ^ 200 * d : Nat) : ℚ) := by rw [Nat.cast_mul, Nat.cast_pow]; exact_mod_cast k
        exact_mod_cast this
      have hbig : 2 ^ 200 * d ≤ (2 ^ 53 - 1) * 2 ^ 971 * d := by
        apply Nat.mul_le_mul_right
        calc 2 ^ 200 ≤ 1 * 2 ^ 971 := by rw [Nat.one_mul]; exact Nat.pow_le_pow_right (by decide) (by decide)
          _ ≤ (2 ^ 53 - 1) * 2 ^ 971 := Nat.mul_le_mul_right _ (by decide)
      exact Nat.lt_irrefl _ (Nat.lt_trans h (Nat.lt_of_lt_of_le kn hbig))

/-- **C11 for floats, closed — `roundtrip9`**: for every finite float, `NumberToString` with 9 significant digits (as
modelled) raises no fault, and `StringToNumber` (as modelled) followed by the callers' narrowing `float(double)`
(round to nearest even) returns the original bit pattern. -/
theorem roundtrip9 : RoundTrip9 (fun t => (parseDouble t).bind narrow32) := roundtrip9_of_close parseDouble parsesClose9

end Qentem.Props.C11
