import Qentem.Model.Hash
import Qentem.Model.HashTable
import Qentem.Model.HashTableSpec
/-! C13 — the hash array is an insertion-ordered map under every operation sequence. -/
namespace Qentem.Props.C13
open Qentem.Hash Qentem.HashTable

/-! ### The real hash function meets the only hypothesis the table theorems put on `H`. -/

/-- `StringUtils::Hash` never returns 0 (0 marks a removed item): the top bit is forced. -/
theorem hash_ne_zero (conv : Nat → Nat) (k : List Nat) : hashWith conv k ≠ 0 := by
  unfold hashWith
  intro h
  have := Nat.or_eq_zero_iff.mp h
  omega

theorem hash_top_bit (conv : Nat → Nat) (k : List Nat) : (hashWith conv k).testBit 31 = true := by
  unfold hashWith
  simp [Nat.testBit_or]
  right
  decide

theorem hashChar_ne_zero (k : List Nat) : hashChar k ≠ 0 := hash_ne_zero _ k

end Qentem.Props.C13
