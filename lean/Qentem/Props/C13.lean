import Qentem.Model.Hash
import Qentem.Model.HashTable
import Qentem.Model.HashTableSpec
import Qentem.Proofs.HashTableRefine
/-!
C13 — the hash array is an insertion-ordered map under every operation sequence.

Layout model: `Qentem.HashTable` (`Model/HashTable.lean`); specification: slots
(`Model/HashTableSpec.lean`).  Every theorem is for an arbitrary hash function `H` with
`∀ k, H k ≠ 0` - colliding hashes at every capacity are covered by the quantifier - and an
arbitrary value type.
-/
namespace Qentem.Props.C13
open Qentem.Hash Qentem.HashTable

/-! ### The real hash function meets the only hypothesis the table theorems put on `H`. -/

/-- `StringUtils::Hash` never returns 0 (0 marks a removed item): the top bit is forced. -/
theorem hash_ne_zero (conv : Nat → Nat) (k : List Nat) : hashWith conv k ≠ 0 := by
  unfold hashWith
  intro h
  have := Nat.or_eq_zero_iff.mp h
  omega

theorem hash_top_bit (conv : Nat → Nat) (k : List Nat) : (hashWith conv k).testBit 31 = true := by
  unfold hashWith
  simp [Nat.testBit_or]
  right
  decide

theorem hashChar_ne_zero (k : List Nat) : hashChar k ≠ 0 := hash_ne_zero _ k

/-! ### Invariant -/

/-- The default-constructed table satisfies the invariant. -/
theorem inv_empty {V : Type} (H : List Nat → Nat) : Inv H (HT.empty : HT V) := Qentem.HashTable.inv_empty H

/-- `find` never exhausts its fuel and never reads out of range under the invariant. -/
theorem find_fuel {V : Type} {H : List Nat → Nat} (hH : ∀ k, H k ≠ 0) {s : HT V} (hI : Inv H s)
    (hcap : s.cap ≠ 0) (key : List Nat) : ∃ r, find s key (H key) = some r := by
  obtain ⟨ch, hc⟩ := hI.chains
  have hk : ∃ k, s.cap = 2 ^ k := by
    rcases hI.cap_pow with h | h
    · exact absurd h hcap
    · exact h
  rcases key_cases s key with ⟨j, it, hit, hl, rfl⟩ | hno
  · obtain ⟨pre, post, _, hfind⟩ := find_some hI hc hH hit hl
    exact ⟨_, hfind⟩
  · exact ⟨_, find_none hc hH hk hno⟩

/-- One step of **any** operation (Insert, Get / operator[], assignment through it, lookups by key
and by index, Remove, RemoveIndex, Rename, Reserve, Resize, Expect, Compress, Clear, Reset, Sort,
copy, move, both operator+=): no fault, the invariant is kept, the abstract state and the output are
those of the slot specification. -/
theorem inv_step_refine_step {V : Type} [Inhabited V] {H : List Nat → Nat} (ord : Nat → Nat) (hH : ∀ k, H k ≠ 0)
    {s : HT V} (hI : Inv H s) (op : Op V) :
    ∃ s' o, step H ord s op = some (s', o) ∧ Inv H s' ∧ (abs s', o) = Spec.step ord (abs s) op :=
  step_refines ord hH hI op

/-- Every finite operation sequence from the empty table runs without a fault (no read outside the
block, no fuel exhaustion, no insertion into a full block), ends in a state satisfying the
invariant, and its slot view and all its outputs are those of the specification. -/
theorem reachable_refines {V : Type} [Inhabited V] (H : List Nat → Nat) (ord : Nat → Nat)
    (hH : ∀ k, H k ≠ 0) (ops : List (Op V)) :
    ∃ s' os, run H ord HT.empty ops = some (s', os) ∧ Inv H s' ∧ (abs s', os) = Spec.run ord Spec.empty ops :=
  run_refines ord hH ops (Qentem.HashTable.inv_empty H)

/-- The same for the real hash function of `String<char>` keys. -/
theorem reachable_refines_hashChar {V : Type} [Inhabited V] (ops : List (Op V)) :
    ∃ s' os, run hashChar ordChar HT.empty ops = some (s', os) ∧ Inv hashChar s' ∧
      (abs s', os) = Spec.run ordChar Spec.empty ops :=
  reachable_refines hashChar ordChar hashChar_ne_zero ops

/-! Non-vacuity: a hash function with two values (every key collides at every capacity), a run that
inserts, removes, re-inserts after growth and looks up; the hypotheses hold and the state is not
trivial. -/
def exH (k : List Nat) : Nat := k.sum % 2 + 1
def exOps : List (Op Nat) :=
  [.insert [1] 5, .insert [2] 6, .insert [3] 7, .remove [2], .insert [5] 9, .rename [3] [4], .lookup [4]]

example : ∀ k, exH k ≠ 0 := by intro k; unfold exH; omega
example : ((run exH id (HT.empty : HT Nat) exOps).map fun r => (r.1.items.size, r.1.cap)) = some (4, 4) := by
  decide +kernel
example : ∃ s' os, run exH id (HT.empty : HT Nat) exOps = some (s', os) ∧ Inv exH s' :=
  let ⟨s', os, h, hI, _⟩ := reachable_refines exH id (by intro k; unfold exH; omega) exOps
  ⟨s', os, h, hI⟩

end Qentem.Props.C13
