import Qentem.Model.Hash
import Qentem.Model.HashTable
import Qentem.Model.HashTableSpec
import Qentem.Proofs.HashTableSentences
import Qentem.Proofs.HashTableSortBridge
import Qentem.Proofs.HashTree
/-!
C13 — the hash array is an insertion-ordered map under every operation sequence.

Layout model: `Qentem.HashTable` (`Model/HashTable.lean`); specification: slots
(`Model/HashTableSpec.lean`).  Every theorem is for an arbitrary hash function `H` with
`∀ k, H k ≠ 0` - colliding hashes at every capacity are covered by the quantifier - and an
arbitrary value type.
-/
namespace Qentem.Props.C13
open Qentem.Hash Qentem.HashTable

/-! ### The real hash function meets the only hypothesis the table theorems put on `H`. -/

/-- `StringUtils::Hash` never returns 0 (0 marks a removed item): the top bit is forced. -/
theorem hash_ne_zero (conv : Nat → Nat) (k : List Nat) : hashWith conv k ≠ 0 := by
  unfold hashWith
  intro h
  have := Nat.or_eq_zero_iff.mp h
  omega

theorem hash_top_bit (conv : Nat → Nat) (k : List Nat) : (hashWith conv k).testBit 31 = true := by
  unfold hashWith
  simp [Nat.testBit_or]
  right
  decide

theorem hashChar_ne_zero (k : List Nat) : hashChar k ≠ 0 := hash_ne_zero _ k

/-! ### Invariant -/

/-- The default-constructed table satisfies the invariant. -/
theorem inv_empty {V : Type} (H : List Nat → Nat) : Inv H (HT.empty : HT V) := Qentem.HashTable.inv_empty H

/-- `find` never exhausts its fuel and never reads out of range under the invariant. -/
theorem find_fuel {V : Type} {H : List Nat → Nat} (hH : ∀ k, H k ≠ 0) {s : HT V} (hI : Inv H s)
    (hcap : s.cap ≠ 0) (key : List Nat) : ∃ r, find s key (H key) = some r := by
  obtain ⟨ch, hc⟩ := hI.chains
  have hk : ∃ k, s.cap = 2 ^ k := by
    rcases hI.cap_pow with h | h
    · exact absurd h hcap
    · exact h
  rcases key_cases s key with ⟨j, it, hit, hl, rfl⟩ | hno
  · obtain ⟨pre, post, _, hfind⟩ := find_some hI hc hH hit hl
    exact ⟨_, hfind⟩
  · exact ⟨_, find_none hc hH hk hno⟩

/-- One step of **any** operation (Insert, Get / operator[], assignment through it, lookups by key
and by index, Remove, RemoveIndex, Rename, Reserve, Resize, Expect, Compress, Clear, Reset, Sort,
copy, move, both operator+=): no fault, the invariant is kept, the abstract state and the output are
those of the slot specification. -/
theorem inv_step_refine_step {V : Type} [Inhabited V] {H : List Nat → Nat} (ord : Nat → Nat) (hH : ∀ k, H k ≠ 0)
    {s : HT V} (hI : Inv H s) (op : Op V) :
    ∃ s' o, step H ord s op = some (s', o) ∧ Inv H s' ∧ (abs s', o) = Spec.step ord (abs s) op :=
  step_refines ord hH hI op

/-- Every finite operation sequence from the empty table runs without a fault (no read outside the
block, no fuel exhaustion, no insertion into a full block), ends in a state satisfying the
invariant, and its slot view and all its outputs are those of the specification. -/
theorem reachable_refines {V : Type} [Inhabited V] (H : List Nat → Nat) (ord : Nat → Nat)
    (hH : ∀ k, H k ≠ 0) (ops : List (Op V)) :
    ∃ s' os, run H ord HT.empty ops = some (s', os) ∧ Inv H s' ∧ (abs s', os) = Spec.run ord Spec.empty ops :=
  run_refines ord hH ops (Qentem.HashTable.inv_empty H)

/-- The same for the real hash function of `String<char>` keys. -/
theorem reachable_refines_hashChar {V : Type} [Inhabited V] (ops : List (Op V)) :
    ∃ s' os, run hashChar ordChar HT.empty ops = some (s', os) ∧ Inv hashChar s' ∧
      (abs s', os) = Spec.run ordChar Spec.empty ops :=
  reachable_refines hashChar ordChar hashChar_ne_zero ops

/-! ### The sentences of the property, for every reachable table

`Op.KeyLevel` = every operation whose meaning mentions neither slot numbers nor the key order
(Insert, Get / operator[], assignment, Remove, the lookups, Reserve, Expect, Compress, Clear, Reset,
copy, move).  For those the table is compared with the textbook association list `alStep` and with
the history function `histStep` ("stored and not removed since; last value stored").  Resize(n),
RemoveIndex(i), Rename, Sort and operator+= are covered by `reachable_refines` (slot level) and by
`key_index_agree` / `sort_keeps_lookups` below. -/

/-- *Iteration visits live entries in first-insertion order*: walking the slots `0 .. Size()-1` with
`GetKey(i)` / `GetValue(i)` and skipping removed slots yields exactly the reference association
list (a stored key keeps its place, a new key goes to the end, a removed key leaves). -/
theorem iteration_first_insertion_order {V : Type} [Inhabited V] (H : List Nat → Nat) (ord : Nat → Nat)
    (hH : ∀ k, H k ≠ 0) (ops : List (Op V)) (hops : ∀ op ∈ ops, op.KeyLevel) :
    ∃ s' os, run H ord HT.empty ops = some (s', os) ∧
      (List.range s'.items.size).filterMap (lookupIdx s') = ops.foldl alStep [] := by
  obtain ⟨s', os, hrun, _, hent⟩ := entries_run ord hH ops (Qentem.HashTable.inv_empty H) hops
  refine ⟨s', os, hrun, ?_⟩
  have hent' : entries (absSlots s') = ops.foldl alStep [] := hent
  rw [← hent']
  -- iteration by index = the entries of the slot view
  have hidx : ∀ i, lookupIdx s' i = ((absSlots s')[i]?).join := fun i => by
    rw [lookupIdx_spec]; rfl
  have hgen : ∀ (sl : Slots V), (List.range sl.length).filterMap (fun i => (sl[i]?).join) = entries sl := by
    intro sl
    induction sl with
    | nil => rfl
    | cons o t ih =>
      rw [List.length_cons, List.range_succ_eq_map, List.filterMap_cons, List.filterMap_map]
      have : ((fun i => ((o :: t)[i]?).join) ∘ Nat.succ) = fun i => (t[i]?).join := by
        funext i; simp
      rw [this, ih]
      cases o <;> simp [entries]
  rw [← hgen (absSlots s'), absSlots_length]
  exact List.filterMap_congr (fun i _ => hidx i)

/-- *A key is found exactly when it was stored and not removed since, and lookup returns the last
value stored under it*: the result of a lookup after any key-level history is the history function. -/
theorem lookup_eq_history {V : Type} [Inhabited V] (H : List Nat → Nat) (ord : Nat → Nat)
    (hH : ∀ k, H k ≠ 0) (ops : List (Op V)) (hops : ∀ op ∈ ops, op.KeyLevel) :
    ∃ s' os, run H ord HT.empty ops = some (s', os) ∧
      ∀ k, ∃ r, lookup H s' k = some r ∧ r.map Prod.snd = ops.foldl histStep (fun _ => none) k := by
  obtain ⟨s', os, hrun, hI', hent⟩ := entries_run ord hH ops (Qentem.HashTable.inv_empty H) hops
  refine ⟨s', os, hrun, fun k => ⟨_, lookup_spec hI' hH k, ?_⟩⟩
  have h1 : (Spec.lookup (abs s') k).map Prod.snd = alLookup (entries (absSlots s')) k :=
    valOf_eq_alLookup (sp := abs s') hI'.keysNodup k
  have hent' : entries (absSlots s') = ops.foldl alStep [] := hent
  rw [h1, hent', alLookup_foldl]
  rfl

theorem found_iff_stored_not_removed {V : Type} [Inhabited V] (H : List Nat → Nat) (ord : Nat → Nat)
    (hH : ∀ k, H k ≠ 0) (ops : List (Op V)) (hops : ∀ op ∈ ops, op.KeyLevel) :
    ∃ s' os, run H ord HT.empty ops = some (s', os) ∧
      ∀ k, (∃ i v, lookup H s' k = some (some (i, v))) ↔ (ops.foldl histStep (fun _ => none) k).isSome := by
  obtain ⟨s', os, hrun, hl⟩ := lookup_eq_history H ord hH ops hops
  refine ⟨s', os, hrun, fun k => ?_⟩
  obtain ⟨r, hr, hv⟩ := hl k
  rw [← hv, hr]
  cases r with
  | none => simp
  | some p => simp only [Option.map_some, Option.isSome_some, iff_true]; exact ⟨p.1, p.2, rfl⟩

theorem lookup_last_stored {V : Type} [Inhabited V] (H : List Nat → Nat) (ord : Nat → Nat)
    (hH : ∀ k, H k ≠ 0) (ops : List (Op V)) (hops : ∀ op ∈ ops, op.KeyLevel) :
    ∃ s' os, run H ord HT.empty ops = some (s', os) ∧
      ∀ k i v, lookup H s' k = some (some (i, v)) → ops.foldl histStep (fun _ => none) k = some v := by
  obtain ⟨s', os, hrun, hl⟩ := lookup_eq_history H ord hH ops hops
  refine ⟨s', os, hrun, fun k i v h => ?_⟩
  obtain ⟨r, hr, hv⟩ := hl k
  rw [hr] at h
  cases h
  rw [← hv]; rfl

/-- *Key-to-index and index-to-key lookups agree*, in every state satisfying the invariant (hence
in every reachable state, whatever operations led to it). -/
theorem key_index_agree {V : Type} {H : List Nat → Nat} (hH : ∀ k, H k ≠ 0) {s : HT V} (hI : Inv H s)
    (k : List Nat) (i : Nat) (v : V) :
    lookup H s k = some (some (i, v)) ↔ lookupIdx s i = some (k, v) := by
  rw [lookup_spec hI hH k, lookupIdx_spec, Option.some.injEq]
  exact spec_key_index_agree (sp := abs s) hI.keysNodup k i v

/-- *After a Sort every key is still found, with its value* (the rehash is correct). -/
theorem sort_keeps_lookups {V : Type} {H : List Nat → Nat} (ord : Nat → Nat) (hH : ∀ k, H k ≠ 0) {s : HT V}
    (hI : Inv H s) (ascend : Bool) :
    ∃ s', sort ord s ascend = some s' ∧ Inv H s' ∧
      ∀ k, (Spec.lookup (abs s') k).map Prod.snd = (Spec.lookup (abs s) k).map Prod.snd := by
  obtain ⟨s', hrun, hI', habs⟩ := sort_spec ord hI ascend
  refine ⟨s', hrun, hI', fun k => ?_⟩
  have hp : (entries (abs s').slots).Perm (entries (abs s).slots) := by
    rw [habs]; exact sort_entries_perm ord (abs s) ascend
  apply Option.ext
  intro v
  have h1 := valOf_eq_some_iff (sp := abs s') hI'.keysNodup (k := k) (v := v)
  have h2 := valOf_eq_some_iff (sp := abs s) hI.keysNodup (k := k) (v := v)
  unfold valOf at h1 h2
  rw [h1, h2]
  exact hp.mem_iff

/-- *If* `Memory::Sort` (as modelled by `sortSeg`) leaves the slots ordered with respect to the slot
comparison then the live keys are in ascending order after `Sort(true)` (the hypothesis is
discharged below with C15's theorem). -/
theorem sort_orders_keys_of_sorted {V : Type} {H : List Nat → Nat} (ord : Nat → Nat) {s s' : HT V}
    (hI : Inv H s) (hrun : sort ord s true = some s')
    (hsorted : ((sortSeg (Spec.slotCmp ord true) ((absSlots s).length + 1) (absSlots s).toArray 0
      (absSlots s).length).toList).Pairwise (fun a b => Spec.slotCmp (V := V) ord true b a = false)) :
    (keysOf (absSlots s')).Pairwise (fun a b => isLess ord b a false = false) := by
  obtain ⟨s2, hrun2, _, habs⟩ := sort_spec ord hI true
  rw [hrun] at hrun2
  cases hrun2
  have hsl : absSlots s' = (Spec.sort ord (abs s) true).slots := by rw [← habs]; rfl
  rw [hsl]
  unfold keysOf entries
  rw [List.pairwise_map]
  refine List.Pairwise.filterMap _ ?_ hsorted
  intro a a' hR b hb b' hb'
  simp only [id] at hb hb'
  subst hb; subst hb'
  simpa [Spec.slotCmp, Spec.slotKey] using hR

/-- *(key order after a sort)*: after `Sort(true)` the live keys are in ascending order of `IsLess`
(a proper prefix first), for every key order `ord` and every table satisfying the invariant.
Uses C15's `Qentem.Sort.sortSeg_spec` through `sortSeg_sorted`. -/
theorem sort_orders_keys {V : Type} {H : List Nat → Nat} (ord : Nat → Nat) {s s' : HT V}
    (hI : Inv H s) (hrun : sort ord s true = some s') :
    (keysOf (absSlots s')).Pairwise (fun a b => isLess ord b a false = false) := by
  refine sort_orders_keys_of_sorted ord hI hrun ?_
  have := sortSeg_sorted (Spec.slotCmp (V := V) ord true) (fun _ => True) (slotCmp_strict ord)
    (absSlots s).toArray (fun _ _ => trivial)
  simpa using this

/-! Non-vacuity of the sentence theorems: a key-level history (all keys collide under `exH`) with a
removal and a re-insertion; the history function is not constant. -/
def exKeyOps : List (Op Nat) :=
  [.insert [1] 5, .insert [3] 6, .insert [1] 7, .remove [3], .get [5], .assign [3] 9, .compress, .lookup [1]]

example : ∀ op ∈ exKeyOps, op.KeyLevel := by simp [exKeyOps, Op.KeyLevel]
example : (exKeyOps.foldl histStep (fun _ => none) [1], exKeyOps.foldl histStep (fun _ => none) [3],
    exKeyOps.foldl histStep (fun _ => none) [5], exKeyOps.foldl histStep (fun _ => none) [2]) =
    (some 7, some 9, some 0, none) := by decide
example : exKeyOps.foldl alStep [] = [([1], 7), ([5], 0), ([3], 9)] := by decide

/-! ### Nested values: a table whose values hold tables (`Model/HashTree.lean`)

The C13 clause "copy and move ... lookup returns the last value stored" for the value type that
contains an `HArray` itself, with source and destination anywhere in the same tree (self, siblings,
ancestor <- descendant, descendant <- ancestor).  These are theorems about the value model the real
tree is compared with after every operation (`checks/_hashtree.py`). -/
section Tree
open Qentem.HashTree

/-- Copy assignment `node(dst).kids = node(src).kids` for ANY two existing paths: afterwards the
destination holds exactly the source's former entries (keys, values, order) and keeps its own tag. -/
theorem tree_copy_dst_eq_src (root : Node) (d s : List (List Nat)) (dn sn : Node)
    (hd : getAt root d = some dn) (hs : getAt root s = some sn) :
    ∃ root', (TreeOp.copy d s).step root = some root' ∧ getAt root' d = some ⟨dn.tag, sn.kids⟩ := by
  refine ⟨setKidsAt root d sn.kids, by simp [TreeOp.step, hd, hs], ?_⟩
  rw [setKidsAt_eq _ hd]
  exact getAt_setAt_self d root _ hd

/-- ... and every path that neither contains the destination nor lies under it reads as before. -/
theorem tree_copy_unrelated_unchanged (root : Node) (d s q : List (List Nat)) (dn sn : Node)
    (hd : getAt root d = some dn) (hs : getAt root s = some sn) (h1 : ¬ d <+: q) (h2 : ¬ q <+: d) :
    ∃ root', (TreeOp.copy d s).step root = some root' ∧ getAt root' q = getAt root q := by
  refine ⟨setKidsAt root d sn.kids, by simp [TreeOp.step, hd, hs], ?_⟩
  rw [setKidsAt_eq _ hd]
  exact getAt_setAt_incomparable d q root _ h1 h2

/-- Whole-node assignment `node(dst) = node(src)`: the destination equals the source's former value. -/
theorem tree_assign_dst_eq_src (root : Node) (d s : List (List Nat)) (dn sn : Node)
    (hd : getAt root d = some dn) (hs : getAt root s = some sn) :
    ∃ root', (TreeOp.assign d s).step root = some root' ∧ getAt root' d = some sn ∧
      ∀ q, ¬ d <+: q → ¬ q <+: d → getAt root' q = getAt root q := by
  refine ⟨setAt root d sn, by simp [TreeOp.step, hd, hs], getAt_setAt_self d root _ hd, ?_⟩
  intro q h1 h2
  exact getAt_setAt_incomparable d q root _ h1 h2

/-- Move assignment between unrelated or descendant -> ancestor tables: the destination holds the
source's former entries; when the source does not lie inside the destination it is left empty. -/
theorem tree_move_dst_eq_src (root : Node) (d s : List (List Nat)) (dn sn : Node)
    (hd : getAt root d = some dn) (hs : getAt root s = some sn) (hne : d ≠ s) (h1 : ¬ s <+: d) :
    ∃ root', (TreeOp.move d s).step root = some root' ∧ ∃ dn', getAt root' d = some ⟨dn', sn.kids⟩ := by
  refine ⟨setKidsAt (setKidsAt root s []) d sn.kids, by simp [TreeOp.step, hd, hs, hne], ?_⟩
  -- the destination still exists after the source was emptied: it is not under the source
  have hd' : ∃ m, getAt (setKidsAt root s []) d = some m := by
    rw [setKidsAt_eq _ hs]
    by_cases h2 : d <+: s
    · -- the destination is a proper ancestor of the source: the write happens below it
      obtain ⟨t, rfl⟩ := h2
      clear hne h1
      induction d generalizing root dn with
      | nil => exact ⟨_, rfl⟩
      | cons k p ih =>
        simp only [getAt] at hd
        cases hl : lookupKid root.kids k with
        | none => rw [hl] at hd; cases hd
        | some c =>
          rw [hl] at hd
          have hs' : getAt c (p ++ t) = some sn := by
            simpa [getAt, hl] using hs
          simp only [List.cons_append, setAt, hl, getAt, lookupKid_setKid_self _ hl]
          exact ih c dn hd hs'
    · rw [getAt_setAt_incomparable s d root _ h1 h2]; exact ⟨dn, hd⟩
  obtain ⟨m, hm⟩ := hd'
  rw [setKidsAt_eq _ hm]
  exact ⟨m.tag, getAt_setAt_self d _ _ hm⟩

/-- Get-or-create: the key is stored afterwards; an existing entry keeps its value, a new one is the
default value. -/
theorem tree_get_stored (root : Node) (p : List (List Nat)) (k : List Nat) (n : Node)
    (hp : getAt root p = some n) :
    ∃ root', (TreeOp.get p k).step root = some root' ∧ ∃ pn, getAt root' p = some pn ∧
      lookupKid pn.kids k = some ((lookupKid n.kids k).getD Node.fresh) := by
  cases hl : lookupKid n.kids k with
  | some c =>
    exact ⟨root, by simp [TreeOp.step, hp, hl], n, hp, by simp [hl]⟩
  | none =>
    refine ⟨setKidsAt root p (n.kids ++ [(k, Node.fresh)]), by simp [TreeOp.step, hp, hl],
      ⟨n.tag, n.kids ++ [(k, Node.fresh)]⟩, ?_, ?_⟩
    · rw [setKidsAt_eq _ hp]; exact getAt_setAt_self p root _ hp
    · simp only [Option.getD_none]
      have hnone : List.find? (fun e => e.1 == k) n.kids = none := by
        simpa [lookupKid] using hl
      simp [lookupKid, List.find?_append, hnone]

/-- `node(dst).kids.Insert(k, node(src))` with the value argument anywhere in the tree - in particular an
element of the very table it is inserted into, at any fill level: afterwards the destination stores under
`k` exactly the argument's former value, whether `k` was new or present. -/
theorem tree_insert_from_stored (root : Node) (d s : List (List Nat)) (k : List Nat) (dn sn : Node)
    (hd : getAt root d = some dn) (hs : getAt root s = some sn) :
    ∃ root' dn', (TreeOp.insertFrom d k s).step root = some root' ∧ getAt root' d = some dn' ∧
      lookupKid dn'.kids k = some sn := by
  refine ⟨setKidsAt root d (putKid dn.kids k sn), ⟨dn.tag, putKid dn.kids k sn⟩,
    by simp [TreeOp.step, hd, hs], ?_, ?_⟩
  · rw [setKidsAt_eq _ hd]; exact getAt_setAt_self d root _ hd
  · simp only [putKid]
    cases hl : lookupKid dn.kids k with
    | some c => exact lookupKid_setKid_self sn hl
    | none =>
      have hnone : List.find? (fun e => e.1 == k) dn.kids = none := by simpa [lookupKid] using hl
      simp [lookupKid, List.find?_append, hnone]

end Tree

end Qentem.Props.C13
