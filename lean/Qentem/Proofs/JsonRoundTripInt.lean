import Qentem.Proofs.JsonTokens
import Qentem.Props.C10
/-! C08 round trip for trees without reals: `parse (stringify v) = normI v`, composed from the
serializer theorem, the Escape/UnEscape inverse, the integer formatter theorem (C10) and the
integer reader theorems (C09) through `parse_print` (C06). -/
open Qentem.Json Qentem.StrToNum

set_option linter.unusedSimpArgs false

/-- decimal digits of `n` as code units -/
def digits (n : Nat) : List Nat := (Nat.toDigits 10 n).map Char.toNat

theorem decVal_eq_ofDigitChars (l : List Char) (init : Nat) :
    (l.map Char.toNat).foldl (fun a d => a * 10 + (d - 48)) init = Nat.ofDigitChars 10 l init := by
  induction l generalizing init with
  | nil => simp [Nat.ofDigitChars]
  | cons c cs ih =>
    simp only [List.map_cons, List.foldl_cons, Nat.ofDigitChars_cons]
    rw [ih]; congr 1; simp [Nat.mul_comm]

theorem decVal_digits (n : Nat) : decVal (digits n) = n := by
  unfold decVal digits
  rw [decVal_eq_ofDigitChars, Nat.ofDigitChars_ten_toDigits]

theorem allDigits_digits (n : Nat) : AllDigits (digits n) := by
  intro x hx
  simp only [digits, List.mem_map] at hx
  obtain ⟨c, hc, rfl⟩ := hx
  have := Nat.isDigit_of_mem_toDigits (by decide) (by decide) hc
  simp only [Char.isDigit, Bool.and_eq_true, decide_eq_true_eq] at this
  simp only [isDigit, Bool.and_eq_true, decide_eq_true_eq]
  have h1 : (48 : Nat) = '0'.toNat := rfl
  have h2 : (57 : Nat) = '9'.toNat := rfl
  obtain ⟨a, b⟩ := this
  constructor
  · rw [h1]; exact a
  · rw [h2]; exact b

theorem digits_lt_ten (n : Nat) (h : n < 10) : digits n = [48 + n] := by
  unfold digits
  rw [Nat.toDigits_of_lt_base h]
  simp only [List.map_cons, List.map_nil, List.cons.injEq, and_true]
  have key : ∀ m, m < 10 → m.digitChar.toNat = 48 + m := by decide
  exact key n h

theorem digits_ge_ten (n : Nat) (h : 10 ≤ n) : digits n = digits (n / 10) ++ [48 + n % 10] := by
  unfold digits
  rw [Nat.toDigits_of_base_le (by decide) h, List.map_append]
  have := digits_lt_ten (n % 10) (Nat.mod_lt _ (by decide))
  unfold digits at this
  rw [Nat.toDigits_of_lt_base (Nat.mod_lt _ (by decide))] at this
  simpa using this

/-- positive numbers have no leading zero -/
theorem digits_head (n : Nat) (hn : 0 < n) : ∃ d xs, digits n = d :: xs ∧ isNonZeroDigit d = true := by
  induction n using Nat.strongRecOn with
  | _ n ih =>
    by_cases h : n < 10
    · exact ⟨48 + n, [], digits_lt_ten n h, by simp [isNonZeroDigit]; omega⟩
    · obtain ⟨d, xs, hd, hz⟩ := ih (n / 10) (by omega) (by omega)
      exact ⟨d, xs ++ [48 + n % 10], by rw [digits_ge_ten n (by omega), hd]; rfl, hz⟩

namespace Qentem.Json

/-- The number formatter prints integers in plain decimal (what C10 proves of `NumberToString`). -/
structure FmtDecimal (f : Fmt) : Prop where
  nat : ∀ n, n < 2 ^ 64 → f.nat n = digits n
  intNonNeg : ∀ b, b < 2 ^ 63 → f.int b = digits b
  intNeg : ∀ b, 2 ^ 63 ≤ b → b < 2 ^ 64 → f.int b = 45 :: digits (2 ^ 64 - b)

mutual
/-- A tree without reals whose numbers fit 64 bits. -/
def IntTree : JVal → Prop
  | .real _ => False
  | .nat n => n < 2 ^ 64
  | .int b => b < 2 ^ 64
  | .arr xs => IntTreeList xs
  | .obj ms => IntTreeMembers ms
  | .ptr t => IntTree t
  | _ => True
def IntTreeList : List JVal → Prop
  | [] => True
  | v :: rest => IntTree v ∧ IntTreeList rest
def IntTreeMembers : List (List Nat × JVal) → Prop
  | [] => True
  | (_, v) :: rest => IntTree v ∧ IntTreeMembers rest
end

mutual
/-- The document a tree is printed as (no whitespace; Undefined members omitted, pointers looked through). -/
def toDoc (f : Fmt) : JVal → JDoc
  | .null => .null
  | .tru => .tru
  | .fals => .fals
  | .nat n => .num (f.nat n) .natural n
  | .int b => if b < 2 ^ 63 then .num (f.int b) .natural b else .num (f.int b) .integer b
  | .real _ => .null
  | .str s => .str (escapeJson s) s
  | .arr xs => .arr [] (toItems f xs)
  | .obj ms => .obj [] (toMembers f ms)
  | .ptr t => toDoc f t
  | .undef => .null
def toItems (f : Fmt) : List JVal → List (Ws × JDoc × Ws)
  | [] => []
  | v :: rest => if isUndefined v then toItems f rest else ([], toDoc f v, []) :: toItems f rest
def toMembers (f : Fmt) : List (List Nat × JVal) → List (Ws × List Nat × List Nat × Ws × Ws × JDoc × Ws)
  | [] => []
  | (k, v) :: rest =>
    if isUndefined v then toMembers f rest else ([], escapeJson k, k, [], [], toDoc f v, []) :: toMembers f rest
end

mutual
theorem toDoc_print (f : Fmt) (prec : Nat) : ∀ (v : JVal), IntTree v → isUndefined v = false →
    (toDoc f v).print = specValue f prec v
  | .null, _, _ => by simp [toDoc, JDoc.print, specValue, strNull]
  | .tru, _, _ => by simp [toDoc, JDoc.print, specValue, strTrue]
  | .fals, _, _ => by simp [toDoc, JDoc.print, specValue, strFalse]
  | .nat n, _, _ => by simp [toDoc, JDoc.print, specValue]
  | .int b, _, _ => by simp only [toDoc]; split <;> simp [JDoc.print, specValue]
  | .real _, h, _ => by simp [IntTree] at h
  | .str s, _, _ => by simp [toDoc, JDoc.print, specValue]
  | .arr xs, h, _ => by
    simp only [toDoc, JDoc.print, specValue, List.append_nil]
    rw [toItems_print f prec xs (by simpa [IntTree] using h) true]
  | .obj ms, h, _ => by
    simp only [toDoc, JDoc.print, specValue, List.append_nil]
    rw [toMembers_print f prec ms (by simpa [IntTree] using h) true]
  | .ptr t, h, hu => by
    simp only [toDoc, specValue]
    exact toDoc_print f prec t (by simpa [IntTree] using h) (by simpa [isUndefined] using hu)
  | .undef, _, hu => by simp [isUndefined] at hu
theorem toItems_print (f : Fmt) (prec : Nat) : ∀ (xs : List JVal), IntTreeList xs → ∀ first,
    printItems (toItems f xs) first = specItems f prec xs first
  | [], _, first => by simp [toItems, printItems, specItems]
  | v :: rest, h, first => by
    simp only [IntTreeList] at h
    simp only [toItems, specItems]
    split
    · exact toItems_print f prec rest h.2 first
    · rename_i hu
      simp only [printItems, List.append_nil]
      rw [toDoc_print f prec v h.1 (by simpa using hu), toItems_print f prec rest h.2 false]
theorem toMembers_print (f : Fmt) (prec : Nat) : ∀ (ms : List (List Nat × JVal)), IntTreeMembers ms → ∀ first,
    printMembers (toMembers f ms) first = specMembers f prec ms first
  | [], _, first => by simp [toMembers, printMembers, specMembers]
  | (k, v) :: rest, h, first => by
    simp only [IntTreeMembers] at h
    simp only [toMembers, specMembers]
    split
    · exact toMembers_print f prec rest h.2 first
    · rename_i hu
      simp only [printMembers, List.append_nil]
      rw [toDoc_print f prec v h.1 (by simpa using hu), toMembers_print f prec rest h.2 false]
      cases first <;> simp
end


mutual
/-- What reading the text back gives: pointers looked through, Undefined members dropped, a
non-negative signed number comes back as the same number of the unsigned kind. -/
def normI : JVal → JVal
  | .ptr t => normI t
  | .int b => if b < 2 ^ 63 then .nat b else .int b
  | .arr xs => .arr (normIList xs)
  | .obj ms => .obj (normIMembers ms)
  | .null => .null
  | .tru => .tru
  | .fals => .fals
  | .nat n => .nat n
  | .real b => .real b
  | .str s => .str s
  | .undef => .undef
def normIList : List JVal → List JVal
  | [] => []
  | v :: rest => if isUndefined v then normIList rest else normI v :: normIList rest
def normIMembers : List (List Nat × JVal) → List (List Nat × JVal)
  | [] => []
  | (k, v) :: rest => if isUndefined v then normIMembers rest else (k, normI v) :: normIMembers rest
end

mutual
/-- Live members of every object have pairwise distinct keys (the C12/C13 invariant of `Value`). -/
def DistinctKeys : JVal → Prop
  | .arr xs => DKList xs
  | .obj ms => DKMembers ms
  | .ptr t => DistinctKeys t
  | _ => True
def DKList : List JVal → Prop
  | [] => True
  | v :: rest => DistinctKeys v ∧ DKList rest
def DKMembers : List (List Nat × JVal) → Prop
  | [] => True
  | (k, v) :: rest =>
    DistinctKeys v ∧ (∀ p ∈ rest, isUndefined p.2 = false → p.1 ≠ k) ∧ DKMembers rest
end

theorem objInsert_append_new (acc : List (List Nat × JVal)) (k : List Nat) (v : JVal)
    (hnew : ∀ p ∈ acc, p.1 ≠ k) : objInsert acc k v = acc ++ [(k, v)] := by
  induction acc with
  | nil => simp [objInsert]
  | cons p acc ih =>
    have hp : p.1 ≠ k := hnew p (by simp)
    obtain ⟨pk, pv⟩ := p
    simp only [objInsert, List.cons_append]
    rw [if_neg hp, ih (fun q hq => hnew q (by simp [hq]))]

theorem normIMembers_keys (ms : List (List Nat × JVal)) (q : List Nat × JVal) (hq : q ∈ normIMembers ms) :
    ∃ p ∈ ms, isUndefined p.2 = false ∧ p.1 = q.1 := by
  induction ms with
  | nil => simp [normIMembers] at hq
  | cons kv rest ih =>
    obtain ⟨k, v⟩ := kv
    simp only [normIMembers] at hq
    split at hq
    · obtain ⟨p, hp, h1, h2⟩ := ih hq
      exact ⟨p, by simp [hp], h1, h2⟩
    · rename_i hu
      simp only [List.mem_cons] at hq
      rcases hq with rfl | hq
      · exact ⟨(k, v), by simp, by simpa using hu, rfl⟩
      · obtain ⟨p, hp, h1, h2⟩ := ih hq
        exact ⟨p, by simp [hp], h1, h2⟩

mutual
theorem toDoc_denote (f : Fmt) : ∀ (v : JVal), IntTree v → DistinctKeys v → isUndefined v = false →
    (toDoc f v).denote = normI v
  | .null, _, _, _ => by simp [toDoc, JDoc.denote, normI]
  | .tru, _, _, _ => by simp [toDoc, JDoc.denote, normI]
  | .fals, _, _, _ => by simp [toDoc, JDoc.denote, normI]
  | .nat n, _, _, _ => by simp [toDoc, JDoc.denote, normI]
  | .int b, _, _, _ => by simp only [toDoc, normI]; split <;> simp [JDoc.denote]
  | .real _, h, _, _ => by simp [IntTree] at h
  | .str s, _, _, _ => by simp [toDoc, JDoc.denote, normI]
  | .arr xs, h, hd, _ => by
    simp only [toDoc, JDoc.denote, normI]
    rw [toItems_denote f xs (by simpa [IntTree] using h) (by simpa [DistinctKeys] using hd)]
  | .obj ms, h, hd, _ => by
    simp only [toDoc, JDoc.denote, normI]
    rw [toMembers_denote f ms [] (by simpa [IntTree] using h) (by simpa [DistinctKeys] using hd) (by simp)]
    simp
  | .ptr t, h, hd, hu => by
    simp only [toDoc, normI]
    exact toDoc_denote f t (by simpa [IntTree] using h) (by simpa [DistinctKeys] using hd) (by simpa [isUndefined] using hu)
  | .undef, _, _, hu => by simp [isUndefined] at hu
theorem toItems_denote (f : Fmt) : ∀ (xs : List JVal), IntTreeList xs → DKList xs →
    denoteItems (toItems f xs) = normIList xs
  | [], _, _ => by simp [toItems, denoteItems, normIList]
  | v :: rest, h, hd => by
    simp only [IntTreeList] at h
    simp only [DKList] at hd
    simp only [toItems, normIList]
    split
    · exact toItems_denote f rest h.2 hd.2
    · rename_i hu
      simp only [denoteItems]
      rw [toDoc_denote f v h.1 hd.1 (by simpa using hu), toItems_denote f rest h.2 hd.2]
theorem toMembers_denote (f : Fmt) : ∀ (ms : List (List Nat × JVal)) (acc : List (List Nat × JVal)),
    IntTreeMembers ms → DKMembers ms →
    (∀ p ∈ acc, ∀ q ∈ ms, isUndefined q.2 = false → q.1 ≠ p.1) →
    denoteMembers (toMembers f ms) acc = acc ++ normIMembers ms
  | [], acc, _, _, _ => by simp [toMembers, denoteMembers, normIMembers]
  | (k, v) :: rest, acc, h, hd, hacc => by
    simp only [IntTreeMembers] at h
    simp only [DKMembers] at hd
    simp only [toMembers, normIMembers]
    split
    · exact toMembers_denote f rest acc h.2 hd.2.2 (fun p hp q hq hu => hacc p hp q (by simp [hq]) hu)
    · rename_i hu
      have hu' : isUndefined v = false := by simpa using hu
      simp only [denoteMembers]
      rw [toDoc_denote f v h.1 hd.1 hu']
      rw [objInsert_append_new acc k (normI v) (fun p hp => by
        have := hacc p hp (k, v) (by simp) hu'
        exact fun e => this e.symm)]
      rw [toMembers_denote f rest (acc ++ [(k, normI v)]) h.2 hd.2.2 (by
        intro p hp q hq huq
        simp only [List.mem_append, List.mem_singleton] at hp
        rcases hp with hp | rfl
        · exact hacc p hp q (by simp [hq]) huq
        · exact hd.2.1 q hq huq)]
      simp
end


theorem numSpec_digits_natural (w n : Nat) (hn : n < 2 ^ 64) : NumSpec (jsonDeps w) (digits n) .natural n := by
  by_cases h0 : n = 0
  · subst h0
    have : digits 0 = [48] := digits_lt_ten 0 (by decide)
    rw [this]; exact numSpec_zero w
  · obtain ⟨d, xs, hd, hz⟩ := digits_head n (by omega)
    have hall := allDigits_digits n
    have hval := decVal_digits n
    rw [hd] at hall hval ⊢
    have := numSpec_natural w d xs hz (fun x hx => hall x (by simp [hx])) (by rw [hval]; exact hn)
    rwa [hval] at this

theorem numSpec_digits_negative (w b : Nat) (h1 : 2 ^ 63 ≤ b) (h2 : b < 2 ^ 64) :
    NumSpec (jsonDeps w) (45 :: digits (2 ^ 64 - b)) .integer b := by
  obtain ⟨d, xs, hd, hz⟩ := digits_head (2 ^ 64 - b) (by omega)
  have hall := allDigits_digits (2 ^ 64 - b)
  have hval := decVal_digits (2 ^ 64 - b)
  rw [hd] at hall hval ⊢
  have := numSpec_negative w d xs hz (fun x hx => hall x (by simp [hx])) (by rw [hval]; omega)
  rw [hval] at this
  have e : 2 ^ 64 - (2 ^ 64 - b) = b := by omega
  rwa [e] at this

mutual
theorem toDoc_wf (w : Nat) (f : Fmt) (hf : FmtDecimal f) : ∀ (v : JVal), IntTree v → WF (jsonDeps w) (toDoc f v)
  | .null, _ => by simp [toDoc, WF]
  | .tru, _ => by simp [toDoc, WF]
  | .fals, _ => by simp [toDoc, WF]
  | .nat n, h => by
    simp only [toDoc, WF]
    rw [hf.nat n (by simpa [IntTree] using h)]
    exact numSpec_digits_natural w n (by simpa [IntTree] using h)
  | .int b, h => by
    have hb : b < 2 ^ 64 := by simpa [IntTree] using h
    simp only [toDoc]
    split
    · rename_i hlt
      simp only [WF]
      rw [hf.intNonNeg b hlt]
      exact numSpec_digits_natural w b hb
    · rename_i hge
      simp only [WF]
      rw [hf.intNeg b (by omega) hb]
      exact numSpec_digits_negative w b (by omega) hb
  | .real _, h => by simp [IntTree] at h
  | .str s, _ => by simp only [toDoc, WF]; exact strSpec_escaped w s
  | .arr xs, h => by
    simp only [toDoc, WF]
    exact ⟨by simp [AllWs], toItems_wf w f hf xs (by simpa [IntTree] using h)⟩
  | .obj ms, h => by
    simp only [toDoc, WF]
    exact ⟨by simp [AllWs], toMembers_wf w f hf ms (by simpa [IntTree] using h)⟩
  | .ptr t, h => by simp only [toDoc]; exact toDoc_wf w f hf t (by simpa [IntTree] using h)
  | .undef, _ => by simp [toDoc, WF]
theorem toItems_wf (w : Nat) (f : Fmt) (hf : FmtDecimal f) : ∀ (xs : List JVal), IntTreeList xs →
    WFItems (jsonDeps w) (toItems f xs)
  | [], _ => by simp [toItems, WFItems]
  | v :: rest, h => by
    simp only [IntTreeList] at h
    simp only [toItems]
    split
    · exact toItems_wf w f hf rest h.2
    · simp only [WFItems]
      exact ⟨by simp [AllWs], toDoc_wf w f hf v h.1, by simp [AllWs], toItems_wf w f hf rest h.2⟩
theorem toMembers_wf (w : Nat) (f : Fmt) (hf : FmtDecimal f) : ∀ (ms : List (List Nat × JVal)), IntTreeMembers ms →
    WFMembers (jsonDeps w) (toMembers f ms)
  | [], _ => by simp [toMembers, WFMembers]
  | (k, v) :: rest, h => by
    simp only [IntTreeMembers] at h
    simp only [toMembers]
    split
    · exact toMembers_wf w f hf rest h.2
    · simp only [WFMembers]
      exact ⟨by simp [AllWs], strSpec_escaped w k, by simp [AllWs], by simp [AllWs], toDoc_wf w f hf v h.1,
        by simp [AllWs], toMembers_wf w f hf rest h.2⟩
end

/-- **Round trip (C08) for trees without reals.** For every tree whose numbers are 64-bit integers
(any nesting, Undefined and pointer members anywhere, strings over all code units, live keys
distinct as in every `Value` object), any character width, any precision, and any stream prefix-free
start: parsing what `Stringify` wrote returns the tree itself — pointers looked through, Undefined
members dropped, non-negative signed numbers read back as unsigned. -/
theorem roundtrip_int (w : Nat) (f : Fmt) (hf : FmtDecimal f) (prec : Nat) (v : JVal)
    (hv : IntTree v) (hd : DistinctKeys v) (hu : isUndefined v = false)
    (hsz : (strValue f prec v []).length < 2 ^ 32) :
    parse (jsonDeps w) (strValue f prec v []).toArray = .ok (normI v) := by
  have e1 : strValue f prec v [] = (toDoc f v).print := by
    rw [strValue_eq, toDoc_print f prec v hv hu]; simp
  have := parse_print (jsonDeps w) (jsonDeps_safe w) (toDoc f v) (toDoc_wf w f hf v hv) [] [] (by simp [AllWs]) (by simp [AllWs])
    (by simpa [e1] using hsz)
  rw [toDoc_denote f v hv hd hu] at this
  simpa [e1] using this


/-- The formatter the serializer is linked with: the `Digit::NumberToString` model (64-bit
integers; the real-number path is whatever `real` is given). -/
def numFmt (real : Nat → Nat → List Nat) : Fmt where
  nat n := match Qentem.NumToStr.intToString [] 8 false n with | .ok l => l | .error _ => []
  int b := match Qentem.NumToStr.intToString [] 8 true b with | .ok l => l | .error _ => []
  real := real

theorem numFmt_decimal (real : Nat → Nat → List Nat) : FmtDecimal (numFmt real) := by
  have hw : Qentem.Proofs.NumToStr.IsWidth 8 := Or.inr (Or.inr (Or.inr rfl))
  refine ⟨?_, ?_, ?_⟩
  · intro n hn
    have := Qentem.Props.C10.int_to_string_exact_unsigned [] 8 n hw (by simpa using hn)
    simp [numFmt, this, digits]
  · intro b hb
    have := Qentem.Props.C10.int_to_string_exact_signed [] 8 hw (b : Int) (by omega) (by omega)
    have e : (((b : Int) % (2 ^ (8 * 8) : Int)).toNat) = b := by omega
    rw [e] at this
    have hneg : ¬ ((b : Int) < 0) := by omega
    simp [numFmt, this, digits, hneg]
  · intro b h1 h2
    have := Qentem.Props.C10.int_to_string_exact_signed [] 8 hw ((b : Int) - 2 ^ 64) (by omega) (by omega)
    have e : ((((b : Int) - 2 ^ 64) % (2 ^ (8 * 8) : Int)).toNat) = b := by omega
    rw [e] at this
    have hneg : ((b : Int) - 2 ^ 64 < 0) := by omega
    have habs : ((b : Int) - 2 ^ 64).natAbs = 2 ^ 64 - b := by omega
    rw [habs] at this
    simp only [hneg, ↓reduceIte, List.nil_append] at this
    simp [numFmt, this, digits]

/-- The round trip for the serializer and parser as they are linked. -/
theorem roundtrip_int_linked (w : Nat) (real : Nat → Nat → List Nat) (prec : Nat) (v : JVal)
    (hv : IntTree v) (hd : DistinctKeys v) (hu : isUndefined v = false)
    (hsz : (strValue (numFmt real) prec v []).length < 2 ^ 32) :
    parse (jsonDeps w) (strValue (numFmt real) prec v []).toArray = .ok (normI v) :=
  roundtrip_int w (numFmt real) (numFmt_decimal real) prec v hv hd hu hsz

end Qentem.Json
