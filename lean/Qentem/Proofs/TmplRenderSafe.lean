import Qentem.Model.Tmpl.WF
import Qentem.Proofs.ExprScanSafe
/-!
# C01 — rendering a well-formed tag tree performs no out-of-range access

`Safe` (from `ExprScanSafe`): the checked computation does not fail with an out-of-range access
(`Fault.oobRead`: content reads, negative-length slices, `loops_items_[Level]`, `s_tag + id`).
Main result `render_safe_of_wf`: `wf n tags → Safe (renderTop cx tags fuel)`, for every value,
every fuel, every formatter / group / sort parameter, with the bound check of 487b090 in `getValue`
(`cx.guardIndexRead = true`; without it the statement is false: `{var:a]}`).
-/
set_option linter.unusedSectionVars false
namespace Qentem.Tmpl
open Qentem.Expr (Fault rd Safe Item VarRef RealLike Val Operand)
open Qentem.Generated.Tmpl

theorem skipWhile_safe (c : List Nat) (endO : Nat) (p : Nat → Bool) (he : endO ≤ c.length) :
    ∀ f off, Safe (skipWhile c endO p f off)
      (fun o => off ≤ o ∧ (off ≤ endO → o ≤ endO) ∧ (endO ≤ off → o = off)) := by
  intro f
  induction f with
  | zero => intro off; exact Safe.ok _ ⟨Nat.le_refl _, fun h => h, fun _ => rfl⟩
  | succ f ih =>
    intro off
    simp only [skipWhile]
    split
    · rename_i hlt
      apply Safe.bind (Qentem.Expr.rd_safe c off (by omega))
      intro ch _
      split
      · exact Safe.mono (ih (off + 1)) (fun o ho => ⟨by omega, fun _ => ho.2.1 (by omega), fun h => by omega⟩)
      · exact Safe.ok _ ⟨Nat.le_refl _, fun h => h, fun _ => rfl⟩
    · exact Safe.ok _ ⟨Nat.le_refl _, fun h => h, fun _ => rfl⟩

theorem skipW_safe (c : List Nat) (endO : Nat) (p : Nat → Bool) (he : endO ≤ c.length) (off : Nat) :
    Safe (skipW c endO p off)
      (fun o => off ≤ o ∧ (off ≤ endO → o ≤ endO) ∧ (endO ≤ off → o = off)) :=
  skipWhile_safe c endO p he _ off

theorem slice_safe (c : List Nat) (a b : Nat) (h1 : a ≤ b) (h2 : b ≤ c.length) :
    Safe (slice c a b) (fun _ => True) := by
  simp [slice, h1, h2, Safe]

variable {R : Type}

theorem itemAt_safe (st : RState) (level : Nat) (h : level < st.items.length) :
    Safe (itemAt st level) (fun _ => True) := by
  simp [itemAt, h, Safe]

theorem getValuePath_safe (cx : RCtx R) (hg : cx.guardIndexRead = true) (base length : Nat)
    (hb : base + length ≤ cx.content.length) :
    ∀ fuel v offset, Safe (getValuePath cx base length fuel v offset offset) (fun _ => True) := by
  intro fuel
  induction fuel with
  | zero => intro v offset; exact Safe.ok _ trivial
  | succ fuel ih =>
    intro v offset
    simp only [getValuePath]
    cases v with
    | none => exact Safe.ok _ trivial
    | some d =>
      simp only []
      apply Safe.bind (skipW_safe cx.content (base + length) _ (by omega) (base + offset))
      intro o2 ho2
      have hkey : Safe (if o2 - base = offset then (pure [] : Except Fault (List Nat))
          else slice cx.content (base + offset) (base + (o2 - base))) (fun _ => True) := by
        split
        · exact Safe.ok _ trivial
        · rename_i hne
          by_cases hle : base + offset ≤ base + length
          · have := ho2.2.1 hle
            exact slice_safe _ _ _ (by omega) (by omega)
          · have := ho2.2.2 (by omega)
            exact absurd (by omega) hne
      apply Safe.bind hkey
      intro key _
      simp only [hg, Bool.true_and]
      split
      · exact Safe.ok _ trivial
      · rename_i hlt
        apply Safe.bind (Qentem.Expr.rd_safe cx.content _ (by simp at hlt; omega))
        intro ch _
        split
        · exact Safe.ok _ trivial
        · exact ih _ _

theorem getValue_safe (cx : RCtx R) (hg : cx.guardIndexRead = true) (st : RState) (lv : Nat)
    (hlv : lv ≤ st.items.length) (v : VarRef) (hv : wfVar cx.content.length lv v = true) :
    Safe (getValue cx st v) (fun _ => True) := by
  simp only [wfVar, Bool.and_eq_true, decide_eq_true_eq, Bool.or_eq_true, beq_iff_eq] at hv
  obtain ⟨hb, hl⟩ := hv
  simp only [getValue]
  have hhas : Safe (if v.len ≠ 0 then (do
      let ch ← rd cx.content (v.off + v.len - 1)
      pure (ch == W1.variableIndexSuffix)) else (pure false : Except Fault Bool)) (fun _ => True) := by
    split
    · apply Safe.bind (Qentem.Expr.rd_safe cx.content _ (by omega))
      intro ch _; exact Safe.ok _ trivial
    · exact Safe.ok _ trivial
  apply Safe.bind hhas
  intro hasIndex _
  split
  · split
    · apply Safe.bind (slice_safe cx.content _ _ (by omega) (by omega))
      intro key _; exact Safe.ok _ trivial
    · apply Safe.bind (skipW_safe cx.content (v.off + v.len) _ (by omega) v.off)
      intro o ho
      have hval : Safe (if o - v.off ≠ 0 then (do
          let key ← slice cx.content v.off (v.off + (o - v.off))
          pure (cx.root.getKey key)) else (pure none : Except Fault (Option Doc))) (fun _ => True) := by
        split
        · have := ho.2.1 (by omega)
          apply Safe.bind (slice_safe cx.content _ _ (by omega) (by omega))
          intro key _; exact Safe.ok _ trivial
        · exact Safe.ok _ trivial
      apply Safe.bind hval
      intro value _
      exact getValuePath_safe cx hg v.off v.len hb _ _ _
  · rename_i hid
    have hlevel : v.level < st.items.length := by
      rcases hl with h | h
      · exact absurd h hid
      · omega
    apply Safe.bind (itemAt_safe st v.level hlevel)
    intro it _
    split
    · exact Safe.ok _ trivial
    · exact getValuePath_safe cx hg v.off v.len hb _ _ _

theorem emit_items (st : RState) (s : List Nat) : (emit st s).items = st.items := rfl

theorem subChk_safe (a b : Nat) (h : b ≤ a) : Safe (subChk a b) (fun r => r = a - b) := by
  simp [subChk, h, Safe]

theorem renderVariable_safe (cx : RCtx R) (hg : cx.guardIndexRead = true) (st : RState) (lv : Nat)
    (hlv : lv ≤ st.items.length) (v : VarRef) (offset s e : Nat)
    (hw : wfTag cx.content.length lv (Tag.var v : Tag R) = some (s, e)) (ho : offset ≤ s) :
    Safe (renderVariable cx st v offset) (fun r => r.2 = e ∧ r.1.items = st.items) := by
  simp only [wfTag] at hw
  split at hw
  · rename_i hc
    simp only [Bool.and_eq_true, decide_eq_true_eq] at hc
    simp only [Option.some.injEq, Prod.mk.injEq] at hw
    obtain ⟨hs, he⟩ := hw
    have hv := hc.1
    have hb : v.off + v.len ≤ cx.content.length := by
      simp only [wfVar, Bool.and_eq_true, decide_eq_true_eq] at hv; exact hv.1
    have hp : W1.variablePrefixLength = 5 := by decide
    have hf : W1.variableFullLength = 6 := by decide
    have hi : W1.inLineSuffixLength = 1 := by decide
    unfold renderVariable
    apply Safe.bind (subChk_safe v.off W1.variablePrefixLength (by omega))
    intro tOff htOff
    subst htOff
    · apply Safe.bind (slice_safe cx.content _ _ (by omega) (by omega))
      intro pre _
      apply Safe.bind (getValue_safe cx hg (emit st pre) lv hlv v hv)
      intro value _
      split
      · exact Safe.ok _ ⟨by simp only []; omega, rfl⟩
      · have hkey : Safe (loopKeyText (emit st pre) v) (fun _ => True) := by
          unfold loopKeyText
          split
          · exact Safe.ok _ trivial
          · rename_i hid
            have hl : v.level < st.items.length := by
              simp only [wfVar, Bool.and_eq_true, decide_eq_true_eq, Bool.or_eq_true, beq_iff_eq] at hv
              rcases hv.2 with h | h
              · exact absurd h hid
              · omega
            have := itemAt_safe (emit st pre) v.level hl
            cases hit : itemAt (emit st pre) v.level with
            | ok it => exact Safe.ok _ trivial
            | error e => rw [hit] at this; exact this
        apply Safe.bind hkey
        intro keyTxt _
        split
        · exact Safe.ok _ ⟨by simp only []; omega, rfl⟩
        · apply Safe.bind (slice_safe cx.content _ _ (by omega) (by omega))
          intro src _
          exact Safe.ok _ ⟨by simp only []; omega, rfl⟩
  · simp at hw

theorem renderRawVariable_safe (cx : RCtx R) (hg : cx.guardIndexRead = true) (st : RState) (lv : Nat)
    (hlv : lv ≤ st.items.length) (v : VarRef) (offset s e : Nat)
    (hw : wfTag cx.content.length lv (Tag.raw v : Tag R) = some (s, e)) (ho : offset ≤ s) :
    Safe (renderRawVariable cx st v offset) (fun r => r.2 = e ∧ r.1.items = st.items) := by
  simp only [wfTag] at hw
  split at hw
  · rename_i hc
    simp only [Bool.and_eq_true, decide_eq_true_eq] at hc
    simp only [Option.some.injEq, Prod.mk.injEq] at hw
    obtain ⟨hs, he⟩ := hw
    have hv := hc.1
    have hb : v.off + v.len ≤ cx.content.length := by
      simp only [wfVar, Bool.and_eq_true, decide_eq_true_eq] at hv; exact hv.1
    have hp : W1.rawVariablePrefixLength = 5 := by decide
    have hf : W1.rawVariableFullLength = 6 := by decide
    have hi : W1.inLineSuffixLength = 1 := by decide
    unfold renderRawVariable
    apply Safe.bind (subChk_safe v.off W1.rawVariablePrefixLength (by omega))
    intro tOff htOff
    subst htOff
    apply Safe.bind (slice_safe cx.content _ _ (by omega) (by omega))
    intro pre _
    apply Safe.bind (getValue_safe cx hg (emit st pre) lv hlv v hv)
    intro value _
    split
    · exact Safe.ok _ ⟨by simp only []; omega, rfl⟩
    · apply Safe.bind (slice_safe cx.content _ _ (by omega) (by omega))
      intro src _
      exact Safe.ok _ ⟨by simp only []; omega, rfl⟩
  · simp at hw

mutual
theorem operandVars_wf (n lv : Nat) : ∀ (x : Operand R), wfOperand n lv x = true →
    ∀ v ∈ operandVars x, wfVar n lv v = true
  | .var w, h => by
    intro v hv; simp only [operandVars, List.mem_singleton] at hv; subst hv
    simpa [wfOperand] using h
  | .sub items, h => by
    simp only [operandVars]; simp only [wfOperand] at h; exact itemsVars_wf n lv items h
  | .num _, _ => by intro v hv; simp [operandVars] at hv
  | .text _ _, _ => by intro v hv; simp [operandVars] at hv
theorem itemsVars_wf (n lv : Nat) : ∀ (items : List (Item R)), wfItemVars n lv items = true →
    ∀ v ∈ itemsVars items, wfVar n lv v = true
  | [], _ => by intro v hv; simp [itemsVars] at hv
  | (x, _) :: rest, h => by
    simp only [wfItemVars, Bool.and_eq_true] at h
    intro v hv
    simp only [itemsVars, List.mem_append] at hv
    rcases hv with hv | hv
    · exact operandVars_wf n lv x h.1 v hv
    · exact itemsVars_wf n lv rest h.2 v hv
end

section
variable [RealLike R]

theorem resolveVars_safe (cx : RCtx R) (hg : cx.guardIndexRead = true) (st : RState) (lv : Nat)
    (hlv : lv ≤ st.items.length) : ∀ (vars : List VarRef),
    (∀ v ∈ vars, wfVar cx.content.length lv v = true) →
    Safe (resolveVars cx st vars) (fun _ => True) := by
  intro vars
  induction vars with
  | nil => intro _; exact Safe.ok _ trivial
  | cons v rest ih =>
    intro h
    simp only [resolveVars]
    apply Safe.bind (getValue_safe cx hg st lv hlv v (h v (List.mem_cons_self ..)))
    intro d _
    apply Safe.bind (ih (fun w hw => h w (List.mem_cons_of_mem _ hw)))
    intro r _
    exact Safe.ok _ trivial

theorem evalExprs_safe (cx : RCtx R) (hg : cx.guardIndexRead = true) (st : RState) (lv : Nat)
    (hlv : lv ≤ st.items.length) (items : List (Item R))
    (hw : wfItemVars cx.content.length lv items = true) :
    Safe (evalExprs cx st items) (fun _ => True) := by
  unfold evalExprs
  split
  · exact Safe.ok _ trivial
  · apply Safe.bind (resolveVars_safe cx hg st lv hlv _ (itemsVars_wf _ _ items hw))
    intro r _
    exact Safe.ok _ trivial

theorem renderMath_safe (cx : RCtx R) (hg : cx.guardIndexRead = true) (st : RState) (lv : Nat)
    (hlv : lv ≤ st.items.length) (ex : List (Item R)) (off endOff offset s e : Nat)
    (hw : wfTag cx.content.length lv (Tag.math ex off endOff : Tag R) = some (s, e)) (ho : offset ≤ s) :
    Safe (renderMath cx st ex off endOff offset) (fun r => r.2 = e ∧ r.1.items = st.items) := by
  simp only [wfTag] at hw
  split at hw
  · rename_i hc
    simp only [Bool.and_eq_true, decide_eq_true_eq] at hc
    simp only [Option.some.injEq, Prod.mk.injEq] at hw
    obtain ⟨hs, he⟩ := hw
    subst hs he
    unfold renderMath
    apply Safe.bind (slice_safe cx.content _ _ ho (by omega))
    intro pre _
    apply Safe.bind (evalExprs_safe cx hg (emit st pre) lv hlv ex hc.1)
    intro r _
    split
    · exact Safe.ok _ ⟨rfl, rfl⟩
    · exact Safe.ok _ ⟨rfl, rfl⟩
    · exact Safe.ok _ ⟨rfl, rfl⟩
    · exact Safe.ok _ ⟨rfl, rfl⟩
    · apply Safe.bind (slice_safe cx.content _ _ hc.2.1 hc.2.2)
      intro src _
      exact Safe.ok _ ⟨rfl, rfl⟩
  · simp at hw


theorem takeChk_safe {α : Type} (l : List α) (k : Nat) (h : k ≤ l.length) :
    Safe (takeChk l k) (fun r => r = l.take k) := by
  simp [takeChk, h, Safe]

theorem dropChk_safe {α : Type} (l : List α) (k : Nat) (h : k ≤ l.length) :
    Safe (dropChk l k) (fun r => r = l.drop k) := by
  simp [dropChk, h, Safe]

/-- `wfSel` is `wfTags` of the selected sub-range -/
theorem wfSel_eq (n lv : Nat) : ∀ (tags : List (Tag R)) (lo hi skip cnt : Nat),
    wfSel n lv lo hi skip cnt tags = wfTags n lv lo hi ((tags.drop skip).take cnt) := by
  intro tags
  induction tags with
  | nil => intro lo hi skip cnt; cases skip <;> cases cnt <;> simp [wfSel, wfTags]
  | cons t rest ih =>
    intro lo hi skip cnt
    cases skip with
    | succ k => simp only [wfSel, List.drop_succ_cons]; exact ih _ _ _ _
    | zero =>
      cases cnt with
      | zero => simp [wfSel, wfTags]
      | succ c =>
        simp only [wfSel, List.drop_zero, List.take_succ_cons, wfTags]
        cases wfTag n lv t with
        | none => rfl
        | some p =>
          obtain ⟨s, e⟩ := p
          simp only []
          rw [ih _ _ 0 c]
          simp

theorem wfEach_get (n lv : Nat) : ∀ (sub : List (Tag R)) (id : Nat) (t : Tag R),
    wfEach n lv sub = true → sub[id]? = some t →
    (match t with
     | .var _ => (wfTag n lv t).isSome = true
     | .raw _ => (wfTag n lv t).isSome = true
     | .math _ _ _ => (wfTag n lv t).isSome = true
     | _ => True) := by
  intro sub
  induction sub with
  | nil => intro id t _ h; simp at h
  | cons x rest ih =>
    intro id t hw h
    simp only [wfEach, Bool.and_eq_true] at hw
    cases id with
    | zero =>
      simp at h; subst h
      cases x <;> simp_all
    | succ k =>
      simp at h
      exact ih k t hw.2 h

def SRender (cx : RCtx R) (f : Nat) : Prop :=
  ∀ (tags : List (Tag R)) (offset endO lv : Nat) (st : RState),
    wfTags cx.content.length lv offset endO tags = true → lv ≤ st.items.length →
    Safe (render cx f tags offset endO st) (fun st' => st.items.length ≤ st'.items.length)

def STag (cx : RCtx R) (f : Nat) : Prop :=
  ∀ (t : Tag R) (offset lv : Nat) (st : RState) (s e : Nat),
    wfTag cx.content.length lv t = some (s, e) → offset ≤ s → lv ≤ st.items.length →
    Safe (renderTag cx f t offset st) (fun r => r.2 = e ∧ st.items.length ≤ r.1.items.length)

def SIf (cx : RCtx R) (f : Nat) : Prop :=
  ∀ (cases : List (IfCase R)) (lv : Nat) (st : RState),
    wfCases cx.content.length lv cases = true → lv ≤ st.items.length →
    Safe (ifCases cx f cases st) (fun st' => st.items.length ≤ st'.items.length)

def SLoop (cx : RCtx R) (f : Nat) : Prop :=
  ∀ (sub : List (Tag R)) (lf : LoopFields) (set : Doc) (size idx lv : Nat) (st : RState),
    wfTags cx.content.length lv (lf.off + lf.contentOff) lf.endOff sub = true →
    lv ≤ st.items.length → lf.level < st.items.length →
    Safe (loopIter cx f sub lf set size idx st) (fun st' => st.items.length ≤ st'.items.length)

def SSvar (cx : RCtx R) (f : Nat) : Prop :=
  ∀ (sub : List (Tag R)) (txt : List Nat) (index lastIdx lv : Nat) (st : RState),
    wfEach cx.content.length lv sub = true → lv ≤ st.items.length →
    Safe (svarLoop cx f sub txt index lastIdx st) (fun st' => st.items.length ≤ st'.items.length)

theorem sRender_succ (cx : RCtx R) (f : Nat) (hR : SRender cx f) (hT : STag cx f) :
    SRender cx (f + 1) := by
  intro tags offset endO lv st hw hlv
  cases tags with
  | nil =>
    simp only [wfTags, decide_eq_true_eq] at hw
    simp only [render]
    apply Safe.bind (slice_safe cx.content _ _ hw.1 hw.2)
    intro x _
    exact Safe.ok _ (Nat.le_refl _)
  | cons t rest =>
    simp only [wfTags] at hw
    cases hwt : wfTag cx.content.length lv t with
    | none => simp [hwt] at hw
    | some p =>
      obtain ⟨s, e⟩ := p
      simp only [hwt, Bool.and_eq_true, decide_eq_true_eq] at hw
      simp only [render]
      apply Safe.bind (hT t offset lv st s e hwt hw.1 hlv)
      intro r hr
      obtain ⟨st1, off1⟩ := r
      simp only [] at hr
      obtain ⟨h1, h2⟩ := hr
      subst h1
      exact Safe.mono (hR rest _ endO lv st1 hw.2 (by omega)) (fun st' h => by omega)

theorem sIf_succ (cx : RCtx R) (hg : cx.guardIndexRead = true) (f : Nat) (hR : SRender cx f)
    (hI : SIf cx f) : SIf cx (f + 1) := by
  intro cases lv st hw hlv
  cases cases with
  | nil => simp only [ifCases]; exact Safe.ok _ (Nat.le_refl _)
  | cons c rest =>
    obtain ⟨cs, sub, off, endOff⟩ := c
    simp only [wfCases, Bool.and_eq_true] at hw
    simp only [ifCases]
    have hhit : Safe (if cs.isEmpty = true then (pure true : Except Fault Bool) else do
        pure ((truth (← evalExprs cx st cs)) == some true)) (fun _ => True) := by
      split
      · exact Safe.ok _ trivial
      · apply Safe.bind (evalExprs_safe cx hg st lv hlv cs hw.1.1)
        intro r _; exact Safe.ok _ trivial
    apply Safe.bind hhit
    intro hit _
    split
    · exact hR sub off endOff lv st hw.1.2 hlv
    · exact hI rest lv st hw.2 hlv

theorem sLoop_succ (cx : RCtx R) (f : Nat) (hR : SRender cx f) (hL : SLoop cx f) :
    SLoop cx (f + 1) := by
  intro sub lf set size idx lv st hw hlv hlevel
  simp only [loopIter]
  split
  · apply Safe.bind (itemAt_safe st lf.level hlevel)
    intro it _
    generalize hit' : (if set.isObject = true then
        match set with
        | .obj ms => (match ms[idx]? with
          | some (k, v) => if v.isUndefined = true then { it with value := none } else ({ value := some v, key := k } : LoopItem)
          | none => { it with value := none })
        | _ => it
      else ({ value := set.getIdx idx, key := [] } : LoopItem)) = it'
    have hlen : ({ st with items := st.items.set lf.level it' } : RState).items.length = st.items.length := by
      simp
    have hinner : Safe (if it'.value.isSome = true then
        render cx f sub (lf.off + lf.contentOff) lf.endOff { st with items := st.items.set lf.level it' }
        else pure { st with items := st.items.set lf.level it' })
        (fun st' => st.items.length ≤ st'.items.length) := by
      split
      · exact Safe.mono (hR sub _ _ lv _ hw (by rw [hlen]; exact hlv)) (fun st' h => by rw [hlen] at h; exact h)
      · exact Safe.ok _ (by rw [hlen]; exact Nat.le_refl _)
    apply Safe.bind hinner
    intro st2 h2
    exact Safe.mono (hL sub lf set size (idx + 1) lv st2 hw (by omega) (by omega)) (fun st' h => by omega)
  · exact Safe.ok _ (Nat.le_refl _)


theorem sSvar_succ (cx : RCtx R) (hg : cx.guardIndexRead = true) (f : Nat) (hS : SSvar cx f) :
    SSvar cx (f + 1) := by
  intro sub txt index lastIdx lv st hw hlv
  have hp : W1.variablePrefixLength = 5 := by decide
  have hpr : W1.rawVariablePrefixLength = 5 := by decide
  simp only [svarLoop]
  split
  · split
    · split
      · split
        · split
          · -- the `match sub[id]?`
            split
            · rename_i v hsub
              have hv := wfEach_get _ lv sub _ _ hw hsub
              simp only [] at hv
              cases hwt : wfTag cx.content.length lv (Tag.var v : Tag R) with
              | none => simp [hwt] at hv
              | some p =>
                obtain ⟨s, e⟩ := p
                have h5 : W1.variablePrefixLength ≤ v.off ∧ s = v.off - W1.variablePrefixLength := by
                  simp only [wfTag] at hwt
                  split at hwt
                  · rename_i hc
                    simp only [Bool.and_eq_true, decide_eq_true_eq] at hc
                    simp only [Option.some.injEq, Prod.mk.injEq] at hwt
                    exact ⟨hc.2.1, hwt.1.symm⟩
                  · simp at hwt
                apply Safe.bind (subChk_safe v.off W1.variablePrefixLength h5.1)
                intro o ho
                apply Safe.bind (renderVariable_safe cx hg _ lv (by simpa [emit_items] using hlv) v o s e hwt (by omega))
                intro r hr
                obtain ⟨st1, off1⟩ := r
                simp only [] at hr
                exact Safe.mono (hS sub txt _ _ lv st1 hw (by rw [hr.2]; simpa [emit_items] using hlv))
                  (fun st' h => by rw [hr.2] at h; simpa [emit_items] using h)
            · rename_i v hsub
              have hv := wfEach_get _ lv sub _ _ hw hsub
              simp only [] at hv
              cases hwt : wfTag cx.content.length lv (Tag.raw v : Tag R) with
              | none => simp [hwt] at hv
              | some p =>
                obtain ⟨s, e⟩ := p
                have h5 : W1.rawVariablePrefixLength ≤ v.off ∧ s = v.off - W1.rawVariablePrefixLength := by
                  simp only [wfTag] at hwt
                  split at hwt
                  · rename_i hc
                    simp only [Bool.and_eq_true, decide_eq_true_eq] at hc
                    simp only [Option.some.injEq, Prod.mk.injEq] at hwt
                    exact ⟨hc.2.1, hwt.1.symm⟩
                  · simp at hwt
                apply Safe.bind (subChk_safe v.off W1.rawVariablePrefixLength h5.1)
                intro o ho
                apply Safe.bind (renderRawVariable_safe cx hg _ lv (by simpa [emit_items] using hlv) v o s e hwt (by omega))
                intro r hr
                obtain ⟨st1, off1⟩ := r
                simp only [] at hr
                exact Safe.mono (hS sub txt _ _ lv st1 hw (by rw [hr.2]; simpa [emit_items] using hlv))
                  (fun st' h => by rw [hr.2] at h; simpa [emit_items] using h)
            · rename_i ex off endOff hsub
              have hv := wfEach_get _ lv sub _ _ hw hsub
              simp only [] at hv
              cases hwt : wfTag cx.content.length lv (Tag.math ex off endOff : Tag R) with
              | none => simp [hwt] at hv
              | some p =>
                obtain ⟨s, e⟩ := p
                have hs : s = off := by
                  simp only [wfTag] at hwt
                  split at hwt
                  · simp only [Option.some.injEq, Prod.mk.injEq] at hwt; exact hwt.1.symm
                  · simp at hwt
                apply Safe.bind (renderMath_safe cx hg _ lv (by simpa [emit_items] using hlv) ex off endOff off s e hwt (by omega))
                intro r hr
                obtain ⟨st1, off1⟩ := r
                simp only [] at hr
                exact Safe.mono (hS sub txt _ _ lv st1 hw (by rw [hr.2]; simpa [emit_items] using hlv))
                  (fun st' h => by rw [hr.2] at h; simpa [emit_items] using h)
            · exact Safe.mono (hS sub txt _ _ lv _ hw (by simpa [emit_items] using hlv))
                (fun st' h => by simpa [emit_items] using h)
          · exact Safe.mono (hS sub txt _ _ lv _ hw (by simpa [emit_items] using hlv))
              (fun st' h => by simpa [emit_items] using h)
        · exact Safe.mono (hS sub txt _ _ lv _ hw (by simpa [emit_items] using hlv))
            (fun st' h => by simpa [emit_items] using h)
      · exact Safe.mono (hS sub txt _ _ lv _ hw (by simpa [emit_items] using hlv))
          (fun st' h => by simpa [emit_items] using h)
    · exact hS sub txt _ _ lv st hw hlv
  · exact Safe.ok _ (by simp [emit_items])


theorem sTag_succ (cx : RCtx R) (hg : cx.guardIndexRead = true) (f : Nat) (hR : SRender cx f)
    (hI : SIf cx f) (hL : SLoop cx f) (hS : SSvar cx f) : STag cx (f + 1) := by
  intro t offset lv st s e hw ho hlv
  cases t with
  | var v =>
    simp only [renderTag]
    exact Safe.mono (renderVariable_safe cx hg st lv hlv v offset s e hw ho)
      (fun r h => ⟨h.1, by rw [h.2]; exact Nat.le_refl _⟩)
  | raw v =>
    simp only [renderTag]
    exact Safe.mono (renderRawVariable_safe cx hg st lv hlv v offset s e hw ho)
      (fun r h => ⟨h.1, by rw [h.2]; exact Nat.le_refl _⟩)
  | math ex off endOff =>
    simp only [renderTag]
    exact Safe.mono (renderMath_safe cx hg st lv hlv ex off endOff offset s e hw ho)
      (fun r h => ⟨h.1, by rw [h.2]; exact Nat.le_refl _⟩)
  | svar sub v off endOff =>
    simp only [wfTag] at hw
    split at hw
    · rename_i hc
      simp only [Bool.and_eq_true, decide_eq_true_eq, beq_iff_eq] at hc
      simp only [Option.some.injEq, Prod.mk.injEq] at hw
      obtain ⟨hs, he⟩ := hw
      subst hs he
      simp only [renderTag]
      apply Safe.bind (getValue_safe cx hg st lv hlv v hc.1.1.1)
      intro sVar _
      apply Safe.bind (slice_safe cx.content _ _ ho (by omega))
      intro pre _
      split
      · rename_i txt _
        apply Safe.bind (hS sub txt 0 0 lv (emit st pre) hc.2 (by simpa [emit_items] using hlv))
        intro st1 h1
        exact Safe.ok _ ⟨rfl, by simpa [emit_items] using h1⟩
      · apply Safe.bind (slice_safe cx.content _ _ hc.1.2.1 hc.1.2.2)
        intro src _
        exact Safe.ok _ ⟨rfl, by simp [emit_items]⟩
    · simp at hw
  | iif cs sub fl =>
    simp only [wfTag, Option.ite_none_right_eq_some] at hw
    · obtain ⟨hc, hse⟩ := hw
      simp only [Option.some.injEq, Prod.mk.injEq] at hse
      obtain ⟨hs, he⟩ := hse
      simp only [Bool.and_eq_true, decide_eq_true_eq] at hc
      subst hs he
      obtain ⟨⟨⟨hcs, hlen⟩, hT⟩, hF⟩ := hc
      simp only [renderTag]
      apply Safe.bind (slice_safe cx.content _ _ ho (by omega))
      intro pre _
      apply Safe.bind (evalExprs_safe cx hg (emit st pre) lv (by simpa [emit_items] using hlv) cs hcs)
      intro r _
      split
      · exact Safe.ok _ ⟨rfl, by simp [emit_items]⟩
      · rename_i pos _
        cases pos with
        | true =>
          simp only [↓reduceIte]
          split at hT
          · rename_i hlt
            simp only [Bool.and_eq_true, decide_eq_true_eq, wfSel_eq, List.drop_zero] at hT
            simp only [hlt, if_true]
            apply Safe.bind (takeChk_safe sub _ hT.1)
            intro tags htags
            subst htags
            apply Safe.bind (hR _ _ _ lv (emit st pre) hT.2 (by simpa [emit_items] using hlv))
            intro st1 h1
            exact Safe.ok _ ⟨rfl, by simpa [emit_items] using h1⟩
          · rename_i hlt
            simp only [Bool.and_eq_true, decide_eq_true_eq, wfSel_eq] at hT
            simp only [hlt, if_false]
            apply Safe.bind (dropChk_safe sub _ hT.1)
            intro tags htags
            subst htags
            have hT2 := hT.2
            rw [List.take_of_length_le (by simp)] at hT2
            apply Safe.bind (hR _ _ _ lv (emit st pre) hT2 (by simpa [emit_items] using hlv))
            intro st1 h1
            exact Safe.ok _ ⟨rfl, by simpa [emit_items] using h1⟩
        | false =>
          simp only [Bool.false_eq_true, ↓reduceIte]
          split at hF
          · rename_i hlt
            simp only [Bool.and_eq_true, decide_eq_true_eq, wfSel_eq, List.drop_zero] at hF
            simp only [hlt, if_true]
            apply Safe.bind (takeChk_safe sub _ hF.1)
            intro tags htags
            subst htags
            apply Safe.bind (hR _ _ _ lv (emit st pre) hF.2 (by simpa [emit_items] using hlv))
            intro st1 h1
            exact Safe.ok _ ⟨rfl, by simpa [emit_items] using h1⟩
          · rename_i hlt
            simp only [Bool.and_eq_true, decide_eq_true_eq, wfSel_eq] at hF
            simp only [hlt, if_false]
            apply Safe.bind (dropChk_safe sub _ hF.1)
            intro tags htags
            subst htags
            have hF2 := hF.2
            rw [List.take_of_length_le (by simp)] at hF2
            apply Safe.bind (hR _ _ _ lv (emit st pre) hF2 (by simpa [emit_items] using hlv))
            intro st1 h1
            exact Safe.ok _ ⟨rfl, by simpa [emit_items] using h1⟩
  | loop sub lf =>
    simp only [wfTag] at hw
    split at hw
    · rename_i hc
      simp only [Bool.and_eq_true, decide_eq_true_eq, Bool.or_eq_true, beq_iff_eq] at hc
      simp only [Option.some.injEq, Prod.mk.injEq] at hw
      obtain ⟨hs, he⟩ := hw
      subst hs he
      obtain ⟨⟨⟨hset, hgrp⟩, hrange⟩, hsub⟩ := hc
      simp only [renderTag]
      apply Safe.bind (slice_safe cx.content _ _ ho (by omega))
      intro pre _
      have hls : Safe (if lf.set.len ≠ 0 then getValue cx (emit st pre) lf.set else pure (some cx.root))
          (fun _ => True) := by
        split
        · rename_i hne
          rcases hset with h | h
          · exact absurd h hne
          · exact getValue_safe cx hg (emit st pre) lv (by simpa [emit_items] using hlv) lf.set h
        · exact Safe.ok _ trivial
      apply Safe.bind hls
      intro loopSet _
      split
      · exact Safe.ok _ ⟨rfl, by simp [emit_items]⟩
      · rename_i set0
        have hgr : Safe (if lf.groupLen ≠ 0 then (do
            let key ← slice cx.content (lf.off + lf.groupOff) (lf.off + lf.groupOff + lf.groupLen)
            pure (cx.groupBy set0 key)) else (pure (some set0) : Except Fault (Option Doc)))
            (fun _ => True) := by
          split
          · apply Safe.bind (slice_safe cx.content _ _ (by omega) hgrp)
            intro key _; exact Safe.ok _ trivial
          · exact Safe.ok _ trivial
        apply Safe.bind hgr
        intro grouped _
        split
        · exact Safe.ok _ ⟨rfl, by simp [emit_items]⟩
        · rename_i set1
          have hlen' : st.items.length ≤ (st.items ++ List.replicate (lf.level + 1 - st.items.length) ({} : LoopItem)).length := by
            simp
          have hlv' : max lv (lf.level + 1) ≤ (st.items ++ List.replicate (lf.level + 1 - st.items.length) ({} : LoopItem)).length := by
            simp; omega
          apply Safe.bind (hL sub lf _ _ 0 (max lv (lf.level + 1))
            { emit st pre with items := (emit st pre).items ++ List.replicate (lf.level + 1 - (emit st pre).items.length) ({} : LoopItem) }
            hsub (by simpa [emit_items] using hlv') (by simp [emit_items]; omega))
          intro st1 h1
          refine Safe.ok _ ⟨rfl, ?_⟩
          simp [emit_items] at h1
          simp only []
          omega
    · simp at hw
  | ifT cases off endOff =>
    simp only [wfTag] at hw
    split at hw
    · rename_i hc
      simp only [Bool.and_eq_true, decide_eq_true_eq] at hc
      simp only [Option.some.injEq, Prod.mk.injEq] at hw
      obtain ⟨hs, he⟩ := hw
      subst hs he
      simp only [renderTag]
      apply Safe.bind (slice_safe cx.content _ _ ho (by omega))
      intro pre _
      split
      · exact Safe.ok _ ⟨rfl, by simp [emit_items]⟩
      · split
        · exact Safe.ok _ ⟨rfl, by simp [emit_items]⟩
        · apply Safe.bind (hI _ lv (emit st pre) hc.2 (by simpa [emit_items] using hlv))
          intro st1 h1
          exact Safe.ok _ ⟨rfl, by simpa [emit_items] using h1⟩
    · simp at hw

theorem sAll (cx : RCtx R) (hg : cx.guardIndexRead = true) : ∀ f,
    SRender cx f ∧ STag cx f ∧ SIf cx f ∧ SLoop cx f ∧ SSvar cx f := by
  intro f
  induction f with
  | zero =>
    refine ⟨?_, ?_, ?_, ?_, ?_⟩
    · intro tags offset endO lv st _ _; simp only [render]; exact Safe.fuel
    · intro t offset lv st s e _ _ _; simp only [renderTag]; exact Safe.fuel
    · intro cases lv st _ _; simp only [ifCases]; exact Safe.fuel
    · intro sub lf set size idx lv st _ _ _; simp only [loopIter]; exact Safe.fuel
    · intro sub txt index lastIdx lv st _ _; simp only [svarLoop]; exact Safe.fuel
  | succ f ih =>
    obtain ⟨hR, hT, hI, hL, hS⟩ := ih
    exact ⟨sRender_succ cx f hR hT, sTag_succ cx hg f hR hI hL hS, sIf_succ cx hg f hR hI,
      sLoop_succ cx f hR hL, sSvar_succ cx hg f hS⟩

/-- `render_safe_of_wf`: rendering a well-formed tag tree performs no out-of-range access — for
every value, every amount of fuel, every formatter / group / sort parameter. -/
theorem render_safe_of_wf (cx : RCtx R) (hg : cx.guardIndexRead = true) (tags : List (Tag R))
    (hw : wf cx.content.length tags = true) (fuel : Nat) :
    Safe (renderTop cx tags fuel) (fun _ => True) := by
  unfold renderTop
  apply Safe.bind ((sAll cx hg fuel).1 tags 0 cx.content.length 0 {} hw (Nat.zero_le _))
  intro st _
  exact Safe.ok _ trivial

end

end Qentem.Tmpl
